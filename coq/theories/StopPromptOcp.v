(* StopPromptOcp.v — C19 on the WHOLE-LOOP PANOC-OCP model (PanocOcpLoop.v): promptness of stop() for a STICKY request.
   Same statements and proof structure as StopPrompt.v; for every number system, every forward / backward / Gauss-Newton / L-BFGS
   oracle (any storage, buffer and L-BFGS state types), every clock, every parameter set.
   PANOC-OCP polls like PANOC: once in its own copy of check_all_stop_conditions at the top of `while (true)` (NOTHING is evaluated
   between the top of a pass and that check, and nothing after it on exit: write_solution only reads the stored constraint values)
   and once per test of the line-search `while`.  Oracle calls = eval.forward + eval.backward + eval.forward_simulate.
   Constants: one line-search pass <= 3 oracle calls (forward+backward of the candidate, forward of x̂); after a poll that sees the
   request: <= 1 further poll, NO oracle call, no Gauss-Newton / L-BFGS call, *curr returned untouched. *)
From Coq Require Import List ZArith Bool Arith Lia.
From Alpaqa Require Import Num Vec Prox SolverStatus SolverKernels StopChain StopChainProofs PanocOcp.
From Alpaqa Require StopPrompt.
From Alpaqa Require Import PanocOcpLoop.
Import ListNotations.

Definition ocnt_le (a b : counters) : Prop :=
  (c_polls a <= c_polls b /\ c_fwd a <= c_fwd b /\ c_bwd a <= c_bwd b /\ c_sim a <= c_sim b /\ c_gn a <= c_gn b /\ c_lb a <= c_lb b /\
   c_cb a <= c_cb b)%nat.
Definition oevals (c : counters) : nat := (c_fwd c + c_bwd c + c_sim c)%nat.
Definition osticky (stop_req : counters -> bool) : Prop := forall c c', ocnt_le c c' -> stop_req c = true -> stop_req c' = true.
(* b is a after at most p polls, e oracle calls, d direction calls (Gauss-Newton solve or L-BFGS apply), cb callbacks *)
Definition oadv (a b : counters) (p e d cb : nat) : Prop :=
  ocnt_le a b /\ (c_polls b <= c_polls a + p /\ oevals b <= oevals a + e /\ c_gn b + c_lb b <= c_gn a + c_lb a + d /\ c_cb b <= c_cb a + cb)%nat.
Ltac ocnt_unfold :=
  unfold oadv, ocnt_le, oevals, inc_polls, inc_fwd, inc_bwd, inc_sim, inc_gn, inc_lb, inc_cb, cnt0 in *;
  cbn [c_polls c_fwd c_bwd c_sim c_gn c_lb c_cb] in *.
Ltac ocnt_solve := ocnt_unfold; lia.
Lemma ocnt_le_refl c : ocnt_le c c. Proof. ocnt_solve. Qed.
Lemma ocnt_le_trans a b c : ocnt_le a b -> ocnt_le b c -> ocnt_le a c. Proof. ocnt_solve. Qed.

Section PromptO.
  Context {T : Type} `{Num T}.
  Local Open Scope num_scope.
  Variables X QR DS : Type.
  Variable fwd : list T -> T * X.
  Variable sim : list T -> X.
  Variable bwd : list T -> X -> list T * QR.
  Variable cvals : X -> list T.
  Variable gn_step : nat -> list T -> X -> QR -> list bool -> list T -> list T.
  Variable lb_apply : DS -> list T -> T -> list nat -> bool * list T * DS.
  Variable lb_update : DS -> list T -> list T -> list T -> list T -> bool * DS.
  Variable lb_reset : DS -> DS.
  Variables (N nu : nat).
  Variables (Ulb Uub : list (option T)).
  Variables (Dlb Dub : list (option T)).
  Variable stop_req : counters -> bool.
  Variable time_up : counters -> bool.
  Variable P : params (T:=T).
  Variables (u_in y_in μ errz_in : list T).
  Variables (X0 : X) (ds0 : DS).
  Variable ls_fuel : nat.

  Notation it := (iterate (T:=T) X).
  Notation lsst := (ls_state (T:=T) X QR DS).
  Notation lstT := (lstate (T:=T) X QR DS).
  Notation lsloop := (ls_loop X QR DS fwd bwd lb_reset N nu Ulb Uub stop_req P).
  Notation pass_ := (pass X QR DS fwd bwd cvals gn_step lb_apply lb_update lb_reset N nu Ulb Uub Dlb Dub stop_req time_up P u_in y_in μ errz_in ls_fuel).
  Notation loop_ := (loop X QR DS fwd bwd cvals gn_step lb_apply lb_update lb_reset N nu Ulb Uub Dlb Dub stop_req time_up P u_in y_in μ errz_in ls_fuel).
  Notation run_ := (panoc_ocp X QR DS fwd sim bwd cvals gn_step lb_apply lb_update lb_reset N nu Ulb Uub Dlb Dub stop_req time_up P u_in y_in μ errz_in X0 ds0 ls_fuel).
  Notation eprox := (eval_prox X N nu Ulb Uub).
  Notation efwdh := (eval_forward_hat X fwd).
  Notation qubv := (it_qub_violated X P).
  Notation lsv := (it_ls_violated X P).
  Notation elb := (enable_lbfgs P).

  (* ------------------------------------------------------------------ the line search, one pass at a time *)
  Definition ols_pass (q : list T) (tau_init : T) (do_next_gn : bool) (s : lsst) : lsst + lsst :=
    let c0 := inc_polls (ls_cnt s) in
    let τ := ls_tau s in
    let curr := ls_curr s in
    let '(next, qr, c1, do_gn) :=
      if τ =? ls_tau_prev s then (ls_next s, ls_qr s, c0, ls_do_gn s)
      else if τ =? n0 then let r := take_safe_step X QR bwd curr (ls_next s) in (fst r, snd r, inc_bwd c0, ls_do_gn s)
      else let r := take_accel_step X QR fwd bwd τ q curr (ls_next s) in
           (fst r, snd r, inc_bwd (inc_fwd c0), if τ =? n1 then ls_do_gn s else do_next_gn) in
    let τ_prev := τ in
    let fail := (p_Lmax P <=? iL next) || negb (nfinite (ipsi next)) in
    if (n0 <? τ) && fail then
      inl (mkLs curr (set_gamma_L X next (igam curr) (iL curr)) n0 τ_prev do_gn
                (if elb then lb_reset (ls_ds s) else ls_ds s) qr c1 (ls_stats s))
    else
      let next1 := efwdh (eprox next) in
      let c2 := inc_fwd c1 in
      if (iL next1 <? p_Lmax P) && qubv next1 then
        inl (mkLs curr (halve_it X next1) (if n0 <? τ then tau_init else τ) τ_prev do_gn (ls_ds s) qr c2 (inc_sbt (ls_stats s)))
      else if (n0 <? τ) && lsv curr next1 then
        let τ1 := τ / n2 in
        let τ2 := if τ1 <? p_tau_min P then n0 else τ1 in
        inl (mkLs curr next1 τ2 τ_prev do_gn (ls_ds s) qr c2 (inc_lbt (ls_stats s)))
      else inr (mkLs curr next1 τ τ_prev do_gn (ls_ds s) qr c2 (ls_stats s)).

  Definition ols_stopped_at (s : lsst) : lsst :=
    mkLs (ls_curr s) (ls_next s) (ls_tau s) (ls_tau_prev s) (ls_do_gn s) (ls_ds s) (ls_qr s) (inc_polls (ls_cnt s)) (ls_stats s).

  Lemma ols_loop_unfold fuel q τi dng s :
    lsloop (S fuel) q τi dng s =
      if stop_req (ls_cnt s) then LsStopped (ols_stopped_at s)
      else match ols_pass q τi dng s with inl s1 => lsloop fuel q τi dng s1 | inr s2 => LsDone s2 end.
  Proof.
    cbn [ls_loop]. unfold ols_pass, ols_stopped_at. destruct (stop_req (ls_cnt s)); [reflexivity|]. cbv zeta.
    set (ph := if ls_tau s =? ls_tau_prev s then (ls_next s, ls_qr s, inc_polls (ls_cnt s), ls_do_gn s) else _).
    destruct ph as [[[next qr] c1] do_gn].
    repeat match goal with |- context [if ?b then _ else _] => destruct b end; reflexivity.
  Qed.

  Lemma ols_stops_now fuel q τi dng s : stop_req (ls_cnt s) = true -> lsloop (S fuel) q τi dng s = LsStopped (ols_stopped_at s).
  Proof. intros E. rewrite ols_loop_unfold, E. reflexivity. Qed.

  Definition ols_res_state (r : lsst + lsst) : lsst := match r with inl s => s | inr s => s end.

  (* the cost of ONE pass of the line-search loop: one poll, <= 3 oracle calls, no direction call, no callback *)
  Lemma ols_pass_adv q τi dng s :
    oadv (ls_cnt s) (ls_cnt (ols_res_state (ols_pass q τi dng s))) 1 3 0 0 /\
    c_polls (ls_cnt (ols_res_state (ols_pass q τi dng s))) = S (c_polls (ls_cnt s)).
  Proof.
    unfold ols_pass. cbv zeta.
    set (ph := if ls_tau s =? ls_tau_prev s then (ls_next s, ls_qr s, inc_polls (ls_cnt s), ls_do_gn s) else _).
    assert (F : oadv (inc_polls (ls_cnt s)) (snd (fst ph)) 0 2 0 0 /\ c_polls (snd (fst ph)) = S (c_polls (ls_cnt s))).
    { subst ph. destruct (ls_tau s =? ls_tau_prev s); [cbn [fst snd]; ocnt_solve|].
      destruct (ls_tau s =? n0); cbn [fst snd]; ocnt_solve. }
    destruct ph as [[[next qr] c1] do_gn]. cbn [fst snd] in F. destruct F as [F1 F2].
    repeat match goal with |- context [if ?b then _ else _] => destruct b end; cbn [ols_res_state ls_cnt]; ocnt_solve.
  Qed.

  Inductive ols_reach (q : list T) (τi : T) (dng : bool) : lsst -> lsst -> Prop :=
  | olr_refl s : ols_reach q τi dng s s
  | olr_step s s1 s2 : stop_req (ls_cnt s) = false -> ols_pass q τi dng s = inl s1 -> ols_reach q τi dng s1 s2 -> ols_reach q τi dng s s2.

  Lemma ols_reach_le q τi dng s s' : ols_reach q τi dng s s' -> ocnt_le (ls_cnt s) (ls_cnt s').
  Proof.
    induction 1 as [s|s s1 s2 _ Ep _ IH]; [apply ocnt_le_refl|].
    destruct (ols_pass_adv q τi dng s) as [A _]. rewrite Ep in A. cbn [ols_res_state] in A. destruct A as [A _].
    eapply ocnt_le_trans; [exact A|exact IH].
  Qed.
  Lemma ols_reach_curr q τi dng s s' : ols_reach q τi dng s s' -> ls_curr s' = ls_curr s.
  Proof.
    induction 1 as [s|s s1 s2 _ Ep _ IH]; [reflexivity|]. rewrite IH. clear IH. unfold ols_pass in Ep. cbv zeta in Ep.
    set (ph := if ls_tau s =? ls_tau_prev s then (ls_next s, ls_qr s, inc_polls (ls_cnt s), ls_do_gn s) else _) in Ep.
    destruct ph as [[[next qr] c1] do_gn].
    repeat match type of Ep with context [if ?b then _ else _] => destruct b end; inversion Ep; reflexivity.
  Qed.

  Lemma ols_reach_stops q τi dng s l : ols_reach q τi dng s l -> stop_req (ls_cnt l) = true ->
    forall fuel, lsloop fuel q τi dng s = LsFuel \/ lsloop fuel q τi dng s = LsStopped (ols_stopped_at l).
  Proof.
    induction 1 as [s|s s1 s2 Es Ep _ IH]; intros El [|fuel]; try (left; reflexivity).
    - right. now apply ols_stops_now.
    - rewrite ols_loop_unfold, Es, Ep. apply IH, El.
  Qed.

  (* ------------------------------------------------------------------ one pass of `while (true)` *)
  Definition otop_status (s : lstT) (ε : T) : status :=
    stop_status_ocp (o_tol P) ε (time_up (st_cnt s)) (st_k s) (p_max_iter P) (st_np s) (p_max_no_progress P) (stop_req (st_cnt s)).
  Definition opass_exit (s : lstT) (ε : T) (st : status) : outputs (T:=T) X :=
    let curr := st_curr s in
    let rec := mkCb (st_k s) curr [] (- n1) ε false 0%Z st in
    let '(uo, yo, eo) := exit_values X cvals Dlb Dub P u_in y_in μ errz_in st curr in
    mkOut st (st_k s) ε uo yo eo curr (st_stats s) (rev (rec :: st_log s)) (inc_cb (inc_polls (st_cnt s))).

  Lemma opass_exit_facts s ε st :
    let o := opass_exit s ε st in
    out_status o = st /\ out_iterations o = st_k s /\ out_eps o = ε /\ out_stats o = st_stats s /\
    out_cnt o = inc_cb (inc_polls (st_cnt s)) /\ out_final o = st_curr s /\
    (out_u o, out_y o, out_errz o) = exit_values X cvals Dlb Dub P u_in y_in μ errz_in st (st_curr s).
  Proof.
    unfold opass_exit. cbv zeta. destruct (exit_values X cvals Dlb Dub P u_in y_in μ errz_in st (st_curr s)) as [[uo yo] eo].
    repeat split.
  Qed.

  (* (b) a loop-top check that sees the request leaves the loop (or calc_error_stop_crit throws: an unsupported criterion) *)
  Theorem opass_exit_at_request s : stop_req (st_cnt s) = true ->
    match it_eps X N nu Ulb Uub P (st_curr s) with
    | None => pass_ s = PThrowCrit
    | Some ε => pass_ s = PExit (opass_exit s ε (otop_status s ε)) /\ otop_status s ε <> StBusy /\
                StopPrompt.exit_statuses (otop_status s ε) /\
                (otop_status s ε = StInterrupted <->
                   (nleb ε (eff_tol (o_tol P)) = false /\ time_up (st_cnt s) = false /\ st_k s <> p_max_iter P /\
                    nfinite ε = true /\ (st_np s <= p_max_no_progress P)%nat))
    end.
  Proof.
    intros E. unfold pass. destruct (it_eps X N nu Ulb Uub P (st_curr s)) as [ε|]; [|reflexivity]. cbv zeta.
    unfold otop_status. rewrite E.
    destruct (StopPrompt.chain_with_request (o_tol P) ε (time_up (st_cnt s)) (st_k s) (p_max_iter P) (st_np s) (p_max_no_progress P))
      as (A & B & C).
    cbv zeta in A, B, C. rewrite <- (ocp_chain_same (o_tol P) ε (time_up (st_cnt s)) (st_k s) (p_max_iter P) (st_np s) (p_max_no_progress P) true) in A, B, C.
    split; [|split; [exact A|split; [exact B|exact C]]].
    unfold opass_exit. cbv zeta.
    destruct (stop_status_ocp (o_tol P) ε (time_up (st_cnt s)) (st_k s) (p_max_iter P) (st_np s) (p_max_no_progress P) true) eqn:Est;
      [contradiction| | | | | | |];
      match goal with |- context [exit_values X cvals Dlb Dub P u_in y_in μ errz_in ?st ?c] =>
        destruct (exit_values X cvals Dlb Dub P u_in y_in μ errz_in st c) as [[uo yo] eo] end; reflexivity.
  Qed.

  (* the line-search start of a Busy pass, as the model builds it (None: logic_error) *)
  Definition opass_setup (s : lstT) : option (list T * T * bool * Z * lsst) :=
    let curr := st_curr s in
    let k := st_k s in
    let next0 := crit_scratch X N nu Ulb Uub P curr (st_next s) in
    let c1 := inc_polls (st_cnt s) in
    let did_gn := st_do_gn s in
    let γ := igam curr in
    let dir :=
      if p_disable_acc P then Some (n0, st_q s, st_nJ s, st_ds s, c1)
      else if st_do_gn s then
        let cl := classify (gn_class N Ulb Uub γ (st_q s)) (iu curr) (igrad curr) in
        let mask := map fst cl in
        Some (n1, gn_step (c_gn c1) (iu curr) (ix curr) (st_qr s) mask (map snd cl), count_true mask, st_ds s, inc_gn c1)
      else if negb elb then None
      else
        let cl := classify (lb_class N Ulb Uub γ (ip curr)) (iu curr) (igrad curr) in
        let mask := map fst cl in
        let '(ok, q', ds') := lb_apply (st_ds s) (map snd cl) γ (idx_true mask) in
        Some (if ok then n1 else n0, q', count_true mask, ds', inc_lb c1) in
    match dir with
    | None => None
    | Some (τ0, q, nJ, ds1, c2) =>
      let fin := vall_finite q in
      let tau_init := if fin then τ0 else n0 in
      let ds2 := if fin then ds1 else if did_gn then ds1 else lb_reset ds1 in
      let z := st_stats s in
      let stats1 := mkStats (s_stepsize_bt z) (s_ls_bt z) (s_ls_fail z)
                            (s_lbfgs_fail z + b2n ((tau_init =? n0) && (0 <? k)%nat)) (s_lbfgs_rej z)
                            (s_tau1 z) (s_count_tau z) (s_sum_tau z) in
      let do_next_gn := (0 <? p_gn_interval P)%nat && (Nat.modulo (S k) (p_gn_interval P) =? 0)%nat && negb (p_disable_acc P) in
      let do_gn1 := do_next_gn || (st_do_gn s && p_gn_sticky P) in
      Some (q, tau_init, do_next_gn, nJ,
            mkLs curr (set_gamma_L X next0 (igam curr) (iL curr)) tau_init (- n1) do_gn1 ds2 (st_qr s) c2 stats1)
    end.
  Definition opass_stopped (s : lstT) (q : list T) (nJ : Z) (l : lsst) : lstT :=
    mkSt (ls_curr l) (ls_next l) (st_k s) (st_np s) q (ls_qr l) (ls_ds l) (ls_do_gn l) nJ (ls_cnt l) (ls_stats l) (st_log s).

  (* the Busy pass whose line search is stopped *)
  Lemma opass_busy_stopped s ε q τi dng nJ ls0 l :
    it_eps X N nu Ulb Uub P (st_curr s) = Some ε -> otop_status s ε = StBusy -> opass_setup s = Some (q, τi, dng, nJ, ls0) ->
    lsloop ls_fuel q τi dng ls0 = LsStopped l -> pass_ s = PCont (opass_stopped s q nJ l).
  Proof.
    intros Ee Eb Es El. unfold pass. rewrite Ee. cbv zeta. unfold otop_status in Eb. rewrite Eb.
    unfold opass_setup in Es. cbv zeta in Es.
    match type of Es with match ?D with Some _ => _ | None => None end = _ => destruct D as [[[[[τ0 q'] nJ'] ds1] c2]|] eqn:Ed; [|discriminate] end.
    inversion Es; subst; clear Es. rewrite El. reflexivity.
  Qed.

  (* Busy: from the stop check to the first line-search test: no oracle call, at most one direction call *)
  Lemma osetup_adv s q τi dng nJ ls0 : opass_setup s = Some (q, τi, dng, nJ, ls0) -> oadv (st_cnt s) (ls_cnt ls0) 1 0 1 0 /\ ls_curr ls0 = st_curr s.
  Proof.
    unfold opass_setup. cbv zeta.
    destruct (p_disable_acc P); [intros E; inversion E; subst; cbn [ls_cnt ls_curr]; split; [ocnt_solve|reflexivity]|].
    destruct (st_do_gn s); [intros E; inversion E; subst; cbn [ls_cnt ls_curr]; split; [ocnt_solve|reflexivity]|].
    destruct (negb elb); [discriminate|].
    match goal with |- context [lb_apply ?a ?b ?c ?d] => destruct (lb_apply a b c d) as [[ok q'] ds'] end.
    intros E; inversion E; subst; cbn [ls_cnt ls_curr]; split; [ocnt_solve|reflexivity].
  Qed.

  (* ------------------------------------------------------------------ the polls of a run *)
  Record opollpt := mkOPP { opp_cnt : counters; opp_curr : it; opp_k : nat }.
  Inductive opolled_from : lstT -> opollpt -> Prop :=
  | opf_top s : opolled_from s (mkOPP (st_cnt s) (st_curr s) (st_k s))
  | opf_ls s ε q τi dng nJ ls0 l : it_eps X N nu Ulb Uub P (st_curr s) = Some ε -> otop_status s ε = StBusy ->
      opass_setup s = Some (q, τi, dng, nJ, ls0) -> ols_reach q τi dng ls0 l ->
      opolled_from s (mkOPP (ls_cnt l) (st_curr s) (st_k s))
  | opf_next s s' pp : pass_ s = PCont s' -> opolled_from s' pp -> opolled_from s pp.

  Definition oprompt_after (pp : opollpt) (o : outputs (T:=T) X) : Prop :=
    out_status o <> StBusy /\ StopPrompt.exit_statuses (out_status o) /\
    oadv (opp_cnt pp) (out_cnt o) 2 0 0 1 /\                       (* <= 1 further poll, NO oracle call, no direction call, final callback *)
    out_iterations o = opp_k pp /\ out_final o = opp_curr pp /\
    (out_u o, out_y o, out_errz o) = exit_values X cvals Dlb Dub P u_in y_in μ errz_in (out_status o) (opp_curr pp).

  Hypothesis Hsticky : osticky stop_req.

  Theorem oloop_stop_prompt : forall fuel s o, loop_ fuel s = Done o ->
    forall pp, opolled_from s pp -> stop_req (opp_cnt pp) = true -> oprompt_after pp o.
  Proof.
    induction fuel as [|fuel IH]; intros s o Hr pp Hp Hs; [discriminate|]. cbn [loop] in Hr.
    destruct Hp as [s|s ε q τi dng nJ ls0 l Ee Eb Eset Hreach|s s' pp Ep Hp'].
    - cbn [opp_cnt] in Hs. pose proof (opass_exit_at_request s Hs) as Hx.
      destruct (it_eps X N nu Ulb Uub P (st_curr s)) as [ε|]; [|rewrite Hx in Hr; discriminate].
      destruct Hx as (Ep & B & C & _). rewrite Ep in Hr. inversion Hr; subst o.
      destruct (opass_exit_facts s ε (otop_status s ε)) as (F1 & F2 & F3 & F4 & F5 & F6 & F7). cbv zeta in *.
      unfold oprompt_after. cbn [opp_cnt opp_curr opp_k]. rewrite F1, F2, F5, F6.
      split; [exact B|]. split; [exact C|]. split; [ocnt_solve|]. split; [reflexivity|]. split; [reflexivity|exact F7].
    - cbn [opp_cnt] in Hs.
      destruct (ols_reach_stops q τi dng ls0 l Hreach Hs ls_fuel) as [Ef|Ef].
      { exfalso. unfold pass in Hr. rewrite Ee in Hr. cbv zeta in Hr. unfold otop_status in Eb. rewrite Eb in Hr.
        unfold opass_setup in Eset. cbv zeta in Eset.
        match type of Eset with match ?D with Some _ => _ | None => None end = _ => destruct D as [[[[[τ0 q'] nJ'] ds1] c2]|] eqn:Ed; [|discriminate] end.
        inversion Eset; subst; clear Eset. rewrite Ef in Hr. discriminate. }
      rewrite (opass_busy_stopped s ε q τi dng nJ ls0 _ Ee Eb Eset Ef) in Hr.
      destruct fuel as [|fuel]; [discriminate|]. cbn [loop] in Hr.
      set (s' := opass_stopped s q nJ (ols_stopped_at l)) in *.
      assert (Ecnt : st_cnt s' = inc_polls (ls_cnt l)) by reflexivity.
      assert (Ecur : st_curr s' = st_curr s).
      { subst s'. unfold opass_stopped, ols_stopped_at. cbn [st_curr ls_curr]. rewrite (ols_reach_curr _ _ _ _ _ Hreach).
        destruct (osetup_adv _ _ _ _ _ _ Eset) as [_ Ec]. exact Ec. }
      assert (Hs' : stop_req (st_cnt s') = true).
      { apply (Hsticky (ls_cnt l)); [|exact Hs]. rewrite Ecnt. ocnt_solve. }
      pose proof (opass_exit_at_request s' Hs') as Hx.
      destruct (it_eps X N nu Ulb Uub P (st_curr s')) as [ε'|]; [|rewrite Hx in Hr; discriminate].
      destruct Hx as (Ep & B & C & _). rewrite Ep in Hr. inversion Hr; subst o.
      destruct (opass_exit_facts s' ε' (otop_status s' ε')) as (F1 & F2 & F3 & F4 & F5 & F6 & F7). cbv zeta in *.
      unfold oprompt_after. cbn [opp_cnt opp_curr opp_k]. rewrite F1, F2, F5, F6, Ecnt, Ecur.
      split; [exact B|]. split; [exact C|]. split; [ocnt_solve|]. split; [reflexivity|]. split; [reflexivity|].
      rewrite F7, Ecur. reflexivity.
    - rewrite Ep in Hr. exact (IH s' o Hr pp Hp' Hs).
  Qed.

  (* ------------------------------------------------------------------ operator() *)
  Notation initL := (init_L X QR fwd sim bwd P u_in X0).
  Notation initqub := (init_qub X fwd N nu Ulb Uub P).
  Definition ocp_start (s0 : lstT) : Prop :=
    exists i0 nx0 qr0 c0 i3 c1 z1, initL = (i0, nx0, qr0, c0) /\ nfinite (iL i0) = true /\
      initqub ls_fuel (first_iterate X fwd N nu Ulb Uub P i0) (inc_fwd c0) stats0 = Some (i3, c1, z1) /\
      s0 = mkSt i3 nx0 0 0 [] qr0 ds0 ((0 <? p_gn_interval P)%nat && negb (p_disable_acc P)) (-1)%Z c1 z1 [].
  Definition ocp_polled (pp : opollpt) : Prop := exists s0, ocp_start s0 /\ opolled_from s0 pp.

  Lemma ocp_done_start fuel o : run_ fuel = Done o -> exists s0, ocp_start s0 /\ loop_ fuel s0 = Done o.
  Proof.
    unfold panoc_ocp. destruct initL as [[[i0 nx0] qr0] c0] eqn:E0. destruct (nfinite (iL i0)) eqn:Ef; cbn [negb]; [|discriminate].
    destruct (initqub ls_fuel _ (inc_fwd c0) stats0) as [[[i3 c1] z1]|] eqn:Eq; [|discriminate].
    intros Hr. eexists. split; [|exact Hr]. exists i0, nx0, qr0, c0, i3, c1, z1. repeat split; assumption.
  Qed.

  Theorem ocp_stop_prompt fuel o : run_ fuel = Done o ->
    forall pp, ocp_polled pp -> stop_req (opp_cnt pp) = true -> oprompt_after pp o.
  Proof.
    intros Hr pp (s0 & Hs0 & Hp) Hs. destruct (ocp_done_start fuel o Hr) as (s0' & Hs0' & Hl).
    assert (s0' = s0).
    { destruct Hs0 as (i0 & nx0 & qr0 & c0 & i3 & c1 & z1 & E0 & _ & Eq & ->).
      destruct Hs0' as (i0' & nx0' & qr0' & c0' & i3' & c1' & z1' & E0' & _ & Eq' & ->).
      rewrite E0 in E0'. inversion E0'; subst. rewrite Eq in Eq'. inversion Eq'; subst. reflexivity. }
    subst s0'. exact (oloop_stop_prompt fuel s0 o Hl pp Hp Hs).
  Qed.

  Lemma oinit_qub_cnt : forall fuel i c z i' c' z', initqub fuel i c z = Some (i', c', z') ->
    ocnt_le c c' /\ c_polls c' = c_polls c /\ c_gn c' = c_gn c /\ c_lb c' = c_lb c /\ c_cb c' = c_cb c /\
    (oevals c' + s_stepsize_bt z = oevals c + s_stepsize_bt z')%nat.
  Proof.
    induction fuel as [|fuel IH]; intros i c z i' c' z'; cbn [init_qub];
      destruct ((iL i <? p_Lmax P) && qubv i); try discriminate.
    1,3: intros E; inversion E; subst; repeat split; try apply ocnt_le_refl; reflexivity.
    intros E. destruct (IH _ _ _ _ _ _ E) as (A1 & A2 & A3 & A4 & A5 & A6).
    unfold inc_sbt in A6. cbn [s_stepsize_bt] in A6. ocnt_unfold; repeat split; lia.
  Qed.
  Lemma oinit_L_cnt : let c := snd initL in
    c_polls c = 0%nat /\ c_gn c = 0%nat /\ c_lb c = 0%nat /\ c_cb c = 0%nat /\ (oevals c <= 4)%nat.
  Proof.
    unfold init_L. cbv zeta.
    match goal with |- context [eval_backward X QR bwd ?i] => destruct (eval_backward X QR bwd i) as [c2 qr1] end.
    destruct (p_L0 P <=? n0); cbn [snd]; ocnt_unfold; repeat split; lia.
  Qed.

  (* request visible before the solve starts: start-up + ONE stop check; <= 5 oracle calls + the initial step-size halvings *)
  Theorem ocp_stop_before_start fuel o : run_ fuel = Done o -> stop_req cnt0 = true ->
    out_status o <> StBusy /\ StopPrompt.exit_statuses (out_status o) /\
    out_iterations o = 0%nat /\ c_polls (out_cnt o) = 1%nat /\ c_gn (out_cnt o) = 0%nat /\ c_lb (out_cnt o) = 0%nat /\
    c_cb (out_cnt o) = 1%nat /\ (oevals (out_cnt o) <= 5 + s_stepsize_bt (out_stats o))%nat.
  Proof.
    intros Hr H0. destruct (ocp_done_start fuel o Hr) as (s0 & (i0 & nx0 & qr0 & c0 & i3 & c1 & z1 & E0 & _ & Eq & ->) & Hl).
    pose proof oinit_L_cnt as A. cbv zeta in A. rewrite E0 in A. cbn [snd] in A. destruct A as (A1 & A2 & A3 & A4 & A5).
    destruct (oinit_qub_cnt _ _ _ _ _ _ _ Eq) as (B1 & B2 & B3 & B4 & B5 & B6). cbn [stats0 s_stepsize_bt] in B6.
    set (s0 := mkSt i3 nx0 0 0 [] qr0 ds0 _ (-1)%Z c1 z1 []) in *.
    assert (Hs : stop_req (st_cnt s0) = true) by (apply (Hsticky cnt0); [subst s0; cbn [st_cnt]; ocnt_solve|exact H0]).
    destruct fuel as [|fuel]; [discriminate|]. cbn [loop] in Hl.
    pose proof (opass_exit_at_request s0 Hs) as Hx.
    destruct (it_eps X N nu Ulb Uub P (st_curr s0)) as [ε|]; [|rewrite Hx in Hl; discriminate].
    destruct Hx as (Ep & B & C & _). rewrite Ep in Hl. inversion Hl; subst o.
    destruct (opass_exit_facts s0 ε (otop_status s0 ε)) as (F1 & F2 & F3 & F4 & F5 & _). cbv zeta in *.
    rewrite F1, F2, F4, F5. subst s0. cbn [st_cnt st_stats st_k].
    split; [exact B|]. split; [exact C|]. split; [reflexivity|]. ocnt_unfold. repeat split; lia.
  Qed.
End PromptO.
Arguments mkOPP {T X}. Arguments opp_cnt {T X}. Arguments opp_curr {T X}. Arguments opp_k {T X}.
