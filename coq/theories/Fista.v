(* Fista.v — model of FISTASolver::operator() (implementation/inner/fista.tpp), m = 0 (ψ = f).
   The scalar kernels (momentum recurrence, extrapolation, QUB test, backtracking updates, γ = Lγ/L) are NOT
   written here: the model takes them as a record `kernels`; Corr_C08.v / FistaGenProofs.v instantiate it with the
   functions that translate/gen_C08_fista.py regenerates from fista.tpp on every run (coq/gen/FistaGen.v).
   What is hand-written here is the loop skeleton (order of prox step / ψ(x̂) / backtracking / t update /
   extrapolation / re-evaluation of ψ, ∇ψ) and the initial Lipschitz estimate of panoc-helpers.tpp.
   Not modelled: stop criteria / status chain (C06), timing, the no-progress counter, m > 0.
   No proofs here. *)
From Coq Require Import List ZArith Bool.
From Alpaqa Require Import Num Vec Prox.
Import ListNotations.

Section Fista.
  Context {T : Type} `{Num T}.
  Local Open Scope num_scope.

  Record kernels := {
    k_tnext : T -> T;                          (* t_new = ... *)
    k_extrap : T -> T -> T -> T -> T;          (* t_prev t(new) x̂ prev_x̂ -> component of the next x *)
    k_qubv : T -> T -> T -> T -> T -> T -> bool; (* ψx ψx̂ ∇ψᵀp L pᵀp tol -> QUB violated *)
    k_guard : T -> T -> bool;                  (* L L_max -> may still backtrack *)
    k_btgam : T -> T;                          (* γ /= 2 *)
    k_btL : T -> T;                            (* L *= 2 *)
    k_gamofL : T -> T -> T                     (* Lγ_factor L -> γ *)
  }.

  Record params := {
    p_Lgam : T;      (* Lipschitz.Lγ_factor *)
    p_Lmin : T; p_Lmax : T;
    p_L0 : T;        (* Lipschitz.L_0 *)
    p_eps : T;       (* Lipschitz.ε *)
    p_del : T;       (* Lipschitz.δ *)
    p_tol : T;       (* quadratic_upperbound_tolerance_factor *)
    p_noaccel : bool (* disable_acceleration *)
  }.

  Variable K : kernels.
  Variable f : list T -> T.                 (* ψ (m = 0): eval_ψ / eval_f *)
  Variable gradf : list T -> list T.        (* ∇ψ *)
  Variables (lb ub : list (option T)) (l1 : list T).   (* BoxConstrProblem C, l1_reg *)
  Variable P : params.

  (* the variables of `Iterate` that survive from one iteration to the next, plus t.
     s_xh is curr->x̂ at the top of the loop = x̂ of the previous iteration (x₀ initially). *)
  Record state := mkState {
    s_x : list T; s_xh : list T; s_psi : T; s_g : list T; s_gam : T; s_L : T; s_t : T }.

  (* result of eval_prox_grad_step( *curr ) followed by eval_ψx̂( *curr ) *)
  Record proxout := mkOut {
    o_xh : list T; o_p : list T; o_h : T; o_pp : T; o_gp : T; o_psih : T }.

  Definition prox_eval (gam : T) (x g : list T) : proxout :=
    let '(xh, p, h) := eval_prox_grad_step lb ub l1 gam x g in
    mkOut xh p h (vsqnorm p) (vdot p g) (f xh).

  (* while (curr->L < params.L_max && qub_violated( *curr )) { γ /= 2; L *= 2; step; ψ(x̂); ++backtracks } *)
  Fixpoint backtrack (fuel : nat) (gam L : T) (x g : list T) (psx : T) (o : proxout) (nbt : nat)
    : option (T * T * proxout * nat) :=
    if k_guard K L (p_Lmax P) && k_qubv K psx (o_psih o) (o_gp o) L (o_pp o) (p_tol P) then
      match fuel with
      | O => None
      | S fuel' =>
          let gam' := k_btgam K gam in
          let L' := k_btL K L in
          backtrack fuel' gam' L' x g psx (prox_eval gam' x g) (S nbt)
      end
    else Some (gam, L, o, nbt).

  (* std::clamp(v, lo, hi) *)
  Definition clamp (v lo hi : T) : T := if v <? lo then lo else if hi <? v then hi else v.

  (* PANOCHelpers::initial_lipschitz_estimate (the overload that also returns ψ) *)
  Definition lipschitz_fd (x g : list T) : T * list T :=
    let eg := vscale (p_eps P) g in
    let h := map2 (fun gi egi => if n0 <? gi then cmax egi (p_del P) else cmin egi (- (p_del P))) g eg in
    let wx := vsub x h in                       (* work_x = curr->x̂ (!) *)
    let g2 := gradf wx in
    (clamp (vnorm2 (vsub g2 g) / vnorm2 h) (p_Lmin P) (p_Lmax P), wx).

  Definition fixed_lipschitz : bool := p_Lmin P =? p_Lmax P.

  (* initialisation; None = the `not isfinite(L)` early return (status NotFinite).
     The finite-difference estimate uses curr->x̂ as its work vector, so in that branch the "previous x̂" seen by the
     first extrapolation is x0 - h, not x0 (harmless as long as its coefficient (t_0 - 1)/t_1 is exactly 0). *)
  Definition init (x0 : list T) : option state :=
    let g := gradf x0 in
    let '(L, xh0) := if fixed_lipschitz then (p_Lmax P, x0)
                     else if p_L0 P <=? n0 then lipschitz_fd x0 g
                     else (p_L0 P, x0) in
    if nfinite L then Some (mkState x0 xh0 (f x0) g (k_gamofL K (p_Lgam P) L) L n1) else None.

  (* one pass through the main loop (no stop test): returns the new state, the data shown to the progress
     callback for this k, and the number of backtracking steps *)
  Definition step (fuel : nat) (s : state) : option (state * proxout * nat) :=
    let o0 := prox_eval (s_gam s) (s_x s) (s_g s) in
    match backtrack fuel (s_gam s) (s_L s) (s_x s) (s_g s) (s_psi s) o0 0 with
    | None => None
    | Some (gam, L, o, nbt) =>
        let t' := k_tnext K (s_t s) in
        let x' := if p_noaccel P then o_xh o
                  else map2 (k_extrap K (s_t s) t') (o_xh o) (s_xh s) in
        Some (mkState x' (o_xh o) (f x') (gradf x') gam L t', o, nbt)
    end.

  Fixpoint run (fuel n : nat) (s : state) : option state :=
    match n with
    | O => Some s
    | S n' => match step fuel s with
              | None => None
              | Some (s', _, _) => run fuel n' s'
              end
    end.

  (* momentum sequence alone *)
  Fixpoint titer (n : nat) (t : T) : T :=
    match n with O => t | S n' => titer n' (k_tnext K t) end.
End Fista.

(* convex quadratic cost ½ xᵀQx + cᵀx with Q given by rows; evaluation order = the driver's explicit loops *)
Section QP.
  Context {T : Type} `{Num T}.
  Local Open Scope num_scope.
  Definition matvec (Q : list (list T)) (x : list T) : list T := map (fun row => vdot row x) Q.
  Definition qp_f (Q : list (list T)) (c x : list T) : T :=
    (n1 / n2) * vdot x (matvec Q x) + vdot c x.
  Definition qp_grad (Q : list (list T)) (c x : list T) : list T := vadd (matvec Q x) c.
End QP.
