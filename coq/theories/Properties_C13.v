(* Properties_C13.v — C13: PANOC-OCP `Converged` certifies input-constrained stationarity of the OCP.
   Only theorem statements closed by `exact`, each followed by Print Assumptions, plus non-vacuity examples.
   The exit-status function `stop_status_ocp` is GENERATED from panoc-ocp.tpp on every run (gen/StopChain.v). *)
From Coq Require Import Reals List ZArith Lra Lia Bool.
From Alpaqa Require Import Num NumR Vec Prox ProxProofs ProxVec SolverStatus SolverKernels SolverKernelsProofs
                           StopChain StopChainProofs Ocp OcpProofs PanocOcp PanocOcpProofs.
Import ListNotations.
Local Open Scope R_scope.

(* (a) Converged <-> ε_k <= tolerance (opts.tolerance if positive, else 1e-8) — for every time/iteration/no-progress/stop state *)
Theorem C13_converged_iff_eps_le_tol : forall (tol eps : R) te k mi np mnp sr,
  stop_status_ocp tol eps te k mi np mnp sr = StConverged <-> eps <= eff_tol tol.
Proof. exact ocp_converged_iff. Qed.
Print Assumptions C13_converged_iff_eps_le_tol.

Theorem C13_ocp_chain_is_the_shared_chain : forall (tol eps : R) te k mi np mnp sr,
  stop_status_ocp tol eps te k mi np mnp sr = stop_status_helpers tol eps te k mi np mnp sr.
Proof. exact (fun tol eps => ocp_chain_same tol eps). Qed.
Print Assumptions C13_ocp_chain_is_the_shared_chain.

Theorem C13_maxiter_only_at_limit : forall (tol eps : R) te k mi np mnp sr,
  stop_status_ocp tol eps te k mi np mnp sr = StMaxIter -> k = mi.
Proof. exact ocp_maxiter_only_at_limit. Qed.
Print Assumptions C13_maxiter_only_at_limit.

(* (b) the returned inputs are û_k = u_k + p_k, the componentwise projection of u_k − γ∇ψ(u_k) onto U: they lie in U *)
Theorem C13_uhat_is_projected_step : forall Ulb Uub N γ (u g : list R) n,
  length (tile N Ulb) = n -> length (tile N Uub) = n -> length u = n -> length g = n ->
  forall i, (i < n)%nat ->
  let r := ocp_prox Ulb Uub N γ u g in
  nth i (fst (fst (fst r))) 0 = proj1 (nth i (tile N Ulb) None) (nth i (tile N Uub) None) (nth i u 0 - γ * nth i g 0) /\
  nth i (snd (fst (fst r))) 0 = nth i (fst (fst (fst r))) 0 - nth i u 0.
Proof. exact ocp_uhat_component. Qed.
Print Assumptions C13_uhat_is_projected_step.

Theorem C13_uhat_in_input_box : forall Ulb Uub N γ (u g : list R) n,
  length (tile N Ulb) = n -> length (tile N Uub) = n -> length u = n -> length g = n ->
  forall i, (i < n)%nat -> box_ne (nth i (tile N Ulb) None) (nth i (tile N Uub) None) ->
  in_box (nth i (tile N Ulb) None) (nth i (tile N Uub) None) (nth i (fst (fst (fst (ocp_prox Ulb Uub N γ u g)))) 0).
Proof. exact ocp_uhat_in_box. Qed.
Print Assumptions C13_uhat_in_input_box.

Theorem C13_exit_returns_uhat_or_keeps_u : forall st always (u_in uh : list R),
  (st = StConverged \/ st = StInterrupted \/ always = true -> ocp_exit st always u_in uh = uh) /\
  (st <> StConverged -> st <> StInterrupted -> always = false -> ocp_exit st always u_in uh = u_in).
Proof. exact ocp_exit_spec. Qed.
Print Assumptions C13_exit_returns_uhat_or_keeps_u.

(* (c) criterion: the six supported criteria equal their documented formulas on (u_k, û_k, γ_k); the others are rejected *)
Theorem C13_criterion_matches_documentation : forall c Ulb Uub N γ (u g : list R) e, γ <> 0 ->
  let st := proj_grad_step (tile N Ulb) (tile N Uub) γ u g in
  ocp_crit c Ulb Uub N γ u g (snd (fst st)) = Some e ->
  e = crit_doc c (tile N Ulb) (tile N Uub) γ u (fst (fst st)) [] g [].
Proof. exact ocp_crit_matches_doc. Qed.
Print Assumptions C13_criterion_matches_documentation.

Theorem C13_unsupported_criteria_rejected : forall c Ulb Uub N γ (u g p : list R),
  ocp_crit c Ulb Uub N γ u g p = None <-> (c = ApproxKKT \/ c = ApproxKKT2 \/ c = Ipopt \/ c = LBFGSBpp).
Proof. exact ocp_crit_rejects. Qed.
Print Assumptions C13_unsupported_criteria_rejected.

Theorem C13_supported_criteria_evaluated : forall c Ulb Uub N γ (u g p : list R),
  (exists e, ocp_crit c Ulb Uub N γ u g p = Some e) <-> supported c = true.
Proof. exact ocp_crit_supported_iff. Qed.
Print Assumptions C13_supported_criteria_evaluated.

(* Converged certifies: the documented projected-gradient residual of the selected criterion at (u_k, γ_k) is <= tolerance *)
Theorem C13_converged_certifies_residual : forall c Ulb Uub N γ (u g : list R) (tol eps : R) te k mi np mnp sr, γ <> 0 ->
  let st := proj_grad_step (tile N Ulb) (tile N Uub) γ u g in
  ocp_crit c Ulb Uub N γ u g (snd (fst st)) = Some eps ->
  stop_status_ocp tol eps te k mi np mnp sr = StConverged ->
  crit_doc c (tile N Ulb) (tile N Uub) γ u (fst (fst st)) [] g [] <= eff_tol tol.
Proof. exact ocp_converged_certifies. Qed.
Print Assumptions C13_converged_certifies_residual.

(* ... and the gradient fed to the criterion is the derivative of the forward cost (C12; the chain rule is assumed) *)
Theorem C13_gradient_is_derivative_of_forward_cost : forall nx nu nc ncN Dlb Dub DNlb DNub st qNc JcN cN yN μN,
  let ls := map (lin_of nx nc Dlb Dub) st in
  let qN := qN_of nx ncN DNlb DNub qNc JcN cN yN μN in
  Forall (wf_lin nx nu) ls -> length qN = nx ->
  forall δus, length δus = length st -> Forall (fun δu : list R => length δu = nu) δus ->
  dots (fst (fst (fst (backward nx nu nc ncN Dlb Dub DNlb DNub st qNc JcN cN yN μN)))) δus
  = lin_cost ls qN (vconst nx 0) δus.
Proof. exact backward_gradient_is_derivative. Qed.
Print Assumptions C13_gradient_is_derivative_of_forward_cost.

(* (d) multipliers and constraint errors written by write_solution, per row (stage or terminal):
       err = c(x̂) − Π_D(c(x̂) + y/μ),  y_out = y + μ·err = ŷ,  err = (ŷ − y)/μ, signs and complementarity as for the general solvers *)
Theorem C13_multiplier_relations : forall lb ub (c y μ : R), 0 < μ ->
  snd (ocp_write1 lb ub c y μ) = c - proj1 lb ub (c + y / μ) /\
  fst (ocp_write1 lb ub c y μ) = y + μ * snd (ocp_write1 lb ub c y μ) /\
  fst (ocp_write1 lb ub c y μ) = yhat1 lb ub c y μ.
Proof. exact ocp_write1_spec. Qed.
Print Assumptions C13_multiplier_relations.

Theorem C13_multiplier_signs : forall lb ub (c y μ : R), 0 < μ -> box_ne lb ub ->
  let yo := fst (ocp_write1 lb ub c y μ) in
  (lb = None -> 0 <= yo) /\ (ub = None -> yo <= 0) /\
  (0 < yo -> exists u', ub = Some u' /\ u' < c + y / μ) /\ (yo < 0 -> exists l', lb = Some l' /\ c + y / μ < l').
Proof. exact ocp_write1_signs. Qed.
Print Assumptions C13_multiplier_signs.

Theorem C13_errz_same_relation_as_general_solvers : forall lb ub (c y μ : R), 0 < μ ->
  snd (ocp_write1 lb ub c y μ) = errz1 (fst (ocp_write1 lb ub c y μ)) y μ.
Proof. exact ocp_write1_errz. Qed.
Print Assumptions C13_errz_same_relation_as_general_solvers.

(* ---- non-vacuity: a converged state with one saturated and one free input (N = 1, nu = 2, U = [-1,1] x (-inf,inf)) *)
Example C13_nonvacuous :
  let Ulb := [Some (-1); None] in let Uub := [Some 1; None] in
  let u := [1; 0] in let g := [-3; / 1024] in let γ := / 2 in
  let st := proj_grad_step (tile 1 Ulb) (tile 1 Uub) γ u g in
  fst (fst st) = [1; - / 2048] /\
  ocp_crit ProjGradNorm Ulb Uub 1 γ u g (snd (fst st)) = Some (vnorminf (snd (fst st))) /\
  stop_status_ocp (/ 1000) (/ 2048) false 7 100 0 10 false = StConverged.
Proof.
  cbv zeta. split; [|split].
  - unfold proj_grad_step, tile. cbn. unfold proj_step1, clamp_lo, clamp_hi, osub. numR. rbool; repeat f_equal; lra.
  - reflexivity.
  - apply ocp_converged_iff. rewrite ocp_eff_tol_pos; lra.
Qed.
