(* Properties_C13.v — C13: PANOC-OCP `Converged` certifies input-constrained stationarity of the OCP.
   Only theorem statements closed by `exact`, each followed by Print Assumptions, plus non-vacuity examples.
   The exit-status function `stop_status_ocp` is GENERATED from panoc-ocp.tpp on every run (gen/StopChain.v). *)
From Coquelicot Require Import Coquelicot.
From Coq Require Import Reals List ZArith Lra Lia Bool.
From Flocq Require Import Raux.
From Alpaqa Require Import Num NumR Vec Prox ProxProofs ProxVec SolverStatus SolverKernels SolverKernelsProofs
                           StopChain StopChainProofs Ocp OcpProofs PanocOcp PanocOcpProofs PanocOcpLoop PanocOcpLoopProofs PanocOcpE2E PanocOcpE2EDeriv.
Import ListNotations.
Local Open Scope R_scope.

(* (a) Converged <-> ε_k <= tolerance (opts.tolerance if positive, else 1e-8) — for every time/iteration/no-progress/stop state *)
Theorem C13_converged_iff_eps_le_tol : forall (tol eps : R) te k mi np mnp sr,
  stop_status_ocp tol eps te k mi np mnp sr = StConverged <-> eps <= eff_tol tol.
Proof. exact ocp_converged_iff. Qed.
Print Assumptions C13_converged_iff_eps_le_tol.

Theorem C13_ocp_chain_is_the_shared_chain : forall (tol eps : R) te k mi np mnp sr,
  stop_status_ocp tol eps te k mi np mnp sr = stop_status_helpers tol eps te k mi np mnp sr.
Proof. exact (fun tol eps => ocp_chain_same tol eps). Qed.
Print Assumptions C13_ocp_chain_is_the_shared_chain.

Theorem C13_maxiter_only_at_limit : forall (tol eps : R) te k mi np mnp sr,
  stop_status_ocp tol eps te k mi np mnp sr = StMaxIter -> k = mi.
Proof. exact ocp_maxiter_only_at_limit. Qed.
Print Assumptions C13_maxiter_only_at_limit.

(* (b) the returned inputs are û_k = u_k + p_k, the componentwise projection of u_k − γ∇ψ(u_k) onto U: they lie in U *)
Theorem C13_uhat_is_projected_step : forall Ulb Uub N γ (u g : list R) n,
  length (tile N Ulb) = n -> length (tile N Uub) = n -> length u = n -> length g = n ->
  forall i, (i < n)%nat ->
  let r := ocp_prox Ulb Uub N γ u g in
  nth i (fst (fst (fst r))) 0 = proj1 (nth i (tile N Ulb) None) (nth i (tile N Uub) None) (nth i u 0 - γ * nth i g 0) /\
  nth i (snd (fst (fst r))) 0 = nth i (fst (fst (fst r))) 0 - nth i u 0.
Proof. exact ocp_uhat_component. Qed.
Print Assumptions C13_uhat_is_projected_step.

Theorem C13_uhat_in_input_box : forall Ulb Uub N γ (u g : list R) n,
  length (tile N Ulb) = n -> length (tile N Uub) = n -> length u = n -> length g = n ->
  forall i, (i < n)%nat -> box_ne (nth i (tile N Ulb) None) (nth i (tile N Uub) None) ->
  in_box (nth i (tile N Ulb) None) (nth i (tile N Uub) None) (nth i (fst (fst (fst (ocp_prox Ulb Uub N γ u g)))) 0).
Proof. exact ocp_uhat_in_box. Qed.
Print Assumptions C13_uhat_in_input_box.

Theorem C13_exit_returns_uhat_or_keeps_u : forall st always (u_in uh : list R),
  (st = StConverged \/ st = StInterrupted \/ always = true -> ocp_exit st always u_in uh = uh) /\
  (st <> StConverged -> st <> StInterrupted -> always = false -> ocp_exit st always u_in uh = u_in).
Proof. exact ocp_exit_spec. Qed.
Print Assumptions C13_exit_returns_uhat_or_keeps_u.

(* (c) criterion: the six supported criteria equal their documented formulas on (u_k, û_k, γ_k); the others are rejected *)
Theorem C13_criterion_matches_documentation : forall c Ulb Uub N γ (u g : list R) e, γ <> 0 ->
  let st := proj_grad_step (tile N Ulb) (tile N Uub) γ u g in
  ocp_crit c Ulb Uub N γ u g (snd (fst st)) = Some e ->
  e = crit_doc c (tile N Ulb) (tile N Uub) γ u (fst (fst st)) [] g [].
Proof. exact ocp_crit_matches_doc. Qed.
Print Assumptions C13_criterion_matches_documentation.

Theorem C13_unsupported_criteria_rejected : forall c Ulb Uub N γ (u g p : list R),
  ocp_crit c Ulb Uub N γ u g p = None <-> (c = ApproxKKT \/ c = ApproxKKT2 \/ c = Ipopt \/ c = LBFGSBpp).
Proof. exact ocp_crit_rejects. Qed.
Print Assumptions C13_unsupported_criteria_rejected.

Theorem C13_supported_criteria_evaluated : forall c Ulb Uub N γ (u g p : list R),
  (exists e, ocp_crit c Ulb Uub N γ u g p = Some e) <-> supported c = true.
Proof. exact ocp_crit_supported_iff. Qed.
Print Assumptions C13_supported_criteria_evaluated.

(* Converged certifies: the documented projected-gradient residual of the selected criterion at (u_k, γ_k) is <= tolerance *)
Theorem C13_converged_certifies_residual : forall c Ulb Uub N γ (u g : list R) (tol eps : R) te k mi np mnp sr, γ <> 0 ->
  let st := proj_grad_step (tile N Ulb) (tile N Uub) γ u g in
  ocp_crit c Ulb Uub N γ u g (snd (fst st)) = Some eps ->
  stop_status_ocp tol eps te k mi np mnp sr = StConverged ->
  crit_doc c (tile N Ulb) (tile N Uub) γ u (fst (fst st)) [] g [] <= eff_tol tol.
Proof. exact ocp_converged_certifies. Qed.
Print Assumptions C13_converged_certifies_residual.

(* ... and the gradient fed to the criterion is the derivative of the forward cost (C12; the chain rule is assumed) *)
Theorem C13_gradient_is_derivative_of_forward_cost : forall nx nu nc ncN Dlb Dub DNlb DNub st qNc JcN cN yN μN,
  let ls := map (lin_of nx nc Dlb Dub) st in
  let qN := qN_of nx ncN DNlb DNub qNc JcN cN yN μN in
  Forall (wf_lin nx nu) ls -> length qN = nx ->
  forall δus, length δus = length st -> Forall (fun δu : list R => length δu = nu) δus ->
  dots (fst (fst (fst (backward nx nu nc ncN Dlb Dub DNlb DNub st qNc JcN cN yN μN)))) δus
  = lin_cost ls qN (vconst nx 0) δus.
Proof. exact backward_gradient_is_derivative. Qed.
Print Assumptions C13_gradient_is_derivative_of_forward_cost.

(* (d) multipliers and constraint errors written by write_solution, per row (stage or terminal):
       err = c(x̂) − Π_D(c(x̂) + y/μ),  y_out = y + μ·err = ŷ,  err = (ŷ − y)/μ, signs and complementarity as for the general solvers *)
Theorem C13_multiplier_relations : forall lb ub (c y μ : R), 0 < μ ->
  snd (ocp_write1 lb ub c y μ) = c - proj1 lb ub (c + y / μ) /\
  fst (ocp_write1 lb ub c y μ) = y + μ * snd (ocp_write1 lb ub c y μ) /\
  fst (ocp_write1 lb ub c y μ) = yhat1 lb ub c y μ.
Proof. exact ocp_write1_spec. Qed.
Print Assumptions C13_multiplier_relations.

Theorem C13_multiplier_signs : forall lb ub (c y μ : R), 0 < μ -> box_ne lb ub ->
  let yo := fst (ocp_write1 lb ub c y μ) in
  (lb = None -> 0 <= yo) /\ (ub = None -> yo <= 0) /\
  (0 < yo -> exists u', ub = Some u' /\ u' < c + y / μ) /\ (yo < 0 -> exists l', lb = Some l' /\ c + y / μ < l').
Proof. exact ocp_write1_signs. Qed.
Print Assumptions C13_multiplier_signs.

Theorem C13_errz_same_relation_as_general_solvers : forall lb ub (c y μ : R), 0 < μ ->
  snd (ocp_write1 lb ub c y μ) = errz1 (fst (ocp_write1 lb ub c y μ)) y μ.
Proof. exact ocp_write1_errz. Qed.
Print Assumptions C13_errz_same_relation_as_general_solvers.

(* ---- non-vacuity: a converged state with one saturated and one free input (N = 1, nu = 2, U = [-1,1] x (-inf,inf)) *)
Example C13_nonvacuous :
  let Ulb := [Some (-1); None] in let Uub := [Some 1; None] in
  let u := [1; 0] in let g := [-3; / 1024] in let γ := / 2 in
  let st := proj_grad_step (tile 1 Ulb) (tile 1 Uub) γ u g in
  fst (fst st) = [1; - / 2048] /\
  ocp_crit ProjGradNorm Ulb Uub 1 γ u g (snd (fst st)) = Some (vnorminf (snd (fst st))) /\
  stop_status_ocp (/ 1000) (/ 2048) false 7 100 0 10 false = StConverged.
Proof.
  cbv zeta. split; [|split].
  - unfold proj_grad_step, tile. cbn. unfold proj_step1, clamp_lo, clamp_hi, osub. numR. rbool; repeat f_equal; lra.
  - reflexivity.
  - apply ocp_converged_iff. rewrite ocp_eff_tol_pos; lra.
Qed.

(* ================================================================== C13 ∘ C12: the whole solver loop on C12's verified OCP evaluator
   PanocOcpLoop.panoc_ocp (= PANOCOCPSolver::operator(), whole-run correspondence Corr_PANOCOCP) with its forward / backward sweep
   oracles INSTANTIATED by Ocp.forward / Ocp.backward (PanocOcpE2E.e_fwd / e_bwd) for an OCP given by its functions: dynamics f, outputs
   h / h_N, stage / terminal costs l / l_N on the outputs, constraints c / c_N, and the derivative functions the code calls — Jacobians
   jA, jB of f, jc, jcN of the constraints (the code's products eval_grad_f_prod / eval_grad_constr_prod(_N) are the transposed products
   with them: C12's wf_bwd), gqr = eval_qr, gqN = eval_q_N.  The Gauss-Newton and L-BFGS blocks stay arbitrary oracles (any direction):
   the statement holds with GN steps always, periodically or never.

   If the run returns Converged then, with u_k / γ_k / g the inputs, step size and gradient of the iterate at the final stop check:
     - g is the gradient of the OCP cost V (sum of stage costs, terminal cost and ½·μ-weighted squared distances of the shifted
       constraints, C12_forward_is_sum) at u_k in the form C12 proves it (is_cost_gradient = C12_backward_gradient_is_derivative: blocks
       of nu entries whose pairing with EVERY perturbation δu is the first-order change Σ(q_k·δx_k + r_k·δu_k) + q_N·δx_N of the cost along
       the linearised roll-out, with A_k, B_k, q_k, r_k, q_N evaluated ALONG THE TRAJECTORY of u_k; the chain rule — that these are the
       derivatives of f, l∘h, ½dist² — is assumed exactly as in C12), and ψ(u_k) = V(u_k);
     - the returned inputs are Π_U(u_k − γ_k g) component by component: they lie in the input box U at every stage;
     - the documented residual of the selected (supported) criterion ‖u_k − Π_U(u_k − γ g)‖ (γ = γ_k, or 1 for the unit-step criteria, the
       FPR criteria divided by γ_k; ∞- or 2-norm) is <= the effective tolerance;
     - y, err_z written back are, row by row over D tiled N times followed by D_N:  err_z = c − Π_D(c + y/μ),  y_out = y + μ·err_z  with
       c the constraint values along the trajectory of the RETURNED inputs.
   Hypotheses: sizes of what the problem functions return (C12's wf_fwd / shape part of wf_bwd), sizes of x0, U, u, D, D_N, y, μ;
   U non-empty; μ > 0; Lγ_factor > 0, L_min > 0, L_max > 0; the direction oracles return N·nu-vectors. *)
Theorem C13_panoc_ocp_converged_is_stationary :
  forall (f h : nat -> list R -> list R -> list R) (hN : list R -> list R) (l : nat -> list R -> R) (lN : list R -> R)
         (c : nat -> list R -> list R) (cN : list R -> list R)
         (jA jB : nat -> list R -> list R -> list (list R)) (gqr : nat -> list R -> list R -> list R) (gqN : list R -> list R -> list R)
         (jc : nat -> list R -> list (list R)) (jcN : list R -> list (list R))
         (d : dims) (Dlb Dub DNlb DNub : list (option R)) (x0 y μ : list R)
         (DS : Type) (gn_step : nat -> list R -> list R -> e_QR (T:=R) -> list bool -> list R -> list R)
         (lb_apply : DS -> list R -> R -> list nat -> bool * list R * DS)
         (lb_update : DS -> list R -> list R -> list R -> list R -> bool * DS) (lb_reset : DS -> DS)
         (Ulb Uub : list (option R)) (stop_req time_up : counters -> bool) (P : params (T:=R)) (u_in errz_in : list R) (ds0 : DS)
         (ls_fuel fuel : nat) (o : outputs (T:=R) (list R)),
  wf_fns f h hN c cN d -> wf_jac jA jB gqr gqN jc jcN d -> length x0 = dnx d ->
  length Ulb = dnu d -> length Uub = dnu d -> Forall2 box_ne Ulb Uub ->
  length u_in = (dN d * dnu d)%nat ->
  length Dlb = dnc d -> length Dub = dnc d -> length DNlb = dncN d -> length DNub = dncN d ->
  length y = (dN d * dnc d + dncN d)%nat -> length μ = (dN d * dnc d + dncN d)%nat -> Forall (fun m => 0 < m) μ ->
  0 < p_Lgamma P -> 0 < p_Lmin P -> 0 < p_Lmax P ->
  (forall j u x qr mask q, length (gn_step j u x qr mask q) = (dN d * dnu d)%nat) ->
  (forall ds q γ J, length (snd (fst (lb_apply ds q γ J))) = (dN d * dnu d)%nat) ->
  e2e_run f h hN l lN c cN jA jB gqr gqN jc jcN d Dlb Dub DNlb DNub x0 y μ DS gn_step lb_apply lb_update lb_reset
          Ulb Uub stop_req time_up P u_in errz_in ds0 ls_fuel fuel = Done o ->
  out_status o = StConverged ->
  let uk := iu (out_final o) in let γk := igam (out_final o) in let g := igrad (out_final o) in
  let N := dN d in let Dl := tile N Dlb ++ DNlb in let Du := tile N Dub ++ DNub in
  0 < γk /\ length uk = (N * dnu d)%nat /\
  is_cost_gradient f h hN c cN jA jB gqr gqN jc jcN d Dlb Dub DNlb DNub x0 y μ uk g /\
  ipsi (out_final o) = e_V f h hN l lN c cN d Dlb Dub DNlb DNub x0 y μ uk /\
  length (out_u o) = (N * dnu d)%nat /\
  (forall j, (j < N * dnu d)%nat ->
     in_box (nth j (tile N Ulb) None) (nth j (tile N Uub) None) (nth j (out_u o) 0) /\
     nth j (out_u o) 0 = Prox.proj1 (nth j (tile N Ulb) None) (nth j (tile N Uub) None) (nth j uk 0 - γk * nth j g 0)) /\
  crit_doc (p_crit P) (tile N Ulb) (tile N Uub) γk uk (out_u o) [] g [] <= eff_tol (o_tol P) /\
  supported (p_crit P) = true /\
  (let cs := e_constr f c cN d x0 (out_u o) in
   let rows := ocp_write Dl Du cs y μ in
   out_y o = map fst rows /\ out_errz o = map snd rows /\ length cs = (N * dnc d + dncN d)%nat /\
   forall i, (i < N * dnc d + dncN d)%nat ->
     nth i (out_errz o) 0 = nth i cs 0 - Prox.proj1 (nth i Dl None) (nth i Du None) (nth i cs 0 + nth i y 0 / nth i μ 0) /\
     nth i (out_y o) 0 = nth i y 0 + nth i μ 0 * nth i (out_errz o) 0).
Proof. exact panoc_ocp_converged_is_stationary. Qed.
Print Assumptions C13_panoc_ocp_converged_is_stationary.

(* ... the box part stage by stage: input i of stage t of the returned sequence lies between U.lowerbound_i and U.upperbound_i *)
Theorem C13_panoc_ocp_converged_inputs_in_U :
  forall (f h : nat -> list R -> list R -> list R) (hN : list R -> list R) (l : nat -> list R -> R) (lN : list R -> R)
         (c : nat -> list R -> list R) (cN : list R -> list R)
         (jA jB : nat -> list R -> list R -> list (list R)) (gqr : nat -> list R -> list R -> list R) (gqN : list R -> list R -> list R)
         (jc : nat -> list R -> list (list R)) (jcN : list R -> list (list R))
         (d : dims) (Dlb Dub DNlb DNub : list (option R)) (x0 y μ : list R)
         (DS : Type) (gn_step : nat -> list R -> list R -> e_QR (T:=R) -> list bool -> list R -> list R)
         (lb_apply : DS -> list R -> R -> list nat -> bool * list R * DS)
         (lb_update : DS -> list R -> list R -> list R -> list R -> bool * DS) (lb_reset : DS -> DS)
         (Ulb Uub : list (option R)) (stop_req time_up : counters -> bool) (P : params (T:=R)) (u_in errz_in : list R) (ds0 : DS)
         (ls_fuel fuel : nat) (o : outputs (T:=R) (list R)),
  wf_fns f h hN c cN d -> wf_jac jA jB gqr gqN jc jcN d -> length x0 = dnx d ->
  length Ulb = dnu d -> length Uub = dnu d -> Forall2 box_ne Ulb Uub ->
  length u_in = (dN d * dnu d)%nat ->
  length Dlb = dnc d -> length Dub = dnc d -> length DNlb = dncN d -> length DNub = dncN d ->
  length y = (dN d * dnc d + dncN d)%nat -> length μ = (dN d * dnc d + dncN d)%nat -> Forall (fun m => 0 < m) μ ->
  0 < p_Lgamma P -> 0 < p_Lmin P -> 0 < p_Lmax P ->
  (forall j u x qr mask q, length (gn_step j u x qr mask q) = (dN d * dnu d)%nat) ->
  (forall ds q γ J, length (snd (fst (lb_apply ds q γ J))) = (dN d * dnu d)%nat) ->
  e2e_run f h hN l lN c cN jA jB gqr gqN jc jcN d Dlb Dub DNlb DNub x0 y μ DS gn_step lb_apply lb_update lb_reset
          Ulb Uub stop_req time_up P u_in errz_in ds0 ls_fuel fuel = Done o ->
  out_status o = StConverged ->
  forall t i, (t < dN d)%nat -> (i < dnu d)%nat -> in_box (nth i Ulb None) (nth i Uub None) (nth (t * dnu d + i) (out_u o) 0).
Proof. exact panoc_ocp_converged_inputs_in_U. Qed.
Print Assumptions C13_panoc_ocp_converged_inputs_in_U.

(* the characterisation determines the gradient: two vectors that both satisfy it for the same inputs are equal *)
Theorem C13_cost_gradient_unique :
  forall f h hN c cN jA jB gqr gqN jc jcN d Dlb Dub DNlb DNub x0 y μ (u g1 g2 : list R),
  is_cost_gradient f h hN c cN jA jB gqr gqN jc jcN d Dlb Dub DNlb DNub x0 y μ u g1 ->
  is_cost_gradient f h hN c cN jA jB gqr gqN jc jcN d Dlb Dub DNlb DNub x0 y μ u g2 -> g1 = g2.
Proof. exact is_cost_gradient_unique. Qed.
Print Assumptions C13_cost_gradient_unique.

(* ... and that characterisation IS the directional derivative of the OCP cost V (sum of stage costs, terminal cost and penalty terms)
   when the problem's functions are differentiable along curves with the derivatives the problem reports:
     diff_f      s ↦ f_t(x(s), u(s)) has derivative A_t x'(0) + B_t u'(0)          (A_t = jA, B_t = jB at (x(0), u(0)))
     diff_stage  s ↦ stage cost_t(x(s), u(s)) (l_t∘h_t + ½ dist²_μ of the shifted stage constraints) has derivative q_t·x'(0) + r_t·u'(0)
     diff_term   s ↦ terminal cost(x(s)) has derivative q_N·x'(0)
   for every pair of componentwise differentiable curves.  The chain rule over the horizon is PROVED (cost_sum_derive): for every
   direction δ,  d/ds V(u + s·δ) at s = 0  equals  Σ_k <g_k, δ_k>  with g the blocks of the gradient. *)
Theorem C13_cost_gradient_is_directional_derivative :
  forall f h hN l lN c cN jA jB gqr gqN jc jcN d Dlb Dub DNlb DNub (x0 y μ : list R),
  diff_f f jA jB d -> diff_stage f h l c jA jB gqr jc d Dlb Dub y μ -> diff_term hN lN cN gqN jcN d DNlb DNub y μ ->
  length x0 = dnx d ->
  forall u g : list R, length u = (dN d * dnu d)%nat ->
  is_cost_gradient f h hN c cN jA jB gqr gqN jc jcN d Dlb Dub DNlb DNub x0 y μ u g ->
  forall δ, length δ = (dN d * dnu d)%nat ->
  exists gs, g = concat gs /\
    is_derive (fun s => e_V f h hN l lN c cN d Dlb Dub DNlb DNub x0 y μ (vadd u (vscale s δ))) 0 (dots gs (e_stages d δ)).
Proof. exact cost_gradient_is_directional_derivative. Qed.
Print Assumptions C13_cost_gradient_is_directional_derivative.

(* ---- non-vacuity of C13_panoc_ocp_converged_is_stationary: N = 1, nx = nu = 1, x1 = x0 + u, cost ½u² + ½x1², terminal constraint
        x1 ∈ [-1, 2] with y = 0, μ = 1, U = [-1, 1], x0 = 0, initial guess u = 0 (the constrained minimiser): every hypothesis holds and
        the run (Gauss-Newton mode, L_0 = L_max = 1) returns Converged at the first stop check *)
Definition nvd : dims := {| dN := 1; dnx := 1; dnu := 1; dnh := 0; dnc := 0; dnhN := 0; dncN := 1 |}.
Definition nv_f (t : nat) (x u : list R) : list R := [nth 0 x 0 + nth 0 u 0].
Definition nv_l (t : nat) (z : list R) : R := / 2 * (nth 1 z 0 * nth 1 z 0).
Definition nv_lN (x : list R) : R := / 2 * (nth 0 x 0 * nth 0 x 0).
Definition nv_cN (x : list R) : list R := [nth 0 x 0].
Definition nv_P2 : params (T:=R) := mkParams 5 10 1 (1/1000000) (1/1000000) (1/2) 1 1 ProjGradNorm 0 0 (1/2) (1/4) 1 true false true true (1/100).
Notation nv_run2 := (e2e_run (T:=R) nv_f (fun _ _ _ => []) (fun _ => []) nv_l nv_lN (fun _ _ => []) nv_cN
   (fun _ _ _ => [[1]]) (fun _ _ _ => [[1]]) (fun _ z _ => [0; nth 1 z 0]) (fun x _ => [nth 0 x 0]) (fun _ _ => []) (fun _ => [[1]])
   nvd [] [] [Some (-1)] [Some 2] [0] [0] [1] unit
   (fun _ _ _ _ _ q => match q with [a] => [a] | _ => [0] end) (fun ds q _ _ => (false, [0], ds)) (fun ds _ _ _ _ => (true, ds)) (fun ds => ds)
   [Some (-1)] [Some 1] (fun _ => false) (fun _ => false) nv_P2 [0] [0] tt 1).
Notation nvfwd := (e_fwd nv_f (fun _ _ _ => []) (fun _ => []) nv_l nv_lN (fun _ _ => []) nv_cN nvd [] [] [Some (-1)] [Some 2] [0] [0] [1]).
Notation nvbwd := (e_bwd (fun _ _ _ => [[1]]) (fun _ _ _ => [[1]]) (fun _ z _ => [0; nth 1 z 0]) (fun x _ => [nth 0 x 0]) (fun _ _ => []) (fun _ => [[1]]) nvd [] [] [Some (-1)] [Some 2] [0] [1]).
Lemma nv_grad0 : fst (nvbwd [0] (snd (nvfwd [0]))) = [0].
Proof.
  cbv -[Rplus Rmult Rle_bool Rlt_bool Req_bool Rdiv Rinv Ropp Rminus IZR Rabs sqrt].
  f_equal. rbool; lra.
Qed.
Example C13_e2e_nonvacuous :
  wf_fns nv_f (fun _ _ _ => []) (fun _ => []) (fun _ _ => []) nv_cN nvd /\
  wf_jac (fun _ _ _ => [[1]]) (fun _ _ _ => [[1]]) (fun _ z _ => [0; nth 1 z 0]) (fun x _ => [nth 0 x 0]) (fun _ _ => []) (fun _ => [[1]]) nvd /\
  Forall2 box_ne [Some (-1)] [Some 1] /\ Forall (fun m => 0 < m) [1] /\
  0 < p_Lgamma nv_P2 /\ 0 < p_Lmin nv_P2 /\ 0 < p_Lmax nv_P2 /\
  exists o, nv_run2 1%nat = Done o /\ out_status o = StConverged /\ out_iterations o = 0%nat.
Proof.
  split; [|split; [|split; [|split; [|split; [|split; [|split]]]]]].
  - unfold wf_fns. cbn. repeat split; intros; try reflexivity; lia.
  - unfold wf_jac, wfm. cbn. repeat split; intros; repeat constructor.
  - repeat constructor. cbn. lra.
  - repeat constructor. lra.
  - cbn. lra.
  - cbn. lra.
  - cbn. lra.
  - unfold e2e_run.
    match goal with |- context [panoc_ocp _ _ _ ?a1 ?a2 ?a3 ?a4 ?a5 ?a6 ?a7 ?a8 ?a9 ?a10 ?a11 ?a12 ?a13 ?a14 ?a15 ?a16 ?a17 ?a18 ?a19 ?a20 ?a21 ?a22 ?a23 ?a24 _] =>
      pose proof (run_converged_at_start (list R) (e_QR (T:=R)) unit a1 a2 a3 a4 a5 a6 a7 a8 a9 a10 a11 a12 a13 a14 a15 a16 a17 a18 a19 a20 a21 a22 a23 a24 0%nat) as Hrun;
      pose proof (first_iterate_start (list R) (e_QR (T:=R)) a1 a2 a3 a9 a10 a11 a12 a17 a18 a22) as Hfi;
      pose proof (eps_ProjGradNorm (list R) a9 a10 a11 a12 a17) as Heps
    end.
    assert (H0 : 0 < p_L0 nv_P2) by (cbn; lra).
    specialize (Hfi H0). cbv zeta in Hfi. destruct Hfi as (_ & _ & _ & _ & Eip).
    rewrite nv_grad0 in Eip.
    destruct (Hrun _ H0 ltac:(cbn; lra) (Heps _ eq_refl)) as (o & Ho & Hs & Hk & _).
    { rewrite Eip. cbv -[Rplus Rmult Rle_bool Rlt_bool Req_bool Rdiv Rinv Ropp Rminus IZR Rabs sqrt Rle]. rbool; try lra; split_Rabs; lra. }
    exists o. split; [exact Ho|]. split; [exact Hs|exact Hk].
Qed.

(* ---- the differentiability hypotheses of C13_cost_gradient_is_directional_derivative are satisfiable: N = 2, x⁺ = x + u, cost Σ ½u² + ½x_N² *)
Definition nvd2 : dims := {| dN := 2; dnx := 1; dnu := 1; dnh := 0; dnc := 0; dnhN := 0; dncN := 0 |}.

Lemma vder1 (x : R -> list R) dx : vder 1 x dx -> exists a, dx = [a] /\ is_derive (fun s => nth 0 (x s) 0) 0 a /\ forall s, length (x s) = 1%nat.
Proof.
  intros (L & Ls & Hd). destruct dx as [|a [|? ?]]; try discriminate. exists a. split; [reflexivity|]. split; [exact (Hd 0%nat ltac:(lia))|exact Ls].
Qed.

Example C13_derivative_hypotheses_nonvacuous :
  diff_f nv_f (fun _ _ _ => [[1]]) (fun _ _ _ => [[1]]) nvd2 /\
  diff_stage nv_f (fun _ _ _ => []) nv_l (fun _ _ => []) (fun _ _ _ => [[1]]) (fun _ _ _ => [[1]]) (fun _ z _ => [0; nth 1 z 0]) (fun _ _ => []) nvd2 [] [] [] [] /\
  diff_term (fun _ => []) nv_lN (fun _ => []) (fun x _ => [nth 0 x 0]) (fun _ => []) nvd2 [] [] [] [].
Proof.
  split; [|split].
  - intros t x u dx du Hx Hu. destruct (vder1 x dx Hx) as (a & -> & Da & Lx). destruct (vder1 u du Hu) as (b & -> & Db & Lu).
    split; [reflexivity|]. split; [reflexivity|]. intros [|i] Hi; [|cbn in Hi; lia].
    cbn. apply (is_derive_ext (fun s => plus (nth 0 (x s) 0) (nth 0 (u s) 0))); [reflexivity|].
    replace (1 * a + 0 + (1 * b + 0)) with (plus a b) by (unfold plus; cbn; ring).
    now apply @is_derive_plus.
  - intros t x u dx du Hx Hu. destruct (vder1 x dx Hx) as (a & -> & Da & Lx). destruct (vder1 u du Hu) as (b & -> & Db & Lu).
    unfold stage_cost, stage_fwd, stage_lin, lin_of, q_of, nv_l. cbn.
    apply (is_derive_ext (fun s => / 2 * (nth 0 (u s) 0 * nth 0 (u s) 0))).
    + intros s. rewrite !app_nth2 by (rewrite Lx; lia). rewrite Lx. reflexivity.
    + rewrite app_nth2 by (rewrite Lx; lia). rewrite Lx. cbn [Nat.sub].
      set (U := fun s => nth 0 (u s) 0) in *. change (is_derive (fun s => / 2 * (U s * U s)) 0 (0 * a + 0 + (U 0 * b + 0))).
      assert (EU : ex_derive (fun s => U s) 0) by (exists b; exact Db).
      auto_derive; [repeat split; exact EU|]. change (fun x0 : R => U x0) with U. rewrite (is_derive_unique U 0 b Db). field.
  - intros x dx Hx. destruct (vder1 x dx Hx) as (a & -> & Da & Lx).
    unfold term_cost, term_fwd, term_q, qN_of, nv_lN. cbn.
    set (X := fun s => nth 0 (x s) 0) in *. change (is_derive (fun s => / 2 * (X s * X s)) 0 (X 0 * a + 0)).
    assert (EX : ex_derive (fun s => X s) 0) by (exists a; exact Da).
    auto_derive; [repeat split; exact EX|]. change (fun x0 : R => X x0) with X. rewrite (is_derive_unique X 0 a Da). field.
Qed.
