(* Csv.v — model of alpaqa's CSV row reader (implementation/util/io/csv.tpp) and of print_csv's row format
   (implementation/util/print.tpp).  Model only, no proofs.

   The reader is a 64-byte window over a std::istream.  Both are modelled:
   * the stream: the bytes not yet extracted + eofbit + failbit, with the libstdc++ semantics of the four members the
     reader uses ( get(char*,n,delim) / get() / peek() / eof() / operator! ), including the C++11 sentry rule
     "not good() => set failbit, do nothing";
   * the reader: CSVReader::{s[0..bufidx), keep_reading} and read_chunk / read / read_single / skip_comments /
     next_line / done, read_row_impl, read_row_std_vector, statement by statement.
   Number conversion (std::from_chars) is a Section variable `parse`; two concrete parsers are given at the end
   (decimal integers, = from_chars<long> base 10, and unbounded decimal integers) for execution. *)
From Coq Require Import List Ascii Bool Arith ZArith Lia.
Import ListNotations.

Definition nl : ascii := "010"%char.
Definition hash : ascii := "#"%char.
Definition plus : ascii := "+"%char.
Definition minus : ascii := "-"%char.
Definition bufmax : nat := 64.          (* CSVReader::bufmaxsize *)

Definition is_nil {A} (l : list A) : bool := match l with [] => true | _ => false end.

(* ------------------------------------------------------------------------------------------------ std::istream *)
Record stream := mkS { rest : list ascii; eofb : bool; failb : bool }.
Definition good (s : stream) : bool := negb (eofb s) && negb (failb s).
Definition set_fail (s : stream) : stream := mkS (rest s) (eofb s) true.

(* int peek(): sentry; at end of data sets eofbit *)
Definition s_peek (s : stream) : option ascii * stream :=
  if good s then
    match rest s with
    | [] => (None, mkS [] true (failb s))
    | c :: _ => (Some c, s)
    end
  else (None, set_fail s).

(* int get(): sentry; at end of data sets eofbit|failbit *)
Definition s_get1 (s : stream) : option ascii * stream :=
  if good s then
    match rest s with
    | [] => (None, mkS [] true true)
    | c :: r => (Some c, mkS r (eofb s) (failb s))
    end
  else (None, set_fail s).

(* up to n characters, stopping in front of a newline *)
Fixpoint take_line (n : nat) (l : list ascii) : list ascii * list ascii :=
  match n, l with
  | S n', c :: r => if Ascii.eqb c nl then ([], l) else let (a, b) := take_line n' r in (c :: a, b)
  | _, _ => ([], l)
  end.

(* get(char* s, n+1, '\n'): extracts at most n characters, never the delimiter; eofbit when the character after the
   extracted ones is the end of data; failbit when nothing was extracted *)
Definition s_getn (n : nat) (s : stream) : list ascii * stream :=
  if good s then
    let (a, r) := take_line n (rest s) in
    (a, mkS r (is_nil r) (is_nil a))
  else ([], set_fail s).

(* ------------------------------------------------------------------------------------------------ CSVReader *)
Inductive err := EInvalidStream | EExtraction | EConversion | EUnexpected | ENotConsumed | EFuel | ETooLong.
Record reader := mkR { buf : list ascii; keep : bool }.      (* s[0..bufidx), keep_reading *)
Definition reader0 : reader := mkR [] true.

Section Reader.
Context {V : Type}.
Variable parse : list ascii -> option (V * nat).   (* from_chars(first,last,v): None = ec != errc{}; Some (v, ptr-first) *)
Variable sep : ascii.

(* void read_chunk(std::istream &is) *)
Definition read_chunk (rd : reader) (s : stream) : stream * (err + reader) :=
  if failb s then (s, inl EInvalidStream)                             (* if (!is) throw *)
  else if length (buf rd) =? bufmax then (s, inr rd)                  (* if (bufmaxsize == bufidx) return *)
  else
    let (a, s1) := s_getn (bufmax - length (buf rd)) s in             (* is.get(s.data()+bufidx, bufmaxsize-bufidx+1, end) *)
    if failb s1 then (s1, inl EExtraction)
    else
      let (c, s2) := s_peek s1 in                                     (* keep_reading = is.peek() != end && !is.eof() *)
      let k := negb (match c with Some c' => Ascii.eqb c' nl | None => false end) && negb (eofb s2) in
      (s2, inr (mkR (buf rd ++ a) k)).

(* read_single: skip one '+', then from_chars; result = value and ptr - bufbegin *)
Definition read_single (b : list ascii) : option (V * nat) :=
  match b with
  | c :: b' => if Ascii.eqb c plus
               then match parse b' with Some (v, k) => Some (v, S k) | None => None end
               else parse b
  | [] => parse []
  end.

(* F read(std::istream &is, char sep) *)
Definition read (rd : reader) (s : stream) : stream * (err + (V * reader)) :=
  let '(s1, r1) := if keep rd then read_chunk rd s else (s, inr rd) in
  match r1 with
  | inl e => (s1, inl e)
  | inr rd1 =>
      match read_single (buf rd1) with
      | None => (s1, inl EConversion)
      | Some (v, k) =>
          if (k =? length (buf rd1)) && keep rd1 then (s1, inl ETooLong)  (* ptr == bufend && keep_reading: the number
                                                                          fills the window and the line continues *)
          else
          match skipn k (buf rd1) with
          | [] => (s1, inr (v, mkR [] (keep rd1)))                    (* ptr == bufend: bufidx = 0 *)
          | c :: tl => if Ascii.eqb c sep
                       then (s1, inr (v, mkR tl (keep rd1)))          (* shift the buffer over ptr+1 *)
                       else (s1, inl EUnexpected)
          end
      end
  end.

(* void next_line(std::istream &is) const *)
Definition next_line (rd : reader) (s : stream) : stream * (err + unit) :=
  if negb (is_nil (buf rd)) then (s, inl ENotConsumed)
  else if eofb s then (s, inr tt)
  else let (c, s1) := s_get1 s in
       match c with
       | Some c' => if Ascii.eqb c' nl then (s1, inr tt) else (s1, inl ENotConsumed)
       | None => (s1, inl ENotConsumed)
       end.

(* bool done(std::istream &is) const *)
Definition done (rd : reader) (s : stream) : stream * bool :=
  let (c, s1) := s_peek s in
  let k := negb (match c with Some c' => Ascii.eqb c' nl | None => false end) && negb (eofb s1) in
  (s1, is_nil (buf rd) && negb k).

(* while (keep_reading) { bufidx = 0; read_chunk(is); } *)
Fixpoint drain (fuel : nat) (rd : reader) (s : stream) : stream * (err + reader) :=
  match fuel with
  | 0 => (s, inl EFuel)
  | S f => if keep rd then
             match read_chunk (mkR [] (keep rd)) s with
             | (s1, inl e) => (s1, inl e)
             | (s1, inr rd1) => drain f rd1 s1
             end
           else (s, inr rd)
  end.

(* while (!is.eof()) { read_chunk; if (bufidx == 0 || s.front() != '#') break; drain; bufidx = 0; next_line; } *)
Fixpoint skip_loop (fuel : nat) (rd : reader) (s : stream) : stream * (err + reader) :=
  match fuel with
  | 0 => (s, inl EFuel)
  | S f =>
      if eofb s then (s, inr rd) else
      match read_chunk rd s with
      | (s1, inl e) => (s1, inl e)
      | (s1, inr rd1) =>
          match buf rd1 with
          | [] => (s1, inr rd1)
          | c :: _ =>
              if Ascii.eqb c hash then
                match drain (S (length (rest s1))) rd1 s1 with
                | (s2, inl e) => (s2, inl e)
                | (s2, inr rd2) =>
                    let rd3 := mkR [] (keep rd2) in
                    match next_line rd3 s2 with
                    | (s3, inl e) => (s3, inl e)
                    | (s3, inr _) => skip_loop f rd3 s3
                    end
                end
              else (s1, inr rd1)
          end
      end
  end.

(* void skip_comments(std::istream &is) *)
Definition skip_comments (rd : reader) (s : stream) : stream * (err + reader) :=
  if eofb s then (s, inr rd) else
  let (c, s1) := s_peek s in
  if match c with Some c' => Ascii.eqb c' nl | None => false end then (s1, inr rd)
  else skip_loop (S (length (rest s))) rd s1.

(* for (auto &vv : v) vv = reader.read(is, sep); *)
Fixpoint read_n (n : nat) (rd : reader) (s : stream) (acc : list V) : stream * (err + (list V * reader)) :=
  match n with
  | 0 => (s, inr (rev acc, rd))
  | S n' => match read rd s with
            | (s1, inl e) => (s1, inl e)
            | (s1, inr (v, rd1)) => read_n n' rd1 s1 (v :: acc)
            end
  end.

(* while (!reader.done(is)) v.push_back(reader.read(is, sep)); *)
Fixpoint read_all (fuel : nat) (rd : reader) (s : stream) (acc : list V) : stream * (err + (list V * reader)) :=
  match fuel with
  | 0 => (s, inl EFuel)
  | S f => let (s0, d) := done rd s in
           if d then (s0, inr (rev acc, rd))
           else match read rd s0 with
                | (s1, inl e) => (s1, inl e)
                | (s1, inr (v, rd1)) => read_all f rd1 s1 (v :: acc)
                end
  end.

Definition finish_row (r : stream * (err + (list V * reader))) : stream * (err + list V) :=
  match r with
  | (s, inl e) => (s, inl e)
  | (s, inr (vs, rd)) => match next_line rd s with
                         | (s1, inl e) => (s1, inl e)
                         | (s1, inr _) => (s1, inr vs)
                         end
  end.

(* read_row_impl(is, v, sep) with v.size() = n *)
Definition read_row_impl (n : nat) (s : stream) : stream * (err + list V) :=
  match skip_comments reader0 s with
  | (s1, inl e) => (s1, inl e)
  | (s1, inr rd) => finish_row (read_n n rd s1 [])
  end.

(* read_row_std_vector(is, sep) *)
Definition read_row_std_vector (s : stream) : stream * (err + list V) :=
  match skip_comments reader0 s with
  | (s1, inl e) => (s1, inl e)
  | (s1, inr rd) => finish_row (read_all (S (S (length (rest s)))) rd s1 [])
  end.

(* ------------------------------------------------------------------------------------------------ specification *)
(* split a line at the separator: always at least one (possibly empty) field *)
Fixpoint split (l : list ascii) : list (list ascii) :=
  match l with
  | [] => [[]]
  | c :: r => if Ascii.eqb c sep then [] :: split r
              else match split r with
                   | f :: fs => (c :: f) :: fs
                   | [] => [[c]]
                   end
  end.

Fixpoint join (fs : list (list ascii)) : list ascii :=
  match fs with
  | [] => []
  | [f] => f
  | f :: fs' => f ++ sep :: join fs'
  end.

(* a separator at the very end of the line does not open another field ("1,2,\n" has two fields) *)
Fixpoint drop_last_empty (fs : list (list ascii)) : list (list ascii) :=
  match fs with
  | [] => []
  | [f] => if is_nil f then [] else [f]
  | f :: fs' => f :: drop_last_empty fs'
  end.
Definition fields (line : list ascii) : list (list ascii) := drop_last_empty (split line).

(* one field: optional '+', then the number must extend over the whole field *)
Definition parse_field (f : list ascii) : option V :=
  match read_single f with
  | Some (v, k) => if k =? length f then Some v else None
  | None => None
  end.

Fixpoint mapM {A B} (g : A -> option B) (l : list A) : option (list B) :=
  match l with
  | [] => Some []
  | a :: l' => match g a with
               | Some b => match mapM g l' with Some bs => Some (b :: bs) | None => None end
               | None => None
               end
  end.

Definition spec_row (line : list ascii) : option (list V) := mapM parse_field (fields line).

(* the over-long-token rule of the reader: a field must be shorter than the window, except that the field that ends the
   line (no separator behind it) may fill the window exactly; anything longer makes the row malformed *)
Fixpoint fitsb (fs : list (list ascii)) : bool :=
  match fs with
  | [] => true
  | [f] => length f <=? bufmax
  | f :: fs' => (length f <? bufmax) && fitsb fs'
  end.
Definition spec_row64 (line : list ascii) : option (list V) :=
  if fitsb (split line) then spec_row line else None.
Definition spec_row_n (n : nat) (line : list ascii) : option (list V) :=
  match spec_row line with
  | Some vs => if length vs =? n then Some vs else None
  | None => None
  end.
Definition spec_row64_n (n : nat) (line : list ascii) : option (list V) :=
  if fitsb (split line) then spec_row_n n line else None.

End Reader.

(* what a caller has to do after a read_error to get to the next row: is.clear(); is.ignore(max, '\n')
   (ignore sets eofbit when the data end before a newline was found) *)
Fixpoint after_nl (l : list ascii) : list ascii :=
  match l with [] => [] | c :: r => if Ascii.eqb c nl then r else after_nl r end.
Definition resync (s : stream) : stream :=
  mkS (after_nl (rest s)) (negb (existsb (Ascii.eqb nl) (rest s))) false.

(* ------------------------------------------------------------------------------------------------ printing *)
(* print_csv_impl for one row: begin="" , elements separated by sep, end="\n";
   print_elem for floating point = float_to_str_vw: '+' unless signbit or NaN, then to_chars(scientific, max_digits10) *)
Section Printer.
Context {V : Type}.
Variable to_chars : V -> list ascii.      (* std::to_chars(..., scientific, max_digits10) *)
Variable neg_or_nan : V -> bool.          (* std::signbit(v) || std::isnan(v) *)
Variable sep : ascii.
Definition print_elem (v : V) : list ascii := if neg_or_nan v then to_chars v else plus :: to_chars v.
Definition print_row (vs : list V) : list ascii := join sep (map print_elem vs) ++ [nl].
End Printer.

(* ------------------------------------------------------------------------------------------------ concrete parsers *)
Definition is_digit (c : ascii) : bool := let n := nat_of_ascii c in (48 <=? n) && (n <=? 57).
Definition digit_val (c : ascii) : Z := Z.of_nat (nat_of_ascii c - 48).
Fixpoint take_digits (l : list ascii) (acc : Z) (k : nat) : Z * nat :=
  match l with
  | c :: r => if is_digit c then take_digits r (10 * acc + digit_val c) (S k) else (acc, k)
  | [] => (acc, k)
  end.
(* std::from_chars(first, last, long&, 10): optional '-', at least one digit, maximal run of digits;
   value outside [lo,hi] -> result_out_of_range (an error for the reader).  bound = None: unbounded *)
Definition parse_Z (bound : option (Z * Z)) (l : list ascii) : option (Z * nat) :=
  let '(neg, l') := match l with
                    | c :: r => if Ascii.eqb c minus then (true, r) else (false, l)
                    | [] => (false, l)
                    end in
  let '(m, k) := take_digits l' 0%Z 0 in
  if k =? 0 then None else
  let v := if neg then (- m)%Z else m in
  let k' := if neg then S k else k in
  match bound with
  | Some (lo, hi) => if ((lo <=? v) && (v <=? hi))%Z then Some (v, k') else None
  | None => Some (v, k')
  end.
Definition int64_bound : option (Z * Z) := Some (- 2 ^ 63, 2 ^ 63 - 1)%Z.
Definition parse_int64 := parse_Z int64_bound.
Definition parse_bigint := parse_Z None.
(* characters from_chars<long> can consume *)
Definition int_char (c : ascii) : bool := is_digit c || Ascii.eqb c minus.
