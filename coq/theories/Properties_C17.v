(* Properties_C17.v — C17: numeric text I/O round-trips exactly and rejects malformed input.
   Only theorem statements closed by `exact`, each followed by Print Assumptions.

   Vocabulary (Csv.v / CsvProofs.v):
     gs l                     a good() std::istream holding the bytes l
     comment_block cs         the lines "#" ++ c ++ "\n" for c in cs (any lengths)
     row_wf cs line           comments and line contain no newline, line does not start with '#', an empty line is not
                              preceded by comments.  NO bound on field lengths.
     fitsb fs                 every field is shorter than bufmax = 64 bytes, except that the field that ends the line
                              (no separator behind it) may be exactly 64 bytes long
     row_ok sep cs line       row_wf cs line /\ fitsb (split sep line) = true
     spec_row64               = spec_row when fitsb (split sep line), otherwise None (over-long token = malformed row)
     spec_row parse sep line  split at sep (a separator at the very end opens no field), every field = optional '+'
                              followed by a number that extends over the whole field; None = malformed row
     read_row_std_vector / read_row_impl n     the model of the 64-byte chunked reader on the stream model
     Tail / resync            the stream still holds the row's newline and everything behind it / clear()+ignore(max,'\n')
   `parse` is std::from_chars; what is assumed about it appears as the premises parse_bound / parse_local / parse_nil. *)
From Coq Require Import List Ascii ZArith Bool Arith.
From Alpaqa Require Import Csv CsvProofs.
From Alpaqa Require Import CsvGenLib CsvGen CsvGenInst CsvGenEq.
   (* CsvGen.v is REGENERATED from csv.tpp / print.tpp on every run (translate/gen_csv.py);
      CsvGenEq.v proves every generated piece equal to the piece of Csv.v it corresponds to *)
Import ListNotations.

(* (0) MAIN, all field lengths: for every well-formed row the chunked reader equals the row specification with the
       over-long-token rule; errors coincide; success leaves the stream exactly at the next row, an error leaves the
       row's newline and everything behind it in the stream *)
Theorem C17_chunked_equals_spec64_vector :
  forall (V : Type) (parse : list ascii -> option (V * nat)) (sep : ascii) (numch : ascii -> bool),
  (forall l v k, parse l = Some (v, k) -> k <= length l) ->
  (forall a c b, numch c = false -> parse (a ++ c :: b) = parse a) ->
  numch sep = false -> numch plus = true ->
  forall cs line t, row_wf cs line ->
  match spec_row64 parse sep line with
  | Some vs => read_row_std_vector parse sep (gs (comment_block cs ++ line ++ nl :: t)) = (gs t, inr vs)
  | None => exists e s', read_row_std_vector parse sep (gs (comment_block cs ++ line ++ nl :: t)) = (s', inl e) /\ Tail s' t
  end.
Proof. exact (@read_row_std_vector_spec64). Qed.
Print Assumptions C17_chunked_equals_spec64_vector.

Theorem C17_chunked_equals_spec64_fixed :
  forall (V : Type) (parse : list ascii -> option (V * nat)) (sep : ascii) (numch : ascii -> bool),
  (forall l v k, parse l = Some (v, k) -> k <= length l) ->
  (forall a c b, numch c = false -> parse (a ++ c :: b) = parse a) ->
  parse [] = None ->
  numch sep = false -> numch plus = true ->
  forall n cs line t, row_wf cs line ->
  match spec_row64_n parse sep n line with
  | Some vs => read_row_impl parse sep n (gs (comment_block cs ++ line ++ nl :: t)) = (gs t, inr vs)
  | None => exists e s', read_row_impl parse sep n (gs (comment_block cs ++ line ++ nl :: t)) = (s', inl e) /\ Tail s' t
  end.
Proof. exact (@read_row_impl_spec64). Qed.
Print Assumptions C17_chunked_equals_spec64_fixed.

(* over-long token: rejected with a read error by both readers (the row's newline is still in the stream) *)
Theorem C17_overlong_token_rejected :
  forall (V : Type) (parse : list ascii -> option (V * nat)) (sep : ascii) (numch : ascii -> bool),
  (forall l v k, parse l = Some (v, k) -> k <= length l) ->
  (forall a c b, numch c = false -> parse (a ++ c :: b) = parse a) ->
  parse [] = None ->
  numch sep = false -> numch plus = true ->
  forall cs line t, row_wf cs line -> fitsb (split sep line) = false ->
  (exists e s', read_row_std_vector parse sep (gs (comment_block cs ++ line ++ nl :: t)) = (s', inl e) /\ Tail s' t) /\
  (forall n, exists e s', read_row_impl parse sep n (gs (comment_block cs ++ line ++ nl :: t)) = (s', inl e) /\ Tail s' t).
Proof. exact (@overlong_rejected). Qed.
Print Assumptions C17_overlong_token_rejected.

(* never silently altered numbers: whatever the field lengths, numbers that ARE returned are the numbers the row denotes *)
Theorem C17_no_silent_alteration :
  forall (V : Type) (parse : list ascii -> option (V * nat)) (sep : ascii) (numch : ascii -> bool),
  (forall l v k, parse l = Some (v, k) -> k <= length l) ->
  (forall a c b, numch c = false -> parse (a ++ c :: b) = parse a) ->
  parse [] = None ->
  numch sep = false -> numch plus = true ->
  forall cs line t, row_wf cs line ->
  (forall s' vs, read_row_std_vector parse sep (gs (comment_block cs ++ line ++ nl :: t)) = (s', inr vs) ->
     spec_row parse sep line = Some vs /\ s' = gs t) /\
  (forall n s' vs, read_row_impl parse sep n (gs (comment_block cs ++ line ++ nl :: t)) = (s', inr vs) ->
     spec_row parse sep line = Some vs /\ length vs = n /\ s' = gs t).
Proof. exact (@no_silent_alteration). Qed.
Print Assumptions C17_no_silent_alteration.

(* (1) corollary: when every field fits the window the specification is plain "split at sep, parse every field completely",
       for every row length, any comments, any separator outside the numeric alphabet *)
Theorem C17_chunked_equals_spec_vector :
  forall (V : Type) (parse : list ascii -> option (V * nat)) (sep : ascii) (numch : ascii -> bool),
  (forall l v k, parse l = Some (v, k) -> k <= length l) ->
  (forall a c b, numch c = false -> parse (a ++ c :: b) = parse a) ->
  numch sep = false -> numch plus = true ->
  forall cs line t, row_ok sep cs line ->
  match spec_row parse sep line with
  | Some vs => read_row_std_vector parse sep (gs (comment_block cs ++ line ++ nl :: t)) = (gs t, inr vs)
  | None => exists e s', read_row_std_vector parse sep (gs (comment_block cs ++ line ++ nl :: t)) = (s', inl e) /\ Tail s' t
  end.
Proof. exact (@read_row_std_vector_spec). Qed.
Print Assumptions C17_chunked_equals_spec_vector.

(* fixed-size read_row: additionally too few / too many fields are errors *)
Theorem C17_chunked_equals_spec_fixed :
  forall (V : Type) (parse : list ascii -> option (V * nat)) (sep : ascii) (numch : ascii -> bool),
  (forall l v k, parse l = Some (v, k) -> k <= length l) ->
  (forall a c b, numch c = false -> parse (a ++ c :: b) = parse a) ->
  parse [] = None ->
  numch sep = false -> numch plus = true ->
  forall n cs line t, row_ok sep cs line ->
  match spec_row_n parse sep n line with
  | Some vs => read_row_impl parse sep n (gs (comment_block cs ++ line ++ nl :: t)) = (gs t, inr vs)
  | None => exists e s', read_row_impl parse sep n (gs (comment_block cs ++ line ++ nl :: t)) = (s', inl e) /\ Tail s' t
  end.
Proof. exact (@read_row_impl_spec). Qed.
Print Assumptions C17_chunked_equals_spec_fixed.

(* (2) no partial consumption that corrupts the next row: success leaves the stream AT the next row, an error leaves
       this row's newline and everything behind it untouched *)
Theorem C17_next_row_unaffected :
  forall (V : Type) (parse : list ascii -> option (V * nat)) (sep : ascii) (numch : ascii -> bool),
  (forall l v k, parse l = Some (v, k) -> k <= length l) ->
  (forall a c b, numch c = false -> parse (a ++ c :: b) = parse a) ->
  parse [] = None ->
  numch sep = false -> numch plus = true ->
  forall cs line t, row_wf cs line ->
  (forall s' r, read_row_std_vector parse sep (gs (comment_block cs ++ line ++ nl :: t)) = (s', r) ->
     match r with inr _ => s' = gs t | inl _ => rest (resync s') = t end) /\
  (forall n s' r, read_row_impl parse sep n (gs (comment_block cs ++ line ++ nl :: t)) = (s', r) ->
     match r with inr _ => s' = gs t | inl _ => rest (resync s') = t end).
Proof. exact (@next_row_unaffected). Qed.
Print Assumptions C17_next_row_unaffected.

(* (3) print_csv -> read_row round trip, from what is assumed about to_chars / from_chars: rows of any length, any
       separator outside the numeric alphabet, behind comment lines of any length *)
Theorem C17_print_read_roundtrip :
  forall (V : Type) (parse : list ascii -> option (V * nat)) (to_chars : V -> list ascii) (neg_or_nan : V -> bool)
         (sep : ascii) (numch : ascii -> bool),
  (forall l v k, parse l = Some (v, k) -> k <= length l) ->
  (forall a c b, numch c = false -> parse (a ++ c :: b) = parse a) ->
  parse [] = None ->
  numch sep = false -> numch plus = true -> numch nl = false -> numch hash = false ->
  (forall v c, In c (to_chars v) -> numch c = true) ->
  (forall v r, to_chars v <> plus :: r) ->
  (forall v, S (length (to_chars v)) < bufmax) ->
  (forall v, parse (to_chars v) = Some (v, length (to_chars v))) ->
  forall vs cs t, sep <> nl -> Forall (fun c => ~ In nl c) cs -> (vs = [] -> cs = []) ->
  read_row_std_vector parse sep (gs (comment_block cs ++ print_row to_chars neg_or_nan sep vs ++ t)) = (gs t, inr vs) /\
  read_row_impl parse sep (length vs) (gs (comment_block cs ++ print_row to_chars neg_or_nan sep vs ++ t)) = (gs t, inr vs).
Proof. exact (@print_read_roundtrip). Qed.
Print Assumptions C17_print_read_roundtrip.

(* (4) for Eigen::Index the premises about from_chars are theorems about the model parser: no assumption left *)
Theorem C17_int64_parser_meets_hypotheses :
  (forall l v k, parse_int64 l = Some (v, k) -> k <= length l) /\
  (forall a c b, int_numch c = false -> parse_int64 (a ++ c :: b) = parse_int64 a) /\
  parse_int64 [] = None /\ int_numch plus = true.
Proof. exact (conj (parse_Z_bound int64_bound) (conj (parse_Z_local int64_bound) (conj (parse_Z_nil int64_bound) int_numch_plus))). Qed.
Print Assumptions C17_int64_parser_meets_hypotheses.

Theorem C17_int64_reader_equals_spec :
  forall sep, int_numch sep = false -> forall n cs line t, row_wf cs line ->
  match spec_row64 parse_int64 sep line with
  | Some vs => read_row_std_vector parse_int64 sep (gs (comment_block cs ++ line ++ nl :: t)) = (gs t, inr vs)
  | None => exists e s', read_row_std_vector parse_int64 sep (gs (comment_block cs ++ line ++ nl :: t)) = (s', inl e) /\ Tail s' t
  end /\
  match spec_row64_n parse_int64 sep n line with
  | Some vs => read_row_impl parse_int64 sep n (gs (comment_block cs ++ line ++ nl :: t)) = (gs t, inr vs)
  | None => exists e s', read_row_impl parse_int64 sep n (gs (comment_block cs ++ line ++ nl :: t)) = (s', inl e) /\ Tail s' t
  end.
Proof.
  exact (fun sep Hs n cs line t Hr =>
    conj (read_row_std_vector_spec64 parse_int64 sep int_numch (parse_Z_bound int64_bound) (parse_Z_local int64_bound) Hs int_numch_plus cs line t Hr)
         (read_row_impl_spec64 parse_int64 sep int_numch (parse_Z_bound int64_bound) (parse_Z_local int64_bound) (parse_Z_nil int64_bound) Hs int_numch_plus n cs line t Hr)).
Qed.
Print Assumptions C17_int64_reader_equals_spec.

(* (5) the former defect, replayed on the model of the fixed code: "1" followed by 70 zeros (was [1e63, 0]) is a read
       error for both readers; and the exact boundary of the rule *)
Theorem C17_overlong_token_witness_rejected :
  read_row_std_vector parse_bigint comma (gs (overlong_line ++ [nl])) = (gs (repeat "0"%char 7 ++ [nl]), inl ETooLong) /\
  read_row_impl parse_bigint comma 2 (gs (overlong_line ++ [nl])) = (gs (repeat "0"%char 7 ++ [nl]), inl ETooLong) /\
  spec_row64 parse_bigint comma overlong_line = None.
Proof. exact overlong_token_now_rejected. Qed.
Print Assumptions C17_overlong_token_witness_rejected.

Theorem C17_window_filling_field :
  read_row_std_vector parse_bigint comma (gs (repeat "0"%char 63 ++ ["7"%char; nl])) = (gs [], inr [7%Z]) /\
  (exists s', read_row_std_vector parse_bigint comma (gs (repeat "0"%char 63 ++ ["7"%char; comma; "1"%char; nl])) = (s', inl ETooLong)).
Proof. exact window_filling_field. Qed.
Print Assumptions C17_window_filling_field.

(* (6) documented deviation (a read error, never altered numbers): an empty row directly behind a comment line *)
Theorem C17_empty_row_after_comment_rejected :
  forall (V : Type) (parse : list ascii -> option (V * nat)) (sep : ascii) (t : list ascii),
  exists s', read_row_std_vector parse sep (gs (hash :: nl :: nl :: t)) = (s', inl EExtraction) /\ rest s' = nl :: t.
Proof. exact (@empty_row_after_comment_rejected). Qed.
Print Assumptions C17_empty_row_after_comment_rejected.

(* ---------------------------------------------------------------- the reader state machine as translated on this run *)
(* The GENERATED member functions work on the C++ object (array s, fill level bufidx, keep_reading); Csv.v on the window
   s[0 .. bufidx) (rabs).  Each generated member function commutes with that abstraction — same stream afterwards, same
   read_error, abstracted object — and preserves the object invariant bufidx <= |s|.  from_chars is the parameter fc
   (ok / invalid_argument / result_out_of_range + characters consumed); the model's `parse` is `parse_of fc`. *)
Theorem C17_generated_read_chunk_is_model : forall V (fc : list ascii -> fc_result V) s bufidx kp is, bufidx <= length s ->
  match g_read_chunk fc s bufidx kp is with
  | (is', inl e) => read_chunk (rabs s bufidx kp) is = (is', inl e)
  | (is', inr (s', bufidx', kp')) => read_chunk (rabs s bufidx kp) is = (is', inr (rabs s' bufidx' kp')) /\ bufidx' <= length s'
  end.
Proof. exact g_read_chunk_is_model. Qed.
Print Assumptions C17_generated_read_chunk_is_model.

Theorem C17_generated_read_single_is_model : forall V (fc : list ascii -> fc_result V) s bufend v0, bufend <= length s ->
  g_read_single fc s 0 bufend v0
  = match read_single (parse_of fc) (firstn bufend s) with Some (x, k) => inr (k, x) | None => inl EConversion end.
Proof. exact g_read_single_is_model. Qed.
Print Assumptions C17_generated_read_single_is_model.

(* fc_bound: from_chars(first, last, v) never consumes beyond last *)
Theorem C17_generated_read_is_model : forall V (fc : list ascii -> fc_result V) garbage s bufidx kp is sep, fc_bound fc -> bufidx <= length s ->
  match g_read fc garbage s bufidx kp is sep with
  | (is', inl e) => read (parse_of fc) sep (rabs s bufidx kp) is = (is', inl e)
  | (is', inr (v, s', bufidx', kp')) =>
      read (parse_of fc) sep (rabs s bufidx kp) is = (is', inr (v, rabs s' bufidx' kp')) /\ bufidx' <= length s'
  end.
Proof. exact g_read_is_model. Qed.
Print Assumptions C17_generated_read_is_model.

Theorem C17_generated_next_line_is_model : forall V (fc : list ascii -> fc_result V) s bufidx kp is, bufidx <= length s ->
  g_next_line fc s bufidx kp is = next_line (rabs s bufidx kp) is.
Proof. exact g_next_line_is_model. Qed.
Print Assumptions C17_generated_next_line_is_model.

Theorem C17_generated_done_is_model : forall V (fc : list ascii -> fc_result V) s bufidx kp is, bufidx <= length s ->
  g_done fc s bufidx kp is = done (rabs s bufidx kp) is.
Proof. exact g_done_is_model. Qed.
Print Assumptions C17_generated_done_is_model.

(* whole rows: the row readers built from the generated member functions (the loops of skip_comments / read_row_impl /
   read_row_std_vector are transcribed by hand in CsvGenInst.v, every member call in them is the generated definition)
   ARE the row readers of Csv.v, for every stream *)
Theorem C17_generated_rows_are_model_rows : forall V (fc : list ascii -> fc_result V) (garbage : V) (sep : ascii), fc_bound fc ->
  (forall n is, g_read_row_impl fc garbage sep n is = read_row_impl (parse_of fc) sep n is) /\
  (forall is, g_read_row_std_vector fc garbage sep is = read_row_std_vector (parse_of fc) sep is).
Proof. exact (fun V fc g sep HB => conj (generated_read_row_impl_is_model fc g sep HB) (generated_read_row_std_vector_is_model fc g sep HB)). Qed.
Print Assumptions C17_generated_rows_are_model_rows.

(* (G0) MAIN theorem (0) restated for the generated reader *)
Theorem C17_generated_chunked_equals_spec64_vector :
  forall (V : Type) (fc : list ascii -> fc_result V) (garbage : V) (sep : ascii) (numch : ascii -> bool),
  fc_bound fc ->
  (forall a c b, numch c = false -> parse_of fc (a ++ c :: b) = parse_of fc a) ->
  numch sep = false -> numch plus = true ->
  forall cs line t, row_wf cs line ->
  match spec_row64 (parse_of fc) sep line with
  | Some vs => g_read_row_std_vector fc garbage sep (gs (comment_block cs ++ line ++ nl :: t)) = (gs t, inr vs)
  | None => exists e s', g_read_row_std_vector fc garbage sep (gs (comment_block cs ++ line ++ nl :: t)) = (s', inl e) /\ Tail s' t
  end.
Proof. exact generated_chunked_equals_spec64_vector. Qed.
Print Assumptions C17_generated_chunked_equals_spec64_vector.

Theorem C17_generated_chunked_equals_spec64_fixed :
  forall (V : Type) (fc : list ascii -> fc_result V) (garbage : V) (sep : ascii) (numch : ascii -> bool),
  fc_bound fc ->
  (forall a c b, numch c = false -> parse_of fc (a ++ c :: b) = parse_of fc a) ->
  parse_of fc [] = None ->
  numch sep = false -> numch plus = true ->
  forall n cs line t, row_wf cs line ->
  match spec_row64_n (parse_of fc) sep n line with
  | Some vs => g_read_row_impl fc garbage sep n (gs (comment_block cs ++ line ++ nl :: t)) = (gs t, inr vs)
  | None => exists e s', g_read_row_impl fc garbage sep n (gs (comment_block cs ++ line ++ nl :: t)) = (s', inl e) /\ Tail s' t
  end.
Proof. exact generated_chunked_equals_spec64_fixed. Qed.
Print Assumptions C17_generated_chunked_equals_spec64_fixed.

(* the printer side of (3): the sign rule of float_to_str_vw is print_elem, its default precision is max_digits10 of the
   value's own type (what the hypothesis `parse (to_chars v) = Some (v, ..)` of C17_print_read_roundtrip rests on), the window
   size and the line terminator are the model's *)
Theorem C17_generated_printer_and_constants_are_model :
  (forall V (to_chars : V -> list ascii) (signbit isnan : V -> bool) v,
     g_print_elem to_chars signbit isnan v = print_elem to_chars (fun v => signbit v || isnan v) v) /\
  g_print_precision_follows_value_type = true /\ g_bufmaxsize = bufmax /\ g_end = nl.
Proof. exact (conj g_print_elem_is_model (conj g_print_precision_is_model (conj g_bufmaxsize_is_model g_end_is_model))). Qed.
Print Assumptions C17_generated_printer_and_constants_are_model.

(* non-vacuity: row_ok is met by an 89-byte row (10 fields) behind a 101-byte comment line; the reader returns the
   ten numbers and stands at the next row; asked for 9 numbers it raises an error and leaves the newline in place *)
Example C17_nonvacuous :
  row_ok comma [nv_comment] nv_line /\ length nv_line = 89 /\
  read_row_std_vector parse_int64 comma (gs (comment_block [nv_comment] ++ nv_line ++ nl :: nv_tail))
    = (gs nv_tail, inr (repeat 12345678%Z 10)) /\
  read_row_impl parse_int64 comma 9 (gs (comment_block [nv_comment] ++ nv_line ++ nl :: nv_tail))
    = (gs (nl :: nv_tail), inl ENotConsumed).
Proof. exact (conj nv_row_ok nv_reads). Qed.

(* the generated member functions inside the row readers (CsvGenInst.v) on the same 89-byte row: same results *)
Example C17_nonvacuous_generated :
  g_read_row_std_vector (fc_of_parse parse_int64) 0%Z comma (gs (comment_block [nv_comment] ++ nv_line ++ nl :: nv_tail))
    = (gs nv_tail, inr (repeat 12345678%Z 10)) /\
  g_read_row_impl (fc_of_parse parse_int64) 0%Z comma 9 (gs (comment_block [nv_comment] ++ nv_line ++ nl :: nv_tail))
    = (gs (nl :: nv_tail), inl ENotConsumed).
Proof. split; vm_compute; reflexivity. Qed.
