(* AlmPanocDirProofs.v — END-TO-END for the SHIPPED default stack ALMSolver<PANOCSolver<DirectionProviderT>>: the composed executable model
   AlmPanocDir.alm_panoc_dir (ALM outer loop of Alm.v running PanocDir.panocD — the PANOC loop with a STATEFUL direction provider whose
   state persists across inner solves) returns `Converged` only with an approximate KKT point of the USER'S problem.
     - generically, for EVERY provider `dirops` that keeps dimensions (the five obligations of PanocDirLen.DirLen);
     - for LBFGSDirection (every LBFGSParams, both step-size policies, CBFGS, rescale_on_step_size_changes, every initial provider state)
       with NO hypothesis on the direction: PanocDirLen.lbfgs_dir_keeps_dimensions discharges the obligations from Lbfgs.v;
     - for NoopDirection.
   Ingredients: the refinement theorem (PanocDirProofs.panocD_refines_R = Properties_PANOCDIR.PANOCDIR_refines_oracle_model: every run with a
   provider is the run of the oracle model for the oracle "j-th apply result of that run"), PANOC's inner contract with dimensions
   (PanocLen.panoc_inner_contract_len = C01_panoc_inner_contract_with_dimensions, whose direction-length hypothesis is discharged by
   PanocDirLen.panocD_trace_len) and the generic composition lemma AlmComposeKkt.compose_converged_is_kkt, of which
   C01_alm_panoc_converged_is_kkt is the oracle-direction instance.  Because `initialize` is called at k = 0 of every inner solve, nothing
   has to be assumed about the provider state an inner solve inherits from the previous one.  Over R. *)
From Coq Require Import Reals List ZArith Lra Lia Bool Arith Psatz.
From Flocq Require Import Raux.
From Alpaqa Require Import Num NumR Vec Prox ProxProofs ProxVec SolverStatus SolverKernels SolverKernelsProofs DescentProofs
                           StopChain StopChainProofs KktProofs AugLag AugLagProofs Panoc PanocProofs PanocLen LiveVec
                           Lbfgs LbfgsProofs Directions PanocDir PanocDirProofs PanocDirLen
                           Alm AlmProofs AlmCompose AlmComposeProofs AlmComposeKkt AlmPanoc AlmPanocProofs AlmPanocDir.
Import ListNotations.
Local Open Scope R_scope.

Section E2E.
  Variable Pb : problem (T:=R).
  Variable prov : fn -> bool.
  Variable wm_supplied : list R -> list R.
  Variables (Clb Cub : list (option R)) (l1 : list R).
  Variable split : nat.
  Variable D : Type.
  Variable ops : dirops R D.
  Variable stop_req : counters -> bool.
  Variable time_up : counters -> bool.
  Variable outer_oot : nat -> bool.
  Variable PP : Panoc.params (T:=R).
  Variable AP : alm_params (T:=R).
  Variables (ls_fuel inner_fuel : nat).
  Variables (n m : nat).

  Hypothesis Hprov : provider_ok Pb prov.
  Hypothesis Hempty : grad_g_prod_empty_ok Pb.
  Hypothesis Hl1 : l1 = [].
  Hypothesis Hcrit : p_crit PP = ApproxKKT.
  Hypothesis HLg : 0 < p_Lgamma PP.
  Hypothesis HL : 0 < p_L0 PP \/ 0 < p_Lmin PP <= p_Lmax PP.
  Hypothesis HClb : length Clb = n.
  Hypothesis HCub : length Cub = n.
  Hypothesis HCne : Forall2 box_ne Clb Cub.
  Hypothesis Hgf : forall x, length x = n -> length (pgrad_f Pb x) = n.
  Hypothesis Hgg : forall x y, length x = n -> length (pgrad_g_prod Pb x y) = n.
  Hypothesis Hg : forall x, length x = n -> length (pg Pb x) = m.
  Hypothesis HDlb : length (plb Pb) = m.
  Hypothesis HDub : length (pub Pb) = m.
  Hypothesis HDne : Forall2 box_ne (plb Pb) (pub Pb).

  (* the provider keeps dimensions (PanocDirLen.DirLen) *)
  Variable Iv : D -> Prop.
  Hypothesis I_init : forall d y S γ x xh p g d', length x = n -> length xh = n -> length p = n -> length g = n ->
    d_initialize D ops d y S γ x xh p g = Some d' -> Iv d'.
  Hypothesis I_update : forall d γ γn x xn p pn g gn, Iv d ->
    length x = n -> length xn = n -> length p = n -> length pn = n -> length g = n -> length gn = n ->
    Iv (snd (d_update D ops d γ γn x xn p pn g gn)).
  Hypothesis I_apply : forall d γ x xh p g q b q' d', Iv d -> length x = n -> length xh = n -> length p = n -> length g = n ->
    d_apply D ops d γ x xh p g q = Some (b, q', d') -> Iv d' /\ (b = true -> length q' = n).
  Hypothesis I_changed : forall d a b, Iv d -> Iv (d_changed_gamma D ops d a b).
  Hypothesis I_reset : forall d, Iv d -> Iv (d_reset D ops d).

  Notation inner_ := (dinner Pb prov wm_supplied Clb Cub l1 D ops stop_req time_up outer_oot PP ls_fuel inner_fuel).
  Notation opgf := (o_psi_grad_full Pb prov wm_supplied).
  Notation opy := (o_psi_yhat Pb prov).
  Notation ogL := (o_grad_L Pb prov).
  Notation ogp := (o_grad_psi Pb prov).

  (* ---- one inner solve, whatever provider state it inherits *)
  Lemma dinner_contract : inner_contract_kkt (counters * D)%type (resultD D) inner_ Pb Clb Cub n.
  Proof.
    intros w i x y Σ tol errz r x' lg w' Hx. unfold dinner.
    match goal with |- context [match ?pr with DoneD _ _ => _ | NotFiniteLD _ _ => _ | OutOfFuelD _ => _ | ThrewD _ _ => _ end] =>
      destruct pr as [oD|L| |lg'] eqn:Er end.
    3,4: discriminate.
    2: { intros E. injection E as E1 E2 E3 E4. subst r x'. split; [exact Hx|]. cbn [ir_status]. discriminate. }
    cbv zeta. intros E. injection E as E1 E2 E3 E4. subst r x'. cbn [ir_status ir_y ir_err ir_eps].
    assert (Hpg : forall z, length z = n -> length (snd (psi_grad (opgf y Σ) z)) = n).
    { intros z Hz. rewrite (opgf_grad Pb prov wm_supplied Hprov Hempty). unfold grad_psi_def. now apply (grad_L_def_length Pb n Hgf Hgg). }
    assert (HgL' : forall z yh, length z = n -> length (ogL z yh) = n).
    { intros z yh Hz. rewrite (ogL_val Pb prov Hprov Hempty). now apply (grad_L_def_length Pb n Hgf Hgg). }
    assert (Hgp' : forall z, length z = n -> length (ogp y Σ z) = n).
    { intros z Hz. rewrite (ogp_val Pb prov Hprov Hempty). unfold grad_psi_def. now apply (grad_L_def_length Pb n Hgf Hgg). }
    split.
    { exact (panocD_out_x_length (opgf y Σ) (opy y Σ) ogL (ogp y Σ) Clb Cub l1 D ops _ _ (with_opts PP tol) x y Σ errz ls_fuel (snd w) n
               Hl1 HClb HCub Hx Hpg HgL' Hgp' Iv I_init I_update I_apply I_changed I_reset inner_fuel oD Er). }
    intros Hst. apply alm_status_of_converged in Hst.
    destruct (panocD_inner_contract_len (opgf y Σ) (opy y Σ) ogL (ogp y Σ) Clb Cub l1 D ops _ _ (with_opts PP tol) x y Σ errz ls_fuel (snd w) n
                Hl1 HClb HCub Hx Hpg HgL' Hgp' Iv I_init I_update I_apply I_changed I_reset inner_fuel oD Er Hst Hcrit)
      as (xx & grad & gradh & γ & Lxx & Lgr & Lgh & Ex & Lxo & Ey & Egh & Ee & Eeps & Etol & Hγ).
    set (o := od_out D oD) in *.
    cbv zeta in *. rewrite (opy_val Pb prov Hprov) in Ey. cbn [snd] in Ey.
    assert (Egh' : gradh = grad_L_def Pb (out_x o) (yhat_def Pb (out_x o) y Σ)).
    { change (p_eager (with_opts PP tol)) with (p_eager PP) in Egh. destruct (p_eager PP).
      - destruct Egh as [->| ->]; [rewrite (opgf_grad Pb prov wm_supplied Hprov Hempty)|rewrite (ogp_val Pb prov Hprov Hempty)]; reflexivity.
      - rewrite Egh, (ogL_val Pb prov Hprov Hempty), Ey. reflexivity. }
    split; [now rewrite Ey|]. split; [now rewrite Ee, Ey|].
    exists xx, grad, γ. split.
    { apply Hγ; [exact HLg|]. apply L_init_pos. exact HL. }
    split; [exact Lxx|]. split; [exact Lgr|]. split; [exact Ex|]. split; [now rewrite Eeps, Egh'|exact Etol].
  Qed.

  (* ================================================================ THE theorem, for every dimension-keeping provider *)
  Theorem alm_panoc_dir_converged_is_kkt (d0 : D) outer_fuel nanv Σ0 y0 x0 co :
    length x0 = n -> length y0 = m ->
    Alm.p_max_iter AP <> 0%nat ->
    (m <> 0%nat -> sigma_inv AP m (initial_sigma AP m (pf Pb x0) (pg Pb x0) Σ0)) ->
    (m = 0%nat -> 0 < p_tol AP) ->
    alm_panoc_dir Pb prov wm_supplied Clb Cub l1 split D ops stop_req time_up outer_oot PP AP ls_fuel inner_fuel d0
                  outer_fuel nanv Σ0 y0 x0 = Some co ->
    f_status (co_final co) = Converged ->
    let x := co_x co in let y := f_y (co_final co) in
    length x = n /\ length y = m /\
    (forall i, (i < n)%nat -> in_box (nth i Clb None) (nth i Cub None) (nth i x 0)) /\
    (forall i, (i < n)%nat -> exists r,
        (forall u, in_box (nth i Clb None) (nth i Cub None) u -> r * (u - nth i x 0) <= 0) /\
        Rabs (- nth i (vadd (pgrad_f Pb x) (pgrad_g_prod Pb x y)) 0 - r) <= p_tol AP) /\
    (forall i, (i < m)%nat -> exists z,
        in_box (nth i (plb Pb) None) (nth i (pub Pb) None) z /\ Rabs (nth i (pg Pb x) 0 - z) <= p_dual_tol AP) /\
    (forall i, (i < m)%nat ->
        (0 < nth i y 0 -> exists u, nth i (pub Pb) None = Some u /\ Rabs (nth i (pg Pb x) 0 - u) <= p_dual_tol AP) /\
        (nth i y 0 < 0 -> exists l, nth i (plb Pb) None = Some l /\ Rabs (nth i (pg Pb x) 0 - l) <= p_dual_tol AP)).
  Proof.
    intros Hx0 Hy0 Hmi HΣ Htol Hrun Hst. unfold alm_panoc_dir in Hrun.
    exact (compose_converged_is_kkt (counters * D)%type (resultD D) inner_ Pb Clb Cub split AP n m HClb HCub HCne Hgf Hgg Hg HDlb HDub HDne
             dinner_contract outer_fuel nanv Σ0 y0 x0 (cnt0, d0) co Hx0 Hy0 Hmi HΣ Htol Hrun Hst).
  Qed.
End E2E.

(* ================================================================ the default stack: PANOC + LBFGSDirection *)
Section Lbfgs.
  Variable Pb : problem (T:=R).
  Variable prov : fn -> bool.
  Variable wm_supplied : list R -> list R.
  Variables (Clb Cub : list (option R)) (l1 : list R).
  Variable split : nat.
  Variable pw : R -> R -> R.                  (* std::pow of the CBFGS test: arbitrary *)
  Variable LP : Lbfgs.params R.               (* LBFGSParams: arbitrary (memory < 1 makes initialize throw: no completed run) *)
  Variable rescale : bool.                    (* rescale_on_step_size_changes *)
  Variable stop_req : counters -> bool.
  Variable time_up : counters -> bool.
  Variable outer_oot : nat -> bool.
  Variable PP : Panoc.params (T:=R).
  Variable AP : alm_params (T:=R).
  Variables (ls_fuel inner_fuel : nat).
  Variables (n m : nat).

  Theorem alm_panoc_lbfgs_converged_is_kkt :
    provider_ok Pb prov -> grad_g_prod_empty_ok Pb -> l1 = [] -> p_crit PP = ApproxKKT -> 0 < p_Lgamma PP ->
    0 < p_L0 PP \/ 0 < p_Lmin PP <= p_Lmax PP ->
    length Clb = n -> length Cub = n -> Forall2 box_ne Clb Cub ->
    (forall x, length x = n -> length (pgrad_f Pb x) = n) ->
    (forall x y, length x = n -> length (pgrad_g_prod Pb x y) = n) ->
    (forall x, length x = n -> length (pg Pb x) = m) ->
    length (plb Pb) = m -> length (pub Pb) = m -> Forall2 box_ne (plb Pb) (pub Pb) ->
    forall (d0 : Lbfgs.state R) outer_fuel nanv Σ0 y0 x0 co,
    length x0 = n -> length y0 = m ->
    Alm.p_max_iter AP <> 0%nat ->
    (m <> 0%nat -> sigma_inv AP m (initial_sigma AP m (pf Pb x0) (pg Pb x0) Σ0)) ->
    (m = 0%nat -> 0 < p_tol AP) ->
    alm_panoc_dir Pb prov wm_supplied Clb Cub l1 split (Lbfgs.state R) (lbfgs_dir n pw LP rescale) stop_req time_up outer_oot PP AP
                  ls_fuel inner_fuel d0 outer_fuel nanv Σ0 y0 x0 = Some co ->
    f_status (co_final co) = Converged ->
    let x := co_x co in let y := f_y (co_final co) in
    length x = n /\ length y = m /\
    (forall i, (i < n)%nat -> in_box (nth i Clb None) (nth i Cub None) (nth i x 0)) /\
    (forall i, (i < n)%nat -> exists r,
        (forall u, in_box (nth i Clb None) (nth i Cub None) u -> r * (u - nth i x 0) <= 0) /\
        Rabs (- nth i (vadd (pgrad_f Pb x) (pgrad_g_prod Pb x y)) 0 - r) <= p_tol AP) /\
    (forall i, (i < m)%nat -> exists z,
        in_box (nth i (plb Pb) None) (nth i (pub Pb) None) z /\ Rabs (nth i (pg Pb x) 0 - z) <= p_dual_tol AP) /\
    (forall i, (i < m)%nat ->
        (0 < nth i y 0 -> exists u, nth i (pub Pb) None = Some u /\ Rabs (nth i (pg Pb x) 0 - u) <= p_dual_tol AP) /\
        (nth i y 0 < 0 -> exists l, nth i (plb Pb) None = Some l /\ Rabs (nth i (pg Pb x) 0 - l) <= p_dual_tol AP)).
  Proof.
    intros H1 H2 H3 H4 H5 H6 H7 H8 H9 H10 H11 H12 H13 H14 H15 d0 outer_fuel nanv Σ0 y0 x0 co.
    destruct (lbfgs_dir_keeps_dimensions n pw LP rescale) as (I1 & I2 & I3 & I4 & I5).
    exact (alm_panoc_dir_converged_is_kkt Pb prov wm_supplied Clb Cub l1 split (Lbfgs.state R) (lbfgs_dir n pw LP rescale)
             stop_req time_up outer_oot PP AP ls_fuel inner_fuel n m H1 H2 H3 H4 H5 H6 H7 H8 H9 H10 H11 H12 H13 H14 H15
             (lbfgs_Iv n LP) I1 I2 I3 I4 I5 d0 outer_fuel nanv Σ0 y0 x0 co).
  Qed.
End Lbfgs.

(* ================================================================ non-vacuity *)
(* a PANOC run with a provider whose first iterate already meets the tolerance: Converged at k = 0, no provider call is made *)
Section At0D.
  Variable psi_grad_full : list R -> R * list R * list R.
  Variable psi_yhat : list R -> R * list R.
  Variable grad_L : list R -> list R -> list R.
  Variable grad_psi : list R -> list R.
  Variables (lb ub : list (option R)) (l1 : list R).
  Variable D : Type.
  Variable ops : dirops R D.
  Variable stop_req : counters -> bool.
  Variable time_up : counters -> bool.
  Variable P : Panoc.params (T:=R).
  Variables (x_in y_in Σ errz_in : list R).
  Variable ls_fuel : nat.
  Variable d0 : D.
  Variables (ψ0 ψh h ε : R) (g0 wm0 xh p yh gh : list R).
  Hypothesis HL0 : 0 < p_L0 P.
  Hypothesis HLmax : p_Lmax P <= p_L0 P.
  Hypothesis Heager : p_eager P = false.
  Hypothesis Hcrit : p_crit P = ApproxKKT.
  Hypothesis H1 : psi_grad_full x_in = (ψ0, g0, wm0).
  Hypothesis H2 : eval_prox_grad_step lb ub l1 (p_Lgamma P / p_L0 P) x_in g0 = (xh, p, h).
  Hypothesis H3 : psi_yhat xh = (ψh, yh).
  Hypothesis H4 : grad_L xh yh = gh.
  Hypothesis H5 : vnorminf (kkt_residual (p_Lgamma P / p_L0 P) p g0 gh) = ε.
  Hypothesis H6 : ε <= eff_tol (o_tol P).

  Lemma panocD_converged_at_0 fuel :
    exists oD, panocD psi_grad_full psi_yhat grad_L grad_psi lb ub l1 D ops stop_req time_up P x_in y_in Σ errz_in ls_fuel d0 (S fuel) = DoneD D oD /\
      let o := od_out D oD in
      out_status o = StConverged /\ out_iterations o = 0%nat /\ out_eps o = ε /\ out_x o = xh /\ out_y o = yh /\
      out_errz o = match errz_in with [] => [] | _ => vdiv (vsub yh y_in) Σ end /\ od_dir D oD = d0.
  Proof.
    unfold panocD, init_L, psi_grad. cbv zeta. rewrite H1. cbn [fst snd].
    change (@nleb R NumR) with Rle_bool. change (@n0 R NumR) with 0.
    destruct (Rle_bool_spec (p_L0 P) 0) as [Hc|_]; [lra|].
    cbn [iL nfinite NumR negb]. change (@ndiv R NumR) with Rdiv.
    unfold eval_prox, set_gamma_L. cbn [ix ixh igrad ip iyh ipsi ipsih igam iL ipp igp ih ihave igradh]. rewrite H2. cbn [fst snd].
    unfold eval_psih. rewrite Heager. cbn [ix ixh igrad ip iyh ipsi ipsih igam iL ipp igp ih ihave igradh]. rewrite H3. cbn [fst snd].
    assert (Hq : forall i c s, iL i = p_L0 P -> init_qub psi_grad_full psi_yhat lb ub l1 P ls_fuel i c s = Some (i, c, s)).
    { intros i c s Hi. destruct ls_fuel; cbn [init_qub]; rewrite Hi; change (@nltb R NumR) with Rlt_bool;
        (destruct (Rlt_bool_spec (p_L0 P) (p_Lmax P)) as [Hc|_]; [lra|reflexivity]). }
    rewrite Hq by reflexivity.
    cbn [loopD]. unfold passD. cbn [sd_st sd_dir sd_rej sd_trace st_curr st_k st_np st_cnt st_stats st_log ihave]. unfold need_gradh. rewrite Hcrit. cbn [crit_needs_gradh negb andb].
    unfold eval_gradh. rewrite Heager. cbn [ix ixh igrad ip iyh ipsi ipsih igam iL ipp igp ih ihave igradh]. rewrite H4.
    unfold it_eps. rewrite Hcrit. cbn [crit_eps ix ixh igrad ip iyh ipsi ipsih igam iL ipp igp ih ihave igradh]. rewrite H5.
    rewrite tolerance_wins by (apply Rle_bool_iff; exact H6).
    cbn [overwrites]. rewrite !andb_false_r. unfold exit_block. cbn [overwrites ixh iyh].
    eexists. split; [reflexivity|]. cbn [od_out od_dir out_status out_iterations out_eps out_x out_y out_errz st_k]. repeat split.
  Qed.
End At0D.

(* ---- the instance of AlmPanocProofs (n = 1, m = 1: minimise x s.t. x in [0,1], g(x) = x <= 0, from x0 = 0, y0 = 0) with LBFGSDirection *)
Definition nvLP : Lbfgs.params R :=
  {| p_memory := 5; p_min_div_fac := 0; p_min_abs_s := 0; p_cbfgs_α := 1; p_cbfgs_ϵ := 0; p_force_pos_def := true; p_curvature := true |}.
Definition nv_pw : R -> R -> R := fun x _ => x.
Definition nv_lbfgs := lbfgs_dir 1 nv_pw nvLP false.
Definition nvD_run :=
  alm_panoc_dir nvPb nvprov (fun _ => []) [Some 0] [Some 1] [] 0 (Lbfgs.state R) nv_lbfgs nv_never nv_never (fun _ => false) nvPP nvAP 5 5
                (lbfgs_unsized (T:=R)) 3 0 None [0] [0].

Lemma nvD_inner : exists lg w',
  dinner nvPb nvprov (fun _ => []) [Some 0] [Some 1] [] (Lbfgs.state R) nv_lbfgs nv_never nv_never (fun _ => false) nvPP 5 5
         (cnt0, lbfgs_unsized (T:=R)) 0 [0] [0] [1] 1 [0]
  = Some ({| ir_status := Converged; ir_eps := 0; ir_err := Some [0]; ir_y := Some [0]; ir_iters := 0; ir_oot := false; ir_stop := false |}, [0], lg, w').
Proof.
  unfold dinner. cbn [fst snd].
  set (pgf := o_psi_grad_full nvPb nvprov (fun _ => []) [0] [1]).
  destruct (pgf [0]) as [[ψ0 g0] wm0] eqn:H1.
  assert (Hg0 : g0 = [1 + 0]).
  { pose proof (opgf_grad nvPb nvprov (fun _ => []) nv_provider_ok nv_empty_ok [0] [1] [0]) as Hg. fold pgf in Hg.
    unfold psi_grad in Hg. rewrite H1 in Hg. cbn [fst snd] in Hg. rewrite Hg. unfold grad_psi_def. rewrite nv_yhat. reflexivity. }
  subst g0.
  assert (H2 : eval_prox_grad_step [Some 0] [Some 1] [] (p_Lgamma (with_opts nvPP 1) / p_L0 (with_opts nvPP 1)) [0] [1 + 0] = ([0], [0], 0)).
  { rcomp. f_equal. f_equal; f_equal; lra. }
  assert (H3 : o_psi_yhat nvPb nvprov [0] [1] [0] = (psi_def nvPb [0] [0] [1], [0])).
  { rewrite (opy_val nvPb nvprov nv_provider_ok). now rewrite nv_yhat. }
  assert (H4 : o_grad_L nvPb nvprov [0] [0] = [1 + 0]).
  { rewrite (ogL_val nvPb nvprov nv_provider_ok nv_empty_ok). reflexivity. }
  assert (H5 : vnorminf (kkt_residual (p_Lgamma (with_opts nvPP 1) / p_L0 (with_opts nvPP 1)) [0] [1 + 0] [1 + 0]) = 0).
  { cbv -[Rplus Rminus Rmult Rdiv Rinv Ropp Rle_bool Rlt_bool Req_bool Rabs IZR sqrt].
    replace (1 / (1 / 2 / 1) * 0 + (1 + 0 - (1 + 0))) with 0 by lra. apply Rabs_R0. }
  assert (H6 : 0 <= eff_tol (o_tol (with_opts nvPP 1))).
  { unfold eff_tol. cbn [o_tol with_opts]. change (@nltb R NumR) with Rlt_bool. change (@n0 R NumR) with 0.
    rewrite (Rlt_bool_true 0 1) by lra. lra. }
  destruct (panocD_converged_at_0 pgf (o_psi_yhat nvPb nvprov [0] [1]) (o_grad_L nvPb nvprov) (o_grad_psi nvPb nvprov [0] [1])
              [Some 0] [Some 1] [] (Lbfgs.state R) nv_lbfgs (fun c => nv_never (cadd cnt0 c)) (fun c => nv_never (cadd cnt0 c))
              (with_opts nvPP 1) [0] [0] [1] [0] 5 (lbfgs_unsized (T:=R)) ψ0 (psi_def nvPb [0] [0] [1]) 0 0 [1 + 0] wm0 [0] [0] [0] [1 + 0]
              ltac:(cbn; lra) ltac:(cbn; lra) eq_refl eq_refl H1 H2 H3 H4 H5 H6 4)
    as (oD & Hrun & O1 & O2 & O3 & O4 & O5 & O6 & O7).
  rewrite Hrun. cbv zeta. rewrite O1, O2, O3, O4, O5, O6. cbn [alm_status_of].
  replace (vdiv (vsub [0] [0]) [1]) with [0] by (cbn; f_equal; lra).
  eexists. eexists. reflexivity.
Qed.

Lemma nvD_converged : exists co, nvD_run = Some co /\ f_status (co_final co) = Converged /\ co_x co = [0] /\ f_y (co_final co) = [0].
Proof.
  destruct nvD_inner as (lg & w' & Hin).
  unfold nvD_run, alm_panoc_dir, c_run, c_script_of.
  change (Nat.eqb (Alm.p_max_iter nvAP) 0) with false. change (Nat.eqb (pb_m (pb_of nvPb 0)) 0) with false. cbv iota.
  set (s0 := init_state nvAP (pb_of nvPb 0) (pf nvPb [0]) (pg nvPb [0]) 0 None [0]).
  assert (Es : s0 = {| s_Sigma := [1]; s_err := [0]; s_err_old := [0]; s_norm_old := 0; s_eps := 1; s_y := [0]; s_fails := 0; s_iters := 0 |})
    by (unfold s0; rcomp; reflexivity).
  assert (Ey : c_y_in nvAP (pb_of nvPb 0) s0 = [0]) by (rewrite Es; rcomp; reflexivity).
  set (r0 := {| ir_status := Converged; ir_eps := 0; ir_err := Some [0]; ir_y := Some [0]; ir_iters := 0; ir_oot := false; ir_stop := false |}) in *.
  assert (Ex : f_exhausted (snd (alm_loop nvAP (pb_of nvPb 0) 0 s0 [r0])) = false).
  { rewrite Es. cbv -[Rplus Rminus Rmult Rdiv Rinv Ropp Rle_bool Rlt_bool Req_bool Rabs IZR sqrt]. rewrite Rabs_R0. rbb. reflexivity. }
  rewrite c_loop_S. rewrite Ey.
  replace (s_Sigma s0) with [1] by (rewrite Es; reflexivity). replace (s_eps s0) with 1 by (rewrite Es; reflexivity).
  replace (s_err s0) with [0] by (rewrite Es; reflexivity). rewrite Hin. rewrite Ex.
  eexists. split; [reflexivity|]. cbn [co_final co_x c_script c_x].
  unfold alm_run. change (Nat.eqb (Alm.p_max_iter nvAP) 0) with false. change (Nat.eqb (pb_m (pb_of nvPb 0)) 0) with false. cbv iota.
  fold s0. rewrite Es.
  cbv -[Rplus Rminus Rmult Rdiv Rinv Ropp Rle_bool Rlt_bool Req_bool Rabs IZR sqrt]. rewrite !Rabs_R0. rbb. repeat split.
Qed.
