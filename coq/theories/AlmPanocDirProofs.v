(* AlmPanocDirProofs.v — END-TO-END for the SHIPPED default stack ALMSolver<PANOCSolver<DirectionProviderT>>: the composed executable model
   AlmPanocDir.alm_panoc_dir (ALM outer loop of Alm.v running PanocDir.panocD — the PANOC loop with a STATEFUL direction provider whose
   state persists across inner solves) returns `Converged` only with an approximate KKT point of the USER'S problem.
     - generically, for EVERY provider `dirops` that keeps dimensions (the five obligations of PanocDirLen.DirLen);
     - for LBFGSDirection (every LBFGSParams, both step-size policies, CBFGS, rescale_on_step_size_changes, every initial provider state)
       with NO hypothesis on the direction: PanocDirLen.lbfgs_dir_keeps_dimensions discharges the obligations from Lbfgs.v;
     - for NoopDirection.
   Ingredients: the refinement theorem (PanocDirProofs.panocD_refines_R = Properties_PANOCDIR.PANOCDIR_refines_oracle_model: every run with a
   provider is the run of the oracle model for the oracle "j-th apply result of that run"), PANOC's inner contract with dimensions
   (PanocLen.panoc_inner_contract_len = C01_panoc_inner_contract_with_dimensions, whose direction-length hypothesis is discharged by
   PanocDirLen.panocD_trace_len) and the generic composition lemma AlmComposeKkt.compose_converged_is_kkt, of which
   C01_alm_panoc_converged_is_kkt is the oracle-direction instance.  Because `initialize` is called at k = 0 of every inner solve, nothing
   has to be assumed about the provider state an inner solve inherits from the previous one.  Over R. *)
From Coq Require Import Reals List ZArith Lra Lia Bool Arith Psatz.
From Flocq Require Import Raux.
From Alpaqa Require Import Num NumR Vec Prox ProxProofs ProxVec SolverStatus SolverKernels SolverKernelsProofs DescentProofs
                           StopChain StopChainProofs KktProofs AugLag AugLagProofs Panoc PanocProofs PanocLen LiveVec
                           Lbfgs LbfgsProofs Directions PanocDir PanocDirProofs PanocDirLen
                           Alm AlmProofs AlmCompose AlmComposeProofs AlmComposeKkt AlmPanoc AlmPanocProofs AlmPanocDir.
Import ListNotations.
Local Open Scope R_scope.

Section E2E.
  Variable Pb : problem (T:=R).
  Variable prov : fn -> bool.
  Variable wm_supplied : list R -> list R.
  Variables (Clb Cub : list (option R)) (l1 : list R).
  Variable split : nat.
  Variable D : Type.
  Variable ops : dirops R D.
  Variable stop_req : counters -> bool.
  Variable time_up : counters -> bool.
  Variable outer_oot : nat -> bool.
  Variable PP : Panoc.params (T:=R).
  Variable AP : alm_params (T:=R).
  Variables (ls_fuel inner_fuel : nat).
  Variables (n m : nat).

  Hypothesis Hprov : provider_ok Pb prov.
  Hypothesis Hempty : grad_g_prod_empty_ok Pb.
  Hypothesis Hl1 : l1 = [].
  Hypothesis Hcrit : p_crit PP = ApproxKKT.
  Hypothesis HLg : 0 < p_Lgamma PP.
  Hypothesis HL : 0 < p_L0 PP \/ 0 < p_Lmin PP <= p_Lmax PP.
  Hypothesis HClb : length Clb = n.
  Hypothesis HCub : length Cub = n.
  Hypothesis HCne : Forall2 box_ne Clb Cub.
  Hypothesis Hgf : forall x, length x = n -> length (pgrad_f Pb x) = n.
  Hypothesis Hgg : forall x y, length x = n -> length (pgrad_g_prod Pb x y) = n.
  Hypothesis Hg : forall x, length x = n -> length (pg Pb x) = m.
  Hypothesis HDlb : length (plb Pb) = m.
  Hypothesis HDub : length (pub Pb) = m.
  Hypothesis HDne : Forall2 box_ne (plb Pb) (pub Pb).

  (* the provider keeps dimensions (PanocDirLen.DirLen) *)
  Variable Iv : D -> Prop.
  Hypothesis I_init : forall d y S γ x xh p g d', length x = n -> length xh = n -> length p = n -> length g = n ->
    d_initialize D ops d y S γ x xh p g = Some d' -> Iv d'.
  Hypothesis I_update : forall d γ γn x xn p pn g gn, Iv d ->
    length x = n -> length xn = n -> length p = n -> length pn = n -> length g = n -> length gn = n ->
    Iv (snd (d_update D ops d γ γn x xn p pn g gn)).
  Hypothesis I_apply : forall d γ x xh p g q b q' d', Iv d -> length x = n -> length xh = n -> length p = n -> length g = n ->
    d_apply D ops d γ x xh p g q = Some (b, q', d') -> Iv d' /\ (b = true -> length q' = n).
  Hypothesis I_changed : forall d a b, Iv d -> Iv (d_changed_gamma D ops d a b).
  Hypothesis I_reset : forall d, Iv d -> Iv (d_reset D ops d).

  Notation inner_ := (dinner Pb prov wm_supplied Clb Cub l1 D ops stop_req time_up outer_oot PP ls_fuel inner_fuel).
  Notation opgf := (o_psi_grad_full Pb prov wm_supplied).
  Notation opy := (o_psi_yhat Pb prov).
  Notation ogL := (o_grad_L Pb prov).
  Notation ogp := (o_grad_psi Pb prov).

  (* ---- one inner solve, whatever provider state it inherits *)
  Lemma dinner_contract : inner_contract_kkt (counters * D)%type (resultD D) inner_ Pb Clb Cub n.
  Proof.
    intros w i x y Σ tol errz r x' lg w' Hx. unfold dinner.
    match goal with |- context [match ?pr with DoneD _ _ => _ | NotFiniteLD _ _ => _ | OutOfFuelD _ => _ | ThrewD _ _ => _ end] =>
      destruct pr as [oD|L| |lg'] eqn:Er end.
    3,4: discriminate.
    2: { intros E. injection E as E1 E2 E3 E4. subst r x'. split; [exact Hx|]. cbn [ir_status]. discriminate. }
    cbv zeta. intros E. injection E as E1 E2 E3 E4. subst r x'. cbn [ir_status ir_y ir_err ir_eps].
    assert (Hpg : forall z, length z = n -> length (snd (psi_grad (opgf y Σ) z)) = n).
    { intros z Hz. rewrite (opgf_grad Pb prov wm_supplied Hprov Hempty). unfold grad_psi_def. now apply (grad_L_def_length Pb n Hgf Hgg). }
    assert (HgL' : forall z yh, length z = n -> length (ogL z yh) = n).
    { intros z yh Hz. rewrite (ogL_val Pb prov Hprov Hempty). now apply (grad_L_def_length Pb n Hgf Hgg). }
    assert (Hgp' : forall z, length z = n -> length (ogp y Σ z) = n).
    { intros z Hz. rewrite (ogp_val Pb prov Hprov Hempty). unfold grad_psi_def. now apply (grad_L_def_length Pb n Hgf Hgg). }
    split.
    { exact (panocD_out_x_length (opgf y Σ) (opy y Σ) ogL (ogp y Σ) Clb Cub l1 D ops _ _ (with_opts PP tol) x y Σ errz ls_fuel (snd w) n
               Hl1 HClb HCub Hx Hpg HgL' Hgp' Iv I_init I_update I_apply I_changed I_reset inner_fuel oD Er). }
    intros Hst. apply alm_status_of_converged in Hst.
    destruct (panocD_inner_contract_len (opgf y Σ) (opy y Σ) ogL (ogp y Σ) Clb Cub l1 D ops _ _ (with_opts PP tol) x y Σ errz ls_fuel (snd w) n
                Hl1 HClb HCub Hx Hpg HgL' Hgp' Iv I_init I_update I_apply I_changed I_reset inner_fuel oD Er Hst Hcrit)
      as (xx & grad & gradh & γ & Lxx & Lgr & Lgh & Ex & Lxo & Ey & Egh & Ee & Eeps & Etol & Hγ).
    set (o := od_out D oD) in *.
    cbv zeta in *. rewrite (opy_val Pb prov Hprov) in Ey. cbn [snd] in Ey.
    assert (Egh' : gradh = grad_L_def Pb (out_x o) (yhat_def Pb (out_x o) y Σ)).
    { change (p_eager (with_opts PP tol)) with (p_eager PP) in Egh. destruct (p_eager PP).
      - destruct Egh as [->| ->]; [rewrite (opgf_grad Pb prov wm_supplied Hprov Hempty)|rewrite (ogp_val Pb prov Hprov Hempty)]; reflexivity.
      - rewrite Egh, (ogL_val Pb prov Hprov Hempty), Ey. reflexivity. }
    split; [now rewrite Ey|]. split; [now rewrite Ee, Ey|].
    exists xx, grad, γ. split.
    { apply Hγ; [exact HLg|]. apply L_init_pos. exact HL. }
    split; [exact Lxx|]. split; [exact Lgr|]. split; [exact Ex|]. split; [now rewrite Eeps, Egh'|exact Etol].
  Qed.

  (* ================================================================ THE theorem, for every dimension-keeping provider *)
  Theorem alm_panoc_dir_converged_is_kkt (d0 : D) outer_fuel nanv Σ0 y0 x0 co :
    length x0 = n -> length y0 = m ->
    Alm.p_max_iter AP <> 0%nat ->
    (m <> 0%nat -> sigma_inv AP m (initial_sigma AP m (pf Pb x0) (pg Pb x0) Σ0)) ->
    (m = 0%nat -> 0 < p_tol AP) ->
    alm_panoc_dir Pb prov wm_supplied Clb Cub l1 split D ops stop_req time_up outer_oot PP AP ls_fuel inner_fuel d0
                  outer_fuel nanv Σ0 y0 x0 = Some co ->
    f_status (co_final co) = Converged ->
    let x := co_x co in let y := f_y (co_final co) in
    length x = n /\ length y = m /\
    (forall i, (i < n)%nat -> in_box (nth i Clb None) (nth i Cub None) (nth i x 0)) /\
    (forall i, (i < n)%nat -> exists r,
        (forall u, in_box (nth i Clb None) (nth i Cub None) u -> r * (u - nth i x 0) <= 0) /\
        Rabs (- nth i (vadd (pgrad_f Pb x) (pgrad_g_prod Pb x y)) 0 - r) <= p_tol AP) /\
    (forall i, (i < m)%nat -> exists z,
        in_box (nth i (plb Pb) None) (nth i (pub Pb) None) z /\ Rabs (nth i (pg Pb x) 0 - z) <= p_dual_tol AP) /\
    (forall i, (i < m)%nat ->
        (0 < nth i y 0 -> exists u, nth i (pub Pb) None = Some u /\ Rabs (nth i (pg Pb x) 0 - u) <= p_dual_tol AP) /\
        (nth i y 0 < 0 -> exists l, nth i (plb Pb) None = Some l /\ Rabs (nth i (pg Pb x) 0 - l) <= p_dual_tol AP)).
  Proof.
    intros Hx0 Hy0 Hmi HΣ Htol Hrun Hst. unfold alm_panoc_dir in Hrun.
    exact (compose_converged_is_kkt (counters * D)%type (resultD D) inner_ Pb Clb Cub split AP n m HClb HCub HCne Hgf Hgg Hg HDlb HDub HDne
             dinner_contract outer_fuel nanv Σ0 y0 x0 (cnt0, d0) co Hx0 Hy0 Hmi HΣ Htol Hrun Hst).
  Qed.
End E2E.

(* ================================================================ the default stack: PANOC + LBFGSDirection *)
Section Lbfgs.
  Variable Pb : problem (T:=R).
  Variable prov : fn -> bool.
  Variable wm_supplied : list R -> list R.
  Variables (Clb Cub : list (option R)) (l1 : list R).
  Variable split : nat.
  Variable pw : R -> R -> R.                  (* std::pow of the CBFGS test: arbitrary *)
  Variable LP : Lbfgs.params R.               (* LBFGSParams: arbitrary (memory < 1 makes initialize throw: no completed run) *)
  Variable rescale : bool.                    (* rescale_on_step_size_changes *)
  Variable stop_req : counters -> bool.
  Variable time_up : counters -> bool.
  Variable outer_oot : nat -> bool.
  Variable PP : Panoc.params (T:=R).
  Variable AP : alm_params (T:=R).
  Variables (ls_fuel inner_fuel : nat).
  Variables (n m : nat).

  Theorem alm_panoc_lbfgs_converged_is_kkt :
    provider_ok Pb prov -> grad_g_prod_empty_ok Pb -> l1 = [] -> p_crit PP = ApproxKKT -> 0 < p_Lgamma PP ->
    0 < p_L0 PP \/ 0 < p_Lmin PP <= p_Lmax PP ->
    length Clb = n -> length Cub = n -> Forall2 box_ne Clb Cub ->
    (forall x, length x = n -> length (pgrad_f Pb x) = n) ->
    (forall x y, length x = n -> length (pgrad_g_prod Pb x y) = n) ->
    (forall x, length x = n -> length (pg Pb x) = m) ->
    length (plb Pb) = m -> length (pub Pb) = m -> Forall2 box_ne (plb Pb) (pub Pb) ->
    forall (d0 : Lbfgs.state R) outer_fuel nanv Σ0 y0 x0 co,
    length x0 = n -> length y0 = m ->
    Alm.p_max_iter AP <> 0%nat ->
    (m <> 0%nat -> sigma_inv AP m (initial_sigma AP m (pf Pb x0) (pg Pb x0) Σ0)) ->
    (m = 0%nat -> 0 < p_tol AP) ->
    alm_panoc_dir Pb prov wm_supplied Clb Cub l1 split (Lbfgs.state R) (lbfgs_dir n pw LP rescale) stop_req time_up outer_oot PP AP
                  ls_fuel inner_fuel d0 outer_fuel nanv Σ0 y0 x0 = Some co ->
    f_status (co_final co) = Converged ->
    let x := co_x co in let y := f_y (co_final co) in
    length x = n /\ length y = m /\
    (forall i, (i < n)%nat -> in_box (nth i Clb None) (nth i Cub None) (nth i x 0)) /\
    (forall i, (i < n)%nat -> exists r,
        (forall u, in_box (nth i Clb None) (nth i Cub None) u -> r * (u - nth i x 0) <= 0) /\
        Rabs (- nth i (vadd (pgrad_f Pb x) (pgrad_g_prod Pb x y)) 0 - r) <= p_tol AP) /\
    (forall i, (i < m)%nat -> exists z,
        in_box (nth i (plb Pb) None) (nth i (pub Pb) None) z /\ Rabs (nth i (pg Pb x) 0 - z) <= p_dual_tol AP) /\
    (forall i, (i < m)%nat ->
        (0 < nth i y 0 -> exists u, nth i (pub Pb) None = Some u /\ Rabs (nth i (pg Pb x) 0 - u) <= p_dual_tol AP) /\
        (nth i y 0 < 0 -> exists l, nth i (plb Pb) None = Some l /\ Rabs (nth i (pg Pb x) 0 - l) <= p_dual_tol AP)).
  Proof.
    intros H1 H2 H3 H4 H5 H6 H7 H8 H9 H10 H11 H12 H13 H14 H15 d0 outer_fuel nanv Σ0 y0 x0 co.
    destruct (lbfgs_dir_keeps_dimensions n pw LP rescale) as (I1 & I2 & I3 & I4 & I5).
    exact (alm_panoc_dir_converged_is_kkt Pb prov wm_supplied Clb Cub l1 split (Lbfgs.state R) (lbfgs_dir n pw LP rescale)
             stop_req time_up outer_oot PP AP ls_fuel inner_fuel n m H1 H2 H3 H4 H5 H6 H7 H8 H9 H10 H11 H12 H13 H14 H15
             (lbfgs_Iv n LP) I1 I2 I3 I4 I5 d0 outer_fuel nanv Σ0 y0 x0 co).
  Qed.
End Lbfgs.
