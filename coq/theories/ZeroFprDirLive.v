(* ZeroFprDirLive.v — LIVENESS of ZeroFPR with a SHIPPED (stateful) direction provider: ZeroFprDir.zerofprD over R.
   Same route as PanocDirLive.v: pass by pass on the provider model, one pass simulated by one oracle pass (ZeroFprDirProofs.zpass_sim),
   liveness of the oracle pass from ZeroFprLiveG.zpass_live_g (abstract stopping criterion), and here: the provider never throws and the
   line search never runs out of fuel (zpassD_struct), for every provider satisfying DirWf.dir_wf and both values of
   update_direction_from_prox_step. *)
From Coq Require Import Reals List ZArith Lra Lia Bool Arith Psatz.
From Flocq Require Import Raux.
From Alpaqa Require Import Num NumR Vec Prox ProxProofs ProxVec SolverStatus SolverKernels SolverKernelsProofs DescentProofs
                           StopChain StopChainProofs LoopSkeleton KktProofs Panoc PanocProofs LiveVec PanocLive PanocLiveKkt
                           ZeroFpr ZeroFprProofs ZeroFprLive ZeroFprLiveG Directions PanocDir PanocDirProofs ZeroFprDir ZeroFprDirProofs DirWf.
Import ListNotations.
Local Open Scope R_scope.

Section ZDirLive.
  Variable psi_grad_full : list R -> R * list R * list R.
  Variable psi_yhat : list R -> R * list R.
  Variable grad_L : list R -> list R -> list R.
  Variable grad_psi : list R -> list R.
  Variables (lb ub : list (option R)).
  Variable D : Type.
  Variable ops : dirops R D.
  Variable P : params (T:=R).
  Variable from_prox : bool.
  Variables (x_in y_in Σ errz_in : list R).
  Variable ls_fuel : nat.
  Variable d0 : D.

  Notation l1 := (@nil R).
  Notation never := (fun _ : counters => false).
  Notation zdummy := (fun (_ : nat) (_ : iterate (T:=R)) (_ : proxit (T:=R)) => @None (list R)).
  Notation dummy := (fun (_ : nat) (_ : iterate (T:=R)) => @None (list R)).
  Notation hasinit := (d_has_initial D ops).
  Notation ZP f := (f psi_grad_full psi_yhat grad_L grad_psi lb ub l1 zdummy hasinit never never P x_in y_in Σ errz_in ls_fuel).
  Notation ZL f := (f psi_grad_full psi_yhat grad_L grad_psi lb ub zdummy hasinit P x_in y_in Σ errz_in ls_fuel).
  Notation PP f := (f psi_grad_full psi_yhat grad_L grad_psi lb ub l1 dummy hasinit never never P x_in y_in Σ errz_in ls_fuel).

  Notation it := (iterate (T:=R)).
  Notation eprox := (eval_prox lb ub l1).
  Notation ecost := (eval_cost psi_yhat).
  Notation proxof := (eval_prox_it grad_L lb ub l1).
  Notation lsloop := (ZeroFpr.ls_loop psi_grad_full psi_yhat lb ub l1 never P).
  Notation lsloopD := (zls_loopD psi_grad_full psi_yhat lb ub l1 D ops never P from_prox).
  Notation passD_ := (zpassD psi_grad_full psi_yhat grad_L lb ub l1 D ops never never P from_prox x_in y_in Σ errz_in ls_fuel).
  Notation loopD_ := (zloopD psi_grad_full psi_yhat grad_L lb ub l1 D ops never never P from_prox x_in y_in Σ errz_in ls_fuel).
  Notation runD_ := (zerofprD psi_grad_full psi_yhat grad_L grad_psi lb ub l1 D ops never never P from_prox x_in y_in Σ errz_in ls_fuel d0).
  Notation pass_ O := (ZeroFpr.pass psi_grad_full psi_yhat grad_L lb ub l1 O hasinit never never P x_in y_in Σ errz_in ls_fuel).
  Notation pgrad := (psi_grad psi_grad_full).
  Notation zeps i := (zit_eps lb ub l1 P i (proxof i)).
  Notation Consistent := (zconsistent psi_grad_full psi_yhat grad_L lb ub l1).
  Notation Linit := (L_init psi_grad_full grad_psi P x_in).

  Variables (ψ : list R -> R) (g : list R -> list R) (n : nat) (Lf ψinf : R).
  Hypothesis Hpsi : forall x, pgrad x = (ψ x, g x).
  Hypothesis Hco : zcoherent psi_grad_full psi_yhat grad_L.
  Hypothesis Hglen : forall x, length x = n -> length (g x) = n.
  Hypothesis Hqub : forall u d, length u = n -> length d = n ->
    ψ (vadd u d) <= ψ u + vdot (g u) d + Lf / 2 * vsqnorm d.
  Hypothesis Hinf : forall z, all_in_box lb ub z -> ψinf <= ψ z.
  Hypothesis Hlb : length lb = n.
  Hypothesis Hub : length ub = n.
  Hypothesis Hne : Forall2 box_ne lb ub.
  Hypothesis Hxin : length x_in = n.
  Hypothesis HLg : 0 < p_Lgamma P < 1.
  Hypothesis HL0 : 0 < Linit.
  Hypothesis HLmax : Lf <= p_Lmax P.
  Hypothesis Hqt : p_qub_tol P = 0.
  Hypothesis Hlt : p_ls_tol P = 0.
  Hypothesis Hbeta : 0 < p_beta P <= 1.
  Hypothesis Hforce : p_force_ls P = false.
  Variables (nL nT : nat).
  Hypothesis HnL : p_Lmax P <= Linit * 2 ^ nL.
  Hypothesis Hmin : (1 / 2) ^ nT < p_tau_min P.
  Hypothesis Hfuel : (ZeroFprProofs.ls_pass_bound nL nT <= ls_fuel)%nat.

  Variables I0 Iv : D -> Prop.
  Hypothesis Hwf : dir_wf n D ops I0 Iv.
  Hypothesis HI0 : I0 d0.

  Notation tol := (tol P).
  Notation Phi0 := (Phi0 psi_grad_full grad_psi lb ub P x_in ψ g Lf).
  Notation good := (good psi_grad_full grad_psi lb ub P x_in ψ g n Lf).

  (* ------------------------------------------------------------------ lengths *)
  Definition zlens_x (i : it) : Prop := length (ix i) = n /\ length (igrad i) = n.
  Definition zlens (i : it) : Prop := zlens_x i /\ length (ixh i) = n /\ length (ip i) = n.
  Definition plens (px : proxit (T:=R)) : Prop := length (px_xh px) = n /\ length (px_p px) = n /\ length (px_grad px) = n.

  Lemma zconsistent_lens (i : it) : Consistent i -> length (ix i) = n -> zlens i /\ plens (proxof i).
  Proof.
    intros Hc Hl.
    pose proof (ZeroFprLive.consistent_facts psi_grad_full psi_yhat grad_L grad_psi lb ub zdummy hasinit P x_in y_in Σ errz_in ls_fuel ψ g n
                  Hpsi Hco Hglen Hlb Hub Hne Hxin i Hc Hl) as F.
    destruct (ZP zconsistent_coherent i Hco Hc) as [E1 E2]. rewrite Hpsi in E1, E2. inversion E1 as [[Ep Eg]]. cbn [snd] in E2.
    pose proof (f_lenxh _ _ _ _ _ i F) as Lxh.
    split.
    - split; [split; [exact Hl|rewrite Eg; now apply Hglen]|]. split; [exact Lxh|apply (f_lenp _ _ _ _ _ i F)].
    - assert (Lg : length (px_grad (proxof i)) = n) by (rewrite E2; now apply Hglen).
      unfold plens. split; [|split; [|exact Lg]]; unfold eval_prox_it, prox_step_in_prox in *; cbn [px_xh px_p px_grad eval_prox_grad_step] in *;
        apply (proj_grad_step_length lb ub (igam i) (ixh i) _ n Hlb Hub Lxh Lg).
  Qed.
  Lemma prox_cost_lens (i : it) : zlens_x i -> zlens (ecost (eprox i)).
  Proof.
    intros [Hx Hg]. unfold eval_prox, eval_cost. cbn [eval_prox_grad_step ix ixh igrad ip].
    destruct (proj_grad_step_length lb ub (igam i) (ix i) (igrad i) n Hlb Hub Hx Hg) as [Lxh Lp].
    unfold zlens, zlens_x. cbn [ix ixh igrad ip]. repeat split; assumption.
  Qed.
  Lemma prox_step_plens γ (xh gr : list R) : length xh = n -> length gr = n -> plens (prox_step_in_prox lb ub l1 γ xh gr).
  Proof.
    intros Hx Hg. unfold plens, prox_step_in_prox. cbn [px_xh px_p px_grad eval_prox_grad_step].
    destruct (proj_grad_step_length lb ub γ xh gr n Hlb Hub Hx Hg) as [A B]. repeat split; assumption.
  Qed.

  Lemma zdir_update_wf b d (c : it) (px : proxit (T:=R)) (nx : it) : Iv d -> zlens c -> plens px -> zlens nx ->
    Iv (snd (zdir_update D ops b d c px nx)).
  Proof.
    intros Hd ((A1 & A2) & A3 & A4) (P1 & P2 & P3) ((B1 & B2) & B3 & B4). unfold zdir_update.
    destruct b; now apply (wf_update n D ops I0 Iv Hwf).
  Qed.

  (* ------------------------------------------------------------------ the provider through the line search *)
  Definition ZLenD (τi : R) (s : ZeroFpr.ls_state (T:=R)) : Prop :=
    (zlens_x (ZeroFpr.ls_next s) \/ (ZeroFpr.ls_tau_prev s = - 1 /\ ZeroFpr.ls_tau s = τi)) /\
    (τi = 0 -> ZeroFpr.ls_tau s = 0).

  Lemma zls_loopD_wf (curr : it) (px : proxit (T:=R)) q τi : zlens curr -> plens px ->
    (τi = 0 \/ τi = 1) -> (τi = 1 -> length q = n) -> forall fuel s d rej, ZLenD τi s -> Iv d ->
    Iv (snd (fst (lsloopD fuel curr px q τi s d rej))) /\
    match fst (fst (lsloopD fuel curr px q τi s d rej)) with ZeroFpr.LsDone l => zlens (ZeroFpr.ls_next l) | _ => True end.
  Proof.
    intros Lc Lp Hτi Hq. induction fuel as [|fuel IH]; intros s d rej HI Hd; [split; [exact Hd|exact I]|].
    cbn [zls_loopD].
    change (@nltb R NumR) with Rlt_bool. change (@neqb R NumR) with Req_bool. change (@nleb R NumR) with Rle_bool.
    change (@n0 R NumR) with 0. change (@n1 R NumR) with 1.
    set (τ := ZeroFpr.ls_tau s) in *.
    set (ph := if Req_bool τ (ZeroFpr.ls_tau_prev s) then (ZeroFpr.ls_next s, inc_polls (ZeroFpr.ls_cnt s))
               else if Req_bool τ 0 then (ZeroFpr.take_safe_step curr px (ZeroFpr.ls_next s), inc_polls (ZeroFpr.ls_cnt s))
               else (ZeroFpr.take_accel_step psi_grad_full τ q curr (ZeroFpr.ls_next s), inc_pg (inc_polls (ZeroFpr.ls_cnt s)))).
    destruct HI as (Hn & Hz). fold τ in Hn, Hz.
    assert (F : zlens_x (fst ph)).
    { subst ph. destruct (Req_bool_spec τ (ZeroFpr.ls_tau_prev s)) as [Et|Et].
      - cbn [fst]. destruct Hn as [Hn|[Hp Ht]]; [exact Hn|]. exfalso. rewrite Ht, Hp in Et. destruct Hτi; lra.
      - destruct (Req_bool_spec τ 0) as [E0|E0]; cbn [fst].
        + unfold ZeroFpr.take_safe_step, zlens_x. cbn [ix igrad]. split; [apply Lc|apply Lp].
        + unfold ZeroFpr.take_accel_step, eval_psi_grad, zlens_x. cbn [ix igrad].
          assert (Hcl : length (zerofpr_candidate τ (ixh curr) q) = n).
          { apply zerofpr_candidate_length; [apply Lc|]. apply Hq. destruct Hτi as [Ei|Ei]; [|exact Ei]. exfalso. apply E0, Hz, Ei. }
          split; [exact Hcl|]. rewrite Hpsi. cbn [snd]. now apply Hglen. }
    destruct ph as [next c1]. cbn [fst] in F.
    (* fail branch *)
    match goal with |- context [if ?b then lsloopD fuel curr px q τi ?s1 ?d1 ?r1 else _] => destruct b eqn:Efail; [apply (IH s1 d1 r1)|] end.
    { unfold ZLenD; cbn [ZeroFpr.ls_next ZeroFpr.ls_tau ZeroFpr.ls_tau_prev]. split; [left; exact F|]. reflexivity. }
    { apply (wf_reset n D ops I0 Iv Hwf), Hd. }
    set (next1 := ecost (eprox next)).
    assert (N1 : zlens next1) by (apply prox_cost_lens, F).
    (* QUB branch *)
    match goal with |- context [if ?b then lsloopD fuel curr px q τi ?s1 ?d1 ?r1 else _] => destruct b eqn:Equb; [apply (IH s1 d1 r1)|] end.
    { unfold ZLenD; cbn [ZeroFpr.ls_next ZeroFpr.ls_tau ZeroFpr.ls_tau_prev]. split; [left; apply N1|].
      intros Ei. destruct (Rlt_bool_spec 0 τ) as [Hp|Hp]; [exact Ei|apply Hz, Ei]. }
    { exact Hd. }
    set (ud := if ZeroFpr.ls_upd s && negb (ZeroFpr.ls_updated s) then zdir_update D ops from_prox d curr px next1 else (true, d)).
    assert (Hu : Iv (snd ud)).
    { subst ud. destruct (ZeroFpr.ls_upd s && negb (ZeroFpr.ls_updated s)); [|exact Hd]. now apply zdir_update_wf. }
    (* line-search branch *)
    match goal with |- context [if ?b then lsloopD fuel curr px q τi ?s1 ?d1 ?r1 else _] => destruct b eqn:Els; [apply (IH s1 d1 r1)|] end.
    { unfold ZLenD; cbn [ZeroFpr.ls_next ZeroFpr.ls_tau ZeroFpr.ls_tau_prev]. split; [left; apply N1|].
      intros Ei. exfalso. apply andb_prop in Els. destruct Els as [Hpos _]. apply Rlt_bool_iff in Hpos.
      specialize (Hz Ei). lra. }
    { exact Hu. }
    cbn [fst snd ZeroFpr.ls_next]. split; [exact Hu|exact N1].
  Qed.

  (* ------------------------------------------------------------------ one pass: no throw, no fuel exhaustion, the provider invariant, the trace *)
  Definition zlenok (r : option (list R)) : Prop := forall q, r = Some q -> length q = n.

  Lemma zpassD_struct (sD : zstateD D) :
    Consistent (st_curr (zd_st D sD)) -> good (st_curr (zd_st D sD)) ->
    ((st_k (zd_st D sD) = 0%nat /\ I0 (zd_dir D sD)) \/ Iv (zd_dir D sD)) ->
    match passD_ sD with
    | ZThrowD _ _ => False
    | ZFuelD _ => False
    | ZContD _ sD' => Iv (zd_dir D sD') /\ exists ext, zd_trace D sD' = zd_trace D sD ++ ext /\ Forall zlenok ext
    | ZExitD _ _ => True
    end.
  Proof.
    destruct sD as [[curr next0 k np q0 cnt stats log] d rej tr]. cbn [zd_st zd_dir zd_trace st_curr st_k]. intros Cc G Hk.
    unfold zpassD. cbn [zd_st zd_dir zd_rej zd_trace st_curr st_next st_k st_np st_q st_cnt st_stats st_log].
    match goal with |- context [stop_status_helpers ?a ?b ?c ?d ?e ?f ?g ?h] => destruct (stop_status_helpers a b c d e f g h) end.
    2-8: (cbv zeta; match goal with |- context [exit_block ?a ?b ?c ?d ?e ?f ?g ?h] => destruct (exit_block a b c d e f g h) as [[xo yo] eo] end; exact I).
    pose proof (g_len _ _ _ _ _ _ _ _ _ _ curr G) as Hlx.
    destruct (zconsistent_lens curr Cc Hlx) as [Lc Lp].
    pose proof Lc as ((L1 & L2) & L3 & L4). pose proof Lp as (P1 & P2 & P3).
    set (prox := proxof curr) in *.
    (* initialize *)
    assert (Hk' : I0 d \/ Iv d) by (destruct Hk as [[_ Hk]|Hk]; [now left|now right]).
    destruct (if (k =? 0)%nat then d_initialize D ops d y_in Σ (igam curr) (ixh curr) (px_xh prox) (px_p prox) (px_grad prox) else Some d)
      as [d1|] eqn:Ed1.
    2:{ destruct (Nat.eqb_spec k 0) as [Ek|Ek]; [|discriminate].
        destruct (wf_init n D ops I0 Iv Hwf d y_in Σ (igam curr) (ixh curr) (px_xh prox) (px_p prox) (px_grad prox) Hk' L3 P1 P2 P3) as (d' & E & _).
        rewrite E in Ed1. discriminate. }
    assert (H1 : Iv d1).
    { destruct (Nat.eqb_spec k 0) as [Ek|Ek].
      - destruct (wf_init n D ops I0 Iv Hwf d y_in Σ (igam curr) (ixh curr) (px_xh prox) (px_p prox) (px_grad prox) Hk' L3 P1 P2 P3) as (d' & E & Hd').
        rewrite E in Ed1. now injection Ed1 as <-.
      - injection Ed1 as <-. destruct Hk as [[Hk _]|Hk]; [contradiction|exact Hk]. }
    (* the common tail: line search, changed_γ, update *)
    assert (Tail : forall (q : list R) (τi : R) (c3 : counters) (stats1 : Panoc.stats (T:=R)) (d3 : D) (tr' : list (option (list R))) (ε : R),
              (τi = 0 \/ τi = 1) -> (τi = 1 -> length q = n) -> Iv d3 ->
              (exists ext, tr' = tr ++ ext /\ Forall zlenok ext) ->
              match (match lsloopD ls_fuel curr prox q τi (ZeroFpr.mkLs (set_gamma_L next0 (igam curr) (iL curr)) τi (- 1) (p_upd_in_cand P) false c3 stats1) d3 rej with
                     | (ZeroFpr.LsFuel, _, _) => ZFuelD D
                     | (ZeroFpr.LsStopped l, d4, rej') =>
                         ZContD D (mkZD D (mkSt curr (ZeroFpr.ls_next l) k np q (ZeroFpr.ls_cnt l) (ZeroFpr.ls_stats l) log) d4 rej' tr')
                     | (ZeroFpr.LsDone l, d4, rej') =>
                         let next := ZeroFpr.ls_next l in let τ := ZeroFpr.ls_tau l in
                         let z := ZeroFpr.ls_stats l in
                         let stats2 := mkStats (s_stepsize_bt z) (s_ls_bt z) (s_ls_fail z + b2n (Req_bool τ 0 && Rlt_bool 0 τi)) (s_dir_fail z)
                                               (s_tau1 z + b2n (Req_bool τ 1)) (s_count_tau z + b2n (Rlt_bool 0 τi)) (s_sum_tau z + τ) in
                         let np' := match no_progress_update np k (p_max_no_progress P) (veqb (ix curr) (ix next)) with Some v => v | None => np end in
                         let changed := negb (Req_bool (igam curr) (igam next)) in
                         let recomp := negb (ZeroFpr.ls_updated l) && changed && p_recompute P in
                         let curr2 := if recomp then set_gamma_L curr (igam next) (iL next) else curr in
                         let prox2 := if recomp then prox_step_in_prox lb ub l1 (igam next) (ixh curr) (px_grad prox) else prox in
                         let d5 := if negb (ZeroFpr.ls_updated l) && changed then d_changed_gamma D ops d4 (igam next) (igam curr) else d4 in
                         let ud := if ZeroFpr.ls_updated l then (true, d5) else zdir_update D ops (Rlt_bool 0 τ && from_prox) d5 curr2 prox2 next in
                         let rej'' := if fst ud then rej' else S rej' in
                         let c4 := if ZeroFpr.ls_updated l then ZeroFpr.ls_cnt l else inc_dir (ZeroFpr.ls_cnt l) in
                         ZContD D (mkZD D (mkSt next curr2 (S k) np' q (inc_cb c4) stats2
                                                (mkCb k (with_gradh curr2 (px_grad prox)) q τ ε StBusy :: log)) (snd ud) rej'' tr')
                     end) with
              | ZThrowD _ _ => False
              | ZFuelD _ => False
              | ZContD _ sD' => Iv (zd_dir D sD') /\ exists ext, zd_trace D sD' = tr ++ ext /\ Forall zlenok ext
              | ZExitD _ _ => True
              end).
    { intros q τi c3 stats1 d3 tr' ε Hτ Hq H3 Htr.
      set (ls0 := ZeroFpr.mkLs (set_gamma_L next0 (igam curr) (iL curr)) τi (- 1) (p_upd_in_cand P) false c3 stats1).
      assert (HI : ZLenD τi ls0).
      { unfold ZLenD, ls0; cbn [ZeroFpr.ls_next ZeroFpr.ls_tau ZeroFpr.ls_tau_prev]. split; [right; split; reflexivity|]. intros E; exact E. }
      pose proof (zls_loopD_wf curr prox q τi Lc Lp Hτ Hq ls_fuel ls0 d3 rej HI H3) as [H4 H5].
      pose proof (zls_loopD_fst psi_grad_full psi_yhat lb ub l1 D ops never P from_prox ls_fuel curr prox q τi ls0 d3 rej) as Hls.
      (* the line search terminates *)
      destruct (g_gl _ _ _ _ _ _ _ _ _ _ curr G) as [j Ej].
      assert (EL : iL curr = Linit * 2 ^ j).
      { pose proof (PP halve_n_L j (p_Lgamma P / Linit) Linit) as Hh. fold (gl0 psi_grad_full grad_psi P x_in) in Hh. rewrite <- Ej in Hh. exact Hh. }
      assert (Hp1 : 1 <= 2 ^ j) by (apply pow_R1_Rle; lra).
      assert (Hp2 : 0 < 2 ^ nL) by (apply pow_lt; lra).
      assert (HcL : 0 < iL curr) by (rewrite EL; nra).
      assert (HLm' : p_Lmax P <= iL curr * 2 ^ nL).
      { rewrite EL. assert (0 <= Linit * 2 ^ nL * (2 ^ j - 1)) by (apply Rmult_le_pos; [apply Rmult_le_pos; lra|lra]). lra. }
      pose proof (ZP ZeroFprProofs.ls_terminates curr prox nL nT q τi HcL HLm' Hmin Hτ next0 (p_upd_in_cand P) c3 stats1 ls_fuel Hfuel) as Ht.
      fold ls0 in Ht. rewrite <- Hls in Ht.
      destruct (lsloopD ls_fuel curr prox q τi ls0 d3 rej) as [[lr d4] rej4]. cbn [fst snd] in H4, H5, Ht.
      destruct lr as [l|l|]; [| |apply Ht; reflexivity].
      - cbv zeta. cbn [zd_dir zd_trace]. split; [|exact Htr].
        destruct (ZeroFpr.ls_updated l); cbn [negb andb snd]; [exact H4|].
        apply zdir_update_wf; [| | |exact H5].
        + destruct (negb (Req_bool (igam curr) (igam (ZeroFpr.ls_next l)))); [apply (wf_changed n D ops I0 Iv Hwf), H4|exact H4].
        + destruct (negb (Req_bool (igam curr) (igam (ZeroFpr.ls_next l))) && p_recompute P); exact Lc.
        + destruct (negb (Req_bool (igam curr) (igam (ZeroFpr.ls_next l))) && p_recompute P); [|exact Lp].
          apply prox_step_plens; [exact L3|exact P3].
      - cbn [zd_dir zd_trace]. split; [exact H4|exact Htr]. }
    unfold zdir_phase.
    change (@nltb R NumR) with Rlt_bool. change (@neqb R NumR) with Req_bool.
    change (@n0 R NumR) with 0. change (@n1 R NumR) with 1. change (@nopp R NumR) with Ropp.
    destruct ((0 <? k)%nat || hasinit).
    - destruct (wf_apply n D ops I0 Iv Hwf d1 (igam curr) (ixh curr) (px_xh prox) (px_p prox) (px_grad prox) q0 H1 L3 P1 P2 P3) as (b & q' & d2 & Ea & H2 & Hb).
      rewrite Ea.
      set (r := if b then Some q' else None).
      assert (Hr : zlenok r) by (unfold zlenok, r; destruct b; [intros q1 E; injection E as <-; now apply Hb|discriminate]).
      apply Tail.
      + destruct r as [q1|]; [destruct (vall_finite q1)|]; auto.
      + intros E. destruct r as [q1|] eqn:Er; [|exfalso; lra]. unfold r in Er. destruct b; [|discriminate]. now apply Hb.
      + match goal with |- Iv (if ?c then _ else _) => destruct c end; [apply (wf_reset n D ops I0 Iv Hwf), H2|exact H2].
      + exists [r]. split; [reflexivity|]. constructor; [exact Hr|constructor].
    - cbn [andb]. apply Tail.
      + now left.
      + intros E; exfalso; lra.
      + exact H1.
      + exists []. split; [now rewrite app_nil_r|constructor].
  Qed.

  (* ------------------------------------------------------------------ the abstract stopping criterion (as in ZeroFprLiveG.ZLiveGen) *)
  Variable δ : R.
  Hypothesis Hδ : 0 < δ.
  Hypothesis Heps : forall i, Consistent i -> good i -> ipp i <= δ * δ -> zeps i <= tol.
  Notation decg := (decg psi_grad_full grad_psi P x_in δ).
  Variable Φ0 : R.
  Variable N : nat.
  Hypothesis HN : Φ0 - ψinf < INR N * decg.
  Hypothesis HNmax : (N <= p_max_iter P)%nat.
  Hypothesis HPhi : Phi0 <= Φ0.

  Notation ZLInvG_ := (ZLInvG psi_grad_full psi_yhat grad_L grad_psi lb ub P x_in ψ g n Lf δ Φ0).
  Notation ZFinal_ok := (zfinal_ok psi_grad_full psi_yhat grad_L grad_psi lb ub P x_in ψ g n Lf).

  Lemma zoracle_len TR : Forall zlenok TR -> forall j (i : it) (px : proxit (T:=R)) q, zoracle_of TR j i px = Some q -> length q = n.
  Proof.
    intros HF j i px q. unfold zoracle_of. destruct (nth_in_or_default j TR None) as [Hin|E]; [|rewrite E; discriminate].
    rewrite Forall_forall in HF. apply (HF _ Hin).
  Qed.

  Record ZDInv (sD : zstateD D) : Prop := {
    zi_sim : exists s, st_sim (zd_st D sD) s /\ ZLInvG_ s;
    zi_tr : length (zd_trace D sD) = c_apply (st_cnt (zd_st D sD));
    zi_len : Forall zlenok (zd_trace D sD);
    zi_prov : (st_k (zd_st D sD) = 0%nat /\ I0 (zd_dir D sD)) \/ Iv (zd_dir D sD) }.

  Lemma zfinal_ok_sim (o o' : outputs (T:=R)) : out_sim o o' -> ZFinal_ok o' -> ZFinal_ok o.
  Proof.
    intros (_ & _ & E3 & E4 & _) (cf & A & C & Ex & Ee). exists cf. repeat (split; [assumption|]). split; congruence.
  Qed.

  Lemma zpassD_live sD : ZDInv sD ->
    (exists oD, passD_ sD = ZExitD D oD /\ out_status (zo_out D oD) = StConverged /\ out_iterations (zo_out D oD) = st_k (zd_st D sD) /\
                ZFinal_ok (zo_out D oD) /\ zo_trace D oD = zd_trace D sD) \/
    (exists sD', passD_ sD = ZContD D sD' /\ ZDInv sD' /\ st_k (zd_st D sD') = S (st_k (zd_st D sD))).
  Proof.
    intros [(s & Hsim & HL) Htr Hlen Hprov].
    pose proof Hsim as (E1 & _ & E3 & _ & E5 & _).
    assert (Hl : length (zd_trace D sD) = c_apply (st_cnt s)) by (now rewrite <- E5).
    pose proof (zpassD_struct sD) as Hst. rewrite E1 in Hst. specialize (Hst ltac:(apply HL) ltac:(apply HL) Hprov).
    pose proof (fun O Hdir => zpass_live_g psi_grad_full psi_yhat grad_L grad_psi lb ub O hasinit P x_in y_in Σ errz_in ls_fuel ψ g n Lf ψinf
                  Hpsi Hco Hglen Hqub Hinf Hlb Hub Hne Hxin Hdir HLg HL0 HLmax Hqt Hlt Hbeta Hforce nL nT HnL Hmin Hfuel δ Hδ Heps Φ0 N HN HNmax s HL)
      as Hlive.
    destruct (passD_ sD) as [oD|sD'| |] eqn:Ep; [| |contradiction|contradiction].
    - left. exists oD. split; [reflexivity|].
      pose proof (zpass_sim eq00R lt00R psi_grad_full psi_yhat grad_L lb ub l1 D ops never never P from_prox x_in y_in Σ errz_in ls_fuel sD s [] Hsim Hl) as Hp.
      rewrite Ep in Hp. destruct Hp as (o & Eo & Ho & Et).
      destruct (Hlive (zoracle_of []) (zoracle_len [] (Forall_nil _))) as [(o' & Eo' & Es & Ek & Ef)|(s' & Es' & _)]; [|rewrite Eo in Es'; discriminate].
      rewrite Eo in Eo'. injection Eo' as <-.
      pose proof Ho as (O1 & O2 & _).
      split; [now rewrite O1|]. split; [now rewrite O2, Ek, E3|]. split; [exact (zfinal_ok_sim _ _ Ho Ef)|exact Et].
    - right. exists sD'. split; [reflexivity|].
      destruct Hst as (HIv & ext & Eext & Hext).
      assert (Hlen' : Forall zlenok (zd_trace D sD')) by (rewrite Eext; apply Forall_app; split; assumption).
      pose proof (zpass_sim eq00R lt00R psi_grad_full psi_yhat grad_L lb ub l1 D ops never never P from_prox x_in y_in Σ errz_in ls_fuel sD s (zd_trace D sD') Hsim Hl) as Hp.
      rewrite Ep in Hp. destruct Hp as [_ Hall]. destruct (Hall [] (eq_sym (app_nil_r _))) as (s' & Es' & Hsim' & Hl').
      destruct (Hlive (zoracle_of (zd_trace D sD')) (zoracle_len _ Hlen')) as [(o' & Eo' & _)|(s'' & Es'' & HL'' & Ek)]; [rewrite Es' in Eo'; discriminate|].
      rewrite Es' in Es''. injection Es'' as <-.
      pose proof Hsim' as (_ & _ & E3' & _ & E5' & _).
      split; [|now rewrite E3', Ek, E3].
      constructor; [exists s'; split; assumption|now rewrite E5'|exact Hlen'|right; exact HIv].
  Qed.

  Record ZDoneOk (oD : zoutD D) : Prop := {
    zdo_status : out_status (zo_out D oD) = StConverged;
    zdo_iter : (out_iterations (zo_out D oD) < N)%nat;
    zdo_final : ZFinal_ok (zo_out D oD);
    zdo_trace : Forall zlenok (zo_trace D oD) }.

  Lemma ZDInv_k sD : ZDInv sD -> (st_k (zd_st D sD) < N)%nat.
  Proof.
    intros [(s & (_ & _ & E3 & _) & HL) _ _ _]. rewrite E3.
    exact (ZLInvG_k psi_grad_full psi_yhat grad_L grad_psi lb ub hasinit P x_in y_in Σ errz_in ls_fuel ψ g n Lf ψinf
             Hqub Hinf HLg HL0 HLmax Hqt Hbeta δ Hδ Φ0 N HN s HL).
  Qed.

  Lemma zloopD_live : forall fuel sD, ZDInv sD -> (N < fuel + st_k (zd_st D sD))%nat ->
    exists oD, loopD_ fuel sD = ZDoneD D oD /\ ZDoneOk oD.
  Proof.
    induction fuel as [|fuel IH]; intros sD HI Hf; pose proof (ZDInv_k sD HI) as Hk; [lia|].
    cbn [zloopD]. destruct (zpassD_live sD HI) as [(oD & Ep & Es & Ei & Efin & Et)|(sD' & Ep & HI' & Ek)]; rewrite Ep.
    - exists oD. split; [reflexivity|]. constructor; [exact Es|lia|exact Efin|rewrite Et; apply HI].
    - apply IH; [exact HI'|lia].
  Qed.

  Theorem zerofprD_live_g fuel : (N < fuel)%nat -> exists oD, runD_ fuel = ZDoneD D oD /\ ZDoneOk oD.
  Proof.
    intros Hf. unfold zerofprD.
    destruct (zinit_live psi_grad_full psi_yhat grad_L grad_psi lb ub zdummy hasinit P x_in y_in Σ errz_in ls_fuel ψ g n Lf Hpsi Hco Hglen Hqub Hlb Hub Hne Hxin
                HLg HL0 Hqt nL nT HnL Hfuel δ Φ0 N HNmax HPhi) as (i0 & c0 & i3 & c1 & s1 & E0 & Eq & HI).
    rewrite E0. cbn [nfinite NumR negb]. change (@ndiv R NumR) with Rdiv. fold (first_iterate psi_yhat lb ub l1 P i0). rewrite Eq.
    apply zloopD_live; [|cbn [zd_st st_k]; lia].
    constructor; cbn [zd_st zd_trace zd_dir st_k st_cnt].
    - eexists. split; [apply st_sim_refl|exact HI].
    - cbn [length]. rewrite (zinit_qub_c_apply psi_yhat lb ub l1 P _ _ _ _ _ _ _ Eq). cbn [c_apply inc_py].
      pose proof (init_L_c_apply psi_grad_full grad_psi P x_in) as H0. rewrite E0 in H0. now symmetry.
    - constructor.
    - left; split; [reflexivity|exact HI0].
  Qed.
End ZDirLive.

(* ====================================================================================================================
   instances: the criteria ProjGradNorm[2] / FPRNorm[2] and the default criterion ApproxKKT
   ==================================================================================================================== *)
Section ZDirLiveInst.
  Variable psi_grad_full : list R -> R * list R * list R.
  Variable psi_yhat : list R -> R * list R.
  Variable grad_L : list R -> list R -> list R.
  Variable grad_psi : list R -> list R.
  Variables (lb ub : list (option R)).
  Variable D : Type.
  Variable ops : dirops R D.
  Variable P : params (T:=R).
  Variable from_prox : bool.
  Variables (x_in y_in Σ errz_in : list R).
  Variable ls_fuel : nat.
  Variable d0 : D.
  Notation l1 := (@nil R).
  Notation never := (fun _ : counters => false).
  Notation zdummy := (fun (_ : nat) (_ : iterate (T:=R)) (_ : proxit (T:=R)) => @None (list R)).
  Notation hasinit := (d_has_initial D ops).
  Notation runD_ := (zerofprD psi_grad_full psi_yhat grad_L grad_psi lb ub l1 D ops never never P from_prox x_in y_in Σ errz_in ls_fuel d0).
  Notation pgrad := (psi_grad psi_grad_full).
  Notation Linit := (L_init psi_grad_full grad_psi P x_in).
  Variables (ψ : list R -> R) (g : list R -> list R) (n : nat) (Lf ψinf : R).
  Hypothesis Hpsi : forall x, pgrad x = (ψ x, g x).
  Hypothesis Hco : zcoherent psi_grad_full psi_yhat grad_L.
  Hypothesis Hglen : forall x, length x = n -> length (g x) = n.
  Hypothesis Hqub : forall u d, length u = n -> length d = n ->
    ψ (vadd u d) <= ψ u + vdot (g u) d + Lf / 2 * vsqnorm d.
  Hypothesis Hinf : forall z, all_in_box lb ub z -> ψinf <= ψ z.
  Hypothesis Hlb : length lb = n.
  Hypothesis Hub : length ub = n.
  Hypothesis Hne : Forall2 box_ne lb ub.
  Hypothesis Hxin : length x_in = n.
  Hypothesis HLg : 0 < p_Lgamma P < 1.
  Hypothesis HL0 : 0 < Linit.
  Hypothesis HLmax : Lf <= p_Lmax P.
  Hypothesis Hqt : p_qub_tol P = 0.
  Hypothesis Hlt : p_ls_tol P = 0.
  Hypothesis Hbeta : 0 < p_beta P <= 1.
  Hypothesis Hforce : p_force_ls P = false.
  Variables (nL nT : nat).
  Hypothesis HnL : p_Lmax P <= Linit * 2 ^ nL.
  Hypothesis Hmin : (1 / 2) ^ nT < p_tau_min P.
  Hypothesis Hfuel : (ZeroFprProofs.ls_pass_bound nL nT <= ls_fuel)%nat.
  Variables I0 Iv : D -> Prop.
  Hypothesis Hwf : dir_wf n D ops I0 Iv.
  Hypothesis HI0 : I0 d0.

  Notation Phi0 := (Phi0 psi_grad_full grad_psi lb ub P x_in ψ g Lf).
  Notation ZDoneOk_ := (ZDoneOk psi_grad_full psi_yhat grad_L grad_psi lb ub D P x_in ψ g n Lf).

  Theorem zerofprD_live_4 :
    p_crit P = ProjGradNorm \/ p_crit P = ProjGradNorm2 \/ p_crit P = FPRNorm \/ p_crit P = FPRNorm2 ->
    forall N fuel : nat, Phi0 - ψinf < INR N * dec psi_grad_full grad_psi P x_in Lf -> (N <= p_max_iter P)%nat -> (N < fuel)%nat ->
    exists oD, runD_ fuel = ZDoneD D oD /\ ZDoneOk_ N oD.
  Proof.
    intros Hcrit N fuel HN Hmax Hf.
    pose proof (ZeroFprLive.eps_small psi_grad_full psi_yhat grad_L grad_psi lb ub hasinit P x_in y_in Σ errz_in ls_fuel ψ g n Lf) as He. spec He.
    assert (Hd : 0 < delta psi_grad_full grad_psi P x_in Lf) by (now apply delta_pos).
    exact (zerofprD_live_g psi_grad_full psi_yhat grad_L grad_psi lb ub D ops P from_prox x_in y_in Σ errz_in ls_fuel d0 ψ g n Lf ψinf
             Hpsi Hco Hglen Hqub Hinf Hlb Hub Hne Hxin HLg HL0 HLmax Hqt Hlt Hbeta Hforce nL nT HnL Hmin Hfuel I0 Iv Hwf HI0
             (delta psi_grad_full grad_psi P x_in Lf) Hd (fun i _ G Hs => He i G Hs) Phi0 N HN Hmax (Rle_refl _) fuel Hf).
  Qed.

  Theorem zerofprD_returns_converged :
    p_crit P = ProjGradNorm \/ p_crit P = ProjGradNorm2 \/ p_crit P = FPRNorm \/ p_crit P = FPRNorm2 ->
    forall N fuel : nat, Phi0 - ψinf < INR N * dec psi_grad_full grad_psi P x_in Lf -> (N <= p_max_iter P)%nat -> (N < fuel)%nat ->
    exists oD, runD_ fuel = ZDoneD D oD /\ out_status (zo_out D oD) = StConverged /\ (out_iterations (zo_out D oD) < N)%nat.
  Proof.
    intros Hcrit N fuel HN Hmax Hf. destruct (zerofprD_live_4 Hcrit N fuel HN Hmax Hf) as (oD & E & [A B _ _]). exists oD. repeat split; assumption.
  Qed.

  Variable Lg : R.
  Hypothesis Hlip : forall u d, length u = n -> length d = n ->
    vsqnorm (vsub (g u) (g (vadd u d))) <= Lg * Lg * vsqnorm d.
  Hypothesis HLg0 : 0 <= Lg.

  Theorem zerofprD_live_kkt : p_crit P = ApproxKKT ->
    forall N fuel : nat, Phi0 - ψinf < INR N * dec_kkt psi_grad_full grad_psi P x_in Lf Lg -> (N <= p_max_iter P)%nat -> (N < fuel)%nat ->
    exists oD, runD_ fuel = ZDoneD D oD /\ ZDoneOk_ N oD.
  Proof.
    intros Hcrit N fuel HN Hmax Hf.
    pose proof (zeps_small_kkt psi_grad_full psi_yhat grad_L grad_psi lb ub zdummy hasinit P x_in y_in Σ errz_in ls_fuel ψ g n Lf Lg) as He. spec He.
    assert (Hd : 0 < delta_kkt psi_grad_full grad_psi P x_in Lf Lg) by (now apply (PanocLiveKkt.delta_kkt_pos psi_grad_full grad_psi P x_in Lf Lg)).
    exact (zerofprD_live_g psi_grad_full psi_yhat grad_L grad_psi lb ub D ops P from_prox x_in y_in Σ errz_in ls_fuel d0 ψ g n Lf ψinf
             Hpsi Hco Hglen Hqub Hinf Hlb Hub Hne Hxin HLg HL0 HLmax Hqt Hlt Hbeta Hforce nL nT HnL Hmin Hfuel I0 Iv Hwf HI0
             (delta_kkt psi_grad_full grad_psi P x_in Lf Lg) Hd He Phi0 N HN Hmax (Rle_refl _) fuel Hf).
  Qed.

  Theorem zerofprD_returns_converged_kkt : p_crit P = ApproxKKT ->
    forall N fuel : nat, Phi0 - ψinf < INR N * dec_kkt psi_grad_full grad_psi P x_in Lf Lg -> (N <= p_max_iter P)%nat -> (N < fuel)%nat ->
    exists oD, runD_ fuel = ZDoneD D oD /\ out_status (zo_out D oD) = StConverged /\ (out_iterations (zo_out D oD) < N)%nat.
  Proof.
    intros Hcrit N fuel HN Hmax Hf. destruct (zerofprD_live_kkt Hcrit N fuel HN Hmax Hf) as (oD & E & [A B _ _]). exists oD. repeat split; assumption.
  Qed.
End ZDirLiveInst.
