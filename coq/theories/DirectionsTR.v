(* DirectionsTR.v — the SHIPPED trust-region direction provider of PANTR as a state machine.  Model only, no proofs.
   Sources: inner/directions/pantr/newton-tr.hpp (NewtonTRDirection, NewtonTRDirectionParams),
            accelerators/steihaugcg.hpp (SteihaugCG::solve, SteihaugCGParams — modelled in Steihaug.v, the C11 model),
            problem/box-constr-problem.hpp (eval_inactive_indices_res_lna = Directions.inactive_indices_x, the C15 model),
            the call sites in implementation/inner/pantr.tpp.

   A TR provider is a record of operations over a state type D (the PANTRDirection concept):
     td_initialize d y Σ γ₀ x₀ x̂₀ p₀ ∇ψ(x₀)        = Some d' | None (the call throws)
     td_has_initial                                   has_initial_direction()
     td_update d γ γ⁺ x x⁺ p p⁺ ∇ψ ∇ψ⁺               = (accepted, d')
     td_apply d γ x x̂ p ∇ψ radius q                  = Some (q', q_model, d') | None (throws);  q is the caller's buffer (in/out)
     td_changed_gamma d γ_new γ_old, td_reset d
   The problem enters NewtonTRDirection through Section variables: n, the set C and the l1 weights (BoxConstrProblem), the capability
   flags consulted by initialize, eval_grad_ψ and eval_hess_ψ_prod (arbitrary functions).
   Parameter defaults (read from the headers):
     NewtonTRDirectionParams: hessian_vec_factor 1, finite_diff false, finite_diff_stepsize sqrt(ε_mach) = 2^-26
     SteihaugCGParams: tol_scale 1, tol_scale_root 0.5, tol_max +inf, max_iter_factor 1
   The iteration cap of SteihaugCG::solve is (index_t) std::round(nJ * max_iter_factor): the conversion is the function cg_max_iter
   (nJ |-> cap), supplied by the user of the model.

   NewtonTRDirection::apply(γ, x, x̂, p, ∇ψ, radius, q):
     !isfinite(radius) or radius < ε_mach: throw std::logic_error
     J = eval_inactive_indices_res_lna(γ, x, ∇ψ) (ascending), K = complement
     rJ = (-1/γ) p(J);  q(K) = p(K);  q(J) = 0;  norm_qK_sq = ‖p(K)‖²
     hessian_vec_factor != 0:
        finite_diff:  ε = (1 + ‖x(J)‖) finite_diff_stepsize;  rJ += (∇ψ(x + ε q) - ∇ψ)(J) * (hessian_vec_factor / ε)
        else:         rJ += (∇²ψ(x) q)(J) * hessian_vec_factor
     reduced operator on R^|J|:
        finite_diff:  ε as above;  B v = (∇ψ(x with x(J) += ε v) - ∇ψ)(J) / ε
        else:         B v = (∇²ψ(x) scatter_J(v))(J)
     qJ_model = steihaug.solve(rJ, B, radius, qJ);  q(J) = qJ;  return qJ_model - norm_qK_sq / (2 γ)
   update returns true; changed_γ and reset do nothing; has_initial_direction() = true. *)
From Coq Require Import List ZArith Bool Arith.
From Alpaqa Require Import Num Vec Prox Steihaug Directions.
Import ListNotations.

Section DirectionsTR.
  Context {T : Type} `{Num T}.
  Local Open Scope num_scope.

  Record trdirops (D : Type) := mkTrDir {
    td_initialize : D -> list T -> list T -> T -> list T -> list T -> list T -> list T -> option D;
    td_has_initial : bool;
    td_update : D -> T -> T -> list T -> list T -> list T -> list T -> list T -> list T -> bool * D;
    td_apply : D -> T -> list T -> list T -> list T -> list T -> T -> list T -> option (list T * T * D);
    td_changed_gamma : D -> T -> T -> D;
    td_reset : D -> D }.

  (* ------------------------------------------------------------------ the reduced trust-region subproblem, for ANY reduced operator
     and ANY Hessian-vector term: what apply does after the index set is known *)
  (* work(J) += t(.)  :  v with v(J) replaced by f j (v_j) *)
  Definition add_on_J (J : list nat) (v : list T) (pJ : list T) (f : T -> T -> T) : list T :=
    map2 (fun ix s => if memb (fst ix) J then f (snd ix) s else snd ix)
         (combine (seq 0 (length v)) v) (scatter (length v) J pJ).

  Definition ntr_core (BJ : list T -> list T) (hterm : option (list T)) (P : cg_params T)
             (γ : T) (J : list nat) (p : list T) (radius : T) : ntr_result T :=
    let rJ0 := vscale ((- n1) / γ) (gather J p) in
    let q0 := keep_active J p in
    let norm_qK_sq := sqnorm_active J p in
    let rJ := match hterm with None => rJ0 | Some h => vadd rJ0 h end in
    let cg := cg_solve BJ rJ radius P in
    {| ntr_q := merge_JK J q0 (res_step cg);
       ntr_val := res_val cg - norm_qK_sq / (n2 * γ);
       ntr_rJ := rJ; ntr_cg := cg |}.

  (* ------------------------------------------------------------------ NewtonTRDirection *)
  Section NewtonTR.
    Variable n : nat.                                                            (* problem.get_n() *)
    Variables (lb ub : list (option T)) (l1 : list T).                           (* C, l1 of the BoxConstrProblem *)
    Variables (prov_inactive prov_hess_L prov_hess_psi : bool) (m_is_zero : bool). (* provides_* flags, get_m() == 0 *)
    Variable grad_psi_at : list T -> list T -> list T -> list T.                 (* eval_grad_ψ(x, y, Σ) *)
    Variable hess_psi_prod : list T -> list T -> list T -> T -> list T -> list T. (* eval_hess_ψ_prod(x, y, Σ, scale, v) *)
    (* DirectionParams *)
    Variables (hvf : T) (fd : bool) (fd_step : T).
    (* AcceleratorParams: tol_scale, tol_scale_root, tol_max; max_iter_factor through the conversion nJ |-> (index_t) round(nJ * factor) *)
    Variables (cg_ts cg_tsr : T) (cg_tmax : option T) (cg_max_iter : nat -> Z).
    Variable eps_mach : T.                                                       (* std::numeric_limits<real_t>::epsilon() *)

    Record ntrstate := mkNT {
      nt_y : list T; nt_Σ : list T;          (* the references stored by initialize *)
      nt_prods : list nat }.                 (* ghost: per apply call so far (oldest first), the number of Hessian-vector products /
                                                finite-difference gradients it evaluated *)
    Definition ntr_new : ntrstate := mkNT [] [] [].

    Definition ntr_hvf_on : bool := negb (hvf =? n0).

    (* the two `throw std::invalid_argument` of initialize *)
    Definition ntr_init_ok : bool :=
      negb (negb fd && negb prov_hess_psi && negb (prov_hess_L && m_is_zero)) && prov_inactive.

    Definition ntr_params (nJ : nat) : cg_params T :=
      {| tol_scale := cg_ts; tol_scale_root := cg_tsr; tol_max := cg_tmax; max_iter := cg_max_iter nJ |}.

    (* ε = (1 + xₖ(J).norm()) * finite_diff_stepsize *)
    Definition ntr_fd_eps (J : list nat) (x : list T) : T := (n1 + vnorm2 (gather J x)) * fd_step.

    (* the Hessian-vector term added to rJ (None when hessian_vec_factor == 0) *)
    Definition ntr_hterm (d : ntrstate) (J : list nat) (x g q0 : list T) : option (list T) :=
      if ntr_hvf_on then
        if fd then
          let ε := ntr_fd_eps J x in
          let work := map2 (fun xi qi => xi + ε * qi) x q0 in
          let work2 := grad_psi_at work (nt_y d) (nt_Σ d) in
          Some (map (fun t => t * (hvf / ε)) (gather J (vsub work2 g)))
        else
          Some (map (fun t => t * hvf) (gather J (hess_psi_prod x (nt_y d) (nt_Σ d) n1 q0)))
      else None.

    (* hess_vec_mult: the reduced operator on R^|J| *)
    Definition ntr_BJ (d : ntrstate) (J : list nat) (x g : list T) (v : list T) : list T :=
      if fd then
        let ε := ntr_fd_eps J x in
        let work := add_on_J J x v (fun xi vi => xi + ε * vi) in
        let work2 := grad_psi_at work (nt_y d) (nt_Σ d) in
        map (fun t => t / ε) (gather J (vsub work2 g))
      else
        gather J (hess_psi_prod x (nt_y d) (nt_Σ d) n1 (scatter (length x) J v)).

    Definition ntr_J (γ : T) (x g : list T) : list nat := inactive_indices_x lb ub l1 γ x g.

    (* everything apply computes, given that it did not throw *)
    Definition ntr_solve (d : ntrstate) (γ : T) (x p g : list T) (radius : T) : ntr_result T :=
      let J := ntr_J γ x g in
      ntr_core (ntr_BJ d J x g) (ntr_hterm d J x g (keep_active J p)) (ntr_params (length J)) γ J p radius.

    Definition ntr_apply (d : ntrstate) (γ : T) (x xh p g : list T) (radius : T) (q : list T) : option (list T * T * ntrstate) :=
      if negb (nfinite radius) || (radius <? eps_mach) then None
      else
        let r := ntr_solve d γ x p g radius in
        let prods := ((if ntr_hvf_on then 1 else 0) + Z.to_nat (cg_hess_calls (ntr_cg r)))%nat in
        Some (ntr_q r, ntr_val r, mkNT (nt_y d) (nt_Σ d) (nt_prods d ++ [prods])).

    Definition newton_tr_dir : trdirops ntrstate :=
      mkTrDir ntrstate
        (* initialize: capability checks; store &problem, y, Σ; resize workspaces *)
        (fun d y Σ _ _ _ _ _ => if ntr_init_ok then Some (mkNT y Σ (nt_prods d)) else None)
        true                                              (* has_initial_direction *)
        (fun d _ _ _ _ _ _ _ _ => (true, d))              (* update: return true *)
        ntr_apply
        (fun d _ _ => d)                                  (* changed_γ: nothing *)
        (fun d => d).                                     (* reset: nothing *)
  End NewtonTR.
End DirectionsTR.

Arguments trdirops T D : clear implicits.
Arguments ntrstate T : clear implicits.
