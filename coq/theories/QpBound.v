(* QpBound.v — C02: distance of an approximate KKT pair to the exact KKT pair of a strongly convex QP.
   min 1/2 x'Qx + c'x  s.t.  x in C (box),  Ax in D (box).   Vectors are lists; Q, A, A' act through functions
   (any representation), constrained only by the algebraic laws used: linearity, adjointness, strong convexity. *)
From Coq Require Import Reals List ZArith Lra Lia Bool Psatz.
From Alpaqa Require Import Num NumR Vec Prox ProxProofs ProxVec.
Import ListNotations.
Local Open Scope R_scope.

Definition dot (a b : list R) : R := rsum (map2 Rmult a b).
Definition norm1 (a : list R) : R := rsum (map Rabs a).
Definition vminus (a b : list R) : list R := map2 Rminus a b.
Definition vplus (a b : list R) : list R := map2 Rplus a b.

Lemma dot_comm a b : dot a b = dot b a.
Proof. unfold dot. revert b; induction a as [|x a IH]; intros [|y b]; cbn; try reflexivity. rewrite IH. ring. Qed.
Lemma dot_minus_l a b c : length a = length b -> length b = length c -> dot (vminus a b) c = dot a c - dot b c.
Proof.
  unfold dot, vminus. revert b c; induction a as [|x a IH]; intros [|y b] [|z c]; cbn; intros; try discriminate; try lra.
  rewrite IH by lia. ring.
Qed.
Lemma dot_plus_l a b c : length a = length b -> length b = length c -> dot (vplus a b) c = dot a c + dot b c.
Proof.
  unfold dot, vplus. revert b c; induction a as [|x a IH]; intros [|y b] [|z c]; cbn; intros; try discriminate; try lra.
  rewrite IH by lia. ring.
Qed.
(* Hölder: |a.b| <= max|a_i| * ||b||_1 *)
Lemma holder a b t : length a = length b -> Forall (fun x => Rabs x <= t) a -> Rabs (dot a b) <= t * norm1 b.
Proof.
  unfold dot, norm1. revert b; induction a as [|x a IH]; intros [|y b] Hl Hf; cbn in *; try discriminate.
  - rewrite Rabs_R0. lra.
  - inversion Hf as [|? ? Hx Hrest]; subst. specialize (IH b ltac:(lia) Hrest).
    eapply Rle_trans; [apply Rabs_triang|]. rewrite Rabs_mult.
    assert (0 <= Rabs y) by apply Rabs_pos. nra.
Qed.
Lemma holder_ge a b t : length a = length b -> Forall (fun x => Rabs x <= t) a -> - (t * norm1 b) <= dot a b.
Proof. intros Hl Hf. pose proof (holder a b t Hl Hf) as H. unfold Rabs in H; destruct (Rcase_abs (dot a b)); lra. Qed.

(* strong convexity with modulus μ between two points *)
Definition μ_ok (μ : R) (Qmul : list R -> list R) (x xs : list R) : Prop :=
  μ * dot (vminus x xs) (vminus x xs) <= dot (vminus (Qmul x) (Qmul xs)) (vminus x xs).

(* componentwise normal-cone membership of a box *)
Definition in_ncone (lb ub : list (option R)) (x r : list R) : Prop :=
  Forall2 (fun b xr => forall u, in_box (fst b) (snd b) u -> snd xr * (u - fst xr) <= 0) (combine lb ub) (combine x r).
Definition in_boxv (lb ub : list (option R)) (x : list R) : Prop :=
  Forall2 (fun b v => in_box (fst b) (snd b) v) (combine lb ub) x.

(* monotonicity of the normal cone of a box: (r - rs).(x - xs) >= 0 *)
Lemma ncone_monotone lb ub x xs r rs :
  length lb = length x -> length ub = length x -> length xs = length x -> length r = length x -> length rs = length x ->
  in_boxv lb ub x -> in_boxv lb ub xs -> in_ncone lb ub x r -> in_ncone lb ub xs rs ->
  0 <= dot (vminus r rs) (vminus x xs).
Proof.
  unfold dot, vminus, in_boxv, in_ncone.
  revert ub x xs r rs. induction lb as [|l lb IH]; intros [|u ub] [|a x] [|as_ xs] [|b r] [|bs rs]; cbn; intros Hl Hu Hxs Hr Hrs Hx Hxs' Hn Hns;
    try discriminate; try lra.
  inversion Hx; inversion Hxs'; inversion Hn; inversion Hns; subst. cbn [fst snd] in *.
  specialize (IH ub x xs r rs ltac:(lia) ltac:(lia) ltac:(lia) ltac:(lia) ltac:(lia)).
  match goal with H1 : forall u0, in_box l u u0 -> b * (u0 - a) <= 0, H2 : forall u0, in_box l u u0 -> bs * (u0 - as_) <= 0 |- _ =>
    pose proof (H1 as_ ltac:(assumption)) as E1; pose proof (H2 a ltac:(assumption)) as E2 end.
  assert (0 <= rsum (map2 Rmult (map2 Rminus r rs) (map2 Rminus x xs))) by (apply IH; assumption).
  nra.
Qed.

Section QP.
  (* problem data as linear maps *)
  Variables (Qmul : list R -> list R) (Amul : list R -> list R) (ATmul : list R -> list R) (c : list R).
  Variables (Clb Cub Dlb Dub : list (option R)).
  Variable μ : R.
  Variables (n m : nat).
  (* exact KKT pair and approximate KKT pair *)
  Variables (xs ys x y : list R).
  Variables (rs r s : list R).      (* normal-cone elements of C at xs, at x; stationarity defect s *)
  Variables (z e : list R).         (* z = Ax - e in D, y in N_D(z) *)
  Variables (ε δ : R).

  Hypothesis Hlen : length x = n /\ length xs = n /\ length r = n /\ length rs = n /\ length s = n /\ length c = n /\
                    length Clb = n /\ length Cub = n /\ length (Qmul x) = n /\ length (Qmul xs) = n /\
                    length (ATmul y) = n /\ length (ATmul ys) = n.
  Hypothesis Hlenm : length y = m /\ length ys = m /\ length z = m /\ length e = m /\ length Dlb = m /\ length Dub = m /\
                     length (Amul x) = m /\ length (Amul xs) = m.
  (* algebraic laws of the data *)
  Hypothesis strongly_convex : μ * dot (vminus x xs) (vminus x xs) <= dot (vminus (Qmul x) (Qmul xs)) (vminus x xs).
  Hypothesis adjoint : dot (vminus (ATmul y) (ATmul ys)) (vminus x xs) = dot (vminus y ys) (vminus (Amul x) (Amul xs)).
  (* exact KKT at (xs, ys):  -(Q xs + c + A' ys) = rs in N_C(xs),  xs in C,  A xs in D,  ys in N_D(A xs) *)
  Hypothesis kkt_exact_stat : vplus (vplus (Qmul xs) c) (ATmul ys) = map Ropp rs.
  Hypothesis kkt_exact_C : in_boxv Clb Cub xs /\ in_ncone Clb Cub xs rs.
  Hypothesis kkt_exact_D : in_boxv Dlb Dub (Amul xs) /\ in_ncone Dlb Dub (Amul xs) ys.
  (* approximate KKT at (x, y) as certified by the solver (C01): -(Qx + c + A'y) = r + s, r in N_C(x), |s_i| <= ε;
     z = Ax - e in D, y in N_D(z), |e_i| <= δ *)
  Hypothesis kkt_approx_stat : vplus (vplus (Qmul x) c) (ATmul y) = map Ropp (vplus r s).
  Hypothesis kkt_approx_C : in_boxv Clb Cub x /\ in_ncone Clb Cub x r.
  Hypothesis kkt_approx_s : Forall (fun t => Rabs t <= ε) s.
  Hypothesis kkt_approx_z : z = vminus (Amul x) e.
  Hypothesis kkt_approx_D : in_boxv Dlb Dub z /\ in_ncone Dlb Dub z y.
  Hypothesis kkt_approx_e : Forall (fun t => Rabs t <= δ) e.

  Lemma map_opp_dot a b : dot (map Ropp a) b = - dot a b.
  Proof. unfold dot. revert b; induction a as [|p a IH]; intros [|q b]; cbn; try lra. rewrite IH. ring. Qed.

  Theorem qp_error_bound :
    μ * dot (vminus x xs) (vminus x xs) <= ε * norm1 (vminus x xs) + δ * norm1 (vminus y ys).
  Proof.
    destruct Hlen as (Lx & Lxs & Lr & Lrs & Ls & Lc & LCl & LCu & LQx & LQxs & LAy & LAys).
    destruct Hlenm as (Ly & Lys & Lz & Le & LDl & LDu & LAx & LAxs).
    set (d := vminus x xs). set (dy := vminus y ys).
    assert (Ld : length d = n) by (unfold d, vminus; apply map2_length; assumption).
    assert (Ldy : length dy = m) by (unfold dy, vminus; apply map2_length; assumption).
    (* (1) monotonicity in C *)
    destruct kkt_exact_C as [HxsC Hrs]. destruct kkt_approx_C as [HxC Hr].
    pose proof (ncone_monotone Clb Cub x xs r rs ltac:(lia) ltac:(lia) ltac:(lia) ltac:(lia) ltac:(lia) HxC HxsC Hr Hrs) as M1.
    fold d in M1.
    (* (2) monotonicity in D between z and A xs *)
    destruct kkt_exact_D as [HzsD Hys]. destruct kkt_approx_D as [HzD Hy].
    pose proof (ncone_monotone Dlb Dub z (Amul xs) y ys ltac:(lia) ltac:(lia) ltac:(lia) ltac:(lia) ltac:(lia) HzD HzsD Hy Hys) as M2.
    fold dy in M2.
    (* express r - rs *)
    assert (Er : dot (vminus r rs) d = - dot (vminus (Qmul x) (Qmul xs)) d - dot (vminus (ATmul y) (ATmul ys)) d - dot s d).
    { assert (E1 : dot (vplus (vplus (Qmul x) c) (ATmul y)) d = - dot (vplus r s) d)
        by (rewrite kkt_approx_stat; apply map_opp_dot).
      assert (E2 : dot (vplus (vplus (Qmul xs) c) (ATmul ys)) d = - dot rs d)
        by (rewrite kkt_exact_stat; apply map_opp_dot).
      assert (L1 : length (vplus (Qmul x) c) = n) by (unfold vplus; apply map2_length; lia).
      assert (L2 : length (vplus (Qmul xs) c) = n) by (unfold vplus; apply map2_length; lia).
      rewrite (dot_plus_l (vplus (Qmul x) c) (ATmul y) d) in E1 by lia.
      rewrite (dot_plus_l (Qmul x) c d) in E1 by lia.
      rewrite (dot_plus_l r s d) in E1 by lia.
      rewrite (dot_plus_l (vplus (Qmul xs) c) (ATmul ys) d) in E2 by lia.
      rewrite (dot_plus_l (Qmul xs) c d) in E2 by lia.
      rewrite !dot_minus_l by lia. lra. }
    (* A(x - xs) = (z - A xs) + e *)
    assert (Ez : dot dy (vminus (Amul x) (Amul xs)) = dot dy (vminus z (Amul xs)) + dot dy e).
    { rewrite kkt_approx_z. rewrite !(dot_comm dy). rewrite !dot_minus_l; try lia.
      - lra.
      - unfold vminus. rewrite (map2_length _ _ _ m); lia. }
    unfold d in Er at 3. rewrite adjoint in Er. fold dy in Er. rewrite Ez in Er.
    pose proof (holder_ge s d ε ltac:(lia) kkt_approx_s) as H1.
    pose proof (holder_ge e dy δ ltac:(lia) kkt_approx_e) as H2.
    rewrite (dot_comm e dy) in H2.
    pose proof strongly_convex as SC. fold d in SC. lra.
  Qed.
End QP.
