(* Properties_ZEROFPRDIR.v — ZeroFPR with the SHIPPED direction providers inside the model.
   ZeroFprDir.zerofprD is the loop of ZeroFpr.v with a stateful provider (Directions.dirops) threaded exactly where zerofpr.tpp calls
   initialize / apply / reset / update (both argument selections of update_direction_from_prox_step) / changed_γ.
   ZEROFPRDIR_refines_oracle_model: for EVERY provider every run of zerofprD is a run of the verified oracle model ZeroFpr.zerofpr, for
   the oracle "the j-th apply returned what the provider returned in that run"; hence the theorems of Properties_ZEROFPR.v hold for
   ZeroFPRSolver<LBFGSDirection | StructuredLBFGSDirection | AndersonDirection | NoopDirection>.  Stated for every provider and
   instantiated for StructuredLBFGSDirection (ZeroFPR's default pairing in the library's examples) and LBFGSDirection.
   Only `exact` + Print Assumptions here; proofs in ZeroFprDirProofs.v.  Tie to the real code: Corr_ZEROFPRDIR.chkzfprdir. *)
From Coq Require Import Reals List ZArith Bool Lra.
From Flocq Require Import Raux.
From Alpaqa Require Import Num NumR Vec Prox ProxProofs SolverStatus SolverKernels StopChain StopChainProofs KktProofs
                           Lbfgs Panoc PanocProofs ZeroFpr ZeroFprProofs Directions PanocDir PanocDirProofs ZeroFprDir ZeroFprDirProofs.
Import ListNotations.
Local Open Scope R_scope.

Section ZEROFPRDIR.
  Variable psi_grad_full : list R -> R * list R * list R.
  Variable psi_yhat : list R -> R * list R.
  Variable grad_L : list R -> list R -> list R.
  Variable grad_psi : list R -> list R.
  Variables (lb ub : list (option R)) (l1 : list R).
  Variable stop_req : counters -> bool.
  Variable time_up : counters -> bool.
  Variable P : Panoc.params (T:=R).
  Variable from_prox : bool.                 (* ZeroFPRParams::update_direction_from_prox_step *)
  Variables (x_in y_in Σ errz_in : list R).
  Variable ls_fuel : nat.

  Notation runD D ops d0 := (zerofprD psi_grad_full psi_yhat grad_L grad_psi lb ub l1 D ops stop_req time_up P from_prox x_in y_in Σ errz_in ls_fuel d0).
  Notation run O hi := (zerofpr psi_grad_full psi_yhat grad_L grad_psi lb ub l1 O hi stop_req time_up P x_in y_in Σ errz_in ls_fuel).
  Notation ReachableD D ops d0 := (zreachableD psi_grad_full psi_yhat grad_L grad_psi lb ub l1 D ops stop_req time_up P from_prox x_in y_in Σ errz_in ls_fuel d0).
  Notation Consistent := (zconsistent psi_grad_full psi_yhat grad_L lb ub l1).
  Notation Glrel0 := (glrel0 psi_grad_full grad_psi P x_in).
  Notation Qub_ok := (qub_ok P).
  Notation Rec_ok := (zrec_ok psi_grad_full psi_yhat grad_L grad_psi lb ub l1 P x_in).
  Notation Proxof := (eval_prox_it grad_L lb ub l1).

  Theorem ZEROFPRDIR_refines_oracle_model : forall (D : Type) (ops : dirops R D) (d0 : D) fuel oD,
    runD D ops d0 fuel = ZDoneD D oD ->
    exists (dir_apply : nat -> iterate (T:=R) -> proxit (T:=R) -> option (list R)) o,
      (forall j it px, dir_apply j it px = nth j (zo_trace D oD) None) /\
      run dir_apply (d_has_initial D ops) fuel = Done o /\ out_sim (zo_out D oD) o.
  Proof. exact (fun D ops d0 => zerofprD_refines_R psi_grad_full psi_yhat grad_L grad_psi lb ub l1 D ops stop_req time_up P from_prox x_in y_in Σ errz_in ls_fuel d0). Qed.

  Theorem ZEROFPRDIR_invariant_at_every_stop_check : forall (D : Type) (ops : dirops R D) (d0 : D) sD, ReachableD D ops d0 sD ->
    let s := zd_st D sD in
    Consistent (st_curr s) /\ Qub_ok (st_curr s) /\ Glrel0 (st_curr s) /\ (st_k s <= p_max_iter P)%nat.
  Proof. exact (fun D ops d0 => zerofprD_check psi_grad_full psi_yhat grad_L grad_psi lb ub l1 D ops stop_req time_up P from_prox x_in y_in Σ errz_in ls_fuel d0). Qed.

  Theorem ZEROFPRDIR_records : forall (D : Type) (ops : dirops R D) (d0 : D) fuel oD, runD D ops d0 fuel = ZDoneD D oD ->
    let o := zo_out D oD in Forall Rec_ok (out_log o) /\ chain P (rev (out_log o)).
  Proof. exact (fun D ops d0 => zerofprD_records psi_grad_full psi_yhat grad_L grad_psi lb ub l1 D ops stop_req time_up P from_prox x_in y_in Σ errz_in ls_fuel d0). Qed.

  Theorem ZEROFPRDIR_status_clauses : forall (D : Type) (ops : dirops R D) (d0 : D) fuel oD, runD D ops d0 fuel = ZDoneD D oD ->
    let o := zo_out D oD in
    (out_iterations o <= p_max_iter P)%nat /\
    out_status o <> StBusy /\
    (out_status o = StMaxIter -> out_iterations o = p_max_iter P) /\
    (out_status o = StConverged <-> out_eps o <= eff_tol (o_tol P)) /\
    (out_status o = StInterrupted -> exists c, stop_req c = true) /\
    (out_status o = StMaxTime -> exists c, time_up c = true) /\
    (out_status o = StNoProgress -> exists np, (p_max_no_progress P < np)%nat).
  Proof. exact (fun D ops d0 => zerofprD_status_clauses psi_grad_full psi_yhat grad_L grad_psi lb ub l1 D ops stop_req time_up P from_prox x_in y_in Σ errz_in ls_fuel d0). Qed.

  Theorem ZEROFPRDIR_exit : forall (D : Type) (ops : dirops R D) (d0 : D) fuel oD, runD D ops d0 fuel = ZDoneD D oD ->
    let o := zo_out D oD in
    exists cf : iterate (T:=R), Consistent cf /\ Qub_ok cf /\ Glrel0 cf /\
      out_eps o = zit_eps lb ub l1 P cf (Proxof cf) /\
      (overwrites (out_status o) (o_always P) = true ->
         out_x o = ixh cf /\ ixh cf = vadd (ix cf) (ip cf) /\
         out_y o = iyh cf /\ iyh cf = snd (psi_yhat (out_x o)) /\
         out_errz o = match errz_in with [] => [] | _ => vdiv (vsub (out_y o) y_in) Σ end) /\
      (overwrites (out_status o) (o_always P) = false -> out_x o = x_in /\ out_y o = y_in /\ out_errz o = errz_in).
  Proof. exact (fun D ops d0 => zerofprD_exit psi_grad_full psi_yhat grad_L grad_psi lb ub l1 D ops stop_req time_up P from_prox x_in y_in Σ errz_in ls_fuel d0). Qed.

  Theorem ZEROFPRDIR_inner_contract : forall (D : Type) (ops : dirops R D) (d0 : D) fuel oD, runD D ops d0 fuel = ZDoneD D oD ->
    let o := zo_out D oD in
    out_status o = StConverged -> p_crit P = ApproxKKT -> l1 = [] ->
    exists (x grad : list R) (γ : R),
      let step := proj_grad_step lb ub γ x grad in
      let gradh := grad_L (out_x o) (out_y o) in
      out_x o = fst (fst step) /\
      out_y o = snd (psi_yhat (out_x o)) /\
      out_errz o = match errz_in with [] => [] | _ => vdiv (vsub (out_y o) y_in) Σ end /\
      out_eps o = vnorminf (kkt_residual γ (snd (fst step)) grad gradh) /\
      out_eps o <= eff_tol (o_tol P) /\
      (exists ψ, zval_x psi_grad_full psi_yhat grad_L x ψ grad) /\
      (0 < p_Lgamma P -> 0 < L_init psi_grad_full grad_psi P x_in -> 0 < γ) /\
      (L_init psi_grad_full grad_psi P x_in <> 0 -> exists L, γ * L = p_Lgamma P).
  Proof. exact (fun D ops d0 => zerofprD_inner_contract psi_grad_full psi_yhat grad_L grad_psi lb ub l1 D ops stop_req time_up P from_prox x_in y_in Σ errz_in ls_fuel d0). Qed.

  (* ---------------- ZeroFPRSolver<LBFGSDirection> ---------------- *)
  Section LBFGS.
    Variables (n : nat) (pw : R -> R -> R) (LP : Lbfgs.params R) (rescale : bool).
    Notation Dl := (Lbfgs.state R).
    Notation lbfgs := (lbfgs_dir n pw LP rescale).

    Corollary ZEROFPRDIR_LBFGS_invariant_at_every_stop_check : forall sD, ReachableD Dl lbfgs lbfgs_unsized sD ->
      let s := zd_st Dl sD in
      Consistent (st_curr s) /\ Qub_ok (st_curr s) /\ Glrel0 (st_curr s) /\ (st_k s <= p_max_iter P)%nat.
    Proof. exact (ZEROFPRDIR_invariant_at_every_stop_check Dl lbfgs lbfgs_unsized). Qed.

    Corollary ZEROFPRDIR_LBFGS_exit_contract : forall fuel oD, runD Dl lbfgs lbfgs_unsized fuel = ZDoneD Dl oD ->
      let o := zo_out Dl oD in
      out_status o = StConverged -> p_crit P = ApproxKKT -> l1 = [] ->
      exists (x grad : list R) (γ : R),
        let step := proj_grad_step lb ub γ x grad in
        let gradh := grad_L (out_x o) (out_y o) in
        out_x o = fst (fst step) /\
        out_y o = snd (psi_yhat (out_x o)) /\
        out_errz o = match errz_in with [] => [] | _ => vdiv (vsub (out_y o) y_in) Σ end /\
        out_eps o = vnorminf (kkt_residual γ (snd (fst step)) grad gradh) /\
        out_eps o <= eff_tol (o_tol P) /\
        (exists ψ, zval_x psi_grad_full psi_yhat grad_L x ψ grad) /\
        (0 < p_Lgamma P -> 0 < L_init psi_grad_full grad_psi P x_in -> 0 < γ) /\
        (L_init psi_grad_full grad_psi P x_in <> 0 -> exists L, γ * L = p_Lgamma P).
    Proof. exact (ZEROFPRDIR_inner_contract Dl lbfgs lbfgs_unsized). Qed.
  End LBFGS.
End ZEROFPRDIR.

Print Assumptions ZEROFPRDIR_refines_oracle_model.
Print Assumptions ZEROFPRDIR_invariant_at_every_stop_check.
Print Assumptions ZEROFPRDIR_records.
Print Assumptions ZEROFPRDIR_status_clauses.
Print Assumptions ZEROFPRDIR_exit.
Print Assumptions ZEROFPRDIR_inner_contract.
Print Assumptions ZEROFPRDIR_LBFGS_invariant_at_every_stop_check.
Print Assumptions ZEROFPRDIR_LBFGS_exit_contract.

(* non-vacuity: a completed run of ZeroFPR<LBFGSDirection> over R (constant oracles, max_iter = 0) *)
Definition nvZ_P : Panoc.params (T:=R) := mkParams 0 10 1 (1/1000000) (1/1000000) (1/2) 1 1 ProjGradNorm 0 0 (1/2) (1/2) (1/4) false false false false true 0.
Definition nvZ_LP : Lbfgs.params R :=
  {| Lbfgs.p_memory := 3; Lbfgs.p_min_div_fac := 0; Lbfgs.p_min_abs_s := 0; Lbfgs.p_cbfgs_α := 1; Lbfgs.p_cbfgs_ϵ := 0;
     Lbfgs.p_force_pos_def := true; Lbfgs.p_curvature := true |}.
Definition nvZ_run := zerofprD (T:=R) (fun _ => (0, [0], [])) (fun _ => (0, [])) (fun _ _ => [0]) (fun _ => [0]) [None] [None] []
                        (Lbfgs.state R) (lbfgs_dir 1 (fun _ _ => 1) nvZ_LP false) (fun _ => false) (fun _ => false) nvZ_P false [0] [] [] [] 1 lbfgs_unsized 1.
Example ZEROFPRDIR_nonvacuous : exists oD, nvZ_run = ZDoneD _ oD /\ out_iterations (zo_out _ oD) = 0%nat /\ out_status (zo_out _ oD) <> StBusy.
Proof.
  unfold nvZ_run, zerofprD, init_L, nvZ_P. cbn [p_L0 fst snd psi_grad].
  change (@nleb R NumR 1 (@n0 R NumR)) with (Rle_bool 1 0).
  destruct (Rle_bool_spec 1 0) as [H|_]; [lra|].
  cbn [iL nfinite NumR negb].
  cbv [eval_prox eval_cost set_gamma_L p_Lgamma iL igam ix igrad ixh ip iyh ipsi ipsih ipp igp ih ihave igradh
       eval_prox_grad_step proj_grad_step map5 proj_step1 clamp_hi clamp_lo osub option_map vadd map2 fst snd].
  cbn [ZeroFpr.init_qub iL p_Lmax]. change (@nltb R NumR 1 1) with (Rlt_bool 1 1).
  destruct (Rlt_bool_spec 1 1) as [H|_]; [lra|]. cbn [andb].
  cbn [zloopD]. unfold zpassD. cbn [zd_st zd_dir zd_rej zd_trace st_curr st_cnt st_k st_np p_max_iter p_max_no_progress o_tol].
  unfold stop_status_helpers. cbn [Nat.eqb].
  match goal with |- context [if nleb ?a ?b then _ else _] => destruct (nleb a b) end.
  all: cbv [exit_block overwrites o_always ixh iyh]; eexists; split; [reflexivity|]; cbn [zo_out out_iterations out_status]; repeat split; try discriminate.
Qed.
