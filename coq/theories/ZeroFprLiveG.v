(* ZeroFprLiveG.v — liveness of the whole-loop ZeroFPR model for an ABSTRACT stopping criterion (any criterion whose ε is below the
   tolerance as soon as ‖p‖² <= δ², δ > 0), and its instance for the DEFAULT criterion ApproxKKT under a Lipschitz hypothesis on ∇ψ:
      ε = ‖p/γ + ∇ψ(x) - ∇ψ(x̂)‖∞ <= (1/γmin + Lg)·‖p‖₂      (ZeroFPR evaluates ∇ψ(x̂) in its prox iterate: px_grad).
   Port of PanocLiveKkt.v to ZeroFpr.v: the problem-level lemmas, the line-search invariant and the pass shapes are those of
   ZeroFprLive.v; only the loop part is redone. *)
From Coq Require Import Reals List ZArith Lra Lia Bool Arith Psatz.
From Flocq Require Import Raux.
From Alpaqa Require Import Num NumR Vec Prox ProxProofs ProxVec SolverStatus SolverKernels SolverKernelsProofs DescentProofs
                           StopChain StopChainProofs LoopSkeleton KktProofs Panoc PanocProofs LiveVec PanocLive PanocLiveKkt
                           ZeroFpr ZeroFprProofs ZeroFprLive.
Import ListNotations.
Local Open Scope R_scope.

Section ZLiveGen.
  Variable psi_grad_full : list R -> R * list R * list R.
  Variable psi_yhat : list R -> R * list R.
  Variable grad_L : list R -> list R -> list R.
  Variable grad_psi : list R -> list R.
  Variables (lb ub : list (option R)).
  Variable dir_apply : nat -> iterate (T:=R) -> proxit (T:=R) -> option (list R).      (* ARBITRARY *)
  Variable has_initial : bool.
  Variable P : params (T:=R).
  Variables (x_in y_in Σ errz_in : list R).
  Variable ls_fuel : nat.

  Notation l1 := (@nil R).
  Notation never := (fun _ : counters => false).
  Notation ZP f := (f psi_grad_full psi_yhat grad_L grad_psi lb ub l1 dir_apply has_initial never never P x_in y_in Σ errz_in ls_fuel).
  Notation ZL f := (f psi_grad_full psi_yhat grad_L grad_psi lb ub dir_apply has_initial P x_in y_in Σ errz_in ls_fuel).
  Notation dummy_dir := (fun (_ : nat) (_ : iterate (T:=R)) => @None (list R)).
  Notation PP f := (f psi_grad_full psi_yhat grad_L grad_psi lb ub l1 dummy_dir has_initial never never P x_in y_in Σ errz_in ls_fuel).

  Notation it := (iterate (T:=R)).
  Notation proxof := (eval_prox_it grad_L lb ub l1).
  Notation lsloop := (ls_loop psi_grad_full psi_yhat lb ub l1 never P).
  Notation pass_ := (pass psi_grad_full psi_yhat grad_L lb ub l1 dir_apply has_initial never never P x_in y_in Σ errz_in ls_fuel).
  Notation loop_ := (loop psi_grad_full psi_yhat grad_L lb ub l1 dir_apply has_initial never never P x_in y_in Σ errz_in ls_fuel).
  Notation zerofpr_ := (zerofpr psi_grad_full psi_yhat grad_L grad_psi lb ub l1 dir_apply has_initial never never P x_in y_in Σ errz_in ls_fuel).
  Notation pgrad := (psi_grad psi_grad_full).
  Notation zeps i := (zit_eps lb ub l1 P i (proxof i)).
  Notation Consistent := (zconsistent psi_grad_full psi_yhat grad_L lb ub l1).
  Notation Linit := (L_init psi_grad_full grad_psi P x_in).
  Notation Inv_ := (ZeroFprProofs.Inv psi_grad_full psi_yhat grad_L grad_psi lb ub l1 P x_in).

  Variables (ψ : list R -> R) (g : list R -> list R) (n : nat) (Lf ψinf : R).
  Hypothesis Hpsi : forall x, pgrad x = (ψ x, g x).
  Hypothesis Hco : zcoherent psi_grad_full psi_yhat grad_L.
  Hypothesis Hglen : forall x, length x = n -> length (g x) = n.
  Hypothesis Hqub : forall u d, length u = n -> length d = n ->
    ψ (vadd u d) <= ψ u + vdot (g u) d + Lf / 2 * vsqnorm d.
  Hypothesis Hinf : forall z, all_in_box lb ub z -> ψinf <= ψ z.
  Hypothesis Hlb : length lb = n.
  Hypothesis Hub : length ub = n.
  Hypothesis Hne : Forall2 box_ne lb ub.
  Hypothesis Hxin : length x_in = n.
  Hypothesis Hdir : forall j i px q, dir_apply j i px = Some q -> length q = n.
  Hypothesis HLg : 0 < p_Lgamma P < 1.
  Hypothesis HL0 : 0 < Linit.
  Hypothesis HLmax : Lf <= p_Lmax P.
  Hypothesis Hqt : p_qub_tol P = 0.
  Hypothesis Hlt : p_ls_tol P = 0.
  Hypothesis Hbeta : 0 < p_beta P <= 1.
  Hypothesis Hforce : p_force_ls P = false.
  Variables (nL nT : nat).
  Hypothesis HnL : p_Lmax P <= Linit * 2 ^ nL.
  Hypothesis Hmin : (1 / 2) ^ nT < p_tau_min P.
  Hypothesis Hfuel : (ZeroFprProofs.ls_pass_bound nL nT <= ls_fuel)%nat.

  Notation Lbar := (Lbar psi_grad_full grad_psi P x_in Lf).
  Notation cmin := (cmin psi_grad_full grad_psi P x_in).
  Notation tol := (tol P).
  Notation Phi0 := (Phi0 psi_grad_full grad_psi lb ub P x_in ψ g Lf).
  Notation facts := (facts lb ub ψ g n).
  Notation good := (good psi_grad_full grad_psi lb ub P x_in ψ g n Lf).

  (* ---- the abstract stopping criterion *)
  Variable δ : R.
  Hypothesis Hδ : 0 < δ.
  Hypothesis Heps : forall i, Consistent i -> good i -> ipp i <= δ * δ -> zeps i <= tol.

  Notation decg := (decg psi_grad_full grad_psi P x_in δ).
  Lemma zcmin_pos : 0 < cmin. Proof. now apply cmin_pos. Qed.
  Lemma zdecg_pos : 0 < decg.
  Proof. unfold PanocLiveKkt.decg. pose proof zcmin_pos. apply Rmult_lt_0_compat; [assumption|now apply Rmult_lt_0_compat]. Qed.

  Variable Φ0 : R.
  Variable N : nat.
  Hypothesis HN : Φ0 - ψinf < INR N * decg.
  Hypothesis HNmax : (N <= p_max_iter P)%nat.
  Hypothesis HPhi : Phi0 <= Φ0.

  Record ZLInvG (s : lstate (T:=R)) : Prop := {
    zg_inv : Inv_ s;
    zg_good : good (st_curr s);
    zg_np : st_np s = 0%nat;
    zg_pot : it_fbe (st_curr s) + INR (st_k s) * decg <= Φ0 }.

  Lemma ZLInvG_k s : ZLInvG s -> (st_k s < N)%nat.
  Proof.
    intros [_ G _ Hp].
    pose proof (good_gam psi_grad_full psi_yhat grad_L grad_psi lb ub has_initial P x_in y_in Σ errz_in ls_fuel ψ g n Lf HLg HL0 _ G) as (Hg & Hpr & _).
    pose proof (good_nv psi_grad_full grad_psi lb ub P x_in ψ g n Lf) as Hnv. spec Hnv. specialize (Hnv _ G).
    pose proof (ZeroFprLive.fbe_lower lb ub P ψ g n ψinf Hinf HLg Hqt (st_curr s) (g_facts _ _ _ _ _ _ _ _ _ _ _ G) Hnv Hg Hpr) as Hlow.
    pose proof zdecg_pos as Hd. apply INR_lt.
    assert (INR (st_k s) * decg < INR N * decg) by lra. nra.
  Qed.

  (* what is known about the iterate of the final stop check *)
  Definition zfinal_ok (o : outputs (T:=R)) : Prop :=
    exists cf : it, Consistent cf /\ good cf /\ out_x o = ixh cf /\ out_eps o = zeps cf.

  Lemma zpass_exit_x s o : pass_ s = PExit o -> out_status o = StConverged ->
    out_x o = ixh (st_curr s) /\ out_eps o = zeps (st_curr s).
  Proof.
    unfold pass. cbv zeta.
    match goal with |- context [stop_status_helpers ?a ?b ?c ?d ?e ?f ?g ?h] => destruct (stop_status_helpers a b c d e f g h) eqn:Est end.
    1: match goal with |- context [match ?X with LsDone _ => _ | LsStopped _ => _ | LsFuel => PFuel end] => destruct X end; discriminate.
    2-7: match goal with |- context [exit_block ?a ?b ?c ?d ?e ?f ?g ?h] => destruct (exit_block a b c d e f g h) as [[xo yo] eo] end;
         intros E; inversion E; cbn [out_status]; discriminate.
    unfold exit_block. cbn [overwrites andb].
    intros E Hs. inversion E. cbn [out_x out_eps]. split; reflexivity.
  Qed.

  Lemma zpass_live_g s : ZLInvG s ->
    (exists o, pass_ s = PExit o /\ out_status o = StConverged /\ out_iterations o = st_k s /\ zfinal_ok o) \/
    (exists s', pass_ s = PCont s' /\ ZLInvG s' /\ st_k s' = S (st_k s)).
  Proof.
    intros HI. pose proof (ZLInvG_k s HI) as Hk. destruct HI as [Hinv G Hnp Hpot].
    assert (Hkm : st_k s <> p_max_iter P) by lia.
    pose proof (ZP ZeroFprProofs.pass_inv s Hinv) as Hpi.
    pose proof (ZP ZeroFprProofs.pass_never_out_of_fuel nL nT s Hinv HL0 HnL Hmin Hfuel) as Hnf.
    assert (Hc0 : Consistent (st_curr s)) by apply Hinv.
    destruct (pass_ s) as [o|s'|] eqn:Ep; [| |exfalso; now apply Hnf].
    - left. exists o.
      destruct (ZeroFprLive.pass_exit_shape psi_grad_full psi_yhat grad_L lb ub dir_apply has_initial P x_in y_in Σ errz_in ls_fuel s o Ep) as (E1 & E2 & E3).
      assert (Hst : out_status o = StConverged).
      { rewrite E1. destruct (ZeroFprLive.status_cases grad_L lb ub P s Hkm Hnp) as [Ec|[Eb _]]; [exact Ec|contradiction]. }
      split; [reflexivity|]. split; [exact Hst|]. split; [exact E2|].
      destruct (zpass_exit_x s o Ep Hst) as [Ex Ee]. exists (st_curr s). repeat (split; [assumption|]). exact Ee.
    - right. exists s'. split; [reflexivity|].
      destruct (ZL ZeroFprLive.pass_cont_shape n Hdir s s' Ep) as (Eb & q & τi & upd & c & st & l & Hτ & Hq & Hls). cbv zeta in Hls.
      destruct (ZeroFprLive.status_cases grad_L lb ub P s Hkm Hnp) as [Ec|[_ Hepsb]]; [rewrite Ec in Eb; discriminate|].
      set (c0 := st_curr s) in *.
      assert (Hpp : δ * δ < ipp c0).
      { destruct (Rlt_le_dec (δ * δ) (ipp c0)) as [Hlt1|Hle]; [exact Hlt1|]. pose proof (Heps c0 Hc0 G Hle). lra. }
      set (ls0 := mkLs (set_gamma_L (st_next s) (igam c0) (iL c0)) τi (- 1) upd false c st) in *.
      assert (HI2 : ZeroFprLive.LsI2 psi_grad_full psi_yhat grad_L grad_psi P x_in n Lf c0 τi ls0).
      { constructor; [constructor|..]; cbn [ls_next ls_tau ls_tau_prev ls0].
        - exists 0%nat. reflexivity.
        - intros E. exfalso. destruct Hτ; lra.
        - unfold set_gamma_L. cbn [iL]. apply G.
        - intros E. exfalso. destruct Hτ; lra.
        - trivial.
        - destruct Hτ; lra. }
      pose proof (g_len _ _ _ _ _ _ _ _ _ _ c0 G) as Hlen0. pose proof (g_L _ _ _ _ _ _ _ _ _ _ c0 G) as HL0c.
      assert (Hτnn : 0 <= τi) by (destruct Hτ; lra).
      pose proof (ZL ZeroFprLive.ls_invariant2 ψ g n Lf) as Hpost. spec Hpost. specialize (Hpost c0 q τi). spec Hpost. specialize (Hpost ls_fuel ls0 HI2).
      destruct Hls as [El|(El & Ec & Ek & Enp)]; rewrite El in Hpost; [contradiction|].
      destruct Hpost as (Lp & HLn & Hlen & Hnn).
      pose proof (ZL ZeroFprLive.iteration_descent ψ g n Lf) as Hd. spec Hd. specialize (Hd c0 l G Lp Hlen Hnn).
      pose proof zcmin_pos as Hcm.
      split; [|exact Ek]. constructor.
      + exact Hpi.
      + rewrite Ec. pose proof (ZL ZeroFprLive.iteration_good ψ g n Lf) as Hg'. spec Hg'. now apply (Hg' c0).
      + rewrite Enp, Hnp.
        destruct (veqb (ix c0) (ix (ls_next l))) eqn:Es; [|apply np_stays_zero].
        exfalso.
        pose proof (ZL ZeroFprLive.same_x_forces_zero_step ψ g n Lf) as Hz. spec Hz. specialize (Hz c0 l G Lp Hlen Hnn Es). nra.
      + rewrite Ec, Ek, S_INR. unfold PanocLiveKkt.decg in *. nra.
  Qed.

  Lemma zloop_live_g : forall fuel s, ZLInvG s -> (N < fuel + st_k s)%nat ->
    exists o, loop_ fuel s = Done o /\ out_status o = StConverged /\ (out_iterations o < N)%nat /\ zfinal_ok o.
  Proof.
    induction fuel as [|fuel IH]; intros s HI Hf; pose proof (ZLInvG_k s HI) as Hk; [lia|].
    cbn [loop]. destruct (zpass_live_g s HI) as [(o & Ep & Es & Ei & Efin)|(s' & Ep & HI' & Ek)]; rewrite Ep.
    - exists o. split; [reflexivity|]. split; [exact Es|]. split; [lia|exact Efin].
    - apply IH; [exact HI'|lia].
  Qed.

  (* the state at the first stop check satisfies the invariant *)
  Lemma zinit_live : exists i0 c0 i3 c1 s1,
    init_L psi_grad_full grad_psi P x_in = (i0, c0) /\
    init_qub psi_yhat lb ub l1 P ls_fuel (first_iterate psi_yhat lb ub l1 P i0) (inc_py c0) stats0 = Some (i3, c1, s1) /\
    ZLInvG (mkSt i3 it_blank 0 0 [] c1 s1 []).
  Proof.
    destruct (init_L psi_grad_full grad_psi P x_in) as [i0 c0] eqn:E0. exists i0, c0.
    set (i2 := first_iterate psi_yhat lb ub l1 P i0).
    assert (HLi : Linit = iL i0) by (unfold L_init; now rewrite E0).
    assert (Hx0 : ix i0 = x_in) by (pose proof (PP init_L_x) as Hx; now rewrite E0 in Hx).
    pose proof (ZP init_L_zcons_x) as Hcx. rewrite E0 in Hcx. cbn [fst] in Hcx.
    set (i1 := set_gamma_L i0 (p_Lgamma P / iL i0) (iL i0)).
    destruct (ZP zeprox_cons i1 Hcx) as [A B].
    assert (Hc2 : Consistent i2) by (apply (ZP ecost_cons); assumption).
    assert (Hgl2 : gl_of i2 = halve_n 0 (gl0 psi_grad_full grad_psi P x_in)).
    { cbn [halve_n]. unfold gl_of, gl0, i2, first_iterate. rewrite HLi. reflexivity. }
    assert (Hx2 : ix i2 = x_in) by exact Hx0.
    assert (HL2 : iL i2 <= Lbar).
    { change (iL i2) with (iL i0). rewrite <- HLi. unfold PanocLive.Lbar. apply Rmax_l. }
    pose proof (ZL ZeroFprLive.init_qub_live ψ g n Lf) as Hiq. spec Hiq. specialize (Hiq nL nT). spec Hiq. specialize (Hiq N). spec Hiq.
    destruct (Hiq ls_fuel i2 (inc_py c0) stats0 0%nat Hc2 Hgl2 Hx2 HL2) as (i3 & c1 & s1 & Eq & Hx3 & HL3).
    { unfold ZeroFprProofs.ls_pass_bound in Hfuel. nia. }
    exists i3, c1, s1. split; [reflexivity|]. split; [exact Eq|].
    pose proof (ZP ZeroFprProofs.init_inv i0 c0 i3 c1 s1 E0 Eq) as Hinv.
    assert (G3 : good i3).
    { destruct Hinv as [Hc Hq Hgl _ _ _ _]. cbn [st_curr] in *. constructor; try assumption; [|now rewrite Hx3].
      pose proof (ZL ZeroFprLive.consistent_facts ψ g n) as Hcf. spec Hcf. apply Hcf; [exact Hc|now rewrite Hx3]. }
    constructor; cbn [st_curr st_np st_k]; [exact Hinv|exact G3|reflexivity|].
    pose proof (ZeroFprLive.fbe_le_Phi0 psi_grad_full psi_yhat grad_L grad_psi lb ub has_initial P x_in y_in Σ errz_in ls_fuel ψ g n Lf) as Hfp.
    spec Hfp. specialize (Hfp nL nT). spec Hfp. specialize (Hfp N). spec Hfp.
    specialize (Hfp i3 G3 Hx3). cbn [INR]. lra.
  Qed.

  Theorem zerofpr_live_g fuel : (N < fuel)%nat ->
    exists o, zerofpr_ fuel = Done o /\ out_status o = StConverged /\ (out_iterations o < N)%nat /\ zfinal_ok o.
  Proof.
    intros Hf. unfold zerofpr. destruct zinit_live as (i0 & c0 & i3 & c1 & s1 & E0 & Eq & HI). rewrite E0.
    cbn [nfinite NumR negb]. change (@ndiv R NumR) with Rdiv. fold (first_iterate psi_yhat lb ub l1 P i0). rewrite Eq.
    apply zloop_live_g; [exact HI|cbn [st_k]; lia].
  Qed.
End ZLiveGen.

(* ====================================================================================================================
   instance: the default criterion ApproxKKT, ∇ψ Lipschitz with constant Lg (in the 2-norm)
   ==================================================================================================================== *)
Section ZLiveKkt.
  Variable psi_grad_full : list R -> R * list R * list R.
  Variable psi_yhat : list R -> R * list R.
  Variable grad_L : list R -> list R -> list R.
  Variable grad_psi : list R -> list R.
  Variables (lb ub : list (option R)).
  Variable dir_apply : nat -> iterate (T:=R) -> proxit (T:=R) -> option (list R).
  Variable has_initial : bool.
  Variable P : params (T:=R).
  Variables (x_in y_in Σ errz_in : list R).
  Variable ls_fuel : nat.
  Notation l1 := (@nil R).
  Notation never := (fun _ : counters => false).
  Notation ZP f := (f psi_grad_full psi_yhat grad_L grad_psi lb ub l1 dir_apply has_initial never never P x_in y_in Σ errz_in ls_fuel).
  Notation zerofpr_ := (zerofpr psi_grad_full psi_yhat grad_L grad_psi lb ub l1 dir_apply has_initial never never P x_in y_in Σ errz_in ls_fuel).
  Notation pgrad := (psi_grad psi_grad_full).
  Notation Linit := (L_init psi_grad_full grad_psi P x_in).
  Variables (ψ : list R -> R) (g : list R -> list R) (n : nat) (Lf ψinf Lg : R).
  Hypothesis Hpsi : forall x, pgrad x = (ψ x, g x).
  Hypothesis Hco : zcoherent psi_grad_full psi_yhat grad_L.
  Hypothesis Hglen : forall x, length x = n -> length (g x) = n.
  Hypothesis Hqub : forall u d, length u = n -> length d = n ->
    ψ (vadd u d) <= ψ u + vdot (g u) d + Lf / 2 * vsqnorm d.
  Hypothesis Hlip : forall u d, length u = n -> length d = n ->
    vsqnorm (vsub (g u) (g (vadd u d))) <= Lg * Lg * vsqnorm d.
  Hypothesis HLg0 : 0 <= Lg.
  Hypothesis Hinf : forall z, all_in_box lb ub z -> ψinf <= ψ z.
  Hypothesis Hlb : length lb = n.
  Hypothesis Hub : length ub = n.
  Hypothesis Hne : Forall2 box_ne lb ub.
  Hypothesis Hxin : length x_in = n.
  Hypothesis Hdir : forall j i px q, dir_apply j i px = Some q -> length q = n.
  Hypothesis HLg : 0 < p_Lgamma P < 1.
  Hypothesis HL0 : 0 < Linit.
  Hypothesis HLmax : Lf <= p_Lmax P.
  Hypothesis Hqt : p_qub_tol P = 0.
  Hypothesis Hlt : p_ls_tol P = 0.
  Hypothesis Hbeta : 0 < p_beta P <= 1.
  Hypothesis Hforce : p_force_ls P = false.
  Hypothesis Hcrit : p_crit P = ApproxKKT.
  Variables (nL nT : nat).
  Hypothesis HnL : p_Lmax P <= Linit * 2 ^ nL.
  Hypothesis Hmin : (1 / 2) ^ nT < p_tau_min P.
  Hypothesis Hfuel : (ZeroFprProofs.ls_pass_bound nL nT <= ls_fuel)%nat.

  Notation gam_min := (gam_min psi_grad_full grad_psi P x_in Lf).
  Notation tol := (tol P).
  Notation Phi0 := (Phi0 psi_grad_full grad_psi lb ub P x_in ψ g Lf).
  Notation good := (good psi_grad_full grad_psi lb ub P x_in ψ g n Lf).
  Notation delta_kkt := (delta_kkt psi_grad_full grad_psi P x_in Lf Lg).
  Notation dec_kkt := (dec_kkt psi_grad_full grad_psi P x_in Lf Lg).

  Lemma zeps_small_kkt i : zconsistent psi_grad_full psi_yhat grad_L lb ub l1 i -> good i ->
    ipp i <= delta_kkt * delta_kkt -> zit_eps lb ub l1 P i (eval_prox_it grad_L lb ub l1 i) <= tol.
  Proof.
    intros Hc G Hs. pose proof (g_facts _ _ _ _ _ _ _ _ _ _ i G) as F.
    pose proof (good_gam psi_grad_full psi_yhat grad_L grad_psi lb ub has_initial P x_in y_in Σ errz_in ls_fuel ψ g n Lf HLg HL0 i G) as (Hg & _ & _ & Hm).
    pose proof (gam_min_pos psi_grad_full grad_psi P x_in Lf HLg HL0) as Hgm.
    assert (Hd : 0 < delta_kkt) by (now apply (PanocLiveKkt.delta_kkt_pos psi_grad_full grad_psi P x_in Lf Lg)).
    assert (Hden : 0 < / gam_min + Lg) by (now apply (kkt_den_pos psi_grad_full grad_psi P x_in Lf Lg)).
    destruct (ZP zconsistent_coherent i Hco Hc) as [_ E2]. rewrite Hpsi in E2. cbn [snd] in E2.
    unfold zit_eps, crit_eps. rewrite Hcrit. unfold kkt_residual. change (@ndiv R NumR) with Rdiv. change (@n1 R NumR) with 1.
    rewrite (f_grad _ _ _ _ _ i F), E2, (f_xh _ _ _ _ _ i F).
    rewrite (f_pp _ _ _ _ _ i F) in Hs.
    pose proof (Hlip (ix i) (ip i) (g_len _ _ _ _ _ _ _ _ _ _ i G) (f_lenp _ _ _ _ _ i F)) as HD.
    set (D := vsub (g (ix i)) (g (vadd (ix i) (ip i)))) in *.
    pose proof (vsqnorm_nonneg (ip i)) as Hp0.
    assert (HD2 : vsqnorm D <= (Lg * delta_kkt) * (Lg * delta_kkt)).
    { assert (Lg * Lg * vsqnorm (ip i) <= Lg * Lg * (delta_kkt * delta_kkt)) by (apply Rmult_le_compat_l; [nra|exact Hs]). nra. }
    pose proof (components_le_of_sq (ip i) delta_kkt ltac:(lra) Hs) as Cp.
    pose proof (components_le_of_sq D (Lg * delta_kkt) ltac:(nra) HD2) as CD.
    assert (Hc1 : 0 <= 1 / igam i) by (apply Rlt_le, Rdiv_lt_0_compat; lra).
    pose proof (residual_components (1 / igam i) delta_kkt (Lg * delta_kkt) Hc1 (ip i) D Cp CD) as CR.
    assert (Hinv : 1 / igam i <= / gam_min) by (unfold Rdiv; rewrite Rmult_1_l; apply Rinv_le_contravar; lra).
    assert (Htot : 1 / igam i * delta_kkt + Lg * delta_kkt <= tol).
    { assert (E : delta_kkt * (/ gam_min + Lg) = tol) by (unfold PanocLiveKkt.delta_kkt, Rdiv; rewrite Rmult_assoc, Rinv_l by lra; ring).
      set (dk := delta_kkt) in *. set (ig := / gam_min) in *. clearbody dk ig. nra. }
    eapply Rle_trans; [|exact Htot]. apply vnorminf_le; [|exact CR]. nra.
  Qed.

  Theorem zerofpr_live_kkt (N fuel : nat) : Phi0 - ψinf < INR N * dec_kkt -> (N <= p_max_iter P)%nat -> (N < fuel)%nat ->
    exists o, zerofpr_ fuel = Done o /\ out_status o = StConverged /\ (out_iterations o < N)%nat.
  Proof.
    intros HN Hmax Hf.
    assert (Hd : 0 < delta_kkt) by (now apply (PanocLiveKkt.delta_kkt_pos psi_grad_full grad_psi P x_in Lf Lg)).
    destruct (zerofpr_live_g psi_grad_full psi_yhat grad_L grad_psi lb ub dir_apply has_initial P x_in y_in Σ errz_in ls_fuel ψ g n Lf ψinf
                Hpsi Hco Hglen Hqub Hinf Hlb Hub Hne Hxin Hdir HLg HL0 HLmax Hqt Hlt Hbeta Hforce nL nT HnL Hmin Hfuel
                delta_kkt Hd zeps_small_kkt Phi0 N HN Hmax (Rle_refl _) fuel Hf)
      as (o & A & B & C & _).
    exists o. repeat split; assumption.
  Qed.
End ZLiveKkt.
