(* LiveVec.v — vector-level facts used by the liveness proofs (PanocLive.v, ZeroFprLive.v), over R:
   norms as computed by the code vs the squared 2-norm, equality test, monotonicity of the forward-backward envelope in the
   step size (a smaller γ gives a larger φ_γ(x)), lengths. *)
From Coq Require Import Reals List ZArith Lra Lia Bool Arith Psatz.
From Flocq Require Import Raux.
From Alpaqa Require Import Num NumR Vec Prox ProxProofs ProxVec SolverStatus SolverKernels SolverKernelsProofs DescentProofs.
Import ListNotations.
Local Open Scope R_scope.

(* ---------- sums of squares ---------- *)
Lemma rsum_sq_nonneg (v : list R) : 0 <= rsum (map (fun x => x * x) v).
Proof. induction v as [|a v IH]; cbn; [lra|]. pose proof (Rle_0_sqr a) as H; unfold Rsqr in H. lra. Qed.
Lemma vsqnorm_nonneg (v : list R) : 0 <= vsqnorm v.
Proof. rewrite vsqnorm_rsum. apply rsum_sq_nonneg. Qed.
Lemma vsqnorm_ge_component (v : list R) (x : R) : In x v -> x * x <= vsqnorm v.
Proof.
  rewrite vsqnorm_rsum. induction v as [|a v IH]; intros Hin; [destruct Hin|]. cbn.
  pose proof (rsum_sq_nonneg v) as H0. pose proof (Rle_0_sqr a) as Ha; unfold Rsqr in Ha.
  destruct Hin as [->|Hin]; [lra|]. specialize (IH Hin). lra.
Qed.

(* ‖v‖∞ (left fold of max over |v_i|, starting from |v_0|; 0 for the empty vector) is below every bound of the components *)
Lemma fold_max_le (l : list R) (a t : R) : a <= t -> Forall (fun x => x <= t) l ->
  fold_left (fun acc x => if Rlt_bool acc x then x else acc) l a <= t.
Proof.
  revert a; induction l as [|x l IH]; intros a Ha Hl; cbn [fold_left]; [exact Ha|].
  inversion Hl; subst. destruct (Rlt_bool_spec a x); apply IH; assumption.
Qed.
Lemma vnorminf_le (v : list R) (t : R) : 0 <= t -> Forall (fun x => Rabs x <= t) v -> vnorminf v <= t.
Proof.
  intros Ht Hf. unfold vnorminf, vmaxcoeff, redux, vabs.
  assert (Hf' : Forall (fun x => x <= t) (map (fun x : R => nabs x) v)).
  { apply Forall_forall. intros y Hy. apply in_map_iff in Hy. destruct Hy as (x & <- & Hx).
    rewrite Forall_forall in Hf. apply Hf, Hx. }
  destruct (map (fun x : R => nabs x) v) as [|a l]; [exact Ht|].
  inversion Hf'; subst.
  change (fold_left (fun acc x => if Rlt_bool acc x then x else acc) l a <= t). now apply fold_max_le.
Qed.

(* ‖v‖∞ <= δ and ‖v‖₂ <= δ as soon as ‖v‖₂² <= δ² *)
Lemma vnorminf_le_of_sq (v : list R) (δ : R) : 0 <= δ -> vsqnorm v <= δ * δ -> vnorminf v <= δ.
Proof.
  intros Hd Hs. apply vnorminf_le; [exact Hd|]. apply Forall_forall. intros x Hx.
  pose proof (vsqnorm_ge_component v x Hx) as Hc.
  assert (Hx2 : Rabs x * Rabs x <= δ * δ).
  { replace (Rabs x * Rabs x) with (x * x); [lra|]. unfold Rabs; destruct (Rcase_abs x); ring. }
  pose proof (Rabs_pos x). nra.
Qed.
Lemma vnorm2_le_of_sq (v : list R) (δ : R) : 0 <= δ -> vsqnorm v <= δ * δ -> vnorm2 v <= δ.
Proof.
  intros Hd Hs. unfold vnorm2. change (@nsqrt R NumR) with sqrt.
  rewrite <- (sqrt_square δ Hd). apply sqrt_le_1_alt. exact Hs.
Qed.

(* operator== on vectors over R is equality *)
Lemma veqb_eq (a b : list R) : veqb a b = true -> a = b.
Proof.
  revert b; induction a as [|x a IH]; intros [|y b]; cbn; intros H; try discriminate; [reflexivity|].
  apply andb_prop in H. destruct H as [H1 H2]. change (@neqb R NumR) with Req_bool in H1.
  apply Req_bool_iff in H1. subst. f_equal. now apply IH.
Qed.

(* ---------- lengths ---------- *)
Lemma vadd_length (a b : list R) n : length a = n -> length b = n -> length (vadd a b) = n.
Proof. intros. unfold vadd. now apply map2_length. Qed.
Lemma vscale_length (c : R) (a : list R) : length (vscale c a) = length a.
Proof. unfold vscale. apply map_length. Qed.
Lemma panoc_candidate_length (τ : R) (x p q : list R) n :
  length x = n -> length p = n -> length q = n -> length (panoc_candidate τ x p q) = n.
Proof.
  intros Hx Hp Hq. unfold panoc_candidate. destruct (neqb τ n1); [now apply vadd_length|].
  apply vadd_length; [apply vadd_length; [assumption|now rewrite vscale_length]|now rewrite vscale_length].
Qed.

(* ---------- the envelope is monotone in the step size ---------- *)
(* one component: the step p for γ minimises  g s + s²/(2γ)  over the feasible steps s (x + s in the box) *)
Lemma step1_minimal lb ub γ x g s : 0 < γ -> box_ne lb ub -> in_box lb ub (x + s) ->
  let p := proj_step1 lb ub γ x g in
  g * p + p * p / (2 * γ) <= g * s + s * s / (2 * γ).
Proof.
  intros Hg Hne Hs p.
  pose proof (proj1_strong_argmin lb ub (x - γ * g) (x + s) Hne Hs) as Hm.
  pose proof (proj_step1_is_proj lb ub γ x g) as Ep. fold p in Ep. rewrite <- Ep in Hm. clearbody p.
  unfold Rsqr in Hm.
  assert (Hi : 0 < / (2 * γ)) by (apply Rinv_0_lt_compat; lra).
  assert (H2 : p * p + 2 * γ * g * p <= s * s + 2 * γ * g * s).
  { pose proof (Rle_0_sqr (x + s - (x + p))) as Hq. unfold Rsqr in Hq. nra. }
  replace (g * p + p * p / (2 * γ)) with ((p * p + 2 * γ * g * p) * / (2 * γ)) by (field; lra).
  replace (g * s + s * s / (2 * γ)) with ((s * s + 2 * γ * g * s) * / (2 * γ)) by (field; lra).
  apply Rmult_le_compat_r; lra.
Qed.
Lemma step1_mono lb ub γ γ' x g : 0 < γ' -> γ' <= γ -> box_ne lb ub ->
  let p := proj_step1 lb ub γ x g in let p' := proj_step1 lb ub γ' x g in
  g * p + p * p / (2 * γ) <= g * p' + p' * p' / (2 * γ').
Proof.
  intros Hg' Hle Hne p p'.
  assert (Hin : in_box lb ub (x + p')).
  { unfold p'. rewrite proj_step1_is_proj. now apply proj1_in_box. }
  pose proof (step1_minimal lb ub γ x g p' ltac:(lra) Hne Hin) as Hm. cbv zeta in Hm. fold p in Hm.
  eapply Rle_trans; [exact Hm|].
  assert (Hq : 0 <= p' * p') by (pose proof (Rle_0_sqr p') as H; unfold Rsqr in H; exact H).
  assert (Hi : / (2 * γ) <= / (2 * γ')) by (apply Rinv_le_contravar; lra).
  unfold Rdiv. nra.
Qed.

Lemma prox_terms_mono lb ub γ γ' (x g : list R) : 0 < γ' -> γ' <= γ ->
  length ub = length lb -> length x = length lb -> length g = length lb -> Forall2 box_ne lb ub ->
  let p := snd (fst (proj_grad_step lb ub γ x g)) in
  let p' := snd (fst (proj_grad_step lb ub γ' x g)) in
  vdot g p + vsqnorm p / (2 * γ) <= vdot g p' + vsqnorm p' / (2 * γ').
Proof.
  intros Hg' Hle Hu Hx Hgl Hne p p'. subst p p'. unfold proj_grad_step; cbn [fst snd].
  rewrite !vdot_rsum, !vsqnorm_rsum.
  revert ub x g Hu Hx Hgl Hne.
  induction lb as [|l lb IH]; intros [|u ub] [|a x] [|b g] Hu Hx Hgl Hne; cbn in *; try discriminate; try lra.
  inversion Hne; subst.
  specialize (IH ub x g ltac:(lia) ltac:(lia) ltac:(lia) ltac:(assumption)).
  pose proof (step1_mono l u γ γ' a b Hg' Hle ltac:(assumption)) as Hc. cbv zeta in Hc.
  set (p1 := proj_step1 l u γ a b) in *. set (p2 := proj_step1 l u γ' a b) in *.
  unfold Rdiv in *.
  set (S1 := rsum (map2 Rmult g _)) in *. set (S2 := rsum (map _ _)) in *.
  set (S3 := rsum (map2 Rmult g _)) in *. set (S4 := rsum (map _ _)) in *.
  clearbody S1 S2 S3 S4 p1 p2. lra.
Qed.
