(* Properties_C20.v — C20: problem wrappers / loaders are transparent; counters and capability flags truthful.
   Only theorem statements closed by `exact`, each followed by Print Assumptions, plus non-vacuity examples.
   Model: Counters.v (shared evaluation counters; pointer-free specification `count` / `shares` over histories),
   tables: coq/gen/Wrappers.v regenerated from the sources by translate/gen_C20_wrappers.py. *)
From Coq Require Import List Arith Bool String.
From Alpaqa Require Import Counters CountersProofs Wrappers WrappersProofs.
Import ListNotations.

(* ---- (1) counters: for EVERY history (most recent operation first) of construct / call / copy / assign /
        decouple / reset, with the documented reset, no operation is undefined and each wrapper reads, for each
        function, the number of calls made through any wrapper sharing with it since creation or the last reset *)
Theorem C20_counter_counts_calls : forall h, wf h ->
  exists st, run ResetZeroesBlock h = Some st /\ nwr st = nw h /\
    forall w f, w < nw h -> read st w f = Some (count h w f).
Proof. exact counter_counts_calls. Qed.
Print Assumptions C20_counter_counts_calls.

Theorem C20_sharing_refines : forall h, wf h ->
  exists st, run ResetZeroesBlock h = Some st /\
    forall a b, a < nw h -> b < nw h -> (shares h a b = true <-> ptr st a = ptr st b).
Proof. exact sharing_refines. Qed.
Print Assumptions C20_sharing_refines.

(* the shipped code, on histories that never reset *)
Theorem C20_impl_counts_without_reset : forall h, wf h -> no_reset h ->
  exists st, run ResetNullsPointer h = Some st /\ forall w f, w < nw h -> read st w f = Some (count h w f).
Proof. exact impl_counts_without_reset. Qed.
Print Assumptions C20_impl_counts_without_reset.

(* ---- (2) what the specification says (so that (1) means what C20 states) *)
Theorem C20_call_increments_exactly_the_sharers : forall h w f v g,
  count (OCall w f :: h) v g = count h v g + (if (g =? f) && shares h v w then 1 else 0).
Proof. exact call_increments. Qed.
Print Assumptions C20_call_increments_exactly_the_sharers.

Theorem C20_copy_shares : forall h s, wf h -> s < nw h ->
  shares (OCopy s :: h) (nw h) s = true /\ forall f, count (OCopy s :: h) (nw h) f = count h s f.
Proof. exact copy_shares. Qed.
Print Assumptions C20_copy_shares.

Theorem C20_copy_then_call_seen_by_both : forall h s f, wf h -> s < nw h ->
  count (OCall s f :: OCopy s :: h) (nw h) f = S (count h s f) /\
  count (OCall (nw h) f :: OCopy s :: h) s f = S (count h s f).
Proof. exact copy_then_call_seen_by_both. Qed.
Print Assumptions C20_copy_then_call_seen_by_both.

Theorem C20_decouple_copies_then_separates : forall h w, wf h -> w < nw h ->
  (forall v f, count (ODecouple w :: h) v f = count h v f) /\
  (forall v, v <> w -> shares (ODecouple w :: h) w v = false /\ shares (ODecouple w :: h) v w = false) /\
  (forall v f g, v <> w -> count (OCall w g :: ODecouple w :: h) v f = count h v f) /\
  (forall v f g, v <> w -> count (OCall v g :: ODecouple w :: h) w f = count h w f).
Proof. exact decouple_copies_then_separates. Qed.
Print Assumptions C20_decouple_copies_then_separates.

Theorem C20_sharers_read_equal : forall h a b f, wf h -> a < nw h -> b < nw h ->
  shares h a b = true -> count h a f = count h b f.
Proof. exact sharers_read_equal. Qed.
Print Assumptions C20_sharers_read_equal.

Theorem C20_calls_after_reset : forall k h w f, wf h -> w < nw h ->
  wf (repeat (OCall w f) k ++ OReset w :: h) /\
  nw (repeat (OCall w f) k ++ OReset w :: h) = nw h /\
  count (repeat (OCall w f) k ++ OReset w :: h) w f = k.
Proof. exact calls_after_reset. Qed.
Print Assumptions C20_calls_after_reset.

Theorem C20_reset_reaches_sharers : forall h w v f, shares h v w = true -> count (OReset w :: h) v f = 0.
Proof. exact reset_reaches_sharers. Qed.
Print Assumptions C20_reset_reaches_sharers.

Theorem C20_copies_read_total_calls : forall h, wf h -> only_call_copy h ->
  forall w f, w < nw h -> count h w f = ncalls h f.
Proof. exact copies_read_total_calls. Qed.
Print Assumptions C20_copies_read_total_calls.

(* ---- (3) "resetting keeps the wrapper usable": holds for the documented reset, refuted for the shipped one *)
Theorem C20_reset_keeps_usable : forall h, wf h -> run ResetZeroesBlock h <> None.
Proof. exact reset_keeps_usable. Qed.
Print Assumptions C20_reset_keeps_usable.

Theorem C20_reset_keeps_usable_refuted :
  exists h, wf h /\ no_reset h = False /\ run ResetNullsPointer h = None.
Proof. exact reset_nulls_then_call_is_ub. Qed.
Print Assumptions C20_reset_keeps_usable_refuted.

Theorem C20_reset_reaches_sharers_refuted :
  exists h st w f, wf h /\ run ResetNullsPointer h = Some st /\ w < nw h /\ read st w f <> Some (count h w f).
Proof. exact reset_nulls_does_not_reach_sharers. Qed.
Print Assumptions C20_reset_reaches_sharers_refuted.

(* ---- (4) finite theorems over the tables generated from the wrapper sources *)
Local Open Scope string_scope.

Theorem C20_each_method_counts_its_own_counter : forall e, In e all_methods ->
  forall c, f_counter e = Some c -> f_name e = "eval_" ++ c /\ f_timer e = Some c.
Proof. exact each_method_counts_its_own_counter. Qed.
Print Assumptions C20_each_method_counts_its_own_counter.

Theorem C20_each_method_forwards_to_same_name : forall e, In e all_methods ->
  f_callee e = f_name e /\ f_args e = f_params e.
Proof. exact each_method_forwards_to_same_name. Qed.
Print Assumptions C20_each_method_forwards_to_same_name.

Theorem C20_method_requires_subject_matches : forall e, In e all_methods ->
  forall s, f_requires e = Some s -> s = f_name e.
Proof. exact method_requires_subject_matches. Qed.
Print Assumptions C20_method_requires_subject_matches.

Theorem C20_every_counter_field_has_exactly_one_member :
  (forall c, In c nlp_counter_fields -> ~ In c nlp_unparsed_counters -> field_uses nlp_methods c = 1) /\
  (forall c, In c ocp_counter_fields -> ~ In c ocp_unparsed_counters -> field_uses ocp_methods c = 1).
Proof. exact every_counter_field_has_exactly_one_member. Qed.
Print Assumptions C20_every_counter_field_has_exactly_one_member.

Theorem C20_every_eval_member_counts :
  (forall e, In e nlp_methods -> is_eval (f_name e) = true -> f_counter e <> None) /\
  (forall e, In e ocp_methods -> is_eval (f_name e) = true ->
     f_counter e <> None \/ f_name e = "eval_proj_diff_g" \/ f_name e = "eval_proj_multipliers").
Proof. exact every_eval_member_counts. Qed.
Print Assumptions C20_every_eval_member_counts.

Theorem C20_each_provides_forwards_to_same_name : forall p, In p all_provides -> p_callee p = p_name p.
Proof. exact each_provides_forwards_to_same_name. Qed.
Print Assumptions C20_each_provides_forwards_to_same_name.

(* full statement: forall p, In p all_provides -> p_requires p = p_name p   (see WrappersProofs.v) *)
Theorem C20_provides_requires_subject_matches_partial : forall p, In p all_provides ->
  p_requires p <> p_name p ->
  p_name p = "provides_eval_hess_ψ_prod" /\ p_requires p = "provides_eval_hess_ψ".
Proof. exact provides_requires_subject_matches_partial. Qed.
Print Assumptions C20_provides_requires_subject_matches_partial.

Theorem C20_default_throws_own_name : forall d, In d nlp_defaults ->
  forall s, d_thrown d = Some s -> s = d_name d.
Proof. exact default_throws_own_name. Qed.
Print Assumptions C20_default_throws_own_name.

Theorem C20_dl_argument_order_ok : forall e, In e all_dl -> dl_callee e = dl_name e /\ dl_args e = dl_cparams e.
Proof. exact dl_argument_order_ok. Qed.
Print Assumptions C20_dl_argument_order_ok.

Theorem C20_dl_provides_tests_called_pointer : forall p, In p (dl_provides ++ dlc_provides)%list ->
  dp_tested p <> "<special>" -> dp_name p = "provides_" ++ dp_tested p.
Proof. exact dl_provides_tests_called_pointer. Qed.
Print Assumptions C20_dl_provides_tests_called_pointer.

Theorem C20_dl_fallbacks_ok : forall d tested base bargs params, In (d, (tested, base, bargs, params)) dl_fallbacks ->
  tested = dl_name d /\ base = dl_name d /\ bargs = params.
Proof. exact dl_fallbacks_ok. Qed.
Print Assumptions C20_dl_fallbacks_ok.

(* ---- non-vacuity *)
(* a well-formed history with copy, decouple, reset, assignment in which the hypotheses of (1) hold and the
   counters are not all equal / not all zero *)
Definition ex_hist : list op :=
  [OCall 2 1; OAssign 2 0; OCall 1 0; OReset 0; OCall 1 0; ODecouple 1; OCall 2 0; OCopy 0; OCopy 0; OCall 0 0; ONew].
Example C20_nonvacuous_history :
  wf ex_hist /\ nw ex_hist = 3 /\
  count ex_hist 0 0 = 0 /\ count ex_hist 1 0 = 4 /\ count ex_hist 2 0 = 0 /\ count ex_hist 2 1 = 1 /\ count ex_hist 0 1 = 1 /\
  shares ex_hist 0 2 = true /\ shares ex_hist 0 1 = false /\
  option_map (fun st => (read st 0 0, read st 1 0, read st 2 1)) (run ResetZeroesBlock ex_hist) = Some (Some 0, Some 4, Some 1).
Proof. vm_compute. repeat split; repeat constructor. Qed.

Example C20_nonvacuous_copy_only :
  let h := [OCall 1 0; OCopy 0; OCall 0 0; OCall 0 1; ONew] in
  wf h /\ only_call_copy h /\ count h 0 0 = 2 /\ count h 1 0 = 2 /\ ncalls h 0 = 2.
Proof. vm_compute. repeat split; repeat constructor. Qed.

Example C20_nonvacuous_tables :
  20 <= List.length nlp_methods /\ 20 <= List.length ocp_methods /\ 15 <= List.length nlp_provides /\ 10 <= List.length ocp_provides /\
  List.length nlp_counter_fields = 21 /\ List.length ocp_counter_fields = 21 /\ 15 <= List.length dl_forwards /\ 20 <= List.length dlc_forwards.
Proof. exact tables_nonempty. Qed.
