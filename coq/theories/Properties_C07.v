(* Properties_C07.v — C07: ALM outer-loop invariants (penalties, multiplier bounds, tolerances, accounting).
   Only theorem statements closed by `exact`, each followed by Print Assumptions.
   Subject: Alm.alm_run (model of ALMSolver<InnerSolverT>::operator(), alm.tpp + alm-helpers.tpp) at the real instance,
   for EVERY script of inner-solver outcomes (any length, any statuses, any ε, any slack-error / multiplier writes, any
   out-of-time pattern) and every parameter value satisfying the hypotheses written in each statement.
   Vocabulary: `fst (alm_run ...)` is the list of outer iterations (what the inner solver was handed: it_y, it_Sigma,
   it_tol; what it returned: it_res; the slack error after the call: it_err, ‖·‖∞ = it_norm); `snd` is ALMSolver::Stats
   plus the written-back Σ and y.  `chain Q l` = Q holds between every two consecutive outer iterations. *)
From Coq Require Import Reals List ZArith Lra Bool Arith.
From Alpaqa Require Import Num NumR Vec Prox Alm AlmProofs AlmGen StatsAcc AlmGenEq.
Import ListNotations.
Local Open Scope R_scope.

(* ---- (1) penalties are positive (and keep their size; with single_penalty_factor they stay one common value) ---- *)
Theorem C07_sigma_positive : forall (P : alm_params) pb f0 g0 nanv Σ0 y0 script,
  (let S0 := initial_sigma P (pb_m pb) f0 g0 Σ0 in
   length S0 = pb_m pb /\ Forall (fun x => 0 < x) S0 /\ (p_single P = true -> uniform S0)) ->
  Forall (fun r => Forall (fun x => 0 < x) (it_Sigma r) /\ length (it_Sigma r) = pb_m pb)
         (fst (alm_run P pb f0 g0 nanv Σ0 y0 script)).
Proof. exact run_sigma_positive. Qed.
Print Assumptions C07_sigma_positive.

(* ---- (2) never decrease between outer iterations — also when the caller's initial penalties exceed max_penalty
        (no hypothesis relating them to max_penalty, none on Δ; single_penalty_factor needs one common initial value) ---- *)
Theorem C07_sigma_monotone : forall (P : alm_params) pb f0 g0 nanv Σ0 y0 script,
  (let S0 := initial_sigma P (pb_m pb) f0 g0 Σ0 in
   length S0 = pb_m pb /\ Forall (fun x => 0 < x) S0 /\ (p_single P = true -> uniform S0)) ->
  chain (fun a b => Forall2 Rle (it_Sigma a) (it_Sigma b)) (fst (alm_run P pb f0 g0 nanv Σ0 y0 script)).
Proof. exact run_sigma_monotone. Qed.
Print Assumptions C07_sigma_monotone.

(* ---- (2') exact cap: component k never exceeds max(initial Σ_k, max_penalty) ---- *)
Theorem C07_sigma_le_max_of_initial_and_max_penalty : forall (P : alm_params) pb f0 g0 nanv Σ0 y0 script,
  (let S0 := initial_sigma P (pb_m pb) f0 g0 Σ0 in
   length S0 = pb_m pb /\ Forall (fun x => 0 < x) S0 /\ (p_single P = true -> uniform S0)) ->
  Forall (fun r => Forall2 Rle (it_Sigma r) (map (fun s0 => Rmax s0 (p_max_pen P)) (initial_sigma P (pb_m pb) f0 g0 Σ0)))
         (fst (alm_run P pb f0 g0 nanv Σ0 y0 script)).
Proof. exact run_sigma_bound. Qed.
Print Assumptions C07_sigma_le_max_of_initial_and_max_penalty.

(* ---- (2'') never exceed max_penalty — unless the initial ones do ---- *)
Theorem C07_sigma_le_max : forall (P : alm_params) pb f0 g0 nanv Σ0 y0 script,
  (let S0 := initial_sigma P (pb_m pb) f0 g0 Σ0 in
   length S0 = pb_m pb /\ Forall (fun x => 0 < x) S0 /\ (p_single P = true -> uniform S0)) ->
  Forall (fun x => x <= p_max_pen P) (initial_sigma P (pb_m pb) f0 g0 Σ0) ->
  Forall (fun r => Forall (fun x => x <= p_max_pen P) (it_Sigma r)) (fst (alm_run P pb f0 g0 nanv Σ0 y0 script)).
Proof. exact run_sigma_le_max. Qed.
Print Assumptions C07_sigma_le_max.

(* one component, for all inputs: never lowered; a component at or above the cap is left exactly as it is *)
Theorem C07_sigma_component_never_lowered : forall (P : alm_params) first ne e o σ, σ <= upd1 P first ne e o σ.
Proof. exact upd1_ge. Qed.
Print Assumptions C07_sigma_component_never_lowered.

Theorem C07_sigma_above_cap_is_kept : forall (P : alm_params) first ne e o σ,
  p_max_pen P <= σ -> upd1 P first ne e o σ = σ.
Proof. exact upd1_above_cap_unchanged. Qed.
Print Assumptions C07_sigma_above_cap_is_kept.

(* the initial penalties satisfy the hypotheses above when the parameters are sane and the caller's Σ (if accepted) is *)
Theorem C07_initial_sigma_ok : forall (P : alm_params) m f0 g0 Σ0,
  0 < p_min_pen P <= p_max_pen P -> p_init_pen P <= p_max_pen P ->
  (forall s, Σ0 = Some s -> sigma_accepted s = true ->
     length s = m /\ Forall (fun x => 0 < x <= p_max_pen P) s /\ (p_single P = true -> uniform s)) ->
  let S0 := initial_sigma P m f0 g0 Σ0 in
  length S0 = m /\ Forall (fun x => 0 < x <= p_max_pen P) S0 /\ (p_single P = true -> uniform S0).
Proof. exact initial_sigma_ok. Qed.
Print Assumptions C07_initial_sigma_ok.

(* ---- (3) penalties grow only on components whose violation failed to shrink by the ratio θ (no hypothesis on parameters) ----
   component k changes between iterations a and b only if ‖e‖∞ > dual_tolerance and (a is the first iteration, or
   |e_k| > θ|e_k_old|; with single_penalty_factor: ‖e‖∞ > θ‖e_old‖∞); e_old of b is e of a. *)
Theorem C07_sigma_grows_only_where_violation_persists : forall (P : alm_params) pb f0 g0 nanv Σ0 y0 script,
  length (initial_sigma P (pb_m pb) f0 g0 Σ0) = pb_m pb ->
  Forall (fun r => it_norm r = vnorminf (it_err r) /\
                   it_err r = pick (pb_m pb) (ir_err (it_res r)) (it_err_in r) /\
                   length (it_Sigma r) = pb_m pb /\ length (it_err r) = pb_m pb)
         (fst (alm_run P pb f0 g0 nanv Σ0 y0 script)) /\
  chain (fun a b =>
           (forall k, nth k (it_Sigma b) 0 <> nth k (it_Sigma a) 0 ->
              p_dual_tol P < it_norm a /\
              (it_i a = 0%nat \/
               if p_single P then p_theta P * it_norm_old a < it_norm a
               else p_theta P * Rabs (nth k (it_err_old a) 0) < Rabs (nth k (it_err a) 0))) /\
           (it_i b = S (it_i a) /\ it_err_old b = it_err a /\ it_norm_old b = it_norm a /\ it_err_in b = it_err_old a))
        (fst (alm_run P pb f0 g0 nanv Σ0 y0 script)).
Proof. exact run_growth. Qed.
Print Assumptions C07_sigma_grows_only_where_violation_persists.

(* new value of one component: max(σ, min(max_penalty, max(Δ|e_k|/‖e‖∞, 1) σ)) where the rule applies, else unchanged *)
Theorem C07_sigma_growth_factor : forall (P : alm_params) first ne e o σ,
  upd1 P first ne e o σ =
    if first || Raux.Rlt_bool (p_theta P * Rabs o) (Rabs e)
    then Rmax σ (Rmin (p_max_pen P) (Rmax (p_Delta P * Rabs e / ne) 1 * σ)) else σ.
Proof. exact upd1_value. Qed.
Print Assumptions C07_sigma_growth_factor.

(* the norm the loop computes is the ∞-norm *)
Theorem C07_norm_is_max_abs : forall v : list R,
  0 <= vnorminf v /\ (forall x, In x v -> Rabs x <= vnorminf v) /\ (v <> [] -> exists x, In x v /\ vnorminf v = Rabs x).
Proof. exact vnorminf_spec. Qed.
Print Assumptions C07_norm_is_max_abs.

(* ---- (4) multipliers handed to the inner solver: within ±max_multiplier, sign allowed by one-sided constraints,
        zero on the penalty-only rows ---- *)
Theorem C07_y_in_bounded_signed : forall (P : alm_params) pb f0 g0 nanv Σ0 y0 script,
  0 <= p_M P -> length (pb_ub pb) = pb_m pb -> length y0 = pb_m pb ->
  Forall (fun r =>
            length (it_y r) = pb_m pb /\
            forall k, (k < pb_m pb)%nat ->
              let v := nth k (it_y r) 0 in
              - p_M P <= v <= p_M P /\
              ((k < pb_split pb)%nat -> v = 0) /\
              (nth k (pb_lb pb) None = None -> 0 <= v) /\
              (nth k (pb_ub pb) None = None -> v <= 0))
         (fst (alm_run P pb f0 g0 nanv Σ0 y0 script)).
Proof. exact run_y. Qed.
Print Assumptions C07_y_in_bounded_signed.

(* ---- (5) inner tolerances: never below the final tolerance, non-increasing, ε⁺ = max(ρ ε, tolerance) ---- *)
Theorem C07_tol_nonincreasing_and_ge_final : forall (P : alm_params) pb f0 g0 nanv Σ0 y0 script,
  0 <= p_rho P <= 1 -> p_tol P <= p_init_tol P -> 0 <= p_init_tol P ->
  Forall (fun r => p_tol P <= it_tol r) (fst (alm_run P pb f0 g0 nanv Σ0 y0 script)) /\
  chain (fun a b => it_tol b <= it_tol a /\ it_tol b = Rmax (p_rho P * it_tol a) (p_tol P))
        (fst (alm_run P pb f0 g0 nanv Σ0 y0 script)).
Proof. exact run_tol. Qed.
Print Assumptions C07_tol_nonincreasing_and_ge_final.

(* the hypothesis tolerance <= initial_tolerance cannot be dropped *)
Theorem C07_tol_refuted_if_initial_below_final :
  exists (P : alm_params (T:=R)) pb f0 g0 nanv Σ0 y0 script,
    0 <= p_rho P <= 1 /\ 0 <= p_init_tol P /\ p_init_tol P < p_tol P /\
    ~ Forall (fun r => p_tol P <= it_tol r) (fst (alm_run P pb f0 g0 nanv Σ0 y0 script)) /\
    ~ chain (fun a b => it_tol b <= it_tol a) (fst (alm_run P pb f0 g0 nanv Σ0 y0 script)).
Proof. exact tol_refuted_if_initial_below_final. Qed.
Print Assumptions C07_tol_refuted_if_initial_below_final.

(* ---- (6) at most max_iter outer iterations = number of inner solves; the inner results consumed are a prefix of the
        history; accumulated statistics are the sums over exactly those solves ---- *)
Theorem C07_outer_iterations_and_stats : forall (P : alm_params (T:=R)) pb f0 g0 nanv Σ0 y0 script,
  let tr := fst (alm_run P pb f0 g0 nanv Σ0 y0 script) in
  let f := snd (alm_run P pb f0 g0 nanv Σ0 y0 script) in
  (f_outer f <= p_max_iter P)%nat /\ f_outer f = length tr /\
  map it_res tr = firstn (length tr) script /\
  map it_i tr = seq 0 (length tr) /\
  f_iters f = fold_right Nat.add 0%nat (map (fun r => ir_iters (it_res r)) tr) /\
  f_fails f = length (filter (fun r => negb (is_converged (ir_status (it_res r)))) tr).
Proof. exact run_counts. Qed.
Print Assumptions C07_outer_iterations_and_stats.

(* ---- (7) Converged exactly when the last inner solve converged with ε <= tolerance and ‖slack error‖∞ <= dual tolerance;
        the reported ε, δ are those of the last solve ---- *)
Theorem C07_converged_iff : forall (P : alm_params) pb f0 g0 nanv Σ0 y0 script,
  p_max_iter P <> 0%nat -> pb_m pb <> 0%nat ->
  f_exhausted (snd (alm_run P pb f0 g0 nanv Σ0 y0 script)) = false ->
  exists (pre : list iter_rec) (r : iter_rec), fst (alm_run P pb f0 g0 nanv Σ0 y0 script) = pre ++ [r] /\
    let f := snd (alm_run P pb f0 g0 nanv Σ0 y0 script) in
    (f_status f = Converged <->
     ir_status (it_res r) = Converged /\ ir_eps (it_res r) <= p_tol P /\ it_norm r <= p_dual_tol P) /\
    f_eps f = Some (ir_eps (it_res r)) /\ f_delta f = Some (it_norm r) /\ it_norm r = vnorminf (it_err r).
Proof. exact run_converged_iff. Qed.
Print Assumptions C07_converged_iff.

(* ---- (8) Interrupted is returned immediately: no inner solve follows an Interrupted one, nor one after which ALM's own stop flag
        (ir_stop: set by ALMSolver::stop(), read once per outer iteration after the inner solve) was set; the run returns Interrupted
        exactly when the last inner solve was interrupted, or the flag was set after it and none of Converged / MaxTime / MaxIter applies ---- *)
Theorem C07_interrupted_immediate : forall (P : alm_params) pb f0 g0 nanv Σ0 y0 script,
  p_max_iter P <> 0%nat -> pb_m pb <> 0%nat ->
  f_exhausted (snd (alm_run P pb f0 g0 nanv Σ0 y0 script)) = false ->
  exists (pre : list iter_rec) (r : iter_rec), fst (alm_run P pb f0 g0 nanv Σ0 y0 script) = pre ++ [r] /\
    Forall (fun a => ir_status (it_res a) <> Interrupted /\ ir_stop (it_res a) = false) pre /\
    (f_status (snd (alm_run P pb f0 g0 nanv Σ0 y0 script)) = Interrupted <->
     ir_status (it_res r) = Interrupted \/
     (ir_stop (it_res r) = true /\ rec_conv P r = false /\ ir_oot (it_res r) = false /\ length (pre ++ [r]) <> p_max_iter P)).
Proof. exact run_interrupted_immediate. Qed.
Print Assumptions C07_interrupted_immediate.

(* ---- (8') a stop request ends the run: the outer iteration after whose inner solve ALM's own flag is read as set is the LAST one
        (whatever the inner solve returned, whatever follows in the history), and the status follows the ranking
        Interrupted (inner) / Converged > MaxTime > MaxIter > Interrupted ---- *)
Theorem C07_stop_request_ends_run : forall (P : alm_params) pb f0 g0 nanv Σ0 y0 script,
  p_max_iter P <> 0%nat -> pb_m pb <> 0%nat ->
  forall (pre : list iter_rec) (r : iter_rec) (post : list iter_rec),
    fst (alm_run P pb f0 g0 nanv Σ0 y0 script) = pre ++ r :: post -> ir_stop (it_res r) = true ->
    post = [] /\
    let f := snd (alm_run P pb f0 g0 nanv Σ0 y0 script) in
    f_exhausted f = false /\ f_outer f = S (length pre) /\
    f_status f =
      (if is_interrupted (ir_status (it_res r)) then Interrupted
       else if rec_conv P r then Converged else if ir_oot (it_res r) then MaxTime
       else if Nat.eqb (S (length pre)) (p_max_iter P) then MaxIter else Interrupted) /\
    (f_status f = Converged \/ f_status f = MaxTime \/ f_status f = MaxIter \/ f_status f = Interrupted).
Proof. exact run_stop_request_ends_run. Qed.
Print Assumptions C07_stop_request_ends_run.

(* ---- (9) status selection Converged > MaxTime > MaxIter > Interrupted (own flag); no solve after an exit condition; Σ handed back = Σ last used ---- *)
Theorem C07_status_selection_and_sigma_out : forall (P : alm_params) pb f0 g0 nanv Σ0 y0 script,
  p_max_iter P <> 0%nat -> pb_m pb <> 0%nat ->
  f_exhausted (snd (alm_run P pb f0 g0 nanv Σ0 y0 script)) = false ->
  exists (pre : list iter_rec) (r : iter_rec), fst (alm_run P pb f0 g0 nanv Σ0 y0 script) = pre ++ [r] /\
    Forall (fun a => ir_status (it_res a) <> Interrupted /\ rec_conv P a = false /\ ir_oot (it_res a) = false /\
                     S (it_i a) <> p_max_iter P /\ ir_stop (it_res a) = false) pre /\
    let f := snd (alm_run P pb f0 g0 nanv Σ0 y0 script) in
    (ir_status (it_res r) <> Interrupted -> rec_conv P r = false ->
       (ir_oot (it_res r) = true -> f_status f = MaxTime) /\
       (ir_oot (it_res r) = false -> length (pre ++ [r]) = p_max_iter P -> f_status f = MaxIter) /\
       (ir_oot (it_res r) = false -> length (pre ++ [r]) <> p_max_iter P ->
          f_status f = Interrupted /\ ir_stop (it_res r) = true)) /\
    f_Sigma f = Some (it_Sigma r) /\ f_outer f = length (pre ++ [r]) /\
    f_y f = pick (pb_m pb) (ir_y (it_res r)) (it_y r) /\ f_norm_pen f = norm_penalty (it_Sigma r).
Proof. exact run_status_selection. Qed.
Print Assumptions C07_status_selection_and_sigma_out.

(* rec_conv is the termination test spelled out *)
Theorem C07_termination_test : forall (P : alm_params) (r : iter_rec),
  rec_conv P r = true <->
  ir_status (it_res r) = Converged /\ ir_eps (it_res r) <= p_tol P /\ it_norm r <= p_dual_tol P.
Proof. exact rec_conv_iff. Qed.
Print Assumptions C07_termination_test.

(* ---- (10) shortcuts: max_iter = 0, and m = 0 (a single inner solve at the final tolerance) ---- *)
Theorem C07_max_iter_0 : forall (P : alm_params (T:=R)) pb f0 g0 nanv Σ0 y0 script, p_max_iter P = 0%nat ->
  fst (alm_run P pb f0 g0 nanv Σ0 y0 script) = [] /\
  let f := snd (alm_run P pb f0 g0 nanv Σ0 y0 script) in
  f_status f = MaxIter /\ f_outer f = 0%nat /\ f_Sigma f = None /\ f_y f = y0.
Proof. exact run_max_iter_0. Qed.
Print Assumptions C07_max_iter_0.

Theorem C07_m0_single_call : forall (P : alm_params) pb f0 g0 nanv Σ0 y0 r rest,
  p_max_iter P <> 0%nat -> pb_m pb = 0%nat ->
  exists a, fst (alm_run P pb f0 g0 nanv Σ0 y0 (r :: rest)) = [a] /\
    it_tol a = p_tol P /\ it_Sigma a = [] /\ it_res a = r /\ it_y a = y0 /\
    let f := snd (alm_run P pb f0 g0 nanv Σ0 y0 (r :: rest)) in
    f_status f = ir_status r /\ f_outer f = 1%nat /\ f_Sigma f = None /\ f_eps f = Some (ir_eps r) /\
    f_delta f = Some 0 /\ f_iters f = ir_iters r /\
    ((ir_status r = Converged -> ir_eps r <= p_tol P) ->
     (f_status f = Converged <-> ir_status r = Converged /\ ir_eps r <= p_tol P)).
Proof. exact run_m0. Qed.
Print Assumptions C07_m0_single_call.

(* ---- non-vacuity: one concrete configuration satisfies every hypothesis used above, and on it the loop really runs two
        iterations, grows the penalty 1 -> 4, tightens the tolerance 1 -> 1/2 and hands the inner solver y = 0 ---- *)
Example C07_nonvacuous_hypotheses :
  let P := wP 1 (1/4) in
  0 < p_max_pen P /\ (p_single P = true -> 1 <= p_Delta P) /\
  (let S0 := initial_sigma P (pb_m wpb) 0 [0] None in
   length S0 = pb_m wpb /\ Forall (fun x => 0 < x) S0 /\ (p_single P = true -> uniform S0)) /\
  Forall (fun x => x <= p_max_pen P) (initial_sigma P (pb_m wpb) 0 [0] None) /\
  0 <= p_rho P <= 1 /\ p_tol P <= p_init_tol P /\ 0 <= p_init_tol P /\
  0 <= p_M P /\ length (pb_ub wpb) = pb_m wpb /\ length [0] = pb_m wpb.
Proof. exact w_hyps. Qed.

(* the monotonicity theorem is not vacuous above the cap either: caller Σ = 128 > max_penalty = 64 is accepted, satisfies the
   hypothesis, and the second inner solve receives 128 again *)
Example C07_nonvacuous_above_cap :
  let P := wP 1 (1/4) in
  (let S0 := initial_sigma P (pb_m wpb) 0 [0] (Some [128]) in
   length S0 = pb_m wpb /\ Forall (fun x => 0 < x) S0 /\ (p_single P = true -> uniform S0)) /\
  exists a b tr', fst (alm_run P wpb 0 [0] 0 (Some [128]) [0] [wr; wr]) = a :: b :: tr' /\
    it_Sigma a = [128] /\ it_Sigma b = [128] /\ p_max_pen P < 128.
Proof. exact w_sigma_above_cap_kept. Qed.

Example C07_nonvacuous_run :
  let P := wP 1 (1/4) in
  exists a b tr', fst (alm_run P wpb 0 [0] 0 None [0] [wr; wr]) = a :: b :: tr' /\
    it_Sigma a = [1] /\ it_Sigma b = [4] /\ it_tol a = 1 /\ it_tol b = 1/2 /\ it_y a = [0].
Proof. exact w_run_grows. Qed.

(* ---- (11) tie 1: the kernels REGENERATED from alm-helpers.tpp / alm.tpp on every run (coq/gen/AlmGen.v, written by
        translate/gen_C07_alm.py) are the kernels of the model all theorems above are about.  A source change changes the
        left-hand sides and breaks these obligations. ---- *)
Theorem C07_gen_update_penalty_weights_is_model : forall (P : alm_params (T:=R)) i e o ne no Σ,
  g_call_update_penalty_weights P i e o ne no Σ = update_penalty_weights P (Nat.eqb i 0) e o ne no Σ.
Proof. exact gen_call_update_penalty_weights_eq. Qed.
Print Assumptions C07_gen_update_penalty_weights_is_model.

Theorem C07_gen_component_update_is_model : forall (P : alm_params (T:=R)) first ne no e o σ,
  (if g_comp_cond P (p_Delta P) first ne no e o σ then g_comp_new P (p_Delta P) first ne no e o σ else σ)
  = upd1 P first ne e o σ.
Proof. exact gen_comp_eq. Qed.
Print Assumptions C07_gen_component_update_is_model.

Theorem C07_gen_initial_sigma_is_model : forall (P : alm_params (T:=R)) m f0 g0 Σ0,
  g_initial_sigma P m f0 g0 Σ0 = initial_sigma P m f0 g0 Σ0.
Proof. exact gen_initial_sigma_eq. Qed.
Print Assumptions C07_gen_initial_sigma_is_model.

Theorem C07_gen_termination_and_status_are_model : forall (P : alm_params (T:=R)) (r : iter_rec (T:=R)),
  (it_i r < p_max_iter P)%nat ->    (* holds for every outer iteration: C07_outer_iterations_and_stats *)
  rec_conv P r = g_alm_converged P (ir_eps (it_res r)) (g_inner_converged (ir_status (it_res r))) (it_norm r) /\
  rec_exit P r = g_exit (rec_conv P r) (g_out_of_iter P (it_i r)) (ir_oot (it_res r)) (g_interrupted (ir_stop (it_res r))) /\
  rec_status P r = (if g_is_interrupted (ir_status (it_res r)) then Interrupted
                    else g_exit_status (rec_conv P r) (ir_oot (it_res r)) (g_out_of_iter P (it_i r)) (g_interrupted (ir_stop (it_res r)))).
Proof. exact (fun P r Hi => conj (rec_conv_is_generated P r) (conj (rec_exit_is_generated P r Hi) (rec_status_is_generated P r Hi))). Qed.
Print Assumptions C07_gen_termination_and_status_are_model.

Theorem C07_gen_loop_step_is_model : forall (P : alm_params (T:=R)) pb i (s : st (T:=R)) (r : inner_res (T:=R)),
  let err := err_of pb s r in
  s_Sigma (next P pb i s r) = g_call_update_penalty_weights P i err (s_err_old s) (g_norm_e err) (s_norm_old s) (s_Sigma s) /\
  s_eps (next P pb i s r) = g_next_tol P (s_eps s) /\
  s_fails (next P pb i s r) = (s_fails s + g_failure_increment (g_inner_converged (ir_status r)))%nat /\
  it_y (mkrec P pb i s r) = proj_multipliers (pb_split pb) (pb_lb pb) (pb_ub pb) (g_proj_bound P) (s_y s).
Proof. exact next_is_generated. Qed.
Print Assumptions C07_gen_loop_step_is_model.

Theorem C07_gen_initial_state_is_model : forall (P : alm_params (T:=R)) pb f0 g0 nanv Σ0 y0,
  s_Sigma (init_state P pb f0 g0 nanv Σ0 y0) = g_initial_sigma P (pb_m pb) f0 g0 Σ0 /\
  s_eps (init_state P pb f0 g0 nanv Σ0 y0) = g_initial_tol P.
Proof. exact init_state_is_generated. Qed.
Print Assumptions C07_gen_initial_state_is_model.

(* clock expressions of alm.tpp (durations as integers): the budget handed to the inner solver is in [0, max(max_time,0)] *)
Theorem C07_gen_time_remaining : forall elapsed max_time : Z, (0 <= elapsed)%Z ->
  (0 <= g_time_remaining elapsed max_time <= Z.max max_time 0)%Z /\
  ((elapsed < max_time)%Z -> g_time_remaining elapsed max_time = (max_time - elapsed)%Z) /\
  ((max_time <= elapsed)%Z -> g_time_remaining elapsed max_time = 0%Z).
Proof. exact gen_time_remaining_spec. Qed.
Print Assumptions C07_gen_time_remaining.

Theorem C07_gen_out_of_time : forall elapsed max_time : Z,
  g_out_of_time elapsed max_time = true <-> (max_time < elapsed)%Z.
Proof. exact gen_out_of_time_spec. Qed.
Print Assumptions C07_gen_out_of_time.

(* InnerSolveOptions initialisers as written in alm.tpp (loop and m = 0 shortcut) *)
From Coq Require Import String.
Local Open Scope string_scope.
Theorem C07_gen_inner_options :
  (has "always_overwrite_results" "true" g_opts_loop && has "max_time" "time_remaining" g_opts_loop &&
   has "tolerance" "ε" g_opts_loop && has "outer_iter" "i" g_opts_loop && has "check" "false" g_opts_loop = true) /\
  (has "always_overwrite_results" "true" g_opts_m0 && has "max_time" "params.max_time" g_opts_m0 &&
   has "tolerance" "params.tolerance" g_opts_m0 && has "check" "false" g_opts_m0 = true).
Proof. exact (conj gen_opts_loop_spec gen_opts_m0_spec). Qed.
Print Assumptions C07_gen_inner_options.

(* ALMSolver::stop() as written in outer/alm.hpp sets ALM's own flag and forwards to the inner solver; the generated read of the flag
   (`bool interrupted = stop_signal.stop_requested();`, which the translator requires to sit after the inner solve and after the
   Interrupted-inner return, before the exit test) is the flag itself *)
Theorem C07_gen_stop_sets_own_flag_and_forwards :
  (existsb (fun kv => String.eqb (fst kv) "stop_signal.stop()") g_stop_body &&
   existsb (fun kv => String.eqb (fst kv) "inner_solver.stop()") g_stop_body = true) /\
  (forall flag : bool, g_interrupted flag = flag).
Proof. exact (conj gen_stop_body_spec gen_interrupted_eq). Qed.
Print Assumptions C07_gen_stop_sets_own_flag_and_forwards.
Local Close Scope string_scope.

(* ---- (12) G5: the five shipped InnerStatsAccumulator operator+= bodies (coq/gen/StatsAcc.v): every final_* field keeps the
        last value, every other field is summed, and every Stats field except status and ε is accumulated exactly once ---- *)
Theorem C07_stats_accumulators_are_sums : 
  List.length acc_all = 5%nat /\
  forallb (fun e => let '(_, t, fields) := e in
                    acc_table_ok t && acc_complete t fields && negb (Nat.eqb (List.length t) 0)) acc_all = true.
Proof. exact stats_accumulators_ok. Qed.
Print Assumptions C07_stats_accumulators_are_sums.


(* ---- (13) the invariants hold for every COMPOSED run: ALMSolver<InnerSolverT>::operator() with the inner solver in the loop.
        AlmCompose.c_run is the outer loop calling an inner solver given as an ARBITRARY function (of the world it threads, the outer index,
        x, the projected y, Σ, the tolerance and the err_z buffer); its trace and final statistics ARE alm_run on the script of outcomes that
        run produced (AlmComposeProofs.c_run_spec), so (1), (2), (2'), (2''), (4), (5), (6) above hold for it — for PANOC, ZeroFPR, PANTR,
        FISTA and for the shipped provider stacks alike.  In addition the inner solver is never asked for more than it delivered, and every
        record of the trace is one call of the inner solver on exactly the data the record shows (calls chained through x and the world). ---- *)
From Alpaqa Require Import AlmCompose AlmComposeProofs AlmComposeC07.
Theorem C07_composed_run_satisfies_alm_invariants :
  forall (W Lg : Type) (inner : W -> nat -> list R -> list R -> list R -> R -> list R -> option (inner_res (T:=R) * list R * Lg * W))
         (P : alm_params (T:=R)) (pb : alm_problem (T:=R)) fuel f0 g0 nanv Σ0 y0 x0 w0 co,
  c_run W Lg inner P pb fuel f0 g0 nanv Σ0 y0 x0 w0 = Some co ->
  let tr := co_trace co in
  let f := co_final co in
  let S0 := initial_sigma P (pb_m pb) f0 g0 Σ0 in
  ((* penalties: positive, of the right size, never decreasing, capped by max(initial, max_penalty) — by max_penalty if the initial ones are *)
   ((List.length S0 = pb_m pb /\ Forall (fun x => 0 < x) S0 /\ (p_single P = true -> uniform S0)) ->
      Forall (fun r => Forall (fun x => 0 < x) (it_Sigma r) /\ List.length (it_Sigma r) = pb_m pb) tr /\
      chain (fun a b => Forall2 Rle (it_Sigma a) (it_Sigma b)) tr /\
      Forall (fun r => Forall2 Rle (it_Sigma r) (map (fun s0 => Rmax s0 (p_max_pen P)) S0)) tr /\
      (Forall (fun x => x <= p_max_pen P) S0 -> Forall (fun r => Forall (fun x => x <= p_max_pen P) (it_Sigma r)) tr)) /\
   (* multipliers handed to the inner solver: within ±max_multiplier, sign allowed by one-sided constraints, zero on penalty-only rows *)
   (0 <= p_M P -> List.length (pb_ub pb) = pb_m pb -> List.length y0 = pb_m pb ->
      Forall (fun r =>
                List.length (it_y r) = pb_m pb /\
                forall k, (k < pb_m pb)%nat ->
                  let v := nth k (it_y r) 0 in
                  - p_M P <= v <= p_M P /\
                  ((k < pb_split pb)%nat -> v = 0) /\
                  (nth k (pb_lb pb) None = None -> 0 <= v) /\
                  (nth k (pb_ub pb) None = None -> v <= 0)) tr) /\
   (* inner tolerances: never below the final tolerance, non-increasing, ε⁺ = max(ρ ε, tolerance) *)
   (0 <= p_rho P <= 1 -> p_tol P <= p_init_tol P -> 0 <= p_init_tol P ->
      Forall (fun r => p_tol P <= it_tol r) tr /\
      chain (fun a b => it_tol b <= it_tol a /\ it_tol b = Rmax (p_rho P * it_tol a) (p_tol P)) tr) /\
   (* at most max_iter outer iterations = number of inner solves, numbered 0, 1, …; statistics are the sums over exactly those solves *)
   ((f_outer f <= Alm.p_max_iter P)%nat /\ f_outer f = List.length tr /\
    map it_i tr = seq 0 (List.length tr) /\
    f_iters f = fold_right Nat.add 0%nat (map (fun r => ir_iters (it_res r)) tr) /\
    f_fails f = List.length (filter (fun r => negb (is_converged (ir_status (it_res r)))) tr))) /\
  f_exhausted f = false /\
  called W Lg inner x0 w0 tr (co_x co) (co_w co).
Proof. exact compose_alm_invariants. Qed.
Print Assumptions C07_composed_run_satisfies_alm_invariants.

(* the statement above is `alm_invariants` *)
Theorem C07_alm_invariants_unfolds : forall (P : alm_params (T:=R)) (pb : alm_problem (T:=R)) f0 g0 Σ0 y0 tr f,
  alm_invariants P pb f0 g0 Σ0 y0 tr f <->
  (let S0 := initial_sigma P (pb_m pb) f0 g0 Σ0 in
   ((List.length S0 = pb_m pb /\ Forall (fun x => 0 < x) S0 /\ (p_single P = true -> uniform S0)) ->
      Forall (fun r => Forall (fun x => 0 < x) (it_Sigma r) /\ List.length (it_Sigma r) = pb_m pb) tr /\
      chain (fun a b => Forall2 Rle (it_Sigma a) (it_Sigma b)) tr /\
      Forall (fun r => Forall2 Rle (it_Sigma r) (map (fun s0 => Rmax s0 (p_max_pen P)) S0)) tr /\
      (Forall (fun x => x <= p_max_pen P) S0 -> Forall (fun r => Forall (fun x => x <= p_max_pen P) (it_Sigma r)) tr)) /\
   (0 <= p_M P -> List.length (pb_ub pb) = pb_m pb -> List.length y0 = pb_m pb ->
      Forall (fun r =>
                List.length (it_y r) = pb_m pb /\
                forall k, (k < pb_m pb)%nat ->
                  let v := nth k (it_y r) 0 in
                  - p_M P <= v <= p_M P /\
                  ((k < pb_split pb)%nat -> v = 0) /\
                  (nth k (pb_lb pb) None = None -> 0 <= v) /\
                  (nth k (pb_ub pb) None = None -> v <= 0)) tr) /\
   (0 <= p_rho P <= 1 -> p_tol P <= p_init_tol P -> 0 <= p_init_tol P ->
      Forall (fun r => p_tol P <= it_tol r) tr /\
      chain (fun a b => it_tol b <= it_tol a /\ it_tol b = Rmax (p_rho P * it_tol a) (p_tol P)) tr) /\
   ((f_outer f <= Alm.p_max_iter P)%nat /\ f_outer f = List.length tr /\
    map it_i tr = seq 0 (List.length tr) /\
    f_iters f = fold_right Nat.add 0%nat (map (fun r => ir_iters (it_res r)) tr) /\
    f_fails f = List.length (filter (fun r => negb (is_converged (ir_status (it_res r)))) tr))).
Proof. intros. reflexivity. Qed.
Print Assumptions C07_alm_invariants_unfolds.

(* ---- (14) instance: the library's DEFAULT STACK ALMSolver<PANOCSolver<LBFGSDirection>> (composed model AlmPanocDir.alm_panoc_dir with
        Directions.lbfgs_dir; every LBFGSParams, any provider state d0, every problem / provider mix / stop / clock oracle, no hypothesis on
        the problem functions): every completed run satisfies the ALM invariants for the user's constraint box D and penalty_alm_split,
        and every record of its trace is one whole PANOC solve (AlmPanocDir.dinner) with the L-BFGS provider state handed on. ---- *)
From Alpaqa Require Import AugLag Panoc Lbfgs Directions PanocDir AlmPanoc AlmPanocDir.
Theorem C07_alm_panoc_lbfgs_run_satisfies_alm_invariants :
  forall (Pb : problem (T:=R)) (prov : fn -> bool) (wm_supplied : list R -> list R) (Clb Cub : list (option R)) (l1 : list R)
    (split n : nat) (pw : R -> R -> R) (LP : Lbfgs.params R) (rescale : bool) (stop_req time_up : counters -> bool)
    (outer_oot : nat -> bool) (PP : Panoc.params (T:=R)) (AP : alm_params (T:=R)) (ls_fuel inner_fuel : nat)
    (d0 : Lbfgs.state R) (outer_fuel : nat) (nanv : R) (Σ0 : option (list R)) (y0 x0 : list R)
    (co : cout (counters * Lbfgs.state R) (resultD (Lbfgs.state R))),
  alm_panoc_dir Pb prov wm_supplied Clb Cub l1 split (Lbfgs.state R) (lbfgs_dir n pw LP rescale) stop_req time_up outer_oot PP AP
                ls_fuel inner_fuel d0 outer_fuel nanv Σ0 y0 x0 = Some co ->
  alm_invariants AP (pb_of Pb split) (pf Pb x0) (pg Pb x0) Σ0 y0 (co_trace co) (co_final co) /\
  f_exhausted (co_final co) = false /\
  called (counters * Lbfgs.state R) (resultD (Lbfgs.state R))
         (dinner Pb prov wm_supplied Clb Cub l1 (Lbfgs.state R) (lbfgs_dir n pw LP rescale) stop_req time_up outer_oot PP ls_fuel inner_fuel)
         x0 (cnt0, d0) (co_trace co) (co_x co) (co_w co).
Proof.
  intros Pb prov wm Clb Cub l1 split n pw LP rescale stop_req time_up outer_oot PP AP ls_fuel inner_fuel d0 outer_fuel nanv Σ0 y0 x0 co.
  exact (compose_alm_invariants _ _ _ AP (pb_of Pb split) outer_fuel (pf Pb x0) (pg Pb x0) nanv Σ0 y0 x0 (cnt0, d0) co).
Qed.
Print Assumptions C07_alm_panoc_lbfgs_run_satisfies_alm_invariants.

(* ---- (15) instance: the SHIPPED PANTR STACK ALMSolver<PANTRSolver<NewtonTRDirection>> (composed model AlmPantrDir.alm_pantr_dir with
        DirectionsTR.newton_tr_dir over Steihaug.cg_solve; every NewtonTRDirectionParams / SteihaugCGParams, exact Hessian products or finite
        differences, arbitrary eval_grad_ψ / eval_hess_ψ_prod members, any provider state d0, every problem / provider mix / stop / clock
        oracle, no hypothesis on the problem functions): every completed run satisfies the ALM invariants for the user's constraint box D
        and penalty_alm_split, and every record of its trace is one whole PANTR solve (AlmPantrDir.tdinner) with the provider object handed
        on.  Immediate from AlmComposeC07.compose_alm_invariants. ---- *)
From Alpaqa Require Import Pantr Steihaug DirectionsTR PantrDir AlmPantr AlmPantrDir.
Theorem C07_alm_pantr_newtontr_run_satisfies_alm_invariants :
  forall (Pb : problem (T:=R)) (prov : fn -> bool) (wm_supplied : list R -> list R) (Clb Cub : list (option R)) (l1 : list R)
    (split : nat) (dlb dub : list (option R)) (dl1 : list R) (prov_inactive prov_hess_L prov_hess_psi m_is_zero : bool)
    (grad_psi_at : list R -> list R -> list R -> list R) (hess_psi_prod : list R -> list R -> list R -> R -> list R -> list R)
    (hvf : R) (fd : bool) (fd_step cg_ts cg_tsr : R) (cg_tmax : option R) (cg_max_iter : nat -> Z) (eps_mach : R)
    (stop_req time_up : counters -> bool) (outer_oot : nat -> bool) (TP : trparams (T:=R)) (AP : alm_params (T:=R)) (bt_fuel inner_fuel : nat)
    (d0 : ntrstate R) (outer_fuel : nat) (nanv : R) (Σ0 : option (list R)) (y0 x0 : list R)
    (co : cout (counters * ntrstate R) (tresultD (T:=R) (ntrstate R))),
  let ntr := newton_tr_dir dlb dub dl1 prov_inactive prov_hess_L prov_hess_psi m_is_zero grad_psi_at hess_psi_prod
                           hvf fd fd_step cg_ts cg_tsr cg_tmax cg_max_iter eps_mach in
  alm_pantr_dir Pb prov wm_supplied Clb Cub l1 split (ntrstate R) ntr stop_req time_up outer_oot TP AP
                bt_fuel inner_fuel d0 outer_fuel nanv Σ0 y0 x0 = Some co ->
  alm_invariants AP (pb_of Pb split) (pf Pb x0) (pg Pb x0) Σ0 y0 (co_trace co) (co_final co) /\
  f_exhausted (co_final co) = false /\
  called (counters * ntrstate R) (tresultD (T:=R) (ntrstate R))
         (tdinner Pb prov wm_supplied Clb Cub l1 (ntrstate R) ntr stop_req time_up outer_oot TP bt_fuel inner_fuel)
         x0 (cnt0, d0) (co_trace co) (co_x co) (co_w co).
Proof.
  intros Pb prov wm Clb Cub l1 split dlb dub dl1 b1 b2 b3 b4 f1 f2 hvf fd fs ts tsr tm mi em stop_req time_up outer_oot TP AP bt_fuel inner_fuel
         d0 outer_fuel nanv Σ0 y0 x0 co ntr.
  exact (compose_alm_invariants _ _ _ AP (pb_of Pb split) outer_fuel (pf Pb x0) (pg Pb x0) nanv Σ0 y0 x0 (cnt0, d0) co).
Qed.
Print Assumptions C07_alm_pantr_newtontr_run_satisfies_alm_invariants.
