(* LoopSkeleton.v — iteration / no-progress bookkeeping common to the five solver loops (C06, C19):
   every loop has the shape   k := 0; loop { ε_k := …; st := chain(…, k, …); if st ≠ Busy return (k, st); …; k++ }.
   The per-iteration observations (ε, time exceeded, stop requested, iterate unchanged) are an arbitrary oracle. *)
From Coq Require Import List ZArith Bool Arith Lia.
From Alpaqa Require Import Num SolverStatus SolverKernels StopChain StopChainProofs.
Import ListNotations.

Section Skeleton.
  Context {T : Type} `{Num T}.
  Variable opts_tol : T.
  Variable max_iter max_no_progress : nat.
  (* observations at iteration k *)
  Variable eps_at : nat -> T.
  Variable time_exceeded_at stop_requested_at same_at : nat -> bool.

  (* state: (k, no_progress); None = the C++ divides by zero (max_no_progress = 0) *)
  Fixpoint run (fuel k np : nat) : option (nat * status) :=
    let st := stop_status_helpers opts_tol (eps_at k) (time_exceeded_at k) k max_iter np max_no_progress (stop_requested_at k) in
    match st with
    | StBusy =>
        match fuel with
        | O => Some (k, StBusy)                       (* out of fuel: reported as Busy, excluded by the theorems *)
        | S fuel' =>
            match no_progress_update np k max_no_progress (same_at k) with
            | None => None
            | Some np' => run fuel' (S k) np'
            end
        end
    | _ => Some (k, st)
    end.

  Lemma run_iterations_le_max fuel k np r st :
    (k <= max_iter)%nat -> run fuel k np = Some (r, st) -> (r <= max_iter)%nat /\ (st = StMaxIter -> r = max_iter).
  Proof.
    revert k np. induction fuel as [|fuel IH]; intros k np Hk; cbn [run].
    - destruct (stop_status_helpers _ _ _ _ _ _ _ _) eqn:E; intros Hr; inversion Hr; subst; split; auto; try discriminate.
      intros _. now apply maxiter_only_at_limit in E.
    - destruct (stop_status_helpers _ _ _ _ _ _ _ _) eqn:E.
      2-8: intros Hr; inversion Hr; subst; split; auto; try discriminate;
           intros _; now apply maxiter_only_at_limit in E.
      apply busy_iff in E. destruct E as (_ & _ & Hne & _).
      destruct (no_progress_update np k max_no_progress (same_at k)); [|discriminate].
      apply IH. lia.
  Qed.

  (* starting at k = 0 with a large enough fuel the loop always returns a final status by iteration max_iter *)
  Lemma run_terminates k np : (k <= max_iter)%nat ->
    forall fuel, (max_iter - k <= fuel)%nat -> exists r st, run fuel k np = Some (r, st) /\ st <> StBusy.
  Proof.
    intros Hk fuel. revert k np Hk. induction fuel as [|fuel IH]; intros k np Hk Hf; cbn [run].
    - assert (k = max_iter) by lia. subst k.
      destruct (stop_status_helpers _ _ _ _ _ _ _ _) eqn:E; try (eexists; eexists; split; [reflexivity|discriminate]).
      apply busy_iff in E. destruct E as (_ & _ & Hne & _). contradiction.
    - destruct (stop_status_helpers _ _ _ _ _ _ _ _) eqn:E; try (eexists; eexists; split; [reflexivity|discriminate]).
      apply busy_iff in E. destruct E as (_ & _ & Hne & _).
      assert (Hnp : exists np', no_progress_update np k max_no_progress (same_at k) = Some np').
      { unfold no_progress_update. destruct (0 <? np)%nat; [eauto|]. destruct max_no_progress; [eauto|].
        destruct (_ =? 0)%nat; eauto. }
      destruct Hnp as (np' & ->). apply IH; lia.
  Qed.
End Skeleton.

(* the no-progress counter only grows on an unchanged iterate, by exactly one; any change resets it *)
Lemma np_update_spec np k m same np' :
  no_progress_update np k m same = Some np' ->
  (np' = S np /\ same = true) \/ (np' = 0%nat /\ same = false) \/ (np' = np /\ np = 0%nat).
Proof.
  unfold no_progress_update. destruct (Nat.ltb_spec 0 np).
  - destruct same; intros E; inversion E; auto.
  - destruct m; [destruct same; intros E; inversion E; auto|]. destruct (_ =? 0)%nat.
    + destruct same; intros E; inversion E; auto.
    + intros E; inversion E. right; right. split; lia.
Qed.
Lemma np_positive_means_unchanged np k m same np' :
  no_progress_update np k m same = Some np' -> (0 < np')%nat -> same = true /\ np' = S np.
Proof. intros E Hp. destruct (np_update_spec _ _ _ _ _ E) as [[? ?]|[[? ?]|[? ?]]]; subst; auto; lia. Qed.
(* the update is defined for every max_no_progress, including 0 (every iteration is sampled then) *)
Lemma np_update_defined np k m same : exists np', no_progress_update np k m same = Some np'.
Proof.
  unfold no_progress_update. destruct (0 <? np)%nat; [eauto|]. destruct m; [eauto|]. destruct (_ =? 0)%nat; eauto.
Qed.
Lemma np_update_zero_limit np k same :
  no_progress_update np k 0 same = Some (if same then S np else 0%nat).
Proof. unfold no_progress_update. destruct (0 <? np)%nat; reflexivity. Qed.

(* A stop request observed at the check of iteration k ends the run there: the loop never proceeds past a requested stop,
   and the status is Interrupted unless a higher-ranked condition holds at the same check. (C19) *)
Section StopSkeleton.
  Context {T : Type} `{Num T}.
  Variable opts_tol : T.
  Variable max_iter max_no_progress : nat.
  Variable eps_at : nat -> T.
  Variable time_exceeded_at stop_requested_at same_at : nat -> bool.

  Lemma run_stops_at_request fuel k np :
    stop_requested_at k = true ->
    exists st, run opts_tol max_iter max_no_progress eps_at time_exceeded_at stop_requested_at same_at fuel k np = Some (k, st)
               /\ st <> StBusy
               /\ (st = StInterrupted \/ st = StConverged \/ st = StMaxTime \/ st = StMaxIter \/ st = StNotFinite \/ st = StNoProgress).
  Proof.
    intros Hs. destruct fuel; cbn [run]; rewrite Hs;
    pose proof (stop_request_never_busy opts_tol (eps_at k) (time_exceeded_at k) k max_iter np max_no_progress) as Hnb;
    destruct (stop_status_helpers opts_tol (eps_at k) (time_exceeded_at k) k max_iter np max_no_progress true) eqn:E;
    try contradiction; try (eexists; split; [reflexivity|split; [discriminate|tauto]]).
    all: exfalso; revert E; unfold stop_status_helpers; cbv zeta;
      destruct (nleb _ _), (time_exceeded_at k), (Nat.eqb k max_iter), (negb (nfinite (eps_at k))), (Nat.ltb max_no_progress np); discriminate.
  Qed.

  (* Interrupted is only ever returned at an iteration whose check saw the request *)
  Lemma run_interrupted_only_after_request fuel k np r :
    run opts_tol max_iter max_no_progress eps_at time_exceeded_at stop_requested_at same_at fuel k np = Some (r, StInterrupted) ->
    stop_requested_at r = true.
  Proof.
    revert k np. induction fuel as [|fuel IH]; intros k np; cbn [run];
      destruct (stop_status_helpers _ _ _ _ _ _ _ _) eqn:E; intros Hr; inversion Hr; subst;
      try (now apply interrupted_only_if_requested in E).
    destruct (no_progress_update np k max_no_progress (same_at k)); [|discriminate].
    eapply IH; eassumption.
  Qed.
End StopSkeleton.
