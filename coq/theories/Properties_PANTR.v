(* Properties_PANTR.v — loop invariants of the WHOLE PANTR solver loop (Pantr.pantr = PANTRSolver::operator()), over R, for every
   problem oracle, every trust-region direction (oracle returning q and q_model), every stop / clock oracle and every parameter
   set.  Only `exact` + Print Assumptions here; proofs in PantrProofs.v.  The whole-run correspondence (Corr_PANTR.chkpantr,
   lib/vf/props/PANTR.py) ties Pantr.pantr at binary64 to the real solver. *)
From Coq Require Import Reals List ZArith Bool Lra.
From Flocq Require Import Raux.
From Alpaqa Require Import Num NumR Vec Prox ProxProofs SolverStatus SolverKernels SolverKernelsProofs DescentProofs
                           StopChain StopChainProofs KktProofs Panoc PanocProofs ZeroFpr ZeroFprProofs Pantr PantrProofs.
Import ListNotations.
Local Open Scope R_scope.

Section PANTR.
  Variable psi_grad_full : list R -> R * list R * list R.   (* eval_ψ_grad_ψ *)
  Variable psi_yhat : list R -> R * list R.                 (* eval_ψ: (ψ, ŷ) *)
  Variable grad_L : list R -> list R -> list R.             (* eval_grad_L *)
  Variable grad_psi : list R -> list R.                     (* eval_grad_ψ (initial Lipschitz estimate) *)
  Variables (lb ub : list (option R)) (l1 : list R).
  Variable tr_apply : nat -> iterate (T:=R) -> R -> list R * R.   (* direction.apply: (q, q_model) *)
  Variable has_initial : bool.
  Variable stop_req : counters -> bool.
  Variable time_up : counters -> bool.
  Variable TP : trparams (T:=R).
  Variables (x_in y_in Σ errz_in : list R).
  Variable bt_fuel : nat.

  Notation P := (tp_base TP).
  Notation run := (pantr psi_grad_full psi_yhat grad_L grad_psi lb ub l1 tr_apply has_initial stop_req time_up TP x_in y_in Σ errz_in bt_fuel).
  Notation step := (tpass psi_grad_full psi_yhat grad_L lb ub l1 tr_apply has_initial stop_req time_up TP x_in y_in Σ errz_in bt_fuel).
  Notation Consistent := (tconsistent psi_grad_full psi_yhat grad_L lb ub l1).
  Notation Reachable := (reachable psi_grad_full psi_yhat grad_L grad_psi lb ub l1 tr_apply has_initial stop_req time_up TP x_in y_in Σ errz_in bt_fuel).
  Notation Glrel0 := (glrel0 psi_grad_full grad_psi P x_in).
  Notation Qub_ok := (qub_ok P).
  Notation Rec_ok := (trec_ok psi_grad_full psi_yhat grad_L grad_psi lb ub l1 TP x_in).
  Notation Linit := (L_init psi_grad_full grad_psi P x_in).

  (* at EVERY stop check: the current iterate is consistent, satisfies the QUB test or has L >= L_max, (γ, L) from the initial pair by
     halvings only, k <= max_iter, and the trust radius is at least min_radius *)
  Theorem PANTR_invariant_at_every_stop_check : forall s, Reachable s ->
    Consistent (ts_curr s) /\ Qub_ok (ts_curr s) /\ Glrel0 (ts_curr s) /\ (ts_k s <= p_max_iter P)%nat /\ tp_min_radius TP <= ts_delta s.
  Proof. exact (reachable_check psi_grad_full psi_yhat grad_L grad_psi lb ub l1 tr_apply has_initial stop_req time_up TP x_in y_in Σ errz_in bt_fuel). Qed.

  Theorem PANTR_consistent_means : forall i : iterate (T:=R), Consistent i ->
    (ipsi i, igrad i) = psi_grad psi_grad_full (ix i) /\
    ixh i = vadd (ix i) (ip i) /\
    eval_prox_grad_step lb ub l1 (igam i) (ix i) (igrad i) = (ixh i, ip i, ih i) /\
    ipp i = vsqnorm (ip i) /\ igp i = vdot (ip i) (igrad i) /\
    (ipsih i, iyh i) = psi_yhat (ixh i).
  Proof. exact (tconsistent_explicit psi_grad_full psi_yhat grad_L grad_psi lb ub l1 tr_apply has_initial stop_req time_up TP x_in y_in Σ errz_in bt_fuel). Qed.

  (* one completed iteration: either the fall-back forward-backward step x̂ₖ, or an accepted TR step — then q_model < 0, the reported ρ
     is the ratio of the FBS iterate at x̂ₖ and the candidate, and it passed the acceptance threshold; γ only halves *)
  Theorem PANTR_step : forall s s', Reachable s -> step s = TCont s' ->
    ts_k s' = S (ts_k s) /\ halved (ts_curr s) (ts_curr s') /\
    (ts_acc s' = false -> ix (ts_curr s') = ixh (ts_curr s)) /\
    (ts_acc s' = true -> exists (px cd : iterate (T:=R)) (qm : R),
        tcons_x psi_grad_full px /\ cons_step lb ub l1 px /\ ix px = ixh (ts_curr s) /\ gl_of px = gl_of (ts_curr s) /\
        qm < 0 /\
        ts_rho s' = Some (tr_ratio (tp_ratio_approx TP) (it_fbe px) (it_fbe cd) qm (tp_tr_tol TP) (p_Lgamma P)) /\
        tp_thr_acc TP <= tr_ratio (tp_ratio_approx TP) (it_fbe px) (it_fbe cd) qm (tp_tr_tol TP) (p_Lgamma P) /\
        ix (ts_curr s') = ix cd /\ halved cd (ts_curr s') /\ halved px cd /\
        (tp_ratio_new_step TP = true -> ts_curr s' = cd)).
  Proof. exact (reachable_step psi_grad_full psi_yhat grad_L grad_psi lb ub l1 tr_apply has_initial stop_req time_up TP x_in y_in Σ errz_in bt_fuel). Qed.

  (* ... and a passed ratio test means the envelope did not increase (margin of the code) *)
  Theorem PANTR_accepted_step_nonincrease : forall φp φc qm : R, qm < 0 -> 0 <= tp_thr_acc TP -> p_Lgamma P < 1 ->
    tp_thr_acc TP <= tr_ratio (tp_ratio_approx TP) φp φc qm (tp_tr_tol TP) (p_Lgamma P) ->
    φc <= φp + (1 + Rabs φp) * tp_tr_tol TP.
  Proof. exact (accept_nonincrease psi_grad_full psi_yhat grad_L grad_psi lb ub l1 tr_apply has_initial stop_req time_up TP x_in y_in Σ errz_in bt_fuel). Qed.

  Theorem PANTR_gamma_times_L : forall i : iterate (T:=R), Linit <> 0 -> Glrel0 i -> igam i * iL i = p_Lgamma P.
  Proof. exact (glrel0_product_factor psi_grad_full psi_yhat grad_L grad_psi lb ub l1 (fun _ _ => None) has_initial stop_req time_up (tp_base TP) x_in y_in Σ errz_in bt_fuel). Qed.
  Theorem PANTR_gamma_nonincreasing : forall a b : iterate (T:=R), halved a b -> 0 < igam a -> 0 < igam b <= igam a.
  Proof. exact (halved_nonincreasing psi_grad_full psi_yhat grad_L grad_psi lb ub l1 (fun _ _ => None) has_initial stop_req time_up (tp_base TP) x_in y_in Σ errz_in bt_fuel). Qed.
  Theorem PANTR_qub_or_Lmax : forall i : iterate (T:=R), Qub_ok i ->
    p_Lmax P <= iL i \/ ipsih i <= ipsi i + igp i + 1 / 2 * iL i * ipp i + (1 + Rabs (ipsi i)) * p_qub_tol P.
  Proof. exact (qub_ok_explicit psi_grad_full psi_yhat grad_L grad_psi lb ub l1 (fun _ _ => None) has_initial stop_req time_up (tp_base TP) x_in y_in Σ errz_in bt_fuel). Qed.

  (* every progress-callback record: consistent iterate, QUB-or-Lmax, k <= max_iter; Busy records: Δ >= min_radius, accepted => ρ >= threshold *)
  Theorem PANTR_records : forall fuel o, run fuel = TDone o -> Forall Rec_ok (to_log o).
  Proof. exact (pantr_records psi_grad_full psi_yhat grad_L grad_psi lb ub l1 tr_apply has_initial stop_req time_up TP x_in y_in Σ errz_in bt_fuel). Qed.

  (* PANTR never updates its no-progress counter: NoProgress cannot be returned *)
  Theorem PANTR_status_clauses : forall fuel o, run fuel = TDone o ->
    (to_iterations o <= p_max_iter P)%nat /\
    to_status o <> StBusy /\ to_status o <> StNoProgress /\
    (to_status o = StMaxIter -> to_iterations o = p_max_iter P) /\
    (to_status o = StConverged <-> to_eps o <= eff_tol (o_tol P)) /\
    (to_status o = StInterrupted -> exists c, stop_req c = true) /\
    (to_status o = StMaxTime -> exists c, time_up c = true).
  Proof. exact (pantr_status_clauses psi_grad_full psi_yhat grad_L grad_psi lb ub l1 tr_apply has_initial stop_req time_up TP x_in y_in Σ errz_in bt_fuel). Qed.

  Theorem PANTR_exit : forall fuel o, run fuel = TDone o ->
    exists cf : iterate (T:=R), Consistent cf /\ Qub_ok cf /\ Glrel0 cf /\
      (exists gh, (crit_needs_gradh (p_crit P) = true -> gh = grad_L (ixh cf) (iyh cf)) /\
                  to_eps o = crit_eps (p_crit P) lb ub l1 (ip cf) (igam cf) (ix cf) (ixh cf) (iyh cf) (igrad cf) gh) /\
      (overwrites (to_status o) (o_always P) = true ->
         to_x o = ixh cf /\ ixh cf = vadd (ix cf) (ip cf) /\
         to_y o = iyh cf /\ iyh cf = snd (psi_yhat (to_x o)) /\
         to_errz o = match errz_in with [] => [] | _ => vdiv (vsub (to_y o) y_in) Σ end) /\
      (overwrites (to_status o) (o_always P) = false -> to_x o = x_in /\ to_y o = y_in /\ to_errz o = errz_in).
  Proof. exact (pantr_exit psi_grad_full psi_yhat grad_L grad_psi lb ub l1 tr_apply has_initial stop_req time_up TP x_in y_in Σ errz_in bt_fuel). Qed.

  (* inner_contract_pantr of DESIGN §4 / C01 *)
  Theorem PANTR_inner_contract : forall fuel o, run fuel = TDone o ->
    to_status o = StConverged -> p_crit P = ApproxKKT -> l1 = [] ->
    exists (x : list R) (γ : R),
      let grad := snd (psi_grad psi_grad_full x) in
      let step := proj_grad_step lb ub γ x grad in
      let gradh := grad_L (to_x o) (to_y o) in
      to_x o = fst (fst step) /\
      to_y o = snd (psi_yhat (to_x o)) /\
      to_errz o = match errz_in with [] => [] | _ => vdiv (vsub (to_y o) y_in) Σ end /\
      to_eps o = vnorminf (kkt_residual γ (snd (fst step)) grad gradh) /\
      to_eps o <= eff_tol (o_tol P) /\
      (0 < p_Lgamma P -> 0 < Linit -> 0 < γ) /\
      (Linit <> 0 -> exists L, γ * L = p_Lgamma P).
  Proof. exact (pantr_inner_contract psi_grad_full psi_yhat grad_L grad_psi lb ub l1 tr_apply has_initial stop_req time_up TP x_in y_in Σ errz_in bt_fuel). Qed.
End PANTR.

Theorem PANTR_contract_gives_stationarity : forall lb ub γ (x grad gradh : list R) (tol : R) n,
  0 < γ -> length lb = n -> length ub = n -> length x = n -> length grad = n -> length gradh = n ->
  (forall i, (i < n)%nat -> box_ne (nth i lb None) (nth i ub None)) ->
  let step := proj_grad_step lb ub γ x grad in
  let xh := fst (fst step) in let p := snd (fst step) in
  vnorminf (kkt_residual γ p grad gradh) <= tol ->
  forall i, (i < n)%nat ->
    exists r, (forall u, in_box (nth i lb None) (nth i ub None) u -> r * (u - nth i xh 0) <= 0) /\
              Rabs (- nth i gradh 0 - r) <= tol.
Proof. exact approx_kkt_stationarity. Qed.

Print Assumptions PANTR_invariant_at_every_stop_check.
Print Assumptions PANTR_consistent_means.
Print Assumptions PANTR_step.
Print Assumptions PANTR_accepted_step_nonincrease.
Print Assumptions PANTR_gamma_times_L.
Print Assumptions PANTR_gamma_nonincreasing.
Print Assumptions PANTR_qub_or_Lmax.
Print Assumptions PANTR_records.
Print Assumptions PANTR_status_clauses.
Print Assumptions PANTR_exit.
Print Assumptions PANTR_inner_contract.
Print Assumptions PANTR_contract_gives_stationarity.

(* non-vacuity: `run fuel = TDone o` is satisfiable over R (constant oracles, max_iter = 0) *)
Definition nvt_P : params (T:=R) := mkParams 0 10 1 (1/1000000) (1/1000000) (1/2) 1 1 ProjGradNorm 0 0 0 0 0 false false false false true 0.
Definition nvt_TP : trparams (T:=R) := mkTr nvt_P 0 (1/5) (4/5) (1/4) 1 2 (Some 1) (1/8) false true false true.
Definition nvt_run := pantr (T:=R) (fun _ => (0, [0], [])) (fun _ => (0, [])) (fun _ _ => [0]) (fun _ => [0]) [None] [None] []
                        (fun _ _ _ => ([0], 0)) false (fun _ => false) (fun _ => false) nvt_TP [0] [] [] [] 1 1.
Example PANTR_nonvacuous : exists o, nvt_run = TDone o /\ to_iterations o = 0%nat /\ to_status o <> StBusy.
Proof.
  unfold nvt_run, pantr, Pantr.P, init_L, nvt_TP, nvt_P. cbn [tp_base p_L0 fst snd psi_grad].
  change (@nleb R NumR 1 (@n0 R NumR)) with (Rle_bool 1 0).
  destruct (Rle_bool_spec 1 0) as [H|_]; [lra|].
  cbn [iL nfinite NumR negb]. unfold backtrack, Pantr.P, Pantr.ecost, Pantr.eprox. cbn [tp_base].
  cbv [eval_prox eval_cost set_gamma_L p_Lgamma iL igam ix igrad ixh ip iyh ipsi ipsih ipp igp ih ihave igradh
       eval_prox_grad_step proj_grad_step map5 proj_step1 clamp_hi clamp_lo osub option_map vadd map2 fst snd].
  cbn [ZeroFpr.init_qub iL p_Lmax]. change (@nltb R NumR 1 1) with (Rlt_bool 1 1).
  destruct (Rlt_bool_spec 1 1) as [H|_]; [lra|]. cbn [andb].
  cbn [tloop]. unfold tpass, Pantr.P. cbn [tp_base ts_curr ts_cnt ts_k p_max_iter p_max_no_progress o_tol p_crit crit_needs_gradh].
  unfold stop_status_helpers. cbn [Nat.eqb].
  match goal with |- context [if nleb ?a ?b then _ else _] => destruct (nleb a b) end.
  all: cbv [exit_block overwrites o_always ixh iyh]; eexists; split; [reflexivity|]; cbn [to_iterations to_status]; repeat split; try discriminate.
Qed.
