(* StopPromptPantr.v — C19 on the WHOLE-LOOP PANTR model (Pantr.v).  For every number system, oracle and parameter set.
   PANTR has no line search: the flag is polled ONCE per iteration, in check_all_stop_conditions.  So
     - a poll that sees the request returns at once: NO further oracle call, no direction call, *curr returned untouched;
     - a request that lands between two polls is seen after the iteration in progress has completed.  That iteration costs at most
       5 oracle calls + the step-size halvings of its (unpolled) backtrack_qub loops, 3 direction calls (initialize, apply, update),
       one callback (tpass_cont_adv) — this is the bound, it is not a constant: backtrack_qub is not polled. *)
From Coq Require Import List ZArith Bool Arith Lia.
From Alpaqa Require Import Num Vec Prox SolverStatus SolverKernels StopChain StopChainProofs Panoc ZeroFpr Pantr StopPrompt StopPromptZfpr.
Import ListNotations.

Section PromptT.
  Context {T : Type} `{Num T}.
  Local Open Scope num_scope.

  Variable psi_grad_full : list T -> T * list T * list T.
  Variable psi_yhat : list T -> T * list T.
  Variable grad_L : list T -> list T -> list T.
  Variable grad_psi : list T -> list T.
  Variables (lb ub : list (option T)) (l1 : list T).
  Variable tr_apply : nat -> iterate (T:=T) -> T -> list T * T.
  Variable has_initial : bool.
  Variable stop_req : counters -> bool.
  Variable time_up : counters -> bool.
  Variable TP : trparams (T:=T).
  Variables (x_in y_in Σ errz_in : list T).
  Variable bt_fuel : nat.

  Notation it := (iterate (T:=T)).
  Notation P := (tp_base TP).
  Notation tsT := (tstate (T:=T)).
  Notation bt := (ZeroFpr.init_qub psi_yhat lb ub l1 P bt_fuel).
  Notation tpass_ := (tpass psi_grad_full psi_yhat grad_L lb ub l1 tr_apply has_initial stop_req time_up TP x_in y_in Σ errz_in bt_fuel).
  Notation tloop_ := (tloop psi_grad_full psi_yhat grad_L lb ub l1 tr_apply has_initial stop_req time_up TP x_in y_in Σ errz_in bt_fuel).
  Notation pantr_ := (pantr psi_grad_full psi_yhat grad_L grad_psi lb ub l1 tr_apply has_initial stop_req time_up TP x_in y_in Σ errz_in bt_fuel).
  Notation initL := (init_L psi_grad_full grad_psi P x_in).

  Definition tneed : bool := crit_needs_gradh (p_crit P).
  Definition ttop_cnt (s : tsT) : counters := if tneed then inc_gl (ts_cnt s) else ts_cnt s.
  Definition ttop_gbuf (s : tsT) : list T := if tneed then grad_L (ixh (ts_curr s)) (iyh (ts_curr s)) else ts_gbuf s.
  Definition ttop_eps (s : tsT) : T :=
    let curr := ts_curr s in
    crit_eps (p_crit P) lb ub l1 (ip curr) (igam curr) (ix curr) (ixh curr) (iyh curr) (igrad curr) (ttop_gbuf s).
  Definition ttop_status (s : tsT) : status :=
    stop_status_helpers (o_tol P) (ttop_eps s) (time_up (ttop_cnt s)) (ts_k s) (Panoc.p_max_iter P) 0 (p_max_no_progress P)
                        (stop_req (ttop_cnt s)).
  Definition tpass_exit (s : tsT) (st : status) : toutputs (T:=T) :=
    let curr := ts_curr s in
    let k := ts_k s in
    let ε := ttop_eps s in
    let rec := mkTrec k curr (ttop_gbuf s) [] None None (ts_acc s) ε st in
    let c2 := inc_cb (inc_polls (ttop_cnt s)) in
    let '(xo, yo, eo) := exit_block st (o_always P) x_in y_in errz_in (ixh curr) (iyh curr) Σ in
    mkTout st k ε xo yo eo curr (ts_stats s) (rev (rec :: ts_log s)) c2.
  (* the Busy branch *)
  Definition tpass_busy (s : tsT) : tpass_result (T:=T) :=
    let curr := ts_curr s in
    let k := ts_k s in
    let c1 := inc_polls (ttop_cnt s) in
    let gbuf1 := if tneed then ttop_gbuf s else grad_L (ixh curr) (iyh curr) in
    let c2 := if tneed then c1 else inc_gl c1 in
    let gbuf2 := igrad (ts_prox s) in
    let prox := fbs_iterate psi_grad_full lb ub l1 curr (ts_prox s) gbuf1 in
    let c3 := inc_pg c2 in
    let c4 := if (k =? 0)%nat then inc_dir c3 else c3 in
    let accelerated := (0 <? k)%nat || has_initial in
    finish_iter psi_yhat lb ub l1 TP bt_fuel s curr prox gbuf2 (ttop_eps s) accelerated
                (tr_step psi_grad_full psi_yhat lb ub l1 tr_apply TP bt_fuel s prox c4 accelerated).

  Lemma tpass_eq (s : tsT) :
    tpass_ s = match ttop_status s with StBusy => tpass_busy s | st => TExit (tpass_exit s st) end.
  Proof.
    unfold tpass, ttop_status, tpass_exit, tpass_busy, ttop_eps, ttop_gbuf, ttop_cnt, tneed, Pantr.P. cbv zeta.
    match goal with |- context [stop_status_helpers ?a ?b ?c ?d ?e ?f ?g ?h] => destruct (stop_status_helpers a b c d e f g h) end;
      try reflexivity;
      match goal with |- context [exit_block ?a ?b ?c ?d ?e ?f ?g ?h] => destruct (exit_block a b c d e f g h) as [[xo yo] eo] end; reflexivity.
  Qed.

  Lemma tpass_exit_facts s st :
    let o := tpass_exit s st in
    to_status o = st /\ to_iterations o = ts_k s /\ to_eps o = ttop_eps s /\ to_stats o = ts_stats s /\
    to_cnt o = inc_cb (inc_polls (ttop_cnt s)) /\ to_final o = ts_curr s /\
    (overwrites st (o_always P) = true -> to_x o = ixh (ts_curr s) /\ to_y o = iyh (ts_curr s)) /\
    (overwrites st (o_always P) = false -> to_x o = x_in /\ to_y o = y_in /\ to_errz o = errz_in).
  Proof.
    unfold tpass_exit. cbv zeta. unfold exit_block.
    destruct (overwrites st (o_always P)); cbn [to_status to_iterations to_eps to_stats to_cnt to_final to_x to_y to_errz];
      repeat split; discriminate.
  Qed.

  (* the stop check that sees the request returns: status <> Busy, nothing evaluated after the poll *)
  Theorem tpass_exit_at_request s : stop_req (ttop_cnt s) = true ->
    tpass_ s = TExit (tpass_exit s (ttop_status s)) /\ ttop_status s <> StBusy /\ exit_statuses (ttop_status s) /\
    (ttop_status s = StInterrupted <->
       (nleb (ttop_eps s) (eff_tol (o_tol P)) = false /\ time_up (ttop_cnt s) = false /\ ts_k s <> Panoc.p_max_iter P /\
        nfinite (ttop_eps s) = true)).
  Proof.
    intros E. rewrite tpass_eq. unfold ttop_status. rewrite E.
    destruct (chain_with_request (o_tol P) (ttop_eps s) (time_up (ttop_cnt s)) (ts_k s) (Panoc.p_max_iter P) 0
                (p_max_no_progress P)) as (A & B & C).
    cbv zeta in A, B, C. split; [|split; [exact A|split; [exact B|]]].
    - destruct (stop_status_helpers _ _ _ _ _ _ _ true); [contradiction|reflexivity..].
    - rewrite C. split; [intros (C1 & C2 & C3 & C4 & _); repeat split; assumption|intros (C1 & C2 & C3 & C4); repeat split; try assumption; lia].
  Qed.

  (* the polls of a run: one per pass *)
  Inductive tpolled_from : tsT -> pollpt (T:=T) -> Prop :=
  | tpf_top s : tpolled_from s (mkPP (ttop_cnt s) (ts_curr s) (ts_k s))
  | tpf_next s s' pp : tpass_ s = TCont s' -> tpolled_from s' pp -> tpolled_from s pp.

  Definition tprompt_after (pp : pollpt (T:=T)) (o : toutputs (T:=T)) : Prop :=
    to_status o <> StBusy /\ exit_statuses (to_status o) /\
    to_cnt o = inc_cb (inc_polls (pp_cnt pp)) /\                   (* nothing but the final callback after the poll *)
    to_iterations o = pp_k pp /\ to_final o = pp_curr pp /\
    (overwrites (to_status o) (o_always P) = true -> to_x o = ixh (pp_curr pp) /\ to_y o = iyh (pp_curr pp)).

  Theorem tloop_stop_prompt : forall fuel s o, tloop_ fuel s = TDone o ->
    forall pp, tpolled_from s pp -> stop_req (pp_cnt pp) = true -> tprompt_after pp o.
  Proof.
    induction fuel as [|fuel IH]; intros s o Hr pp Hp Hs; [discriminate|]. cbn [tloop] in Hr.
    destruct Hp as [s|s s' pp Ep Hp'].
    - cbn [pp_cnt] in Hs. destruct (tpass_exit_at_request s Hs) as (Ep & B & C & _). rewrite Ep in Hr. inversion Hr; subst o.
      destruct (tpass_exit_facts s (ttop_status s)) as (F1 & F2 & F3 & F4 & F5 & F6 & F7 & F8). cbv zeta in *.
      unfold tprompt_after. cbn [pp_cnt pp_curr pp_k]. rewrite F1, F2, F5, F6. repeat split; try assumption; apply F7; assumption.
    - rewrite Ep in Hr. exact (IH s' o Hr pp Hp' Hs).
  Qed.

  (* ------------------------------------------------------------------ the iteration in progress completes: its cost *)
  Lemma bt_cnt i c z i' c' z' : bt i c z = Some (i', c', z') ->
    cnt_le c c' /\ c_polls c' = c_polls c /\ c_dir c' = c_dir c /\ c_apply c' = c_apply c /\ c_cb c' = c_cb c /\
    (evals c' + s_stepsize_bt z = evals c + s_stepsize_bt z')%nat /\ (s_stepsize_bt z <= s_stepsize_bt z')%nat.
  Proof.
    intros E. destruct (zinit_qub_cnt psi_yhat lb ub l1 P _ _ _ _ _ _ _ E) as (A1 & A2 & A3 & A4 & A5 & A6).
    repeat (split; [assumption|]). cnt_unfold. lia.
  Qed.

  (* one whole iteration (from the top of the pass to the top of the next): polls 1, oracle calls <= 5 + step-size halvings of this
     iteration, direction calls <= 3 (one of them apply), one callback *)
  Theorem tpass_cont_adv s s' : tpass_ s = TCont s' ->
    cnt_le (ts_cnt s) (ts_cnt s') /\ c_polls (ts_cnt s') = S (c_polls (ts_cnt s)) /\
    (evals (ts_cnt s') + s_stepsize_bt (ts_stats s) <= evals (ts_cnt s) + s_stepsize_bt (ts_stats s') + 5)%nat /\
    (c_dir (ts_cnt s') <= c_dir (ts_cnt s) + 3)%nat /\ (c_apply (ts_cnt s') <= c_apply (ts_cnt s) + 1)%nat /\
    c_cb (ts_cnt s') = S (c_cb (ts_cnt s)).
  Proof.
    rewrite tpass_eq. destruct (ttop_status s); try discriminate.
    unfold tpass_busy, finish_iter, tr_step, ttop_cnt, backtrack, Pantr.ecost, Pantr.eprox, Pantr.P. cbv zeta. fold tneed.
    set (c4 := if (ts_k s =? 0)%nat then _ else _).
    assert (A4 : adv (ts_cnt s) c4 1 2 1 0 0 /\ c_polls c4 = S (c_polls (ts_cnt s)) /\ c_cb c4 = c_cb (ts_cnt s)).
    { subst c4. destruct tneed; destruct (ts_k s =? 0)%nat; cnt_solve. }
    clearbody c4. destruct A4 as (A4 & A4p & A4c).
    destruct ((0 <? ts_k s)%nat || has_initial) eqn:Eacc; cbn [andb].
    2: { (* not accelerated *)
      cbn [negb].
      match goal with |- context [bt ?i ?c ?z] => destruct (bt i c z) as [[[p2 c10] z5]|] eqn:Eb; [|discriminate] end.
      destruct (bt_cnt _ _ _ _ _ _ Eb) as (B1 & B2 & B3 & B4 & B5 & B6 & B7).
      intros E. inversion E; subst s'; clear E. cbn [ts_cnt ts_stats].
      destruct (tp_upd_on_prox TP); cnt_unfold; repeat split; lia. }
    destruct (negb (tp_disable_accel TP)).
    2: { cbn [negb].
      match goal with |- context [bt ?i ?c ?z] => destruct (bt i c z) as [[[p2 c10] z5]|] eqn:Eb; [|discriminate] end.
      destruct (bt_cnt _ _ _ _ _ _ Eb) as (B1 & B2 & B3 & B4 & B5 & B6 & B7). cbn [s_stepsize_bt] in B6, B7.
      intros E. inversion E; subst s'; clear E. cbn [ts_cnt ts_stats].
      destruct (tp_upd_on_prox TP); cnt_unfold; repeat split; lia. }
    set (qa := tr_apply (c_apply c4) _ (ts_delta s)).
    set (stats1 := if negb (vall_finite (fst qa)) then _ else _).
    assert (S1 : s_stepsize_bt stats1 = s_stepsize_bt (ts_stats s)).
    { subst stats1. destruct (negb (vall_finite (fst qa))); [reflexivity|]. destruct (n0 <=? snd qa); reflexivity. }
    clearbody stats1.
    destruct (vall_finite (fst qa) && (snd qa <? n0)).
    2: { cbn [negb].
      match goal with |- context [bt ?i ?c ?z] => destruct (bt i c z) as [[[p2 c10] z5]|] eqn:Eb; [|discriminate] end.
      destruct (bt_cnt _ _ _ _ _ _ Eb) as (B1 & B2 & B3 & B4 & B5 & B6 & B7). cbn [s_stepsize_bt] in B6, B7.
      intros E. inversion E; subst s'; clear E. cbn [ts_cnt ts_stats].
      destruct (tp_upd_on_prox TP); cnt_unfold; repeat split; lia. }
    destruct (tp_ratio_new_step TP).
    - match goal with |- context [bt ?i ?c ?z] => destruct (bt i c z) as [[[cand1 c7] z2]|] eqn:Eb1; [|cbn [negb]; discriminate] end.
      destruct (bt_cnt _ _ _ _ _ _ Eb1) as (B1 & B2 & B3 & B4 & B5 & B6 & B7). cbn [negb].
      match goal with |- context [if ?b then _ else _] => destruct b end.
      + intros E. inversion E; subst s'; clear E. cbn [ts_cnt ts_stats]. cnt_unfold; repeat split; lia.
      + match goal with |- context [bt ?i ?c ?z] => destruct (bt i c z) as [[[p2 c10] z5]|] eqn:Eb; [|discriminate] end.
        destruct (bt_cnt _ _ _ _ _ _ Eb) as (D1 & D2 & D3 & D4 & D5 & D6 & D7). cbn [s_stepsize_bt] in D6, D7.
        intros E. inversion E; subst s'; clear E. cbn [ts_cnt ts_stats].
        destruct (tp_upd_on_prox TP); cnt_unfold; repeat split; lia.
    - cbn [negb]. match goal with |- context [if ?b then _ else _] => destruct b end.
      + match goal with |- context [bt ?i ?c ?z] => destruct (bt i c z) as [[[cand2 c10] z4]|] eqn:Eb; [|discriminate] end.
        destruct (bt_cnt _ _ _ _ _ _ Eb) as (D1 & D2 & D3 & D4 & D5 & D6 & D7).
        intros E. inversion E; subst s'; clear E. cbn [ts_cnt ts_stats]. cnt_unfold; repeat split; lia.
      + match goal with |- context [bt ?i ?c ?z] => destruct (bt i c z) as [[[p2 c10] z5]|] eqn:Eb; [|discriminate] end.
        destruct (bt_cnt _ _ _ _ _ _ Eb) as (D1 & D2 & D3 & D4 & D5 & D6 & D7). cbn [s_stepsize_bt] in D6, D7.
        intros E. inversion E; subst s'; clear E. cbn [ts_cnt ts_stats].
        destruct (tp_upd_on_prox TP); cnt_unfold; repeat split; lia.
  Qed.

  (* ------------------------------------------------------------------ operator() *)
  Definition pantr_start (s0 : tsT) : Prop :=
    exists i0 c0 i3 c1 z1, initL = (i0, c0) /\ nfinite (iL i0) = true /\
      bt (eval_cost psi_yhat (eval_prox lb ub l1 (set_gamma_L i0 (p_Lgamma P / iL i0) (iL i0)))) (inc_py c0) stats0 = Some (i3, c1, z1) /\
      s0 = mkTs i3 it_blank it_blank [] 0 [] (initial_delta TP (igrad i3)) None false c1 z1 [].
  Definition pantr_polled (pp : pollpt (T:=T)) : Prop := exists s0, pantr_start s0 /\ tpolled_from s0 pp.

  Lemma pantr_done_start fuel o : pantr_ fuel = TDone o -> exists s0, pantr_start s0 /\ tloop_ fuel s0 = TDone o.
  Proof.
    unfold pantr, backtrack, Pantr.ecost, Pantr.eprox, Pantr.P. destruct initL as [i0 c0] eqn:E0.
    destruct (nfinite (iL i0)) eqn:Ef; cbn [negb]; [|discriminate].
    destruct (bt _ (inc_py c0) stats0) as [[[i3 c1] z1]|] eqn:Eq; [|discriminate].
    intros Hr. eexists. split; [|exact Hr]. exists i0, c0, i3, c1, z1. repeat split; assumption.
  Qed.

  Theorem pantr_stop_prompt fuel o : pantr_ fuel = TDone o ->
    forall pp, pantr_polled pp -> stop_req (pp_cnt pp) = true -> tprompt_after pp o.
  Proof.
    intros Hr pp (s0 & Hs0 & Hp) Hs. destruct (pantr_done_start fuel o Hr) as (s0' & Hs0' & Hl).
    assert (s0' = s0).
    { destruct Hs0 as (i0 & c0 & i3 & c1 & z1 & E0 & _ & Eq & ->). destruct Hs0' as (i0' & c0' & i3' & c1' & z1' & E0' & _ & Eq' & ->).
      rewrite E0 in E0'. inversion E0'; subst. rewrite Eq in Eq'. inversion Eq'; subst. reflexivity. }
    subst s0'. exact (tloop_stop_prompt fuel s0 o Hl pp Hp Hs).
  Qed.

  Hypothesis Hsticky : sticky stop_req.

  Theorem pantr_stop_before_start fuel o : pantr_ fuel = TDone o -> stop_req cnt0 = true ->
    to_status o <> StBusy /\ exit_statuses (to_status o) /\
    to_iterations o = 0%nat /\ c_polls (to_cnt o) = 1%nat /\ c_dir (to_cnt o) = 0%nat /\ c_apply (to_cnt o) = 0%nat /\
    c_cb (to_cnt o) = 1%nat /\ (evals (to_cnt o) <= 4 + s_stepsize_bt (to_stats o))%nat.
  Proof.
    intros Hr H0. destruct (pantr_done_start fuel o Hr) as (s0 & (i0 & c0 & i3 & c1 & z1 & E0 & _ & Eq & ->) & Hl).
    pose proof (init_L_cnt psi_grad_full grad_psi P x_in) as A. cbv zeta in A. rewrite E0 in A. cbn [snd] in A.
    destruct A as (A1 & A2 & A3 & A4 & A5).
    destruct (bt_cnt _ _ _ _ _ _ Eq) as (B1 & B2 & B3 & B4 & B5 & B6 & _). cbn [stats0 s_stepsize_bt] in B6.
    set (s0 := mkTs i3 it_blank it_blank [] 0 [] (initial_delta TP (igrad i3)) None false c1 z1 []) in *.
    assert (Hs : stop_req (ttop_cnt s0) = true) by (apply (Hsticky cnt0); [cnt_solve|exact H0]).
    destruct fuel as [|fuel]; [discriminate|]. cbn [tloop] in Hl.
    destruct (tpass_exit_at_request s0 Hs) as (Ep & B & C & _). rewrite Ep in Hl. inversion Hl; subst o.
    destruct (tpass_exit_facts s0 (ttop_status s0)) as (F1 & F2 & F3 & F4 & F5 & _). cbv zeta in *.
    rewrite F1, F2, F4, F5. unfold ttop_cnt. subst s0. cbn [ts_cnt ts_stats ts_k].
    split; [exact B|]. split; [exact C|]. split; [reflexivity|]. destruct tneed; cnt_unfold; repeat split; lia.
  Qed.
End PromptT.
