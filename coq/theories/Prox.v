(* Prox.v — model of the proximal / projection kernels (C15; used by C01/C03/C05/C07).
   Sources: problem/box.hpp, problem/box-constr-problem.hpp, functions/l1-norm.hpp,
            functions/indicator-box.hpp, problem/unconstr-problem.hpp.
   Infinite box sides are `None` (the C++ uses ±inf doubles; equal whenever x is finite). *)
From Coq Require Import List ZArith Bool.
From Alpaqa Require Import Num Vec.
Import ListNotations.

Section Prox.
  Context {T : Type} `{Num T}.
  Local Open Scope num_scope.

  Definition osub (b : option T) (x : T) : option T := option_map (fun l => l - x) b.
  Definition xsubo (x : T) (b : option T) : option T := option_map (fun l => x - l) b.

  (* sets::project: v.cwiseMax(lb).cwiseMin(ub) *)
  Definition proj1 (lb ub : option T) (v : T) : T := clamp_hi ub (clamp_lo lb v).
  (* projecting_difference: v - project(v) *)
  Definition projdiff1 (lb ub : option T) (v : T) : T := v - proj1 lb ub v.

  (* eval_proj_grad_step_box:  p = (-γ g).cwiseMax(lb - x).cwiseMin(ub - x);  x̂ = x + p *)
  Definition proj_step1 (lb ub : option T) (γ x g : T) : T :=
    clamp_hi (osub ub x) (clamp_lo (osub lb x) ((- γ) * g)).
  (* prox_step for Box (indicator-box.hpp): fb_step = (γ_fwd * fwd).cwiseMax(lb - in).cwiseMin(ub - in) *)
  Definition box_prox_step1 (lb ub : option T) (γfwd x d : T) : T :=
    clamp_hi (osub ub x) (clamp_lo (osub lb x) (γfwd * d)).

  (* L1Norm::prox: out = 0.cwiseMax(in - λγ).cwiseMin(in + λγ)   (λ = 0 scalar: out = in) *)
  Definition l1_prox1 (λ γ v : T) : T :=
    let s := λ * γ in cmin (cmax n0 (v - s)) (v + s).

  (* eval_prox_grad_step_box_l1_impl:
     p = -x.cwiseMax(γ(g-λ)).cwiseMin(γ(g+λ)).cwiseMin(x-lb).cwiseMax(x-ub) *)
  Definition box_l1_step1 (lb ub : option T) (λ γ x g : T) : T :=
    let a := cmin (cmax x (γ * (g - λ))) (γ * (g + λ)) in
    let b := match xsubo x lb with None => a | Some d => cmin a d end in
    let c := match xsubo x ub with None => b | Some d => cmax b d end in
    - c.

  (* eval_inactive_indices_res_lna (one component) *)
  Definition in_interior (lb ub : option T) (v : T) : bool :=
    (match lb with None => true | Some l => l <? v end) &&
    (match ub with None => true | Some u => v <? u end).
  Definition inactive1 (lb ub : option T) (λ γ x g : T) : bool :=
    let xfw := x - γ * g in
    if λ =? n0 then in_interior lb ub xfw
    else if γ * λ <? xfw then in_interior lb ub (xfw - γ * λ)
    else if xfw <? - (γ * λ) then in_interior lb ub (xfw + γ * λ)
    else false.

  (* eval_proj_multipliers_box (one ALM row): y.cwiseMax(lb==-inf ? 0 : -M).cwiseMin(ub==+inf ? 0 : M) *)
  Definition proj_mult1 (lb ub : option T) (M y : T) : T :=
    let lo := match lb with None => n0 | Some _ => - M end in
    let hi := match ub with None => n0 | Some _ => M end in
    cmin (cmax y lo) hi.

  (* L1NormComplex soft threshold on (re, im) *)
  Definition l1c_prox1 (λ γ : T) (z : T * T) : T * T :=
    let '(a, b) := z in
    let γλ := γ * λ in
    let mag2 := a * a + b * b in
    if mag2 <=? γλ * γλ then (n0, n0)
    else let f := n1 - γλ / nsqrt mag2 in (a * f, b * f).

  (* ---------------- vector level ---------------- *)
  Definition bound := option T.

  Definition proj (lb ub : list bound) (v : list T) : list T := map3 proj1 lb ub v.
  Definition projdiff (lb ub : list bound) (v : list T) : list T := map3 projdiff1 lb ub v.

  Fixpoint map5 {A B C D E F} (f : A -> B -> C -> D -> E -> F)
      (a : list A) (b : list B) (c : list C) (d : list D) (e : list E) : list F :=
    match a, b, c, d, e with
    | x1 :: a', x2 :: b', x3 :: c', x4 :: d', x5 :: e' => f x1 x2 x3 x4 x5 :: map5 f a' b' c' d' e'
    | _, _, _, _, _ => []
    end.

  (* returns (x̂, p, h(x̂)) *)
  Definition proj_grad_step (lb ub : list bound) (γ : T) (x g : list T) : list T * list T * T :=
    let p := map5 (fun l u _ xi gi => proj_step1 l u γ xi gi) lb ub x x g in
    (vadd x p, p, n0).
  Definition box_l1_grad_step (lb ub : list bound) (λ : list T) (γ : T) (x g : list T)
    : list T * list T * T :=
    let p := map5 (fun l u li xi gi => box_l1_step1 l u li γ xi gi) lb ub λ x g in
    let xh := vadd x p in
    (xh, p, vnorm1 (vmul xh λ)).
  (* scalar-weight variant returns λ * ‖x̂‖₁ *)
  Definition box_l1_grad_step_scal (lb ub : list bound) (λ : T) (γ : T) (x g : list T)
    : list T * list T * T :=
    let p := map5 (fun l u _ xi gi => box_l1_step1 l u λ γ xi gi) lb ub x x g in
    let xh := vadd x p in
    (xh, p, λ * vnorm1 xh).

  (* BoxConstrProblem::eval_prox_grad_step, l1_reg of size 0 / 1 / n *)
  Definition eval_prox_grad_step (lb ub : list bound) (l1 : list T) (γ : T) (x g : list T) :=
    match l1 with
    | [] => proj_grad_step lb ub γ x g
    | [λ] => box_l1_grad_step_scal lb ub λ γ x g
    | _ => box_l1_grad_step lb ub l1 γ x g
    end.

  Definition l1_weight (l1 : list T) (i : nat) : T :=
    match l1 with [] => n0 | [λ] => λ | _ => nth i l1 n0 end.

  (* indices (ascending) reported by eval_inactive_indices_res_lna *)
  Fixpoint inactive_from (i : nat) (lb ub : list bound) (l1 : list T) (γ : T) (x g : list T) : list nat :=
    match lb, ub, x, g with
    | l :: lb', u :: ub', xi :: x', gi :: g' =>
        let rest := inactive_from (S i) lb' ub' l1 γ x' g' in
        if inactive1 l u (l1_weight l1 i) γ xi gi then i :: rest else rest
    | _, _, _, _ => []
    end.
  Definition l1_is_zero (l1 : list T) : bool :=
    match l1 with [] => true | [λ] => λ =? n0 | _ => false end.
  Definition inactive_indices (lb ub : list bound) (l1 : list T) (γ : T) (x g : list T) : list nat :=
    if l1_is_zero l1 then inactive_from 0 lb ub [] γ x g
    else inactive_from 0 lb ub l1 γ x g.

  (* eval_proj_multipliers_box with penalty_alm_split = k *)
  Fixpoint proj_multipliers (k : nat) (lb ub : list bound) (M : T) (y : list T) : list T :=
    match lb, ub, y with
    | l :: lb', u :: ub', yi :: y' =>
        match k with
        | S k' => n0 :: proj_multipliers k' lb' ub' M y'
        | O => proj_mult1 l u M yi :: proj_multipliers O lb' ub' M y'
        end
    | _, _, _ => []
    end.

  (* L1Norm::prox vector forms; returns (out, h(out)) *)
  Definition l1_prox_scal (λ γ : T) (v : list T) : list T * T :=
    if λ =? n0 then (v, n0)
    else let out := map (l1_prox1 λ γ) v in (out, λ * vnorm1 out).
  Definition l1_prox_vec (λ : list T) (γ : T) (v : list T) : list T * T :=
    let out := map2 (fun l x => l1_prox1 l γ x) λ v in (out, vnorm1 (vmul out λ)).
End Prox.
