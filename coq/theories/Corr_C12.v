(* Corr_C12.v — correspondence cases for C12: the definitions of Ocp.v run at binary64 (and nat) on the inputs the
   C++ implementation received, results compared with what the implementation returned.
   The problem's own functions are "teacher forced": tables of the values the driver-side problem class returns at the
   stored points (evaluated by the driver directly, not through alpaqa). The dense solve parameter of the Riccati model
   is instantiated with Gaussian elimination with partial pivoting. *)
From Coq Require Import Floats List ZArith Bool Arith.
From Alpaqa Require Import Num NumF Vec Ocp.
Import ListNotations.
Local Open Scope float_scope.

Definition nat_list_eqb (a b : list nat) : bool := list_agree Nat.eqb a b.
Definition obs (l : list float) := map lb_of_float l.
Definition oubs (l : list float) := map ub_of_float l.

(* norm-wise comparison: |a_i - b_i| <= tol * (1 + max(|a|_inf, |b|_inf)); NaN never agrees with a number *)
Definition fmaxabs (v : list float) : float := fold_left (fun acc x => if acc <? abs x then abs x else acc) v 0.
Definition vclose (tol : float) (a b : list float) : bool :=
  let m := 1 + (if fmaxabs a <? fmaxabs b then fmaxabs b else fmaxabs a) in
  list_agree (fun x y => if f_isnan x then f_isnan y else if f_isnan y then false else abs (x - y) <=? tol * m) a b.
Definition sclose (tol : float) (a b : float) : bool := vclose tol [a] [b].
Definition tolv : float := 0x1p-30.
Definition mclose (tol : float) (A B : list (list float)) : bool := vclose tol (concat A) (concat B).

(* Gaussian elimination with partial pivoting on rows [a_1..a_n | b] *)
Fixpoint pick_pivot (best : list float) (rest seen : list (list float)) : list float * list (list float) :=
  match rest with
  | [] => (best, seen)
  | r :: rest' =>
      if abs (hd 0 best) <? abs (hd 0 r) then pick_pivot r rest' (best :: seen)
      else pick_pivot best rest' (r :: seen)
  end.
Fixpoint gauss (fuel : nat) (rows : list (list float)) : list float :=
  match fuel, rows with
  | S fuel', r0 :: rows' =>
      let '(p, others) := pick_pivot r0 rows' [] in
      match p with
      | a :: pr =>
          let elim := map (fun r => match r with
                                    | ai :: ri => let m := ai / a in map2 (fun x y => x - m * y) ri pr
                                    | [] => [] end) others in
          let xs := gauss fuel' elim in
          (* pr = [a_2..a_n | b] *)
          let n := length xs in
          let bp := nth n pr 0 in
          let s := fold_left (fun acc xy => acc + fst xy * snd xy) (combine (firstn n pr) xs) 0 in
          ((bp - s) / a) :: xs
      | [] => []
      end
  | _, _ => []
  end.
Definition gsolve (M : list (list float)) (b : list float) : list float :=
  gauss (length M) (map2 (fun r bi => r ++ [bi]) M b).

Definition mk_stage (nu : nat) (A B Q S R : list (list float)) (q r : list float) (bits : list bool) (ufix : list float)
  : lq_stage float :=
  let J := build_J (fun i => nth i bits false) nu in
  {| sA := A; sB := B; sQ := Q; sS := S; sR := R; sq := q; sr := r; sJ := J; sK := compl J nu; sfix := ufix |}.

Inductive c12case :=
| KIdx (N n : nat) (bits : list (list bool)) (storage : list nat)
| KLay (d : dims) (lay : list nat) (len lenqr : nat)
| KFwd (d : dims) (x0 : list float) (us xnext hs cs : list (list float)) (ls hN cN : list float) (lN : float)
       (y μ Dlb Dub DNlb DNub storage : list float) (V : float)
| KBwd (d : dims) (A B Jc : list (list (list float))) (qrc cs : list (list float)) (qNc : list float)
       (JcN : list (list float)) (cN y μ Dlb Dub DNlb DNub g qr : list float)
| KLqr (nx nu : nat) (As Bs Qs Ss Rs : list (list (list float))) (qs rs : list (list float)) (bits : list (list bool))
       (ufix : list (list float)) (QN : list (list float)) (qN du : list float) (P0 : list (list float)) (s0 : list float).

Fixpoint zip7 {A B C D E F G} (a : list A) (b : list B) (c : list C) (d : list D) (e : list E) (f : list F) (g : list G) :=
  match a, b, c, d, e, f, g with
  | x1 :: a', x2 :: b', x3 :: c', x4 :: d', x5 :: e', x6 :: f', x7 :: g' => (x1, x2, x3, x4, x5, x6, x7) :: zip7 a' b' c' d' e' f' g'
  | _, _, _, _, _, _, _ => []
  end.

Definition layout_of (d : dims) : list nat :=
  concat (map (fun t => [off_x d t; (if t <? dN d then off_u d t else 0)%nat; off_h d t; len_h d t; off_c d t; len_c d t]) (seq 0 (S (dN d)))).

Definition bw_stages (d : dims) (A B Jc : list (list (list float))) (qrc cs : list (list float)) (y μ : list float) : list (bw_stage float) :=
  map (fun '(t, a, b, jc, qr, c, _) =>
         {| bA := a; bB := b; bqr := qr; bJc := jc; bc := c;
            by_ := seg (t * dnc d) (dnc d) y; bμ := seg (t * dnc d) (dnc d) μ |})
      (zip7 (seq 0 (dN d)) A B Jc qrc cs cs).

Definition lq_stages (nu : nat) (As Bs Qs Ss Rs : list (list (list float))) (qs rs : list (list float))
           (bits : list (list bool)) (ufix : list (list float)) : list (lq_stage float) :=
  map (fun '(a, b, qq, s, rr, (qv, rv), (bt, uf)) => mk_stage nu a b qq s rr qv rv bt uf)
      (zip7 As Bs Qs Ss Rs (combine qs rs) (combine bits ufix)).

(* model outputs: (nat list, float vector 1, float vector 2, scalar) *)
Definition model12 (c : c12case) : list nat * list float * list float * float :=
  match c with
  | KIdx N n bits _ =>
      (index_storage (index_update (fun t i => nth i (nth t bits []) false) N n), [], [], 0)
  | KLay d _ _ _ => (layout_of d ++ [total_len d; len_qr d], [], [], 0)
  | KFwd d x0 us xnext hs cs ls hN cN lN y μ Dlb Dub DNlb DNub _ _ =>
      let '(sto, V) := forward (fun t _ _ => nth t xnext []) (fun t _ _ => nth t hs []) (fun _ => hN)
                               (fun t _ => nth t ls 0) (fun _ => lN) (fun t _ => nth t cs []) (fun _ => cN)
                               d (obs Dlb) (oubs Dub) (obs DNlb) (oubs DNub) x0 us y μ in
      ([length sto], sto, [], V)
  | KBwd d A B Jc qrc cs qNc JcN cN y μ Dlb Dub DNlb DNub _ _ =>
      let '(g, _, qrs, qN) := backward (dnx d) (dnu d) (dnc d) (dncN d) (obs Dlb) (oubs Dub) (obs DNlb) (oubs DNub)
                                        (bw_stages d A B Jc qrc cs y μ) qNc JcN cN
                                        (seg (dN d * dnc d) (dncN d) y) (seg (dN d * dnc d) (dncN d) μ) in
      ([], concat g, concat qrs ++ qN, 0)
  | KLqr nx nu As Bs Qs Ss Rs qs rs bits ufix QN qN _ _ _ =>
      let sts := lq_stages nu As Bs Qs Ss Rs qs rs bits ufix in
      let '(gs, P, s) := factor_masked gsolve nx sts QN qN in
      ([], concat (solve_masked nx sts gs), concat P ++ s, 0)
  end.

Definition chk12 (c : c12case) : bool :=
  let '(ns, v1, v2, s) := model12 c in
  match c with
  | KIdx _ _ _ storage => nat_list_eqb ns storage
  | KLay _ lay len lenqr => nat_list_eqb ns (lay ++ [len; lenqr])
  | KFwd _ _ _ _ _ _ _ _ _ _ _ _ _ _ _ _ storage V =>
      nat_list_eqb ns [length storage] && vclose 0x1p-40 v1 storage && sclose 0x1p-34 s V
  | KBwd _ _ _ _ _ _ _ _ _ _ _ _ _ _ _ g qr => vclose tolv v1 g && vclose tolv v2 qr
  | KLqr _ _ _ _ _ _ _ _ _ _ _ _ _ du P0 s0 => vclose tolv v1 du && vclose tolv v2 (concat P0 ++ s0)
  end.
