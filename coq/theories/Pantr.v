(* Pantr.v — executable model of the WHOLE of PANTRSolver<Direction>::operator() (implementation/inner/pantr.tpp).
   Record types of Panoc.v are re-used: `iterate` (igradh / ihave unused), `counters`, `stats` with the reading
     s_stepsize_bt = stepsize_backtracks, s_ls_fail = accelerated_step_rejected, s_dir_fail = direction_failures,
   and Panoc.params as the base of the parameter record (max_iter, max_no_progress, Lipschitz fields, L_min, L_max, stop_crit,
   quadratic_upperbound_tolerance_factor, p_recompute = recompute_last_prox_step_after_direction_reset, opts fields).
   Three iterates curr / prox / cand and the ∇ψ(x̂) buffer rotate exactly as in the code (swaps), so stale contents are modelled;
   never-written buffers are [] (uninitialised memory in the C++).  NaN values of Δ / ρ in callbacks are `None`.
   The direction is an oracle  tr_apply j prox Δ = (q, q_model)  (j-th call of direction.apply), has_initial as in PANOC.
   The loop has no line search and polls the stop flag once per iteration; PANTR never updates no_progress (it stays 0). *)
From Coq Require Import List ZArith Bool Arith.
From Alpaqa Require Import Num Vec Prox SolverStatus SolverKernels StopChain Panoc ZeroFpr.
Import ListNotations.

Section Pantr.
  Context {T : Type} `{Num T}.
  Local Open Scope num_scope.
  Notation iterate := (iterate (T:=T)).
  Notation stats := (stats (T:=T)).
  Notation params := (params (T:=T)).

  Record trparams := mkTr {
    tp_base : params;
    tp_tr_tol : T;                                  (* TR_tolerance_factor *)
    tp_thr_acc : T; tp_thr_good : T;                (* ratio_threshold_acceptable / good *)
    tp_rf_rej : T; tp_rf_acc : T; tp_rf_good : T;   (* radius_factor_rejected / acceptable / good *)
    tp_init_radius : option T;                      (* initial_radius; None = NaN *)
    tp_min_radius : T;
    tp_ratio_new_step : bool;                       (* compute_ratio_using_new_stepsize *)
    tp_upd_on_prox : bool;                          (* update_direction_on_prox_step *)
    tp_disable_accel : bool;
    tp_ratio_approx : bool }.                       (* ratio_approx_fbe_quadratic_model *)

  (* one progress callback: k, *curr, grad_ψx̂ buffer, q, Δ, ρ, accepted, ε, status *)
  Record trec := mkTrec { t_k : nat; t_it : iterate; t_gradh : list T; t_q : list T; t_delta : option T; t_rho : option T;
                          t_acc : bool; t_eps : T; t_status : status }.
  Record toutputs := mkTout {
    to_status : status; to_iterations : nat; to_eps : T; to_x : list T; to_y : list T; to_errz : list T;
    to_final : iterate; to_stats : stats; to_log : list trec; to_cnt : counters }.
  Inductive tresult := TDone (o : toutputs) | TNotFiniteL (L : T) | TOutOfFuel.

  Variable psi_grad_full : list T -> T * list T * list T.
  Variable psi_yhat : list T -> T * list T.
  Variable grad_L : list T -> list T -> list T.
  Variable grad_psi : list T -> list T.
  Variables (lb ub : list (option T)) (l1 : list T).
  Variable tr_apply : nat -> iterate -> T -> list T * T.
  Variable has_initial : bool.
  Variable stop_req : counters -> bool.
  Variable time_up : counters -> bool.
  Variable TP : trparams.
  Variables (x_in y_in Σ errz_in : list T).
  Variable bt_fuel : nat.                           (* fuel of each backtrack_qub loop *)

  Definition P : params := tp_base TP.
  (* backtrack_qub(i) — the loop of ZeroFpr.init_qub *)
  Definition backtrack (i : iterate) (c : counters) (s : stats) := ZeroFpr.init_qub psi_yhat lb ub l1 P bt_fuel i c s.
  Definition ecost := eval_cost psi_yhat.
  Definition eprox := eval_prox lb ub l1.

  Record tstate := mkTs {
    ts_curr : iterate; ts_prox : iterate; ts_cand : iterate; ts_gbuf : list T;
    ts_k : nat; ts_q : list T; ts_delta : T; ts_rho : option T; ts_acc : bool;
    ts_cnt : counters; ts_stats : stats; ts_log : list trec }.
  Inductive tpass_result := TExit (o : toutputs) | TCont (s : tstate) | TFuel.

  (* compute_updated_radius, then fmax(·, min_radius) *)
  Definition updated_radius (q : list T) (ρ old : T) : T :=
    let r := if tp_thr_good TP <=? ρ then cmax (tp_rf_good TP * vnorm2 q) old
             else if tp_thr_acc TP <=? ρ then old * tp_rf_acc TP
             else tp_rf_rej TP * vnorm2 q in
    nfmax r (tp_min_radius TP).

  Definition with_gl (i : iterate) (γ L : T) : iterate := set_gamma_L i γ L.
  Definition set_x (i : iterate) (x : list T) : iterate :=
    mkIt x (ixh i) (igrad i) (igradh i) (ip i) (iyh i) (ipsi i) (ipsih i) (igam i) (iL i) (ipp i) (igp i) (ih i) (ihave i).

  Definition trtuple : Type := (iterate * list T * T * option T * bool * counters * stats * bool)%type.
  (* "Solve TR subproblem and update radius": (cand, q, Δ, ρ, accept_candidate, counters, stats, fuel-ok) *)
  Definition tr_step (s : tstate) (prox : iterate) (c4 : counters) (accelerated : bool) : trtuple :=
    if accelerated && negb (tp_disable_accel TP) then
      let qa := tr_apply (c_apply c4) prox (ts_delta s) in
      let q := fst qa in
      let c5 := inc_apply c4 in
      let finite := vall_finite q in
      let qm := snd qa in
      let stats1 := if negb finite then inc_dfail (ts_stats s) else if n0 <=? qm then inc_dfail (ts_stats s) else ts_stats s in
      if finite && (qm <? n0) then
        (* compute_candidate_fbe(q) *)
        let cand0 := eprox (eval_psi_grad psi_grad_full (set_gamma_L (set_x (ts_cand s) (vadd (ix prox) q)) (igam prox) (iL prox))) in
        let c6 := inc_pg c5 in
        let bt := if tp_ratio_new_step TP then backtrack (ecost cand0) (inc_py c6) stats1 else Some (cand0, c6, stats1) in
        match bt with
        | None => (ts_cand s, q, ts_delta s, ts_rho s, false, c6, stats1, false)
        | Some (cand1, c7, stats2) =>
            let ρ := tr_ratio (tp_ratio_approx TP) (it_fbe prox) (it_fbe cand1) qm (tp_tr_tol TP) (p_Lgamma P) in
            (cand1, q, updated_radius q ρ (ts_delta s), Some ρ, tp_thr_acc TP <=? ρ, c7, stats2, true)
        end
      else (ts_cand s, q, ts_delta s, ts_rho s, false, c5, stats1, true)
    else (ts_cand s, ts_q s, ts_delta s, ts_rho s, false, c4, ts_stats s, true).

  (* progress callback, then "Accept TR step" / "Fall back to proximal gradient step", ++k *)
  Definition finish_iter (s : tstate) (curr prox : iterate) (gbuf2 : list T) (ε : T) (accelerated : bool) (r : trtuple) : tpass_result :=
    let '(cand, q, Δ, ρ, acc, c8, stats3, ok) := r in
    let k := ts_k s in
    if negb ok then TFuel else
    let rec := mkTrec k curr gbuf2 q (Some Δ) ρ acc ε StBusy in
    let c9 := inc_cb c8 in
    if acc then
      let bt := if tp_ratio_new_step TP then Some (cand, c9, stats3) else backtrack (ecost cand) (inc_py c9) stats3 in
      match bt with
      | None => TFuel
      | Some (cand2, c10, stats4) =>
          (* γ changed + recompute: prox gets cand's (γ, L) and a new step — observed by direction.update only *)
          let prox2 := if negb (igam prox =? igam cand2) && p_recompute P then eprox (set_gamma_L prox (igam cand2) (iL cand2)) else prox in
          let c11 := inc_dir c10 in                               (* direction.update *)
          (* swap(curr, cand) *)
          TCont (mkTs cand2 prox2 curr gbuf2 (S k) q Δ ρ acc c11 stats4 (rec :: ts_log s))
      end
    else
      let stats4 := if accelerated then mkStats (s_stepsize_bt stats3) (s_ls_bt stats3) (S (s_ls_fail stats3)) (s_dir_fail stats3)
                                               (s_tau1 stats3) (s_count_tau stats3) (s_sum_tau stats3) else stats3 in
      match backtrack (ecost prox) (inc_py c9) stats4 with
      | None => TFuel
      | Some (prox2, c10, stats5) =>
          let curr2 := if negb (igam prox2 =? igam curr) && p_recompute P then eprox (set_gamma_L curr (igam prox2) (iL prox2)) else curr in
          let c11 := if tp_upd_on_prox TP then inc_dir c10 else c10 in
          (* swap(curr, prox) *)
          TCont (mkTs prox2 curr2 cand gbuf2 (S k) q Δ ρ acc c11 stats5 (rec :: ts_log s))
      end.

  (* compute_FBS_step: prox from curr (x = x̂ₖ, γ, L of curr; ψ, ∇ψ re-evaluated there; prox step) *)
  Definition fbs_iterate (curr prox0 : iterate) (gbuf1 : list T) : iterate :=
    eprox (eval_psi_grad psi_grad_full
             (mkIt (ixh curr) (ixh prox0) gbuf1 (igradh prox0) (ip prox0) (iyh prox0) (ipsih curr) (ipsih prox0)
                   (igam curr) (iL curr) (ipp prox0) (igp prox0) (ih prox0) (ihave prox0))).

  Definition tpass (s : tstate) : tpass_result :=
    let curr := ts_curr s in
    let need := crit_needs_gradh (p_crit P) in
    (* if (need_grad_ψx̂) eval_grad_ψx̂(curr, grad_ψx̂) *)
    let gbuf0 := if need then grad_L (ixh curr) (iyh curr) else ts_gbuf s in
    let c0 := if need then inc_gl (ts_cnt s) else ts_cnt s in
    let ε := crit_eps (p_crit P) lb ub l1 (ip curr) (igam curr) (ix curr) (ixh curr) (iyh curr) (igrad curr) gbuf0 in
    let k := ts_k s in
    let te := time_up c0 in
    let sr := stop_req c0 in
    let c1 := inc_polls c0 in
    let st := stop_status_helpers (o_tol P) ε te k (p_max_iter P) 0 (p_max_no_progress P) sr in
    match st with
    | StBusy =>
        let gbuf1 := if need then gbuf0 else grad_L (ixh curr) (iyh curr) in
        let c2 := if need then c1 else inc_gl c1 in
        let gbuf2 := igrad (ts_prox s) in                               (* prox->grad_ψ.swap(grad_ψx̂) *)
        let prox := fbs_iterate curr (ts_prox s) gbuf1 in
        let c3 := inc_pg c2 in
        let c4 := if (k =? 0)%nat then inc_dir c3 else c3 in           (* direction.initialize *)
        let accelerated := (0 <? k)%nat || has_initial in
        finish_iter s curr prox gbuf2 ε accelerated (tr_step s prox c4 accelerated)
    | _ =>
        let rec := mkTrec k curr gbuf0 [] None None (ts_acc s) ε st in
        let c2 := inc_cb c1 in
        let '(xo, yo, eo) := exit_block st (o_always P) x_in y_in errz_in (ixh curr) (iyh curr) Σ in
        TExit (mkTout st k ε xo yo eo curr (ts_stats s) (rev (rec :: ts_log s)) c2)
    end.

  Fixpoint tloop (fuel : nat) (s : tstate) : tresult :=
    match fuel with
    | O => TOutOfFuel
    | S f => match tpass s with
             | TExit o => TDone o
             | TCont s' => tloop f s'
             | TFuel => TOutOfFuel
             end
    end.

  (* Δ = initial_radius; if (!isfinite(Δ) || Δ == 0) Δ = 0.1 ‖∇ψ(x₀)‖; Δ = fmax(Δ, min_radius) *)
  Definition tenth : T := n1 / nofZ 10.
  Definition initial_delta (grad : list T) : T :=
    let d0 := match tp_init_radius TP with
              | Some d => if negb (nfinite d) || (d =? n0) then tenth * vnorm2 grad else d
              | None => tenth * vnorm2 grad
              end in
    nfmax d0 (tp_min_radius TP).

  Definition pantr (fuel : nat) : tresult :=
    let '(i0, c0) := init_L psi_grad_full grad_psi P x_in in
    if negb (nfinite (iL i0)) then TNotFiniteL (iL i0)
    else
      let i1 := set_gamma_L i0 (p_Lgamma P / iL i0) (iL i0) in
      let i2 := ecost (eprox i1) in
      match backtrack i2 (inc_py c0) stats0 with
      | None => TOutOfFuel
      | Some (i3, c1, s1) =>
          tloop fuel (mkTs i3 it_blank it_blank [] 0 [] (initial_delta (igrad i3)) None false c1 s1 [])
      end.
End Pantr.
