(* ParamsDur.v — model of the range guard of parse_single_duration followed by
   std::chrono::round<duration<int64,P>>(duration<double,U>{x}).count()  as libstdc++ computes it
   (duration_cast / floor / round of <chrono>), used by util/duration-parse.hpp.  Polymorphic over Num; NO proofs.
   U and P range over the unit chain ns us ms s min h, in which every ratio is an integer or the inverse of one, so each
   duration_cast is ONE multiplication or ONE division in the common representation (double). *)
From Coq Require Import ZArith List Bool.
From Alpaqa Require Import Num Params.
Import ListNotations.

Section Dur.
  Context {T : Type} `{Num T}.
  (* static_cast<int64>(double): truncation toward zero; None = not representable / NaN (undefined behaviour in C++) *)
  Variable trunc : T -> option Z.
  Local Open Scope num_scope.

  (* duration_cast between periods `from` and `to` (both in ns), value kept in the floating representation *)
  Definition cast_ratio (from to : Z) (x : T) : T :=
    if (from =? to)%Z then x
    else if (to <? from)%Z then x * nofZ (from / to)
    else x / nofZ (to / from).

  (* Duration::min() / Duration::max() of an int64 representation, converted to the floating representation *)
  Definition rep_min : T := - (nofZ (2 ^ 62) * n2).
  Definition rep_max : T := nofZ (2 ^ 63 - 1).

  (* the guard of util/duration-parse.hpp:  t > Duration::min() && t < Duration::max()  (compared in the common type) *)
  Definition in_range (period unit : Z) (x : T) : bool :=
    let g := Z.min period unit in
    let dg := cast_ratio unit g x in
    (cast_ratio period g rep_min <? dg) && (dg <? cast_ratio period g rep_max).

  Definition ticks_of (period unit : Z) (x : T) : tickres :=
    let g := Z.min period unit in                       (* period of the common type of the two durations *)
    if negb (in_range period unit x) then TRange else
    match trunc (cast_ratio unit period x) with         (* duration_cast<To>(d) *)
    | None => TUB
    | Some c =>
      let dg := cast_ratio unit g x in
      let tog (z : Z) := cast_ratio period g (nofZ z) in
      let t0 := if dg <? tog c then (c - 1)%Z else c in  (* floor: if (to > d) --to *)
      let t1 := (t0 + 1)%Z in
      let diff0 := dg - tog t0 in
      let diff1 := tog t1 - dg in
      if diff0 =? diff1 then TOk (if Z.odd t0 then t1 else t0)
      else if diff0 <? diff1 then TOk t0 else TOk t1
    end.

  Definition ticks_model (p u : nat) (x : T) : tickres :=
    ticks_of (nth p unit_ns 1%Z) (nth u unit_ns 1%Z) x.
End Dur.
