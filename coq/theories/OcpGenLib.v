(* OcpGenLib.v — what the GENERATED file coq/gen/OcpGen.v (translate/gen_ocp.py) is written against.  No proofs here.
     put / seg        write / read of a segment view of a flat buffer (v.segment(off, len), topRows, bottomRows on rvec storage)
     lupd             slot i of a per-stage store (gain_K.col(i) mapped as a matrix, e.col(i).topRows(nJ))
     psum             std::partial_sum (the `indices` arrays of OCPVariables)
     mleft / mright   leftCols / rightCols of a matrix given as its list of rows;  mzero, mneg: setZero, unary minus
     msolve           FACT.solve(matrix): the dense solve column by column (the solve itself is the parameter `lsolve`, exactly
                      as in Ocp.v: Eigen's LDLT and PartialPivLU both map to it)
     ocp_fns          the member functions of TypeErasedControlProblem that OCPEvaluator::forward / backward call, as functions
                      (the rvec output argument is the result)
     lqr_fns          the callables StatefulLQRFactor::factor_masked / solve_masked receive (AB, Q, R, S, R_prod, S_prod, q, r, u, J, K);
                      the `add into out` callables take the current value of `out` and return the new one
   Matrix operations proper (mm, mT, mv, mtv, madd, selcols, selrows, sel, scatter, pdiff, dist_sq) are those of Ocp.v. *)
From Coq Require Import List ZArith Bool Arith.
From Alpaqa Require Import Num Vec Ocp.
Import ListNotations.

Definition put {A} (off : nat) (v : list A) (buf : list A) : list A :=
  firstn off buf ++ v ++ skipn (off + length v) buf.

Fixpoint lupd {A} (i : nat) (x : A) (l : list A) : list A :=
  match l, i with
  | [], _ => []
  | _ :: l', O => x :: l'
  | a :: l', S i' => a :: lupd i' x l'
  end.

Fixpoint psum_from (acc : nat) (l : list nat) : list nat :=
  match l with [] => [] | x :: l' => (acc + x) :: psum_from (acc + x) l' end.
Definition psum (l : list nat) : list nat := psum_from 0 l.

Section Lib.
  Context {T : Type} `{Num T}.
  Local Open Scope num_scope.
  Definition mleft (n : nat) (M : list (list T)) : list (list T) := map (firstn n) M.
  Definition mright (n : nat) (M : list (list T)) : list (list T) := map (fun r => skipn (length r - n) r) M.
  Definition mzero (r c : nat) : list (list T) := repeat (vconst c n0) r.
  Definition mneg (M : list (list T)) : list (list T) := map (fun r => vneg r) M.
  (* X (r x c) with  M X = B  for B (r x c): column j of X is lsolve M (column j of B) *)
  Definition msolve (lsolve : list (list T) -> list T -> list T) (r c : nat) (M B : list (list T)) : list (list T) :=
    mT r (map (lsolve M) (mT c B)).
End Lib.

Record ocp_fns (T : Type) := {
  pf_eval_f : nat -> list T -> list T -> list T;
  pf_eval_h : nat -> list T -> list T -> list T;
  pf_eval_h_N : list T -> list T;
  pf_eval_l : nat -> list T -> T;
  pf_eval_l_N : list T -> T;
  pf_eval_constr : nat -> list T -> list T;
  pf_eval_constr_N : list T -> list T;
  pf_eval_qr : nat -> list T -> list T -> list T;
  pf_eval_q_N : list T -> list T -> list T;
  pf_eval_grad_f_prod : nat -> list T -> list T -> list T -> list T;
  pf_eval_grad_constr_prod : nat -> list T -> list T -> list T;
  pf_eval_grad_constr_prod_N : list T -> list T -> list T
}.
Arguments pf_eval_f {T}. Arguments pf_eval_h {T}. Arguments pf_eval_h_N {T}. Arguments pf_eval_l {T}. Arguments pf_eval_l_N {T}.
Arguments pf_eval_constr {T}. Arguments pf_eval_constr_N {T}. Arguments pf_eval_qr {T}. Arguments pf_eval_q_N {T}.
Arguments pf_eval_grad_f_prod {T}. Arguments pf_eval_grad_constr_prod {T}. Arguments pf_eval_grad_constr_prod_N {T}.

Record lqr_fns (T : Type) := {
  lf_AB : nat -> list (list T);
  lf_Q : nat -> list (list T) -> list (list T);
  lf_R : nat -> list nat -> list (list T) -> list (list T);
  lf_S : nat -> list nat -> list (list T) -> list (list T);
  lf_R_prod : nat -> list nat -> list nat -> list T -> list T -> list T;
  lf_S_prod : nat -> list nat -> list T -> list T -> list T;
  lf_q : nat -> list T;
  lf_r : nat -> list T;
  lf_u : nat -> list T;
  lf_J : nat -> list nat;
  lf_K : nat -> list nat
}.
Arguments lf_AB {T}. Arguments lf_Q {T}. Arguments lf_R {T}. Arguments lf_S {T}. Arguments lf_R_prod {T}. Arguments lf_S_prod {T}.
Arguments lf_q {T}. Arguments lf_r {T}. Arguments lf_u {T}. Arguments lf_J {T}. Arguments lf_K {T}.
