(* PanocOcpProofs.v — what `Converged` of PANOC-OCP certifies (C13), assembled from the shared lemmas
   (StopChainProofs, SolverKernelsProofs, ProxVec, ProxProofs, OcpProofs). *)
From Coq Require Import Reals List ZArith Lra Lia Bool.
From Flocq Require Import Raux.
From Alpaqa Require Import Num NumR Vec Prox ProxProofs ProxVec SolverStatus SolverKernels SolverKernelsProofs
                           StopChain StopChainProofs PanocOcp.
Import ListNotations.
Local Open Scope R_scope.

(* ---- (a) exit status: Converged <-> ε <= tolerance, on the GENERATED chain of panoc-ocp.tpp *)
Lemma ocp_converged_iff (tol eps : R) te k mi np mnp sr :
  stop_status_ocp tol eps te k mi np mnp sr = StConverged <-> eps <= eff_tol tol.
Proof.
  rewrite ocp_chain_same, converged_iff. change (nleb eps (eff_tol tol)) with (Rle_bool eps (eff_tol tol)).
  apply Rle_bool_iff.
Qed.

Lemma ocp_eff_tol_pos (tol : R) : 0 < tol -> eff_tol tol = tol.
Proof. intros Hp. unfold eff_tol. numR. rbool; [reflexivity|lra]. Qed.

Lemma ocp_maxiter_only_at_limit (tol eps : R) te k mi np mnp sr :
  stop_status_ocp tol eps te k mi np mnp sr = StMaxIter -> k = mi.
Proof. rewrite ocp_chain_same. apply maxiter_only_at_limit. Qed.

Lemma ocp_interrupted_only_if_requested (tol eps : R) te k mi np mnp sr :
  stop_status_ocp tol eps te k mi np mnp sr = StInterrupted -> sr = true.
Proof. rewrite ocp_chain_same. apply interrupted_only_if_requested. Qed.

(* ---- (b) the step of eval_prox_impl: û = u + p, û is the componentwise projection of u − γ∇ψ onto U, hence in U *)
Section Step.
  Variables (Ulb Uub : list (option R)) (N : nat) (γ : R) (u g : list R) (n : nat).
  Hypothesis Hlb : length (tile N Ulb) = n.
  Hypothesis Hub : length (tile N Uub) = n.
  Hypothesis Hu : length u = n.
  Hypothesis Hg : length g = n.
  Let r := ocp_prox Ulb Uub N γ u g.
  Let uh := fst (fst (fst r)).
  Let p := snd (fst (fst r)).

  Lemma ocp_prox_is_proj_grad_step :
    uh = fst (fst (proj_grad_step (tile N Ulb) (tile N Uub) γ u g)) /\
    p = snd (fst (proj_grad_step (tile N Ulb) (tile N Uub) γ u g)).
  Proof.
    subst uh p r. unfold ocp_prox. destruct (proj_grad_step (tile N Ulb) (tile N Uub) γ u g) as [[a b] c]. split; reflexivity.
  Qed.

  Lemma ocp_uhat_component i : (i < n)%nat ->
    nth i uh 0 = proj1 (nth i (tile N Ulb) None) (nth i (tile N Uub) None) (nth i u 0 - γ * nth i g 0) /\
    nth i p 0 = nth i uh 0 - nth i u 0.
  Proof.
    intros Hi. destruct ocp_prox_is_proj_grad_step as [E1 E2]. rewrite E1, E2.
    destruct (proj_grad_step_nth (tile N Ulb) (tile N Uub) γ u g n Hlb Hub Hu Hg i Hi) as (A & B & _). split; assumption.
  Qed.

  Lemma ocp_uhat_in_box i : (i < n)%nat -> box_ne (nth i (tile N Ulb) None) (nth i (tile N Uub) None) ->
    in_box (nth i (tile N Ulb) None) (nth i (tile N Uub) None) (nth i uh 0).
  Proof. intros Hi Hne. destruct (ocp_uhat_component i Hi) as [E _]. rewrite E. now apply proj1_in_box. Qed.
End Step.

(* what is returned: û when the outputs are overwritten, the caller's u otherwise *)
Lemma ocp_exit_spec st always (u_in uh : list R) :
  (st = StConverged \/ st = StInterrupted \/ always = true -> ocp_exit st always u_in uh = uh) /\
  (st <> StConverged -> st <> StInterrupted -> always = false -> ocp_exit st always u_in uh = u_in).
Proof.
  unfold ocp_exit. split.
  - intros Hc. apply overwrites_spec in Hc. rewrite Hc. reflexivity.
  - intros H1 H2 ->. destruct st; try reflexivity; contradiction.
Qed.

(* ---- (c) the criterion switch: exactly six criteria are evaluated, and each equals its documented formula *)
Definition supported (c : stopcrit) : bool :=
  match c with ProjGradNorm | ProjGradNorm2 | ProjGradUnitNorm | ProjGradUnitNorm2 | FPRNorm | FPRNorm2 => true | _ => false end.

Lemma ocp_crit_supported_iff c Ulb Uub N γ (u g p : list R) :
  (exists e, ocp_crit c Ulb Uub N γ u g p = Some e) <-> supported c = true.
Proof. destruct c; cbn; split; intros H; try discriminate; try (destruct H; discriminate); eauto. Qed.

Lemma ocp_crit_rejects c Ulb Uub N γ (u g p : list R) :
  ocp_crit c Ulb Uub N γ u g p = None <-> (c = ApproxKKT \/ c = ApproxKKT2 \/ c = Ipopt \/ c = LBFGSBpp).
Proof. destruct c; cbn; split; intros H; try discriminate; auto 6; destruct H as [H|[H|[H|H]]]; discriminate. Qed.

Lemma ocp_crit_matches_doc c Ulb Uub N γ (u g : list R) e : γ <> 0 ->
  let st := proj_grad_step (tile N Ulb) (tile N Uub) γ u g in
  ocp_crit c Ulb Uub N γ u g (snd (fst st)) = Some e ->
  e = crit_doc c (tile N Ulb) (tile N Uub) γ u (fst (fst st)) [] g [].
Proof.
  intros Hγ st. subst st. set (lb := tile N Ulb). set (ub := tile N Uub).
  destruct c; cbn [ocp_crit]; intros H; try discriminate; injection H as <-; fold lb ub.
  - rewrite <- (crit_matches_doc_ProjGradNorm lb ub γ u g [] []). reflexivity.
  - rewrite <- (crit_matches_doc_ProjGradNorm2 lb ub γ u g [] []). reflexivity.
  - rewrite <- (crit_matches_doc_ProjGradUnitNorm lb ub γ u g [] []). reflexivity.
  - rewrite <- (crit_matches_doc_ProjGradUnitNorm2 lb ub γ u g [] []). reflexivity.
  - rewrite <- (crit_matches_doc_FPRNorm lb ub γ u g [] [] Hγ). reflexivity.
  - rewrite <- (crit_matches_doc_FPRNorm2 lb ub γ u g [] [] Hγ). reflexivity.
Qed.

(* ---- (e) Converged certifies: the documented residual of the selected criterion at (u_k, γ_k) is within the tolerance *)
Theorem ocp_converged_certifies c Ulb Uub N γ (u g : list R) (tol eps : R) te k mi np mnp sr : γ <> 0 ->
  let st := proj_grad_step (tile N Ulb) (tile N Uub) γ u g in
  ocp_crit c Ulb Uub N γ u g (snd (fst st)) = Some eps ->
  stop_status_ocp tol eps te k mi np mnp sr = StConverged ->
  crit_doc c (tile N Ulb) (tile N Uub) γ u (fst (fst st)) [] g [] <= eff_tol tol.
Proof.
  intros Hγ st Hc Hs. apply ocp_converged_iff in Hs. subst st.
  pose proof (ocp_crit_matches_doc c Ulb Uub N γ u g eps Hγ Hc) as E. cbv zeta in E. rewrite <- E. exact Hs.
Qed.

(* ---- (d) write_solution, one row: err = c − Π_D(c + y/μ), y_out = y + μ·err = μ(ζ − Π_D ζ) = the ŷ of the general solvers *)
Lemma ocp_write1_spec lb ub (c y μ : R) : 0 < μ ->
  snd (ocp_write1 lb ub c y μ) = c - proj1 lb ub (c + y / μ) /\
  fst (ocp_write1 lb ub c y μ) = y + μ * snd (ocp_write1 lb ub c y μ) /\
  fst (ocp_write1 lb ub c y μ) = yhat1 lb ub c y μ.
Proof.
  intros Hm. unfold ocp_write1, yhat1, zeta1, projdiff1. cbn [fst snd]. numR.
  set (Π := proj1 lb ub (c + y / μ)). repeat split; try reflexivity; field; lra.
Qed.

Lemma ocp_write1_signs lb ub (c y μ : R) : 0 < μ -> box_ne lb ub ->
  let yo := fst (ocp_write1 lb ub c y μ) in
  (lb = None -> 0 <= yo) /\ (ub = None -> yo <= 0) /\
  (0 < yo -> exists u', ub = Some u' /\ u' < c + y / μ) /\ (yo < 0 -> exists l', lb = Some l' /\ c + y / μ < l').
Proof.
  intros Hm Hne yo. subst yo. destruct (ocp_write1_spec lb ub c y μ Hm) as (_ & _ & E). rewrite E.
  destruct (yhat_sign lb ub c y μ Hm Hne) as [S1 S2].
  destruct (yhat_complementarity lb ub c y μ Hm Hne) as [C1 C2].
  repeat split; auto.
Qed.

(* err_z and y_out agree with the relations of the general solvers (C03): err = (ŷ − y)/μ *)
Lemma ocp_write1_errz lb ub (c y μ : R) : 0 < μ ->
  snd (ocp_write1 lb ub c y μ) = errz1 (fst (ocp_write1 lb ub c y μ)) y μ.
Proof.
  intros Hm. destruct (ocp_write1_spec lb ub c y μ Hm) as (E1 & _ & E3). rewrite E3, errz_identity by assumption. exact E1.
Qed.
