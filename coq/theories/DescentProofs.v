(* DescentProofs.v — vector-level descent facts for the forward-backward envelope (C05). *)
From Coq Require Import Reals List ZArith Lra Lia Bool Psatz.
From Flocq Require Import Raux.
From Alpaqa Require Import Num NumR Vec Prox ProxProofs ProxVec SolverStatus SolverKernels SolverKernelsProofs.
Import ListNotations.
Local Open Scope R_scope.

Lemma vdot_rsum (a b : list R) : vdot a b = rsum (map2 Rmult a b).
Proof. unfold vdot. rewrite vsum_rsum. reflexivity. Qed.
Lemma vsqnorm_rsum (a : list R) : vsqnorm a = rsum (map (fun x => x * x) a).
Proof. unfold vsqnorm. rewrite vsum_rsum. reflexivity. Qed.

Definition all_in_box (lb ub : list (option R)) (z : list R) : Prop :=
  Forall2 (fun b v => in_box (fst b) (snd b) v /\ box_ne (fst b) (snd b)) (combine lb ub) z.

(* For a feasible point z and ANY step size γ' > 0, the projected-gradient step p from z satisfies
   ∇ψ(z)ᵀp + ‖p‖²/(2γ') <= 0, hence  φ_γ'(z) = ψ(z) + ‖p‖²/(2γ') + ∇ψ(z)ᵀp <= ψ(z). *)
Lemma prox_step_terms_nonpos lb ub γ (z g : list R) : 0 < γ ->
  length lb = length z -> length ub = length z -> length g = length z ->
  all_in_box lb ub z ->
  let p := snd (fst (proj_grad_step lb ub γ z g)) in
  vdot g p + vsqnorm p / (2 * γ) <= 0.
Proof.
  intros Hg Hl Hu Hgl Hbox p. subst p. unfold proj_grad_step; cbn [fst snd].
  rewrite vdot_rsum, vsqnorm_rsum.
  assert (Hi : 0 < / (2 * γ)) by (apply Rinv_0_lt_compat; lra).
  revert ub z g Hl Hu Hgl Hbox.
  induction lb as [|l lb IH]; intros [|u ub] [|a z] [|b g] Hl Hu Hgl Hbox; cbn in *; try discriminate; try lra.
  inversion Hbox as [|? ? ? ? [Hin Hne] Hrest]; subst. cbn [fst snd] in *.
  specialize (IH ub z g ltac:(lia) ltac:(lia) ltac:(lia) Hrest).
  set (pi := proj_step1 l u γ a b).
  assert (Hc : b * pi + pi * pi / (2 * γ) <= 0).
  { pose proof (fbe_component_le_box l u γ a b Hg Hne Hin) as Hc. cbv zeta in Hc.
    pose proof (proj_step1_is_proj l u γ a b) as Ep. fold pi in Ep.
    replace (proj1 l u (a - γ * b) - a) with pi in Hc by lra. unfold Rsqr in Hc. exact Hc. }
  unfold Rdiv in *.
  set (S1 := rsum (map2 Rmult g _)) in *. set (S2 := rsum (map _ _)) in *.
  nra.
Qed.

(* PANOC / ZeroFPR safeguarded step: if the quadratic upper bound holds at the reported iterate (x, γ, L), the envelope at the
   next iterate x̂ — evaluated with ANY new step size γ' — is at most φ_γ(x) - (1-γL)/(2γ) ‖p‖² + margin *)
Theorem safe_step_envelope_descent lb ub γ γ' L tol (x grad xh gradxh : list R) (ψx ψxh : R) :
  0 < γ -> 0 < γ' ->
  length lb = length xh -> length ub = length xh -> length gradxh = length xh ->
  all_in_box lb ub xh ->
  let p := snd (fst (proj_grad_step lb ub γ x grad)) in
  let pp := vsqnorm p in let gp := vdot grad p in
  qub_violated ψx ψxh gp L pp tol = false ->
  let p' := snd (fst (proj_grad_step lb ub γ' xh gradxh)) in
  fbe ψxh 0 (vsqnorm p') γ' (vdot gradxh p')
    <= fbe ψx 0 pp γ gp - (1 - γ * L) / (2 * γ) * pp + (1 + Rabs ψx) * tol.
Proof.
  intros Hg Hg' Hl Hu Hgl Hbox p pp gp Hq p'.
  pose proof (qub_safe_step_descent ψx ψxh 0 gp L pp γ tol Hg Hq) as H1.
  pose proof (prox_step_terms_nonpos lb ub γ' xh gradxh Hg' Hl Hu Hgl Hbox) as H2. cbv zeta in H2. fold p' in H2.
  unfold fbe in *. numR. rewrite ?one_plus_one in *. lra.
Qed.

(* the step size sequence: every change is a halving with L doubled *)
Fixpoint halve_n (j : nat) (γL : R * R) : R * R :=
  match j with O => γL | S j' => halve_step (halve_n j' γL) end.
Lemma halve_n_product j γ L : fst (halve_n j (γ, L)) * snd (halve_n j (γ, L)) = γ * L.
Proof.
  induction j as [|j IH]; cbn [halve_n]; [reflexivity|].
  destruct (halve_n j (γ, L)) as [g l] eqn:E. rewrite halve_keeps_product. exact IH.
Qed.
Lemma halve_n_nonincreasing j γ L : 0 < γ -> 0 < fst (halve_n j (γ, L)) <= γ.
Proof.
  intros Hg. induction j as [|j IH]; cbn [halve_n]; [cbn; lra|].
  destruct (halve_n j (γ, L)) as [g l] eqn:E. cbn [fst] in *. unfold halve_step; cbn. numR. rewrite ?one_plus_one. lra.
Qed.
