(* Counters.v — C20 model (no proofs).
   (1) Evaluation-counting wrappers (ProblemWithCounters / ControlProblemWithCounters):
         std::shared_ptr<EvalCounter> evaluations = std::make_shared<EvalCounter>();
       a wrapper is a pointer (possibly null) into a heap of counter blocks; copies of a wrapper copy the
       pointer.  Operations: construct, call a forwarded method (++evaluations->f), copy-construct,
       copy-assign, decouple_evaluations, reset_evaluations.  `None` results = undefined behaviour
       (null shared_ptr dereferenced).
   (2) A pointer-free SPECIFICATION of what the counters must read (`count`) and of who shares with whom
       (`shares`), written directly over histories.
   (3) Records for the tables the translator (translate/gen_C20_wrappers.py) extracts from the wrapper
       sources, and the boolean checkers evaluated over them. *)
From Coq Require Import List Arith Bool String.
Import ListNotations.

(* ------------------------------------------------------------------------------------------------ *)
(** * 1. Heap model of the wrappers *)

(** What `reset_evaluations()` does.  The shipped code is `evaluations.reset();` (resets the shared_ptr:
    this wrapper's pointer becomes null, the block and the other sharers are untouched) =
    [ResetNullsPointer].  The documented behaviour ("Reset all evaluation counters and timers to zero.
    Affects all instances that share the same evaluations") is `evaluations->reset();` =
    [ResetZeroesBlock].  The translator reads which one the source has. *)
Inductive reset_mode := ResetNullsPointer | ResetZeroesBlock.

Inductive op :=
| ONew                       (* construct a wrapper: fresh zeroed block *)
| OCall (w f : nat)          (* call forwarded method number f through wrapper w:  ++evaluations->f *)
| OCopy (w : nat)            (* copy-construct a new wrapper from w (new index = number of wrappers so far) *)
| OAssign (d s : nat)        (* copy-assign wrapper s to wrapper d *)
| ODecouple (w : nat)        (* evaluations = make_shared<EvalCounter>( *evaluations ) *)
| OReset (w : nat).          (* reset_evaluations() *)

Record state := mkState {
  nwr  : nat;                    (* number of wrappers created so far *)
  nbl  : nat;                    (* number of blocks allocated so far *)
  ptr  : nat -> option nat;      (* wrapper -> block (None = null shared_ptr) *)
  heap : nat -> nat -> nat       (* block -> counter index -> value *)
}.

Definition init : state := mkState 0 0 (fun _ => None) (fun _ _ => 0).

Definition upd {A} (m : nat -> A) (k : nat) (v : A) : nat -> A := fun x => if x =? k then v else m x.
Definition zero_block : nat -> nat := fun _ => 0.
Definition inc (c : nat -> nat) (f : nat) : nat -> nat := fun g => if g =? f then S (c g) else c g.

Definition step (m : reset_mode) (st : state) (o : op) : option state :=
  match o with
  | ONew => Some (mkState (S (nwr st)) (S (nbl st)) (upd (ptr st) (nwr st) (Some (nbl st)))
                          (upd (heap st) (nbl st) zero_block))
  | OCall w f =>
      if w <? nwr st then
        match ptr st w with
        | Some b => Some (mkState (nwr st) (nbl st) (ptr st) (upd (heap st) b (inc (heap st b) f)))
        | None => None                                     (* ++evaluations->f on a null pointer *)
        end
      else None
  | OCopy w =>
      if w <? nwr st then Some (mkState (S (nwr st)) (nbl st) (upd (ptr st) (nwr st) (ptr st w)) (heap st))
      else None
  | OAssign d s =>
      if (d <? nwr st) && (s <? nwr st) then Some (mkState (nwr st) (nbl st) (upd (ptr st) d (ptr st s)) (heap st))
      else None
  | ODecouple w =>
      if w <? nwr st then
        match ptr st w with
        | Some b => Some (mkState (nwr st) (S (nbl st)) (upd (ptr st) w (Some (nbl st)))
                                  (upd (heap st) (nbl st) (heap st b)))
        | None => None                                     (* *evaluations on a null pointer *)
        end
      else None
  | OReset w =>
      if w <? nwr st then
        match m with
        | ResetNullsPointer => Some (mkState (nwr st) (nbl st) (upd (ptr st) w None) (heap st))
        | ResetZeroesBlock =>
            match ptr st w with
            | Some b => Some (mkState (nwr st) (nbl st) (ptr st) (upd (heap st) b zero_block))
            | None => None
            end
        end
      else None
  end.

(** Histories are lists with the MOST RECENT operation first. *)
Fixpoint run (m : reset_mode) (h : list op) : option state :=
  match h with
  | [] => Some init
  | o :: h' => match run m h' with Some st => step m st o | None => None end
  end.

(** the same, for a chronological list (what the driver executes) *)
Definition exec (m : reset_mode) (ops : list op) : option state := run m (rev ops).

(** value read through wrapper w for counter f (`w.evaluations->f`) *)
Definition read (st : state) (w f : nat) : option nat :=
  match ptr st w with Some b => Some (heap st b f) | None => None end.

(* ------------------------------------------------------------------------------------------------ *)
(** * 2. Pointer-free specification over histories *)

(** number of wrappers after history h *)
Fixpoint nw (h : list op) : nat :=
  match h with
  | [] => 0
  | ONew :: h' => S (nw h')
  | OCopy _ :: h' => S (nw h')
  | _ :: h' => nw h'
  end.

(** every operation addresses wrappers that exist at that time *)
Fixpoint wf (h : list op) : Prop :=
  match h with
  | [] => True
  | ONew :: h' => wf h'
  | OCall w _ :: h' => w < nw h' /\ wf h'
  | OCopy w :: h' => w < nw h' /\ wf h'
  | OAssign d s :: h' => d < nw h' /\ s < nw h' /\ wf h'
  | ODecouple w :: h' => w < nw h' /\ wf h'
  | OReset w :: h' => w < nw h' /\ wf h'
  end.

Fixpoint wfb (h : list op) : bool :=
  match h with
  | [] => true
  | ONew :: h' => wfb h'
  | OCall w _ :: h' => (w <? nw h') && wfb h'
  | OCopy w :: h' => (w <? nw h') && wfb h'
  | OAssign d s :: h' => (d <? nw h') && (s <? nw h') && wfb h'
  | ODecouple w :: h' => (w <? nw h') && wfb h'
  | OReset w :: h' => (w <? nw h') && wfb h'
  end.

(** do wrappers a and b share their counters after history h?
    - a fresh wrapper shares with nobody else;
    - a copy shares exactly with whoever its source shared with (and with the source);
    - decoupling w separates w from everybody else; nothing else ever separates two wrappers. *)
Fixpoint shares (h : list op) (a b : nat) : bool :=
  match h with
  | [] => false
  | ONew :: h' => if (a =? nw h') || (b =? nw h') then (a =? b) else shares h' a b
  | OCopy s :: h' => shares h' (if a =? nw h' then s else a) (if b =? nw h' then s else b)
  | OAssign d s :: h' => shares h' (if a =? d then s else a) (if b =? d then s else b)
  | ODecouple w :: h' => if (a =? w) || (b =? w) then (a =? b) else shares h' a b
  | OCall _ _ :: h' => shares h' a b
  | OReset _ :: h' => shares h' a b
  end.

(** what wrapper w must read for counter f after history h:
    the number of calls of f made through any wrapper sharing with w (at the time of the call)
    since the shared counters were created or last reset; a copy / assignment / decoupling keeps the values. *)
Fixpoint count (h : list op) (w f : nat) : nat :=
  match h with
  | [] => 0
  | ONew :: h' => if w =? nw h' then 0 else count h' w f
  | OCall w' f' :: h' => count h' w f + (if (f =? f') && shares h' w w' then 1 else 0)
  | OCopy s :: h' => count h' (if w =? nw h' then s else w) f
  | OAssign d s :: h' => count h' (if w =? d then s else w) f
  | ODecouple _ :: h' => count h' w f
  | OReset w' :: h' => if shares h' w w' then 0 else count h' w f
  end.

Fixpoint no_reset (h : list op) : Prop :=
  match h with
  | [] => True
  | OReset _ :: _ => False
  | _ :: h' => no_reset h'
  end.

(** histories made of one construction followed only by calls, copies and assignments *)
Fixpoint only_call_copy (h : list op) : Prop :=
  match h with
  | [] => False
  | [ONew] => True
  | OCall _ _ :: h' => only_call_copy h'
  | OCopy _ :: h' => only_call_copy h'
  | OAssign _ _ :: h' => only_call_copy h'
  | _ => False
  end.

Fixpoint ncalls (h : list op) (f : nat) : nat :=
  match h with
  | [] => 0
  | OCall _ f' :: h' => ncalls h' f + (if f =? f' then 1 else 0)
  | _ :: h' => ncalls h' f
  end.

(** observation used by the correspondence: per wrapper, null or its first nf counters *)
Definition snapshot (nf : nat) (st : state) : list (option (list nat)) :=
  map (fun w => match ptr st w with
                | None => None
                | Some b => Some (map (heap st b) (seq 0 nf))
                end) (seq 0 (nwr st)).

(* ------------------------------------------------------------------------------------------------ *)
(** * 3. Tables extracted from the wrapper sources *)

(** one forwarding member of a counting wrapper *)
Record fwd := mkFwd {
  f_name     : string;          (* member name, e.g. "eval_grad_f" *)
  f_counter  : option string;   (* X in `++evaluations->X` *)
  f_timer    : option string;   (* X in `timed(evaluations->time.X, ...)` *)
  f_callee   : string;          (* X in `problem.X(...)` *)
  f_requires : option string;   (* X in `requires requires { &std::remove_cvref_t<Problem>::X; }` *)
  f_params   : list string;     (* declared parameter names, in order *)
  f_args     : list string      (* arguments passed to the callee, in order *)
}.

(** one forwarded `provides_*` query *)
Record prov := mkProv {
  p_name     : string;          (* "provides_eval_jac_g" *)
  p_requires : string;          (* X in `requires (Problem p) { { p.X() } -> std::convertible_to<bool>; }` *)
  p_callee   : string           (* X in `return problem.X();` *)
}.

Local Open Scope string_scope.

Definition ostr_eqb (a : option string) (b : string) : bool :=
  match a with Some s => String.eqb s b | None => false end.
Definition ostr_eqb_or_none (a : option string) (b : string) : bool :=
  match a with Some s => String.eqb s b | None => true end.
Fixpoint strs_eqb (a b : list string) : bool :=
  match a, b with
  | [], [] => true
  | x :: a', y :: b' => String.eqb x y && strs_eqb a' b'
  | _, _ => false
  end.

(** counting members: counter = timer, "eval_" ++ counter = own name *)
Definition counts_own (e : fwd) : bool :=
  match f_counter e with
  | Some c => String.eqb ("eval_" ++ c) (f_name e) && ostr_eqb (f_timer e) c
  | None => match f_timer e with None => true | Some _ => false end
  end.
Definition forwards_same (e : fwd) : bool :=
  String.eqb (f_callee e) (f_name e) && strs_eqb (f_args e) (f_params e).
Definition requires_own (e : fwd) : bool := ostr_eqb_or_none (f_requires e) (f_name e).
Definition fwd_ok (e : fwd) : bool := counts_own e && forwards_same e && requires_own e.

Definition prov_forwards_same (p : prov) : bool := String.eqb (p_callee p) (p_name p).
Definition prov_requires_own (p : prov) : bool := String.eqb (p_requires p) (p_name p).

(** members whose name starts with eval_ must count, except the listed projections (the OCP wrapper forwards
    eval_proj_diff_g / eval_proj_multipliers without a counter: OCPEvalCounter has no such fields) *)
Definition is_eval (s : string) : bool := String.prefix "eval_" s.
Definition counted_if_eval (uncounted : list string) (e : fwd) : bool :=
  if is_eval (f_name e) then
    match f_counter e with Some _ => true | None => existsb (String.eqb (f_name e)) uncounted end
  else match f_counter e with None => true | Some _ => false end.

(** every counter field of the struct is incremented by exactly one member *)
Definition field_uses (tbl : list fwd) (c : string) : nat :=
  List.length (filter (fun e => ostr_eqb (f_counter e) c) tbl).
Definition fields_used_once (unparsed fields : list string) (tbl : list fwd) : bool :=
  forallb (fun c => existsb (String.eqb c) unparsed || Nat.eqb (field_uses tbl c) 1) fields.
Definition counters_are_fields (fields : list string) (tbl : list fwd) : bool :=
  forallb (fun e => match f_counter e with Some c => existsb (String.eqb c) fields | None => true end) tbl.

(** a default implementation of the type-erased vtable: does it throw not_implemented_error, and under which name *)
Inductive default_kind := DThrows | DConditional | DComposes.
Record dflt := mkDflt { d_name : string; d_kind : default_kind; d_thrown : option string }.
Definition dflt_throws_own (d : dflt) : bool :=
  match d_kind d, d_thrown d with
  | DComposes, None => true
  | DComposes, Some _ => false
  | _, Some s => String.eqb s (d_name d)
  | _, None => false
  end.

(** dl-problem.cpp forwarders: `functions->callee(instance.get(), args...)`, compared with the C signature *)
Record dlfwd := mkDl {
  dl_name   : string;          (* C++ member *)
  dl_callee : string;          (* function-table entry called *)
  dl_args   : list string;     (* normalised arguments passed (x.data() -> x, D.lowerbound.data() -> zl/lb ...) *)
  dl_cparams : list string     (* parameter names of that entry in dl-problem.h, without `instance` *)
}.
Definition dl_ok (e : dlfwd) : bool := String.eqb (dl_callee e) (dl_name e) && strs_eqb (dl_args e) (dl_cparams e).
Record dlprov := mkDlProv { dp_name : string; dp_tested : string }.
(* dp_tested = "<special>": the body is not of the form `return functions->X != nullptr;` *)
Definition dlprov_ok (p : dlprov) : bool :=
  String.eqb (dp_tested p) "<special>" || String.eqb ("provides_" ++ dp_tested p) (dp_name p).
