(* Directions.v — the SHIPPED direction providers of PANOC / ZeroFPR as state machines.  Model only, no proofs.
   Sources: inner/directions/panoc/{lbfgs,anderson,noop,structured-lbfgs}.hpp,
            implementation/inner/directions/panoc/structured-lbfgs.tpp,
            accelerators/{lbfgs,anderson}.hpp (modelled in Lbfgs.v / LMQR.v, the C09 / C10 models),
            problem/box-constr-problem.hpp (eval_inactive_indices_res_lna: inactive_indices_x = Prox.inactive_indices, the C15 model, for finite data),
            implementation/inner/panoc-helpers.tpp (calc_augmented_lagrangian_hessian_prod_fd).

   A provider is a record of operations over a state type D (the PANOCDirection concept):
     d_initialize d y Σ γ₀ x₀ x̂₀ p₀ ∇ψ(x₀)        = Some d' | None (the call throws)
     d_has_initial                                   has_initial_direction()   (false for all four shipped providers)
     d_update d γ γ⁺ x x⁺ p p⁺ ∇ψ ∇ψ⁺               = (accepted, d')
     d_apply d γ x x̂ p ∇ψ q                          = Some (ret, q', d') | None (throws);  q is the caller's buffer (in/out):
                                                       q' is what the buffer holds after the call, ALSO when ret = false
     d_changed_gamma d γ_new γ_old, d_reset d
   The problem enters the instances through Section variables: its dimension n, for StructuredLBFGS also the set C and the l1
   weights (BoxConstrProblem), the capability flags and the Hessian-product members (arbitrary functions).
   Parameter defaults (read from the headers):
     LBFGSParams: memory 10, min_div_fac ε_mach, min_abs_s ε_mach², cbfgs {α = 1, ϵ = 0 (off)}, force_pos_def true, stepsize BasedOnCurvature
     LBFGSDirectionParams / AndersonDirectionParams: rescale_on_step_size_changes false
     AndersonAccelParams: memory 10, min_div_fac 1e2 ε_mach
     StructuredLBFGSDirectionParams: hessian_vec_factor 0, hessian_vec_finite_differences true, full_augmented_hessian true,
                                     failure_policy FallbackToProjectedGradient *)
From Coq Require Import List ZArith Bool Arith.
From Alpaqa Require Import Num Vec Prox Lbfgs LMQR.
Import ListNotations.

Section Directions.
  Context {T : Type} `{Num T}.
  Local Open Scope num_scope.

  Record dirops (D : Type) := mkDir {
    d_initialize : D -> list T -> list T -> T -> list T -> list T -> list T -> list T -> option D;
    d_has_initial : bool;
    d_update : D -> T -> T -> list T -> list T -> list T -> list T -> list T -> list T -> bool * D;
    d_apply : D -> T -> list T -> list T -> list T -> list T -> list T -> option (bool * list T * D);
    d_changed_gamma : D -> T -> T -> D;
    d_reset : D -> D }.

  Variable n : nat.                                   (* problem.get_n() *)

  (* ------------------------------------------------------------------ NoopDirection *)
  Definition noop_dir : dirops unit :=
    mkDir unit (fun d _ _ _ _ _ _ _ => Some d) false
          (fun d _ _ _ _ _ _ _ _ => (true, d))
          (fun d _ _ _ _ _ q => Some (false, q, d))   (* apply returns false, q untouched *)
          (fun d _ _ => d) (fun d => d).

  (* ------------------------------------------------------------------ LBFGSDirection *)
  Variable pw : T -> T -> T.                          (* std::pow (CBFGS test) *)
  Variable LP : Lbfgs.params T.                       (* AcceleratorParams *)

  (* a default-constructed LBFGS: empty storage *)
  Definition lbfgs_unsized : Lbfgs.state T :=
    {| Lbfgs.st_n := 0; Lbfgs.st_idx := 0; Lbfgs.st_full := false; Lbfgs.st_slots := [] |}.

  Section LbfgsDir.
    Variable rescale : bool.                          (* direction_params.rescale_on_step_size_changes *)
    Definition lbfgs_dir : dirops (Lbfgs.state T) :=
      mkDir (Lbfgs.state T)
        (* initialize: lbfgs.resize(problem.get_n())   [throws when memory < 1] *)
        (fun _ _ _ _ _ _ _ _ => Lbfgs.resize LP n)
        false
        (* update: lbfgs.update(xₖ, xₙₑₓₜ, pₖ, pₙₑₓₜ, LBFGS::Sign::Negative)   [forced = false] *)
        (fun st _ _ x xn p pn _ _ => Lbfgs.update pw LP st x xn p pn false false)
        (* apply: qₖ = pₖ; return lbfgs.apply(qₖ, γₖ) *)
        (fun st γ _ _ p _ _ => Some (Lbfgs.apply LP st p γ))
        (* changed_γ: rescale ? lbfgs.scale_y(γₖ / old_γₖ) : lbfgs.reset() *)
        (fun st γ γold => if rescale then Lbfgs.scale_y st (γ / γold) else Lbfgs.reset st)
        (fun st => Lbfgs.reset st).
  End LbfgsDir.

  (* ------------------------------------------------------------------ AndersonDirection *)
  Section AndersonDir.
    Variables (mem : nat) (mdf : T) (rescale : bool).  (* AndersonAccelParams::{memory, min_div_fac}; rescale_on_step_size_changes *)
    (* a default-constructed AndersonAccel: 0 x 0 storage *)
    Definition anderson_unsized : aast T := aa_new 0 mem mdf.
    (* AndersonAccel::resize(n): Eigen's resize keeps the storage when the sizes do not change; qr.resize ends with reset();
       initialized = false *)
    Definition aa_resize (a : aast T) : aast T :=
      let m := Nat.min n mem in
      if Nat.eqb (cap (a_qr a)) m && Nat.eqb (length (a_rlast a)) n
      then mkAA (qr_reset (a_qr a)) (a_G a) (a_rlast a) (a_gamma a) mdf false
      else aa_new n mem mdf.
    Definition anderson_dir : dirops (aast T) :=
      mkDir (aast T)
        (* initialize: anderson.resize(n); anderson.initialize(x̂_0, p_0) *)
        (fun a _ _ _ _ xh0 p0 _ => Some (aa_initialize (aa_resize a) xh0 p0))
        false
        (fun a _ _ _ _ _ _ _ _ => (true, a))
        (* apply: anderson.compute(x̂ₖ, pₖ, qₖ); qₖ -= xₖ; return true   [compute throws before initialize] *)
        (fun a _ x xh p _ _ =>
           match aa_compute a xh p with
           | Some (a', xaa) => Some (true, vsub xaa x, a')
           | None => None
           end)
        (* changed_γ: rescale ? anderson.scale_R(γₖ / old_γₖ) : anderson.reset() *)
        (fun a γ γold => if rescale then aa_scale_R a (γ / γold) else aa_reset a)
        (fun a => aa_reset a).
  End AndersonDir.

  (* ------------------------------------------------------------------ eval_inactive_indices_res_lna, infinite bounds as the C++ compares them *)
  (* Prox.v (C15) represents an infinite box side by None and treats it as "no constraint"; that equals the C++ test
     `C.lowerbound(i) < x_fw && x_fw < C.upperbound(i)` whenever x_fw is finite.  A diverging run can make x_fw = ±inf or NaN
     (overflowing gradient); then `-inf < x_fw` / `x_fw < +inf` are what decides.  `-inf < v` iff v is finite or v > 0;
     `v < +inf` iff v is finite or v < 0.  Over R (nfinite = true) this is Prox.in_interior. *)
  Definition in_interior_x (lb ub : option T) (v : T) : bool :=
    (match lb with None => nfinite v || (n0 <? v) | Some l => l <? v end) &&
    (match ub with None => nfinite v || (v <? n0) | Some u => v <? u end).
  Definition inactive1_x (lb ub : option T) (λ γ x g : T) : bool :=
    let xfw := x - γ * g in
    if λ =? n0 then in_interior_x lb ub xfw
    else if γ * λ <? xfw then in_interior_x lb ub (xfw - γ * λ)
    else if xfw <? - (γ * λ) then in_interior_x lb ub (xfw + γ * λ)
    else false.
  Fixpoint inactive_from_x (i : nat) (lb ub : list (option T)) (l1 : list T) (γ : T) (x g : list T) : list nat :=
    match lb, ub, x, g with
    | l :: lb', u :: ub', xi :: x', gi :: g' =>
        let rest := inactive_from_x (S i) lb' ub' l1 γ x' g' in
        if inactive1_x l u (l1_weight l1 i) γ xi gi then i :: rest else rest
    | _, _, _, _ => []
    end.
  Definition inactive_indices_x (lb ub : list (option T)) (l1 : list T) (γ : T) (x g : list T) : list nat :=
    if l1_is_zero l1 then inactive_from_x 0 lb ub [] γ x g
    else inactive_from_x 0 lb ub l1 γ x g.

  (* ------------------------------------------------------------------ StructuredLBFGSDirection *)
  Section StructuredDir.
    (* the problem: C and l1 (eval_inactive_indices_res_lna of BoxConstrProblem), D, capability flags, Hessian members *)
    Variables (lb ub : list (option T)) (l1 : list T).
    Variables (Dlb Dub : list (option T)).
    Variables (prov_inactive prov_hess_L prov_hess_psi prov_box_D prov_grad_gi : bool).
    Variable grad_psi_at : list T -> list T -> list T -> list T.               (* eval_grad_ψ(x, y, Σ) *)
    Variable hess_L_prod : list T -> list T -> T -> list T -> list T.          (* eval_hess_L_prod(x, y, scale, v) *)
    Variable hess_psi_prod : list T -> list T -> list T -> T -> list T -> list T. (* eval_hess_ψ_prod(x, y, Σ, scale, v) *)
    Variable eval_g : list T -> list T.
    Variable grad_gi : list T -> nat -> list T.
    Variable cbrt_eps : T.                                                      (* std::cbrt(ε_mach) *)
    (* DirectionParams *)
    Variables (hvf : T) (fd full_aug use_scaled : bool).   (* use_scaled: failure_policy == UseScaledLBFGSInput *)

    Record sdstate := mkSD {
      sd_lbfgs : Lbfgs.state T;
      sd_y : list T; sd_Σ : list T;     (* the references stored by initialize *)
      sd_hcalls : nat }.                (* ghost: number of calls of approximate_hessian_vec_term *)
    Definition struct_unsized : sdstate := mkSD lbfgs_unsized [] [] 0.

    Definition hvf_on : bool := negb (hvf =? n0).     (* hessian_vec_factor != 0 *)

    (* the four `throw std::invalid_argument` of initialize *)
    Definition struct_init_ok : bool :=
      prov_inactive &&
      negb (hvf_on && negb fd && negb full_aug && negb prov_hess_L) &&
      negb (hvf_on && negb fd && full_aug && negb (prov_hess_L || prov_hess_psi)) &&
      negb (hvf_on && negb fd && full_aug && negb prov_hess_psi && negb (prov_box_D && prov_grad_gi)).

    (* calc_augmented_lagrangian_hessian_prod_fd: h = cbrt(ε)(1 + ‖x‖); Hv = (∇ψ(x + h v) - ∇ψ(x)) / h *)
    Definition hess_fd (x y Σ g v : list T) : list T :=
      let h := cbrt_eps * (n1 + vnorm2 x) in
      let xh := map2 (fun xi vi => xi + h * vi) x v in
      map (fun t => t / h) (vsub (grad_psi_at xh y Σ) g).

    (* HqK(j) += work_n(j) * t  for j in J *)
    Definition add_on (J : list nat) (a : list T) (t : T) (Hv : list T) : list T :=
      fold_left (fun Hv j => Lbfgs.upd Hv j (nth j Hv n0 + nth j a n0 * t)) J Hv.

    (* approximate_hessian_vec_term(xₖ, grad_ψxₖ, qₖ, J) -> HqK *)
    Definition hess_term (d : sdstate) (x g q : list T) (J : list nat) : list T :=
      let y := sd_y d in let Σ := sd_Σ d in
      if fd then hess_fd x y Σ g q
      else if negb full_aug then hess_L_prod x y n1 q
      else if prov_hess_psi then hess_psi_prod x y Σ n1 q
      else
        let H0 := hess_L_prod x y n1 q in
        let gx := eval_g x in
        fold_left (fun Hv i =>
                     let ζ := nth i gx n0 + nth i y n0 / nth i Σ n0 in
                     let inactive := in_interior_x (nth i Dlb None) (nth i Dub None) ζ in
                     if inactive then Hv
                     else let gi := grad_gi x i in
                          let t := nth i Σ n0 * vdot gi q in
                          add_on J gi t Hv)
                  (seq 0 (length y)) H0.

    (* qₖ(J) = f j  for j in J *)
    Definition set_on (J : list nat) (f : nat -> T) (q : list T) : list T :=
      fold_left (fun q j => Lbfgs.upd q j (f j)) J q.

    Definition struct_apply (d : sdstate) (γ : T) (x xh p g q : list T) : option (bool * list T * sdstate) :=
      let J := inactive_indices_x lb ub l1 γ x g in
      let nJ := length J in
      if Nat.eqb nJ 0 then Some (false, q, d)                               (* no free variables: q untouched *)
      else if Nat.eqb nJ n then
        (* all indices free: standard L-BFGS on q = (1/γ) p *)
        let '(b, q', st') := Lbfgs.apply LP (sd_lbfgs d) (vscale (n1 / γ) p) γ in
        Some (b, q', mkSD st' (sd_y d) (sd_Σ d) (sd_hcalls d))
      else
        let '(q1, d1) :=
          if hvf_on then
            let qK := set_on J (fun _ => n0) p in                            (* qₖ = pₖ; qₖ(J).setZero() *)
            let HqK := hess_term d x g qK J in
            (set_on J (fun j => (n1 / γ) * nth j p n0 - hvf * nth j HqK n0) qK,
             mkSD (sd_lbfgs d) (sd_y d) (sd_Σ d) (S (sd_hcalls d)))
          else (set_on J (fun j => (n1 / γ) * nth j p n0) p, d) in
        match Lbfgs.apply_masked pw LP (sd_lbfgs d1) q1 γ J with
        | (MThrow, _, _) => None                                              (* CBFGS not supported by apply_masked *)
        | (MRet b, q2, st') =>
            let d2 := mkSD st' (sd_y d1) (sd_Σ d1) (sd_hcalls d1) in
            if b then Some (true, q2, d2)
            else if use_scaled then Some (true, set_on J (fun j => nth j q2 n0 * γ) q2, d2)   (* qₖ(J) *= γₖ *)
            else Some (false, q2, d2)
        end.

    Definition struct_dir : dirops sdstate :=
      mkDir sdstate
        (* initialize: capability checks; store &problem, y, Σ; lbfgs.resize(n) *)
        (fun d y Σ _ _ _ _ _ =>
           if struct_init_ok then
             match Lbfgs.resize LP n with
             | Some st => Some (mkSD st y Σ (sd_hcalls d))
             | None => None
             end
           else None)
        false
        (* update: lbfgs.update(xₖ, xₙₑₓₜ, grad_ψxₖ, grad_ψxₙₑₓₜ, LBFGS::Sign::Positive, force = true) *)
        (fun d _ _ x xn _ _ g gn =>
           let '(b, st') := Lbfgs.update pw LP (sd_lbfgs d) x xn g gn true true in
           (b, mkSD st' (sd_y d) (sd_Σ d) (sd_hcalls d)))
        struct_apply
        (fun d _ _ => d)                  (* changed_γ: nothing *)
        (fun d => mkSD (Lbfgs.reset (sd_lbfgs d)) (sd_y d) (sd_Σ d) (sd_hcalls d)).
  End StructuredDir.
End Directions.

Arguments dirops T D : clear implicits.
