(* SparsityGenInst.v — the GENERATED converters of coq/gen/SparsityGen.v put behind the dispatch of
   SparsityConverter<Sparsity<Conf>, To> (std::visit over the source alternative: one generated constructor + convert_values
   per (From, To) pair; g_specialisations lists the pairs that exist).  No proofs here.
   g_run zero fill from req vals: construct the converter, then convert the values into a target buffer of the target's nnz
   pre-filled with `fill` (the sentinel of drv_C14; any value for the theorems). *)
From Coq Require Import List ZArith Bool Arith.
From Alpaqa Require Import Sparsity SparsityGenLib SparsityGen.
Import ListNotations.

Definition g_run {T} (zero fill : T) (from : sparsity) (req : request) (vals : list T) : outcome (sparsity * outcome (list T)) :=
  match req, from with
  | RDense, SDense d =>
      obind (g_dense_dense_ctor d) (fun sp =>
      Ok (SDense sp, Ok (g_dense_dense_convert_values zero sp vals (repeat fill (d_rows sp * d_cols sp)))))
  | RDense, SCSC s =>
      obind (g_csc_dense_ctor s) (fun '(fs, sp) =>
      Ok (SDense sp, g_csc_dense_convert_values zero fs sp vals (repeat fill (d_rows sp * d_cols sp))))
  | RDense, SCOO o =>
      obind (g_coo_dense_ctor o) (fun '(fs, sp) =>
      Ok (SDense sp, g_coo_dense_convert_values zero fs sp vals (repeat fill (d_rows sp * d_cols sp))))
  | RCOO t f, SDense d =>
      obind (g_dense_coo_ctor d t f) (fun sp =>
      Ok (SCOO sp, Ok (g_dense_coo_convert_values zero sp vals (repeat fill (g_coo_nnz sp)))))
  | RCOO t f, SCSC s =>
      let sp := g_csc_coo_ctor s t f in
      Ok (SCOO sp, Ok (g_csc_coo_convert_values zero sp vals (repeat fill (g_coo_nnz sp))))
  | RCOO t f, SCOO o =>
      let sp := g_coo_coo_ctor o t f in
      Ok (SCOO sp, Ok (g_coo_coo_convert_values zero sp vals (repeat fill (g_coo_nnz sp))))
  | RCSC t ord, SDense d =>
      obind (g_dense_csc_ctor d t ord) (fun sp =>
      Ok (SCSC sp, Ok (g_dense_csc_convert_values zero sp vals (repeat fill (g_csc_nnz sp)))))
  | RCSC t ord, SCSC s =>
      obind (g_csc_csc_ctor s t ord) (fun '(perm, sp) =>
      Ok (SCSC sp, Ok (g_csc_csc_convert_values zero perm sp vals (repeat fill (g_csc_nnz sp)))))
  | RCSC t ord, SCOO o =>
      obind (g_coo_csc_ctor o t ord) (fun '(perm, sp) =>
      Ok (SCSC sp, Ok (g_coo_csc_convert_values zero perm sp vals (repeat fill (g_csc_nnz sp)))))
  end.
