(* Corr_ZEROFPRDIR.v — whole-run correspondence of the SHIPPED ZeroFPR stacks: ZeroFprDir.zerofprD at binary64 with the provider
   instances of Directions.v against ZeroFPRSolver<LBFGSDirection | AndersonDirection | NoopDirection | StructuredLBFGSDirection>
   as run by harness/drv_solve.cpp.  Case type, problem oracles, Hessian members, record comparison: those of Corr_PANOCDIR.v / Corr_PANOC.v
   (p_tau_factor / p_eager of the parameter record are ignored by ZeroFPR); extra: update_direction_from_prox_step. *)
From Coq Require Import Floats List ZArith Bool Arith.
From Alpaqa Require Import Num NumF Vec Prox SolverStatus SolverKernels AugLag Lbfgs LMQR Panoc ZeroFpr Corr_PANOC Directions PanocDir
                           Corr_PANOCDIR ZeroFprDir.
Import ListNotations.
Local Open Scope float_scope.

Inductive zdcase := ZDCase (from_prox : bool) (cs : dcase).

Definition zsummarize {D} (hc : D -> nat) (r : zresultD D) : summ :=
  match r with
  | ZDoneD _ o => SDone (zo_out _ o) (zo_rej _ o) (hc (zo_dir _ o))
  | ZNotFiniteLD _ L => SNotFinite L
  | ZOutOfFuelD _ => SFuel
  | ZThrewD _ log => SThrew log
  end.

(* evaluation counts of ZeroFPR: eval_ψ_grad_ψ (c_pg), eval_ψ (c_py), eval_grad_L (c_gl), eval_grad_ψ (c_gpsi) — as in Corr_PANOC.evals_of *)
Definition run_zdcase (z : zdcase) : summ :=
  match z with
  | ZDCase fp (DCase n Q c w A d Clb Cub Dlb Dub l1 x0 y0 S0 prm sel ph se sc time0 fuel lsfuel _ _ _ _ _ _ _ _ _ _ _ _) =>
      let dlb := map lb_of_float Dlb in let dub := map ub_of_float Dub in
      let clb := map lb_of_float Clb in let cub := map ub_of_float Cub in
      let m := length y0 in
      let run {D} (ops : dirops float D) (d0 : D) :=
        zerofprD (o_psi_grad_full n Q c w A d dlb dub y0 S0) (o_psi_yhat n Q c w A d dlb dub y0 S0)
                 (o_grad_L n Q c w A d) (o_grad_psi n Q c w A d dlb dub y0 S0)
                 clb cub l1 D ops
                 (fun cn => after se (evals_of m cn) || after sc (c_cb cn))
                 (fun _ => time0)
                 prm fp x0 y0 S0 (repeat nan m) lsfuel d0 fuel in
      match sel with
      | SelNoop => zsummarize (fun _ => 0%nat) (run noop_dir tt)
      | SelLbfgs LP rescale => zsummarize (fun _ => 0%nat) (run (lbfgs_dir n dpow LP rescale) lbfgs_unsized)
      | SelAnderson mem mdf rescale => zsummarize (fun _ => 0%nat) (run (anderson_dir n mem mdf rescale) (anderson_unsized mem mdf))
      | SelStruct LP hvf fd full use_scaled =>
          zsummarize (fun s => sd_hcalls s)
            (run (struct_dir n dpow LP clb cub l1 dlb dub true ph ph true false
                             (fun x y Σ => o_grad_psi n Q c w A d dlb dub y Σ x)
                             (vp_hess_L_prod n Q w d) (vp_hess_psi_prod n Q w A d Dlb Dub)
                             (vp_g n A d) (fun _ _ => [])
                             cbrt_eps64 hvf fd full use_scaled)
                 struct_unsized)
      end
  end.

Definition chkzfprdir (z : zdcase) : bool :=
  match z with
  | ZDCase fp (DCase n Q c w A d Clb Cub Dlb Dub l1 x0 y0 S0 prm sel ph se sc time0 fuel lsfuel
                     exc status iterations eps x_out y_out errz ist fst_ evals cbs recs) =>
      match run_zdcase z with
      | SDone o rej hc =>
          negb exc &&
          status_eqb (out_status o) status && Nat.eqb (out_iterations o) iterations && feq (out_eps o) eps &&
          vfeq (out_x o) x_out && vfeq (out_y o) y_out && vfeq (out_errz o) errz &&
          list_agree Nat.eqb (ist_ofD o rej) ist && vfeq (fst_of o) fst_ &&
          Nat.eqb (evals_of (length y0) (out_cnt o) + hc * hcost (length y0) sel) evals && Nat.eqb (c_cb (out_cnt o)) cbs &&
          list_agree rec_agree (map rec_of (out_log o)) recs
      | SNotFinite _ =>
          negb exc &&
          status_eqb StNotFinite status && Nat.eqb 0 iterations && feq infinity eps &&
          vfexact x0 x_out && vfexact y0 y_out && vfexact (repeat nan (length y0)) errz &&
          list_agree Nat.eqb [0; 0; 0; 0; 0; 0; 0]%nat ist && Nat.eqb 0 cbs && match recs with [] => true | _ => false end
      | SFuel => false
      | SThrew log => exc && list_agree rec_agree (map rec_of log) recs
      end
  end.

Definition modelzfprdir (z : zdcase) :=
  match z with
  | ZDCase _ cs =>
    match run_zdcase z with
    | SDone o rej hc => (Some (out_status o, out_iterations o, out_eps o, (out_x o, out_y o, out_errz o), (ist_ofD o rej, fst_of o)),
                         ((evals_of (case_mD cs) (out_cnt o) + hc * hcost (case_mD cs) (case_sel cs))%nat, hc, c_cb (out_cnt o), c_polls (out_cnt o)),
                         map rec_of (out_log o))
    | SNotFinite L => (None, (0, 0, 0, 0)%nat, [mkX 0 StNotFinite [] [] L [] [] 0 0 [] 0 [] L 0 0 0 []])
    | SFuel => (None, (1, 1, 1, 1)%nat, [])
    | SThrew log => (None, (3, 3, 3, 3)%nat, map rec_of log)
    end
  end.
