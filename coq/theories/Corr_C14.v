(* Corr_C14.v — correspondence cases for C14: the model of Sparsity.v is run (vm_compute) on the same
   (pattern, request, values) as the C++ converters; every observable of the implementation must be reproduced:
   exception kind and stage, or the resulting pattern (all fields) and the converted value vector.
   Values are integers (the drivers feed integer-valued doubles; conversions only move values). *)
From Coq Require Import List ZArith Bool Arith.
From Alpaqa Require Import Sparsity.
Import ListNotations.

(* constructors with Z arguments (so that case files can be written with plain integer literals) *)
Definition mk_dense (rows cols : Z) (sym : symmetry) : sparsity :=
  SDense (mkDense (Z.to_nat rows) (Z.to_nat cols) sym).
Definition mk_csc (t : ityp) (rows cols : Z) (sym : symmetry) (inner outer : list Z) (ord : csc_order) : sparsity :=
  SCSC (mkCSC t (Z.to_nat rows) (Z.to_nat cols) sym (map Z.to_nat inner) (map Z.to_nat outer) ord).
Definition mk_coo (t : ityp) (rows cols : Z) (sym : symmetry) (row col : list Z) (ord : coo_order) (first : Z) : sparsity :=
  SCOO (mkCOO t (Z.to_nat rows) (Z.to_nat cols) sym row col ord first).

(* what the implementation did *)
Inductive impl_out :=
| IOk (to : sparsity) (w : list Z)          (* constructor and convert_values returned *)
| ICtorInvalid                              (* constructor threw std::invalid_argument *)
| ICtorRuntime                              (* constructor threw std::runtime_error *)
| IValuesInvalid (to : sparsity).           (* constructor returned `to`, convert_values threw std::invalid_argument *)

Inductive c14case := Case14 (from : sparsity) (req : request) (v : list Z) (out : impl_out).

Definition sym_eqb (a b : symmetry) : bool :=
  match a, b with Unsym, Unsym | Upper, Upper | Lower, Lower => true | _, _ => false end.
Definition csc_order_eqb (a b : csc_order) : bool :=
  match a, b with CscUnsorted, CscUnsorted | CscSortedRows, CscSortedRows => true | _, _ => false end.
Definition coo_order_eqb (a b : coo_order) : bool :=
  match a, b with
  | CooUnsorted, CooUnsorted | CooSortedByColsAndRows, CooSortedByColsAndRows | CooSortedByColsOnly, CooSortedByColsOnly
  | CooSortedByRowsAndCols, CooSortedByRowsAndCols | CooSortedByRowsOnly, CooSortedByRowsOnly => true
  | _, _ => false
  end.
Fixpoint list_eqb {A} (eqb : A -> A -> bool) (a b : list A) : bool :=
  match a, b with
  | [], [] => true
  | x :: a', y :: b' => eqb x y && list_eqb eqb a' b'
  | _, _ => false
  end.

Definition sparsity_eqb (a b : sparsity) : bool :=
  match a, b with
  | SDense x, SDense y => (d_rows x =? d_rows y) && (d_cols x =? d_cols y) && sym_eqb (d_sym x) (d_sym y)
  | SCSC x, SCSC y =>
      ityp_eqb (c_ity x) (c_ity y) && (c_rows x =? c_rows y) && (c_cols x =? c_cols y) && sym_eqb (c_sym x) (c_sym y)
      && list_eqb Nat.eqb (c_inner x) (c_inner y) && list_eqb Nat.eqb (c_outer x) (c_outer y)
      && csc_order_eqb (c_order x) (c_order y)
  | SCOO x, SCOO y =>
      ityp_eqb (o_ity x) (o_ity y) && (o_rows x =? o_rows y) && (o_cols x =? o_cols y) && sym_eqb (o_sym x) (o_sym y)
      && list_eqb Z.eqb (o_row x) (o_row y) && list_eqb Z.eqb (o_col x) (o_col y)
      && coo_order_eqb (o_order x) (o_order y) && (o_first x =? o_first y)%Z
  | _, _ => false
  end.

(* the model's run on a case: pattern conversion, then value conversion *)
Definition model14 (c : c14case) : outcome (sparsity * outcome (list Z)) :=
  match c with
  | Case14 from req v _ =>
      match convert from req with
      | Ok (to, a) => Ok (to, convert_values 0%Z a v)
      | ThrowInvalidArgument => ThrowInvalidArgument
      | ThrowRuntimeError => ThrowRuntimeError
      end
  end.

Definition chk14 (c : c14case) : bool :=
  match c with
  | Case14 _ _ _ out =>
      match model14 c, out with
      | Ok (to, Ok w), IOk to' w' => sparsity_eqb to to' && list_eqb Z.eqb w w'
      | Ok (to, ThrowInvalidArgument), IValuesInvalid to' => sparsity_eqb to to'
      | ThrowInvalidArgument, ICtorInvalid => true
      | ThrowRuntimeError, ICtorRuntime => true
      | _, _ => false
      end
  end.

(* the property predicate itself, evaluated in Coq on the implementation's observation:
   a well-formed input whose conversion returned must denote the same matrix afterwards *)
Definition dense_eqb (a b : option (nat * nat * list Z)) : bool :=
  match a, b with
  | Some (r, c, m), Some (r', c', m') => (r =? r') && (c =? c') && list_eqb Z.eqb m m'
  | None, None => true
  | _, _ => false
  end.

Definition prop14 (c : c14case) : bool :=
  match c with
  | Case14 from _ v (IOk to w) =>
      match dense_of 0%Z from v with
      | Some m => dense_eqb (dense_of 0%Z to w) (Some m) && (order_true to || negb (order_true from))
      | None => true
      end
  | _ => true
  end.
