(* AlmPanoc.v — ALMSolver<PANOCSolver<Direction>>: the ALM outer loop (Alm.v, composed by AlmCompose.v) with the whole-loop
   PANOC model (Panoc.v) as its inner solver, on a user problem given by its four basic functions (AugLag.v: f, ∇f, g, ∇g·y, box D)
   plus the box C / l1 weights of the prox step.  Model only; proofs in AlmPanocProofs.v, theorems in Properties_C01.v.

   The inner solver sees the problem through the type-erased interface: ψ, ŷ, ∇ψ, ∇L are the vtable entries of AugLag.v (the
   problem's own member where `prov` says it supplies one, otherwise the default composition of type-erased-problem.tpp) for the
   multipliers y and penalties Σ that the outer loop hands over at that outer iteration.
   What a problem-supplied eval_ψ_grad_ψ leaves in its work_m argument is unspecified: `wm_supplied` (arbitrary); the default
   composition leaves ŷ there.
   The outside world of successive inner solves is shared: the direction provider, the stop flag and the clock are indexed by
   CUMULATIVE event counters (the world `w` threaded through AlmCompose is the sum of the counters of the finished solves). *)
From Coq Require Import List ZArith Bool Arith.
From Alpaqa Require Import Num Vec Prox SolverStatus SolverKernels StopChain AugLag Panoc Alm AlmCompose.
Import ListNotations.

Definition alm_status_of (s : SolverStatus.status) : Alm.status :=
  match s with
  | StBusy => Busy | StConverged => Converged | StMaxTime => MaxTime | StMaxIter => MaxIter | StNotFinite => NotFinite
  | StNoProgress => NoProgress | StInterrupted => Interrupted | StException => Exception
  end.

Section AlmPanoc.
  Context {T : Type} `{Num T}.
  Local Open Scope num_scope.

  Variable Pb : problem (T:=T).                 (* f, ∇f, g, ∇g·y, D and the optional members *)
  Variable prov : fn -> bool.                   (* which optional members the problem supplies *)
  Variable wm_supplied : list T -> list T.      (* content of work_m after a SUPPLIED eval_ψ_grad_ψ(x) *)
  Variables (Clb Cub : list (option T)) (l1 : list T).
  Variable split : nat.                         (* penalty_alm_split *)
  Variable dir : nat -> iterate (T:=T) -> option (list T).   (* direction.apply, indexed by the global number of apply calls so far *)
  Variable has_initial : bool.
  Variable stop_req : counters -> bool.         (* stop_requested(), as a function of the cumulative counters *)
  Variable time_up : counters -> bool.          (* inner `time_elapsed > opts.max_time` *)
  Variable outer_oot : nat -> bool.             (* outer `time_elapsed > params.max_time` read after inner solve i *)
  Variable PP : params (T:=T).                  (* PANOCParams; o_always / o_tol are set by ALM *)
  Variable AP : alm_params (T:=T).
  Variables (ls_fuel inner_fuel : nat).

  Definition cadd (a b : counters) : counters :=
    mkCnt (c_polls a + c_polls b) (c_pg a + c_pg b) (c_py a + c_py b) (c_gl a + c_gl b) (c_gpsi a + c_gpsi b)
          (c_dir a + c_dir b) (c_apply a + c_apply b) (c_cb a + c_cb b).

  (* InnerSolveOptions{.always_overwrite_results = true, .tolerance = ε} *)
  Definition with_opts (tol : T) : params :=
    mkParams (Panoc.p_max_iter PP) (p_max_no_progress PP) (p_L0 PP) (p_lip_eps PP) (p_lip_delta PP) (p_Lgamma PP) (p_Lmin PP) (p_Lmax PP)
             (p_crit PP) (p_qub_tol PP) (p_ls_tol PP) (p_beta PP) (p_tau_factor PP) (p_tau_min PP)
             (p_force_ls PP) (p_upd_in_cand PP) (p_recompute PP) (p_eager PP) true tol.

  (* the problem as the inner solver sees it, for fixed (y, Σ) *)
  Definition o_psi_yhat (y Σ x : list T) : T * list T := fst (te_psi Pb prov x y Σ).
  Definition o_psi_grad_full (y Σ x : list T) : T * list T * list T :=
    let r := fst (te_psi_grad_psi Pb prov x y Σ) in
    (fst r, snd r, if prov Fpsi_grad_psi then wm_supplied x else snd (fst (te_psi Pb (fun c => negb (fn_optional c)) x y Σ))).
  Definition o_grad_L (x yh : list T) : list T := fst (te_grad_L Pb prov x yh).
  Definition o_grad_psi (y Σ x : list T) : list T := fst (te_grad_psi Pb prov x y Σ).

  Definition pb_of : alm_problem := {| pb_split := split; pb_lb := plb Pb; pb_ub := pub Pb |}.

  Definition ninf : T := n1 / n0.     (* Stats{}.ε = +inf at binary64 *)

  (* one inner solve as the outer loop sees it *)
  (* ir_stop: ALMSolver::stop() sets ALM's own flag and the inner solver's flag in the same call, so the one oracle stop_req serves both:
     the outer loop reads its flag after the inner solve, i.e. at the cumulative counters the solve hands on *)
  Definition inner (w : counters) (i : nat) (x y Σ : list T) (tol : T) (errz : list T)
      : option (inner_res (T:=T) * list T * result (T:=T) * counters) :=
    let r := panoc (o_psi_grad_full y Σ) (o_psi_yhat y Σ) o_grad_L (o_grad_psi y Σ) Clb Cub l1
                   (fun j it => dir (c_apply w + j)%nat it) has_initial
                   (fun c => stop_req (cadd w c)) (fun c => time_up (cadd w c))
                   (with_opts tol) x y Σ errz ls_fuel inner_fuel in
    match r with
    | Done o =>
        Some ({| ir_status := alm_status_of (out_status o); ir_eps := out_eps o; ir_err := Some (out_errz o);
                 ir_y := Some (out_y o); ir_iters := out_iterations o; ir_oot := outer_oot i;
                 ir_stop := stop_req (cadd w (out_cnt o)) |},
              out_x o, r, cadd w (out_cnt o))
    | NotFiniteL L =>
        (* return Stats{.status = NotFinite}: nothing written, ε = inf; one eval_ψ_grad_ψ (and one eval_grad_ψ if L_0 <= 0) happened *)
        Some ({| ir_status := NotFinite; ir_eps := ninf; ir_err := None; ir_y := None; ir_iters := 0; ir_oot := outer_oot i;
                 ir_stop := stop_req (cadd w (snd (init_L (o_psi_grad_full y Σ) (o_grad_psi y Σ) (with_opts tol) x))) |},
              x, r, cadd w (snd (init_L (o_psi_grad_full y Σ) (o_grad_psi y Σ) (with_opts tol) x)))
    | OutOfFuel => None
    end.

  (* ALMSolver<PANOCSolver>::operator()(p, x, y, Σ) *)
  Definition alm_panoc (outer_fuel : nat) (nanv : T) (Σ0 : option (list T)) (y0 x0 : list T)
      : option (cout (T:=T) counters (result (T:=T))) :=
    c_run counters (result (T:=T)) inner AP pb_of outer_fuel (pf Pb x0) (pg Pb x0) nanv Σ0 y0 x0 cnt0.
End AlmPanoc.
