(* Properties_C18.v — C18: parameter strings set exactly the addressed field, or are rejected.
   Only theorem statements closed by `exact`, each followed by Print Assumptions.
   Generic part: for ALL schemas (attribute tables), ALL states, ALL key/value strings, ALL conversion oracles.
   Finite part: over the tables generated from /repo on this run (coq/gen/ParamTables.v); the bound is the table. *)
From Coq Require Import String Ascii List ZArith Bool.
From Alpaqa Require Import Params ParamsProofs ParamTables ParamTablesProofs.
Import ListNotations.
Local Open Scope string_scope.

(* (1) FRAME: a set_param call changes at most the leaf its key addresses — on return and on throw alike;
       a key that addresses no leaf changes nothing. Paths are member positions in the whole nested structure. *)
Theorem C18_set_param_frame : forall F (conv : string -> convres F) ticks sch v key val v' e,
  set_param conv ticks sch v key val = (v', e) ->
  match resolve sch key with
  | Some (p, _) => forall q, disjoint p q -> get v' q = get v q
  | None => v' = v
  end.
Proof. exact set_param_frame. Qed.
Print Assumptions C18_set_param_frame.

(* (2) VALUE: on success the addressed position is a leaf and holds what the leaf setter of its type made of the value string *)
Theorem C18_set_param_value : forall F (conv : string -> convres F) ticks sch v key val v',
  set_param conv ticks sch v key val = (v', None) ->
  exists p t l l', resolve sch key = Some (p, t) /\ get v p = Some (VLeaf l) /\
                   set_leaf conv ticks t l "" val = (l', None) /\ get v' p = Some (VLeaf l') /\ v' = upd v p (VLeaf l').
Proof. exact set_param_ok_value. Qed.
Print Assumptions C18_set_param_value.

(* (3) whole option lists: positions that no option with the right prefix addresses are untouched (return or throw) *)
Theorem C18_set_params_frame : forall F (conv : string -> convres F) ticks sch prefix q opts v used i v' used' r,
  set_params conv ticks sch v prefix opts used i = (v', used', r) ->
  (forall kv, In kv opts -> opt_prefix kv = prefix ->
     match resolve sch (opt_key kv) with Some (p, _) => disjoint p q | None => True end) ->
  get v' q = get v q.
Proof. exact set_params_frame. Qed.
Print Assumptions C18_set_params_frame.

(* (4) options with a different prefix are ignored: state and counters unchanged, nothing thrown *)
Theorem C18_other_prefix_ignored : forall F (conv : string -> convres F) ticks sch prefix opts v used i,
  (forall kv, In kv opts -> opt_prefix kv <> prefix) ->
  set_params conv ticks sch v prefix opts used i = (v, used, None).
Proof. exact other_prefix_ignored. Qed.
Print Assumptions C18_other_prefix_ignored.

(* (5) usage is counted per option: slot j is incremented exactly when option j carries the prefix *)
Theorem C18_used_counts : forall F (conv : string -> convres F) ticks sch prefix opts v used i v' used',
  set_params conv ticks sch v prefix opts used i = (v', used', None) ->
  i + length opts <= length used ->
  length used' = length used /\
  forall j, nth j used' 0 = nth j used 0 +
            (match nth_error opts (j - i) with
             | Some kv => if Nat.leb i j && (opt_prefix kv =? prefix) then 1 else 0
             | None => 0
             end).
Proof. exact used_counts. Qed.
Print Assumptions C18_used_counts.

(* (6) rejections *)
Theorem C18_unknown_key_rejected : forall F (conv : string -> convres F) ticks n tbl v key val,
  assoc (fst (split_at ch_dot key)) tbl = None ->
  set_param conv ticks (SStruct n tbl) v key val = (v, Some EUnknownKey).
Proof. exact unknown_key_rejected. Qed.
Print Assumptions C18_unknown_key_rejected.

Theorem C18_index_into_scalar_rejected : forall F (conv : string -> convres F) ticks t l key val,
  key <> "" -> set_param conv ticks (SLeaf t) (VLeaf l) key val = (VLeaf l, Some EIndexScalar).
Proof. exact index_into_scalar_rejected. Qed.
Print Assumptions C18_index_into_scalar_rejected.

Theorem C18_unknown_enumerator_rejected : forall F (conv : string -> convres F) ticks tbl l val,
  assoc val tbl = None -> set_leaf conv ticks (LEnum tbl) l "" val = (l, Some EEnumUnknown).
Proof. exact unknown_enumerator_rejected. Qed.
Print Assumptions C18_unknown_enumerator_rejected.

Theorem C18_enumerator_by_name : forall F (conv : string -> convres F) ticks tbl l val z,
  assoc val tbl = Some z -> set_leaf conv ticks (LEnum tbl) l "" val = (VEnum z, None).
Proof. exact enumerator_by_name. Qed.
Print Assumptions C18_enumerator_by_name.

Theorem C18_bool_exact : forall F (conv : string -> convres F) ticks l val,
  set_leaf conv ticks LBool l "" val =
    if (val =? "0") || (val =? "false") then (VBool false, None)
    else if (val =? "1") || (val =? "true") then (VBool true, None) else (l, Some EBadBool).
Proof. exact bool_exact. Qed.
Print Assumptions C18_bool_exact.

Theorem C18_trailing_chars_rejected_int : forall F (conv : string -> convres F) ticks lo hi l val z rest,
  scan_int lo hi val = IVal z rest -> rest <> "" ->
  set_leaf conv ticks (LInt lo hi) l "" val = (l, Some ENumSuffix).
Proof. exact trailing_chars_rejected_int. Qed.
Print Assumptions C18_trailing_chars_rejected_int.

Theorem C18_trailing_chars_rejected_real : forall F (conv : string -> convres F) ticks l val n x,
  scan_real_len val = Some n -> conv (stake n val) = CVal x -> sdrop n val <> "" ->
  set_leaf conv ticks LReal l "" val = (l, Some ENumSuffix).
Proof. exact trailing_chars_rejected_real. Qed.
Print Assumptions C18_trailing_chars_rejected_real.

Theorem C18_out_of_range_int_rejected : forall F (conv : string -> convres F) ticks lo hi l val,
  scan_int lo hi val = IRange -> set_leaf conv ticks (LInt lo hi) l "" val = (l, Some ENumRange).
Proof. exact out_of_range_int_rejected. Qed.
Print Assumptions C18_out_of_range_int_rejected.

Theorem C18_out_of_range_real_rejected : forall F (conv : string -> convres F) ticks l val n,
  scan_real_len val = Some n -> conv (stake n val) = CRange -> set_leaf conv ticks LReal l "" val = (l, Some ENumRange).
Proof. exact out_of_range_real_rejected. Qed.
Print Assumptions C18_out_of_range_real_rejected.

Theorem C18_bad_units_rejected : forall F (conv : string -> convres F) ticks fuel p s t n x,
  s <> "" -> count_while is_trim s = 0 ->
  scan_real_len s = Some n -> conv (stake n s) = CVal x ->
  unit_of (stake (count_while (fun a => negb (is_unit_stop a)) (sdrop n s)) (sdrop n s)) = None ->
  parse_dur conv ticks (S fuel) p s t = (t, Some EDurUnits).
Proof. exact bad_units_rejected. Qed.
Print Assumptions C18_bad_units_rejected.

(* (7) numbers exactly: an in-range decimal digit string d1..dn is stored as sum d_i 10^(n-i) *)
Theorem C18_int_read_exactly : forall F (conv : string -> convres F) ticks lo hi (old : leafval F) ds,
  ds <> [] -> Forall (fun d => d < 10) ds -> (lo <= dval ds <= hi)%Z ->
  set_leaf conv ticks (LInt lo hi) old "" (dstr ds) = (VInt (dval ds), None).
Proof. exact int_read_exactly. Qed.
Print Assumptions C18_int_read_exactly.

Theorem C18_negative_int_read_exactly : forall F (conv : string -> convres F) ticks lo hi (old : leafval F) ds,
  ds <> [] -> Forall (fun d => d < 10) ds -> (lo < 0)%Z -> (lo <= - dval ds <= hi)%Z ->
  set_leaf conv ticks (LInt lo hi) old "" (String "-"%char (dstr ds)) = (VInt (- dval ds), None).
Proof. exact negative_int_read_exactly. Qed.
Print Assumptions C18_negative_int_read_exactly.

(* (8) durations: terms are summed; a well-formed term "<number><units>" adds ticks(number, units) and parsing continues *)
Theorem C18_duration_terms_summed : forall F (conv : string -> convres F) ticks fuel p s t,
  parse_dur conv ticks fuel p s t = (let (z, e) := parse_dur conv ticks fuel p s 0%Z in ((t + z)%Z, e)).
Proof. exact parse_dur_accumulates. Qed.
Print Assumptions C18_duration_terms_summed.

Theorem C18_duration_term : forall F (conv : string -> convres F) ticks fuel p s t n x u dz,
  s <> "" -> count_while is_trim s = 0 ->
  scan_real_len s = Some n -> conv (stake n s) = CVal x ->
  unit_of (stake (count_while (fun a => negb (is_unit_stop a)) (sdrop n s)) (sdrop n s)) = Some u ->
  ticks p u x = TOk dz ->
  parse_dur conv ticks (S fuel) p s t =
  parse_dur conv ticks fuel p (sdrop (count_while (fun a => negb (is_unit_stop a)) (sdrop n s)) (sdrop n s)) (t + dz)%Z.
Proof. exact parse_dur_term. Qed.
Print Assumptions C18_duration_term.

(* (9) "rejected => no half-written structure": whenever a set_param call throws, the whole nested structure is unchanged *)
Theorem C18_rejected_leaves_unchanged : forall F (conv : string -> convres F) ticks sch v key val v' er,
  set_param conv ticks sch v key val = (v', Some er) -> v' = v.
Proof. exact rejected_leaves_unchanged. Qed.
Print Assumptions C18_rejected_leaves_unchanged.

(* for an option list: when option j throws, the structure is exactly what the options before it made of it *)
Theorem C18_set_params_rejected_unchanged : forall F (conv : string -> convres F) ticks sch prefix opts v used i v' used' j er,
  set_params conv ticks sch v prefix opts used i = (v', used', Some (j, er)) ->
  exists k used0, j = i + k /\ k < length opts /\
    set_params conv ticks sch v prefix (firstn k opts) used i = (v', used0, None) /\ used' = incr_nth j used0.
Proof. exact set_params_rejected_unchanged. Qed.
Print Assumptions C18_set_params_rejected_unchanged.

(* durations: zero-valued terms with a unit are accepted; terms that do not fit the representation are rejected *)
Theorem C18_zero_not_trimmed : forall s, count_while is_trim (String "0"%char s) = 0.
Proof. exact zero_not_trimmed. Qed.
Print Assumptions C18_zero_not_trimmed.

Theorem C18_zero_duration_term_accepted : forall F (conv : string -> convres F) ticks p t x u (units : string),
  In units ["s"; "ms"; "us"; s_micro; "ns"; "min"; "h"; ""] ->
  conv "0" = CVal x -> unit_of units = Some u -> ticks p u x = TOk 0%Z ->
  parse_dur conv ticks (S (S (String.length units))) p (String "0"%char units) t = (t, None).
Proof. exact zero_duration_term_accepted. Qed.
Print Assumptions C18_zero_duration_term_accepted.

Theorem C18_out_of_range_duration_rejected : forall F (conv : string -> convres F) ticks fuel p s t n x u,
  s <> "" -> count_while is_trim s = 0 ->
  scan_real_len s = Some n -> conv (stake n s) = CVal x ->
  unit_of (stake (count_while (fun a => negb (is_unit_stop a)) (sdrop n s)) (sdrop n s)) = Some u ->
  ticks p u x = TRange ->
  parse_dur conv ticks (S fuel) p s t = (t, Some EDurRange).
Proof. exact out_of_range_duration_rejected. Qed.
Print Assumptions C18_out_of_range_duration_rejected.

(* vectors: a sub-key is rejected; a rejected value leaves the vector unchanged *)
Theorem C18_vec_subkey_rejected : forall F (conv : string -> convres F) (old : list F) key val,
  key <> "" -> set_vec conv old key val = (old, Some EIndexScalar).
Proof. exact vec_subkey_rejected. Qed.
Print Assumptions C18_vec_subkey_rejected.

Theorem C18_vec_rejected_unchanged : forall F (conv : string -> convres F) (old v' : list F) key val er,
  set_vec conv old key val = (v', Some er) -> v' = old.
Proof. exact vec_rejected_unchanged. Qed.
Print Assumptions C18_vec_rejected_unchanged.

(* ------------------------------------------------------------------ finite theorems over the generated tables *)
(* (10) every field declared in a header of a registered structure has a key *)
Theorem C18_every_field_registered : forall s fs f,
  In (s, fs) header_fields -> In f fs -> In f (keys_of s).
Proof. exact every_field_registered. Qed.
Print Assumptions C18_every_field_registered.

(* (11) every (non-deprecated) enumerator of an enum with an ENUM_TABLE has a name in it *)
Theorem C18_every_enumerator_registered : forall en es e,
  In (en, es) enum_enumerators -> In e es -> In e (enum_names_of en).
Proof. exact every_enumerator_registered. Qed.
Print Assumptions C18_every_enumerator_registered.

(* (12) keys unique; each key is bound to the member of the same name, which is declared in the header *)
Theorem C18_keys_unique : forall s t, In (s, t) table_entries \/ In (s, t) enum_table_entries -> NoDup (map fst t).
Proof. exact keys_unique. Qed.
Print Assumptions C18_keys_unique.

Theorem C18_key_bound_to_same_named_member : forall s t k m,
  In (s, t) table_entries -> In (k, m) t -> k = m /\ In m (lookup_list s header_fields).
Proof. exact key_bound_to_same_named_member. Qed.
Print Assumptions C18_key_bound_to_same_named_member.

Theorem C18_enum_name_bound_to_same_enumerator : forall s t k m,
  In (s, t) enum_table_entries -> In (k, m) t -> k = m.
Proof. exact enum_name_bound_to_same_enumerator. Qed.
Print Assumptions C18_enum_name_bound_to_same_enumerator.

Theorem C18_aliases_point_to_fields : forall s t a k,
  In (s, t) alias_entries -> In (a, k) t -> In k (keys_of s) /\ ~ In a (keys_of s).
Proof. exact aliases_point_to_fields. Qed.
Print Assumptions C18_aliases_point_to_fields.

(* (13) the schema trees the generic theorems are instantiated with: key k of struct s sits at the header position of field k *)
Theorem C18_schema_keys_address_same_named_field : forall s sch,
  In (s, sch) schemas ->
  exists tbl, sch = SStruct s tbl /\
              forall k i sub, In (k, (i, sub)) tbl -> nth_error (lookup_list s header_fields) i = Some k.
Proof. exact schema_keys_address_same_named_field. Qed.
Print Assumptions C18_schema_keys_address_same_named_field.

(* ------------------------------------------------------------------ non-vacuity *)
(* a nested two-level structure; the key "lbfgs.memory" addresses position [1;0]; position [0] and [1;1] are disjoint from it *)
Definition ex_sch : schema :=
  SStruct "P" [("max_iter", (0, SLeaf (LInt 0 4294967295)));
               ("lbfgs", (1, SStruct "L" [("memory", (0, SLeaf (LInt (-9223372036854775808) 9223372036854775807)));
                                          ("cbfgs", (1, SLeaf LBool))]))].
Definition ex_v : value Z := VNode [VLeaf (VInt 100); VNode [VLeaf (VInt 10); VLeaf (VBool false)]].
Example C18_nonvacuous_frame :
  set_param convZ ticksZ ex_sch ex_v "lbfgs.memory" "42" = (VNode [VLeaf (VInt 100); VNode [VLeaf (VInt 42); VLeaf (VBool false)]], None)
  /\ resolve ex_sch "lbfgs.memory" = Some ([1; 0], LInt (-9223372036854775808) 9223372036854775807)
  /\ disjoint [1; 0] [0] /\ disjoint [1; 0] [1; 1].
Proof. repeat split; try (vm_compute; reflexivity); simpl; auto. Qed.
Example C18_nonvacuous_set_params :
  set_params convZ ticksZ ex_sch ex_v "s" ["s.max_iter=7"; "t.max_iter=9"; "s.lbfgs.cbfgs=true"] [0; 0; 0] 0
  = (VNode [VLeaf (VInt 7); VNode [VLeaf (VInt 10); VLeaf (VBool true)]], [1; 0; 1], None).
Proof. vm_compute. reflexivity. Qed.
Example C18_nonvacuous_rejected :
  set_param convZ ticksZ ex_sch ex_v "lbfgs.memory" "7abc" = (ex_v, Some ENumSuffix)
  /\ set_param convZ ticksZ (SStruct "S" [("max_time", (0, SLeaf (LDur 0)))]) (VNode [VLeaf (VDur 5)]) "max_time" "1h30x"
     = (VNode [VLeaf (VDur 5)], Some EDurUnits)
  /\ set_param convZ ticksZ (SStruct "S" [("max_time", (0, SLeaf (LDur 0)))]) (VNode [VLeaf (VDur 5)]) "max_time" "1min0s"
     = (VNode [VLeaf (VDur 60000000000)], None)
  /\ set_vec convZ [5%Z] "" "1,2x,3" = ([5%Z], Some ENumSuffix).
Proof. repeat split; vm_compute; reflexivity. Qed.
Example C18_nonvacuous_digits : dstr [4; 2] = "42" /\ dval [4; 2] = 42%Z.
Proof. split; vm_compute; reflexivity. Qed.
Example C18_nonvacuous_tables : header_fields <> [] /\ schemas <> [] /\ enum_table_entries <> [].
Proof. repeat split; discriminate. Qed.
