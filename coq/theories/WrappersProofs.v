(* WrappersProofs.v — finite theorems over the tables generated from the wrapper / loader sources (coq/gen/Wrappers.v).
   Each is `forallb checker table = true` by vm_compute, lifted to a universally quantified statement with the
   soundness lemmas of CountersProofs.v.  A source change that breaks one of them makes this file fail to compile. *)
From Coq Require Import List Arith Bool String.
From Alpaqa Require Import Counters CountersProofs Wrappers.
Import ListNotations.
Local Open Scope string_scope.

Definition all_methods := (nlp_methods ++ ocp_methods)%list.
Definition all_provides := (nlp_provides ++ ocp_provides)%list.

(* -- counting members ---------------------------------------------------------------------------- *)
Lemma counts_own_all : forallb counts_own all_methods = true.
Proof. vm_compute. reflexivity. Qed.

Theorem each_method_counts_its_own_counter : forall e, In e all_methods ->
  forall c, f_counter e = Some c -> f_name e = "eval_" ++ c /\ f_timer e = Some c.
Proof. intros e He. apply counts_own_sound. exact (forallb_In _ _ counts_own_all e He). Qed.

Lemma forwards_same_all : forallb forwards_same all_methods = true.
Proof. vm_compute. reflexivity. Qed.

Theorem each_method_forwards_to_same_name : forall e, In e all_methods ->
  f_callee e = f_name e /\ f_args e = f_params e.
Proof. intros e He. apply forwards_same_sound. exact (forallb_In _ _ forwards_same_all e He). Qed.

Lemma requires_own_all : forallb requires_own all_methods = true.
Proof. vm_compute. reflexivity. Qed.

Theorem method_requires_subject_matches : forall e, In e all_methods ->
  forall s, f_requires e = Some s -> s = f_name e.
Proof. intros e He. apply requires_own_sound. exact (forallb_In _ _ requires_own_all e He). Qed.

Lemma nlp_fields_once : fields_used_once nlp_unparsed_counters nlp_counter_fields nlp_methods = true.
Proof. vm_compute. reflexivity. Qed.
Lemma ocp_fields_once : fields_used_once ocp_unparsed_counters ocp_counter_fields ocp_methods = true.
Proof. vm_compute. reflexivity. Qed.

(** (the *_unparsed_counters lists are empty unless a counting member left the translator's grammar) *)
Theorem every_counter_field_has_exactly_one_member :
  (forall c, In c nlp_counter_fields -> ~ In c nlp_unparsed_counters -> field_uses nlp_methods c = 1) /\
  (forall c, In c ocp_counter_fields -> ~ In c ocp_unparsed_counters -> field_uses ocp_methods c = 1).
Proof. split; [apply (field_uses_one_sound _ _ _ nlp_fields_once) | apply (field_uses_one_sound _ _ _ ocp_fields_once)]. Qed.

Lemma counted_nlp : forallb (counted_if_eval []) nlp_methods = true.
Proof. vm_compute. reflexivity. Qed.
Lemma counted_ocp : forallb (counted_if_eval ["eval_proj_diff_g"; "eval_proj_multipliers"]) ocp_methods = true.
Proof. vm_compute. reflexivity. Qed.

(** every eval_* member of the NLP wrapper counts; in the OCP wrapper all but the two projections do
    (OCPEvalCounter has no fields for them) *)
Theorem every_eval_member_counts :
  (forall e, In e nlp_methods -> is_eval (f_name e) = true -> f_counter e <> None) /\
  (forall e, In e ocp_methods -> is_eval (f_name e) = true ->
     f_counter e <> None \/ f_name e = "eval_proj_diff_g" \/ f_name e = "eval_proj_multipliers").
Proof.
  split; intros e He Hv.
  - pose proof (forallb_In _ _ counted_nlp e He) as H. unfold counted_if_eval in H. rewrite Hv in H.
    destruct (f_counter e); [discriminate|]. simpl in H. discriminate.
  - pose proof (forallb_In _ _ counted_ocp e He) as H. unfold counted_if_eval in H. rewrite Hv in H.
    destruct (f_counter e); [left; discriminate|]. right. simpl in H.
    apply orb_true_iff in H as [H|H]; [left; now apply String.eqb_eq in H|].
    apply orb_true_iff in H as [H|H]; [right; now apply String.eqb_eq in H|discriminate].
Qed.

(* -- provides_* queries -------------------------------------------------------------------------- *)
Lemma prov_forwards_all : forallb prov_forwards_same all_provides = true.
Proof. vm_compute. reflexivity. Qed.

Theorem each_provides_forwards_to_same_name : forall p, In p all_provides -> p_callee p = p_name p.
Proof. intros p Hp. apply String.eqb_eq. exact (forallb_In _ _ prov_forwards_all p Hp). Qed.

(** FULL statement (C20): forall p, In p all_provides -> p_requires p = p_name p.
    The shipped source violates it for exactly one member (provides_eval_hess_ψ_prod is constrained on
    provides_eval_hess_ψ); what is proved here holds before and after that line is repaired: any mismatch is that one.
    Whether the mismatch is present is decided on the generated table by lib/vf/props/C20.py (and replayed on the
    real classes by drv_C20 `f10`). *)
Definition known_requires_mismatch (p : prov) : bool :=
  String.eqb (p_name p) "provides_eval_hess_ψ_prod" && String.eqb (p_requires p) "provides_eval_hess_ψ".

Lemma prov_requires_all : forallb (fun p => prov_requires_own p || known_requires_mismatch p) all_provides = true.
Proof. vm_compute. reflexivity. Qed.

Theorem provides_requires_subject_matches_partial : forall p, In p all_provides ->
  p_requires p <> p_name p ->
  p_name p = "provides_eval_hess_ψ_prod" /\ p_requires p = "provides_eval_hess_ψ".
Proof.
  intros p Hp N. pose proof (forallb_In _ _ prov_requires_all p Hp) as H. simpl in H.
  apply orb_true_iff in H as [H|H].
  - unfold prov_requires_own in H. apply String.eqb_eq in H. contradiction.
  - unfold known_requires_mismatch in H. apply andb_true_iff in H as [H1 H2].
    apply String.eqb_eq in H1. apply String.eqb_eq in H2. auto.
Qed.

Definition requires_mismatches : list string :=
  map p_name (filter (fun p => negb (prov_requires_own p)) all_provides).

(* -- defaults of the type-erased vtable ------------------------------------------------------------ *)
Lemma defaults_ok : forallb dflt_throws_own nlp_defaults = true.
Proof. vm_compute. reflexivity. Qed.

(** a default that throws not_implemented_error names the function it stands for *)
Theorem default_throws_own_name : forall d, In d nlp_defaults ->
  forall s, d_thrown d = Some s -> s = d_name d.
Proof.
  intros d Hd s E. pose proof (forallb_In _ _ defaults_ok d Hd) as H. unfold dflt_throws_own in H. rewrite E in H.
  destruct (d_kind d); try discriminate; now apply String.eqb_eq in H.
Qed.

(* -- C-ABI loader forwarders --------------------------------------------------------------------- *)
Definition all_dl := (dl_forwards ++ dlc_forwards ++ map fst dl_fallbacks)%list.

Lemma dl_ok_all : forallb dl_ok all_dl = true.
Proof. vm_compute. reflexivity. Qed.

(** every DLProblem / DLControlProblem member calls the function-table entry of its own name and passes its
    arguments in the order of the C signature in dl-problem.h (bounds: lower before upper) *)
Theorem dl_argument_order_ok : forall e, In e all_dl -> dl_callee e = dl_name e /\ dl_args e = dl_cparams e.
Proof.
  intros e He. pose proof (forallb_In _ _ dl_ok_all e He) as H. unfold dl_ok in H.
  apply andb_true_iff in H as [H1 H2]. apply String.eqb_eq in H1. apply strs_eqb_sound in H2. auto.
Qed.

Lemma dlprov_ok_all : forallb dlprov_ok (dl_provides ++ dlc_provides)%list = true.
Proof. vm_compute. reflexivity. Qed.

(** every provides_X of the loaders whose body is the plain pointer test tests the pointer X
    (the others — today get_box_C, get_box_D, eval_inactive_indices_res_lna — are compared on the running code) *)
Theorem dl_provides_tests_called_pointer : forall p, In p (dl_provides ++ dlc_provides)%list ->
  dp_tested p <> "<special>" -> dp_name p = "provides_" ++ dp_tested p.
Proof.
  intros p Hp N. pose proof (forallb_In _ _ dlprov_ok_all p Hp) as H. unfold dlprov_ok in H.
  apply orb_true_iff in H as [H|H].
  - apply String.eqb_eq in H. contradiction.
  - apply String.eqb_eq in H. auto.
Qed.

Definition fallback_ok (e : dlfwd * (string * string * list string * list string)) : bool :=
  let '(d, (tested, base, bargs, params)) := e in
  String.eqb tested (dl_name d) && String.eqb base (dl_name d) && strs_eqb bargs params.
Lemma fallbacks_ok_all : forallb fallback_ok dl_fallbacks = true.
Proof. vm_compute. reflexivity. Qed.

(** the four members with a BoxConstrProblem fallback test the pointer they call, and fall back to the base member of
    the same name with the arguments in declaration order *)
Theorem dl_fallbacks_ok : forall d tested base bargs params, In (d, (tested, base, bargs, params)) dl_fallbacks ->
  tested = dl_name d /\ base = dl_name d /\ bargs = params.
Proof.
  intros d tested base bargs params Hin. pose proof (forallb_In _ _ fallbacks_ok_all _ Hin) as H. simpl in H.
  apply andb_true_iff in H as [H H3]. apply andb_true_iff in H as [H1 H2].
  apply String.eqb_eq in H1. apply String.eqb_eq in H2. apply strs_eqb_sound in H3. auto.
Qed.

(* -- non-vacuity: the tables are not empty --------------------------------------------------------- *)
Lemma tables_nonempty :
  20 <= List.length nlp_methods /\ 20 <= List.length ocp_methods /\ 15 <= List.length nlp_provides /\ 10 <= List.length ocp_provides /\
  List.length nlp_counter_fields = 21 /\ List.length ocp_counter_fields = 21 /\ 15 <= List.length dl_forwards /\ 20 <= List.length dlc_forwards.
Proof. vm_compute. repeat split; repeat constructor. Qed.
