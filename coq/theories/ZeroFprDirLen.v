(* ZeroFprDirLen.v — the LENGTH invariant of ZeroFPR with a STATEFUL direction provider (ZeroFprDir.zerofprD), over R, for every provider
   (Directions.dirops) that keeps dimensions in the sense of DirLen.dir_len (predicates I0 — as constructed —, Iv on provider states:
   initialize establishes Iv from I0 or Iv; update / changed_γ / reset preserve Iv; apply preserves Iv and returns — when it returns
   true — a vector of length n; each when handed vectors of length n).  Counterpart of PanocDirLen(W).v:
     at the top of every pass the current iterate has x of length n (with the consistency invariant of ZeroFprProofs.v, transported to the
     provider loop by ZeroFprDirProofs.zerofprD_check: ∇ψ(x), x̂, p of length n; hence the prox iterate x̂̂, p̂, ∇ψ(x̂) too — these are what
     zerofpr.tpp hands to initialize / apply / update), the provider is sane (I0 or Iv before the first `initialize` of the solve, Iv
     after it), and every accepted apply result recorded in the trace has length n.
   With the refinement theorem ZeroFprDirProofs.zerofprD_refines_R the direction-length hypothesis of ZeroFprLen.v is DISCHARGED:
     zerofprD_out_x_length, zerofprD_inner_contract_len (the inner contract with dimensions), zerofprD_out_dir (the provider a completed
     run hands back is sane again — what the composition across inner solves needs). *)
From Coq Require Import Reals List ZArith Lra Lia Bool Arith Psatz.
From Flocq Require Import Raux.
From Alpaqa Require Import Num NumR Vec Prox ProxProofs ProxVec SolverStatus SolverKernels SolverKernelsProofs DescentProofs
                           StopChain StopChainProofs LoopSkeleton KktProofs Panoc PanocProofs LiveVec ZeroFpr ZeroFprProofs ZeroFprLen
                           Directions PanocDir PanocDirProofs ZeroFprDir ZeroFprDirProofs DirWf DirLen.
Import ListNotations.
Local Open Scope R_scope.

Section DirLenZ.
  Variable psi_grad_full : list R -> R * list R * list R.
  Variable psi_yhat : list R -> R * list R.
  Variable grad_L : list R -> list R -> list R.
  Variable grad_psi : list R -> list R.
  Variables (lb ub : list (option R)) (l1 : list R).
  Variable D : Type.
  Variable ops : dirops R D.
  Variable stop_req : counters -> bool.
  Variable time_up : counters -> bool.
  Variable P : params (T:=R).
  Variable from_prox : bool.
  Variables (x_in y_in Σ errz_in : list R).
  Variable ls_fuel : nat.
  Variable d0 : D.

  Variable n : nat.
  Hypothesis Hl1 : l1 = [].
  Hypothesis Hlb : length lb = n.
  Hypothesis Hub : length ub = n.
  Hypothesis Hxin : length x_in = n.
  Hypothesis Hpg : forall x, length x = n -> length (snd (psi_grad psi_grad_full x)) = n.
  Hypothesis HgL : forall x yh, length x = n -> length (grad_L x yh) = n.

  (* the provider keeps dimensions *)
  Variables (I0 Iv : D -> Prop).
  Hypothesis HDL : dir_len n D ops I0 Iv.
  Hypothesis Hd0 : I0 d0 \/ Iv d0.

  Let I_init := dl_init n D ops I0 Iv HDL.
  Let I_update := dl_update n D ops I0 Iv HDL.
  Let I_apply := dl_apply n D ops I0 Iv HDL.
  Let I_changed := dl_changed n D ops I0 Iv HDL.
  Let I_reset := dl_reset n D ops I0 Iv HDL.

  Notation it := (iterate (T:=R)).
  Notation px := (proxit (T:=R)).
  Notation eprox := (eval_prox lb ub l1).
  Notation ecost := (eval_cost psi_yhat).
  Notation proxof := (eval_prox_it grad_L lb ub l1).
  Notation lsloopD := (zls_loopD psi_grad_full psi_yhat lb ub l1 D ops stop_req P from_prox).
  Notation passD_ := (zpassD psi_grad_full psi_yhat grad_L lb ub l1 D ops stop_req time_up P from_prox x_in y_in Σ errz_in ls_fuel).
  Notation loopD_ := (zloopD psi_grad_full psi_yhat grad_L lb ub l1 D ops stop_req time_up P from_prox x_in y_in Σ errz_in ls_fuel).
  Notation runD_ := (zerofprD psi_grad_full psi_yhat grad_L grad_psi lb ub l1 D ops stop_req time_up P from_prox x_in y_in Σ errz_in ls_fuel d0).
  Notation reachableD_ := (zreachableD psi_grad_full psi_yhat grad_L grad_psi lb ub l1 D ops stop_req time_up P from_prox x_in y_in Σ errz_in ls_fuel d0).
  Notation hasinit := (d_has_initial D ops).
  Notation Zcons := (zconsistent psi_grad_full psi_yhat grad_L lb ub l1).
  Notation Linit := (L_init psi_grad_full grad_psi P x_in).
  Notation lenx := (lenx n).

  (* x and ∇ψ(x) of an iterate / all four vectors of an iterate / the three vectors of a prox iterate have length n *)
  Definition gx (i : it) : Prop := length (ix i) = n /\ length (igrad i) = n.
  Definition lens4 (i : it) : Prop := length (ix i) = n /\ length (igrad i) = n /\ length (ixh i) = n /\ length (ip i) = n.
  Definition plens (p : px) : Prop := length (px_xh p) = n /\ length (px_p p) = n /\ length (px_grad p) = n.

  Lemma eprox_cost_lens (i : it) : gx i -> lens4 (ecost (eprox i)).
  Proof.
    intros [Hx Hg]. unfold eval_cost, eval_prox. rewrite Hl1. cbn [eval_prox_grad_step ix igrad ixh ip].
    destruct (proj_grad_step_length lb ub (igam i) (ix i) (igrad i) n Hlb Hub Hx Hg) as [A B]. repeat split; assumption.
  Qed.
  Lemma prox_step_plens γ (xh g : list R) : length xh = n -> length g = n -> plens (prox_step_in_prox lb ub l1 γ xh g).
  Proof.
    intros Hx Hg. unfold prox_step_in_prox, plens. rewrite Hl1. cbn [eval_prox_grad_step px_xh px_p px_grad].
    destruct (proj_grad_step_length lb ub γ xh g n Hlb Hub Hx Hg) as [A B]. repeat split; assumption.
  Qed.
  Lemma proxof_plens (i : it) : length (ixh i) = n -> plens (proxof i).
  Proof. intros Hx. unfold eval_prox_it. apply prox_step_plens; [exact Hx|apply HgL, Hx]. Qed.

  Lemma zdir_update_I b d (curr : it) (prox : px) (next : it) : Iv d -> lens4 curr -> plens prox -> lens4 next ->
    Iv (snd (zdir_update D ops b d curr prox next)).
  Proof.
    intros Hd (C1 & C2 & C3 & C4) (P1 & P2 & P3) (N1 & N2 & N3 & N4). unfold zdir_update. destruct b; apply I_update; assumption.
  Qed.

  (* ---- line search: curr and prox are read-only; the candidate keeps |x| = |∇ψ(x)| = n, the provider keeps Iv *)
  Definition ZLenI (τi : R) (s : ZeroFpr.ls_state (T:=R)) : Prop :=
    (gx (ZeroFpr.ls_next s) \/ (ZeroFpr.ls_tau_prev s = - 1 /\ ZeroFpr.ls_tau s = τi)) /\ (τi = 0 -> ZeroFpr.ls_tau s = 0).

  Lemma zls_lenD (curr : it) (prox : px) q τi : lens4 curr -> plens prox -> (τi = 0 \/ τi = 1) -> (τi = 1 -> length q = n) ->
    forall fuel s d rej, ZLenI τi s -> Iv d ->
    Iv (snd (fst (lsloopD fuel curr prox q τi s d rej))) /\
    match fst (fst (lsloopD fuel curr prox q τi s d rej)) with
    | ZeroFpr.LsDone l => lens4 (ZeroFpr.ls_next l)
    | _ => True
    end.
  Proof.
    intros Hc Hp Hτi Hq. pose proof Hc as (C1 & C2 & C3 & C4). pose proof Hp as (P1 & P2 & P3).
    induction fuel as [|fuel IH]; intros s d rej HI Hd; [split; [exact Hd|exact I]|].
    cbn [zls_loopD]. destruct (stop_req (ZeroFpr.ls_cnt s)); [split; [exact Hd|exact I]|].
    change (@nltb R NumR) with Rlt_bool. change (@neqb R NumR) with Req_bool. change (@nleb R NumR) with Rle_bool.
    change (@n0 R NumR) with 0. change (@n1 R NumR) with 1.
    set (τ := ZeroFpr.ls_tau s) in *.
    set (ph := if Req_bool τ (ZeroFpr.ls_tau_prev s) then (ZeroFpr.ls_next s, inc_polls (ZeroFpr.ls_cnt s))
               else if Req_bool τ 0 then (ZeroFpr.take_safe_step curr prox (ZeroFpr.ls_next s), inc_polls (ZeroFpr.ls_cnt s))
               else (ZeroFpr.take_accel_step psi_grad_full τ q curr (ZeroFpr.ls_next s), inc_pg (inc_polls (ZeroFpr.ls_cnt s)))).
    destruct HI as (Hn & Hz). fold τ in Hn, Hz.
    assert (F : gx (fst ph)).
    { subst ph. destruct (Req_bool_spec τ (ZeroFpr.ls_tau_prev s)) as [Et|Et].
      - cbn [fst]. destruct Hn as [Hn|[Hpv Ht]]; [exact Hn|].
        exfalso. fold τ in Ht. rewrite Ht, Hpv in Et. destruct Hτi; lra.
      - destruct (Req_bool_spec τ 0) as [E0|E0]; cbn [fst].
        + unfold gx, ZeroFpr.take_safe_step. cbn [ix igrad]. split; [exact C3|exact P3].
        + assert (Lc : length (zerofpr_candidate τ (ixh curr) q) = n).
          { apply zfpr_candidate_length; [exact C3|]. apply Hq.
            destruct Hτi as [Ei|Ei]; [|exact Ei]. exfalso. apply E0, Hz, Ei. }
          unfold gx, ZeroFpr.take_accel_step, eval_psi_grad. cbn [ix igrad]. split; [exact Lc|apply Hpg, Lc]. }
    destruct ph as [next c1]. cbn [fst] in F.
    match goal with |- context [if ?b then lsloopD fuel curr prox q τi ?s1 ?d1 ?r1 else _] => destruct b eqn:Efail; [apply (IH s1 d1 r1)|] end.
    { unfold ZLenI; cbn [ZeroFpr.ls_next ZeroFpr.ls_tau ZeroFpr.ls_tau_prev]. split; [left; exact F|]. reflexivity. }
    { apply I_reset, Hd. }
    set (next1 := ecost (eprox next)).
    assert (N1 : lens4 next1) by (apply eprox_cost_lens, F).
    assert (N1x : gx next1) by (destruct N1 as (A & B & _); split; assumption).
    match goal with |- context [if ?b then lsloopD fuel curr prox q τi ?s1 ?d1 ?r1 else _] => destruct b eqn:Equb; [apply (IH s1 d1 r1)|] end.
    { unfold ZLenI; cbn [ZeroFpr.ls_next ZeroFpr.ls_tau ZeroFpr.ls_tau_prev]. split; [left; exact N1x|].
      intros Ei. destruct (Rlt_bool_spec 0 τ) as [Hpp|Hpp]; [exact Ei|apply Hz, Ei]. }
    { exact Hd. }
    assert (Hu : Iv (snd (if ZeroFpr.ls_upd s && negb (ZeroFpr.ls_updated s) then zdir_update D ops from_prox d curr prox next1 else (true, d)))).
    { destruct (ZeroFpr.ls_upd s && negb (ZeroFpr.ls_updated s)); [apply zdir_update_I; assumption|exact Hd]. }
    match goal with |- context [if ?b then lsloopD fuel curr prox q τi ?s1 ?d1 ?r1 else _] => destruct b eqn:Els; [apply (IH s1 d1 r1)|] end.
    { unfold ZLenI; cbn [ZeroFpr.ls_next ZeroFpr.ls_tau ZeroFpr.ls_tau_prev]. split; [left; exact N1x|].
      intros Ei. exfalso. apply andb_prop in Els. destruct Els as [Hpos _]. apply Rlt_bool_iff in Hpos.
      specialize (Hz Ei). lra. }
    { exact Hu. }
    cbn [fst snd ZeroFpr.ls_next]. split; [exact Hu|exact N1].
  Qed.

  (* ---- the invariant at the top of `while (true)` *)
  Definition zoklen (r : option (list R)) : Prop := forall q, r = Some q -> length q = n.
  Definition zsaneD (d : D) : Prop := I0 d \/ Iv d.
  Definition zgoodD (sD : zstateD (T:=R) D) : Prop :=
    lenx (st_curr (zd_st D sD)) /\ ((st_k (zd_st D sD) = 0%nat /\ zsaneD (zd_dir D sD)) \/ Iv (zd_dir D sD)) /\ Forall zoklen (zd_trace D sD).

  Lemma zpassD_len sD : zgoodD sD -> Zcons (st_curr (zd_st D sD)) ->
    match passD_ sD with ZContD _ sD' => zgoodD sD' | ZExitD _ oD => zsaneD (zo_dir D oD) | _ => True end.
  Proof.
    destruct sD as [[curr next0 k np q0 cnt stats log] d rej tr]. unfold zgoodD. cbn [zd_st zd_dir zd_trace st_curr st_k].
    intros (Hl & Hk & Htr) Hcons.
    destruct (zcons_len psi_grad_full psi_yhat grad_L lb ub l1 n Hl1 Hlb Hub Hpg HgL curr Hcons Hl) as (Lg & Lxh & Lp).
    assert (Cc : lens4 curr) by (repeat split; assumption).
    unfold zpassD. cbn [zd_st zd_dir zd_rej zd_trace st_curr st_next st_k st_np st_q st_cnt st_stats st_log].
    set (prox := proxof curr).
    assert (Pp : plens prox) by (apply proxof_plens, Lxh). pose proof Pp as (P1 & P2 & P3).
    match goal with |- context [stop_status_helpers ?a ?b ?c ?d ?e ?f ?g ?h] => destruct (stop_status_helpers a b c d e f g h) end.
    2-8: (cbv zeta; match goal with |- context [exit_block ?a ?b ?c ?d ?e ?f ?g ?h] => destruct (exit_block a b c d e f g h) as [[xo yo] eo] end;
          cbn [zo_dir]; destruct Hk as [[_ Hk]|Hk]; [exact Hk|right; exact Hk]).
    destruct (if (k =? 0)%nat then d_initialize D ops d y_in Σ (igam curr) (ixh curr) (px_xh prox) (px_p prox) (px_grad prox) else Some d)
      as [d1|] eqn:Ed1; [|exact I].
    assert (H1 : Iv d1).
    { destruct (Nat.eqb_spec k 0) as [Ek|Ek].
      - refine (I_init _ _ _ _ _ _ _ _ _ _ Lxh P1 P2 P3 Ed1). destruct Hk as [[_ Hk]|Hk]; [exact Hk|right; exact Hk].
      - injection Ed1 as <-. destruct Hk as [[Hk _]|Hk]; [contradiction|exact Hk]. }
    change (@n0 R NumR) with 0. change (@n1 R NumR) with 1. change (@nopp R NumR) with Ropp. change (@neqb R NumR) with Req_bool.
    unfold zdir_phase.
    destruct ((0 <? k)%nat || hasinit) eqn:Euse.
    - destruct (d_apply D ops d1 (igam curr) (ixh curr) (px_xh prox) (px_p prox) (px_grad prox) q0) as [[[b q'] d2]|] eqn:Ea; [|exact I].
      destruct (I_apply _ _ _ _ _ _ _ _ _ _ H1 Lxh P1 P2 P3 Ea) as [H2 Hq'].
      set (r := if b then Some q' else None).
      set (τi := match r with Some q'' => if vall_finite q'' then 1 else 0 | None => 0 end).
      assert (Hτ : τi = 0 \/ τi = 1) by (subst τi; destruct r as [q''|]; [destruct (vall_finite q'')|]; auto).
      assert (Hq : τi = 1 -> length q' = n).
      { subst τi r. destruct b; [intros _; apply Hq'; reflexivity|intros; lra]. }
      assert (Hr : zoklen r) by (subst r; destruct b; intros q'' E; [injection E as <-; apply Hq'; reflexivity|discriminate]).
      assert (Htr' : Forall zoklen (tr ++ [r])) by (apply Forall_app; split; [exact Htr|constructor; [exact Hr|constructor]]).
      match goal with |- context [lsloopD ls_fuel curr prox q' τi ?l0 ?d3 ?rj] =>
        set (ls0 := l0);
        assert (H3 : Iv d3) by (destruct (true && negb (Req_bool τi 1)); [apply I_reset, H2|exact H2]);
        assert (HI : ZLenI τi ls0) by
          (subst ls0; unfold ZLenI; cbn [ZeroFpr.ls_next ZeroFpr.ls_tau ZeroFpr.ls_tau_prev]; split; [right; split; reflexivity|]; intros E; exact E);
        pose proof (zls_lenD curr prox q' τi Cc Pp Hτ Hq ls_fuel ls0 d3 rj HI H3) as [H4 Hls];
        destruct (lsloopD ls_fuel curr prox q' τi ls0 d3 rj) as [[lr d4] rej4]
      end.
      cbn [fst snd] in H4, Hls. destruct lr as [l|l|]; [| |exact I].
      + (* line search completed *)
        cbn [zd_st zd_dir zd_trace st_curr st_k].
        split; [destruct Hls as (A & _); exact A|]. split; [right|exact Htr'].
        destruct (ZeroFpr.ls_updated l); cbn [negb andb snd]; [exact H4|].
        set (ch := negb (Req_bool (igam curr) (igam (ZeroFpr.ls_next l)))).
        assert (H5 : Iv (if ch then d_changed_gamma D ops d4 (igam (ZeroFpr.ls_next l)) (igam curr) else d4))
          by (destruct ch; [apply I_changed, H4|exact H4]).
        apply zdir_update_I; [exact H5| | |exact Hls].
        * destruct (ch && p_recompute P); [unfold lens4, set_gamma_L; cbn [ix igrad ixh ip]|]; exact Cc.
        * destruct (ch && p_recompute P); [apply prox_step_plens; assumption|exact Pp].
      + (* interrupted *)
        cbn [zd_st zd_dir zd_trace st_curr st_k]. split; [exact Hl|]. split; [right; exact H4|exact Htr'].
    - cbn [andb].
      assert (Hτ : 0 = 0 \/ 0 = 1) by (left; reflexivity).
      assert (Hq : 0 = 1 -> length q0 = n) by (intros; lra).
      match goal with |- context [lsloopD ls_fuel curr prox q0 0 ?l0 ?d3 ?rj] =>
        set (ls0 := l0);
        assert (HI : ZLenI 0 ls0) by
          (subst ls0; unfold ZLenI; cbn [ZeroFpr.ls_next ZeroFpr.ls_tau ZeroFpr.ls_tau_prev]; split; [right; split; reflexivity|]; intros E; exact E);
        pose proof (zls_lenD curr prox q0 0 Cc Pp Hτ Hq ls_fuel ls0 d3 rj HI H1) as [H4 Hls];
        destruct (lsloopD ls_fuel curr prox q0 0 ls0 d3 rj) as [[lr d4] rej4]
      end.
      cbn [fst snd] in H4, Hls. destruct lr as [l|l|]; [| |exact I].
      + cbn [zd_st zd_dir zd_trace st_curr st_k].
        split; [destruct Hls as (A & _); exact A|]. split; [right|exact Htr].
        destruct (ZeroFpr.ls_updated l); cbn [negb andb snd]; [exact H4|].
        set (ch := negb (Req_bool (igam curr) (igam (ZeroFpr.ls_next l)))).
        assert (H5 : Iv (if ch then d_changed_gamma D ops d4 (igam (ZeroFpr.ls_next l)) (igam curr) else d4))
          by (destruct ch; [apply I_changed, H4|exact H4]).
        apply zdir_update_I; [exact H5| | |exact Hls].
        * destruct (ch && p_recompute P); [unfold lens4, set_gamma_L; cbn [ix igrad ixh ip]|]; exact Cc.
        * destruct (ch && p_recompute P); [apply prox_step_plens; assumption|exact Pp].
      + cbn [zd_st zd_dir zd_trace st_curr st_k]. split; [exact Hl|]. split; [right; exact H4|exact Htr].
  Qed.

  Lemma zinit_qub_ix : forall fuel i c st i' c' st', ZeroFpr.init_qub psi_yhat lb ub l1 P fuel i c st = Some (i', c', st') -> ix i' = ix i.
  Proof.
    induction fuel as [|fuel IH]; intros i c st i' c' st'; cbn [ZeroFpr.init_qub];
      destruct (nltb (iL i) (p_Lmax P) && it_qub_violated P i); try discriminate.
    1,3: intros E; inversion E; subst; reflexivity.
    intros E. rewrite (IH _ _ _ _ _ _ E). reflexivity.
  Qed.

  Theorem zreachableD_goodD sD : reachableD_ sD -> zgoodD sD.
  Proof.
    induction 1 as [i0 c0 i3 c1 s1 E0 Eq|sD sD' Hr IH Ep].
    - unfold zgoodD. cbn [zd_st zd_dir zd_trace st_curr st_k]. split; [|split; [left; split; [reflexivity|exact Hd0]|constructor]].
      unfold ZeroFprLen.lenx. rewrite (zinit_qub_ix _ _ _ _ _ _ _ Eq). cbn [eval_cost eval_prox set_gamma_L ix].
      pose proof (initL_ix psi_grad_full grad_psi P x_in) as H0. rewrite E0 in H0. cbn [fst] in H0. rewrite H0. exact Hxin.
    - destruct (zerofprD_check psi_grad_full psi_yhat grad_L grad_psi lb ub l1 D ops stop_req time_up P from_prox x_in y_in Σ errz_in ls_fuel d0 sD Hr) as (Hc & _).
      pose proof (zpassD_len sD IH Hc) as Hp. now rewrite Ep in Hp.
  Qed.

  (* ---- every completed run ends in an exit pass from a reachable state *)
  Lemma zloopD_exit : forall fuel sD oD, reachableD_ sD -> loopD_ fuel sD = ZDoneD D oD -> exists sD', reachableD_ sD' /\ passD_ sD' = ZExitD D oD.
  Proof.
    induction fuel as [|fuel IH]; intros sD oD Hr; cbn [zloopD]; [discriminate|].
    destruct (passD_ sD) as [o'|sD'| |] eqn:Ep.
    - intros E. inversion E; subst. exists sD. split; assumption.
    - apply IH. eapply zreachD_step; eassumption.
    - discriminate.
    - discriminate.
  Qed.
  Theorem zerofprD_exit_pass fuel oD : runD_ fuel = ZDoneD D oD -> exists sD, reachableD_ sD /\ passD_ sD = ZExitD D oD.
  Proof.
    unfold zerofprD. destruct (init_L psi_grad_full grad_psi P x_in) as [i0 c0] eqn:E0.
    destruct (negb (nfinite (iL i0))); [discriminate|].
    destruct (ZeroFpr.init_qub psi_yhat lb ub l1 P ls_fuel _ (inc_py c0) stats0) as [[[i3 c1] s1]|] eqn:Eq; [|discriminate].
    apply zloopD_exit. eapply zreachD_init; eassumption.
  Qed.

  (* the provider a completed run hands back is sane again *)
  Theorem zerofprD_out_dir fuel oD : runD_ fuel = ZDoneD D oD -> zsaneD (zo_dir D oD).
  Proof.
    intros Hr. destruct (zerofprD_exit_pass fuel oD Hr) as (sD & Hreach & Hp).
    destruct (zerofprD_check psi_grad_full psi_yhat grad_L grad_psi lb ub l1 D ops stop_req time_up P from_prox x_in y_in Σ errz_in ls_fuel d0 sD Hreach) as (Hc & _).
    pose proof (zpassD_len sD (zreachableD_goodD sD Hreach) Hc) as H. now rewrite Hp in H.
  Qed.

  (* every accepted apply result of a completed run has length n *)
  Theorem zerofprD_trace_len fuel oD : runD_ fuel = ZDoneD D oD -> Forall zoklen (zo_trace D oD).
  Proof.
    intros Hr. destruct (zerofprD_exit_pass fuel oD Hr) as (sD & Hreach & Hp).
    destruct (zreachableD_goodD sD Hreach) as (_ & _ & Htr).
    pose proof (zreachableD_inv eq00R lt00R psi_grad_full psi_yhat grad_L grad_psi lb ub l1 D ops stop_req time_up P from_prox x_in y_in Σ errz_in ls_fuel d0 sD Hreach) as Hi.
    pose proof (zpassD_inv eq00R lt00R psi_grad_full psi_yhat grad_L lb ub l1 D ops stop_req time_up P from_prox x_in y_in Σ errz_in ls_fuel sD Hi) as Hpi.
    rewrite Hp in Hpi. rewrite Hpi. exact Htr.
  Qed.

  (* the oracle read off the trace returns n-vectors: the direction-length hypothesis of ZeroFprLen is discharged *)
  Lemma zoracle_len (tr : list (option (list R))) (O : nat -> it -> px -> option (list R)) :
    Forall zoklen tr -> (forall j i p, O j i p = nth j tr None) -> forall j i p q, O j i p = Some q -> length q = n.
  Proof.
    intros Htr HO j i p q E. rewrite HO in E.
    destruct (Nat.lt_ge_cases j (length tr)) as [Hj|Hj].
    - rewrite Forall_forall in Htr. apply (Htr (nth j tr None)); [apply nth_In, Hj|exact E].
    - rewrite nth_overflow in E by exact Hj. discriminate.
  Qed.

  (* ---- the primal buffer after any completed run has length n *)
  Theorem zerofprD_out_x_length fuel oD : runD_ fuel = ZDoneD D oD -> length (out_x (zo_out D oD)) = n.
  Proof.
    intros Hr. pose proof (zerofprD_trace_len fuel oD Hr) as Htr.
    destruct (zerofprD_refines_R psi_grad_full psi_yhat grad_L grad_psi lb ub l1 D ops stop_req time_up P from_prox x_in y_in Σ errz_in ls_fuel d0 fuel oD Hr)
      as (O & o & HO & Eo & (_ & _ & _ & E4 & _)).
    rewrite E4.
    exact (zerofpr_out_x_length psi_grad_full psi_yhat grad_L grad_psi lb ub l1 O hasinit stop_req time_up P x_in y_in Σ errz_in ls_fuel n
             Hl1 Hlb Hub Hxin Hpg HgL (zoracle_len _ O Htr HO) fuel o Eo).
  Qed.

  (* ---- the inner contract with dimensions, for ZeroFPR with the provider *)
  Theorem zerofprD_inner_contract_len fuel oD : runD_ fuel = ZDoneD D oD ->
    let o := zo_out D oD in
    out_status o = StConverged -> p_crit P = ApproxKKT ->
    exists (x grad : list R) (γ : R),
      let step := proj_grad_step lb ub γ x grad in
      let gradh := grad_L (out_x o) (out_y o) in
      length x = n /\ length grad = n /\
      out_x o = fst (fst step) /\ length (out_x o) = n /\
      out_y o = snd (psi_yhat (out_x o)) /\
      out_errz o = match errz_in with [] => [] | _ => vdiv (vsub (out_y o) y_in) Σ end /\
      out_eps o = vnorminf (kkt_residual γ (snd (fst step)) grad gradh) /\
      out_eps o <= eff_tol (o_tol P) /\
      (0 < p_Lgamma P -> 0 < Linit -> 0 < γ).
  Proof.
    intros Hr. pose proof (zerofprD_trace_len fuel oD Hr) as Htr.
    destruct (zerofprD_refines_R psi_grad_full psi_yhat grad_L grad_psi lb ub l1 D ops stop_req time_up P from_prox x_in y_in Σ errz_in ls_fuel d0 fuel oD Hr)
      as (O & o & HO & Eo & (E1 & _ & E3 & E4 & E5 & E6 & _)).
    cbv zeta. rewrite E1, E3, E4, E5, E6.
    exact (zerofpr_inner_contract_len psi_grad_full psi_yhat grad_L grad_psi lb ub l1 O hasinit stop_req time_up P x_in y_in Σ errz_in ls_fuel n
             Hl1 Hlb Hub Hxin Hpg HgL (zoracle_len _ O Htr HO) fuel o Eo).
  Qed.
End DirLenZ.
