(* Corr_SparsityGen.v — translation validation of translator G14a (translate/gen_sparsity.py): the GENERATED converters of
   coq/gen/SparsityGen.v (behind the dispatch of SparsityGenInst.g_run) against the records of the real converters that drv_C14
   produced — the same cases and observables as Corr_C14.chk14, but none of the hand-model functions of Sparsity.v is involved.
   The target buffer starts filled with the driver's sentinel -777, so an element the generated convert_values does not write
   shows up exactly as it does in the implementation's output. *)
From Coq Require Import List ZArith Bool Arith.
From Alpaqa Require Import Sparsity SparsityGenLib SparsityGen SparsityGenInst Corr_C14.
Import ListNotations.

Definition model14g (c : c14case) : outcome (sparsity * outcome (list Z)) :=
  match c with Case14 from req v _ => g_run 0%Z (-777)%Z from req v end.

Definition chk14g (c : c14case) : bool :=
  match c with
  | Case14 _ _ _ out =>
      match model14g c, out with
      | Ok (to, Ok w), IOk to' w' => sparsity_eqb to to' && list_eqb Z.eqb w w'
      | Ok (to, ThrowInvalidArgument), IValuesInvalid to' => sparsity_eqb to to'
      | ThrowInvalidArgument, ICtorInvalid => true
      | ThrowRuntimeError, ICtorRuntime => true
      | _, _ => false
      end
  end.
