(* AlmCompose.v — the ALM outer loop (Alm.v = ALMSolver<InnerSolverT>::operator()) COMPOSED with an inner solver given as a function,
   instead of a script of inner outcomes.  Model only, no proofs (AlmComposeProofs.v).

   The outer loop hands the inner solver, at outer iteration i:  x (in/out), y := Π_Y(y) (in/out), Σ_curr, opts.tolerance = ε_i,
   the err_z buffer (in/out), always_overwrite_results = true  — and reads back: status, ε, iterations, the buffers, the clock.
   `inner w i x y Σ tol errz` returns what ALM sees (an Alm.inner_res), the x buffer after the call, a log of the solve and the new
   "world" w (cumulative event counters / oracle positions shared by successive solves, e.g. the position of a scripted direction).
   The composed run produces the script of inner outcomes; the ALM result IS Alm.alm_run on that script, so every theorem of
   AlmProofs.v applies to it. *)
From Coq Require Import List ZArith Bool Arith.
From Alpaqa Require Import Num Vec Prox Alm.
Import ListNotations.

Section Compose.
  Context {T : Type} `{Num T}.
  Local Open Scope num_scope.
  Variables (W Lg : Type).
  Variable inner : W -> nat -> list T -> list T -> list T -> T -> list T -> option (inner_res * list T * Lg * W).
  Variable P : alm_params.
  Variable pb : alm_problem.

  (* p.eval_proj_multipliers(y, params.max_multiplier) *)
  Definition c_y_in (s : st) : list T := proj_multipliers (pb_split pb) (pb_lb pb) (pb_ub pb) (p_M P) (s_y s).
  (* the loop-carried state after an iteration that does not exit (the `let s'` of Alm.alm_loop) *)
  Definition c_next (i : nat) (s : st) (r : inner_res) : st :=
    let m := pb_m pb in
    let err := pick m (ir_err r) (s_err s) in
    let norm_e := vnorminf err in
    {| s_Sigma := update_penalty_weights P (Nat.eqb i 0) err (s_err_old s) norm_e (s_norm_old s) (s_Sigma s);
       s_err := s_err_old s; s_err_old := err; s_norm_old := norm_e;
       s_eps := nfmax (p_rho P * s_eps s) (p_tol P);
       s_y := pick m (ir_y r) (c_y_in s);
       s_fails := (s_fails s + (if is_converged (ir_status r) then 0 else 1))%nat;
       s_iters := (s_iters s + ir_iters r)%nat |}.

  Record cres := mkC { c_script : list inner_res; c_logs : list Lg; c_x : list T; c_w : W }.

  (* for (i = 0; i < max_iter; ++i): the loop goes on exactly when Alm.alm_loop would ask for another script element *)
  Fixpoint c_loop (fuel i : nat) (s : st) (x : list T) (w : W) : option cres :=
    match fuel with
    | O => None
    | S f =>
        match inner w i x (c_y_in s) (s_Sigma s) (s_eps s) (s_err s) with
        | None => None
        | Some (r, x', lg, w') =>
            if f_exhausted (snd (alm_loop P pb i s [r])) then
              match c_loop f (S i) (c_next i s r) x' w' with
              | None => None
              | Some c => Some (mkC (r :: c_script c) (lg :: c_logs c) (c_x c) (c_w c))
              end
            else Some (mkC [r] [lg] x' w')
        end
    end.

  (* ALMSolver::operator()(p, x, y, Σ): f0 = eval_f(x0), g0 = eval_g(x0) are looked at by initialize_penalty only *)
  Definition c_script_of (fuel : nat) (f0 : T) (g0 : list T) (nanv : T) (Σ0 : option (list T)) (y0 x0 : list T) (w0 : W)
      : option cres :=
    if Nat.eqb (p_max_iter P) 0 then Some (mkC [] [] x0 w0)
    else if Nat.eqb (pb_m pb) 0 then
      (* vec Σ_curr(0), error(0); opts.tolerance = params.tolerance; y not projected *)
      match inner w0 0 x0 y0 [] (p_tol P) [] with
      | None => None
      | Some (r, x', lg, w') => Some (mkC [r] [lg] x' w')
      end
    else c_loop fuel 0 (init_state P pb f0 g0 nanv Σ0 y0) x0 w0.

  Record cout := mkCO { co_trace : list iter_rec; co_final : final; co_x : list T; co_logs : list Lg; co_w : W }.

  Definition c_run (fuel : nat) (f0 : T) (g0 : list T) (nanv : T) (Σ0 : option (list T)) (y0 x0 : list T) (w0 : W) : option cout :=
    match c_script_of fuel f0 g0 nanv Σ0 y0 x0 w0 with
    | None => None
    | Some c => let r := alm_run P pb f0 g0 nanv Σ0 y0 (c_script c) in
                Some (mkCO (fst r) (snd r) (c_x c) (c_logs c) (c_w c))
    end.
End Compose.
