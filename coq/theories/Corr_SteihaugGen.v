(* Corr_SteihaugGen.v — translation validation of translator G11b (translate/gen_steihaug.py) at binary64: the GENERATED
   g_solve of coq/gen/SteihaugGen.v (loop body g_solve_while_step, g_bnd, the lambda eval, the tolerance) against what the real
   SteihaugCG::solve returned on the direct-call cases of drv_C11 (CCg) — independent of the hand model Steihaug.v
   (only `mat_vec`, the dense matrix product the harness uses as hess_prod, is shared).
   The work vectors z, r, d, Bd, work_eval and the incoming step have size n; their contents are overwritten before use. *)
From Coq Require Import Floats List ZArith Bool.
From Alpaqa Require Import Num NumF Vec Prox Steihaug SteihaugGenLib SteihaugGen Corr_C11.
Import ListNotations.

Definition model11g (c : c11case) : option (float * list float) :=
  match c with
  | CCg g Bm Δ ts tsr tmax mi _ _ _ =>
      g_solve (mat_vec Bm) ts tsr tmax mi (S (S (Z.to_nat mi))) g g g g g g Δ g
  | CNtr _ _ _ _ _ _ _ _ _ _ _ _ _ _ _ _ _ => None
  end.

Definition chk11g (c : c11case) : bool :=
  match c with
  | CCg _ _ _ _ _ _ _ s q _ =>
      match model11g c with
      | Some (val, st) => vfeq st s && feq val q
      | None => false
      end
  | CNtr _ _ _ _ _ _ _ _ _ _ _ _ _ _ _ _ _ => true
  end.
