(* VtableProofs.v — the tie between the sources and AugLag.v (C04):
   (a) the Gallina terms GENERATED from type-erased-problem.tpp (coq/gen/VtableGen.v: gcalc, gvt_xxx) compute the same values
       and call the same user members (as a multiset) as the hand-written te_xxx compositions the C04 theorems are about;
   (b) finite theorems over the generated tables (vtable fields, constructor macros, provides_/supports_, call sites, CasADi). *)
From Coq Require Import Reals List ZArith Lra Lia Bool String FunctionalExtensionality.
From Alpaqa Require Import Num NumR Vec Prox ProxProofs AugLag AugLagProofs Vtable VtableGen.
Import ListNotations.
Local Open Scope R_scope.

Definition fn_eq_dec : forall a b : fn, {a = b} + {a <> b}.
Proof. decide equality. Defined.

(* same value, same calls up to the order of independent calls *)
Definition log_equiv (l1 l2 : list fn) : Prop := forall c, count_occ fn_eq_dec l1 c = count_occ fn_eq_dec l2 c.
Definition m_equiv {A} (a b : M A) : Prop := fst a = fst b /\ log_equiv (snd a) (snd b).
Lemma eq_m_equiv {A} (a b : M A) : a = b -> m_equiv a b.
Proof. intros ->. split; [reflexivity|intros c; reflexivity]. Qed.

Lemma log_equiv_In l1 l2 c : log_equiv l1 l2 -> In c l1 -> In c l2.
Proof.
  intros He Hin. apply (count_occ_In fn_eq_dec) in Hin. apply (count_occ_In fn_eq_dec). rewrite <- He. exact Hin.
Qed.
Lemma log_equiv_ok prov l1 l2 : log_equiv l1 l2 -> log_ok prov l2 -> log_ok prov l1.
Proof. intros He Hok c Hin. apply Hok. eapply log_equiv_In; eassumption. Qed.

Lemma bind_equiv {A B} (m1 m2 : M A) (k1 k2 : A -> M B) :
  m_equiv m1 m2 -> (forall a, m_equiv (k1 a) (k2 a)) -> m_equiv (bind m1 k1) (bind m2 k2).
Proof.
  intros [Hf Hl] Hk. split.
  - rewrite !fst_bind, Hf. apply Hk.
  - intros c. rewrite !snd_bind, !count_occ_app, Hf, Hl. f_equal. apply Hk.
Qed.

(* decide m_equiv on terms whose `prov` tests and list shapes have been case-split *)
Ltac split_prov :=
  repeat match goal with
         | |- context [if ?p ?c then _ else _] =>
             match type of (p c) with bool => destruct (p c) end
         end.
(* equality of values over R up to ring identities inside the expressions: try ring before descending structurally *)
Ltac veq :=
  first [ reflexivity
        | solve [numR; unfold Rdiv; ring]
        | (let x := fresh "x" in extensionality x); veq
        | progress f_equal; veq ].
Ltac close_equiv :=
  first [ apply eq_m_equiv; reflexivity
        | split; [ first [ reflexivity | cbn; unfold vscale, vadd, vsub, vdiv, vmul; veq ]
                 | intros c; destruct c; reflexivity ] ].

Section Equiv.
  Variable P : problem (T:=R).
  Variable prov : fn -> bool.

  Lemma gcalc_equiv g y Σ : m_equiv (gcalc P g y Σ) (calc_yhat P g y Σ).
  Proof.
    unfold gcalc, calc_yhat, calc_yhat_scalar, calc_yhat_vector, gvt_eval_proj_diff_g, v_proj_diff_g.
    destruct Σ as [|s [|s' Σ']]; close_equiv.
  Qed.

  Lemma gvt_f_grad_f_equiv x : m_equiv (gvt_eval_f_grad_f P prov x) (te_f_grad_f P prov x).
  Proof.
    unfold gvt_eval_f_grad_f, gdef_eval_f_grad_f, te_f_grad_f, gvt_eval_grad_f, gvt_eval_f, v_grad_f, v_f.
    split_prov; close_equiv.
  Qed.
  Lemma gvt_f_g_equiv x : m_equiv (gvt_eval_f_g P prov x) (te_f_g P prov x).
  Proof.
    unfold gvt_eval_f_g, gdef_eval_f_g, te_f_g, gvt_eval_g, gvt_eval_f, v_g, v_f.
    split_prov; close_equiv.
  Qed.
  Lemma gvt_grad_f_grad_g_prod_equiv x y :
    m_equiv (gvt_eval_grad_f_grad_g_prod P prov x y) (te_grad_f_grad_g_prod P prov x y).
  Proof.
    unfold gvt_eval_grad_f_grad_g_prod, gdef_eval_grad_f_grad_g_prod, te_grad_f_grad_g_prod,
      gvt_eval_grad_f, gvt_eval_grad_g_prod, v_grad_f, v_grad_g_prod.
    split_prov; close_equiv.
  Qed.
  Lemma gvt_grad_L_equiv x y : m_equiv (gvt_eval_grad_L P prov x y) (te_grad_L P prov x y).
  Proof.
    unfold gvt_eval_grad_L, gdef_eval_grad_L, te_grad_L,
      gvt_eval_grad_f_grad_g_prod, gdef_eval_grad_f_grad_g_prod, te_grad_f_grad_g_prod,
      gvt_eval_grad_f, gvt_eval_grad_g_prod, v_grad_f, v_grad_g_prod.
    destruct y; split_prov; close_equiv.
  Qed.

  Ltac unfold_all :=
    unfold gvt_eval_psi, gdef_eval_psi, te_psi, gvt_eval_grad_psi, gdef_eval_grad_psi, te_grad_psi,
      gvt_eval_psi_grad_psi, gdef_eval_psi_grad_psi, te_psi_grad_psi,
      gvt_eval_grad_L, gdef_eval_grad_L, te_grad_L,
      gvt_eval_grad_f_grad_g_prod, gdef_eval_grad_f_grad_g_prod, te_grad_f_grad_g_prod,
      gvt_eval_f_g, gdef_eval_f_g, te_f_g, gvt_eval_f_grad_f, gdef_eval_f_grad_f, te_f_grad_f,
      gcalc, calc_yhat, calc_yhat_scalar, calc_yhat_vector,
      gvt_eval_proj_diff_g, gvt_eval_grad_f, gvt_eval_grad_g_prod, gvt_eval_g, gvt_eval_f,
      v_proj_diff_g, v_grad_f, v_grad_g_prod, v_g, v_f.

  (* when the problem has constraints (y non-empty) the defaults also branch on the shape of ŷ returned by calc:
     split on Σ (scalar / vector path) and on the result of the projection *)
  Ltac shapes y Σ :=
    destruct y as [|y0 y]; [|destruct Σ as [|s [|s' Σ']]].

  (* the ŷ buffer is left untouched when y.size() == 0; it then has size m = 0 *)
  Lemma gvt_psi_equiv x y Σ yh_in : (y = [] -> yh_in = []) ->
    m_equiv (gvt_eval_psi P prov x y Σ yh_in) (te_psi P prov x y Σ).
  Proof.
    intros Hin. unfold_all. shapes y Σ; [rewrite (Hin eq_refl)| | |]; split_prov; close_equiv.
  Qed.

  (* compositional fallback: align the two computations bind by bind, using the equivalences already proved *)
  Ltac comp_equiv :=
    repeat first
      [ apply eq_m_equiv; reflexivity
      | apply gcalc_equiv | apply gvt_grad_L_equiv | apply gvt_f_g_equiv | apply gvt_f_grad_f_equiv
      | apply gvt_grad_f_grad_g_prod_equiv
      | apply bind_equiv; [ | intros ? ] ].

  Lemma gvt_grad_psi_equiv x y Σ : m_equiv (gvt_eval_grad_psi P prov x y Σ) (te_grad_psi P prov x y Σ).
  Proof.
    first [ solve [unfold_all; shapes y Σ; split_prov; close_equiv]
          | unfold gvt_eval_grad_psi, gdef_eval_grad_psi, te_grad_psi; destruct (prov Fgrad_psi); destruct y; comp_equiv ].
  Qed.

  Lemma gvt_psi_grad_psi_equiv x y Σ :
    m_equiv (gvt_eval_psi_grad_psi P prov x y Σ) (te_psi_grad_psi P prov x y Σ).
  Proof.
    first [ solve [unfold_all; shapes y Σ; split_prov; close_equiv]
          | unfold gvt_eval_psi_grad_psi, gdef_eval_psi_grad_psi, te_psi_grad_psi; destruct (prov Fpsi_grad_psi); destruct y; comp_equiv ].
  Qed.

  Lemma gvt_hess_psi_prod_equiv m x y Σ scale v :
    gvt_eval_hess_psi_prod P prov m x y Σ scale v = te_hess_psi_prod P prov m x y Σ scale v.
  Proof. reflexivity. Qed.
End Equiv.

(* ---- the C04 value theorems, restated for the GENERATED vtable entries ---- *)
Section Generated.
  Variable P : problem (T:=R).
  Variable prov : fn -> bool.
  Hypothesis Hprov : provider_ok P prov.
  Hypothesis Hempty : grad_g_prod_empty_ok P.

  Lemma gen_calc_def g y Σ :
    fst (gcalc P g y Σ) =
      (dist2_of (plb P) (pub P) (expand_sigma Σ (List.length y)) (zeta_of g y (expand_sigma Σ (List.length y))),
       yhat_of (plb P) (pub P) (expand_sigma Σ (List.length y)) (zeta_of g y (expand_sigma Σ (List.length y)))).
  Proof. destruct (gcalc_equiv P g y Σ) as [-> _]. apply calc_yhat_spec. Qed.
  Lemma gen_f_grad_f_def x : fst (gvt_eval_f_grad_f P prov x) = (pf P x, pgrad_f P x).
  Proof. destruct (gvt_f_grad_f_equiv P prov x) as [-> _]. now apply te_f_grad_f_val. Qed.
  Lemma gen_f_g_def x : fst (gvt_eval_f_g P prov x) = (pf P x, pg P x).
  Proof. destruct (gvt_f_g_equiv P prov x) as [-> _]. now apply te_f_g_val. Qed.
  Lemma gen_grad_f_grad_g_prod_def x y :
    fst (gvt_eval_grad_f_grad_g_prod P prov x y) = (pgrad_f P x, pgrad_g_prod P x y).
  Proof. destruct (gvt_grad_f_grad_g_prod_equiv P prov x y) as [-> _]. now apply te_grad_f_grad_g_prod_val. Qed.
  Lemma gen_grad_L_def x y : fst (gvt_eval_grad_L P prov x y) = vadd (pgrad_f P x) (pgrad_g_prod P x y).
  Proof. destruct (gvt_grad_L_equiv P prov x y) as [-> _]. now apply te_grad_L_val. Qed.
  Lemma gen_psi_def x y Σ yh_in : (y = [] -> yh_in = []) ->
    fst (gvt_eval_psi P prov x y Σ yh_in) = (psi_def P x y Σ, yhat_def P x y Σ).
  Proof. intros H. destruct (gvt_psi_equiv P prov x y Σ yh_in H) as [-> _]. now apply te_psi_val. Qed.
  Lemma gen_grad_psi_def x y Σ :
    fst (gvt_eval_grad_psi P prov x y Σ) = vadd (pgrad_f P x) (pgrad_g_prod P x (yhat_def P x y Σ)).
  Proof. destruct (gvt_grad_psi_equiv P prov x y Σ) as [-> _]. now apply te_grad_psi_val. Qed.
  Lemma gen_psi_grad_psi_def x y Σ :
    fst (gvt_eval_psi_grad_psi P prov x y Σ)
    = (psi_def P x y Σ, vadd (pgrad_f P x) (pgrad_g_prod P x (yhat_def P x y Σ))).
  Proof. destruct (gvt_psi_grad_psi_equiv P prov x y Σ) as [-> _]. now apply te_psi_grad_psi_val. Qed.
End Generated.

(* no generated evaluation reaches an optional member the problem does not supply *)
Lemma gen_logs_only_provided (P : problem (T:=R)) prov x y Σ :
  log_ok prov (snd (gvt_eval_psi P prov x y Σ [])) /\ log_ok prov (snd (gvt_eval_grad_psi P prov x y Σ)) /\
  log_ok prov (snd (gvt_eval_psi_grad_psi P prov x y Σ)) /\ log_ok prov (snd (gvt_eval_grad_L P prov x y)).
Proof.
  repeat split.
  - destruct y as [|y0 y].
    + eapply log_equiv_ok; [apply (gvt_psi_equiv P prov x [] Σ []); auto|apply log_psi].
    + eapply log_equiv_ok; [apply (gvt_psi_equiv P prov x (y0 :: y) Σ []); discriminate|apply log_psi].
  - eapply log_equiv_ok; [apply gvt_grad_psi_equiv|apply log_grad_psi].
  - eapply log_equiv_ok; [apply gvt_psi_grad_psi_equiv|apply log_psi_grad_psi].
  - eapply log_equiv_ok; [apply gvt_grad_L_equiv|apply log_grad_L].
Qed.

(* ================= finite theorems over the generated tables ================= *)
Local Open Scope string_scope.

Lemma forallb_In {A} (f : A -> bool) l : forallb f l = true -> forall x, In x l -> f x = true.
Proof. intros H x. now apply forallb_forall. Qed.

(* every optional entry starts with default_<own name>, has a body, is registered by the OPTIONAL macro and provides_<name>
   is `vtable.<name> != vtable.default_<name>`; required entries have no default and are registered by the REQUIRED macro *)
Lemma vtable_methods_wellformed : forall m, In m vtable_methods -> chk_method m = true.
Proof. apply forallb_In. vm_compute. reflexivity. Qed.
(* every entry the constructor registers is a field and vice versa; every provides_* belongs to an optional field *)
Lemma vtable_ctor_complete :
  list_eqb vtable_ctor_names (map vm_name vtable_methods) = true /\
  list_eqb vtable_provides_names (map vm_name (filter (fun m => negb (vm_required m)) vtable_methods)) = true.
Proof. split; vm_compute; reflexivity. Qed.
Lemma vtable_throwing_defaults_named : forall m, In m vtable_methods -> chk_throw_name m = true.
Proof. apply forallb_In. vm_compute. reflexivity. Qed.
Lemma vtable_call_sites_ok : forall s, In s vtable_call_sites -> chk_site vtable_methods s = true.
Proof. apply forallb_In. vm_compute. reflexivity. Qed.
Lemma vtable_composition_acyclic : forall m, In m vtable_methods -> chk_acyclic vtable_methods m = true.
Proof. apply forallb_In. vm_compute. reflexivity. Qed.
Lemma vtable_supports_ok : forall s, In s vtable_supports -> chk_supports vtable_methods s = true.
Proof. apply forallb_In. vm_compute. reflexivity. Qed.
Lemma vtable_forwarders_ok : forall f, In f vtable_forwarders -> chk_forwarder f = true.
Proof. apply forallb_In. vm_compute. reflexivity. Qed.
Lemma hess_psi_prod_throws_own_name : hess_psi_prod_thrown = "eval_hess_ψ_prod".
Proof. reflexivity. Qed.
Lemma casadi_call_args_ok : forall c, In c casadi_calls -> chk_casadi c = true.
Proof. apply forallb_In. vm_compute. reflexivity. Qed.
Lemma casadi_calls_nonempty : (10 <= List.length casadi_calls)%nat.
Proof. vm_compute. lia. Qed.
