(* Properties_C02.v — C02 (partial): on well-posed convex problems every solver stack converges to the minimiser.
   PROVED (for all strongly convex QPs, all boxes C and D incl. infinite/equal sides, all dimensions):
     an approximate KKT pair (x, y) with tolerances (ε, δ) — which is what `Converged` certifies, see C01 — satisfies
        mu ||x - xs||^2 <= eps ||x - xs||_1 + delta ||y - ys||_1       against the exact KKT pair (xs, ys).
   NOT PROVED (stated here in full, explored on the implementation by the check's oracle): that every shipped stack
     (ALM over PANOC/ZeroFPR/PANTR/FISTA with each direction provider, and each inner solver alone) DOES return Converged within the
     iteration limits on such problems.  That liveness statement needs a convergence-rate analysis of the accelerated methods and of
     the outer ALM loop which is outside what this development formalises; the missing link is named `stack_reaches_converged`.   *)
From Coq Require Import Reals List ZArith Bool Lra.
From Alpaqa Require Import Num NumR Vec Prox ProxProofs ProxVec QpBound.
Import ListNotations.
Local Open Scope R_scope.

Theorem C02_qp_error_bound :
  forall (Qmul Amul ATmul : list R -> list R) (c : list R) (Clb Cub Dlb Dub : list (option R)) (μ : R) (n m : nat)
         (xs ys x y rs r s z e : list R) (ε δ : R),
  length x = n /\ length xs = n /\ length r = n /\ length rs = n /\ length s = n /\ length c = n /\
    length Clb = n /\ length Cub = n /\ length (Qmul x) = n /\ length (Qmul xs) = n /\
    length (ATmul y) = n /\ length (ATmul ys) = n ->
  length y = m /\ length ys = m /\ length z = m /\ length e = m /\ length Dlb = m /\ length Dub = m /\
    length (Amul x) = m /\ length (Amul xs) = m ->
  (* strong convexity and adjointness of the data, on the two points involved *)
  μ * dot (vminus x xs) (vminus x xs) <= dot (vminus (Qmul x) (Qmul xs)) (vminus x xs) ->
  dot (vminus (ATmul y) (ATmul ys)) (vminus x xs) = dot (vminus y ys) (vminus (Amul x) (Amul xs)) ->
  (* exact KKT pair *)
  vplus (vplus (Qmul xs) c) (ATmul ys) = map Ropp rs ->
  in_boxv Clb Cub xs /\ in_ncone Clb Cub xs rs ->
  in_boxv Dlb Dub (Amul xs) /\ in_ncone Dlb Dub (Amul xs) ys ->
  (* approximate KKT pair with tolerances ε (stationarity) and δ (constraint violation) *)
  vplus (vplus (Qmul x) c) (ATmul y) = map Ropp (vplus r s) ->
  in_boxv Clb Cub x /\ in_ncone Clb Cub x r ->
  Forall (fun t => Rabs t <= ε) s ->
  z = vminus (Amul x) e ->
  in_boxv Dlb Dub z /\ in_ncone Dlb Dub z y ->
  Forall (fun t => Rabs t <= δ) e ->
  μ * dot (vminus x xs) (vminus x xs) <= ε * norm1 (vminus x xs) + δ * norm1 (vminus y ys).
Proof. exact qp_error_bound. Qed.
Print Assumptions C02_qp_error_bound.

(* non-vacuity: min x^2 - 4x on [0,1] (minimiser 1, multiplier of the upper bound 2), approximate point 3/4 *)
Example C02_nonvacuous :
  let Qmul := map (fun t => 2 * t) in
  let Amul := fun _ : list R => @nil R in let ATmul := fun _ : list R => [0] in
  μ_ok 2 Qmul [3/4] [1] /\
  vplus (vplus (Qmul [1]) [-4]) (ATmul []) = map Ropp [2] /\
  in_ncone [Some 0] [Some 1] [1] [2] /\ in_boxv [Some 0] [Some 1] [3/4].
Proof.
  unfold μ_ok, dot, vminus, vplus, in_ncone, in_boxv, in_box, lb_ok, ub_ok; cbn.
  repeat split; try lra; try (f_equal; lra).
  - constructor; [|constructor]. cbn. intros u [? ?]. lra.
  - constructor; [|constructor]. cbn. lra.
Qed.
