(* Properties_C02.v — C02: on well-posed convex problems every solver stack converges to the minimiser.
   PROVED
   (1) error bound (for all strongly convex QPs, all boxes C and D incl. infinite/equal sides, all dimensions):
     an approximate KKT pair (x, y) with tolerances (ε, δ) — which is what `Converged` certifies, see C01 — satisfies
        mu ||x - xs||^2 <= eps ||x - xs||_1 + delta ||y - ys||_1       against the exact KKT pair (xs, ys).      [C02_qp_error_bound]
   (2) LIVENESS of the inner solvers PANOC and ZeroFPR stand-alone (their whole-loop models Panoc.v / ZeroFpr.v, which whole-run
     correspondence ties to the C++), over R, for EVERY direction provider (arbitrary values, failures at will; only the dimension of
     the returned vector is assumed), on box-constrained problems whose cost has a global quadratic upper bound with constant
     Lf <= L_max and is bounded below on C: the run returns Converged after fewer than N iterations, N explicit
       PANOC,   criteria ProjGradNorm[2] / FPRNorm[2]:            C02_panoc_returns_converged, ..._explicit_N, C02_panoc_converged_point
       PANOC,   default criterion ApproxKKT (∇ψ Lipschitz, Lg):   C02_panoc_returns_converged_ApproxKKT
       ZeroFPR, criteria ProjGradNorm[2] / FPRNorm[2]:            C02_zerofpr_returns_converged
     NoProgress is EXCLUDED (not assumed away): x_{k+1} = x_k at a completed iteration forces p_k = 0 by monotonicity of the envelope in γ,
     which the stop check would have reported as Converged.  No hypothesis on max_no_progress, eager evaluation,
     recompute_last_prox_step_after_stepsize_change, update_direction_in_candidate, always_overwrite_results.
   (3) END TO END for PANOC stand-alone on box-constrained strongly convex QPs (m = 0), default criterion: Converged within N iterations
     AND mu ||x̂ - x*||^2 <= tol ||x̂ - x*||_1.                                                    [C02_panoc_qp_converges_near_minimiser]
   Hypotheses of (2),(3), all visible in the statements: coherent problem oracles; tolerance factors of the QUB and line-search tests
     equal to 0 (with positive factors strict descent is lost); force_linesearch off; no stop request / time-out; max_iter >= N, fuel.
   (4) THE SHIPPED STACKS: (2),(3) for PanocDir.panocD / ZeroFprDir.zerofprD, i.e. the loops with the STATEFUL provider models of
     Directions.v inside (the models whole-run correspondence ties to PANOCSolver<…Direction> / ZeroFPRSolver<…Direction>):
       generic, for every dirops satisfying DirWf.dir_wf (no throw on n-vectors; apply returns n-vectors):
                                                                  C02_panocdir_returns_converged[_ApproxKKT], C02_zerofprdir_returns_converged[_ApproxKKT]
       LBFGSDirection (memory >= 1), AndersonDirection (n, memory >= 1), NoopDirection, StructuredLBFGSDirection (memory >= 1, the capability
       checks of initialize pass, CBFGS off):                    C02_panoc_{lbfgs,anderson,noop,struclbfgs}_returns_converged, C02_zerofpr_{…}_returns_converged,
                                                                  C02_panoc_lbfgs_returns_converged_ApproxKKT, C02_zerofpr_lbfgs_returns_converged_ApproxKKT
       the shipped DEFAULT inner solver PANOC + LBFGS, ApproxKKT, on a strongly convex box QP:  C02_panoc_lbfgs_qp_converges_near_minimiser
     Route: PANOCDIR_refines_oracle_model is for COMPLETED runs, so the liveness proof is run on PanocDir / ZeroFprDir directly, pass by pass
     (one provider pass = one oracle pass with the oracle "trace of this pass", then the oracle-level pass lemma); the provider never throws and
     the line search never runs out of fuel (PanocDirLive.v, ZeroFprDirLive.v).  The QP corollary then follows BY REFINEMENT.
   (5) ZeroFPR under the default criterion ApproxKKT, every direction oracle:                      C02_zerofpr_returns_converged_ApproxKKT
   (6) FISTA (whole-loop model FistaLoop.fista), strongly convex smooth part (modulus mu): THE ITERATES CONVERGE TO THE MINIMISER — at every
     progress record of every run  ‖x̂_k − xs‖² <= 4‖x0 − xs‖²/(mu γ_k (k+1)²)  (O(1/k) with disable_acceleration), and <= eps from an explicitly
     computed K(eps) on, in every Lipschitz mode (quadratic growth with constant mu/2 ∘ C08's rate; FistaLoopConv.v).
                                                                  C02_fista_quadratic_growth, C02_fista_iterates_converge[_every_loop_head|_fixed_step|_noaccel…],
                                                                  C02_fista_iterates_count[_noaccel], C02_fista_iterates_within_eps_from_K_on[…]
   NOT PROVED (explored on the implementation by the check's oracle): liveness (= the run returns Converged) of the OUTER ALM loop and of PANTR / FISTA
     (for FISTA the iterates and the function values converge — (6), C08 — but no stop criterion's ε is bounded by them);
     positive tolerance factors (see the note at the end of this file); the effect of binary64 rounding (the theorems are over R).
     For those stacks the missing link remains `stack_reaches_converged`. *)
From Coq Require Import Reals List ZArith Bool Lra Lia.
From Flocq Require Import Raux.
From Alpaqa Require Import Lbfgs LMQR Directions DirWf.     (* first: Lbfgs.params / state are shadowed by Panoc's below *)
From Alpaqa Require Import Num NumR Vec Prox ProxProofs ProxVec QpBound SolverStatus SolverKernels DescentProofs StopChain StopChainProofs
                           Panoc PanocProofs LiveVec PanocLive PanocLiveN PanocLiveKkt QpLive ZeroFpr ZeroFprProofs ZeroFprLive ZeroFprLiveG
                           PanocDir ZeroFprDir PanocDirLive ZeroFprDirLive.
Import ListNotations.
Local Open Scope R_scope.

Theorem C02_qp_error_bound :
  forall (Qmul Amul ATmul : list R -> list R) (c : list R) (Clb Cub Dlb Dub : list (option R)) (μ : R) (n m : nat)
         (xs ys x y rs r s z e : list R) (ε δ : R),
  length x = n /\ length xs = n /\ length r = n /\ length rs = n /\ length s = n /\ length c = n /\
    length Clb = n /\ length Cub = n /\ length (Qmul x) = n /\ length (Qmul xs) = n /\
    length (ATmul y) = n /\ length (ATmul ys) = n ->
  length y = m /\ length ys = m /\ length z = m /\ length e = m /\ length Dlb = m /\ length Dub = m /\
    length (Amul x) = m /\ length (Amul xs) = m ->
  (* strong convexity and adjointness of the data, on the two points involved *)
  μ * dot (vminus x xs) (vminus x xs) <= dot (vminus (Qmul x) (Qmul xs)) (vminus x xs) ->
  dot (vminus (ATmul y) (ATmul ys)) (vminus x xs) = dot (vminus y ys) (vminus (Amul x) (Amul xs)) ->
  (* exact KKT pair *)
  vplus (vplus (Qmul xs) c) (ATmul ys) = map Ropp rs ->
  in_boxv Clb Cub xs /\ in_ncone Clb Cub xs rs ->
  in_boxv Dlb Dub (Amul xs) /\ in_ncone Dlb Dub (Amul xs) ys ->
  (* approximate KKT pair with tolerances ε (stationarity) and δ (constraint violation) *)
  vplus (vplus (Qmul x) c) (ATmul y) = map Ropp (vplus r s) ->
  in_boxv Clb Cub x /\ in_ncone Clb Cub x r ->
  Forall (fun t => Rabs t <= ε) s ->
  z = vminus (Amul x) e ->
  in_boxv Dlb Dub z /\ in_ncone Dlb Dub z y ->
  Forall (fun t => Rabs t <= δ) e ->
  μ * dot (vminus x xs) (vminus x xs) <= ε * norm1 (vminus x xs) + δ * norm1 (vminus y ys).
Proof. exact qp_error_bound. Qed.
Print Assumptions C02_qp_error_bound.

(* non-vacuity: min x^2 - 4x on [0,1] (minimiser 1, multiplier of the upper bound 2), approximate point 3/4 *)
Example C02_nonvacuous :
  let Qmul := map (fun t => 2 * t) in
  let Amul := fun _ : list R => @nil R in let ATmul := fun _ : list R => [0] in
  μ_ok 2 Qmul [3/4] [1] /\
  vplus (vplus (Qmul [1]) [-4]) (ATmul []) = map Ropp [2] /\
  in_ncone [Some 0] [Some 1] [1] [2] /\ in_boxv [Some 0] [Some 1] [3/4].
Proof.
  unfold μ_ok, dot, vminus, vplus, in_ncone, in_boxv, in_box, lb_ok, ub_ok; cbn.
  repeat split; try lra; try (f_equal; lra).
  - constructor; [|constructor]. cbn. intros u [? ?]. lra.
  - constructor; [|constructor]. cbn. lra.
Qed.

(* ====================================================================================================================
   LIVENESS of the inner solvers (whole-loop models, over R): the run DOES return Converged, within an explicit number of iterations,
   for EVERY direction provider.  Proofs: PanocLive.v (+ LiveVec.v, PanocLiveN.v).
   ==================================================================================================================== *)
Section C02_PANOC_LIVE.
  (* the outside world *)
  Variable psi_grad_full : list R -> R * list R * list R.   (* eval_ψ_grad_ψ *)
  Variable psi_yhat : list R -> R * list R.                 (* eval_ψ *)
  Variable grad_L : list R -> list R -> list R.             (* eval_grad_L *)
  Variable grad_psi : list R -> list R.                     (* eval_grad_ψ (initial Lipschitz estimate only) *)
  Variables (lb ub : list (option R)).                      (* the box C; l1 = [] *)
  Variable dir_apply : nat -> iterate (T:=R) -> option (list R).   (* the direction provider: ARBITRARY values, may fail at will *)
  Variable has_initial : bool.
  Variable P : params (T:=R).
  Variables (x_in y_in Σ errz_in : list R).
  Variable ls_fuel : nat.
  (* the mathematical problem the oracles evaluate *)
  Variables (ψ : list R -> R) (g : list R -> list R) (n : nat) (Lf ψinf : R).

  Notation never := (fun _ : counters => false).             (* no stop request, no time-out *)
  Notation run := (panoc psi_grad_full psi_yhat grad_L grad_psi lb ub [] dir_apply has_initial never never P x_in y_in Σ errz_in ls_fuel).
  Notation Linit := (L_init psi_grad_full grad_psi P x_in).  (* L_0 if positive, else the clamped finite-difference estimate *)

  Hypothesis oracle_values : forall x, psi_grad psi_grad_full x = (ψ x, g x).
  Hypothesis oracles_coherent : coherent psi_grad_full psi_yhat grad_L grad_psi P.
  Hypothesis grad_length : forall x, length x = n -> length (g x) = n.
  Hypothesis quadratic_upper_bound : forall u d, length u = n -> length d = n ->
    ψ (vadd u d) <= ψ u + vdot (g u) d + Lf / 2 * vsqnorm d.
  Hypothesis bounded_below_on_C : forall z, all_in_box lb ub z -> ψinf <= ψ z.
  Hypothesis len_lb : length lb = n.
  Hypothesis len_ub : length ub = n.
  Hypothesis boxes_nonempty : Forall2 box_ne lb ub.
  Hypothesis len_x : length x_in = n.
  Hypothesis direction_dimension : forall j i q, dir_apply j i = Some q -> length q = n.
  Hypothesis Lgamma_factor : 0 < p_Lgamma P < 1.
  Hypothesis L_init_positive : 0 < Linit.
  Hypothesis Lf_below_L_max : Lf <= p_Lmax P.
  Hypothesis qub_tolerance_factor_zero : p_qub_tol P = 0.
  Hypothesis linesearch_tolerance_factor_zero : p_ls_tol P = 0.
  Hypothesis strictness_factor : 0 < p_beta P <= 1.
  Hypothesis force_linesearch_off : p_force_ls P = false.
  Hypothesis criterion : p_crit P = ProjGradNorm \/ p_crit P = ProjGradNorm2 \/ p_crit P = FPRNorm \/ p_crit P = FPRNorm2.
  (* fuel of the inner loops = the bound of PANOC_linesearch_terminates *)
  Variables (nL nT : nat).
  Hypothesis L_max_reached : p_Lmax P <= Linit * 2 ^ nL.
  Hypothesis tau_factor : 0 <= p_tau_factor P <= 1.
  Hypothesis tau_min_reached : p_tau_factor P ^ nT < p_tau_min P.
  Hypothesis linesearch_fuel : (ls_pass_bound nL nT <= ls_fuel)%nat.

  (* the constants:  L̄ = max(L_init, 2 Lf),  γ0 = Lγ/L_init,  γmin = Lγ/L̄,  cmin = β(1-Lγ)/(2γ0),  tol = effective tolerance (> 0),
     δ = tol (ProjGradNorm[2]) | tol·γmin (FPRNorm[2]),  dec = cmin·δ²,  Φ0 = φ_γmin(x_in) = ψ(x_in) + ‖p‖²/(2γmin) + ∇ψ(x_in)ᵀp *)
  Notation Dec := (dec psi_grad_full grad_psi P x_in Lf).
  Notation PHI0 := (Phi0 psi_grad_full grad_psi lb ub P x_in ψ g Lf).

  Theorem C02_panoc_returns_converged : forall (N fuel : nat),
    PHI0 - ψinf < INR N * Dec -> (N <= p_max_iter P)%nat -> (N < fuel)%nat ->
    exists o, run fuel = Done o /\ out_status o = StConverged /\ (out_iterations o < N)%nat.
  Proof.
    exact (panoc_live_any_N psi_grad_full psi_yhat grad_L grad_psi lb ub dir_apply has_initial P x_in y_in Σ errz_in ls_fuel ψ g n Lf ψinf
             oracle_values oracles_coherent grad_length quadratic_upper_bound bounded_below_on_C len_lb len_ub boxes_nonempty len_x
             direction_dimension Lgamma_factor L_init_positive Lf_below_L_max qub_tolerance_factor_zero linesearch_tolerance_factor_zero
             strictness_factor force_linesearch_off criterion nL nT L_max_reached tau_factor tau_min_reached linesearch_fuel).
  Qed.

  (* the same with N computed: N = Z.to_nat (up ((Φ0 - ψinf) / dec)) *)
  Theorem C02_panoc_returns_converged_explicit_N : forall fuel : nat,
    let N := Z.to_nat (up ((PHI0 - ψinf) / Dec)) in
    (N <= p_max_iter P)%nat -> (N < fuel)%nat ->
    exists o, run fuel = Done o /\ out_status o = StConverged /\ (out_iterations o < N)%nat.
  Proof.
    exact (panoc_live_explicit psi_grad_full psi_yhat grad_L grad_psi lb ub dir_apply has_initial P x_in y_in Σ errz_in ls_fuel ψ g n Lf ψinf
             oracle_values oracles_coherent grad_length quadratic_upper_bound bounded_below_on_C len_lb len_ub boxes_nonempty len_x
             direction_dimension Lgamma_factor L_init_positive Lf_below_L_max qub_tolerance_factor_zero linesearch_tolerance_factor_zero
             strictness_factor force_linesearch_off criterion nL nT L_max_reached tau_factor tau_min_reached linesearch_fuel).
  Qed.

  (* and the point it returns is an ε-fixed point of the projected-gradient map (for all four criteria ε bounds ‖p‖ resp. ‖p‖/γ) *)
  Theorem C02_panoc_converged_point : forall fuel o, run fuel = Done o -> out_status o = StConverged ->
    exists (x : list R) (γ : R), 0 < γ /\
      let p := snd (fst (proj_grad_step lb ub γ x (g x))) in
      out_x o = vadd x p /\
      out_eps o <= eff_tol (o_tol P) /\
      out_eps o = match p_crit P with
                  | ProjGradNorm2 => vnorm2 p | FPRNorm => vnorminf p / γ | FPRNorm2 => vnorm2 p / γ | _ => vnorminf p end.
  Proof.
    exact (panoc_converged_point psi_grad_full psi_yhat grad_L grad_psi lb ub dir_apply has_initial P x_in y_in Σ errz_in ls_fuel ψ g
             oracle_values oracles_coherent Lgamma_factor L_init_positive criterion).
  Qed.
End C02_PANOC_LIVE.
Print Assumptions C02_panoc_returns_converged.
Print Assumptions C02_panoc_returns_converged_explicit_N.
Print Assumptions C02_panoc_converged_point.

(* the DEFAULT criterion ApproxKKT: ε = ‖p/γ + ∇ψ(x) - ∇ψ(x̂)‖∞; additionally ∇ψ Lipschitz (2-norm) with constant Lg *)
Section C02_PANOC_LIVE_KKT.
  Variable psi_grad_full : list R -> R * list R * list R.
  Variable psi_yhat : list R -> R * list R.
  Variable grad_L : list R -> list R -> list R.
  Variable grad_psi : list R -> list R.
  Variables (lb ub : list (option R)).
  Variable dir_apply : nat -> iterate (T:=R) -> option (list R).   (* ARBITRARY *)
  Variable has_initial : bool.
  Variable P : params (T:=R).
  Variables (x_in y_in Σ errz_in : list R).
  Variable ls_fuel : nat.
  Variables (ψ : list R -> R) (g : list R -> list R) (n : nat) (Lf ψinf Lg : R).

  Notation never := (fun _ : counters => false).
  Notation run := (panoc psi_grad_full psi_yhat grad_L grad_psi lb ub [] dir_apply has_initial never never P x_in y_in Σ errz_in ls_fuel).
  Notation Linit := (L_init psi_grad_full grad_psi P x_in).

  Hypothesis oracle_values : forall x, psi_grad psi_grad_full x = (ψ x, g x).
  Hypothesis oracles_coherent : coherent psi_grad_full psi_yhat grad_L grad_psi P.
  Hypothesis grad_length : forall x, length x = n -> length (g x) = n.
  Hypothesis quadratic_upper_bound : forall u d, length u = n -> length d = n ->
    ψ (vadd u d) <= ψ u + vdot (g u) d + Lf / 2 * vsqnorm d.
  Hypothesis gradient_lipschitz : forall u d, length u = n -> length d = n ->
    vsqnorm (vsub (g u) (g (vadd u d))) <= Lg * Lg * vsqnorm d.
  Hypothesis Lg_nonneg : 0 <= Lg.
  Hypothesis bounded_below_on_C : forall z, all_in_box lb ub z -> ψinf <= ψ z.
  Hypothesis len_lb : length lb = n.
  Hypothesis len_ub : length ub = n.
  Hypothesis boxes_nonempty : Forall2 box_ne lb ub.
  Hypothesis len_x : length x_in = n.
  Hypothesis direction_dimension : forall j i q, dir_apply j i = Some q -> length q = n.
  Hypothesis Lgamma_factor : 0 < p_Lgamma P < 1.
  Hypothesis L_init_positive : 0 < Linit.
  Hypothesis Lf_below_L_max : Lf <= p_Lmax P.
  Hypothesis qub_tolerance_factor_zero : p_qub_tol P = 0.
  Hypothesis linesearch_tolerance_factor_zero : p_ls_tol P = 0.
  Hypothesis strictness_factor : 0 < p_beta P <= 1.
  Hypothesis force_linesearch_off : p_force_ls P = false.
  Hypothesis criterion : p_crit P = ApproxKKT.
  Variables (nL nT : nat).
  Hypothesis L_max_reached : p_Lmax P <= Linit * 2 ^ nL.
  Hypothesis tau_factor : 0 <= p_tau_factor P <= 1.
  Hypothesis tau_min_reached : p_tau_factor P ^ nT < p_tau_min P.
  Hypothesis linesearch_fuel : (ls_pass_bound nL nT <= ls_fuel)%nat.

  (* dec_kkt = cmin·δ², δ = tol / (1/γmin + Lg) *)
  Notation Dec := (dec_kkt psi_grad_full grad_psi P x_in Lf Lg).
  Notation PHI0 := (Phi0 psi_grad_full grad_psi lb ub P x_in ψ g Lf).

  Theorem C02_panoc_returns_converged_ApproxKKT : forall (N fuel : nat),
    PHI0 - ψinf < INR N * Dec -> (N <= p_max_iter P)%nat -> (N < fuel)%nat ->
    exists o, run fuel = Done o /\ out_status o = StConverged /\ (out_iterations o < N)%nat.
  Proof.
    exact (panoc_live_kkt psi_grad_full psi_yhat grad_L grad_psi lb ub dir_apply has_initial P x_in y_in Σ errz_in ls_fuel ψ g n Lf ψinf Lg
             oracle_values oracles_coherent grad_length quadratic_upper_bound gradient_lipschitz Lg_nonneg bounded_below_on_C len_lb len_ub
             boxes_nonempty len_x direction_dimension Lgamma_factor L_init_positive Lf_below_L_max qub_tolerance_factor_zero
             linesearch_tolerance_factor_zero strictness_factor force_linesearch_off criterion nL nT L_max_reached tau_factor tau_min_reached
             linesearch_fuel).
  Qed.
End C02_PANOC_LIVE_KKT.
Print Assumptions C02_panoc_returns_converged_ApproxKKT.

(* C02 END TO END for PANOC stand-alone on a box-constrained strongly convex QP (∇ψ(x) = Qx + c, m = 0), default criterion ApproxKKT:
   the run returns Converged within N iterations AND the returned point satisfies the property's inequality
        μ ‖x̂ - x*‖² <= tol ‖x̂ - x*‖₁          (liveness + C01's contract + C02_qp_error_bound).
   The smoothness hypotheses on ψ hold for a QP with Lf, Lg >= ‖Q‖₂ (they are kept as hypotheses: Q enters only through Qmul). *)
Section C02_PANOC_QP.
  Variable psi_grad_full : list R -> R * list R * list R.
  Variable psi_yhat : list R -> R * list R.
  Variable grad_L : list R -> list R -> list R.
  Variable grad_psi : list R -> list R.
  Variables (lb ub : list (option R)).
  Variable dir_apply : nat -> iterate (T:=R) -> option (list R).   (* ARBITRARY *)
  Variable has_initial : bool.
  Variable P : params (T:=R).
  Variables (x_in y_in Σ errz_in : list R).
  Variable ls_fuel : nat.
  Variables (ψ : list R -> R) (g : list R -> list R) (n : nat) (Lf ψinf Lg : R).
  Variables (Qmul : list R -> list R) (c : list R) (μ : R) (xs rs : list R).

  Notation never := (fun _ : counters => false).
  Notation run := (panoc psi_grad_full psi_yhat grad_L grad_psi lb ub [] dir_apply has_initial never never P x_in y_in Σ errz_in ls_fuel).
  Notation Linit := (L_init psi_grad_full grad_psi P x_in).

  Hypothesis gradient_of_qp : forall x, length x = n -> g x = vplus (Qmul x) c.
  Hypothesis Q_length : forall x, length x = n -> length (Qmul x) = n.
  Hypothesis c_length : length c = n.
  Hypothesis xs_rs_length : length xs = n /\ length rs = n.
  Hypothesis strongly_convex : forall x, length x = n -> μ_ok μ Qmul x xs.
  Hypothesis exact_kkt_stationarity : vplus (Qmul xs) c = map Ropp rs.
  Hypothesis exact_kkt_C : in_boxv lb ub xs /\ in_ncone lb ub xs rs.
  Hypothesis oracle_values : forall x, psi_grad psi_grad_full x = (ψ x, g x).
  Hypothesis oracles_coherent : coherent psi_grad_full psi_yhat grad_L grad_psi P.
  Hypothesis grad_length : forall x, length x = n -> length (g x) = n.
  Hypothesis quadratic_upper_bound : forall u d, length u = n -> length d = n ->
    ψ (vadd u d) <= ψ u + vdot (g u) d + Lf / 2 * vsqnorm d.
  Hypothesis gradient_lipschitz : forall u d, length u = n -> length d = n ->
    vsqnorm (vsub (g u) (g (vadd u d))) <= Lg * Lg * vsqnorm d.
  Hypothesis Lg_nonneg : 0 <= Lg.
  Hypothesis bounded_below_on_C : forall z, all_in_box lb ub z -> ψinf <= ψ z.
  Hypothesis len_lb : length lb = n.
  Hypothesis len_ub : length ub = n.
  Hypothesis boxes_nonempty : Forall2 box_ne lb ub.
  Hypothesis len_x : length x_in = n.
  Hypothesis direction_dimension : forall j i q, dir_apply j i = Some q -> length q = n.
  Hypothesis Lgamma_factor : 0 < p_Lgamma P < 1.
  Hypothesis L_init_positive : 0 < Linit.
  Hypothesis Lf_below_L_max : Lf <= p_Lmax P.
  Hypothesis qub_tolerance_factor_zero : p_qub_tol P = 0.
  Hypothesis linesearch_tolerance_factor_zero : p_ls_tol P = 0.
  Hypothesis strictness_factor : 0 < p_beta P <= 1.
  Hypothesis force_linesearch_off : p_force_ls P = false.
  Hypothesis criterion : p_crit P = ApproxKKT.
  Variables (nL nT : nat).
  Hypothesis L_max_reached : p_Lmax P <= Linit * 2 ^ nL.
  Hypothesis tau_factor : 0 <= p_tau_factor P <= 1.
  Hypothesis tau_min_reached : p_tau_factor P ^ nT < p_tau_min P.
  Hypothesis linesearch_fuel : (ls_pass_bound nL nT <= ls_fuel)%nat.

  Notation Dec := (dec_kkt psi_grad_full grad_psi P x_in Lf Lg).
  Notation PHI0 := (Phi0 psi_grad_full grad_psi lb ub P x_in ψ g Lf).

  Theorem C02_panoc_qp_converges_near_minimiser : forall (N fuel : nat),
    PHI0 - ψinf < INR N * Dec -> (N <= p_max_iter P)%nat -> (N < fuel)%nat ->
    exists o, run fuel = Done o /\ out_status o = StConverged /\ (out_iterations o < N)%nat /\
      μ * dot (vminus (out_x o) xs) (vminus (out_x o) xs) <= eff_tol (o_tol P) * norm1 (vminus (out_x o) xs).
  Proof.
    exact (panoc_qp_converges_near_minimiser psi_grad_full psi_yhat grad_L grad_psi lb ub dir_apply has_initial P x_in y_in Σ errz_in ls_fuel
             ψ g n Lf ψinf Lg Qmul c μ xs rs gradient_of_qp Q_length c_length xs_rs_length strongly_convex exact_kkt_stationarity exact_kkt_C
             oracle_values oracles_coherent grad_length quadratic_upper_bound gradient_lipschitz Lg_nonneg bounded_below_on_C len_lb len_ub
             boxes_nonempty len_x direction_dimension Lgamma_factor L_init_positive Lf_below_L_max qub_tolerance_factor_zero
             linesearch_tolerance_factor_zero strictness_factor force_linesearch_off criterion nL nT L_max_reached tau_factor tau_min_reached
             linesearch_fuel).
  Qed.
End C02_PANOC_QP.
Print Assumptions C02_panoc_qp_converges_near_minimiser.

Section C02_ZEROFPR_LIVE.
  Variable psi_grad_full : list R -> R * list R * list R.
  Variable psi_yhat : list R -> R * list R.
  Variable grad_L : list R -> list R -> list R.
  Variable grad_psi : list R -> list R.
  Variables (lb ub : list (option R)).
  Variable dir_apply : nat -> iterate (T:=R) -> proxit (T:=R) -> option (list R).   (* ARBITRARY; also sees the prox iterate *)
  Variable has_initial : bool.
  Variable P : params (T:=R).
  Variables (x_in y_in Σ errz_in : list R).
  Variable ls_fuel : nat.
  Variables (ψ : list R -> R) (g : list R -> list R) (n : nat) (Lf ψinf : R).

  Notation never := (fun _ : counters => false).
  Notation run := (zerofpr psi_grad_full psi_yhat grad_L grad_psi lb ub [] dir_apply has_initial never never P x_in y_in Σ errz_in ls_fuel).
  Notation Linit := (L_init psi_grad_full grad_psi P x_in).

  Hypothesis oracle_values : forall x, psi_grad psi_grad_full x = (ψ x, g x).
  Hypothesis oracles_coherent : zcoherent psi_grad_full psi_yhat grad_L.
  Hypothesis grad_length : forall x, length x = n -> length (g x) = n.
  Hypothesis quadratic_upper_bound : forall u d, length u = n -> length d = n ->
    ψ (vadd u d) <= ψ u + vdot (g u) d + Lf / 2 * vsqnorm d.
  Hypothesis bounded_below_on_C : forall z, all_in_box lb ub z -> ψinf <= ψ z.
  Hypothesis len_lb : length lb = n.
  Hypothesis len_ub : length ub = n.
  Hypothesis boxes_nonempty : Forall2 box_ne lb ub.
  Hypothesis len_x : length x_in = n.
  Hypothesis direction_dimension : forall j i px q, dir_apply j i px = Some q -> length q = n.
  Hypothesis Lgamma_factor : 0 < p_Lgamma P < 1.
  Hypothesis L_init_positive : 0 < Linit.
  Hypothesis Lf_below_L_max : Lf <= p_Lmax P.
  Hypothesis qub_tolerance_factor_zero : p_qub_tol P = 0.
  Hypothesis linesearch_tolerance_factor_zero : p_ls_tol P = 0.
  Hypothesis strictness_factor : 0 < p_beta P <= 1.
  Hypothesis force_linesearch_off : p_force_ls P = false.
  Hypothesis criterion : p_crit P = ProjGradNorm \/ p_crit P = ProjGradNorm2 \/ p_crit P = FPRNorm \/ p_crit P = FPRNorm2.
  Variables (nL nT : nat).
  Hypothesis L_max_reached : p_Lmax P <= Linit * 2 ^ nL.
  Hypothesis tau_min_reached : (1 / 2) ^ nT < p_tau_min P.                (* ZeroFPR halves τ *)
  Hypothesis linesearch_fuel : (ZeroFprProofs.ls_pass_bound nL nT <= ls_fuel)%nat.

  Notation Dec := (dec psi_grad_full grad_psi P x_in Lf).
  Notation PHI0 := (Phi0 psi_grad_full grad_psi lb ub P x_in ψ g Lf).

  Theorem C02_zerofpr_returns_converged : forall (N fuel : nat),
    PHI0 - ψinf < INR N * Dec -> (N <= p_max_iter P)%nat -> (N < fuel)%nat ->
    exists o, run fuel = Done o /\ out_status o = StConverged /\ (out_iterations o < N)%nat.
  Proof.
    exact (fun N fuel HN Hmax Hf =>
      zerofpr_live psi_grad_full psi_yhat grad_L grad_psi lb ub dir_apply has_initial P x_in y_in Σ errz_in ls_fuel ψ g n Lf ψinf
             oracle_values oracles_coherent grad_length quadratic_upper_bound bounded_below_on_C len_lb len_ub boxes_nonempty len_x
             direction_dimension Lgamma_factor L_init_positive Lf_below_L_max qub_tolerance_factor_zero linesearch_tolerance_factor_zero
             strictness_factor force_linesearch_off criterion nL nT L_max_reached tau_min_reached linesearch_fuel
             PHI0 N HN Hmax (Rle_refl _) fuel Hf).
  Qed.
End C02_ZEROFPR_LIVE.
Print Assumptions C02_zerofpr_returns_converged.

(* non-vacuity of the liveness theorem: ψ(x) = x²/2 on R (n = 1, C = R, Lf = 1, ψinf = 0), x_in = 1, L_0 = 1, Lγ = 1/2, L_max = 4, β = 1,
   ProjGradNorm with tolerance 1: every hypothesis holds (L̄ = 2, γmin = 1/4, cmin = 1/2, dec = 1/2, Φ0 = 3/8, N = 1), so for EVERY
   direction provider of dimension 1 the run converges before completing one iteration *)
Definition lv_ψ (x : list R) : R := vsqnorm x / 2.
Definition lv_P : params (T:=R) := mkParams 10 10 1 (1/1000000) (1/1000000) (1/2) 1 4 ProjGradNorm 0 0 1 (1/2) (1/4) false false false false true 1.
Example C02_liveness_nonvacuous : forall (dir_apply : nat -> iterate (T:=R) -> option (list R)) (has_initial : bool),
  (forall j i q, dir_apply j i = Some q -> length q = 1%nat) ->
  exists o, panoc (T:=R) (fun x => (lv_ψ x, x, [])) (fun x => (lv_ψ x, [])) (fun x _ => x) (fun x => x) [None] [None] []
                  dir_apply has_initial (fun _ => false) (fun _ => false) lv_P [1] [] [] [] 18 2 = Done o /\
            out_status o = StConverged /\ (out_iterations o < 1)%nat.
Proof.
  intros dir_apply has_initial Hdir.
  assert (HL : L_init (fun x => (lv_ψ x, x, [])) (fun x => x) lv_P [1] = 1).
  { unfold L_init, init_L, lv_P. cbn [p_L0]. change (@nleb R NumR 1 (@n0 R NumR)) with (Rle_bool 1 0).
    destruct (Rle_bool_spec 1 0) as [H|_]; [lra|]. reflexivity. }
  apply (C02_panoc_returns_converged (fun x => (lv_ψ x, x, [])) (fun x => (lv_ψ x, [])) (fun x _ => x) (fun x => x) [None] [None]
           dir_apply has_initial lv_P [1] [] [] [] 18 lv_ψ (fun x => x) 1 1 0) with (nL := 2%nat) (nT := 3%nat).
  - intros x. reflexivity.
  - intros x. split; reflexivity.
  - intros x Hx. exact Hx.
  - intros [|a [|? ?]] [|b [|? ?]]; cbn [length]; intros; try discriminate. unfold lv_ψ. cbn. lra.
  - intros z _. unfold lv_ψ. pose proof (vsqnorm_nonneg z). lra.
  - reflexivity.
  - reflexivity.
  - repeat constructor.
  - reflexivity.
  - exact Hdir.
  - cbn. lra.
  - rewrite HL. lra.
  - cbn. lra.
  - reflexivity.
  - reflexivity.
  - cbn. lra.
  - reflexivity.
  - left. reflexivity.
  - rewrite HL. cbn. lra.
  - cbn. lra.
  - cbn. lra.
  - cbn. lia.
  - unfold Phi0. unfold dec, cmin, delta, gam0, gam_min, Lbar, tol, eff_tol. rewrite HL.
    cbn [lv_P p_beta p_Lgamma p_crit o_tol]. change (@nltb R NumR (@n0 R NumR) 1) with (Rlt_bool 0 1).
    destruct (Rlt_bool_spec 0 1) as [_|H]; [|lra].
    replace (Rmax 1 (2 * 1)) with 2 by (unfold Rmax; destruct (Rle_dec 1 (2 * 1)); lra).
    unfold lv_ψ, proj_grad_step. cbn. lra.
  - cbn. lia.
  - lia.
Qed.

(* the same instance for ZeroFPR *)
Example C02_liveness_nonvacuous_zerofpr : forall (dir_apply : nat -> iterate (T:=R) -> proxit (T:=R) -> option (list R)) (has_initial : bool),
  (forall j i px q, dir_apply j i px = Some q -> length q = 1%nat) ->
  exists o, zerofpr (T:=R) (fun x => (lv_ψ x, x, [])) (fun x => (lv_ψ x, [])) (fun x _ => x) (fun x => x) [None] [None] []
                  dir_apply has_initial (fun _ => false) (fun _ => false) lv_P [1] [] [] [] 18 2 = Done o /\
            out_status o = StConverged /\ (out_iterations o < 1)%nat.
Proof.
  intros dir_apply has_initial Hdir.
  assert (HL : L_init (fun x => (lv_ψ x, x, [])) (fun x => x) lv_P [1] = 1).
  { unfold L_init, init_L, lv_P. cbn [p_L0]. change (@nleb R NumR 1 (@n0 R NumR)) with (Rle_bool 1 0).
    destruct (Rle_bool_spec 1 0) as [H|_]; [lra|]. reflexivity. }
  apply (C02_zerofpr_returns_converged (fun x => (lv_ψ x, x, [])) (fun x => (lv_ψ x, [])) (fun x _ => x) (fun x => x) [None] [None]
           dir_apply has_initial lv_P [1] [] [] [] 18 lv_ψ (fun x => x) 1 1 0) with (nL := 2%nat) (nT := 3%nat).
  - intros x. reflexivity.
  - intros x. split; reflexivity.
  - intros x Hx. exact Hx.
  - intros [|a [|? ?]] [|b [|? ?]]; cbn [length]; intros; try discriminate. unfold lv_ψ. cbn. lra.
  - intros z _. unfold lv_ψ. pose proof (vsqnorm_nonneg z). lra.
  - reflexivity.
  - reflexivity.
  - repeat constructor.
  - reflexivity.
  - exact Hdir.
  - cbn. lra.
  - rewrite HL. lra.
  - cbn. lra.
  - reflexivity.
  - reflexivity.
  - cbn. lra.
  - reflexivity.
  - left. reflexivity.
  - rewrite HL. cbn. lra.
  - cbn. lra.
  - cbn. lia.
  - unfold Phi0. unfold dec, cmin, delta, gam0, gam_min, Lbar, tol, eff_tol. rewrite HL.
    cbn [lv_P p_beta p_Lgamma p_crit o_tol]. change (@nltb R NumR (@n0 R NumR) 1) with (Rlt_bool 0 1).
    destruct (Rlt_bool_spec 0 1) as [_|H]; [|lra].
    replace (Rmax 1 (2 * 1)) with 2 by (unfold Rmax; destruct (Rle_dec 1 (2 * 1)); lra).
    unfold lv_ψ, proj_grad_step. cbn. lra.
  - cbn. lia.
  - lia.
Qed.

(* non-vacuity of the end-to-end QP theorem (and of the ApproxKKT liveness theorem): min x²/2 on [-1, 2] from x_in = 1 (Q = 1, c = 0,
   μ = Lf = Lg = 1, x* = 0 interior, rs = 0), ApproxKKT with tolerance 1:  δ = 1/5, dec = 1/50, Φ0 = 3/8, N = 19 *)
Definition lv_Pk : params (T:=R) := mkParams 100 10 1 (1/1000000) (1/1000000) (1/2) 1 4 ApproxKKT 0 0 1 (1/2) (1/4) false false false false true 1.
Example C02_qp_end_to_end_nonvacuous : forall (dir_apply : nat -> iterate (T:=R) -> option (list R)) (has_initial : bool),
  (forall j i q, dir_apply j i = Some q -> length q = 1%nat) ->
  exists o, panoc (T:=R) (fun x => (lv_ψ x, x, [])) (fun x => (lv_ψ x, [])) (fun x _ => x) (fun x => x) [Some (-1)] [Some 2] []
                  dir_apply has_initial (fun _ => false) (fun _ => false) lv_Pk [1] [] [] [] 18 20 = Done o /\
            out_status o = StConverged /\ (out_iterations o < 19)%nat /\
            1 * dot (vminus (out_x o) [0]) (vminus (out_x o) [0]) <= eff_tol (o_tol lv_Pk) * norm1 (vminus (out_x o) [0]).
Proof.
  intros dir_apply has_initial Hdir.
  assert (HL : L_init (fun x => (lv_ψ x, x, [])) (fun x => x) lv_Pk [1] = 1).
  { unfold L_init, init_L, lv_Pk. cbn [p_L0]. change (@nleb R NumR 1 (@n0 R NumR)) with (Rle_bool 1 0).
    destruct (Rle_bool_spec 1 0) as [H|_]; [lra|]. reflexivity. }
  assert (Htol : eff_tol (o_tol lv_Pk) = 1).
  { unfold eff_tol. cbn [lv_Pk o_tol]. change (@nltb R NumR (@n0 R NumR) 1) with (Rlt_bool 0 1).
    destruct (Rlt_bool_spec 0 1) as [_|H]; [reflexivity|lra]. }
  apply (C02_panoc_qp_converges_near_minimiser (fun x => (lv_ψ x, x, [])) (fun x => (lv_ψ x, [])) (fun x _ => x) (fun x => x)
           [Some (-1)] [Some 2] dir_apply has_initial lv_Pk [1] [] [] [] 18 lv_ψ (fun x => x) 1 1 0 1 (fun x => x) [0] 1 [0] [0])
    with (nL := 2%nat) (nT := 3%nat).
  - intros [|a [|? ?]]; cbn [length]; intros; try discriminate. cbn. f_equal. lra.
  - intros x Hx. exact Hx.
  - reflexivity.
  - split; reflexivity.
  - intros [|a [|? ?]]; cbn [length]; intros; try discriminate. unfold μ_ok, dot, vminus. cbn. lra.
  - cbn. f_equal. lra.
  - unfold in_boxv, in_ncone. cbn [combine]. split; (apply Forall2_cons; [|apply Forall2_nil]).
    + unfold in_box, lb_ok, ub_ok. cbn. lra.
    + cbn. intros; lra.
  - intros x. reflexivity.
  - intros x. split; reflexivity.
  - intros x Hx. exact Hx.
  - intros [|a [|? ?]] [|b [|? ?]]; cbn [length]; intros; try discriminate. unfold lv_ψ. cbn. lra.
  - intros [|a [|? ?]] [|b [|? ?]]; cbn [length]; intros; try discriminate. cbn. nra.
  - lra.
  - intros z _. unfold lv_ψ. pose proof (vsqnorm_nonneg z). lra.
  - reflexivity.
  - reflexivity.
  - repeat constructor. cbn. lra.
  - reflexivity.
  - exact Hdir.
  - cbn. lra.
  - rewrite HL. lra.
  - cbn. lra.
  - reflexivity.
  - reflexivity.
  - cbn. lra.
  - reflexivity.
  - reflexivity.
  - rewrite HL. cbn. lra.
  - cbn. lra.
  - cbn. lra.
  - cbn. lia.
  - unfold Phi0. unfold dec_kkt, delta_kkt, cmin, gam0, gam_min, Lbar, tol. rewrite HL, Htol.
    cbn [lv_Pk p_beta p_Lgamma].
    replace (Rmax 1 (2 * 1)) with 2 by (unfold Rmax; destruct (Rle_dec 1 (2 * 1)); lra).
    unfold lv_ψ, proj_grad_step. cbn. numR. rbool; try lra.
    all: replace (INR 19) with 19 by (simpl; lra); lra.
  - cbn. lia.
  - lia.
Qed.

(* ====================================================================================================================
   (5) ZeroFPR under the DEFAULT criterion ApproxKKT (ε = ‖p/γ + ∇ψ(x) - ∇ψ(x̂)‖∞, ∇ψ(x̂) from ZeroFPR's prox iterate), ∇ψ Lg-Lipschitz,
       for EVERY direction oracle.  Proof: ZeroFprLiveG.v (port of PanocLiveKkt.v: abstract criterion, then the instance).
   ==================================================================================================================== *)
Section C02_ZEROFPR_LIVE_KKT.
  Variable psi_grad_full : list R -> R * list R * list R.
  Variable psi_yhat : list R -> R * list R.
  Variable grad_L : list R -> list R -> list R.
  Variable grad_psi : list R -> list R.
  Variables (lb ub : list (option R)).
  Variable dir_apply : nat -> iterate (T:=R) -> proxit (T:=R) -> option (list R).   (* ARBITRARY *)
  Variable has_initial : bool.
  Variable P : params (T:=R).
  Variables (x_in y_in Σ errz_in : list R).
  Variable ls_fuel : nat.
  Variables (ψ : list R -> R) (g : list R -> list R) (n : nat) (Lf ψinf Lg : R).

  Notation never := (fun _ : counters => false).
  Notation run := (zerofpr psi_grad_full psi_yhat grad_L grad_psi lb ub [] dir_apply has_initial never never P x_in y_in Σ errz_in ls_fuel).
  Notation Linit := (L_init psi_grad_full grad_psi P x_in).

  Hypothesis oracle_values : forall x, psi_grad psi_grad_full x = (ψ x, g x).
  Hypothesis oracles_coherent : zcoherent psi_grad_full psi_yhat grad_L.
  Hypothesis grad_length : forall x, length x = n -> length (g x) = n.
  Hypothesis quadratic_upper_bound : forall u d, length u = n -> length d = n ->
    ψ (vadd u d) <= ψ u + vdot (g u) d + Lf / 2 * vsqnorm d.
  Hypothesis gradient_lipschitz : forall u d, length u = n -> length d = n ->
    vsqnorm (vsub (g u) (g (vadd u d))) <= Lg * Lg * vsqnorm d.
  Hypothesis Lg_nonneg : 0 <= Lg.
  Hypothesis bounded_below_on_C : forall z, all_in_box lb ub z -> ψinf <= ψ z.
  Hypothesis len_lb : length lb = n.
  Hypothesis len_ub : length ub = n.
  Hypothesis boxes_nonempty : Forall2 box_ne lb ub.
  Hypothesis len_x : length x_in = n.
  Hypothesis direction_dimension : forall j i px q, dir_apply j i px = Some q -> length q = n.
  Hypothesis Lgamma_factor : 0 < p_Lgamma P < 1.
  Hypothesis L_init_positive : 0 < Linit.
  Hypothesis Lf_below_L_max : Lf <= p_Lmax P.
  Hypothesis qub_tolerance_factor_zero : p_qub_tol P = 0.
  Hypothesis linesearch_tolerance_factor_zero : p_ls_tol P = 0.
  Hypothesis strictness_factor : 0 < p_beta P <= 1.
  Hypothesis force_linesearch_off : p_force_ls P = false.
  Hypothesis criterion : p_crit P = ApproxKKT.
  Variables (nL nT : nat).
  Hypothesis L_max_reached : p_Lmax P <= Linit * 2 ^ nL.
  Hypothesis tau_min_reached : (1 / 2) ^ nT < p_tau_min P.
  Hypothesis linesearch_fuel : (ZeroFprProofs.ls_pass_bound nL nT <= ls_fuel)%nat.

  Notation Dec := (dec_kkt psi_grad_full grad_psi P x_in Lf Lg).     (* cmin·δ², δ = tol / (1/γmin + Lg): the constants of the PANOC theorem *)
  Notation PHI0 := (Phi0 psi_grad_full grad_psi lb ub P x_in ψ g Lf).

  Theorem C02_zerofpr_returns_converged_ApproxKKT : forall (N fuel : nat),
    PHI0 - ψinf < INR N * Dec -> (N <= p_max_iter P)%nat -> (N < fuel)%nat ->
    exists o, run fuel = Done o /\ out_status o = StConverged /\ (out_iterations o < N)%nat.
  Proof.
    exact (zerofpr_live_kkt psi_grad_full psi_yhat grad_L grad_psi lb ub dir_apply has_initial P x_in y_in Σ errz_in ls_fuel ψ g n Lf ψinf Lg
             oracle_values oracles_coherent grad_length quadratic_upper_bound gradient_lipschitz Lg_nonneg bounded_below_on_C len_lb len_ub
             boxes_nonempty len_x direction_dimension Lgamma_factor L_init_positive Lf_below_L_max qub_tolerance_factor_zero
             linesearch_tolerance_factor_zero strictness_factor force_linesearch_off criterion nL nT L_max_reached tau_min_reached linesearch_fuel).
  Qed.
End C02_ZEROFPR_LIVE_KKT.
Print Assumptions C02_zerofpr_returns_converged_ApproxKKT.

(* ====================================================================================================================
   (4) THE SHIPPED STACKS — PANOC with the stateful provider models of Directions.v inside the loop (PanocDir.panocD).
   The problem hypotheses are those of C02_panoc_returns_converged; N is the same explicit bound (same Dec, same PHI0).
   The only provider-specific obligation is DirWf.dir_wf: on n-vectors no call throws, and apply returns n-vectors when it returns true.
   ==================================================================================================================== *)
Section C02_PANOC_SHIPPED.
  Variable psi_grad_full : list R -> R * list R * list R.
  Variable psi_yhat : list R -> R * list R.
  Variable grad_L : list R -> list R -> list R.
  Variable grad_psi : list R -> list R.
  Variables (lb ub : list (option R)).
  Variable P : params (T:=R).
  Variables (x_in y_in Σ errz_in : list R).
  Variable ls_fuel : nat.
  Variables (ψ : list R -> R) (g : list R -> list R) (n : nat) (Lf ψinf Lg : R).

  Notation never := (fun _ : counters => false).
  Notation runD D ops d0 := (panocD psi_grad_full psi_yhat grad_L grad_psi lb ub [] D ops never never P x_in y_in Σ errz_in ls_fuel d0).
  Notation Linit := (L_init psi_grad_full grad_psi P x_in).

  Hypothesis oracle_values : forall x, psi_grad psi_grad_full x = (ψ x, g x).
  Hypothesis oracles_coherent : coherent psi_grad_full psi_yhat grad_L grad_psi P.
  Hypothesis grad_length : forall x, length x = n -> length (g x) = n.
  Hypothesis quadratic_upper_bound : forall u d, length u = n -> length d = n ->
    ψ (vadd u d) <= ψ u + vdot (g u) d + Lf / 2 * vsqnorm d.
  Hypothesis bounded_below_on_C : forall z, all_in_box lb ub z -> ψinf <= ψ z.
  Hypothesis len_lb : length lb = n.
  Hypothesis len_ub : length ub = n.
  Hypothesis boxes_nonempty : Forall2 box_ne lb ub.
  Hypothesis len_x : length x_in = n.
  Hypothesis Lgamma_factor : 0 < p_Lgamma P < 1.
  Hypothesis L_init_positive : 0 < Linit.
  Hypothesis Lf_below_L_max : Lf <= p_Lmax P.
  Hypothesis qub_tolerance_factor_zero : p_qub_tol P = 0.
  Hypothesis linesearch_tolerance_factor_zero : p_ls_tol P = 0.
  Hypothesis strictness_factor : 0 < p_beta P <= 1.
  Hypothesis force_linesearch_off : p_force_ls P = false.
  Variables (nL nT : nat).
  Hypothesis L_max_reached : p_Lmax P <= Linit * 2 ^ nL.
  Hypothesis tau_factor : 0 <= p_tau_factor P <= 1.
  Hypothesis tau_min_reached : p_tau_factor P ^ nT < p_tau_min P.
  Hypothesis linesearch_fuel : (ls_pass_bound nL nT <= ls_fuel)%nat.
  (* the two families of criteria (each theorem uses one of them) *)
  Hypothesis criterion_norms : p_crit P = ProjGradNorm \/ p_crit P = ProjGradNorm2 \/ p_crit P = FPRNorm \/ p_crit P = FPRNorm2.
  Hypothesis criterion_kkt : p_crit P = ApproxKKT.
  Hypothesis gradient_lipschitz : forall u d, length u = n -> length d = n ->
    vsqnorm (vsub (g u) (g (vadd u d))) <= Lg * Lg * vsqnorm d.
  Hypothesis Lg_nonneg : 0 <= Lg.

  Notation Dec := (dec psi_grad_full grad_psi P x_in Lf).
  Notation DecK := (dec_kkt psi_grad_full grad_psi P x_in Lf Lg).
  Notation PHI0 := (Phi0 psi_grad_full grad_psi lb ub P x_in ψ g Lf).
  Notation Converged_within D r N := (exists oD, r = DoneD D oD /\ out_status (od_out D oD) = StConverged /\ lt (out_iterations (od_out D oD)) N).
  Notation live4 D ops d0 I0 Iv Hwf HI0 :=
    (panocD_returns_converged psi_grad_full psi_yhat grad_L grad_psi lb ub D ops P x_in y_in Σ errz_in ls_fuel d0 ψ g n Lf ψinf
       oracle_values oracles_coherent grad_length quadratic_upper_bound bounded_below_on_C len_lb len_ub boxes_nonempty len_x
       Lgamma_factor L_init_positive Lf_below_L_max qub_tolerance_factor_zero linesearch_tolerance_factor_zero strictness_factor
       force_linesearch_off nL nT L_max_reached tau_factor tau_min_reached linesearch_fuel I0 Iv Hwf HI0 criterion_norms).
  Notation liveK D ops d0 I0 Iv Hwf HI0 :=
    (panocD_returns_converged_kkt psi_grad_full psi_yhat grad_L grad_psi lb ub D ops P x_in y_in Σ errz_in ls_fuel d0 ψ g n Lf ψinf
       oracle_values oracles_coherent grad_length quadratic_upper_bound bounded_below_on_C len_lb len_ub boxes_nonempty len_x
       Lgamma_factor L_init_positive Lf_below_L_max qub_tolerance_factor_zero linesearch_tolerance_factor_zero strictness_factor
       force_linesearch_off nL nT L_max_reached tau_factor tau_min_reached linesearch_fuel I0 Iv Hwf HI0 Lg gradient_lipschitz Lg_nonneg criterion_kkt).

  (* ---- generic: EVERY provider (any state type, any operations) that does not throw on n-vectors and whose apply returns n-vectors *)
  Theorem C02_panocdir_returns_converged : forall (D : Type) (ops : dirops R D) (d0 : D) (I0 Iv : D -> Prop),
    dir_wf n D ops I0 Iv -> I0 d0 ->
    forall (N fuel : nat), PHI0 - ψinf < INR N * Dec -> (N <= p_max_iter P)%nat -> (N < fuel)%nat ->
    Converged_within D (runD D ops d0 fuel) N.
  Proof. exact (fun D ops d0 I0 Iv Hwf HI0 => live4 D ops d0 I0 Iv Hwf HI0). Qed.

  Theorem C02_panocdir_returns_converged_ApproxKKT : forall (D : Type) (ops : dirops R D) (d0 : D) (I0 Iv : D -> Prop),
    dir_wf n D ops I0 Iv -> I0 d0 ->
    forall (N fuel : nat), PHI0 - ψinf < INR N * DecK -> (N <= p_max_iter P)%nat -> (N < fuel)%nat ->
    Converged_within D (runD D ops d0 fuel) N.
  Proof. exact (fun D ops d0 I0 Iv Hwf HI0 => liveK D ops d0 I0 Iv Hwf HI0). Qed.

  (* ---- LBFGSDirection: any parameters with memory >= 1 (resize throws otherwise), any CBFGS / curvature / rescaling setting,
          any provider state to start from *)
  Theorem C02_panoc_lbfgs_returns_converged : forall (pw : R -> R -> R) (LP : Lbfgs.params R) (rescale : bool) (d0 : Lbfgs.state R),
    (1 <= Lbfgs.p_memory LP)%nat ->
    forall (N fuel : nat), PHI0 - ψinf < INR N * Dec -> (N <= p_max_iter P)%nat -> (N < fuel)%nat ->
    Converged_within _ (runD _ (lbfgs_dir n pw LP rescale) d0 fuel) N.
  Proof. exact (fun pw LP rescale d0 Hmem => live4 _ (lbfgs_dir n pw LP rescale) d0 _ _ (lbfgs_wf n pw LP rescale Hmem) I). Qed.

  Theorem C02_panoc_lbfgs_returns_converged_ApproxKKT : forall (pw : R -> R -> R) (LP : Lbfgs.params R) (rescale : bool) (d0 : Lbfgs.state R),
    (1 <= Lbfgs.p_memory LP)%nat ->
    forall (N fuel : nat), PHI0 - ψinf < INR N * DecK -> (N <= p_max_iter P)%nat -> (N < fuel)%nat ->
    Converged_within _ (runD _ (lbfgs_dir n pw LP rescale) d0 fuel) N.
  Proof. exact (fun pw LP rescale d0 Hmem => liveK _ (lbfgs_dir n pw LP rescale) d0 _ _ (lbfgs_wf n pw LP rescale Hmem) I). Qed.

  (* ---- AndersonDirection: n >= 1 and memory >= 1 (window min(n, memory) non-empty); starts from the default-constructed accelerator *)
  Theorem C02_panoc_anderson_returns_converged : forall (mem : nat) (mdf : R) (rescale : bool),
    (0 < n)%nat -> (0 < mem)%nat ->
    forall (N fuel : nat), PHI0 - ψinf < INR N * Dec -> (N <= p_max_iter P)%nat -> (N < fuel)%nat ->
    Converged_within _ (runD _ (anderson_dir n mem mdf rescale) (anderson_unsized mem mdf) fuel) N.
  Proof.
    exact (fun mem mdf rescale Hn Hmem => live4 _ (anderson_dir n mem mdf rescale) (anderson_unsized mem mdf) _ _ (anderson_wf n mem mdf rescale Hn Hmem)
             (fun E : length (@nil R) = n => Nat.lt_irrefl 0 (eq_ind_r (fun k => (0 < k)%nat) Hn E))).
  Qed.

  (* ---- NoopDirection *)
  Theorem C02_panoc_noop_returns_converged :
    forall (N fuel : nat), PHI0 - ψinf < INR N * Dec -> (N <= p_max_iter P)%nat -> (N < fuel)%nat ->
    Converged_within _ (runD _ (noop_dir (T:=R)) tt fuel) N.
  Proof. exact (live4 _ (noop_dir (T:=R)) tt _ _ (noop_wf n) I). Qed.

  (* ---- StructuredLBFGSDirection: for every problem data it looks at (its own C, l1, D, Hessian members: arbitrary), under the hypotheses
          that exclude its three `throw`s: memory >= 1; the capability checks of initialize pass (struct_init_ok: provides_eval_inactive_indices_res_lna
          and, when hessian_vec_factor != 0 without finite differences, the Hessian-product members it needs); CBFGS off (apply_masked throws) *)
  Theorem C02_panoc_struclbfgs_returns_converged :
    forall (pw : R -> R -> R) (LP : Lbfgs.params R) (Clb Cub : list (option R)) (Cl1 : list R) (Dlb Dub : list (option R))
           (prov_inactive prov_hess_L prov_hess_psi prov_box_D prov_grad_gi : bool)
           (grad_psi_at : list R -> list R -> list R -> list R) (hess_L_prod : list R -> list R -> R -> list R -> list R)
           (hess_psi_prod : list R -> list R -> list R -> R -> list R -> list R) (eval_g : list R -> list R) (grad_gi : list R -> nat -> list R)
           (cbrt_eps hvf : R) (fd full_aug use_scaled : bool) (d0 : sdstate (T:=R)),
    (1 <= Lbfgs.p_memory LP)%nat ->
    struct_init_ok prov_inactive prov_hess_L prov_hess_psi prov_box_D prov_grad_gi hvf fd full_aug = true ->
    cbfgs_on LP = false ->
    forall (N fuel : nat), PHI0 - ψinf < INR N * Dec -> (N <= p_max_iter P)%nat -> (N < fuel)%nat ->
    Converged_within _ (runD _ (struct_dir n pw LP Clb Cub Cl1 Dlb Dub prov_inactive prov_hess_L prov_hess_psi prov_box_D prov_grad_gi
                                            grad_psi_at hess_L_prod hess_psi_prod eval_g grad_gi cbrt_eps hvf fd full_aug use_scaled) d0 fuel) N.
  Proof.
    exact (fun pw LP Clb Cub Cl1 Dlb Dub a1 a2 a3 a4 a5 f1 f2 f3 f4 f5 ce hvf fd fa us d0 Hmem Hcap Hcb =>
             live4 _ (struct_dir n pw LP Clb Cub Cl1 Dlb Dub a1 a2 a3 a4 a5 f1 f2 f3 f4 f5 ce hvf fd fa us) d0 _ _
                   (struct_wf n pw LP Clb Cub Cl1 Dlb Dub a1 a2 a3 a4 a5 f1 f2 f3 f4 f5 ce hvf fd fa us Hmem Hcap Hcb) I).
  Qed.

  (* ---- END TO END for the shipped default inner solver PANOC + LBFGSDirection, default criterion, on a strongly convex box QP
          (from C02_panoc_qp_converges_near_minimiser BY REFINEMENT: the completed provider run is the oracle run with its own trace) *)
  Variables (Qmul : list R -> list R) (c : list R) (μ : R) (xs rs : list R).
  Hypothesis gradient_of_qp : forall x, length x = n -> g x = vplus (Qmul x) c.
  Hypothesis Q_length : forall x, length x = n -> length (Qmul x) = n.
  Hypothesis c_length : length c = n.
  Hypothesis xs_rs_length : length xs = n /\ length rs = n.
  Hypothesis strongly_convex : forall x, length x = n -> μ_ok μ Qmul x xs.
  Hypothesis exact_kkt_stationarity : vplus (Qmul xs) c = map Ropp rs.
  Hypothesis exact_kkt_C : in_boxv lb ub xs /\ in_ncone lb ub xs rs.

  Theorem C02_panoc_lbfgs_qp_converges_near_minimiser : forall (pw : R -> R -> R) (LP : Lbfgs.params R) (rescale : bool) (d0 : Lbfgs.state R),
    (1 <= Lbfgs.p_memory LP)%nat ->
    forall (N fuel : nat), PHI0 - ψinf < INR N * DecK -> (N <= p_max_iter P)%nat -> (N < fuel)%nat ->
    exists oD, runD _ (lbfgs_dir n pw LP rescale) d0 fuel = DoneD _ oD /\
      out_status (od_out _ oD) = StConverged /\ (out_iterations (od_out _ oD) < N)%nat /\
      μ * dot (vminus (out_x (od_out _ oD)) xs) (vminus (out_x (od_out _ oD)) xs) <= eff_tol (o_tol P) * norm1 (vminus (out_x (od_out _ oD)) xs).
  Proof.
    exact (fun pw LP rescale d0 Hmem =>
      panocD_qp_converges_near_minimiser psi_grad_full psi_yhat grad_L grad_psi lb ub _ (lbfgs_dir n pw LP rescale) P x_in y_in Σ errz_in ls_fuel d0
        ψ g n Lf ψinf oracle_values oracles_coherent grad_length quadratic_upper_bound bounded_below_on_C len_lb len_ub boxes_nonempty len_x
        Lgamma_factor L_init_positive Lf_below_L_max qub_tolerance_factor_zero linesearch_tolerance_factor_zero strictness_factor
        force_linesearch_off nL nT L_max_reached tau_factor tau_min_reached linesearch_fuel _ _ (lbfgs_wf n pw LP rescale Hmem) I
        Lg gradient_lipschitz Lg_nonneg Qmul c μ xs rs gradient_of_qp Q_length c_length xs_rs_length strongly_convex exact_kkt_stationarity exact_kkt_C
        criterion_kkt).
  Qed.
End C02_PANOC_SHIPPED.
Print Assumptions C02_panocdir_returns_converged.
Print Assumptions C02_panocdir_returns_converged_ApproxKKT.
Print Assumptions C02_panoc_lbfgs_returns_converged.
Print Assumptions C02_panoc_lbfgs_returns_converged_ApproxKKT.
Print Assumptions C02_panoc_anderson_returns_converged.
Print Assumptions C02_panoc_noop_returns_converged.
Print Assumptions C02_panoc_struclbfgs_returns_converged.
Print Assumptions C02_panoc_lbfgs_qp_converges_near_minimiser.

(* ---- the same for ZeroFPR (ZeroFprDir.zerofprD), for both values of update_direction_from_prox_step *)
Section C02_ZEROFPR_SHIPPED.
  Variable psi_grad_full : list R -> R * list R * list R.
  Variable psi_yhat : list R -> R * list R.
  Variable grad_L : list R -> list R -> list R.
  Variable grad_psi : list R -> list R.
  Variables (lb ub : list (option R)).
  Variable P : params (T:=R).
  Variable from_prox : bool.                                   (* update_direction_from_prox_step *)
  Variables (x_in y_in Σ errz_in : list R).
  Variable ls_fuel : nat.
  Variables (ψ : list R -> R) (g : list R -> list R) (n : nat) (Lf ψinf Lg : R).

  Notation never := (fun _ : counters => false).
  Notation runD D ops d0 := (zerofprD psi_grad_full psi_yhat grad_L grad_psi lb ub [] D ops never never P from_prox x_in y_in Σ errz_in ls_fuel d0).
  Notation Linit := (L_init psi_grad_full grad_psi P x_in).

  Hypothesis oracle_values : forall x, psi_grad psi_grad_full x = (ψ x, g x).
  Hypothesis oracles_coherent : zcoherent psi_grad_full psi_yhat grad_L.
  Hypothesis grad_length : forall x, length x = n -> length (g x) = n.
  Hypothesis quadratic_upper_bound : forall u d, length u = n -> length d = n ->
    ψ (vadd u d) <= ψ u + vdot (g u) d + Lf / 2 * vsqnorm d.
  Hypothesis bounded_below_on_C : forall z, all_in_box lb ub z -> ψinf <= ψ z.
  Hypothesis len_lb : length lb = n.
  Hypothesis len_ub : length ub = n.
  Hypothesis boxes_nonempty : Forall2 box_ne lb ub.
  Hypothesis len_x : length x_in = n.
  Hypothesis Lgamma_factor : 0 < p_Lgamma P < 1.
  Hypothesis L_init_positive : 0 < Linit.
  Hypothesis Lf_below_L_max : Lf <= p_Lmax P.
  Hypothesis qub_tolerance_factor_zero : p_qub_tol P = 0.
  Hypothesis linesearch_tolerance_factor_zero : p_ls_tol P = 0.
  Hypothesis strictness_factor : 0 < p_beta P <= 1.
  Hypothesis force_linesearch_off : p_force_ls P = false.
  Variables (nL nT : nat).
  Hypothesis L_max_reached : p_Lmax P <= Linit * 2 ^ nL.
  Hypothesis tau_min_reached : (1 / 2) ^ nT < p_tau_min P.
  Hypothesis linesearch_fuel : (ZeroFprProofs.ls_pass_bound nL nT <= ls_fuel)%nat.
  Hypothesis criterion_norms : p_crit P = ProjGradNorm \/ p_crit P = ProjGradNorm2 \/ p_crit P = FPRNorm \/ p_crit P = FPRNorm2.
  Hypothesis criterion_kkt : p_crit P = ApproxKKT.
  Hypothesis gradient_lipschitz : forall u d, length u = n -> length d = n ->
    vsqnorm (vsub (g u) (g (vadd u d))) <= Lg * Lg * vsqnorm d.
  Hypothesis Lg_nonneg : 0 <= Lg.

  Notation Dec := (dec psi_grad_full grad_psi P x_in Lf).
  Notation DecK := (dec_kkt psi_grad_full grad_psi P x_in Lf Lg).
  Notation PHI0 := (Phi0 psi_grad_full grad_psi lb ub P x_in ψ g Lf).
  Notation Converged_within D r N := (exists oD, r = ZDoneD D oD /\ out_status (zo_out D oD) = StConverged /\ lt (out_iterations (zo_out D oD)) N).
  Notation live4 D ops d0 I0 Iv Hwf HI0 :=
    (zerofprD_returns_converged psi_grad_full psi_yhat grad_L grad_psi lb ub D ops P from_prox x_in y_in Σ errz_in ls_fuel d0 ψ g n Lf ψinf
       oracle_values oracles_coherent grad_length quadratic_upper_bound bounded_below_on_C len_lb len_ub boxes_nonempty len_x
       Lgamma_factor L_init_positive Lf_below_L_max qub_tolerance_factor_zero linesearch_tolerance_factor_zero strictness_factor
       force_linesearch_off nL nT L_max_reached tau_min_reached linesearch_fuel I0 Iv Hwf HI0 criterion_norms).
  Notation liveK D ops d0 I0 Iv Hwf HI0 :=
    (zerofprD_returns_converged_kkt psi_grad_full psi_yhat grad_L grad_psi lb ub D ops P from_prox x_in y_in Σ errz_in ls_fuel d0 ψ g n Lf ψinf
       oracle_values oracles_coherent grad_length quadratic_upper_bound bounded_below_on_C len_lb len_ub boxes_nonempty len_x
       Lgamma_factor L_init_positive Lf_below_L_max qub_tolerance_factor_zero linesearch_tolerance_factor_zero strictness_factor
       force_linesearch_off nL nT L_max_reached tau_min_reached linesearch_fuel I0 Iv Hwf HI0 Lg gradient_lipschitz Lg_nonneg criterion_kkt).

  Theorem C02_zerofprdir_returns_converged : forall (D : Type) (ops : dirops R D) (d0 : D) (I0 Iv : D -> Prop),
    dir_wf n D ops I0 Iv -> I0 d0 ->
    forall (N fuel : nat), PHI0 - ψinf < INR N * Dec -> (N <= p_max_iter P)%nat -> (N < fuel)%nat ->
    Converged_within D (runD D ops d0 fuel) N.
  Proof. exact (fun D ops d0 I0 Iv Hwf HI0 => live4 D ops d0 I0 Iv Hwf HI0). Qed.

  Theorem C02_zerofprdir_returns_converged_ApproxKKT : forall (D : Type) (ops : dirops R D) (d0 : D) (I0 Iv : D -> Prop),
    dir_wf n D ops I0 Iv -> I0 d0 ->
    forall (N fuel : nat), PHI0 - ψinf < INR N * DecK -> (N <= p_max_iter P)%nat -> (N < fuel)%nat ->
    Converged_within D (runD D ops d0 fuel) N.
  Proof. exact (fun D ops d0 I0 Iv Hwf HI0 => liveK D ops d0 I0 Iv Hwf HI0). Qed.

  Theorem C02_zerofpr_lbfgs_returns_converged : forall (pw : R -> R -> R) (LP : Lbfgs.params R) (rescale : bool) (d0 : Lbfgs.state R),
    (1 <= Lbfgs.p_memory LP)%nat ->
    forall (N fuel : nat), PHI0 - ψinf < INR N * Dec -> (N <= p_max_iter P)%nat -> (N < fuel)%nat ->
    Converged_within _ (runD _ (lbfgs_dir n pw LP rescale) d0 fuel) N.
  Proof. exact (fun pw LP rescale d0 Hmem => live4 _ (lbfgs_dir n pw LP rescale) d0 _ _ (lbfgs_wf n pw LP rescale Hmem) I). Qed.

  Theorem C02_zerofpr_lbfgs_returns_converged_ApproxKKT : forall (pw : R -> R -> R) (LP : Lbfgs.params R) (rescale : bool) (d0 : Lbfgs.state R),
    (1 <= Lbfgs.p_memory LP)%nat ->
    forall (N fuel : nat), PHI0 - ψinf < INR N * DecK -> (N <= p_max_iter P)%nat -> (N < fuel)%nat ->
    Converged_within _ (runD _ (lbfgs_dir n pw LP rescale) d0 fuel) N.
  Proof. exact (fun pw LP rescale d0 Hmem => liveK _ (lbfgs_dir n pw LP rescale) d0 _ _ (lbfgs_wf n pw LP rescale Hmem) I). Qed.

  Theorem C02_zerofpr_anderson_returns_converged : forall (mem : nat) (mdf : R) (rescale : bool),
    (0 < n)%nat -> (0 < mem)%nat ->
    forall (N fuel : nat), PHI0 - ψinf < INR N * Dec -> (N <= p_max_iter P)%nat -> (N < fuel)%nat ->
    Converged_within _ (runD _ (anderson_dir n mem mdf rescale) (anderson_unsized mem mdf) fuel) N.
  Proof.
    exact (fun mem mdf rescale Hn Hmem => live4 _ (anderson_dir n mem mdf rescale) (anderson_unsized mem mdf) _ _ (anderson_wf n mem mdf rescale Hn Hmem)
             (fun E : length (@nil R) = n => Nat.lt_irrefl 0 (eq_ind_r (fun k => (0 < k)%nat) Hn E))).
  Qed.

  Theorem C02_zerofpr_noop_returns_converged :
    forall (N fuel : nat), PHI0 - ψinf < INR N * Dec -> (N <= p_max_iter P)%nat -> (N < fuel)%nat ->
    Converged_within _ (runD _ (noop_dir (T:=R)) tt fuel) N.
  Proof. exact (live4 _ (noop_dir (T:=R)) tt _ _ (noop_wf n) I). Qed.

  Theorem C02_zerofpr_struclbfgs_returns_converged :
    forall (pw : R -> R -> R) (LP : Lbfgs.params R) (Clb Cub : list (option R)) (Cl1 : list R) (Dlb Dub : list (option R))
           (prov_inactive prov_hess_L prov_hess_psi prov_box_D prov_grad_gi : bool)
           (grad_psi_at : list R -> list R -> list R -> list R) (hess_L_prod : list R -> list R -> R -> list R -> list R)
           (hess_psi_prod : list R -> list R -> list R -> R -> list R -> list R) (eval_g : list R -> list R) (grad_gi : list R -> nat -> list R)
           (cbrt_eps hvf : R) (fd full_aug use_scaled : bool) (d0 : sdstate (T:=R)),
    (1 <= Lbfgs.p_memory LP)%nat ->
    struct_init_ok prov_inactive prov_hess_L prov_hess_psi prov_box_D prov_grad_gi hvf fd full_aug = true ->
    cbfgs_on LP = false ->
    forall (N fuel : nat), PHI0 - ψinf < INR N * Dec -> (N <= p_max_iter P)%nat -> (N < fuel)%nat ->
    Converged_within _ (runD _ (struct_dir n pw LP Clb Cub Cl1 Dlb Dub prov_inactive prov_hess_L prov_hess_psi prov_box_D prov_grad_gi
                                            grad_psi_at hess_L_prod hess_psi_prod eval_g grad_gi cbrt_eps hvf fd full_aug use_scaled) d0 fuel) N.
  Proof.
    exact (fun pw LP Clb Cub Cl1 Dlb Dub a1 a2 a3 a4 a5 f1 f2 f3 f4 f5 ce hvf fd fa us d0 Hmem Hcap Hcb =>
             live4 _ (struct_dir n pw LP Clb Cub Cl1 Dlb Dub a1 a2 a3 a4 a5 f1 f2 f3 f4 f5 ce hvf fd fa us) d0 _ _
                   (struct_wf n pw LP Clb Cub Cl1 Dlb Dub a1 a2 a3 a4 a5 f1 f2 f3 f4 f5 ce hvf fd fa us Hmem Hcap Hcb) I).
  Qed.
End C02_ZEROFPR_SHIPPED.
Print Assumptions C02_zerofprdir_returns_converged.
Print Assumptions C02_zerofprdir_returns_converged_ApproxKKT.
Print Assumptions C02_zerofpr_lbfgs_returns_converged.
Print Assumptions C02_zerofpr_lbfgs_returns_converged_ApproxKKT.
Print Assumptions C02_zerofpr_anderson_returns_converged.
Print Assumptions C02_zerofpr_noop_returns_converged.
Print Assumptions C02_zerofpr_struclbfgs_returns_converged.

(* ====================================================================================================================
   non-vacuity of (4): the instance of C02_liveness_nonvacuous (ψ = x²/2 on R, n = 1, x_in = 1, ProjGradNorm, N = 1) satisfies every
   hypothesis of the generic theorems for EVERY well-formed provider, and each shipped provider is well-formed with its DEFAULT
   parameters (LBFGS / StructuredLBFGS: memory 10, CBFGS off, curvature-based step; Anderson: memory 10; Structured: hessian_vec_factor 0,
   finite differences, FallbackToProjectedGradient, a problem that provides eval_inactive_indices_res_lna and nothing else).
   ==================================================================================================================== *)
Lemma lv_L_init (PP : params (T:=R)) : p_L0 PP = 1 -> L_init (fun x => (lv_ψ x, x, [])) (fun x => x) PP [1] = 1.
Proof.
  intros E. unfold L_init, init_L. rewrite E. change (@nleb R NumR 1 (@n0 R NumR)) with (Rle_bool 1 0).
  destruct (Rle_bool_spec 1 0) as [H|_]; [lra|]. reflexivity.
Qed.

Lemma C02_panocdir_nonvacuous : forall (D : Type) (ops : dirops R D) (d0 : D) (I0 Iv : D -> Prop), dir_wf 1 D ops I0 Iv -> I0 d0 ->
  exists oD, panocD (T:=R) (fun x => (lv_ψ x, x, [])) (fun x => (lv_ψ x, [])) (fun x _ => x) (fun x => x) [None] [None] []
                  D ops (fun _ => false) (fun _ => false) lv_P [1] [] [] [] 18 d0 2 = DoneD D oD /\
            out_status (od_out D oD) = StConverged /\ (out_iterations (od_out D oD) < 1)%nat.
Proof.
  intros D ops d0 I0 Iv Hwf HI0.
  pose proof (lv_L_init lv_P eq_refl) as HL.
  apply (C02_panocdir_returns_converged (fun x => (lv_ψ x, x, [])) (fun x => (lv_ψ x, [])) (fun x _ => x) (fun x => x) [None] [None]
           lv_P [1] [] [] [] 18 lv_ψ (fun x => x) 1 1 0) with (nL := 2%nat) (nT := 3%nat) (I0 := I0) (Iv := Iv).
  - intros x. reflexivity.
  - intros x. split; reflexivity.
  - intros x Hx. exact Hx.
  - intros [|a [|? ?]] [|b [|? ?]]; cbn [length]; intros; try discriminate. unfold lv_ψ. cbn. lra.
  - intros z _. unfold lv_ψ. pose proof (vsqnorm_nonneg z). lra.
  - reflexivity.
  - reflexivity.
  - repeat constructor.
  - reflexivity.
  - cbn. lra.
  - rewrite HL. lra.
  - cbn. lra.
  - reflexivity.
  - reflexivity.
  - cbn. lra.
  - reflexivity.
  - rewrite HL. cbn. lra.
  - cbn. lra.
  - cbn. lra.
  - cbn. lia.
  - left. reflexivity.
  - exact Hwf.
  - exact HI0.
  - unfold Phi0. unfold dec, cmin, delta, gam0, gam_min, Lbar, tol, eff_tol. rewrite HL.
    cbn [lv_P p_beta p_Lgamma p_crit o_tol]. change (@nltb R NumR (@n0 R NumR) 1) with (Rlt_bool 0 1).
    destruct (Rlt_bool_spec 0 1) as [_|H]; [|lra].
    replace (Rmax 1 (2 * 1)) with 2 by (unfold Rmax; destruct (Rle_dec 1 (2 * 1)); lra).
    unfold lv_ψ, proj_grad_step. cbn. lra.
  - cbn. lia.
  - lia.
Qed.

Lemma C02_zerofprdir_nonvacuous : forall (D : Type) (ops : dirops R D) (from_prox : bool) (d0 : D) (I0 Iv : D -> Prop), dir_wf 1 D ops I0 Iv -> I0 d0 ->
  exists oD, zerofprD (T:=R) (fun x => (lv_ψ x, x, [])) (fun x => (lv_ψ x, [])) (fun x _ => x) (fun x => x) [None] [None] []
                  D ops (fun _ => false) (fun _ => false) lv_P from_prox [1] [] [] [] 18 d0 2 = ZDoneD D oD /\
            out_status (zo_out D oD) = StConverged /\ (out_iterations (zo_out D oD) < 1)%nat.
Proof.
  intros D ops from_prox d0 I0 Iv Hwf HI0.
  pose proof (lv_L_init lv_P eq_refl) as HL.
  apply (C02_zerofprdir_returns_converged (fun x => (lv_ψ x, x, [])) (fun x => (lv_ψ x, [])) (fun x _ => x) (fun x => x) [None] [None]
           lv_P from_prox [1] [] [] [] 18 lv_ψ (fun x => x) 1 1 0) with (nL := 2%nat) (nT := 3%nat) (I0 := I0) (Iv := Iv).
  - intros x. reflexivity.
  - intros x. reflexivity.
  - intros x Hx. exact Hx.
  - intros [|a [|? ?]] [|b [|? ?]]; cbn [length]; intros; try discriminate. unfold lv_ψ. cbn. lra.
  - intros z _. unfold lv_ψ. pose proof (vsqnorm_nonneg z). lra.
  - reflexivity.
  - reflexivity.
  - repeat constructor.
  - reflexivity.
  - cbn. lra.
  - rewrite HL. lra.
  - cbn. lra.
  - reflexivity.
  - reflexivity.
  - cbn. lra.
  - reflexivity.
  - rewrite HL. cbn. lra.
  - cbn. lra.
  - cbn. lia.
  - left. reflexivity.
  - exact Hwf.
  - exact HI0.
  - unfold Phi0. unfold dec, cmin, delta, gam0, gam_min, Lbar, tol, eff_tol. rewrite HL.
    cbn [lv_P p_beta p_Lgamma p_crit o_tol]. change (@nltb R NumR (@n0 R NumR) 1) with (Rlt_bool 0 1).
    destruct (Rlt_bool_spec 0 1) as [_|H]; [|lra].
    replace (Rmax 1 (2 * 1)) with 2 by (unfold Rmax; destruct (Rle_dec 1 (2 * 1)); lra).
    unfold lv_ψ, proj_grad_step. cbn. lra.
  - cbn. lia.
  - lia.
Qed.

(* the default parameter records *)
Definition lv_LP : Lbfgs.params R :=
  {| Lbfgs.p_memory := 10; Lbfgs.p_min_div_fac := 0; Lbfgs.p_min_abs_s := 0; Lbfgs.p_cbfgs_α := 1; Lbfgs.p_cbfgs_ϵ := 0;
     Lbfgs.p_force_pos_def := true; Lbfgs.p_curvature := true |}.
Definition lv_pw (a b : R) : R := 1.        (* std::pow: only read by the CBFGS test, which is off *)

Example C02_shipped_providers_well_formed :
  dir_wf 1 _ (lbfgs_dir 1 lv_pw lv_LP false) (fun _ => True) (LIv 1 lv_LP) /\
  dir_wf 1 _ (anderson_dir 1 10 0 false) (AI0 1) (AIv 1) /\ AI0 1 (anderson_unsized (T:=R) 10 0) /\
  dir_wf 1 _ (noop_dir (T:=R)) (fun _ => True) (fun _ => True) /\
  dir_wf 1 _ (struct_dir 1 lv_pw lv_LP [None] [None] [] [] [] true false false false false
                         (fun x _ _ => x) (fun _ _ _ v => v) (fun _ _ _ _ v => v) (fun _ => []) (fun _ _ => []) (1/100000) 0 true true false)
         (fun _ => True) (SIv 1 lv_LP).
Proof.
  assert (E00 : Req_bool 0 0 = true) by (apply Req_bool_iff; reflexivity).
  assert (L00 : Rlt_bool 0 0 = false) by (apply Rlt_bool_false_iff; lra).
  split; [apply lbfgs_wf; cbn; lia|]. split; [apply anderson_wf; lia|]. split; [cbn; discriminate|]. split; [apply noop_wf|].
  apply struct_wf; [cbn; lia| |exact L00].
  unfold struct_init_ok, hvf_on. change (@neqb R NumR 0 (@n0 R NumR)) with (Req_bool 0 0). rewrite E00. reflexivity.
Qed.

Example C02_panoc_shipped_nonvacuous :
  (exists oD, panocD (T:=R) (fun x => (lv_ψ x, x, [])) (fun x => (lv_ψ x, [])) (fun x _ => x) (fun x => x) [None] [None] []
                _ (lbfgs_dir 1 lv_pw lv_LP false) (fun _ => false) (fun _ => false) lv_P [1] [] [] [] 18 lbfgs_unsized 2 = DoneD _ oD /\
              out_status (od_out _ oD) = StConverged /\ (out_iterations (od_out _ oD) < 1)%nat) /\
  (exists oD, panocD (T:=R) (fun x => (lv_ψ x, x, [])) (fun x => (lv_ψ x, [])) (fun x _ => x) (fun x => x) [None] [None] []
                _ (anderson_dir 1 10 0 false) (fun _ => false) (fun _ => false) lv_P [1] [] [] [] 18 (anderson_unsized 10 0) 2 = DoneD _ oD /\
              out_status (od_out _ oD) = StConverged /\ (out_iterations (od_out _ oD) < 1)%nat) /\
  (exists oD, zerofprD (T:=R) (fun x => (lv_ψ x, x, [])) (fun x => (lv_ψ x, [])) (fun x _ => x) (fun x => x) [None] [None] []
                _ (lbfgs_dir 1 lv_pw lv_LP false) (fun _ => false) (fun _ => false) lv_P false [1] [] [] [] 18 lbfgs_unsized 2 = ZDoneD _ oD /\
              out_status (zo_out _ oD) = StConverged /\ (out_iterations (zo_out _ oD) < 1)%nat).
Proof.
  destruct C02_shipped_providers_well_formed as (W1 & W2 & W3 & _).
  split; [exact (C02_panocdir_nonvacuous _ _ lbfgs_unsized _ _ W1 I)|].
  split; [exact (C02_panocdir_nonvacuous _ _ _ _ _ W2 W3)|].
  exact (C02_zerofprdir_nonvacuous _ _ false lbfgs_unsized _ _ W1 I).
Qed.

(* non-vacuity of the end-to-end theorem for the shipped default PANOC + LBFGS stack and of the ZeroFPR ApproxKKT theorem:
   the instance of C02_qp_end_to_end_nonvacuous (min x²/2 on [-1, 2] from x_in = 1, ApproxKKT with tolerance 1, N = 19) *)
Lemma lv_kkt_bound :
  Phi0 (fun x => (lv_ψ x, x, [])) (fun x => x) [Some (-1)] [Some 2] lv_Pk [1] lv_ψ (fun x => x) 1 - 0 <
  INR 19 * dec_kkt (fun x => (lv_ψ x, x, [])) (fun x => x) lv_Pk [1] 1 1.
Proof.
  pose proof (lv_L_init lv_Pk eq_refl) as HL.
  assert (Htol : eff_tol (o_tol lv_Pk) = 1).
  { unfold eff_tol. cbn [lv_Pk o_tol]. change (@nltb R NumR (@n0 R NumR) 1) with (Rlt_bool 0 1).
    destruct (Rlt_bool_spec 0 1) as [_|H]; [reflexivity|lra]. }
  unfold Phi0. unfold dec_kkt, delta_kkt, cmin, gam0, gam_min, Lbar, tol. rewrite HL, Htol.
  cbn [lv_Pk p_beta p_Lgamma].
  replace (Rmax 1 (2 * 1)) with 2 by (unfold Rmax; destruct (Rle_dec 1 (2 * 1)); lra).
  unfold lv_ψ, proj_grad_step. cbn. numR. rbool; try lra.
  all: replace (INR 19) with 19 by (simpl; lra); lra.
Qed.

Example C02_panoc_lbfgs_qp_nonvacuous :
  exists oD, panocD (T:=R) (fun x => (lv_ψ x, x, [])) (fun x => (lv_ψ x, [])) (fun x _ => x) (fun x => x) [Some (-1)] [Some 2] []
                  _ (lbfgs_dir 1 lv_pw lv_LP false) (fun _ => false) (fun _ => false) lv_Pk [1] [] [] [] 18 lbfgs_unsized 20 = DoneD _ oD /\
            out_status (od_out _ oD) = StConverged /\ (out_iterations (od_out _ oD) < 19)%nat /\
            1 * dot (vminus (out_x (od_out _ oD)) [0]) (vminus (out_x (od_out _ oD)) [0]) <= eff_tol (o_tol lv_Pk) * norm1 (vminus (out_x (od_out _ oD)) [0]).
Proof.
  pose proof (lv_L_init lv_Pk eq_refl) as HL.
  apply (C02_panoc_lbfgs_qp_converges_near_minimiser (fun x => (lv_ψ x, x, [])) (fun x => (lv_ψ x, [])) (fun x _ => x) (fun x => x)
           [Some (-1)] [Some 2] lv_Pk [1] [] [] [] 18 lv_ψ (fun x => x) 1 1 0 1) with (nL := 2%nat) (nT := 3%nat) (Qmul := fun x => x) (c := [0]) (rs := [0]).
  - intros x. reflexivity.
  - intros x. split; reflexivity.
  - intros x Hx. exact Hx.
  - intros [|a [|? ?]] [|b [|? ?]]; cbn [length]; intros; try discriminate. unfold lv_ψ. cbn. lra.
  - intros z _. unfold lv_ψ. pose proof (vsqnorm_nonneg z). lra.
  - reflexivity.
  - reflexivity.
  - repeat constructor. cbn. lra.
  - reflexivity.
  - cbn. lra.
  - rewrite HL. lra.
  - cbn. lra.
  - reflexivity.
  - reflexivity.
  - cbn. lra.
  - reflexivity.
  - rewrite HL. cbn. lra.
  - cbn. lra.
  - cbn. lra.
  - cbn. lia.
  - reflexivity.
  - intros [|a [|? ?]] [|b [|? ?]]; cbn [length]; intros; try discriminate. cbn. nra.
  - lra.
  - intros [|a [|? ?]]; cbn [length]; intros; try discriminate. cbn. f_equal. lra.
  - intros x Hx. exact Hx.
  - reflexivity.
  - split; reflexivity.
  - intros [|a [|? ?]]; cbn [length]; intros; try discriminate. unfold μ_ok, dot, vminus. cbn. lra.
  - cbn. f_equal. lra.
  - unfold in_boxv, in_ncone. cbn [combine]. split; (apply Forall2_cons; [|apply Forall2_nil]).
    + unfold in_box, lb_ok, ub_ok. cbn. lra.
    + cbn. intros; lra.
  - cbn. lia.
  - exact lv_kkt_bound.
  - cbn. lia.
  - lia.
Qed.

Example C02_zerofpr_kkt_nonvacuous : forall (dir_apply : nat -> iterate (T:=R) -> proxit (T:=R) -> option (list R)) (has_initial : bool),
  (forall j i px q, dir_apply j i px = Some q -> length q = 1%nat) ->
  exists o, zerofpr (T:=R) (fun x => (lv_ψ x, x, [])) (fun x => (lv_ψ x, [])) (fun x _ => x) (fun x => x) [Some (-1)] [Some 2] []
                  dir_apply has_initial (fun _ => false) (fun _ => false) lv_Pk [1] [] [] [] 18 20 = Done o /\
            out_status o = StConverged /\ (out_iterations o < 19)%nat.
Proof.
  intros dir_apply has_initial Hdir.
  pose proof (lv_L_init lv_Pk eq_refl) as HL.
  apply (C02_zerofpr_returns_converged_ApproxKKT (fun x => (lv_ψ x, x, [])) (fun x => (lv_ψ x, [])) (fun x _ => x) (fun x => x)
           [Some (-1)] [Some 2] dir_apply has_initial lv_Pk [1] [] [] [] 18 lv_ψ (fun x => x) 1 1 0 1) with (nL := 2%nat) (nT := 3%nat).
  - intros x. reflexivity.
  - intros x. reflexivity.
  - intros x Hx. exact Hx.
  - intros [|a [|? ?]] [|b [|? ?]]; cbn [length]; intros; try discriminate. unfold lv_ψ. cbn. lra.
  - intros [|a [|? ?]] [|b [|? ?]]; cbn [length]; intros; try discriminate. cbn. nra.
  - lra.
  - intros z _. unfold lv_ψ. pose proof (vsqnorm_nonneg z). lra.
  - reflexivity.
  - reflexivity.
  - repeat constructor. cbn. lra.
  - reflexivity.
  - exact Hdir.
  - cbn. lra.
  - rewrite HL. lra.
  - cbn. lra.
  - reflexivity.
  - reflexivity.
  - cbn. lra.
  - reflexivity.
  - reflexivity.
  - rewrite HL. cbn. lra.
  - cbn. lra.
  - cbn. lia.
  - exact lv_kkt_bound.
  - cbn. lia.
  - lia.
Qed.

(* ====================================================================== (6) FISTA: THE ITERATES CONVERGE TO THE MINIMISER ======================
   Theorems about FistaLoop.fista = the WHOLE of FISTASolver::operator() (every Lipschitz mode, l1, m >= 0, any stop criterion), the model the
   whole-run correspondence Corr_FISTA ties to the real solver; hypotheses of C08 (9)-(15) (prob_ok / smooth_convex / coherent / fparams_ok /
   minimiser, see Properties_C08.v) PLUS strong convexity of the smooth part ψ (for m > 0: the augmented Lagrangian at the fixed y, Σ):
     strongly_convex n ψ ∇ψ mu :   0 < mu  and  ψ(y) + <∇ψ(y), x − y> + (mu/2)‖x − y‖² <= ψ(x)  for all n-vectors x, y.
   `minimiser` only says F(xs) <= F(x) for feasible x, so the first step is QUADRATIC GROWTH (mu/2)‖x − xs‖² <= F(x) − F(xs) (constant mu/2,
   from minimality along the segment, FistaLoopConv.quadratic_growth); composed with C08's function-value rate on every progress record:
     accelerated:            ‖x̂_k − xs‖² <= 4‖x0 − xs‖² / (mu γ_k (k+1)²)      (also with (k+2)²)
     disable_acceleration:   ‖x̂_k − xs‖² <=  ‖x0 − xs‖² / (mu γ_k (k+1))
   and, with K(eps) COMPUTED from mu, Lγ_factor, ‖x0 − xs‖², eps and the step-size lower bound — L_max in fixed-step mode,
   max(L_init, 2 Lf) in EVERY mode (C08_fistaloop_stepsize_lower_bound), so no mode lacks an explicit K —: every record with k + 1 >= K(eps) of
   every run has ‖x̂_k − xs‖² <= eps, whatever max_iter, the stop criterion, the tolerance, the stop flag, the clock and the fuels are.
   NOT claimed: that the run returns Converged (no stop criterion's ε is bounded by the gap, see C08 (13)); the linear rate that strong
   convexity would give the non-accelerated loop (only the O(1/k) bound inherited from C08 is stated). *)
From Alpaqa Require Import Fista FistaGen FistaK FistaProofs FistaGenProofs FistaLoop FistaLoopProofs FistaLoopRate FistaLoopConv.

Section C02_FISTA_ITERATES.
  Variable psi_grad : fcounters -> list R -> R * list R.
  Variable psi_yhat : fcounters -> list R -> R * list R.
  Variable grad_L : fcounters -> list R -> list R -> list R.
  Variable grad_psi : fcounters -> list R -> list R.
  Variables (lb ub : list (option R)) (l1 : list R).
  Variable stop_req : fcounters -> bool.
  Variable time_up : fcounters -> bool.
  Variable P : fparams (T:=R).
  Variables (x_in y_in Σ errz_in : list R).
  Variable bt_fuel : nat.
  Variables (n : nat) (f : list R -> R) (gradf : list R -> list R) (Lf : R) (xs : list R) (mu : R).
  Hypothesis Hok : prob_ok n lb ub l1.
  Hypothesis Hf : smooth_convex n f gradf Lf.
  Hypothesis Hco : coherent n f gradf psi_grad psi_yhat grad_psi.
  Hypothesis HP : fparams_ok P Lf.
  Hypothesis Hxs : minimiser n f lb ub l1 xs.
  Hypothesis Hx0 : length x_in = n.
  Hypothesis Hsc : strongly_convex n f gradf mu.

  Notation run := (fista psi_grad psi_yhat grad_L grad_psi lb ub l1 stop_req time_up P x_in y_in Σ errz_in bt_fuel).
  Notation Reachable := (reachable psi_grad psi_yhat grad_L grad_psi lb ub l1 stop_req time_up P x_in y_in Σ errz_in bt_fuel).
  Notation gap r := (F n f l1 (jxh (fr_it r)) - F n f l1 xs).
  Notation d2 r := (dist2 n (jxh (fr_it r)) xs).           (* ‖x̂_k − xs‖² of a record *)
  Notation R2 := (dist2 n x_in xs).
  Notation γlow := (fp_Lgamma P / Rmax (L_init psi_grad grad_psi P x_in) (2 * Lf)).     (* step-size lower bound valid in every mode *)
  Notation ARGS T := (T psi_grad psi_yhat grad_L grad_psi lb ub l1 stop_req time_up P x_in y_in Σ errz_in bt_fuel n f gradf Lf xs mu Hok Hf Hco HP Hxs Hx0 Hsc) (only parsing).

  (* (6.0) quadratic growth at the minimiser, constant mu/2 *)
  Theorem C02_fista_quadratic_growth : forall x, length x = n -> feas n lb ub x ->
    mu / 2 * dist2 n x xs <= F n f l1 x - F n f l1 xs.
  Proof. exact (quadratic_growth n f gradf lb ub l1 mu xs Hok Hsc Hxs). Qed.

  (* (6.1) THE ITERATES, accelerated loop, fixed and backtracked step size: EVERY progress-callback record (k, x̂_k, γ_k) of EVERY completed run *)
  Theorem C02_fista_iterates_converge : forall fuel o, run fuel = FDone o -> fp_noaccel P = false ->
    Forall (fun r => 0 < jgam (fr_it r) /\ length (jxh (fr_it r)) = n /\ feas n lb ub (jxh (fr_it r)) /\
                     mu / 2 * d2 r <= gap r /\
                     d2 r <= 4 * R2 / (mu * jgam (fr_it r) * ((INR (fr_k r) + 2) * (INR (fr_k r) + 2))) /\
                     d2 r <= 4 * R2 / (mu * jgam (fr_it r) * ((INR (fr_k r) + 1) * (INR (fr_k r) + 1)))) (fo_log o).
  Proof. exact (ARGS fistaloop_iterates). Qed.

  (* (6.2) ... and the records written so far at every loop head of every run, completed or not *)
  Theorem C02_fista_iterates_converge_every_loop_head : forall s, Reachable s -> fp_noaccel P = false ->
    Forall (fun r => 0 < jgam (fr_it r) /\ length (jxh (fr_it r)) = n /\ feas n lb ub (jxh (fr_it r)) /\
                     mu / 2 * d2 r <= gap r /\
                     d2 r <= 4 * R2 / (mu * jgam (fr_it r) * ((INR (fr_k r) + 2) * (INR (fr_k r) + 2))) /\
                     d2 r <= 4 * R2 / (mu * jgam (fr_it r) * ((INR (fr_k r) + 1) * (INR (fr_k r) + 1)))) (fs_log s).
  Proof. exact (ARGS fistaloop_iterates_reachable). Qed.

  (* (6.3) fixed-step mode (L_min = L_max): γ_k = Lγ_factor / L_max at every record, closed-form bound *)
  Theorem C02_fista_iterates_converge_fixed_step : forall fuel o, run fuel = FDone o -> fp_noaccel P = false -> ffixed P = true ->
    Forall (fun r => jgam (fr_it r) = fp_Lgamma P / fp_Lmax P /\
                     d2 r <= 4 * fp_Lmax P * R2 / (mu * fp_Lgamma P * ((INR (fr_k r) + 2) * (INR (fr_k r) + 2))) /\
                     d2 r <= 4 * fp_Lmax P * R2 / (mu * fp_Lgamma P * ((INR (fr_k r) + 1) * (INR (fr_k r) + 1)))) (fo_log o).
  Proof. exact (ARGS fistaloop_iterates_fixed_step). Qed.

  (* (6.4) disable_acceleration: the O(1/k) analogue, completed runs and every loop head *)
  Theorem C02_fista_iterates_converge_noaccel : forall fuel o, run fuel = FDone o -> fp_noaccel P = true ->
    Forall (fun r => 0 < jgam (fr_it r) /\ length (jxh (fr_it r)) = n /\ feas n lb ub (jxh (fr_it r)) /\
                     mu / 2 * d2 r <= gap r /\
                     d2 r <= R2 / (mu * jgam (fr_it r) * (INR (fr_k r) + 1))) (fo_log o).
  Proof. exact (ARGS fistaloop_iterates_noaccel). Qed.
  Theorem C02_fista_iterates_converge_noaccel_every_loop_head : forall s, Reachable s -> fp_noaccel P = true ->
    Forall (fun r => 0 < jgam (fr_it r) /\ length (jxh (fr_it r)) = n /\ feas n lb ub (jxh (fr_it r)) /\
                     mu / 2 * d2 r <= gap r /\
                     d2 r <= R2 / (mu * jgam (fr_it r) * (INR (fr_k r) + 1))) (fs_log s).
  Proof. exact (ARGS fistaloop_iterates_noaccel_reachable). Qed.

  (* (6.5) iteration count with a step-size lower bound γmin supplied by the caller (γ is non-increasing along a run — FISTA_gamma_nonincreasing —,
     so γmin may be the γ of the last record looked at): k + 1 >= N >= sqrt(4‖x0−xs‖²/(mu γmin eps))  ⇒  ‖x̂_k − xs‖² <= eps *)
  Theorem C02_fista_iterates_count : forall fuel o, run fuel = FDone o -> fp_noaccel P = false ->
    forall (γmin eps : R) (N : nat), 0 < γmin -> 0 < eps -> sqrt (4 * R2 / (mu * γmin * eps)) <= INR N ->
    Forall (fun r => γmin <= jgam (fr_it r) -> (N <= fr_k r + 1)%nat -> d2 r <= eps) (fo_log o).
  Proof. exact (ARGS fistaloop_iterates_count). Qed.
  Theorem C02_fista_iterates_count_noaccel : forall fuel o, run fuel = FDone o -> fp_noaccel P = true ->
    forall (γmin eps : R) (N : nat), 0 < γmin -> 0 < eps -> R2 / (mu * γmin * eps) <= INR N ->
    Forall (fun r => γmin <= jgam (fr_it r) -> (N <= fr_k r + 1)%nat -> d2 r <= eps) (fo_log o).
  Proof. exact (ARGS fistaloop_iterates_count_noaccel). Qed.

  (* (6.6) CONVERGENCE WITH K(eps) COMPUTED, no hypothesis on the step sizes, EVERY Lipschitz mode (backtracking from L_0 or from the
     finite-difference estimate, and fixed step): K = ⌈sqrt(4‖x0−xs‖² / (mu γlow eps))⌉, γlow = Lγ_factor / max(L_init, 2 Lf) *)
  Theorem C02_fista_iterates_within_eps_from_K_on : forall fuel o, run fuel = FDone o -> fp_noaccel P = false ->
    forall eps, 0 < eps ->
    let K := Z.to_nat (up (sqrt (4 * R2 / (mu * γlow * eps)))) in
    Forall (fun r => (K <= fr_k r + 1)%nat -> d2 r <= eps) (fo_log o).
  Proof. exact (ARGS fistaloop_iterates_converge). Qed.
  Theorem C02_fista_iterates_within_eps_from_K_on_every_loop_head : forall s, Reachable s -> fp_noaccel P = false ->
    forall eps, 0 < eps ->
    let K := Z.to_nat (up (sqrt (4 * R2 / (mu * γlow * eps)))) in
    Forall (fun r => (K <= fr_k r + 1)%nat -> d2 r <= eps) (fs_log s).
  Proof. exact (ARGS fistaloop_iterates_converge_reachable). Qed.
  (* fixed-step mode: K = ⌈sqrt(4 L_max ‖x0−xs‖² / (mu Lγ_factor eps))⌉ *)
  Theorem C02_fista_iterates_within_eps_from_K_on_fixed_step : forall fuel o, run fuel = FDone o -> fp_noaccel P = false -> ffixed P = true ->
    forall eps, 0 < eps ->
    let K := Z.to_nat (up (sqrt (4 * R2 / (mu * (fp_Lgamma P / fp_Lmax P) * eps)))) in
    Forall (fun r => (K <= fr_k r + 1)%nat -> d2 r <= eps) (fo_log o).
  Proof. exact (ARGS fistaloop_iterates_converge_fixed_step). Qed.
  (* disable_acceleration: K = ⌈‖x0−xs‖² / (mu γlow eps)⌉ (every mode), ⌈L_max ‖x0−xs‖² / (mu Lγ_factor eps)⌉ (fixed step) *)
  Theorem C02_fista_iterates_within_eps_from_K_on_noaccel : forall fuel o, run fuel = FDone o -> fp_noaccel P = true ->
    forall eps, 0 < eps ->
    let K := Z.to_nat (up (R2 / (mu * γlow * eps))) in
    Forall (fun r => (K <= fr_k r + 1)%nat -> d2 r <= eps) (fo_log o).
  Proof. exact (ARGS fistaloop_iterates_converge_noaccel). Qed.
  Theorem C02_fista_iterates_within_eps_from_K_on_noaccel_every_loop_head : forall s, Reachable s -> fp_noaccel P = true ->
    forall eps, 0 < eps ->
    let K := Z.to_nat (up (R2 / (mu * γlow * eps))) in
    Forall (fun r => (K <= fr_k r + 1)%nat -> d2 r <= eps) (fs_log s).
  Proof. exact (ARGS fistaloop_iterates_converge_noaccel_reachable). Qed.
  Theorem C02_fista_iterates_within_eps_from_K_on_noaccel_fixed_step : forall fuel o, run fuel = FDone o -> fp_noaccel P = true -> ffixed P = true ->
    forall eps, 0 < eps ->
    let K := Z.to_nat (up (R2 / (mu * (fp_Lgamma P / fp_Lmax P) * eps))) in
    Forall (fun r => (K <= fr_k r + 1)%nat -> d2 r <= eps) (fo_log o).
  Proof. exact (ARGS fistaloop_iterates_converge_noaccel_fixed_step). Qed.
End C02_FISTA_ITERATES.
Print Assumptions C02_fista_quadratic_growth.
Print Assumptions C02_fista_iterates_converge.
Print Assumptions C02_fista_iterates_converge_every_loop_head.
Print Assumptions C02_fista_iterates_converge_fixed_step.
Print Assumptions C02_fista_iterates_converge_noaccel.
Print Assumptions C02_fista_iterates_converge_noaccel_every_loop_head.
Print Assumptions C02_fista_iterates_count.
Print Assumptions C02_fista_iterates_count_noaccel.
Print Assumptions C02_fista_iterates_within_eps_from_K_on.
Print Assumptions C02_fista_iterates_within_eps_from_K_on_every_loop_head.
Print Assumptions C02_fista_iterates_within_eps_from_K_on_fixed_step.
Print Assumptions C02_fista_iterates_within_eps_from_K_on_noaccel.
Print Assumptions C02_fista_iterates_within_eps_from_K_on_noaccel_every_loop_head.
Print Assumptions C02_fista_iterates_within_eps_from_K_on_noaccel_fixed_step.

(* non-vacuity of (6): the two instances of C08's whole-run theorems are strongly convex with mu = 1, all hypotheses hold and, for every
   max_iter, the run completes with a non-empty log:
   (a) m = 0, fixed step: ψ = ½‖x‖² on R², box [-1,1] x R, l1 weight ½, xs = (0,0), x0 = (3,-2);
   (b) m = 1, backtracking from L_0 = ½ < Lf = 2, ApproxKKT: ψ(x) = ½x² + ½max(x−1,0)², xs = 0, x0 = 3;
   (c) the conclusion of (6.3) read off on (a): every record of every run is within 4·13/(k+1)² of (0,0) in squared distance *)
Example C02_fista_iterates_nonvacuous_m0_fixed_step : forall mi,
  prob_ok 2 ex_lb ex_ub [/ 2] /\ smooth_convex 2 ex_f (fun x => x) 1 /\ coherent 2 ex_f (fun x => x) exl_pg exl_py exl_gp /\
  fparams_ok (exl_P mi) 1 /\ minimiser 2 ex_f ex_lb ex_ub [/ 2] [0; 0] /\ length [3; -2] = 2%nat /\
  strongly_convex 2 ex_f (fun x => x) 1 /\
  fp_noaccel (exl_P mi) = false /\ ffixed (exl_P mi) = true /\
  exists o, exl_run mi = FDone o /\ fo_log o <> [].
Proof. exact exl_conv_nonvacuous. Qed.
Example C02_fista_iterates_nonvacuous_m1_backtracking : forall mi,
  prob_ok 1 [None] [None] [] /\ smooth_convex 1 em_f em_g 2 /\ coherent 1 em_f em_g em_pg em_py em_gp /\
  fparams_ok (em_P mi) 2 /\ minimiser 1 em_f [None] [None] [] [0] /\ length [3] = 1%nat /\
  strongly_convex 1 em_f em_g 1 /\
  fp_noaccel (em_P mi) = false /\ ffixed (em_P mi) = false /\
  exists o, em_run mi = FDone o /\ fo_log o <> [].
Proof. exact em_conv_nonvacuous. Qed.
Example C02_fista_iterates_instance : forall mi, exists o, exl_run mi = FDone o /\ fo_log o <> [] /\
  Forall (fun r => dist2 2 (jxh (fr_it r)) [0; 0] <= 4 * 1 * 13 / (1 * 1 * ((INR (fr_k r) + 1) * (INR (fr_k r) + 1)))) (fo_log o).
Proof. exact exl_iterates. Qed.

(* ====================================================================================================================
   NOTE — positive tolerance factors (quadratic_upperbound_tolerance_factor = linesearch_tolerance_factor = 10 ε_mach by default).  NOT PROVED.
   What survives with tq := p_qub_tol > 0, tl := p_ls_tol > 0 (same proofs): a violated QUB test still forces L < Lf (the slack (1+|ψ(x)|)·tq only
   makes the test harder to violate), so L <= max(L_init, 2 Lf), γ >= γmin and the line search terminates; an accepted step gives
        φ(x⁺) <= φ(x) - cmin·‖p‖² + s(x),     s(x) = (1+|ψ(x)|)·tq  (safeguarded step)   or   (1+|φ_γ(x)|)·tl  (accelerated step),
   and the lower bound of the envelope degrades to  ψinf <= φ_γ(x) + (1+|ψ(x)|)·tq.
   What breaks, precisely:
   (a) PanocLive.same_x_forces_zero_step (the exclusion of NoProgress) is FALSE for tl > 0, and with it the theorem "for EVERY direction oracle":
       counter-run (oracle level): the oracle that always returns q = 0 (finite, so τ_init = 1).  The candidate is x + q = x with the same γ, its
       QUB test is the one x already passed, and the line-search test  φ(x) <= φ(x) - σ‖p‖² + (1+|φ(x)|)·tl  ACCEPTS it as soon as
       σ‖p‖² <= (1+|φ(x)|)·tl  (σ = β(1-Lγ)/(2γ)).  x does not move, ε stays above the tolerance, no_progress is incremented at every
       iteration (once k reaches a multiple of max_no_progress) and the run returns NoProgress within 2·max_no_progress + 1 iterations.  So for a tolerance below sqrt((1+|φ|)·tl/σ) (≈ 1e-7·sqrt((1+|φ|)γ)
       with the default factor; the default tolerance is 1e-8) convergence can be defeated by a direction provider; a positive-tolerance
       theorem therefore needs the smallness hypothesis  s < cmin·δ²  (then x⁺ = x still forces ‖p‖ <= δ), or provider-specific reasoning
       (LBFGS with H ≻ 0 never returns q = 0 for p ≠ 0; NoopDirection never takes an accelerated step).
   (b) the smallness hypothesis cannot be stated on the problem alone with the present invariants: s(x_k) involves |ψ(x_k)| at the iterate x_k,
       which an accelerated step may place OUTSIDE C, where ψ is not bounded below by hypothesis and ψ(x_k) is not controlled by φ_γ(x_k)
       (φ_γ(x) <= ψ(x) only for x in C).  |φ_γ(x_k)| IS controlled (ψinf - s <= φ <= Φ0 + k·s), |ψ(x_k)| is not: a clean statement needs an
       extra problem hypothesis such as "|ψ| <= Ψ on {x : φ_γ(x) <= Φ0 + N·s for some γ in [γmin, γ0]}" (compact sublevel sets of the envelope);
       with it: N' = ceil((Φ0 - ψinf + (1+Ψ)·tq) / (cmin·δ² - s̄)), s̄ = (1+Ψ)·tq + (1+Φ)·tl < cmin·δ², Φ = max(|ψinf| + (1+Ψ)tq, |Φ0| + N'·s̄).
       Doing it requires re-proving ls_invariant2 / iteration_descent / fbe_lower / pass_live with the slack terms (they take p_qub_tol = 0 and
       p_ls_tol = 0 as hypotheses); not done here.  The check's oracle runs the default factors on the implementation (every stack must return Converged).
   ==================================================================================================================== *)
