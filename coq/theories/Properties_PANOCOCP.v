(* Properties_PANOCOCP.v — loop invariants of the WHOLE PANOC-OCP solver loop (PanocOcpLoop.panoc_ocp = PANOCOCPSolver::operator()),
   over R, for every forward / backward sweep oracle (ψ, simulated storage, ∇ψ arbitrary functions), every Gauss-Newton oracle, every
   L-BFGS oracle (arbitrary state type), every stop / clock oracle and every parameter set.  Only `exact` + Print Assumptions here;
   the proofs are in PanocOcpLoopProofs.v.  The whole-run correspondence (Corr_PANOCOCP.chkocp, lib/vf/props/PANOCOCP.py) ties
   PanocOcpLoop.panoc_ocp at binary64 to the real solver.  The stop chain is the GENERATED gen/StopChain.stop_status_ocp. *)
From Coq Require Import Reals List ZArith Bool Lra.
From Flocq Require Import Raux.
From Alpaqa Require Import Num NumR Vec Prox ProxProofs SolverStatus SolverKernels SolverKernelsProofs DescentProofs
                           StopChain StopChainProofs PanocOcp PanocOcpProofs PanocOcpLoop PanocOcpLoopProofs PanocOcpE2E.
Import ListNotations.
Local Open Scope R_scope.

Section PANOCOCP.
  (* the outside world: nothing is assumed about any of these *)
  Variables X QR DS : Type.                                  (* simulated storage, qr buffer, L-BFGS object *)
  Variable fwd : list R -> R * X.                            (* eval.forward: (ψ(u) incl. ALM terms, simulated storage) *)
  Variable sim : list R -> X.                                (* eval.forward_simulate *)
  Variable bwd : list R -> X -> list R * QR.                 (* eval.backward: (∇ψ, qr) *)
  Variable cvals : X -> list R.                              (* constraint values stored in a storage *)
  Variable gn_step : nat -> list R -> X -> QR -> list bool -> list R -> list R.
  Variable lb_apply : DS -> list R -> R -> list nat -> bool * list R * DS.
  Variable lb_update : DS -> list R -> list R -> list R -> list R -> bool * DS.
  Variable lb_reset : DS -> DS.
  Variables (N nu : nat).
  Variables (Ulb Uub Dlb Dub : list (option R)).
  Variable stop_req : counters -> bool.
  Variable time_up : counters -> bool.
  Variable P : params (T:=R).
  Variables (u_in y_in μ errz_in : list R).
  Variables (X0 : X) (ds0 : DS).
  Variable ls_fuel : nat.

  Notation run := (panoc_ocp X QR DS fwd sim bwd cvals gn_step lb_apply lb_update lb_reset N nu Ulb Uub Dlb Dub stop_req time_up P u_in y_in μ errz_in X0 ds0 ls_fuel).
  Notation pass_ := (pass X QR DS fwd bwd cvals gn_step lb_apply lb_update lb_reset N nu Ulb Uub Dlb Dub stop_req time_up P u_in y_in μ errz_in ls_fuel).
  Notation Consistent := (consistent X QR fwd bwd N nu Ulb Uub).
  Notation Reachable := (reachable X QR DS fwd sim bwd cvals gn_step lb_apply lb_update lb_reset N nu Ulb Uub Dlb Dub stop_req time_up P u_in y_in μ errz_in X0 ds0 ls_fuel).
  Notation Glrel0 := (glrel0 X QR fwd sim bwd P u_in X0).
  Notation Qub_ok := (qub_ok X P).
  Notation Rec_ok := (rec_ok X QR fwd sim bwd N nu Ulb Uub P u_in X0).
  Notation Chain := (chain X P).
  Notation Desc := (desc X P).
  Notation Halved := (halved X).
  Notation Linit := (L_init X QR fwd sim bwd P u_in X0).
  Notation Eps_of := (it_eps X N nu Ulb Uub P).

  (* (a)+(b)+(c)+(e): at EVERY evaluation of the stop check — after a completed iteration as well as after a line search that a stop
     request interrupted (`continue`) — the current iterate is consistent, satisfies the QUB test or has L >= L_max, has (γ, L)
     obtained from the initial pair by halvings/doublings only, and k <= max_iter *)
  Theorem PANOCOCP_invariant_at_every_stop_check : forall s, Reachable s ->
    Consistent (st_curr s) /\ Qub_ok (st_curr s) /\ Glrel0 (st_curr s) /\ (st_k s <= p_max_iter P)%nat.
  Proof. exact (reachable_check X QR DS fwd sim bwd cvals gn_step lb_apply lb_update lb_reset N nu Ulb Uub Dlb Dub stop_req time_up P u_in y_in μ errz_in X0 ds0 ls_fuel). Qed.

  (* what `consistent` says, spelled out: ψ, the storage and ∇ψ are the oracles' values at u; û = u + p is the projected step for the
     iterate's γ at (u, ∇ψ(u)) on the tiled input box; ‖p‖², ∇ψᵀp are the per-stage sums of the code; ψ(û) is the oracle's at û *)
  Theorem PANOCOCP_consistent_means : forall i : iterate (T:=R) X, Consistent i ->
    ipsi i = fst (fwd (iu i)) /\ ix i = snd (fwd (iu i)) /\ igrad i = fst (bwd (iu i) (snd (fwd (iu i)))) /\
    iuh i = fst (fst (proj_grad_step (tile N Ulb) (tile N Uub) (igam i) (iu i) (igrad i))) /\
    ip i = snd (fst (proj_grad_step (tile N Ulb) (tile N Uub) (igam i) (iu i) (igrad i))) /\
    iuh i = vadd (iu i) (ip i) /\
    ipp i = stage_sum N (fun t => vsqnorm (stage_seg nu t (ip i))) /\
    igp i = stage_sum N (fun t => vdot (stage_seg nu t (igrad i)) (stage_seg nu t (ip i))) /\
    ipsih i = fst (fwd (iuh i)) /\ ixh i = snd (fwd (iuh i)).
  Proof. exact (consistent_explicit X QR DS fwd sim bwd cvals gn_step lb_apply lb_update lb_reset N nu Ulb Uub Dlb Dub stop_req time_up P u_in y_in μ errz_in X0 ds0 ls_fuel). Qed.

  (* û of a consistent iterate is, component by component, the projection of u − γ∇ψ(u) onto U: it lies in the input box *)
  Theorem PANOCOCP_uhat_in_input_box : forall (i : iterate (T:=R) X) n, Consistent i ->
    length (tile N Ulb) = n -> length (tile N Uub) = n -> length (iu i) = n -> length (igrad i) = n ->
    forall j, (j < n)%nat -> box_ne (nth j (tile N Ulb) None) (nth j (tile N Uub) None) ->
    in_box (nth j (tile N Ulb) None) (nth j (tile N Uub) None) (nth j (iuh i) 0) /\
    nth j (iuh i) 0 = proj1 (nth j (tile N Ulb) None) (nth j (tile N Uub) None) (nth j (iu i) 0 - igam i * nth j (igrad i) 0).
  Proof. exact (consistent_uhat_in_box X QR DS fwd sim bwd cvals gn_step lb_apply lb_update lb_reset N nu Ulb Uub Dlb Dub stop_req time_up P u_in y_in μ errz_in X0 ds0 ls_fuel). Qed.

  (* (b) γ·L *)
  Theorem PANOCOCP_gamma_times_L : forall i : iterate (T:=R) X, Linit <> 0 -> Glrel0 i -> igam i * iL i = p_Lgamma P.
  Proof. exact (glrel0_product_factor X QR DS fwd sim bwd cvals gn_step lb_apply lb_update lb_reset N nu Ulb Uub Dlb Dub stop_req time_up P u_in y_in μ errz_in X0 ds0 ls_fuel). Qed.
  Theorem PANOCOCP_gamma_nonincreasing : forall a b : iterate (T:=R) X, Halved a b -> 0 < igam a -> 0 < igam b <= igam a.
  Proof. exact (halved_nonincreasing X QR DS fwd sim bwd cvals gn_step lb_apply lb_update lb_reset N nu Ulb Uub Dlb Dub stop_req time_up P u_in y_in μ errz_in X0 ds0 ls_fuel). Qed.

  (* (c) *)
  Theorem PANOCOCP_qub_or_Lmax : forall i : iterate (T:=R) X, Qub_ok i ->
    p_Lmax P <= iL i \/ ipsih i <= ipsi i + igp i + 1 / 2 * iL i * ipp i + (1 + Rabs (ipsi i)) * p_qub_tol P.
  Proof. exact (qub_ok_explicit X QR DS fwd sim bwd cvals gn_step lb_apply lb_update lb_reset N nu Ulb Uub Dlb Dub stop_req time_up P u_in y_in μ errz_in X0 ds0 ls_fuel). Qed.

  (* whole runs: every progress-callback record is consistent / QUB-ok / on the (γ, L) ladder, every consecutive pair is linked
     (status Busy, k+1, γ only halved, descent facts), the last record is the final stop check *)
  Theorem PANOCOCP_records : forall fuel o, run fuel = Done o ->
    Forall Rec_ok (out_log o) /\ Chain (rev (out_log o)) /\
    exists cf, hd_error (rev (out_log o)) = Some (mkCb (out_iterations o) cf [] (- 1) (out_eps o) false 0%Z (out_status o)) /\ Consistent cf.
  Proof. exact (run_records X QR DS fwd sim bwd cvals gn_step lb_apply lb_update lb_reset N nu Ulb Uub Dlb Dub stop_req time_up P u_in y_in μ errz_in X0 ds0 ls_fuel). Qed.
  Theorem PANOCOCP_record_means : forall r : cbrec (T:=R) X, Rec_ok r ->
    Consistent (r_it r) /\ Qub_ok (r_it r) /\ Glrel0 (r_it r) /\ (r_k r <= p_max_iter P)%nat.
  Proof. exact (fun r H => H). Qed.
  Theorem PANOCOCP_link_means : forall r r' : cbrec (T:=R) X, Desc r r' ->
    r_status r = StBusy /\ r_k r' = S (r_k r) /\ Halved (r_it r) (r_it r') /\
    (r_tau r = 0 -> iu (r_it r') = iuh (r_it r) /\ ipsi (r_it r') = ipsih (r_it r)).
  Proof. exact (desc_explicit X QR DS fwd sim bwd cvals gn_step lb_apply lb_update lb_reset N nu Ulb Uub Dlb Dub stop_req time_up P u_in y_in μ errz_in X0 ds0 ls_fuel). Qed.

  (* (d) descent between consecutive reported iterates after an accelerated step (GN or L-BFGS, any τ > 0), constants of C05 *)
  Theorem PANOCOCP_descent_accelerated : forall r r' : cbrec (T:=R) X, Desc r r' -> 0 < r_tau r ->
    let a := r_it r in
    it_fbe (r_it r') <= it_fbe a - p_beta P * (1 - igam a * iL a) / (2 * igam a) * ipp a + (1 + Rabs (it_fbe a)) * p_ls_tol P.
  Proof. exact (desc_accelerated X QR DS fwd sim bwd cvals gn_step lb_apply lb_update lb_reset N nu Ulb Uub Dlb Dub stop_req time_up P u_in y_in μ errz_in X0 ds0 ls_fuel). Qed.

  (* (e) *)
  Theorem PANOCOCP_status_clauses : forall fuel o, run fuel = Done o ->
    (out_iterations o <= p_max_iter P)%nat /\
    out_status o <> StBusy /\
    (out_status o = StMaxIter -> out_iterations o = p_max_iter P) /\
    (out_status o = StConverged <-> out_eps o <= eff_tol (o_tol P)) /\
    (out_status o = StInterrupted -> exists c, stop_req c = true) /\
    (out_status o = StMaxTime -> exists c, time_up c = true) /\
    (out_status o = StNoProgress -> exists np, (p_max_no_progress P < np)%nat).
  Proof. exact (status_clauses X QR DS fwd sim bwd cvals gn_step lb_apply lb_update lb_reset N nu Ulb Uub Dlb Dub stop_req time_up P u_in y_in μ errz_in X0 ds0 ls_fuel). Qed.

  (* (f) exit block = written û of a consistent iterate (what C13 needs): the returned inputs are the projected step of the final
     iterate, the multipliers / constraint errors are write_solution's rows (C13_multiplier_relations) on the constraint values
     simulated AT the returned inputs; otherwise nothing is written *)
  Theorem PANOCOCP_exit : forall fuel o, run fuel = Done o ->
    exists cf : iterate (T:=R) X, Consistent cf /\ Qub_ok cf /\ Glrel0 cf /\ out_final o = cf /\
      Eps_of cf = Some (out_eps o) /\
      (overwrites (out_status o) (o_always P) = true ->
         out_u o = iuh cf /\ iuh cf = vadd (iu cf) (ip cf) /\
         out_u o = fst (fst (proj_grad_step (tile N Ulb) (tile N Uub) (igam cf) (iu cf) (igrad cf))) /\
         let rows := ocp_write Dlb Dub (cvals (snd (fwd (out_u o)))) y_in μ in
         out_y o = map fst rows /\ out_errz o = map snd rows) /\
      (overwrites (out_status o) (o_always P) = false -> out_u o = u_in /\ out_y o = y_in /\ out_errz o = errz_in).
  Proof. exact (run_exit X QR DS fwd sim bwd cvals gn_step lb_apply lb_update lb_reset N nu Ulb Uub Dlb Dub stop_req time_up P u_in y_in μ errz_in X0 ds0 ls_fuel). Qed.


  (* with well-formed dimensions the per-stage accumulations are the whole-vector ‖p‖² and ∇ψᵀp, and the loop's stopping criterion is
     C13's ocp_crit on the iterate's own (γ, u, ∇ψ, p) *)
  Theorem PANOCOCP_stage_sums_are_whole_vector : forall i : iterate (T:=R) X, Consistent i -> length Ulb = nu -> length Uub = nu ->
    length (iu i) = (N * nu)%nat -> length (igrad i) = (N * nu)%nat ->
    length (ip i) = (N * nu)%nat /\ length (iuh i) = (N * nu)%nat /\ ipp i = vsqnorm (ip i) /\ igp i = vdot (igrad i) (ip i).
  Proof. exact (consistent_pp_gp X QR DS fwd sim bwd cvals gn_step lb_apply lb_update lb_reset N nu Ulb Uub Dlb Dub stop_req time_up P u_in y_in μ errz_in X0 ds0 ls_fuel). Qed.
  Theorem PANOCOCP_criterion_is_C13_criterion : forall i : iterate (T:=R) X, Consistent i -> length Ulb = nu -> length Uub = nu ->
    length (iu i) = (N * nu)%nat -> length (igrad i) = (N * nu)%nat ->
    Eps_of i = ocp_crit (p_crit P) Ulb Uub N (igam i) (iu i) (igrad i) (ip i).
  Proof. exact (eps_is_ocp_crit X QR DS fwd sim bwd cvals gn_step lb_apply lb_update lb_reset N nu Ulb Uub Dlb Dub stop_req time_up P u_in y_in μ errz_in X0 ds0 ls_fuel). Qed.

  (* (d) descent after a safeguarded step (τ = 0: the line search failed or no direction was available), constants of C05 *)
  Theorem PANOCOCP_descent_safe_step : forall r r' : cbrec (T:=R) X, Desc r r' -> Rec_ok r -> Rec_ok r' ->
    r_tau r = 0 -> iL (r_it r) < p_Lmax P -> 0 < igam (r_it r) -> 0 < igam (r_it r') ->
    length Ulb = nu -> length Uub = nu -> length (iu (r_it r)) = (N * nu)%nat -> length (igrad (r_it r)) = (N * nu)%nat ->
    length (igrad (r_it r')) = (N * nu)%nat -> Forall2 box_ne (tile N Ulb) (tile N Uub) ->
    let a := r_it r in
    it_fbe (r_it r') <= it_fbe a - (1 - igam a * iL a) / (2 * igam a) * ipp a + (1 + Rabs (ipsi a)) * p_qub_tol P.
  Proof. exact (desc_safe X QR DS fwd sim bwd cvals gn_step lb_apply lb_update lb_reset N nu Ulb Uub Dlb Dub stop_req time_up P u_in y_in μ errz_in X0 ds0 ls_fuel). Qed.

  (* what C13 needs: Converged certifies input-constrained stationarity — the returned inputs are the projected-gradient point û of a
     consistent iterate (ψ, ∇ψ the oracles' at u) whose DOCUMENTED residual of the selected criterion is within the tolerance, and the
     written multipliers / constraint errors are write_solution's rows on the constraint values simulated at the returned inputs;
     whatever Gauss-Newton / L-BFGS oracle produced the directions *)
  Theorem PANOCOCP_converged_certifies : forall fuel o, run fuel = Done o -> out_status o = StConverged ->
    let cf := out_final o in
    length Ulb = nu -> length Uub = nu -> length (iu cf) = (N * nu)%nat -> length (igrad cf) = (N * nu)%nat -> igam cf <> 0 ->
    let st := proj_grad_step (tile N Ulb) (tile N Uub) (igam cf) (iu cf) (igrad cf) in
    Consistent cf /\
    out_u o = fst (fst st) /\
    crit_doc (p_crit P) (tile N Ulb) (tile N Uub) (igam cf) (iu cf) (fst (fst st)) [] (igrad cf) [] <= eff_tol (o_tol P) /\
    igrad cf = fst (bwd (iu cf) (snd (fwd (iu cf)))) /\
    (let rows := ocp_write Dlb Dub (cvals (snd (fwd (out_u o)))) y_in μ in out_y o = map fst rows /\ out_errz o = map snd rows).
  Proof. exact (run_converged_certifies X QR DS fwd sim bwd cvals gn_step lb_apply lb_update lb_reset N nu Ulb Uub Dlb Dub stop_req time_up P u_in y_in μ errz_in X0 ds0 ls_fuel). Qed.

  (* at k = max_iter every pass exits, whatever the stop flag and the clock say *)
  Theorem PANOCOCP_exits_at_max_iter : forall (s : lstate (T:=R) X QR DS) ε, Eps_of (st_curr s) = Some ε -> st_k s = p_max_iter P ->
    exists o, pass_ s = PExit o /\ out_iterations o = st_k s /\ out_status o <> StBusy /\ out_eps o = ε /\
              (out_u o, out_y o, out_errz o) = exit_values X cvals Dlb Dub P u_in y_in μ errz_in (out_status o) (st_curr s).
  Proof. exact (pass_exits_at_max_iter X QR DS fwd sim bwd cvals gn_step lb_apply lb_update lb_reset N nu Ulb Uub Dlb Dub stop_req time_up P u_in y_in μ errz_in X0 ds0 ls_fuel). Qed.


  (* `throw std::logic_error("enable_lbfgs")` (L-BFGS branch entered with gn_interval = 1, i.e. without an L-BFGS object) is unreachable *)
  Theorem PANOCOCP_no_logic_error : forall fuel, run fuel <> ThrewLogic.
  Proof. exact (run_no_logic_error X QR DS fwd sim bwd cvals gn_step lb_apply lb_update lb_reset N nu Ulb Uub Dlb Dub stop_req time_up P u_in y_in μ errz_in X0 ds0 ls_fuel). Qed.

  (* (g) termination of the line search: with a finite L_max (reached from L after nL doublings), L > 0 and (1/2)^nT below
     min_linesearch_coefficient (> 0), `while (!stop_requested)` makes at most (nL+1)(nT+3) passes; hence no pass of the outer loop of
     any run reports OutOfFuel when ls_fuel is at least that bound *)
  Theorem PANOCOCP_linesearch_terminates : forall (cL : R) (nL nT : nat) (q : list R) (τi : R) (dng : bool),
    0 < cL -> p_Lmax P <= cL * 2 ^ nL -> (1 / 2) ^ nT < p_tau_min P -> τi = 0 \/ τi = 1 ->
    forall (curr next : iterate (T:=R) X) dg ds qr c st, iL curr = cL -> forall fuel, (ls_pass_bound nL nT <= fuel)%nat ->
    ls_loop X QR DS fwd bwd lb_reset N nu Ulb Uub stop_req P fuel q τi dng
            (mkLs curr (set_gamma_L X next (igam curr) (iL curr)) τi (- 1) dg ds qr c st) <> LsFuel.
  Proof. exact (ls_terminates X QR DS fwd sim bwd cvals gn_step lb_apply lb_update lb_reset N nu Ulb Uub Dlb Dub stop_req time_up P u_in y_in μ errz_in X0 ds0 ls_fuel). Qed.
  Theorem PANOCOCP_pass_never_out_of_fuel : forall (nL nT : nat) s, Reachable s ->
    0 < Linit -> p_Lmax P <= Linit * 2 ^ nL -> (1 / 2) ^ nT < p_tau_min P ->
    (ls_pass_bound nL nT <= ls_fuel)%nat -> pass_ s <> PFuel.
  Proof. exact (reachable_pass_never_out_of_fuel X QR DS fwd sim bwd cvals gn_step lb_apply lb_update lb_reset N nu Ulb Uub Dlb Dub stop_req time_up P u_in y_in μ errz_in X0 ds0 ls_fuel). Qed.

  (* dimensions are preserved: when the backward oracle, the Gauss-Newton oracle and the L-BFGS oracle return N·nu-vectors and the initial
     guess has N·nu entries, so do the inputs of the iterate at the final stop check (hence, by consistency, its gradient, step and û) *)
  Theorem PANOCOCP_final_inputs_have_full_length : length Ulb = nu -> length Uub = nu ->
    (forall u x, length (fst (bwd u x)) = (N * nu)%nat) ->
    (forall j u x qr mask q, length (gn_step j u x qr mask q) = (N * nu)%nat) ->
    (forall ds q γ J, length (snd (fst (lb_apply ds q γ J))) = (N * nu)%nat) ->
    length u_in = (N * nu)%nat ->
    forall fuel o, run fuel = Done o -> length (iu (out_final o)) = (N * nu)%nat.
  Proof. exact (run_final_length X QR DS fwd sim bwd cvals gn_step lb_apply lb_update lb_reset N nu Ulb Uub Dlb Dub stop_req time_up P u_in y_in μ errz_in X0 ds0 ls_fuel). Qed.

  (* a run whose first stop check meets the tolerance (L_0 given and >= L_max: no initial backtracking) returns Converged with 0 iterations *)
  Theorem PANOCOCP_converged_at_first_check : forall fuel ε, 0 < p_L0 P -> p_Lmax P <= p_L0 P ->
    Eps_of (first_iterate X fwd N nu Ulb Uub P (fst (fst (fst (init_L X QR fwd sim bwd P u_in X0))))) = Some ε -> ε <= eff_tol (o_tol P) ->
    exists o, run (S fuel) = Done o /\ out_status o = StConverged /\ out_iterations o = 0%nat /\
              out_final o = first_iterate X fwd N nu Ulb Uub P (fst (fst (fst (init_L X QR fwd sim bwd P u_in X0)))).
  Proof. exact (run_converged_at_start X QR DS fwd sim bwd cvals gn_step lb_apply lb_update lb_reset N nu Ulb Uub Dlb Dub stop_req time_up P u_in y_in μ errz_in X0 ds0 ls_fuel). Qed.

  (* the step size is positive at every stop check when Lγ_factor, L_min, L_max are *)
  Theorem PANOCOCP_initial_L_positive : 0 < p_Lmin P -> 0 < p_Lmax P -> 0 < Linit.
  Proof. exact (L_init_pos X QR fwd sim bwd P u_in X0). Qed.
End PANOCOCP.

Print Assumptions PANOCOCP_invariant_at_every_stop_check.
Print Assumptions PANOCOCP_consistent_means.
Print Assumptions PANOCOCP_uhat_in_input_box.
Print Assumptions PANOCOCP_gamma_times_L.
Print Assumptions PANOCOCP_gamma_nonincreasing.
Print Assumptions PANOCOCP_qub_or_Lmax.
Print Assumptions PANOCOCP_records.
Print Assumptions PANOCOCP_record_means.
Print Assumptions PANOCOCP_link_means.
Print Assumptions PANOCOCP_descent_accelerated.
Print Assumptions PANOCOCP_status_clauses.
Print Assumptions PANOCOCP_exit.
Print Assumptions PANOCOCP_stage_sums_are_whole_vector.
Print Assumptions PANOCOCP_criterion_is_C13_criterion.
Print Assumptions PANOCOCP_descent_safe_step.
Print Assumptions PANOCOCP_converged_certifies.
Print Assumptions PANOCOCP_exits_at_max_iter.
Print Assumptions PANOCOCP_no_logic_error.
Print Assumptions PANOCOCP_linesearch_terminates.
Print Assumptions PANOCOCP_pass_never_out_of_fuel.
Print Assumptions PANOCOCP_final_inputs_have_full_length.
Print Assumptions PANOCOCP_converged_at_first_check.
Print Assumptions PANOCOCP_initial_L_positive.

(* non-vacuity: the hypothesis `run fuel = Done o` is satisfiable over R (a concrete run: N = nu = 1, constant oracles, max_iter = 0,
   L_0 = L_max = 1): the run ends at the first stop check, status not Busy, and returns û = u + (−γ·∇ψ) *)
Definition nv_P : params (T:=R) := mkParams 0 10 1 (1/1000000) (1/1000000) (1/2) 1 1 ProjGradNorm 0 0 (1/2) (1/4) 1 true false true true 0.
Definition nv_run := panoc_ocp (T:=R) unit unit unit (fun _ => (0, tt)) (fun _ => tt) (fun _ _ => ([0], tt)) (fun _ => [])
                               (fun _ _ _ _ _ q => q) (fun ds q _ _ => (false, q, ds)) (fun ds _ _ _ _ => (true, ds)) (fun ds => ds)
                               1 1 [None] [None] [] [] (fun _ => false) (fun _ => false) nv_P [0] [] [] [] tt tt 1 1.
Example PANOCOCP_nonvacuous : exists o, nv_run = Done o /\ out_iterations o = 0%nat /\ out_status o <> StBusy /\ out_u o = [0 + - (1 / 2 / 1) * 0].
Proof.
  unfold nv_run, panoc_ocp, init_L, nv_P. cbn [p_L0 fst snd eval_backward eval_forward set_psi set_xu set_grad iu ix].
  change (@nleb R NumR 1 (@n0 R NumR)) with (Rle_bool 1 0).
  destruct (Rle_bool_spec 1 0) as [H|_]; [lra|].
  cbn [iL set_gamma_L nfinite NumR negb].
  cbv [first_iterate eval_forward_hat eval_prox prox_impl set_gamma_L p_Lgamma iL igam iu ix igrad iuh ip iul ipsi ipsih ipp igp ixh
       proj_grad_step map5 proj_step1 clamp_hi clamp_lo osub option_map vadd map2 fst snd tile repeat concat app stage_sum stage_seg
       seq fold_left Nat.mul Nat.add skipn firstn].
  cbn [init_qub iL p_Lmax]. change (@nltb R NumR 1 1) with (Rlt_bool 1 1).
  destruct (Rlt_bool_spec 1 1) as [H|_]; [lra|]. cbn [andb].
  cbn [loop].
  match goal with |- context [pass _ _ _ ?a1 ?a2 ?a3 ?a4 ?a5 ?a6 ?a7 ?a8 ?a9 ?a10 ?a11 ?a12 ?a13 ?a14 ?a15 ?a16 ?a17 ?a18 ?a19 ?a20 ?a21 ?s] =>
    destruct (pass_exits_at_max_iter unit unit unit a1 (fun _ => tt) a2 a3 a4 a5 a6 a7 a8 a9 a10 a11 a12 a13 a14 a15 a16 a17 a18 a19 a20 tt tt a21 s
                (vnorminf (ip (st_curr s))) eq_refl eq_refl) as (o & Ho & Hi & Hs & _ & He)
  end.
  rewrite Ho. exists o. split; [reflexivity|]. split; [exact Hi|]. split; [exact Hs|].
  unfold exit_values in He. cbn [o_always overwrites] in He.
  replace (overwrites (out_status o) true) with true in He by (destruct (out_status o); reflexivity).
  unfold write_solution in He. cbn [st_curr iuh] in He. now inversion He.
Qed.
