(* Properties_C12.v — C12: OCP cost, adjoint gradient and masked Riccati (Gauss-Newton) step are exact.
   Only theorem statements closed by `exact`, each followed by Print Assumptions, plus non-vacuity examples. *)
From Coq Require Import Reals List ZArith Lra Arith Lia Sorting.Sorted Sorting.Permutation.
From Alpaqa Require Import Num NumR Vec Ocp OcpProofs OcpMinProofs OcpGenLib OcpGen OcpGenEq.
Import ListNotations.

(* ---- (1) index sets: for EVERY mask, horizon, width and stage: J ascending, K ascending, J = the free components,
        K = the others, J ++ K is a permutation of [0,n), |J| + |K| = n  (IndexSet::update / compute_complement) *)
Theorem C12_index_sets_partition : forall (cond : nat -> nat -> bool) (N n t : nat), t < N ->
  let J := fst (nth t (index_update cond N n) ([], [])) in
  let K := snd (nth t (index_update cond N n) ([], [])) in
  StronglySorted lt J /\ StronglySorted lt K /\
  (forall i, In i J <-> i < n /\ cond t i = true) /\
  (forall i, In i K <-> i < n /\ cond t i = false) /\
  Permutation (J ++ K) (seq 0 n) /\ length J + length K = n.
Proof. exact index_update_ok. Qed.
Print Assumptions C12_index_sets_partition.

Theorem C12_index_update_length : forall cond N n, length (index_update cond N n) = N.
Proof. exact index_update_length. Qed.
Print Assumptions C12_index_update_length.

(* ---- (2) storage layout [x u h c]*N + [x h_N c_N]: the segments used by xk/uk/hk/ck tile [0, total) in order, hence are
        pairwise disjoint and in bounds, for all dimensions (incl. nh = 0, nc = 0, different terminal sizes) *)
Theorem C12_layout_tiling : forall d t, t <= dN d ->
  (t < dN d ->
     off_x d t + dnx d = off_u d t /\ off_u d t + dnu d = off_h d t /\ len_h d t = dnh d /\
     off_h d t + dnh d = off_c d t /\ len_c d t = dnc d /\ off_c d t + dnc d = off_x d (S t)) /\
  (t = dN d ->
     off_x d t + dnx d = off_h d t /\ len_h d t = dnhN d /\ off_h d t + dnhN d = off_c d t /\
     len_c d t = dncN d /\ off_c d t + dncN d = total_len d) /\
  off_x d 0 = 0.
Proof. exact layout_tiling. Qed.
Print Assumptions C12_layout_tiling.

Theorem C12_layout_in_bounds : forall d t, t <= dN d ->
  off_x d t + dnx d <= total_len d /\ (t < dN d -> off_u d t + dnu d <= total_len d) /\
  off_h d t + len_h d t <= total_len d /\ off_c d t + len_c d t <= total_len d.
Proof. exact layout_in_bounds. Qed.
Print Assumptions C12_layout_in_bounds.

Theorem C12_layout_stages_disjoint : forall d t1 t2, t1 < t2 -> t2 <= dN d -> off_c d t1 + len_c d t1 <= off_x d t2.
Proof. exact layout_stage_disjoint. Qed.
Print Assumptions C12_layout_stages_disjoint.

Theorem C12_qr_layout_tiling : forall d t, t < dN d ->
  off_q d t + dnx d = off_r d t /\ off_r d t + dnu d = off_q d (S t) /\ off_q d (dN d) + dnx d = len_qr d.
Proof. exact qr_layout_tiling. Qed.
Print Assumptions C12_qr_layout_tiling.

Local Open Scope R_scope.

(* ---- (3) forward pass: the returned V is Σ_k [l_k(h_k) + ½ dist²_μ(c_k + y_k/μ_k, D)] + l_N + ½ dist²_μN(...) along the trajectory
        x_{k+1} = f_k(x_k, u_k) from x_0, for every problem (f, h, l, c arbitrary functions), horizon and dimensions *)
Theorem C12_forward_is_sum : forall f h hN l lN c cN d Dlb Dub DNlb DNub x0 us (y μ : list R),
  snd (forward f h hN l lN c cN d Dlb Dub DNlb DNub x0 us y μ) = cost_sum f h hN l lN c cN d Dlb Dub DNlb DNub 0 x0 us y μ.
Proof. exact forward_is_sum. Qed.
Print Assumptions C12_forward_is_sum.

Theorem C12_penalty_is_half_weighted_sq_dist : forall lb ub (c y μ : list R),
  penalty lb ub c y μ = / 2 * dot (pdiff lb ub (zeta c y μ)) (vmul μ (pdiff lb ub (zeta c y μ))).
Proof. exact penalty_is_half_weighted_sq_dist. Qed.
Print Assumptions C12_penalty_is_half_weighted_sq_dist.

(* ---- (4) backward pass: the recursion, and: it is the transposed linearisation — for every perturbation (δx_0, δu)
        Σ_k <g_k, δu_k> + <λ_0, δx_0> = Σ_k (<q_k, δx_k> + <r_k, δu_k>) + <q_N, δx_N>  with δx_{k+1} = A_k δx_k + B_k δu_k,
        i.e. g_k = r_k + Σ_j (∂x_j/∂u_k)ᵀ q_j.  (The chain rule, i.e. that A_k, B_k, q_k, r_k are the derivatives, is assumed.) *)
Theorem C12_backward_recursion : forall nx nu s st (λN : list R),
  adjoint nx nu (s :: st) λN =
  (vadd (mtv nu (lB s) (snd (adjoint nx nu st λN))) (lr s) :: fst (adjoint nx nu st λN),
   vadd (mtv nx (lA s) (snd (adjoint nx nu st λN))) (lq s)).
Proof. exact adjoint_recursion. Qed.
Print Assumptions C12_backward_recursion.

Theorem C12_backward_is_transposed_linearisation : forall nx nu st (λN : list R), Forall (wf_lin nx nu) st -> length λN = nx ->
  forall δus δx, length δus = length st -> length δx = nx -> Forall (fun δu => length δu = nu) δus ->
  dots (fst (adjoint nx nu st λN)) δus + dot (snd (adjoint nx nu st λN)) δx = lin_cost st λN δx δus.
Proof. exact adjoint_identity. Qed.
Print Assumptions C12_backward_is_transposed_linearisation.

Theorem C12_backward_gradient_is_derivative : forall nx nu nc ncN Dlb Dub DNlb DNub st qNc JcN cN yN μN,
  let ls := map (lin_of nx nc Dlb Dub) st in
  let qN := qN_of nx ncN DNlb DNub qNc JcN cN yN μN in
  Forall (wf_lin nx nu) ls -> length qN = nx ->
  forall δus, length δus = length st -> Forall (fun δu : list R => length δu = nu) δus ->
  dots (fst (fst (fst (backward nx nu nc ncN Dlb Dub DNlb DNub st qNc JcN cN yN μN)))) δus
  = lin_cost ls qN (vconst nx 0) δus.
Proof. exact backward_gradient_is_derivative. Qed.
Print Assumptions C12_backward_gradient_is_derivative.

(* ---- (5) masked Riccati.  Full statement (NOT proved): the step is the unique minimiser of the equality-constrained QP.
        Proved: it satisfies the KKT system of that QP (fixed components at their prescribed values, dynamics, stationarity in the
        free components, costate recursion) for every horizon, every free/fixed split per stage, every data with symmetric Q_k,
        R_k[J,J], Q_N, and every factorisation routine `lsolve` that solves the reduced systems R̄_k x = b that occur.
        With R̄_k positive definite and the subproblem convex, KKT <=> minimiser; that last step is not formalised. *)
Theorem C12_riccati_step_is_stationary_partial : forall lsolve nx nu sts QN qN,
  Forall (wf_stage nx nu) sts -> wfm nx nx QN -> selfadj nx QN -> length qN = nx ->
  solves_all lsolve nx sts QN qN ->
  exists λ0, kkt nx sts QN qN (vconst nx 0) (riccati_step lsolve nx sts QN qN) λ0.
Proof. exact riccati_step_is_stationary. Qed.
Print Assumptions C12_riccati_step_is_stationary_partial.

(* Full statement: with R̄_k positive definite for every stage (posdef_all), symmetric Q_k, R_k, Q_N and a factorisation routine that
   solves the reduced systems, the step Δu returned by factor_masked + solve_masked is the UNIQUE MINIMISER of the equality-constrained
   quadratic subproblem over the free components with the fixed ones at their prescribed values: every feasible point is Δu + δ with
   δ[K_k] = 0 (dir_ok), and   obj(Δu + δ) − obj(Δu) = Σ_k ½ w_kᵀ R̄_k w_k >= 0  (w_k = δu_k[J] − K_k δx_k), with equality only for δ = 0.
   For every horizon and every free/fixed split per stage. *)
Theorem C12_riccati_step_is_minimiser : forall lsolve nx nu sts QN qN,
  Forall (wf2 nx nu) sts -> wfm nx nx QN -> selfadj nx QN -> length qN = nx ->
  solves_all lsolve nx sts QN qN -> posdef_all lsolve nx sts QN qN ->
  let Δus := riccati_step lsolve nx sts QN qN in
  forall δus, dir_ok nu sts δus ->
    obj sts QN qN (vconst nx 0) (map2 vadd Δus δus) - obj sts QN qN (vconst nx 0) Δus = quadR lsolve nx sts QN qN (vconst nx 0) δus /\
    obj sts QN qN (vconst nx 0) Δus <= obj sts QN qN (vconst nx 0) (map2 vadd Δus δus) /\
    (obj sts QN qN (vconst nx 0) (map2 vadd Δus δus) <= obj sts QN qN (vconst nx 0) Δus -> Forall (fun δu => δu = vconst nu 0) δus).
Proof. exact riccati_step_is_minimiser. Qed.
Print Assumptions C12_riccati_step_is_minimiser.

(* ... and in the usual form: the returned step is feasible, no feasible input sequence (free components arbitrary, fixed ones at
   their prescribed values) has a smaller objective, and any feasible sequence that is at least as good IS the returned step. *)
Theorem C12_riccati_step_is_unique_minimiser : forall lsolve nx nu sts QN qN,
  Forall (wf2 nx nu) sts -> wfm nx nx QN -> selfadj nx QN -> length qN = nx ->
  solves_all lsolve nx sts QN qN -> posdef_all lsolve nx sts QN qN ->
  let Δus := riccati_step lsolve nx sts QN qN in
  feasible nu sts Δus /\
  forall Δus', feasible nu sts Δus' ->
    obj sts QN qN (vconst nx 0) Δus <= obj sts QN qN (vconst nx 0) Δus' /\
    (obj sts QN qN (vconst nx 0) Δus' <= obj sts QN qN (vconst nx 0) Δus -> Δus' = Δus).
Proof. exact riccati_step_unique_minimiser. Qed.
Print Assumptions C12_riccati_step_is_unique_minimiser.

(* ---- (6) the same statements for the code REGENERATED from ocp-vars.hpp / lqr.hpp on every run (coq/gen/OcpGen.v, translator G13).
        OcpGenEq.v proves every generated piece equal to the piece of Ocp.v the theorems above are about; these are the main ones restated
        for the generated functions themselves.  F = the problem's member functions, L = the callables handed to the LQR factorisation. *)
(* the accessors of OCPVariables, as generated, are the layout of (2) *)
Theorem C12_generated_layout_is_model : forall (F : ocp_fns R) (L : lqr_fns R) lsolve d t,
  g_xk_off F L lsolve d t = off_x d t /\ g_uk_off F L lsolve d t = off_u d t /\
  g_hk_off F L lsolve d t = off_h d t /\ g_hk_len F L lsolve d t = len_h d t /\
  g_ck_off F L lsolve d t = off_c d t /\ g_ck_len F L lsolve d t = len_c d t /\
  g_qk_off F L lsolve d t = off_q d t /\ g_rk_off F L lsolve d t = off_r d t /\
  g_create_len F L lsolve d = total_len d /\ g_create_qr_len F L lsolve d = len_qr d.
Proof. exact g_layout_is_model. Qed.
Print Assumptions C12_generated_layout_is_model.

(* generated forward on a storage [x0 | u_0 . . . | u_1 . . . | ..] (the other slots hold anything): the storage it leaves and the value
   it returns are those of Ocp.forward ... *)
Theorem C12_generated_forward_is_model : forall (F : ocp_fns R) (L : lqr_fns R) lsolve d Dlb Dub DNlb DNub (y μ x0 : list R) us tail,
  wf_fwd F d -> length us = dN d -> length x0 = dnx d -> fshape d us tail ->
  g_forward F L lsolve d (x0 ++ tail) Dlb Dub DNlb DNub μ y
  = (snd (forward (pf_eval_f F) (pf_eval_h F) (pf_eval_h_N F) (pf_eval_l F) (pf_eval_l_N F) (pf_eval_constr F) (pf_eval_constr_N F)
                  d Dlb Dub DNlb DNub x0 us y μ),
     fst (forward (pf_eval_f F) (pf_eval_h F) (pf_eval_h_N F) (pf_eval_l F) (pf_eval_l_N F) (pf_eval_constr F) (pf_eval_constr_N F)
                  d Dlb Dub DNlb DNub x0 us y μ)).
Proof. intros F L lsolve d Dlb Dub DNlb DNub y μ x0 us tail Hwf. exact (g_forward_eq F L lsolve d Dlb Dub DNlb DNub y μ Hwf x0 us tail). Qed.
Print Assumptions C12_generated_forward_is_model.

(* ... hence cost = sum of the stage costs, terminal cost and penalty terms along the simulated trajectory *)
Theorem C12_generated_forward_is_sum : forall (F : ocp_fns R) (L : lqr_fns R) lsolve d Dlb Dub DNlb DNub (y μ x0 : list R) us tail,
  wf_fwd F d -> length us = dN d -> length x0 = dnx d -> fshape d us tail ->
  fst (g_forward F L lsolve d (x0 ++ tail) Dlb Dub DNlb DNub μ y)
  = cost_sum (pf_eval_f F) (pf_eval_h F) (pf_eval_h_N F) (pf_eval_l F) (pf_eval_l_N F) (pf_eval_constr F) (pf_eval_constr_N F)
             d Dlb Dub DNlb DNub 0 x0 us y μ.
Proof. exact g_forward_is_sum. Qed.
Print Assumptions C12_generated_forward_is_sum.

(* generated backward: for problem functions that are the transposed products with Jacobians A_t, B_t, Jc_t (wf_bwd), the gradient blocks
   it writes pair with every perturbation δu to the first-order change of the cost along the linearised roll-out (gradient = derivative) *)
Theorem C12_generated_backward_gradient_is_derivative :
  forall (F : ocp_fns R) (L : lqr_fns R) lsolve d Dlb Dub DNlb DNub (y μ storage : list R) Aof Bof Jcof JcN g qr wx wλ wc,
  wf_bwd F d Dlb Dub DNlb DNub y μ storage Aof Bof Jcof JcN ->
  length g = (dN d * dnu d)%nat -> length qr = len_qr d ->
  length (pf_eval_q_N F (seg (off_x d (dN d)) (dnx d) storage) (seg (off_h d (dN d)) (len_h d (dN d)) storage)) = dnx d ->
  let ls := map (fun t => lin_of (dnx d) (dnc d) Dlb Dub (stage_of F d y μ storage Aof Bof Jcof t)) (seq 0 (dN d)) in
  let qN := qN_of (dnx d) (dncN d) DNlb DNub (pf_eval_q_N F (seg (off_x d (dN d)) (dnx d) storage) (seg (off_h d (dN d)) (len_h d (dN d)) storage))
                  JcN (seg (off_c d (dN d)) (len_c d (dN d)) storage) (seg (dN d * dnc d) (dncN d) y) (seg (dN d * dnc d) (dncN d) μ) in
  Forall (wf_lin (dnx d) (dnu d)) ls ->
  forall δus, length δus = dN d -> Forall (fun δu : list R => length δu = dnu d) δus ->
  exists gs, fst (fst (fst (fst (g_backward F L lsolve d storage g qr Dlb Dub DNlb DNub μ y wx wλ wc)))) = concat gs /\
             dots gs δus = lin_cost ls qN (vconst (dnx d) 0) δus.
Proof. exact g_backward_gradient_is_derivative. Qed.
Print Assumptions C12_generated_backward_gradient_is_derivative.

(* generated factor_masked followed by generated solve_masked (callables adding the masked blocks of the stage data: all_ops): what they leave in
   Δu_eq is the unique minimiser of the masked subproblem, under the hypotheses of C12_riccati_step_is_unique_minimiser *)
Theorem C12_generated_riccati_step_is_unique_minimiser :
  forall (F : ocp_fns R) (L : lqr_fns R) lsolve d nx nu chol sts QN qN P gK e s c y t PA Δx,
  all_ops L nx 0 sts -> (forall M, lf_Q L (length sts) M = madd M QN) -> lf_q L (length sts) = qN ->
  Forall (wf2 nx nu) sts -> wfm nx nx QN -> selfadj nx QN -> length qN = nx ->
  solves_all lsolve nx sts QN qN -> posdef_all lsolve nx sts QN qN ->
  (length sts <= length gK)%nat -> (length sts <= length e)%nat -> length Δx = (2 * nx)%nat ->
  let '(_, gK', e', _, _, _, _, _) := g_factor_masked F L lsolve d (length sts) nx nu chol P gK e s c y t PA in
  exists Δus, fst (fst (g_solve_masked F L lsolve d (length sts) nx nu (concat (map (@sfix R) sts)) Δx gK' e')) = concat Δus /\
    feasible nu sts Δus /\
    forall Δus', feasible nu sts Δus' ->
      obj sts QN qN (vconst nx 0) Δus <= obj sts QN qN (vconst nx 0) Δus' /\
      (obj sts QN qN (vconst nx 0) Δus' <= obj sts QN qN (vconst nx 0) Δus -> Δus' = Δus).
Proof. exact g_riccati_step_is_unique_minimiser. Qed.
Print Assumptions C12_generated_riccati_step_is_unique_minimiser.

(* the generated factor_masked / solve_masked ARE the model's: cost-to-go (P, s), the stored gains, and the step *)
Theorem C12_generated_riccati_step_is_model :
  forall (F : ocp_fns R) (L : lqr_fns R) lsolve d nx nu chol sts QN qN P gK e s c y t PA Δx,
  all_ops L nx 0 sts -> (forall M, lf_Q L (length sts) M = madd M QN) -> lf_q L (length sts) = qN ->
  Forall (wf_stage nx nu) sts -> wfm nx nx QN -> selfadj nx QN -> length qN = nx -> solves_all lsolve nx sts QN qN ->
  (length sts <= length gK)%nat -> (length sts <= length e)%nat -> length Δx = (2 * nx)%nat ->
  let '(_, gK', e', _, _, _, _, _) := g_factor_masked F L lsolve d (length sts) nx nu chol P gK e s c y t PA in
  fst (fst (g_solve_masked F L lsolve d (length sts) nx nu (concat (map (@sfix R) sts)) Δx gK' e'))
  = concat (riccati_step lsolve nx sts QN qN).
Proof. exact g_riccati_step_eq. Qed.
Print Assumptions C12_generated_riccati_step_is_model.

(* ---- non-vacuity *)
Example C12_nonvacuous_index :
  index_update (fun t i => nth i (nth t [[true; false; true]; [false; false; false]] []) false) 2 3
  = [([0; 2], [1]); ([], [0; 1; 2])]%nat.
Proof. reflexivity. Qed.

Example C12_nonvacuous_layout :
  let d := {| dN := 2; dnx := 2; dnu := 1; dnh := 0; dnc := 1; dnhN := 3; dncN := 2 |} in
  (off_x d 1, off_u d 1, off_h d 1, off_c d 1, off_x d 2, off_h d 2, off_c d 2, total_len d) = (4, 6, 7, 7, 8, 10, 13, 15)%nat.
Proof. reflexivity. Qed.

(* a well-formed two-stage linearisation (nx = 1, nu = 1) *)
Example C12_nonvacuous_adjoint :
  let st := [ {| lA := [[2]]; lB := [[1]]; lq := [1]; lr := [3] |}; {| lA := [[1]]; lB := [[-1]]; lq := [0]; lr := [1] |} ] in
  Forall (wf_lin 1 1) st /\ fst (adjoint 1 1 st [5]) = [[8]; [-4]] /\ snd (adjoint 1 1 st [5]) = [11].
Proof.
  simpl. split; [|split].
  - repeat constructor.
  - unfold vadd, vscale; simpl. repeat f_equal; numR; lra.
  - unfold vadd, vscale; simpl. repeat f_equal; numR; lra.
Qed.

(* a stage with one free and one fixed input (nx = 1, nu = 2, J = [1], K = [0]) and a scalar solver *)
Definition lsolve1 (M : list (list R)) (b : list R) : list R :=
  match M, b with [[m]], [x] => [x / m] | _, _ => b end.
Definition st1 : lq_stage R :=
  {| sA := [[1]]; sB := [[1; 2]]; sQ := [[1]]; sS := [[0]; [0]]; sR := [[1; 0]; [0; 1]]; sq := [1]; sr := [0; 0];
     sJ := [1%nat]; sK := [0%nat]; sfix := [1; 0] |}.
Example C12_nonvacuous_riccati :
  Forall (wf_stage 1 2) [st1] /\ wfm 1 1 [[1]] /\ selfadj 1 [[1]] /\ solves_all lsolve1 1 [st1] [[1]] [0].
Proof.
  split; [|split; [|split]].
  - constructor; [|constructor]. unfold wf_stage, wfm, selfadj. simpl.
    repeat split; auto; try (repeat constructor; fail).
    + intros [|x [|? ?]] [|y [|? ?]] Hx Hy; simpl in *; try discriminate; numR; ring.
    + intros [|x [|? ?]] [|y [|? ?]] Hx Hy; simpl in *; try discriminate; numR; ring.
  - unfold wfm. simpl. split; auto.
  - intros [|x [|? ?]] [|y [|? ?]] Hx Hy; simpl in *; try discriminate; numR; ring.
  - simpl. split; auto. intros b Hb. cbn in Hb. destruct b as [|b [|]]; simpl in Hb; try discriminate.
    cbn. numR. split; auto. f_equal. field; lra.
Qed.

(* the same stage also satisfies the hypotheses of the minimiser theorem: R symmetric, R̄ = [[2]] positive definite *)
Example C12_nonvacuous_minimiser :
  Forall (wf2 1 2) [st1] /\ posdef_all lsolve1 1 [st1] [[1]] [0] /\ dir_ok 2 [st1] [[0; 1]].
Proof.
  destruct C12_nonvacuous_riccati as (Hw & _).
  split; [|split].
  - constructor; [|constructor]. split; [exact (Forall_inv Hw)|].
    intros [|x0 [|x1 [|? ?]]] [|y0 [|y1 [|? ?]]] Hx Hy; simpl in *; try discriminate; numR; ring.
  - simpl. split; auto. intros v Lv Hv. cbn in Lv. destruct v as [|v0 [|? ?]]; simpl in Lv; try discriminate.
    cbn. cbn in Hv. numR.
    assert (v0 <> 0) by (intro; subst; apply Hv; reflexivity).
    assert (0 < v0 * v0) by nra. nra.
  - constructor; [|constructor]. split; reflexivity.
Qed.

(* the hypotheses on the generated forward are satisfiable: one stage, nx = nu = 1, no outputs, one stage constraint *)
Example C12_nonvacuous_generated_forward :
  let d := {| dN := 1; dnx := 1; dnu := 1; dnh := 0; dnc := 1; dnhN := 0; dncN := 0 |} in
  let F := {| pf_eval_f := fun _ x u => [nth 0 x 0 + nth 0 u 0]; pf_eval_h := fun _ _ _ => []; pf_eval_h_N := fun _ => [];
              pf_eval_l := fun _ xu => nth 0 xu 0 * nth 1 xu 0; pf_eval_l_N := fun x => nth 0 x 0;
              pf_eval_constr := fun _ x => [nth 0 x 0]; pf_eval_constr_N := fun _ => [];
              pf_eval_qr := fun _ _ _ => []; pf_eval_q_N := fun _ _ => []; pf_eval_grad_f_prod := fun _ _ _ _ => [];
              pf_eval_grad_constr_prod := fun _ _ _ => []; pf_eval_grad_constr_prod_N := fun _ _ => [] |} in
  wf_fwd F d /\ fshape d [[2]] [2; 7; 7] /\ length [[2]] = dN d.
Proof.
  cbn. split; [|split; [|reflexivity]].
  - unfold wf_fwd. cbn. repeat split; intros; auto; lia.
  - exists [], [7], [7], []. cbn. repeat split; reflexivity.
Qed.
