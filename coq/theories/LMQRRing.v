(* LMQRRing.v — index theorems of the ring buffer used by LimitedMemoryQR / Anderson (over nat, all histories). *)
From Coq Require Import List Arith Lia Bool PeanoNat.
From Alpaqa Require Import Num LMQR.
Import ListNotations.

(* ------------------------------------------------------------------ successor / predecessor *)
Lemma r_succ_mod m i : i < m -> r_succ m i = (i + 1) mod m.
Proof.
  intros Hi. unfold r_succ. destruct (Nat.ltb_spec (S i) m).
  - rewrite Nat.mod_small; lia.
  - assert (i + 1 = m) as -> by lia. rewrite Nat.mod_same; lia.
Qed.
Lemma r_succ_lt m i : 0 < m -> r_succ m i < m.
Proof. intros. unfold r_succ. destruct (Nat.ltb_spec (S i) m); lia. Qed.
Lemma it_succ_r_succ m i : i < m -> it_succ m i = r_succ m i.
Proof.
  intros. unfold it_succ, r_succ. destruct (Nat.eqb_spec (S i) m), (Nat.ltb_spec (S i) m); lia.
Qed.
Lemma it_pred_r_pred m i : it_pred m i = r_pred m i.
Proof. reflexivity. Qed.
Lemma r_pred_lt m i : i < m -> r_pred m i < m.
Proof. intros. unfold r_pred. destruct (Nat.eqb_spec i 0); lia. Qed.
Lemma r_pred_succ m i : i < m -> r_pred m (r_succ m i) = i.
Proof.
  intros. unfold r_pred, r_succ. destruct (Nat.ltb_spec (S i) m).
  - destruct (Nat.eqb_spec (S i) 0); lia.
  - simpl. lia.
Qed.
Lemma r_succ_pred m i : i < m -> r_succ m (r_pred m i) = i.
Proof.
  intros. unfold r_pred, r_succ. destruct (Nat.eqb_spec i 0).
  - destruct (Nat.ltb_spec (S (m - 1)) m); lia.
  - destruct (Nat.ltb_spec (S (i - 1)) m); lia.
Qed.

Lemma add_mod_succ m a j : 0 < m -> r_succ m ((a + j) mod m) = (a + S j) mod m.
Proof.
  intros Hm. rewrite r_succ_mod by (apply Nat.mod_upper_bound; lia).
  rewrite Nat.add_mod_idemp_l by lia. f_equal. lia.
Qed.

(* two window positions less than m apart are different storage columns *)
Lemma mod_inj_window m a i j : 0 < m -> i < j -> j - i < m -> (a + i) mod m <> (a + j) mod m.
Proof.
  intros Hm Hij Hd E.
  assert (((a + i) + (j - i)) mod m = (a + i) mod m) as E2 by (replace (a + i + (j - i)) with (a + j) by lia; auto).
  rewrite <- Nat.add_mod_idemp_l in E2 by lia.
  set (x := (a + i) mod m) in *.
  assert (x < m) by (apply Nat.mod_upper_bound; lia).
  destruct (Nat.lt_ge_cases (x + (j - i)) m).
  - rewrite Nat.mod_small in E2; lia.
  - assert ((x + (j - i)) mod m = x + (j - i) - m).
    { assert (x + (j - i) = (x + (j - i) - m) + 1 * m) as Ey by lia.
      rewrite Ey at 1. rewrite Nat.mod_add by lia. apply Nat.mod_small. lia. }
    lia.
Qed.

(* ------------------------------------------------------------------ invariant, all histories *)
Definition ring_inv (m : nat) (s : ring) : Prop :=
  g_rs s < m /\ g_re s < m /\ g_qi s <= m /\ g_re s = (g_rs s + g_qi s) mod m.

Lemma ring_inv_init m : 0 < m -> ring_inv m (mkRing 0 0 0).
Proof. intros. unfold ring_inv; simpl. rewrite Nat.mod_small; lia. Qed.

Lemma ring_inv_step m s o : 0 < m -> ring_inv m s -> ring_ok m s o = true -> ring_inv m (ring_step m s o).
Proof.
  intros Hm (H1 & H2 & H3 & H4) Hok. destruct o; simpl in *.
  - apply Nat.ltb_lt in Hok. unfold ring_inv; simpl. repeat split; try lia.
    + apply r_succ_lt; lia.
    + rewrite H4. rewrite add_mod_succ by lia. reflexivity.
  - apply Nat.ltb_lt in Hok. unfold ring_inv; simpl. repeat split; try lia.
    + apply r_succ_lt; lia.
    + rewrite H4. rewrite r_succ_mod by lia. rewrite Nat.add_mod_idemp_l by lia. f_equal. lia.
  - apply ring_inv_init; lia.
Qed.

Lemma ring_run_inv m : 0 < m -> forall ops s s', ring_inv m s -> ring_run m s ops = Some s' -> ring_inv m s'.
Proof.
  intros Hm. induction ops as [|o ops IH]; simpl; intros s s' Hi Hr.
  - inversion Hr; subst; auto.
  - destruct (ring_ok m s o) eqn:E; try discriminate.
    eapply IH; [|eassumption]. apply ring_inv_step; auto.
Qed.

Theorem ring_inv_all_histories m ops s :
  0 < m -> ring_run m (mkRing 0 0 0) ops = Some s -> ring_inv m s.
Proof. intros Hm. apply ring_run_inv; auto. apply ring_inv_init; auto. Qed.

(* capacity-1 and full-buffer cases *)
Corollary ring_cap1 ops s : ring_run 1 (mkRing 0 0 0) ops = Some s -> g_rs s = 0 /\ g_re s = 0 /\ g_qi s <= 1.
Proof. intros Hr. apply ring_inv_all_histories in Hr; [|lia]. destruct Hr as (?&?&?&?). lia. Qed.
Corollary ring_full m ops s :
  0 < m -> ring_run m (mkRing 0 0 0) ops = Some s -> g_qi s = m -> g_re s = g_rs s.
Proof.
  intros Hm Hr Hf. apply ring_inv_all_histories in Hr; auto. destruct Hr as (H1&H2&H3&H4).
  rewrite H4, Hf. replace (g_rs s + m) with (g_rs s + 1 * m) by lia. rewrite Nat.mod_add by lia. apply Nat.mod_small; auto.
Qed.
Corollary ring_empty_or_partial m ops s :
  0 < m -> ring_run m (mkRing 0 0 0) ops = Some s -> 0 < g_qi s < m -> g_re s <> g_rs s.
Proof.
  intros Hm Hr Hq. apply ring_inv_all_histories in Hr; auto. destruct Hr as (H1&H2&H3&H4).
  rewrite H4. intros E. replace (g_rs s) with ((g_rs s + 0) mod m) in E at 2 by (rewrite Nat.add_0_r; apply Nat.mod_small; auto).
  symmetry in E. revert E. apply mod_inj_window; lia.
Qed.

(* ------------------------------------------------------------------ iterators enumerate the window in order *)
Definition window (m rs qi : nat) : list (nat * nat) := map (fun j => (j, (rs + j) mod m)) (seq 0 qi).

Lemma iter_fwd_spec m : 0 < m -> forall cnt zb a,
  iter_fwd cnt zb ((a + zb) mod m) m = map (fun j => (j, (a + j) mod m)) (seq zb cnt).
Proof.
  intros Hm. induction cnt as [|k IH]; intros zb a; simpl; auto.
  f_equal. rewrite it_succ_r_succ by (apply Nat.mod_upper_bound; lia).
  rewrite add_mod_succ by lia. apply IH.
Qed.

Theorem ring_iter_enumerates_window m s :
  0 < m -> ring_inv m s -> ring_iter (g_qi s) (g_rs s) m = window m (g_rs s) (g_qi s).
Proof.
  intros Hm (H1&_). unfold ring_iter, window.
  rewrite <- (iter_fwd_spec m Hm (g_qi s) 0 (g_rs s)). rewrite Nat.add_0_r, Nat.mod_small; auto.
Qed.

(* the forward iterator started at begin() reaches the circular index of end() = r_idx_end exactly at zerobased = size *)
Lemma iter_succ_n m : 0 < m -> forall k a, Nat.iter k (it_succ m) (a mod m) = (a + k) mod m.
Proof.
  intros Hm. induction k; intros a; simpl.
  - rewrite Nat.add_0_r; auto.
  - rewrite IHk. rewrite it_succ_r_succ by (apply Nat.mod_upper_bound; lia). apply add_mod_succ; auto.
Qed.
Theorem ring_end_consistent m s :
  0 < m -> ring_inv m s -> Nat.iter (g_qi s) (it_succ m) (g_rs s) = g_re s.
Proof.
  intros Hm (H1&H2&H3&H4). rewrite H4. rewrite <- (Nat.mod_small (g_rs s) m) at 1 by auto. apply iter_succ_n; auto.
Qed.

(* storage columns of the window are pairwise distinct (needs size <= capacity) *)
Theorem window_storage_nodup m rs qi : 0 < m -> qi <= m -> NoDup (map snd (window m rs qi)).
Proof.
  intros Hm Hq. unfold window. rewrite map_map. simpl.
  assert (forall n z, z + n <= qi -> NoDup (map (fun j => (rs + j) mod m) (seq z n))) as G.
  { induction n; intros z Hz; simpl; constructor.
    - rewrite in_map_iff. intros (j & E & Hj). apply in_seq in Hj.
      symmetry in E. revert E. apply mod_inj_window; lia.
    - apply IHn. lia. }
  apply G. lia.
Qed.

Lemma window_nth m rs qi j d : j < qi -> nth j (window m rs qi) d = (j, (rs + j) mod m).
Proof.
  intros Hj. unfold window.
  rewrite nth_indep with (d' := (fun j => (j, (rs + j) mod m)) 0) by (rewrite map_length, seq_length; auto).
  rewrite (map_nth (fun j => (j, (rs + j) mod m))). rewrite seq_nth; auto.
Qed.

(* reverse iterator = forward enumeration reversed; its wrapped forward iterator is the position after the element *)
Lemma iter_rev_spec m : 0 < m -> forall cnt a,
  iter_rev cnt cnt ((a + cnt) mod m) m =
  rev (map (fun j => ((j, (a + j) mod m), (S j, (a + S j) mod m))) (seq 0 cnt)).
Proof.
  intros Hm. induction cnt as [|k IH]; intros a; auto.
  rewrite seq_S, map_app, rev_app_distr. simpl.
  replace (k - 0) with k by lia.
  assert (it_pred m ((a + S k) mod m) = (a + k) mod m) as E.
  { rewrite it_pred_r_pred. rewrite <- add_mod_succ by lia. apply r_pred_succ. apply Nat.mod_upper_bound; lia. }
  rewrite E. f_equal. apply IH.
Qed.

Theorem ring_rev_iter_is_reverse m s :
  0 < m -> ring_inv m s ->
  map fst (ring_rev_iter (g_qi s) (g_re s) m) = rev (ring_iter (g_qi s) (g_rs s) m).
Proof.
  intros Hm Hi. rewrite ring_iter_enumerates_window by auto. destruct Hi as (H1&H2&H3&H4).
  unfold ring_rev_iter. rewrite H4. rewrite iter_rev_spec by auto.
  rewrite map_rev, map_map. reflexivity.
Qed.

(* the inner loop of solve_col started from the wrapped forward iterator of element j enumerates logical columns j+1 .. size-1 *)
Theorem ring_rev_iter_inner m s :
  0 < m -> ring_inv m s ->
  forall e, In e (ring_rev_iter (g_qi s) (g_re s) m) ->
    let '((rR, cR), (zb, c)) := e in
    rR < g_qi s /\ cR = (g_rs s + rR) mod m /\ zb = S rR /\
    iter_fwd (g_qi s - zb) zb c m = map (fun j => (j, (g_rs s + j) mod m)) (seq (S rR) (g_qi s - S rR)).
Proof.
  intros Hm (H1&H2&H3&H4) e He. unfold ring_rev_iter in He. rewrite H4 in He. rewrite iter_rev_spec in He by auto.
  apply in_rev in He. apply in_map_iff in He. destruct He as (j & <- & Hj). apply in_seq in Hj.
  repeat split; try lia. apply iter_fwd_spec; auto.
Qed.

(* the `for (cc = r_succ(c); cc != r_idx_end; cc = r_succ(cc))` loop of remove_column, started at logical column j >= 1,
   enumerates the storage columns of logical columns j .. size-1 (also when the buffer is full, i.e. r_end = r_start) *)
Lemma until_loop_spec m rs qi : 0 < m -> qi <= m -> forall d j fuel,
  1 <= j -> j + d = qi -> d <= fuel ->
  until_loop fuel m ((rs + j) mod m) ((rs + qi) mod m) = map (fun i => (rs + i) mod m) (seq j d).
Proof.
  intros Hm Hq. induction d as [|d IH]; intros j fuel Hj Hd Hf.
  - assert (j = qi) as -> by lia. destruct fuel; simpl; auto. rewrite Nat.eqb_refl. auto.
  - destruct fuel; [lia|]. simpl.
    destruct (Nat.eqb_spec ((rs + j) mod m) ((rs + qi) mod m)) as [E|E].
    + exfalso. revert E. apply mod_inj_window; lia.
    + f_equal. rewrite add_mod_succ by lia. apply IH; lia.
Qed.

Theorem until_loop_enumerates m s j :
  0 < m -> ring_inv m s -> 1 <= j <= g_qi s ->
  until_loop m m ((g_rs s + j) mod m) (g_re s) = map (fun i => (g_rs s + i) mod m) (seq j (g_qi s - j)).
Proof.
  intros Hm (H1&H2&H3&H4) Hj. rewrite H4. apply until_loop_spec; lia.
Qed.

(* ------------------------------------------------------------------ refinement: ring-indexed storage = FIFO window *)
Section Refine.
  Variable A : Type.
  Variable d : A.

  Lemma upd_length {B} i (f : B -> B) l : length (upd i f l) = length l.
  Proof. revert i; induction l; intros [|i]; simpl; auto. Qed.
  Lemma nth_upd_same {B} i (f : B -> B) l (x : B) : i < length l -> nth i (upd i f l) x = f (nth i l x).
  Proof. revert i; induction l; intros [|i] Hl; simpl in *; try lia; auto. apply IHl; lia. Qed.
  Lemma nth_upd_other {B} i k (f : B -> B) l (x : B) : i <> k -> nth i (upd k f l) x = nth i l x.
  Proof. revert i k; induction l; intros [|i] [|k] Hl; simpl in *; try lia; auto. Qed.

  Definition buf_inv (m : nat) (sb : ring * list A) := ring_inv m (fst sb) /\ length (snd sb) = m.

  Lemma buf_read_window m sb : 0 < m -> ring_inv m (fst sb) ->
    buf_read d m sb = map (fun j => nth ((g_rs (fst sb) + j) mod m) (snd sb) d) (seq 0 (g_qi (fst sb))).
  Proof.
    intros Hm Hi. unfold buf_read. rewrite ring_iter_enumerates_window by auto. unfold window. rewrite map_map. reflexivity.
  Qed.

  Lemma buf_step_refines m sb o q : 0 < m -> buf_inv m sb -> buf_ok m sb o = true ->
    buf_read d m sb = q -> buf_inv m (buf_step m sb o) /\ buf_read d m (buf_step m sb o) = queue_step q o.
  Proof.
    intros Hm [Hi Hl] Hok Hq. destruct sb as [s b]. simpl in *.
    assert (Hi' : ring_inv m (ring_step m s (ringop_of o))) by (apply ring_inv_step; auto; destruct o; auto).
    split.
    { split; destruct o; simpl; auto. rewrite upd_length; auto. }
    rewrite buf_read_window by (destruct o; simpl; auto).
    rewrite buf_read_window in Hq by auto.
    destruct Hi as (H1&H2&H3&H4).
    destruct o as [x| |]; cbn [buf_step ringop_of ring_step fst snd g_qi g_rs g_re buf_ok ring_ok queue_step] in *.
    - (* add: the new element is written at r_end = the storage column of logical index size *)
      apply Nat.ltb_lt in Hok. rewrite seq_S, map_app. subst q. f_equal.
      + apply map_ext_in. intros j Hj. apply in_seq in Hj. apply nth_upd_other.
        rewrite H4. apply mod_inj_window; lia.
      + cbn [map]. f_equal. rewrite H4. rewrite Nat.add_0_l. rewrite nth_upd_same; auto. rewrite Hl. apply Nat.mod_upper_bound; lia.
    - (* remove: the window starts one storage column later *)
      apply Nat.ltb_lt in Hok. subst q. destruct (g_qi s) as [|k] eqn:Ek; [lia|].
      replace (S k - 1) with k by lia. cbn [seq map tl]. rewrite <- seq_shift, map_map.
      apply map_ext. intros j. f_equal.
      rewrite r_succ_mod by auto. rewrite Nat.add_mod_idemp_l by lia. f_equal. lia.
    - subst q. reflexivity.
  Qed.

  Theorem ring_refines_queue m : 0 < m -> forall ops sb sb' q,
    buf_inv m sb -> buf_read d m sb = q -> buf_run m sb ops = Some sb' ->
    buf_inv m sb' /\ buf_read d m sb' = fold_left queue_step ops q.
  Proof.
    intros Hm. induction ops as [|o ops IH]; simpl; intros sb sb' q Hi Hq Hr.
    - inversion Hr; subst; auto.
    - destruct (buf_ok m sb o) eqn:E; try discriminate.
      destruct (buf_step_refines m sb o q Hm Hi E Hq) as [Hi' Hq'].
      eapply IH; eauto.
  Qed.

  Corollary ring_refines_queue_from_empty m ops b sb' :
    0 < m -> length b = m -> buf_run m (mkRing 0 0 0, b) ops = Some sb' ->
    buf_read d m sb' = fold_left queue_step ops [].
  Proof.
    intros Hm Hl Hr. eapply (ring_refines_queue m Hm ops (mkRing 0 0 0, b)); eauto.
    split; simpl; auto. apply ring_inv_init; auto.
  Qed.
End Refine.
