(* LbfgsGenInst.v — the concrete column store the GENERATED L-BFGS code (coq/gen/LbfgsGen.v) is run and reasoned about on:
   the record `state` of Lbfgs.v as a plain container (slots with s, y, ρ, α and the NaN mark; idx; full), read and written
   through `get` / `set_slot` only.  None of the hand-model FUNCTIONS of Lbfgs.v (update_valid, update_sy, apply, the loops,
   scale_y, reset, resize, succ, pred, fwd_idx, rev_idx) is used here: `gstep` dispatches an operation to the generated
   function, so `grun` is the generated code run on operation sequences (Corr_LbfgsGen.v runs it at binary64 against the
   implementation; LbfgsGenEq.v proves it equal to the hand model).  No proofs here. *)
From Coq Require Import List ZArith Bool Arith.
From Alpaqa Require Import Num Vec Lbfgs LbfgsGenLib LbfgsGen.
Import ListNotations.

Section Inst.
  Context {T : Type} `{Num T}.

  Definition with_s (sl : slot T) (v : list T) : slot T :=
    {| sl_s := v; sl_y := sl_y sl; sl_ρ := sl_ρ sl; sl_α := sl_α sl; sl_skip := sl_skip sl |}.
  Definition with_y (sl : slot T) (v : list T) : slot T :=
    {| sl_s := sl_s sl; sl_y := v; sl_ρ := sl_ρ sl; sl_α := sl_α sl; sl_skip := sl_skip sl |}.
  Definition with_ρ (sl : slot T) (r : T) : slot T :=
    {| sl_s := sl_s sl; sl_y := sl_y sl; sl_ρ := Some r; sl_α := sl_α sl; sl_skip := sl_skip sl |}.

  Definition lbfgs_ops : store_ops T (state T) := {|
    so_n := @st_n T;
    so_history := @history T;
    so_idx := @st_idx T;
    so_full := @st_full T;
    so_s := fun st i => sl_s (get st i);
    so_y := fun st i => sl_y (get st i);
    so_rho := fun st i => ρval (sl_ρ (get st i));
    so_alpha := fun st i => sl_α (get st i);
    so_alpha_isnan := fun st i => sl_skip (get st i) || nisnan (sl_α (get st i));
    so_set_s := fun st i v => set_slot st i (with_s (get st i) v);
    so_set_y := fun st i v => set_slot st i (with_y (get st i) v);
    so_set_rho := fun st i r => set_slot st i (with_ρ (get st i) r);
    so_set_alpha := fun st i a => set_α st i a;
    so_mark_alpha := fun st i => set_mark st i;
    so_set_idx := fun st i => {| st_n := st_n st; st_idx := i; st_full := st_full st; st_slots := st_slots st |};
    so_set_full := fun st b => {| st_n := st_n st; st_idx := st_idx st; st_full := b; st_slots := st_slots st |};
    so_resize := fun st n m => {| st_n := n; st_idx := st_idx st; st_full := st_full st; st_slots := repeat (slot0 n) m |}
  |}.

  Definition gp_of (P : params T) : gparams T :=
    {| gp_memory := p_memory P; gp_min_div_fac := p_min_div_fac P; gp_min_abs_s := p_min_abs_s P;
       gp_cbfgs_alpha := p_cbfgs_α P; gp_cbfgs_eps := p_cbfgs_ϵ P; gp_force_pos_def := p_force_pos_def P;
       gp_curvature := p_curvature P |}.

  Variable pw : T -> T -> T.

  (* one public operation, executed by the GENERATED function *)
  Definition gstep (P : params T) (st : state T) (o : op T) : state T * out T :=
    let G := gp_of P in
    match o with
    | OUpdSy s y pp forced =>
        let '(b, st') := g_update_sy_impl lbfgs_ops pw G st s y pp forced in (st', {| o_ret := bret b; o_q := [] |})
    | OUpd xk xn pk pn sg forced =>
        let '(b, st') := g_update lbfgs_ops pw G st xk xn pk pn sg forced in (st', {| o_ret := bret b; o_q := [] |})
    | OApply q γ =>
        let '(b, q', st') := g_apply lbfgs_ops pw G st q γ in (st', {| o_ret := bret b; o_q := q' |})
    | OApplyM q γ J =>
        let '(r, q', st') := g_apply_masked_impl lbfgs_ops pw G st q γ J in
        (st', {| o_ret := match r with GThrow => 3 | GRet b => bret b end; o_q := q' |})
    | OReset => (g_reset lbfgs_ops pw G st, {| o_ret := 2; o_q := [] |})
    | OResize n => match g_resize lbfgs_ops pw G st n with
                   | Some st' => (st', {| o_ret := 2; o_q := [] |})
                   | None => (st, {| o_ret := 3; o_q := [] |})
                   end
    | OScale f => (g_scale_y lbfgs_ops pw G st f, {| o_ret := 2; o_q := [] |})
    end.

  Definition grun (P : params T) (ops : list (op T)) (st : state T) : state T :=
    fold_left (fun st o => fst (gstep P st o)) ops st.

  (* the constructor LBFGS(params, n): resize(n) on a default-constructed object (empty storage, idx 0, not full) *)
  Definition gstate0 : state T := {| st_n := 0; st_idx := 0; st_full := false; st_slots := [] |}.
  Definition gctor (P : params T) (n : nat) : option (state T) := g_resize lbfgs_ops pw (gp_of P) gstate0 n.
End Inst.
