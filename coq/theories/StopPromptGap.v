(* StopPromptGap.v — C19 on the PANOC loop model: CONSECUTIVE polls and the bound FROM THE REQUEST TO THE RETURN.
   StopPrompt.v bounds what happens after a poll that sees the request.  A request becomes visible BETWEEN two polls; here:
     poll_next_gap            between two consecutive polls of a run: one poll, <= 3 oracle calls, <= 2 direction calls, <= 1 callback
     loop_request_to_return   if the poll FOLLOWING pp sees the request (pp itself need not), then everything the run does after pp is
                              <= 3 polls, <= 5 oracle calls, <= 2 direction calls (<= 1 apply), <= 2 callbacks.
   For every number system, oracle and parameter set; sticky request. *)
From Coq Require Import List ZArith Bool Arith Lia.
From Alpaqa Require Import Num Vec Prox SolverStatus SolverKernels StopChain StopChainProofs Panoc StopPrompt.
Import ListNotations.

Section Gap.
  Context {T : Type} `{Num T}.
  Local Open Scope num_scope.

  Variable psi_grad_full : list T -> T * list T * list T.
  Variable psi_yhat : list T -> T * list T.
  Variable grad_L : list T -> list T -> list T.
  Variable grad_psi : list T -> list T.
  Variables (lb ub : list (option T)) (l1 : list T).
  Variable dir_apply : nat -> iterate (T:=T) -> option (list T).
  Variable has_initial : bool.
  Variable stop_req : counters -> bool.
  Variable time_up : counters -> bool.
  Variable P : params (T:=T).
  Variables (x_in y_in Σ errz_in : list T).
  Variable ls_fuel : nat.

  Notation it := (iterate (T:=T)).
  Notation eprox := (eval_prox lb ub l1).
  Notation epsih := (eval_psih psi_grad_full psi_yhat P).
  Notation epsihx := (eval_psih_exit psi_yhat).
  Notation egradh := (eval_gradh grad_L grad_psi P).
  Notation lsloop := (ls_loop psi_grad_full psi_yhat grad_L grad_psi lb ub l1 stop_req P).
  Notation pass_ := (pass psi_grad_full psi_yhat grad_L grad_psi lb ub l1 dir_apply has_initial stop_req time_up P x_in y_in Σ errz_in ls_fuel).
  Notation loop_ := (loop psi_grad_full psi_yhat grad_L grad_psi lb ub l1 dir_apply has_initial stop_req time_up P x_in y_in Σ errz_in ls_fuel).
  Notation panoc_ := (panoc psi_grad_full psi_yhat grad_L grad_psi lb ub l1 dir_apply has_initial stop_req time_up P x_in y_in Σ errz_in ls_fuel).
  Notation eps_of := (it_eps lb ub l1 P).
  Notation initL := (init_L psi_grad_full grad_psi P x_in).
  Notation initqub := (init_qub psi_grad_full psi_yhat lb ub l1 P).

  Notation ls_pass := (ls_pass psi_grad_full psi_yhat grad_L grad_psi lb ub l1 P).
  Notation ls_reach := (ls_reach psi_grad_full psi_yhat grad_L grad_psi lb ub l1 stop_req P).
  Notation top_status := (top_status grad_L grad_psi lb ub l1 stop_req time_up P).
  Notation top_curr := (top_curr grad_L grad_psi P).
  Notation top_cnt := (top_cnt P).
  Notation pass_setup := (pass_setup grad_L grad_psi dir_apply has_initial P).
  Notation pass_finish := (pass_finish grad_L grad_psi lb ub l1 P).
  Notation polled_from := (polled_from psi_grad_full psi_yhat grad_L grad_psi lb ub l1 dir_apply has_initial stop_req time_up P x_in y_in Σ errz_in ls_fuel).
  Notation prompt_after := (prompt_after P).
  Notation panoc_start := (panoc_start psi_grad_full psi_yhat grad_psi lb ub l1 P x_in ls_fuel).
  Notation ls_pass_adv := (ls_pass_adv psi_grad_full psi_yhat grad_L grad_psi lb ub l1 P).
  Notation setup_adv := (setup_adv grad_L grad_psi dir_apply has_initial P).
  Notation finish_adv := (finish_adv grad_L grad_psi lb ub l1 P).
  Notation top_adv := (top_adv P).
  Notation ls_loop_unfold := (ls_loop_unfold psi_grad_full psi_yhat grad_L grad_psi lb ub l1 stop_req P).
  Notation pass_eq := (pass_eq psi_grad_full psi_yhat grad_L grad_psi lb ub l1 dir_apply has_initial stop_req time_up P x_in y_in Σ errz_in ls_fuel).
  Notation ls_reach_stops := (ls_reach_stops psi_grad_full psi_yhat grad_L grad_psi lb ub l1 stop_req P).
  Notation loop_stop_prompt := (loop_stop_prompt psi_grad_full psi_yhat grad_L grad_psi lb ub l1 dir_apply has_initial stop_req time_up P x_in y_in Σ errz_in ls_fuel).
  Notation panoc_done_start := (panoc_done_start psi_grad_full psi_yhat grad_L grad_psi lb ub l1 dir_apply has_initial stop_req time_up P x_in y_in Σ errz_in ls_fuel).

  (* ------------------------------------------------------------------ consecutive polls; from the request to the return *)
  (* pp' is the poll that follows pp in the run started at s *)
  Inductive poll_next : lstate (T:=T) -> pollpt -> pollpt -> Prop :=
  | pn_top_ls s q τi ls0 : top_status s = StBusy -> pass_setup s = (q, τi, ls0) ->
      poll_next s (mkPP (top_cnt s) (top_curr s) (st_k s)) (mkPP (ls_cnt ls0) (ls_curr ls0) (st_k s))
  | pn_ls_ls s q τi ls0 l ln : top_status s = StBusy -> pass_setup s = (q, τi, ls0) -> ls_reach q τi ls0 l ->
      stop_req (ls_cnt l) = false -> ls_pass q τi l = inl ln ->
      poll_next s (mkPP (ls_cnt l) (ls_curr l) (st_k s)) (mkPP (ls_cnt ln) (ls_curr ln) (st_k s))
  | pn_ls_top_done s q τi ls0 l l2 : top_status s = StBusy -> pass_setup s = (q, τi, ls0) -> ls_reach q τi ls0 l ->
      stop_req (ls_cnt l) = false -> ls_pass q τi l = inr l2 ->
      let s' := pass_finish s q τi l2 in
      poll_next s (mkPP (ls_cnt l) (ls_curr l) (st_k s)) (mkPP (top_cnt s') (top_curr s') (st_k s'))
  | pn_ls_top_stopped s q τi ls0 l : top_status s = StBusy -> pass_setup s = (q, τi, ls0) -> ls_reach q τi ls0 l ->
      stop_req (ls_cnt l) = true ->
      let s' := pass_stopped s q (ls_stopped_at l) in
      poll_next s (mkPP (ls_cnt l) (ls_curr l) (st_k s)) (mkPP (top_cnt s') (top_curr s') (st_k s'))
  | pn_next s s' pp pp' : pass_ s = PCont s' -> poll_next s' pp pp' -> poll_next s pp pp'.

  (* work between two consecutive polls: one poll, <= 3 oracle calls, <= 2 direction calls (<= 1 apply), <= 1 callback *)
  Lemma poll_next_gap s pp pp' : poll_next s pp pp' ->
    adv (pp_cnt pp) (pp_cnt pp') 1 3 2 1 1 /\ c_polls (pp_cnt pp') = S (c_polls (pp_cnt pp)).
  Proof.
    induction 1 as [s q τi ls0 Eb Es|s q τi ls0 l ln Eb Es Hr Ef Ep|s q τi ls0 l l2 Eb Es Hr Ef Ep|s q τi ls0 l Eb Es Hr Et|s s' pp pp' Ep _ IH];
      cbn [pp_cnt]; [| | | |exact IH].
    - pose proof (setup_adv s) as A. rewrite Es in A. cbn [snd] in A.
      assert (c_polls (ls_cnt ls0) = S (c_polls (top_cnt s))).
      { unfold pass_setup in Es. cbv zeta in Es. inversion Es. cbn [ls_cnt].
        destruct (st_k s =? 0)%nat; destruct ((0 <? st_k s)%nat || has_initial); cnt_solve. }
      split; [cnt_solve|assumption].
    - destruct (ls_pass_adv q τi l) as [A B]. rewrite Ep in A, B. cbn [ls_res_state] in A, B. split; [cnt_solve|exact B].
    - subst s'. destruct (ls_pass_adv q τi l) as [A B]. rewrite Ep in A, B. cbn [ls_res_state] in A, B.
      pose proof (finish_adv s q τi l2) as C. pose proof (top_adv (pass_finish s q τi l2)) as D.
      assert (E1 : c_polls (st_cnt (pass_finish s q τi l2)) = c_polls (ls_cnt l2)).
      { unfold pass_finish. cbv zeta. cbn [st_cnt]. destruct (ls_updated l2); cnt_solve. }
      assert (E2 : c_polls (top_cnt (pass_finish s q τi l2)) = c_polls (st_cnt (pass_finish s q τi l2))).
      { unfold top_cnt. destruct (top_need _); [|reflexivity]. unfold cnt_gradh. destruct (p_eager P); cnt_solve. }
      split; [cnt_solve|]. rewrite E2, E1. exact B.
    - subst s'. pose proof (top_adv (pass_stopped s q (ls_stopped_at l))) as D.
      assert (E1 : st_cnt (pass_stopped s q (ls_stopped_at l)) = inc_polls (ls_cnt l)) by reflexivity.
      assert (E2 : c_polls (top_cnt (pass_stopped s q (ls_stopped_at l))) = c_polls (st_cnt (pass_stopped s q (ls_stopped_at l)))).
      { unfold top_cnt. destruct (top_need _); [|reflexivity]. unfold cnt_gradh. destruct (p_eager P); cnt_solve. }
      rewrite E1 in *. split; [cnt_solve|]. rewrite E2. cnt_solve.
  Qed.

  Lemma ls_reach_done q τi s l l2 : ls_reach q τi s l -> stop_req (ls_cnt l) = false -> ls_pass q τi l = inr l2 ->
    forall fuel, lsloop fuel q τi s = LsFuel \/ lsloop fuel q τi s = LsDone l2.
  Proof.
    induction 1 as [s|s s1 s2 Es Ep _ IH]; intros El Ed [|fuel]; try (left; reflexivity).
    - right. rewrite ls_loop_unfold, El, Ed. reflexivity.
    - rewrite ls_loop_unfold, Es, Ep. apply IH; assumption.
  Qed.

  (* in a completed run the successor of a poll is a poll of the run *)
  Lemma poll_next_polled : forall fuel s o, loop_ fuel s = Done o -> forall pp pp', poll_next s pp pp' -> polled_from s pp'.
  Proof.
    induction fuel as [|fuel IH]; intros s o Hr pp pp' Hn; [discriminate|]. cbn [loop] in Hr.
    destruct Hn as [s q τi ls0 Eb Es|s q τi ls0 l ln Eb Es Hreach Ef Ep|s q τi ls0 l l2 Eb Es Hreach Ef Ep|s q τi ls0 l Eb Es Hreach Et|s s' pp pp' Ep Hn'].
    - eapply pf_ls; [exact Eb|exact Es|constructor].
    - eapply pf_ls; [exact Eb|exact Es|].
      clear - Hreach Ef Ep. induction Hreach as [s|s s1 s2 A B _ IHr]; [econstructor; [exact Ef|exact Ep|constructor]|].
      econstructor; [exact A|exact B|apply IHr; assumption].
    - cbv zeta. rewrite pass_eq, Eb, Es in Hr.
      destruct (ls_reach_done q τi ls0 l l2 Hreach Ef Ep ls_fuel) as [E|E]; rewrite E in Hr; [discriminate|].
      eapply pf_next; [rewrite pass_eq, Eb, Es, E; reflexivity|apply pf_top].
    - cbv zeta. rewrite pass_eq, Eb, Es in Hr.
      destruct (ls_reach_stops q τi ls0 l Hreach Et ls_fuel) as [E|E]; rewrite E in Hr; [discriminate|].
      eapply pf_next; [rewrite pass_eq, Eb, Es, E; reflexivity|apply pf_top].
    - rewrite Ep in Hr. eapply pf_next; [exact Ep|exact (IH s' o Hr pp pp' Hn')].
  Qed.

  Hypothesis Hsticky : sticky stop_req.

  (* FROM THE REQUEST TO THE RETURN: the request became visible after poll pp (which need not have seen it) and is seen by the next
     poll pp'.  Everything the run does after pp: <= 3 polls, <= 5 oracle calls, <= 2 direction calls (<= 1 apply), <= 2 callbacks *)
  Theorem loop_request_to_return fuel s o : loop_ fuel s = Done o ->
    forall pp pp', poll_next s pp pp' -> stop_req (pp_cnt pp') = true ->
    adv (pp_cnt pp) (out_cnt o) 3 5 2 1 2 /\ prompt_after pp' o.
  Proof.
    intros Hr pp pp' Hn Hs. pose proof (poll_next_polled fuel s o Hr pp pp' Hn) as Hp.
    pose proof (loop_stop_prompt Hsticky fuel s o Hr pp' Hp Hs) as Hpr. split; [|exact Hpr].
    destruct (poll_next_gap s pp pp' Hn) as [A _]. destruct Hpr as (_ & _ & B & _). cnt_solve.
  Qed.

  (* direction calls between two consecutive polls: two only at k = 0 (direction.initialize followed by direction.apply) *)
  Lemma poll_next_gap_dir s pp pp' : poll_next s pp pp' -> pp_k pp <> 0%nat -> (c_dir (pp_cnt pp') <= c_dir (pp_cnt pp) + 1)%nat.
  Proof.
    induction 1 as [s q τi ls0 Eb Es|s q τi ls0 l ln Eb Es Hr Ef Ep|s q τi ls0 l l2 Eb Es Hr Ef Ep|s q τi ls0 l Eb Es Hr Et|s s' pp pp' Ep _ IH];
      cbn [pp_cnt pp_k]; [| | | |exact IH]; intros Hk.
    - unfold StopPrompt.pass_setup in Es. cbv zeta in Es. inversion Es. cbn [ls_cnt].
      destruct (Nat.eqb_spec (st_k s) 0) as [E|_]; [contradiction|]. destruct ((0 <? st_k s)%nat || has_initial); cnt_solve.
    - destruct (ls_pass_adv q τi l) as [A _]. rewrite Ep in A. cbn [ls_res_state] in A. cnt_solve.
    - subst s'. destruct (ls_pass_adv q τi l) as [A _]. rewrite Ep in A. cbn [ls_res_state] in A.
      (* the update in the candidate and the update after the search exclude each other *)
      assert (E : (c_dir (st_cnt (pass_finish s q τi l2)) <= c_dir (ls_cnt l) + 1)%nat).
      { unfold StopPrompt.pass_finish. cbv zeta. cbn [st_cnt].
        unfold StopPrompt.ls_pass in Ep. cbv zeta in Ep.
        set (ph := if ls_tau l =? ls_tau_prev l then (ls_curr l, ls_next l, inc_polls (ls_cnt l)) else _) in Ep.
        assert (F : c_dir (snd ph) = c_dir (ls_cnt l)).
        { subst ph. destruct (ls_tau l =? ls_tau_prev l); [reflexivity|]. destruct (ls_tau l =? n0); [|reflexivity].
          unfold take_safe_step. cbn [snd]. destruct (ihave (ls_curr l)); [reflexivity|]. unfold cnt_gradh. destruct (p_eager P); reflexivity. }
        destruct ph as [[curr next] c1]. cbn [snd] in F.
        repeat match type of Ep with context [if ?b then _ else _] => let E := fresh "E" in destruct b eqn:E end; inversion Ep; subst l2; cbn [ls_updated ls_cnt];
          unfold cnt_psih; destruct (p_eager P); cnt_unfold; try lia;
          match goal with Hu : (ls_upd l && negb (ls_updated l)) = false |- _ =>
            destruct (ls_updated l); cnt_unfold; lia end. }
      pose proof (top_adv (pass_finish s q τi l2)) as D. cnt_solve.
    - subst s'. pose proof (top_adv (pass_stopped s q (ls_stopped_at l))) as D.
      assert (E1 : st_cnt (pass_stopped s q (ls_stopped_at l)) = inc_polls (ls_cnt l)) by reflexivity. rewrite E1 in D. cnt_solve.
  Qed.

  (* a request issued after poll pp at an iteration k >= 1 and seen by the next poll: AT MOST ONE direction call after pp; in particular
     a stop() issued INSIDE a direction call (visible as soon as c_dir has passed that call) is followed by NO further direction call *)
  Theorem loop_request_one_direction_call fuel s o : loop_ fuel s = Done o ->
    forall pp pp', poll_next s pp pp' -> stop_req (pp_cnt pp') = true -> pp_k pp <> 0%nat ->
    (c_dir (out_cnt o) <= c_dir (pp_cnt pp) + 1)%nat.
  Proof.
    intros Hr pp pp' Hn Hs Hk. destruct (loop_request_to_return fuel s o Hr pp pp' Hn Hs) as [_ (_ & _ & _ & E & _)].
    rewrite E. exact (poll_next_gap_dir s pp pp' Hn Hk).
  Qed.
  Corollary loop_stop_inside_direction_call fuel s o (d : nat) : (forall c, stop_req c = (d <? c_dir c)%nat) -> loop_ fuel s = Done o ->
    forall pp pp', poll_next s pp pp' -> stop_req (pp_cnt pp) = false -> stop_req (pp_cnt pp') = true -> pp_k pp <> 0%nat ->
    c_dir (out_cnt o) = S d.
  Proof.
    intros Hd Hr pp pp' Hn Hf Hs Hk. pose proof (loop_request_one_direction_call fuel s o Hr pp pp' Hn Hs Hk) as A.
    destruct (loop_request_to_return fuel s o Hr pp pp' Hn Hs) as [_ (_ & _ & _ & E & _)].
    rewrite Hd in Hf, Hs. apply Nat.ltb_ge in Hf. apply Nat.ltb_lt in Hs. lia.
  Qed.

  Definition panoc_poll_next (pp pp' : pollpt) : Prop := exists s0, panoc_start s0 /\ poll_next s0 pp pp'.
  Theorem panoc_request_to_return fuel o : panoc_ fuel = Done o ->
    forall pp pp', panoc_poll_next pp pp' -> stop_req (pp_cnt pp') = true ->
    adv (pp_cnt pp) (out_cnt o) 3 5 2 1 2 /\ prompt_after pp' o.
  Proof.
    intros Hr pp pp' (s0 & Hs0 & Hn) Hs. destruct (panoc_done_start fuel o Hr) as (s0' & Hs0' & Hl).
    assert (s0' = s0).
    { destruct Hs0 as (i0 & c0 & i3 & c1 & z1 & E0 & _ & Eq & ->). destruct Hs0' as (i0' & c0' & i3' & c1' & z1' & E0' & _ & Eq' & ->).
      rewrite E0 in E0'. inversion E0'; subst. rewrite Eq in Eq'. inversion Eq'; subst. reflexivity. }
    subst s0'. exact (loop_request_to_return fuel s0 o Hl pp pp' Hn Hs).
  Qed.

End Gap.
