(* Vec.v — vectors as lists over a Num; operation order = Eigen without vectorisation
   (sequential left folds starting from the first coefficient). No proofs here. *)
From Coq Require Import List ZArith Bool.
From Alpaqa Require Import Num.
Import ListNotations.

Section Vec.
  Context {T : Type} `{Num T}.
  Local Open Scope num_scope.

  Fixpoint map2 {A B C} (f : A -> B -> C) (a : list A) (b : list B) : list C :=
    match a, b with
    | x :: a', y :: b' => f x y :: map2 f a' b'
    | _, _ => []
    end.
  Fixpoint map3 {A B C D} (f : A -> B -> C -> D) (a : list A) (b : list B) (c : list C) : list D :=
    match a, b, c with
    | x :: a', y :: b', z :: c' => f x y z :: map3 f a' b' c'
    | _, _, _ => []
    end.

  Definition vadd := map2 (nadd (T:=T)).
  Definition vsub := map2 (nsub (T:=T)).
  Definition vmul := map2 (nmul (T:=T)).        (* cwiseProduct *)
  Definition vdiv := map2 (ndiv (T:=T)).        (* cwiseQuotient *)
  Definition vscale (a : T) (v : list T) := map (fun x => a * x) v.
  Definition vneg (v : list T) := map (fun x => - x) v.
  Definition vabs (v : list T) := map (fun x => nabs x) v.

  (* Eigen redux (no vectorisation): res = coeff(0); for i>=1: res = func(res, coeff(i)) *)
  Definition redux (f : T -> T -> T) (dflt : T) (v : list T) : T :=
    match v with [] => dflt | x :: v' => fold_left f v' x end.
  Definition vsum (v : list T) : T := redux nadd n0 v.
  Definition vdot (a b : list T) : T := vsum (vmul a b).
  Definition vsqnorm (v : list T) : T := vsum (map (fun x => x * x) v).
  Definition vnorm2 (v : list T) : T := nsqrt (vsqnorm v).
  Definition vnorm1 (v : list T) : T := vsum (vabs v).
  (* maxCoeff visitor: if (value > res) res = value *)
  Definition vmaxcoeff (v : list T) : T := redux (fun acc x => if acc <? x then x else acc) n0 v.
  Definition vnorminf (v : list T) : T := vmaxcoeff (vabs v).
  Definition vall_finite (v : list T) : bool := forallb nfinite v.
  Definition vconst (n : nat) (c : T) : list T := repeat c n.

  Fixpoint veqb (a b : list T) : bool :=   (* Eigen operator== : all coefficients == *)
    match a, b with
    | [], [] => true
    | x :: a', y :: b' => (x =? y) && veqb a' b'
    | _, _ => false
    end.
End Vec.
