(* Properties_C16.v — C16: type-erased containers have value semantics under any copy/move/assign history.
   Subject: the model TypeErased.v of alpaqa::util::TypeErased (pointer-level, with an error-raising ledger),
   tied to the C++ by the correspondence check Corr_C16 / drv_C16 after every operation.
   Only theorem statements closed by `exact`, each followed by Print Assumptions.
   [c] ranges over ALL configurations: any small-buffer size, any combination of the allocator propagation traits,
   any number of external objects; [ops] over ALL operation sequences over ANY number of wrapper slots. *)
From Coq Require Import ZArith List Bool.
From Alpaqa Require Import TypeErased TypeErasedProofs.
Import ListNotations.
Local Open Scope Z_scope.

(* (0) the ledger invariant is inductive: it holds initially and every operation preserves it *)
Theorem C16_invariant_initial : forall c, inv c (init c).
Proof. exact init_inv. Qed.
Print Assumptions C16_invariant_initial.

Theorem C16_invariant_preserved : forall c o st, inv c st -> inv c (fst (step c o st)).
Proof. exact step_inv. Qed.
Print Assumptions C16_invariant_preserved.

Theorem C16_invariant_any_history : forall c ops st, inv c st -> inv c (run c ops st).
Proof. exact run_inv. Qed.
Print Assumptions C16_invariant_any_history.

(* (1) no double destroy, no use of a destroyed payload, no construction over a live payload or in freed memory,
       no block freed twice / through another allocator / with another size — in any history *)
Theorem C16_no_error_any_history : forall c ops, errs (run c ops (init c)) = [].
Proof. exact no_error_any_history. Qed.
Print Assumptions C16_no_error_any_history.

(* (2) every live payload is an external object or has exactly one owning wrapper *)
Theorem C16_every_object_has_one_owner : forall c ops l o,
  let st := run c ops (init c) in
  mem st l = Some o ->
  (exists e, l = LExt e /\ (e < n_ext c)%nat) \/
  (exists s, owner st s l /\ forall s', owner st s' l -> s' = s).
Proof. exact every_object_has_one_owner. Qed.
Print Assumptions C16_every_object_has_one_owner.

(* (3) + (4) an owning wrapper holds a live payload of its size: in its OWN small buffer if it fits (never a pointer
       into another wrapper's buffer), else in an outstanding block of its CURRENT allocator with exactly that size
       (so the block is returned to the allocator it came from) *)
Theorem C16_owned_storage : forall c ops s w l,
  let st := run c ops (init c) in
  pool st s = Some w -> self w = Some l -> size_indicates_ownership (size w) = true ->
  (exists o, mem st l = Some o /\ osz o = size w) /\
  (size w <= sbo c -> l = LBuf s) /\
  (sbo c < size w -> exists b, l = LHeap b /\ blocks st b = Some (alloc w, size w)).
Proof. exact owned_storage. Qed.
Print Assumptions C16_owned_storage.

Theorem C16_reference_target : forall c ops s w l,
  let st := run c ops (init c) in
  pool st s = Some w -> self w = Some l -> size_indicates_ownership (size w) = false ->
  exists e, l = LExt e /\ (e < n_ext c)%nat /\ mem st l <> None.
Proof. exact reference_target. Qed.
Print Assumptions C16_reference_target.

Theorem C16_every_block_has_an_owner : forall c ops b az,
  let st := run c ops (init c) in blocks st b = Some az -> exists s, owner st s (LHeap b).
Proof. exact every_block_has_an_owner. Qed.
Print Assumptions C16_every_block_has_an_owner.

(* (2') nothing is left once all wrappers are destroyed *)
Theorem C16_no_leak_at_end : forall c ops,
  let st := run c ops (init c) in
  (forall s, pool st s = None) ->
  (forall l o, mem st l = Some o -> exists e, l = LExt e /\ (e < n_ext c)%nat) /\ (forall b, blocks st b = None).
Proof. exact no_leak_at_end. Qed.
Print Assumptions C16_no_leak_at_end.

(* (5) dispatch to the own object; copies independent; references alias *)
Theorem C16_shared_only_by_references : forall c st i j wi wj l,
  inv c st -> i <> j -> nonempty st i = Some (wi, l) -> nonempty st j = Some (wj, l) ->
  size_indicates_ownership (size wi) = false /\ size_indicates_ownership (size wj) = false.
Proof. exact shared_only_by_references. Qed.
Print Assumptions C16_shared_only_by_references.

Theorem C16_write_then_read : forall c st i w l v,
  inv c st -> nonempty st i = Some (w, l) -> size_indicates_const (size w) = false ->
  let st' := fst (step c (CallSet i v) st) in
  (exists d, snd (step c (CallGet i) st') = ROk v d) /\
  (forall j wj lj, nonempty st j = Some (wj, lj) -> lj <> l -> snd (step c (CallGet j) st') = snd (step c (CallGet j) st)).
Proof. exact write_then_read. Qed.
Print Assumptions C16_write_then_read.

Theorem C16_write_seen_by_aliases : forall c st i j w wj l v,
  inv c st -> nonempty st i = Some (w, l) -> size_indicates_const (size w) = false -> nonempty st j = Some (wj, l) ->
  exists d, snd (step c (CallGet j) (fst (step c (CallSet i v) st))) = ROk v d.
Proof. exact write_seen_by_aliases. Qed.
Print Assumptions C16_write_seen_by_aliases.

(* (6) const-ness and type violations are reported, not performed: the state is unchanged *)
Theorem C16_const_violation_throws : forall c st i w l,
  nonempty st i = Some (w, l) -> size w = const_ref_size ->
  (forall v, step c (CallSet i v) st = (st, RConst)) /\
  step c (GetPtr i) st = (st, RConst) /\
  (forall z v, inv c st -> step c (AsSet i z v) st = (st, RConst) \/ step c (AsSet i z v) st = (st, RType)).
Proof. exact const_violation_throws. Qed.
Print Assumptions C16_const_violation_throws.

Theorem C16_wrong_type_throws : forall c st i w l ob z,
  nonempty st i = Some (w, l) -> mem st l = Some ob -> osz ob <> z ->
  (forall v, step c (AsSet i z v) st = (st, RType)) /\ step c (AsGet i z) st = (st, RType).
Proof. exact wrong_type_throws. Qed.
Print Assumptions C16_wrong_type_throws.

(* (7) throwing payload constructors *)
Theorem C16_throwing_copy_assign : forall c st i j thr,
  inv c st -> snd (step c (CopyAssign i j thr) st) = RThrew ->
  inv c (fst (step c (CopyAssign i j thr) st)) /\ empty_at (fst (step c (CopyAssign i j thr) st)) i.
Proof. exact throwing_copy_assign. Qed.
Print Assumptions C16_throwing_copy_assign.

Theorem C16_throwing_constructor : forall c st o,
  inv c st -> snd (step c o st) = RThrew ->
  match o with
  | MkVal i _ _ _ _ | CopyCtor i _ _ | CopyCtorA i _ _ _ => pool (fst (step c o st)) i = None /\ inv c (fst (step c o st))
  | _ => True
  end.
Proof. exact throwing_constructor. Qed.
Print Assumptions C16_throwing_constructor.

(* ---- non-vacuity: a concrete history reaching owning small / heap / reference / const-reference wrappers with unequal
   allocators, a throwing copy, and the hypotheses of the theorems above instantiated on it *)
Definition cfg_ex : cfg := {| sbo := 64; pocca := false; pocma := false; soccc0 := false; n_ext := 2 |}.
Definition hist_ex : list op :=
  [MkVal 0 1 80 5 false; MkVal 1 2 16 7 false; MkRef 2 1 1 true; CopyCtor 3 0 false; MoveAssign 1 3; CopyAssign 0 1 true].
Example C16_nonvacuous_history :
  let st := run cfg_ex hist_ex (init cfg_ex) in
  (exists w b, pool st 1 = Some w /\ self w = Some (LHeap b) /\ size w = 80 /\ alloc w = 2%nat /\ blocks st b = Some (2%nat, 80)) /\
  (exists w, pool st 0 = Some w /\ self w = None /\ size w = 80) /\                   (* emptied by the throwing copy; stale size *)
  (exists w, pool st 2 = Some w /\ self w = Some (LExt 1) /\ size w = const_ref_size) /\
  (exists w, pool st 3 = Some w /\ self w = None /\ size w = invalid_size) /\          (* moved-from *)
  errs st = [] /\ length (clog st) = 6%nat /\ length (dlog st) = 3%nat /\ length (alog st) = 4%nat /\ length (flog st) = 3%nat.
Proof. vm_compute. repeat split; try reflexivity; do 2 eexists; repeat split; reflexivity. Qed.
Example C16_nonvacuous_throw :
  snd (step cfg_ex (CopyAssign 1 0 true) (run cfg_ex [MkVal 0 1 80 5 false; MkVal 1 2 16 7 false] (init cfg_ex))) = RThrew.
Proof. vm_compute. reflexivity. Qed.
Example C16_nonvacuous_const :
  let st := run cfg_ex hist_ex (init cfg_ex) in
  exists w l, nonempty st 2 = Some (w, l) /\ size w = const_ref_size /\ snd (step cfg_ex (CallSet 2 9) st) = RConst.
Proof. vm_compute. eauto. Qed.
Example C16_nonvacuous_write :
  let st := run cfg_ex [MkVal 0 1 80 5 false; CopyCtor 1 0 false; CallSet 1 9] (init cfg_ex) in
  snd (step cfg_ex (CallGet 0) st) = ROk 5 (Some 2%nat) /\ snd (step cfg_ex (CallGet 1) st) = ROk 9 (Some 3%nat).
Proof. vm_compute. auto. Qed.
