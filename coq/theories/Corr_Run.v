(* Corr_Run.v — teacher-forced (one-step) correspondence between SolverKernels.v / Prox.v at binary64 and the records the
   real solvers report through their progress callbacks and return values (C03, C05, C19, C01). *)
From Coq Require Import Floats List ZArith Bool.
From Alpaqa Require Import Num NumF Vec Prox SolverStatus SolverKernels.
Import ListNotations.
Local Open Scope float_scope.

Inductive runcase :=
(* reported envelope value: φγ = fbe(ψ, h, ‖p‖², γ, ∇ψᵀp) with ∇ψᵀp recomputed from the reported vectors *)
| RFbe (ψx hxh pp γ : float) (grad p : list float) (φ : float)
(* reported prox step: (x̂, p, ‖p‖²) = step(x, γ, ∇ψ) *)
| RStep (lb ub l1 : list float) (γ : float) (x grad xh p : list float) (pp : float)
(* accepted accelerated step (τ > 0): the line-search condition evaluated on the reported numbers is not violated *)
| RLs (β γ L φ pp φnext tol : float)
(* reported iterate with L < L_max satisfies the quadratic upper bound test the code uses *)
| RQub (ψx ψxh : float) (grad p : list float) (L pp tol : float)
(* step-size change between consecutive reported iterates is j halvings of γ with L doubled *)
| RHalve (γ L γ' L' : float)
(* candidate point from (τ, x, p, q) [PANOC: solver=0] or (τ, x̂, q) [ZeroFPR: solver=1] *)
| RCand (solver : nat) (τ : float) (x p q xh xnext : list float)
(* ŷ(x̂) from g(x̂) (recomputed from the user's g), y, Σ and D *)
| RYhat (dlb dub g y Σ yh : list float)
(* exit block *)
| RExit (st : status) (always : bool) (x_in y_in e_in xh yh Σ x_out y_out e_out : list float).

Fixpoint halve_reach (fuel : nat) (γL target : float * float) : bool :=
  (PrimFloat.eqb (fst γL) (fst target) && PrimFloat.eqb (snd γL) (snd target)) ||
  match fuel with O => false | S f => halve_reach f (halve_step γL) target end.

Definition sigma_at (Σ : list float) (i : nat) : float :=
  match Σ with [s] => s | _ => nth i Σ 1 end.
Fixpoint yhat_vec (i : nat) (dlb dub : list (option float)) (g y Σ : list float) : list float :=
  match dlb, dub, g, y with
  | l :: dlb', u :: dub', gi :: g', yi :: y' => yhat1 l u gi yi (sigma_at Σ i) :: yhat_vec (S i) dlb' dub' g' y' Σ
  | _, _, _, _ => []
  end.

(* absolute-tolerance comparison for quantities that suffer cancellation: |a-b| <= tol *)
Definition fabs_close (tol a b : float) : bool :=
  if f_isnan a then f_isnan b else if PrimFloat.eqb a b then true else abs (a - b) <=? tol.
Fixpoint vabs_close (tols a b : list float) : bool :=
  match tols, a, b with
  | t :: ts, x :: a', y :: b' => fabs_close t x y && vabs_close ts a' b'
  | [], [], [] => true
  | _, _, _ => false
  end.

Definition chkrun (c : runcase) : bool :=
  match c with
  | RFbe ψx hxh pp γ grad p φ => feq (fbe ψx hxh pp γ (vdot p grad)) φ
  | RStep lb ub l1 γ x grad xh p pp =>
      let '(xh', p', _) := eval_prox_grad_step (map lb_of_float lb) (map ub_of_float ub) l1 γ x grad in
      vfeq xh' xh && vfeq p' p && feq (vsqnorm p') pp
  | RLs β γ L φ pp φnext tol => negb (ls_violated false β γ L φ pp φnext tol)
  | RQub ψx ψxh grad p L pp tol => negb (qub_violated ψx ψxh (vdot p grad) L pp tol)
  | RHalve γ L γ' L' => halve_reach 1100 (γ, L) (γ', L')
  | RCand solver τ x p q xh xnext =>
      match solver with
      | O => vfeq (panoc_candidate τ x p q) xnext
      | _ => vfeq (zerofpr_candidate τ xh q) xnext
      end
  | RYhat dlb dub g y Σ yh =>
      let yh' := yhat_vec 0 (map lb_of_float dlb) (map ub_of_float dub) g y Σ in
      (* tolerance per row: 2^-30 * σ (1 + |ζ|) — ζ - Πζ cancels *)
      let tols := map3 (fun gi yi i => 0x1p-30 * sigma_at Σ i * (1 + abs (zeta1 gi yi (sigma_at Σ i)))) g y (seq 0 (length g)) in
      vabs_close tols yh' yh
  | RExit st always x_in y_in e_in xh yh Σ x_out y_out e_out =>
      let '(xo, yo, eo) := exit_block st always x_in y_in e_in xh yh
                             (match Σ with [s] => repeat s (length yh) | _ => Σ end) in
      vfexact xo x_out && vfexact yo y_out && vfexact eo e_out
  end.
