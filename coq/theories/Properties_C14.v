(* Properties_C14.v — C14: sparsity-format conversions preserve the matrix.
   Only theorem statements closed by `exact`, each followed by Print Assumptions; non-vacuity examples at the end.
   Model: Sparsity.v (convert / convert_values = the code; sem / valid / dense_of = what a pattern+values denotes).
   All statements hold for every value type T (with its zero), every shape (0xN, Nx0 included), every pattern. *)
From Coq Require Import List ZArith Bool Arith.
From Alpaqa Require Import Sparsity SparsityProofs.
From Alpaqa Require Import SparsityGenLib SparsityGen SparsityGenInst SparsityGenEq.
   (* SparsityGen.v is REGENERATED from sparsity-conversions.hpp on every run (translate/gen_sparsity.py);
      SparsityGenEq.v proves every generated piece equal to the piece of Sparsity.v it corresponds to *)
Import ListNotations.

(* (1) every conversion that returns, applied to a well-formed pattern, converts the values without exception and
       yields a well-formed pattern of the same shape and symmetry denoting exactly the same matrix
       (entry by entry; symmetric SPARSE patterns are read through their stored triangle, i.e. mirrored; a Dense
       pattern is read as stored, so a symmetric Dense result really contains both triangles.
       values_ok: a symmetric-tagged Dense source holds symmetric numbers; vacuous for every other source) *)
Theorem C14_conversion_preserves_matrix : forall (T : Type) (zero : T) from req to a (v : list T),
  convert from req = Ok (to, a) -> valid from = true -> length v = nnz from -> values_ok zero from v ->
  exists w, convert_values zero a v = Ok w /\ valid to = true /\ length w = nnz to
    /\ rows_of to = rows_of from /\ cols_of to = cols_of from /\ sym_of to = sym_of from
    /\ forall i j, i < rows_of from -> j < cols_of from -> sem zero to w i j = sem zero from v i j.
Proof. exact @convert_preserves. Qed.
Print Assumptions C14_conversion_preserves_matrix.

(* (1') the same as one equation between dense reconstructions *)
Theorem C14_dense_of_preserved : forall (T : Type) (zero : T) from req to a (v : list T),
  convert from req = Ok (to, a) -> valid from = true -> length v = nnz from -> values_ok zero from v ->
  exists w, convert_values zero a v = Ok w /\
            dense_of zero to w = dense_of zero from v /\ dense_of zero from v <> None.
Proof. exact @convert_dense_of. Qed.
Print Assumptions C14_dense_of_preserved.

(* (1'') symmetric entries mirrored: a Dense result of a symmetric source stores all elements (w is symmetric) *)
Theorem C14_dense_result_stores_all_elements : forall (T : Type) (zero : T) from to a (v : list T),
  convert from RDense = Ok (to, a) -> valid from = true -> length v = nnz from -> values_ok zero from v ->
  exists w, convert_values zero a v = Ok w /\ values_ok zero to w.
Proof. exact dense_result_stores_all_elements. Qed.
Print Assumptions C14_dense_result_stores_all_elements.

(* (2) the code's CSC traversal (column loop with a running value counter) reads the textbook column slices *)
Theorem C14_csc_traversal_reads_column_slices : forall (T : Type) (zero : T) s (v : list T) a b,
  outer_ok s = true -> b < c_cols s ->
  lookup zero zz_eqb (combine (map zkey (csc_expand s)) v) (zkey (a, b)) = csc_get zero s v a b.
Proof. exact @csc_expand_get. Qed.
Print Assumptions C14_csc_traversal_reads_column_slices.

(* (3) requested index base and index type honoured (no request: a COO source keeps its base, others get 0) *)
Theorem C14_first_index_honoured : forall from t f to a, convert from (RCOO t f) = Ok (to, a) ->
  exists o', to = SCOO o' /\ o_ity o' = t /\
    o_first o' = match f with Some x => x | None => match from with SCOO o => o_first o | _ => 0%Z end end.
Proof. exact first_index_honoured. Qed.
Print Assumptions C14_first_index_honoured.

(* (4) requested ordering honoured: a returned result of a SortedRows request is tagged SortedRows *)
Theorem C14_order_request_honoured : forall from t to a, convert from (RCSC t (Some CscSortedRows)) = Ok (to, a) ->
  exists s', to = SCSC s' /\ c_ity s' = t /\ c_order s' = CscSortedRows.
Proof. exact order_request_honoured. Qed.
Print Assumptions C14_order_request_honoured.

(* (5) the order tag of the result is truthful whenever the source's tag is *)
Theorem C14_order_tag_truthful : forall from req to a,
  convert from req = Ok (to, a) -> (forall s, from = SCSC s -> outer_ok s = true) ->
  order_true from = true -> order_true to = true.
Proof. exact order_tag_truthful. Qed.
Print Assumptions C14_order_tag_truthful.

(* (6) rejections *)
Theorem C14_nonsquare_symmetric_rejected : forall from req,
  sym_of from <> Unsym -> rows_of from <> cols_of from ->
  (req = RDense \/ exists d, from = SDense d) ->
  convert from req = ThrowInvalidArgument.
Proof. exact nonsquare_symmetric_rejected. Qed.
Print Assumptions C14_nonsquare_symmetric_rejected.

Theorem C14_lower_dense_rejected : forall d req, d_sym d = Lower -> req <> RDense ->
  convert (SDense d) req = ThrowInvalidArgument.
Proof. exact lower_dense_rejected. Qed.
Print Assumptions C14_lower_dense_rejected.

Theorem C14_wrong_triangle_rejected_coo : forall (T : Type) (zero : T) o (v : list T),
  sym_square_ok (o_sym o) (o_rows o) (o_cols o) = true -> length (o_row o) = length (o_col o) ->
  length v = nnz (SCOO o) ->
  existsb (fun k => negb (in_tri (o_sym o) (fst k) (snd k))) (coo_keys o) = true ->
  exists to a, convert (SCOO o) RDense = Ok (to, a) /\ convert_values zero a v = ThrowInvalidArgument.
Proof. exact @wrong_triangle_rejected_coo. Qed.
Print Assumptions C14_wrong_triangle_rejected_coo.

Theorem C14_wrong_triangle_rejected_csc : forall (T : Type) (zero : T) s (v : list T),
  sym_square_ok (c_sym s) (c_rows s) (c_cols s) = true -> outer_ok s = true ->
  length v = nnz (SCSC s) ->
  existsb (fun k => negb (in_tri (c_sym s) (Z.of_nat (fst k)) (Z.of_nat (snd k)))) (csc_expand s) = true ->
  exists to a, convert (SCSC s) RDense = Ok (to, a) /\ convert_values zero a v = ThrowInvalidArgument.
Proof. exact @wrong_triangle_rejected_csc. Qed.
Print Assumptions C14_wrong_triangle_rejected_csc.

(* unsupported in this build (ALPAQA_HAVE_COO_CSC_CONVERSIONS off): COO -> CSC, sorting an unsorted CSC *)
Theorem C14_unsupported_rejected : forall from t ord,
  (exists o, from = SCOO o) \/ (exists s, from = SCSC s /\ c_order s = CscUnsorted /\ ord = Some CscSortedRows) ->
  convert from (RCSC t ord) = ThrowRuntimeError.
Proof. exact unsupported_rejected. Qed.
Print Assumptions C14_unsupported_rejected.

(* (7) sparse -> sparse conversions do not examine squareness / triangle: they forward the pattern verbatim, so an
       ill-formed input stays ill formed (valid to = valid from): no matrix is invented from an invalid input *)
Theorem C14_sparse_to_sparse_forwards : forall from req to a,
  convert from req = Ok (to, a) -> req <> RDense -> (forall d, from <> SDense d) ->
  (forall s, from = SCSC s -> outer_ok s = true) ->
  a = VCopy /\ valid to = valid from /\ rows_of to = rows_of from /\ cols_of to = cols_of from /\
  sym_of to = sym_of from /\ nnz to = nnz from.
Proof. exact sparse_to_sparse_forwards. Qed.
Print Assumptions C14_sparse_to_sparse_forwards.

(* ---------------------------------------------------------------- the same, about the code as translated on this run *)
(* (G) the run of the GENERATED converters (constructor, then convert_values into a target buffer of the target's nnz with
       arbitrary previous contents `fill`), dispatched like SparsityConverter<Sparsity<Conf>, To>, IS the run of the model:
       same exception / same pattern / same values — under the in-bounds contract of the C++ on the source
       (outer_ptr consistent with inner_idx; row_indices and col_indices of one length; one value per stored entry) *)
Theorem C14_generated_run_is_model_run : forall (T : Type) (zero fill : T) from req (v : list T),
  src_ok from -> length v = nnz from -> g_run zero fill from req v = model_run zero from req v.
Proof. exact generated_run_is_model_run. Qed.
Print Assumptions C14_generated_run_is_model_run.

(* (G1) theorem (1) restated for the generated code *)
Theorem C14_generated_conversion_preserves_matrix : forall (T : Type) (zero fill : T) from req to r (v : list T),
  g_run zero fill from req v = Ok (to, r) -> valid from = true -> length v = nnz from -> values_ok zero from v ->
  exists w, r = Ok w /\ valid to = true /\ length w = nnz to
    /\ rows_of to = rows_of from /\ cols_of to = cols_of from /\ sym_of to = sym_of from
    /\ forall i j, i < rows_of from -> j < cols_of from -> sem zero to w i j = sem zero from v i j.
Proof. exact generated_conversion_preserves. Qed.
Print Assumptions C14_generated_conversion_preserves_matrix.

(* (G1') theorem (1') restated for the generated code *)
Theorem C14_generated_dense_of_preserved : forall (T : Type) (zero fill : T) from req to r (v : list T),
  g_run zero fill from req v = Ok (to, r) -> valid from = true -> length v = nnz from -> values_ok zero from v ->
  exists w, r = Ok w /\ dense_of zero to w = dense_of zero from v /\ dense_of zero from v <> None.
Proof. exact generated_dense_of_preserved. Qed.
Print Assumptions C14_generated_dense_of_preserved.

(* (G6) the wrong-triangle rejections restated for the generated scatter loops *)
Theorem C14_generated_wrong_triangle_rejected_coo : forall (T : Type) (zero fill : T) o (v : list T),
  sym_square_ok (o_sym o) (o_rows o) (o_cols o) = true -> length (o_row o) = length (o_col o) ->
  length v = nnz (SCOO o) ->
  existsb (fun k => negb (in_tri (o_sym o) (fst k) (snd k))) (coo_keys o) = true ->
  exists to, g_run zero fill (SCOO o) RDense v = Ok (to, ThrowInvalidArgument).
Proof. exact generated_wrong_triangle_rejected_coo. Qed.
Print Assumptions C14_generated_wrong_triangle_rejected_coo.

Theorem C14_generated_wrong_triangle_rejected_csc : forall (T : Type) (zero fill : T) s (v : list T),
  sym_square_ok (c_sym s) (c_rows s) (c_cols s) = true -> outer_ok s = true ->
  length v = nnz (SCSC s) ->
  existsb (fun k => negb (in_tri (c_sym s) (Z.of_nat (fst k)) (Z.of_nat (snd k)))) (csc_expand s) = true ->
  exists to, g_run zero fill (SCSC s) RDense v = Ok (to, ThrowInvalidArgument).
Proof. exact generated_wrong_triangle_rejected_csc. Qed.
Print Assumptions C14_generated_wrong_triangle_rejected_csc.

(* (G0) the dispatch over the generated pieces has an alternative for every (From, To) pair, and the translated build
        has ALPAQA_HAVE_COO_CSC_CONVERSIONS off — the build Sparsity.v models *)
Theorem C14_generated_dispatch_is_total :
  (forall a b : fmt, In (a, b) g_specialisations) /\ g_have_coo_csc_conversions = false.
Proof. exact generated_dispatch_is_total. Qed.
Print Assumptions C14_generated_dispatch_is_total.

(* ---------------------------------------------------------------- non-vacuity *)
(* upper-symmetric 3x3 CSC, unsorted column, -> Dense: hypotheses of (1) hold and the result is the mirrored matrix *)
Definition ex_csc : sparsity :=
  SCSC (mkCSC TInt 3 3 Upper [0; 1; 0; 2; 1] [0; 1; 3; 5] CscUnsorted).
Example C14_nonvacuous_csc_dense :
  valid ex_csc = true /\
  (exists to a, convert ex_csc RDense = Ok (to, a) /\
     convert_values 0%Z a [11; 22; 12; 33; 13]%Z = Ok [11; 12; 0; 12; 22; 13; 0; 13; 33]%Z) /\
  dense_of 0%Z ex_csc [11; 22; 12; 33; 13]%Z = Some (3, 3, [11; 12; 0; 12; 22; 13; 0; 13; 33]%Z).
Proof. split; [reflexivity|]. split; [eexists; eexists; split; reflexivity | reflexivity]. Qed.

(* dense upper 3x3 -> COO with first_index 1: packed upper triangle, Fortran indices *)
Example C14_nonvacuous_dense_coo :
  exists o, convert (SDense (mkDense 3 3 Upper)) (RCOO TLong (Some 1%Z)) = Ok (SCOO o, VPackUpper 3 3) /\
    o_row o = [1; 1; 2; 1; 2; 3]%Z /\ o_col o = [1; 2; 2; 3; 3; 3]%Z /\ o_first o = 1%Z /\ valid (SCOO o) = true /\
    convert_values 0%Z (VPackUpper 3 3) [1; 2; 3; 4; 5; 6; 7; 8; 9]%Z = Ok [1; 4; 5; 7; 8; 9]%Z.
Proof. eexists. repeat split. Qed.

(* hypotheses of the wrong-triangle rejection are satisfiable: entry (2,0) in an Upper COO *)
Example C14_nonvacuous_wrong_triangle :
  let o := mkCOO TInt 3 3 Upper [0; 2]%Z [0; 0]%Z CooUnsorted 0%Z in
  existsb (fun k => negb (in_tri (o_sym o) (fst k) (snd k))) (coo_keys o) = true /\
  valid (SCOO o) = false /\
  exists to, convert (SCOO o) RDense = Ok (to, VScatter Upper 3 3 (coo_keys o)) /\
             convert_values 0%Z (VScatter Upper 3 3 (coo_keys o)) [5; 6]%Z = ThrowInvalidArgument.
Proof. repeat split. eexists; split; reflexivity. Qed.

(* the generated converters on the first example: same result, the sentinel -777 nowhere left *)
Example C14_nonvacuous_generated :
  g_run 0%Z (-777)%Z ex_csc RDense [11; 22; 12; 33; 13]%Z
  = Ok (SDense (mkDense 3 3 Upper), Ok [11; 12; 0; 12; 22; 13; 0; 13; 33]%Z).
Proof. reflexivity. Qed.
