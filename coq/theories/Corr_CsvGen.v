(* Corr_CsvGen.v — byte-level translation validation of translator G14b (translate/gen_csv.py): the GENERATED member functions of
   coq/gen/CsvGen.v, run inside the row readers of CsvGenInst.v on the C++ object state, against the records of the real
   alpaqa::csv::read_row / read_row_std_vector that drv_C17 produced — the same cases and observables as Corr_C17.chk17
   (values or exception kind, bytes left, eofbit, failbit after every call); the member functions of the hand model Csv.v are
   not involved.  from_chars: fc_of_parse of the same concrete parsers as Corr_C17. *)
From Coq Require Import List Ascii String ZArith Bool Arith.
From Alpaqa Require Import Csv CsvGenLib CsvGen CsvGenInst Corr_C17.
Import ListNotations.

Fixpoint grun_calls (parse : list ascii -> option (Z * nat)) (sep : ascii) (rs : bool)
                    (calls : list (option nat)) (s : stream) : list obs :=
  match calls with
  | [] => []
  | c :: cs =>
      let (s1, r) := match c with
                     | Some n => g_read_row_impl (fc_of_parse parse) 0%Z sep n s
                     | None => g_read_row_std_vector (fc_of_parse parse) 0%Z sep s
                     end in
      let o : obs := (match r with inl e => inl (errcode e) | inr vs => inr vs end,
                      List.length (rest s1), eofb s1, failb s1) in
      let s2 := match r with inl _ => if rs then resync s1 else s1 | inr _ => s1 end in
      o :: grun_calls parse sep rs cs s2
  end.

Definition model17g (c : c17case) : list obs :=
  match c with
  | C17 kind sep data rs calls _ =>
      grun_calls (parser_of kind) sep rs calls (mkS (list_ascii_of_string data) false false)
  end.

Definition chk17g (c : c17case) : bool :=
  match c with C17 _ _ _ _ _ impl => obslist_eqb (model17g c) impl end.
