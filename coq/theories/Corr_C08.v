(* Corr_C08.v — correspondence cases for C08: the loop skeleton of Fista.v with the kernels generated from
   fista.tpp (genK), run at binary64, against the per-iteration records of the real FISTASolver (drv_C08).
   Teacher-forced: for every k the model's `step` is applied to the IMPLEMENTATION's state at k
   (x_k, x̂_{k-1}, γ_{k-1}, L_{k-1}, t_k; ψ, ∇ψ recomputed by the model from the QP data) and must reproduce the
   implementation's x̂_k, p_k, γ_k, L_k, ψ(x_k), ψ(x̂_k) and the next x_{k+1}, t_{k+1}; k = 0 starts from the model's
   own `init` (Lipschitz estimate included). *)
From Coq Require Import Floats List ZArith Bool.
From Alpaqa Require Import Num NumF Vec Prox Fista FistaGen FistaK.
Import ListNotations.

Definition lbs (l : list float) := map lb_of_float l.
Definition ubs (l : list float) := map ub_of_float l.

(* one progress-callback record: x, x̂, p, (ψ, ψ̂, γ, L, t) *)
Definition irec := (list float * list float * list float * (float * float * float * float * float))%type.

Inductive c08case :=
| CRun (Q : list (list float)) (c lb ub l1 : list float)
       (Lgam Lmin Lmax L0 eps del tol : float) (noaccel : bool) (x0 : list float) (recs : list irec).

Section Run.
  Variables (Q : list (list float)) (c lb ub l1 : list float) (P : params (T:=float)).
  Let f := qp_f Q c.
  Let gf := qp_grad Q c.
  Let fixed := fixed_lipschitz P.

  (* per record: list of agreement flags [x̂; p; γ; L; ψ; ψ̂; next x; next t] *)
  Fixpoint go (recs : list irec) (gam_in L_in : float) (xh_prev : list float) : list (list bool) :=
    match recs with
    | [] => []
    | r :: rest =>
        let '(x, xh, p, (psi, psih, gam, L, t)) := r in
        let s := mkState x xh_prev (f x) (gf x) gam_in L_in t in
        match step genK f gf (lbs lb) (ubs ub) l1 P 80 s with
        | None => [[false]]
        | Some (s', o, nbt) =>
            [ vfeq (o_xh o) xh; vfeq (o_p o) p; feq (s_gam s') gam; feq (s_L s') L;
              fixed || feq (f x) psi; fixed || feq (o_psih o) psih;
              match rest with [] => true | (x2, _, _, _) :: _ => vfeq (s_x s') x2 end;
              match rest with [] => true | (_, _, _, (_, _, _, _, t2)) :: _ => feq (s_t s') t2 end ]
            :: go rest gam L xh
        end
    end.

  Definition run_flags (x0 : list float) (recs : list irec) : list (list bool) :=
    match init genK f gf P x0 with
    | None => [[false]]
    | Some s0 =>
        match recs with
        | [] => []
        | (x, _, _, (_, _, _, _, t)) :: _ =>
            [vfeq x x0; feq t 1%float] :: go recs (s_gam s0) (s_L s0) (s_xh s0)
        end
    end.
End Run.

Definition model08 (cs : c08case) : list (list bool) :=
  match cs with
  | CRun Q c lb ub l1 Lgam Lmin Lmax L0 eps del tol noaccel x0 recs =>
      run_flags Q c lb ub l1 (Build_params Lgam Lmin Lmax L0 eps del tol noaccel) x0 recs
  end.

Definition chk08 (cs : c08case) : bool := forallb (forallb (fun b => b)) (model08 cs).

(* debugging aid: the model's own numbers for the first record *)
Definition dump08 (cs : c08case) :=
  match cs with
  | CRun Q c lb ub l1 Lgam Lmin Lmax L0 eps del tol noaccel x0 recs =>
      let P := Build_params Lgam Lmin Lmax L0 eps del tol noaccel in
      (model08 cs,
       match init genK (qp_f Q c) (qp_grad Q c) P x0 with
       | None => None
       | Some s0 => match step genK (qp_f Q c) (qp_grad Q c) (lbs lb) (ubs ub) l1 P 80 s0 with
                    | None => None
                    | Some (s', o, nbt) => Some (s_gam s0, s_L s0, o_xh o, o_p o, s_gam s', s_L s', s_x s', s_t s', nbt)
                    end
       end)
  end.
