(* ZeroFprProofs.v — loop invariants of the whole-run ZeroFPR model (ZeroFpr.v), over R, for every problem oracle, direction
   oracle, stop / time oracle and parameter set.  Mirrors PanocProofs.v and re-uses its variable-free notions (core, halved, safe_of,
   qub_ok, cons_step, glrel0, link, desc, chain) and lemmas. *)
From Coq Require Import Reals List ZArith Lra Lia Bool Arith Psatz.
From Flocq Require Import Raux.
From Alpaqa Require Import Num NumR Vec Prox ProxProofs ProxVec SolverStatus SolverKernels SolverKernelsProofs DescentProofs
                           StopChain StopChainProofs LoopSkeleton KktProofs Panoc PanocProofs ZeroFpr.
Import ListNotations.
Local Open Scope R_scope.

Section Proofs.
  Variable psi_grad_full : list R -> R * list R * list R.
  Variable psi_yhat : list R -> R * list R.
  Variable grad_L : list R -> list R -> list R.
  Variable grad_psi : list R -> list R.
  Variables (lb ub : list (option R)) (l1 : list R).
  Variable dir_apply : nat -> iterate (T:=R) -> proxit (T:=R) -> option (list R).
  Variable has_initial : bool.
  Variable stop_req : counters -> bool.
  Variable time_up : counters -> bool.
  Variable P : params (T:=R).
  Variables (x_in y_in Σ errz_in : list R).
  Variable ls_fuel : nat.
  Set Default Proof Using "All".

  Notation it := (iterate (T:=R)).
  Notation px := (proxit (T:=R)).
  Notation eprox := (eval_prox lb ub l1).
  Notation ecost := (eval_cost psi_yhat).
  Notation proxof := (eval_prox_it grad_L lb ub l1).
  Notation lsloop := (ls_loop psi_grad_full psi_yhat lb ub l1 stop_req P).
  Notation pass_ := (pass psi_grad_full psi_yhat grad_L lb ub l1 dir_apply has_initial stop_req time_up P x_in y_in Σ errz_in ls_fuel).
  Notation loop_ := (loop psi_grad_full psi_yhat grad_L lb ub l1 dir_apply has_initial stop_req time_up P x_in y_in Σ errz_in ls_fuel).
  Notation zerofpr_ := (zerofpr psi_grad_full psi_yhat grad_L grad_psi lb ub l1 dir_apply has_initial stop_req time_up P x_in y_in Σ errz_in ls_fuel).
  Notation pgrad := (psi_grad psi_grad_full).
  Notation qubv := (it_qub_violated P).
  Notation Glrel0 := (glrel0 psi_grad_full grad_psi P x_in).
  Notation Linit := (L_init psi_grad_full grad_psi P x_in).
  Notation Cstep := (cons_step lb ub l1).
  Notation Qok := (qub_ok P).

  (* ------------------------------------------------------------------ the consistency invariant *)
  (* (ψ, ∇ψ) at x: from eval_ψ_grad_ψ(x), or carried over from the x̂-side of the previous iterate (take_safe_step):
     ψ(x̂) from eval_ψ and ∇ψ(x̂) = eval_grad_L(x̂, ŷ) held by the prox iterate *)
  Definition zval_x (x : list R) (ψ : R) (g : list R) : Prop :=
    (ψ, g) = pgrad x \/ (ψ = fst (psi_yhat x) /\ g = grad_L x (snd (psi_yhat x))).
  Definition zcons_x (i : it) : Prop := zval_x (ix i) (ipsi i) (igrad i).
  Definition zcons_hat (i : it) : Prop := (ipsih i, iyh i) = psi_yhat (ixh i).
  Definition zconsistent (i : it) : Prop := zcons_x i /\ Cstep i /\ zcons_hat i.

  Lemma zconsistent_core (a b : it) : core a = core b -> zconsistent a -> zconsistent b.
  Proof.
    intros E (Hx & Hs & Hh). apply (core_fields psi_grad_full psi_yhat grad_L grad_psi lb ub l1 (fun _ _ => None) has_initial stop_req time_up P x_in y_in Σ errz_in ls_fuel) in E.
    destruct E as (E1 & E2 & E3 & E4 & E5 & E6 & E7 & E8 & E9 & E10 & E11 & E12).
    unfold zconsistent, zcons_x, cons_step, zcons_hat in *.
    rewrite <- E1, <- E2, <- E3, <- E4, <- E5, <- E6, <- E7, <- E8, <- E10, <- E11, <- E12. tauto.
  Qed.

  (* the prox iterate of the loop top, spelled out *)
  Lemma prox_explicit (i : it) :
    let p := proxof i in
    px_grad p = grad_L (ixh i) (iyh i) /\
    eval_prox_grad_step lb ub l1 (igam i) (ixh i) (px_grad p) = (px_xh p, px_p p, px_h p) /\
    px_xh p = vadd (ixh i) (px_p p) /\
    px_pp p = vsqnorm (px_p p) /\ px_gp p = vdot (px_p p) (px_grad p).
  Proof.
    cbv zeta. unfold eval_prox_it, prox_step_in_prox. cbn [px_grad px_xh px_p px_h px_pp px_gp].
    split; [reflexivity|]. split; [destruct (eval_prox_grad_step _ _ _ _ _ _) as [[a b] c]; reflexivity|].
    split; [apply (prox_xh_is_x_plus_p psi_grad_full psi_yhat grad_L grad_psi lb ub l1 (fun _ _ => None) has_initial stop_req time_up P x_in y_in Σ errz_in ls_fuel)|split; reflexivity].
  Qed.

  Lemma zeprox_cons (i : it) : zcons_x i -> zcons_x (eprox i) /\ Cstep (eprox i).
  Proof.
    intros Hx. split; [exact Hx|]. unfold cons_step, eval_prox; cbn [ix ixh igrad ip ih igam ipp igp].
    repeat split. destruct (eval_prox_grad_step lb ub l1 (igam i) (ix i) (igrad i)) as [[a b] c]; reflexivity.
  Qed.
  Lemma ecost_cons (i : it) : zcons_x i -> Cstep i -> zconsistent (ecost i).
  Proof.
    intros Hx Hs. unfold zconsistent, zcons_x, cons_step, zcons_hat, eval_cost in *.
    cbn [ix ixh igrad ip ih igam ipp igp ipsi ipsih iyh]. repeat split; try tauto. destruct (psi_yhat (ixh i)); reflexivity.
  Qed.
  Lemma ecost_fields (i : it) :
    ix (ecost i) = ix i /\ ipsi (ecost i) = ipsi i /\ igrad (ecost i) = igrad i /\ igam (ecost i) = igam i /\ iL (ecost i) = iL i.
  Proof. repeat split. Qed.

  (* ------------------------------------------------------------------ line search (curr and prox are read-only) *)
  Record LsI (c0 : it) (s : ls_state (T:=R)) : Prop := {
    li_gl : halved c0 (ls_next s);
    li_J : ls_tau s = ls_tau_prev s -> zcons_x (ls_next s) /\ (ls_tau s = 0 -> safe_of c0 (ls_next s)) }.
  Record LsPost (c0 : it) (s : ls_state (T:=R)) : Prop := {
    lp_next : zconsistent (ls_next s);
    lp_gl : halved c0 (ls_next s);
    lp_qub : Qok (ls_next s);
    lp_ls : Rlt_bool 0 (ls_tau s) = true -> it_ls_violated P c0 (ls_next s) = false;
    lp_safe : ls_tau s = 0 -> safe_of c0 (ls_next s) }.

  Lemma ls_invariant c0 q τi : zconsistent c0 -> forall fuel s, LsI c0 s ->
    match lsloop fuel c0 (proxof c0) q τi s with
    | LsDone s' => LsPost c0 s'
    | LsStopped s' => True
    | LsFuel => True
    end.
  Proof.
    intros Hc0. induction fuel as [|fuel IH]; intros s HI; [exact I|].
    cbn [ls_loop]. destruct (stop_req (ls_cnt s)); [exact I|].
    change (@nltb R NumR) with Rlt_bool. change (@neqb R NumR) with Req_bool. change (@nleb R NumR) with Rle_bool.
    change (@n0 R NumR) with 0. change (@n1 R NumR) with 1.
    set (τ := ls_tau s) in *.
    set (ph := if Req_bool τ (ls_tau_prev s) then (ls_next s, inc_polls (ls_cnt s))
               else if Req_bool τ 0 then (take_safe_step c0 (proxof c0) (ls_next s), inc_polls (ls_cnt s))
               else (take_accel_step psi_grad_full τ q c0 (ls_next s), inc_pg (inc_polls (ls_cnt s)))).
    assert (F : halved c0 (fst ph) /\ zcons_x (fst ph) /\ (τ = 0 -> safe_of c0 (fst ph))).
    { subst ph. destruct HI as [Hgl HJ]. destruct (Req_bool_spec τ (ls_tau_prev s)) as [Et|Et].
      - cbn [fst]. destruct (HJ Et) as [Hx Hs]. split; [exact Hgl|split; [exact Hx|exact Hs]].
      - destruct (Req_bool_spec τ 0) as [E0|E0]; cbn [fst].
        + split; [destruct Hgl as [j Ej]; exists j; exact Ej|]. split.
          * unfold zcons_x, zval_x, take_safe_step, eval_prox_it, prox_step_in_prox. cbn [ix ipsi igrad px_grad]. right.
            destruct Hc0 as (_ & _ & Hh). unfold zcons_hat in Hh. rewrite <- Hh. cbn [fst snd]. split; reflexivity.
          * intros _. split; reflexivity.
        + split; [destruct Hgl as [j Ej]; exists j; exact Ej|]. split.
          * unfold zcons_x, zval_x, take_accel_step, eval_psi_grad. cbn [ix ipsi igrad]. left. destruct (pgrad _); reflexivity.
          * intros E; contradiction. }
    destruct ph as [next c1]. cbn [fst snd] in F. destruct F as (Fgl & Fx & Fs).
    match goal with |- context [if ?b then lsloop fuel c0 _ q τi ?s1 else _] => destruct b eqn:Efail; [apply (IH s1)|] end.
    { constructor; cbn [ls_next ls_tau ls_tau_prev].
      - exists 0%nat. reflexivity.
      - intros E0. exfalso. apply andb_prop in Efail. destruct Efail as [Hpos _]. apply Rlt_bool_iff in Hpos. subst τ. lra. }
    set (next1 := ecost (eprox next)).
    assert (N1 : zconsistent next1 /\ gl_of next1 = gl_of next /\ ix next1 = ix next /\ ipsi next1 = ipsi next).
    { subst next1. destruct (zeprox_cons next Fx) as [Hx Hs]. split; [apply ecost_cons; assumption|]. repeat split. }
    destruct N1 as (Nc & Ngl & Nx & Npsi).
    assert (Fx1 : zcons_x next1) by apply Nc.
    assert (Fs1 : τ = 0 -> safe_of c0 next1).
    { intros E. destruct (Fs E) as [A0 B0]. unfold safe_of. now rewrite Nx, Npsi. }
    assert (Fgl1 : halved c0 next1) by (destruct Fgl as [j Ej]; exists j; now rewrite Ngl).
    match goal with |- context [if ?b then lsloop fuel c0 _ q τi ?s1 else _] => destruct b eqn:Equb; [apply (IH s1)|] end.
    { constructor; cbn [ls_next ls_tau ls_tau_prev].
      - apply (halved_step psi_grad_full psi_yhat grad_L grad_psi lb ub l1 (fun _ _ => None) has_initial stop_req time_up P x_in y_in Σ errz_in ls_fuel c0 next1 Fgl1). apply (halve_it_gl psi_grad_full psi_yhat grad_L grad_psi lb ub l1 (fun _ _ => None) has_initial stop_req time_up P x_in y_in Σ errz_in ls_fuel).
      - intros E. split; [exact Fx1|]. intros E0. destruct (Rlt_bool_spec 0 τ) as [Hp|Hp]; [exfalso; lra|apply Fs1; exact E0]. }
    match goal with |- context [if ?b then lsloop fuel c0 _ q τi ?s1 else LsDone ?s2] => destruct b eqn:Els; [apply (IH s1)|] end.
    { constructor; cbn [ls_next ls_tau ls_tau_prev].
      - exact Fgl1.
      - intros E. split; [exact Fx1|]. intros E0. apply Fs1.
        apply andb_prop in Els. destruct Els as [Hpos _]. apply Rlt_bool_iff in Hpos. exfalso. lra. }
    constructor; cbn [ls_next ls_tau ls_tau_prev].
    - exact Nc.
    - exact Fgl1.
    - exact Equb.
    - intros Hp. rewrite Hp in Els. exact Els.
    - exact Fs1.
  Qed.

  (* ------------------------------------------------------------------ the outer loop *)
  (* what is known about one progress-callback record (r_it = curr with igradh := prox->grad_ψ) *)
  Definition zrec_ok (r : cbrec (T:=R)) : Prop :=
    let i := r_it r in
    zcons_x i /\ Glrel0 i /\ (r_k r <= p_max_iter P)%nat /\ igradh i = grad_L (ixh i) (iyh i) /\
    ((p_recompute P = false \/ r_status r <> StBusy) -> Cstep i /\ zcons_hat i /\ Qok i).

  Record Inv (s : lstate (T:=R)) : Prop := {
    iv_cons : zconsistent (st_curr s);
    iv_qub : Qok (st_curr s);
    iv_gl : Glrel0 (st_curr s);
    iv_k : (st_k s <= p_max_iter P)%nat;
    iv_log : Forall zrec_ok (st_log s);
    iv_chain : chain P (st_log s);
    iv_link : match st_log s with r :: _ => link P r (st_k s) (st_curr s) | [] => st_k s = 0%nat end }.

  Record PostW (po_cf : it) (po_cnt : counters) (po_np : nat) (o : outputs (T:=R)) : Prop := {
    po_cons : zconsistent po_cf;
    po_qub : Qok po_cf;
    po_gl : Glrel0 po_cf;
    po_final : out_final o = po_cf;
    po_eps : out_eps o = zit_eps lb ub l1 P po_cf (proxof po_cf);
    po_status : out_status o = stop_status_helpers (o_tol P) (out_eps o) (time_up po_cnt) (out_iterations o) (p_max_iter P)
                                                   po_np (p_max_no_progress P) (stop_req po_cnt);
    po_notbusy : out_status o <> StBusy;
    po_iter : (out_iterations o <= p_max_iter P)%nat;
    po_exit : (out_x o, out_y o, out_errz o) =
              exit_block (out_status o) (o_always P) x_in y_in errz_in (ixh po_cf) (iyh po_cf) Σ;
    po_log : Forall zrec_ok (out_log o);
    po_chain : chain P (rev (out_log o));
    po_last : hd_error (rev (out_log o)) =
              Some (mkCb (out_iterations o) (with_gradh po_cf (px_grad (proxof po_cf))) [] (- 1) (out_eps o) (out_status o)) }.
  Definition Post (o : outputs (T:=R)) : Prop := exists cf cnt np, PostW cf cnt np o.

  Lemma with_gradh_core (i : it) g : core (with_gradh i g) = core i.
  Proof. reflexivity. Qed.

  Lemma pass_inv (s : lstate (T:=R)) : Inv s ->
    match pass_ s with PCont s' => Inv s' | PExit o => Post o | PFuel => True end.
  Proof.
    intros [Hc Hq Hgl Hk Hlog Hch Hlk]. unfold pass. cbv zeta.
    change (@n0 R NumR) with 0. change (@n1 R NumR) with 1. change (@nopp R NumR) with Ropp.
    set (curr := st_curr s) in *. set (prox := proxof curr).
    set (c0 := inc_gl (st_cnt s)).
    set (ε := zit_eps lb ub l1 P curr prox). set (k := st_k s) in *.
    assert (Hrec : forall st, st <> StBusy -> zrec_ok (mkCb k (with_gradh curr (px_grad prox)) [] (- 1) ε st)).
    { intros st Hst. unfold zrec_ok; cbn [r_it r_k r_status]. split; [apply Hc|]. split; [exact Hgl|]. split; [exact Hk|].
      split; [reflexivity|]. intros _. split; [apply Hc|split; [apply Hc|exact Hq]]. }
    destruct (stop_status_helpers (o_tol P) ε (time_up c0) k (p_max_iter P) (st_np s) (p_max_no_progress P) (stop_req c0)) eqn:Est.
    2-8: match goal with |- context [exit_block ?st _ _ _ _ _ _ _] =>
           destruct (exit_block st (o_always P) x_in y_in errz_in (ixh curr) (iyh curr) Σ) as [[xo yo] eo] eqn:Eex;
           exists curr, c0, (st_np s); constructor; cbn [out_status out_iterations out_eps out_x out_y out_errz out_final out_log];
           [exact Hc|exact Hq|exact Hgl|reflexivity|reflexivity|now rewrite Est|discriminate|exact Hk
           |now rewrite Eex
           |apply Forall_rev; constructor; [apply Hrec; discriminate|exact Hlog]
           |rewrite rev_involutive; cbn [chain]; split; [|exact Hch]; destruct (st_log s) as [|r tl]; [exact I|];
            unfold desc; cbn [r_k r_it]; apply (link_core psi_grad_full psi_yhat grad_L grad_psi lb ub l1 (fun _ _ => None) has_initial stop_req time_up P x_in y_in Σ errz_in ls_fuel r _ curr); [reflexivity|exact Hlk]
           |rewrite rev_involutive; reflexivity]
         end.
    apply busy_iff in Est. destruct Est as (_ & _ & Hne & _).
    set (c2 := if (k =? 0)%nat then inc_dir (inc_polls c0) else inc_polls c0).
    set (use_dir := (0 <? k)%nat || has_initial).
    set (r := if use_dir then dir_apply (c_apply c2) curr prox else None).
    set (q := match r with Some q' => q' | None => st_q s end).
    set (τi := match r with Some q' => if vall_finite q' then 1 else 0 | None => 0 end).
    match goal with |- context [lsloop ls_fuel curr prox q τi ?l0] => set (ls0 := l0) end.
    assert (HI : LsI curr ls0).
    { subst ls0. constructor; cbn [ls_next ls_tau ls_tau_prev].
      - exists 0%nat. reflexivity.
      - intros E. exfalso. destruct (tau_init_cases psi_grad_full psi_yhat grad_L grad_psi lb ub l1 (fun _ _ => None) has_initial stop_req time_up P x_in y_in Σ errz_in ls_fuel r) as [E0|E0]; fold τi in E0; lra. }
    pose proof (ls_invariant curr q τi Hc ls_fuel ls0 HI) as Hls. fold prox in Hls.
    destruct (lsloop ls_fuel curr prox q τi ls0) as [l|l|]; [| |exact I].
    - destruct Hls as [Ln Lgl Lq Lls Lsafe].
      set (nxt := ls_next l) in *. set (τ := ls_tau l) in *.
      match goal with |- Inv (mkSt _ ?c2' _ _ _ _ _ (?rc :: _)) => set (curr2 := c2'); set (rec := rc) end.
      assert (H2 : (p_recompute P = false -> curr2 = curr) /\ zcons_x curr2 /\
                   ixh curr2 = ixh curr /\ iyh curr2 = iyh curr /\
                   (gl_of curr2 = gl_of curr \/ gl_of curr2 = gl_of nxt)).
      { subst curr2. destruct (negb (ls_updated l) && negb (neqb (igam curr) (igam nxt)) && p_recompute P) eqn:Eb.
        - apply andb_prop in Eb. destruct Eb as [_ Er]. split; [intros E; rewrite E in Er; discriminate|].
          split; [apply Hc|]. split; [reflexivity|]. split; [reflexivity|]. right. reflexivity.
        - split; [reflexivity|]. split; [apply Hc|]. split; [reflexivity|]. split; [reflexivity|]. left. reflexivity. }
      destruct H2 as (Hrc & H2x & H2xh & H2yh & H2gl).
      assert (Hh2 : halved curr2 nxt).
      { destruct H2gl as [E|E]; [destruct Lgl as [j Ej]; exists j; now rewrite E|exists 0%nat; now rewrite E]. }
      assert (Hh1 : halved curr curr2).
      { destruct H2gl as [E|E]; [exists 0%nat; now rewrite E|destruct Lgl as [j Ej]; exists j; now rewrite E]. }
      assert (Hg2 : Glrel0 curr2) by (apply (glrel0_halved psi_grad_full psi_yhat grad_L grad_psi lb ub l1 (fun _ _ => None) has_initial stop_req time_up P x_in y_in Σ errz_in ls_fuel curr); assumption).
      constructor; cbn [st_curr st_k st_log].
      + exact Ln.
      + exact Lq.
      + apply (glrel0_halved psi_grad_full psi_yhat grad_L grad_psi lb ub l1 (fun _ _ => None) has_initial stop_req time_up P x_in y_in Σ errz_in ls_fuel curr); assumption.
      + lia.
      + constructor; [|exact Hlog]. unfold zrec_ok; subst rec; cbn [r_it r_k r_status].
        split; [exact H2x|]. split; [exact Hg2|]. split; [exact Hk|].
        split; [unfold with_gradh; cbn [igradh ixh iyh]; rewrite H2xh, H2yh; reflexivity|].
        intros [Er|Er]; [|contradiction]. rewrite (Hrc Er). split; [apply Hc|split; [apply Hc|exact Hq]].
      + cbn [chain]. split; [|exact Hch]. destruct (st_log s) as [|r0 tl]; [exact I|].
        unfold desc; subst rec; cbn [r_k r_it]. destruct Hlk as (K1 & K2 & K3 & K4).
        split; [exact K1|]. split; [exact K2|]. split.
        { apply (halved_trans psi_grad_full psi_yhat grad_L grad_psi lb ub l1 (fun _ _ => None) has_initial stop_req time_up P x_in y_in Σ errz_in ls_fuel _ curr); [exact K3|]. exact Hh1. }
        intros Er. rewrite (Hrc Er). destruct (K4 Er) as [K5 K6]. split.
        * intros Hp. rewrite <- (ls_violated_core psi_grad_full psi_yhat grad_L grad_psi lb ub l1 (fun _ _ => None) has_initial stop_req time_up P x_in y_in Σ errz_in ls_fuel (r_it r0) (r_it r0) curr (with_gradh curr (px_grad prox)) eq_refl); [now apply K5|reflexivity].
        * intros H0. apply (safe_of_core psi_grad_full psi_yhat grad_L grad_psi lb ub l1 (fun _ _ => None) has_initial stop_req time_up P x_in y_in Σ errz_in ls_fuel (r_it r0) (r_it r0) curr (with_gradh curr (px_grad prox)) eq_refl); [reflexivity|now apply K6].
      + unfold link; subst rec; cbn [r_status r_k r_it r_tau]. split; [reflexivity|]. split; [reflexivity|]. split.
        { apply (halved_core_l psi_grad_full psi_yhat grad_L grad_psi lb ub l1 (fun _ _ => None) has_initial stop_req time_up P x_in y_in Σ errz_in ls_fuel curr2); [reflexivity|exact Hh2]. }
        intros Er. rewrite (Hrc Er). split.
        * intros Hp. rewrite (ls_violated_core psi_grad_full psi_yhat grad_L grad_psi lb ub l1 (fun _ _ => None) has_initial stop_req time_up P x_in y_in Σ errz_in ls_fuel (with_gradh curr (px_grad prox)) curr nxt nxt); [now apply Lls|reflexivity|reflexivity].
        * intros H0. apply (safe_of_core psi_grad_full psi_yhat grad_L grad_psi lb ub l1 (fun _ _ => None) has_initial stop_req time_up P x_in y_in Σ errz_in ls_fuel curr (with_gradh curr (px_grad prox)) nxt nxt); [reflexivity|reflexivity|now apply Lsafe].
    - constructor; cbn [st_curr st_k st_log]; assumption.
  Qed.

  Lemma loop_inv : forall fuel s o, Inv s -> loop_ fuel s = Done o -> Post o.
  Proof.
    induction fuel as [|fuel IH]; intros s o HI; cbn [loop]; [discriminate|].
    pose proof (pass_inv s HI) as Hp. destruct (pass_ s) as [o'|s'|].
    - intros E. inversion E. subst. exact Hp.
    - apply IH. exact Hp.
    - discriminate.
  Qed.

  Notation initqub := (ZeroFpr.init_qub psi_yhat lb ub l1 P).
  Lemma init_qub_inv : forall fuel i c st i' c' st', zconsistent i -> Glrel0 i ->
    initqub fuel i c st = Some (i', c', st') -> zconsistent i' /\ Glrel0 i' /\ Qok i'.
  Proof.
    induction fuel as [|fuel IH]; intros i c st i' c' st' Hc Hg; cbn [ZeroFpr.init_qub];
      change (@nltb R NumR) with Rlt_bool;
      destruct (Rlt_bool (iL i) (p_Lmax P) && qubv i) eqn:Eq; try discriminate.
    1,3: intros E; inversion E; subst; split; [exact Hc|split; [exact Hg|exact Eq]].
    apply IH.
    - destruct (zeprox_cons (halve_it i)) as [A0 B0]; [apply Hc|]. apply ecost_cons; assumption.
    - destruct Hg as [j Ej]. exists (S j). cbn [halve_n]. rewrite <- Ej, <- (halve_it_gl psi_grad_full psi_yhat grad_L grad_psi lb ub l1 (fun _ _ => None) has_initial stop_req time_up P x_in y_in Σ errz_in ls_fuel). reflexivity.
  Qed.

  Notation initL := (init_L psi_grad_full grad_psi P x_in).
  Definition first_iterate (i0 : it) : it := ecost (eprox (set_gamma_L i0 (p_Lgamma P / iL i0) (iL i0))).
  Lemma init_L_zcons_x : zcons_x (fst initL).
  Proof.
    unfold init_L. cbv zeta. destruct (nleb (p_L0 P) n0); cbn [fst]; unfold zcons_x, zval_x; cbn [ix ipsi igrad];
      left; destruct (pgrad x_in); reflexivity.
  Qed.
  Lemma init_inv i0 c0 i3 c1 s1 : initL = (i0, c0) ->
    initqub ls_fuel (first_iterate i0) (inc_py c0) stats0 = Some (i3, c1, s1) ->
    Inv (mkSt i3 it_blank 0 0 [] c1 s1 []).
  Proof.
    intros E0 Eq. pose proof init_L_zcons_x as Hx0.
    assert (HL : Linit = iL i0) by (unfold L_init; now rewrite E0).
    rewrite E0 in Hx0. cbn [fst] in Hx0. unfold first_iterate in Eq.
    set (i1 := set_gamma_L i0 (p_Lgamma P / iL i0) (iL i0)) in *.
    destruct (zeprox_cons i1) as [A0 B0]; [exact Hx0|].
    pose proof (ecost_cons _ A0 B0) as Hc2.
    assert (Hg2 : Glrel0 (ecost (eprox i1))).
    { exists 0%nat. cbn [halve_n]. unfold gl_of, gl0. rewrite HL. reflexivity. }
    destruct (init_qub_inv _ _ _ _ _ _ _ Hc2 Hg2 Eq) as (H1 & H2 & H3).
    constructor; cbn [st_curr st_k st_log]; try assumption; try constructor; try lia.
  Qed.

  Theorem zerofpr_post fuel o : zerofpr_ fuel = Done o -> Post o.
  Proof.
    unfold zerofpr. destruct initL as [i0 c0] eqn:E0.
    destruct (negb (nfinite (iL i0))); [discriminate|].
    change (@ndiv R NumR) with Rdiv. fold (first_iterate i0).
    destruct (initqub ls_fuel (first_iterate i0) (inc_py c0) stats0) as [[[i3 c1] s1]|] eqn:Eq; [|discriminate].
    apply loop_inv. exact (init_inv _ _ _ _ _ E0 Eq).
  Qed.

  Inductive reachable : lstate (T:=R) -> Prop :=
  | reach_init i0 c0 i3 c1 s1 : initL = (i0, c0) ->
      initqub ls_fuel (first_iterate i0) (inc_py c0) stats0 = Some (i3, c1, s1) ->
      reachable (mkSt i3 it_blank 0 0 [] c1 s1 [])
  | reach_step s s' : reachable s -> pass_ s = PCont s' -> reachable s'.
  Theorem reachable_inv s : reachable s -> Inv s.
  Proof.
    induction 1 as [i0 c0 i3 c1 s1 E0 Eq|s s' _ IH Ep]; [exact (init_inv _ _ _ _ _ E0 Eq)|].
    pose proof (pass_inv s IH) as Hp. now rewrite Ep in Hp.
  Qed.
  (* at EVERY stop check: the current iterate is consistent (and its prox iterate is, by prox_explicit, the prox step at x̂ with
     ∇ψ(x̂) = eval_grad_L(x̂, ŷ)), satisfies QUB or L >= L_max, (γ, L) from the initial pair by halvings, k <= max_iter *)
  Theorem reachable_check s : reachable s ->
    zconsistent (st_curr s) /\ Qok (st_curr s) /\ Glrel0 (st_curr s) /\ (st_k s <= p_max_iter P)%nat.
  Proof. intros Hr. destruct (reachable_inv s Hr). tauto. Qed.

  (* ------------------------------------------------------------------ reading the invariant *)
  Definition zcoherent : Prop := forall x, pgrad x = (fst (psi_yhat x), grad_L x (snd (psi_yhat x))).
  Lemma zconsistent_explicit (i : it) : zconsistent i ->
    ixh i = vadd (ix i) (ip i) /\
    eval_prox_grad_step lb ub l1 (igam i) (ix i) (igrad i) = (ixh i, ip i, ih i) /\
    ipp i = vsqnorm (ip i) /\ igp i = vdot (ip i) (igrad i) /\
    (ipsih i, iyh i) = psi_yhat (ixh i) /\ zval_x (ix i) (ipsi i) (igrad i).
  Proof.
    intros (Hx & Hs & Hh). split; [apply (cons_step_xh psi_grad_full psi_yhat grad_L grad_psi lb ub l1 (fun _ _ => None) has_initial stop_req time_up P x_in y_in Σ errz_in ls_fuel), Hs|]. destruct Hs as (S1 & S2 & S3). tauto.
  Qed.
  Lemma zconsistent_coherent (i : it) : zcoherent -> zconsistent i ->
    (ipsi i, igrad i) = pgrad (ix i) /\ px_grad (proxof i) = snd (pgrad (ixh i)).
  Proof.
    intros Hco (Hx & _ & Hh). split.
    - destruct Hx as [E|[E1 E2]]; [exact E|]. rewrite E1, E2, (Hco (ix i)). reflexivity.
    - unfold eval_prox_it, prox_step_in_prox; cbn [px_grad]. rewrite (Hco (ixh i)). unfold zcons_hat in Hh. rewrite <- Hh. reflexivity.
  Qed.

  (* ------------------------------------------------------------------ descent (constants of C05) *)
  Lemma zdesc_safe (r r' : cbrec (T:=R)) : desc P r r' -> zrec_ok r -> zrec_ok r' -> p_recompute P = false -> l1 = [] ->
    r_tau r = 0 -> iL (r_it r) < p_Lmax P -> 0 < igam (r_it r) -> 0 < igam (r_it r') ->
    length ub = length lb -> length (ix (r_it r)) = length lb -> length (igrad (r_it r)) = length lb ->
    length (igrad (r_it r')) = length lb -> Forall2 box_ne lb ub ->
    let a := r_it r in
    it_fbe (r_it r') <= it_fbe a - (1 - igam a * iL a) / (2 * igam a) * ipp a + (1 + Rabs (ipsi a)) * p_qub_tol P.
  Proof.
    intros (_ & _ & _ & H) (Ax & _ & _ & _ & Ag) (Bx & _ & _ & _ & Bg) Hr Hl1 Ht HL Hga Hgb Hub Hlx Hlg Hlg' Hne a.
    destruct (H Hr) as [_ Hsafe]. destruct (Hsafe Ht) as [Sx Sp].
    destruct (Ag (or_introl Hr)) as (As & _ & Aq). destruct (Bg (or_introl Hr)) as (Bs & _ & _).
    subst a. set (a := r_it r) in *. set (b := r_it r') in *.
    unfold cons_step in As, Bs. rewrite Hl1 in As, Bs. cbn [eval_prox_grad_step] in As, Bs.
    destruct As as (As1 & As2 & As3). destruct Bs as (Bs1 & Bs2 & Bs3).
    assert (Eap : ip a = snd (fst (proj_grad_step lb ub (igam a) (ix a) (igrad a)))) by (now rewrite As1).
    assert (Eaxh : ixh a = fst (fst (proj_grad_step lb ub (igam a) (ix a) (igrad a)))) by (now rewrite As1).
    assert (Eah : ih a = 0) by (pose proof (f_equal snd As1) as Hh; unfold proj_grad_step in Hh; cbn [snd] in Hh; symmetry; exact Hh).
    assert (Ebp : ip b = snd (fst (proj_grad_step lb ub (igam b) (ixh a) (igrad b)))) by (rewrite <- Sx; now rewrite Bs1).
    assert (Ebh : ih b = 0) by (pose proof (f_equal snd Bs1) as Hh; unfold proj_grad_step in Hh; cbn [snd] in Hh; symmetry; exact Hh).
    assert (Hlen : length (ixh a) = length lb).
    { rewrite Eaxh. apply (proj_grad_step_length lb ub (igam a) (ix a) (igrad a) (length lb)); auto. }
    assert (Hbox : all_in_box lb ub (ixh a)) by (rewrite Eaxh; apply (proj_step_all_in_box psi_grad_full psi_yhat grad_L grad_psi lb ub l1 (fun _ _ => None) has_initial stop_req time_up P x_in y_in Σ errz_in ls_fuel); assumption).
    assert (Hqv : qub_violated (ipsi a) (ipsih a) (vdot (igrad a) (ip a)) (iL a) (vsqnorm (ip a)) (p_qub_tol P) = false).
    { unfold qub_ok, it_qub_violated in Aq. rewrite As2, As3, (vdot_comm psi_grad_full psi_yhat grad_L grad_psi lb ub l1 (fun _ _ => None) has_initial stop_req time_up P x_in y_in Σ errz_in ls_fuel (ip a)) in Aq.
      destruct (Rlt_bool_spec (iL a) (p_Lmax P)); [exact Aq|lra]. }
    rewrite Eap in Hqv.
    pose proof (safe_step_envelope_descent lb ub (igam a) (igam b) (iL a) (p_qub_tol P) (ix a) (igrad a) (ixh a) (igrad b) (ipsi a) (ipsih a)
                  Hga Hgb ltac:(now rewrite Hlen) ltac:(now rewrite Hlen, Hub) ltac:(now rewrite Hlen, Hlg') Hbox Hqv) as Hd.
    cbv zeta in Hd. rewrite <- Ebp, <- Eap in Hd.
    unfold it_fbe. rewrite Ebh, Eah, Bs2, Bs3, As2, As3, Sp, (vdot_comm psi_grad_full psi_yhat grad_L grad_psi lb ub l1 (fun _ _ => None) has_initial stop_req time_up P x_in y_in Σ errz_in ls_fuel (ip b)), (vdot_comm psi_grad_full psi_yhat grad_L grad_psi lb ub l1 (fun _ _ => None) has_initial stop_req time_up P x_in y_in Σ errz_in ls_fuel (ip a)). exact Hd.
  Qed.

  (* ------------------------------------------------------------------ status, exit, contract *)
  Theorem zerofpr_status_clauses fuel o : zerofpr_ fuel = Done o ->
    (out_iterations o <= p_max_iter P)%nat /\
    out_status o <> StBusy /\
    (out_status o = StMaxIter -> out_iterations o = p_max_iter P) /\
    (out_status o = StConverged <-> out_eps o <= eff_tol (o_tol P)) /\
    (out_status o = StInterrupted -> exists c, stop_req c = true) /\
    (out_status o = StMaxTime -> exists c, time_up c = true) /\
    (out_status o = StNoProgress -> exists np, (p_max_no_progress P < np)%nat).
  Proof.
    intros Hr. destruct (zerofpr_post fuel o Hr) as (cf & cnt & np & W). destruct W.
    split; [assumption|]. split; [assumption|]. split; [|split; [|split; [|split]]].
    - intros E. rewrite E in po_status0. symmetry in po_status0. now apply maxiter_only_at_limit in po_status0.
    - rewrite po_status0. rewrite converged_iff. apply Rle_bool_iff.
    - intros E. rewrite E in po_status0. symmetry in po_status0. apply interrupted_only_if_requested in po_status0. eauto.
    - intros E. rewrite E in po_status0. symmetry in po_status0. apply maxtime_only_if_exceeded in po_status0. eauto.
    - intros E. rewrite E in po_status0. symmetry in po_status0. apply noprogress_only_above_limit in po_status0. eauto.
  Qed.

  Theorem zerofpr_exit fuel o : zerofpr_ fuel = Done o ->
    exists cf : it, zconsistent cf /\ Qok cf /\ Glrel0 cf /\
      out_eps o = zit_eps lb ub l1 P cf (proxof cf) /\
      (overwrites (out_status o) (o_always P) = true ->
         out_x o = ixh cf /\ ixh cf = vadd (ix cf) (ip cf) /\
         out_y o = iyh cf /\ iyh cf = snd (psi_yhat (out_x o)) /\
         out_errz o = match errz_in with [] => [] | _ => vdiv (vsub (out_y o) y_in) Σ end) /\
      (overwrites (out_status o) (o_always P) = false -> out_x o = x_in /\ out_y o = y_in /\ out_errz o = errz_in).
  Proof.
    intros Hr. destruct (zerofpr_post fuel o Hr) as (cf & cnt & np & W). destruct W.
    exists cf. repeat (split; [assumption|]). unfold exit_block in po_exit0.
    split; intros Ho; rewrite Ho in po_exit0;
      pose proof (f_equal (fun t => fst (fst t)) po_exit0) as X1; pose proof (f_equal (fun t => snd (fst t)) po_exit0) as X2;
      pose proof (f_equal snd po_exit0) as X3; cbn [fst snd] in X1, X2, X3; rewrite X1, X2, X3.
    - destruct (zconsistent_explicit cf po_cons0) as (E1 & _ & _ & _ & E5 & _).
      split; [reflexivity|]. split; [exact E1|]. split; [reflexivity|]. split; [rewrite <- E5; reflexivity|reflexivity].
    - repeat split.
  Qed.

  Theorem zerofpr_inner_contract fuel o : zerofpr_ fuel = Done o ->
    out_status o = StConverged -> p_crit P = ApproxKKT -> l1 = [] ->
    exists (x grad : list R) (γ : R),
      let step := proj_grad_step lb ub γ x grad in
      let gradh := grad_L (out_x o) (out_y o) in
      out_x o = fst (fst step) /\
      out_y o = snd (psi_yhat (out_x o)) /\
      out_errz o = match errz_in with [] => [] | _ => vdiv (vsub (out_y o) y_in) Σ end /\
      out_eps o = vnorminf (kkt_residual γ (snd (fst step)) grad gradh) /\
      out_eps o <= eff_tol (o_tol P) /\
      (exists ψ, zval_x x ψ grad) /\
      (0 < p_Lgamma P -> 0 < Linit -> 0 < γ) /\
      (Linit <> 0 -> exists L, γ * L = p_Lgamma P).
  Proof.
    intros Hr Hst Hcrit Hl1. destruct (zerofpr_exit fuel o Hr) as (cf & Hc & Hq & Hg & He & Hov & _).
    assert (Hov' : overwrites (out_status o) (o_always P) = true) by (rewrite Hst; reflexivity).
    destruct (Hov Hov') as (O1 & O2 & O3 & O4 & O5).
    destruct (zconsistent_explicit cf Hc) as (E1 & E2 & E3 & E4 & E5 & E7).
    exists (ix cf), (igrad cf), (igam cf). cbv zeta.
    rewrite Hl1 in E2. cbn [eval_prox_grad_step] in E2. rewrite E2. cbn [fst snd].
    split; [exact O1|]. split; [now rewrite O3|]. split; [exact O5|]. split.
    { rewrite He. unfold zit_eps, eval_prox_it, prox_step_in_prox. cbn [px_grad]. rewrite Hcrit, O1, O3. reflexivity. }
    split; [destruct (zerofpr_status_clauses fuel o Hr) as (_ & _ & _ & Hcv & _); apply Hcv; exact Hst|].
    split; [exists (ipsi cf); exact E7|]. split; [intros; now apply (glrel0_pos psi_grad_full psi_yhat grad_L grad_psi lb ub l1 (fun _ _ => None) has_initial stop_req time_up P x_in y_in Σ errz_in ls_fuel)|].
    intros HL. exists (iL cf). now apply (glrel0_product_factor psi_grad_full psi_yhat grad_L grad_psi lb ub l1 (fun _ _ => None) has_initial stop_req time_up P x_in y_in Σ errz_in ls_fuel).
  Qed.

  Theorem zerofpr_records fuel o : zerofpr_ fuel = Done o ->
    Forall zrec_ok (out_log o) /\ chain P (rev (out_log o)) /\
    exists cf, hd_error (rev (out_log o)) =
               Some (mkCb (out_iterations o) (with_gradh cf (px_grad (proxof cf))) [] (- 1) (out_eps o) (out_status o)) /\ zconsistent cf.
  Proof.
    intros Hr. destruct (zerofpr_post fuel o Hr) as (cf & cnt & np & W). destruct W. repeat split; try assumption. exists cf. split; assumption.
  Qed.
  (* ------------------------------------------------------------------ the line search terminates (τ is halved) *)
  Section Termination.
    Variables (c0 : it) (prox : px) (nL nT : nat) (q : list R) (τi : R).
    Hypothesis HcL : 0 < iL c0.
    Hypothesis HLmax : p_Lmax P <= iL c0 * 2 ^ nL.
    Hypothesis Hmin : (1 / 2) ^ nT < p_tau_min P.
    Hypothesis Hτi : τi = 0 \/ τi = 1.

    Definition phiA (a b : nat) : nat := ((nL - a) * (nT + 2) + (nT + 1 - b) + (nL + 2))%nat.
    Definition phiB (a : nat) : nat := (nL - a + 1)%nat.

    Lemma pow_half_le m n : (m <= n)%nat -> (1 / 2) ^ n <= (1 / 2) ^ m.
    Proof.
      intros Hmn. induction Hmn as [|n Hmn IH]; [lra|]. cbn [pow].
      assert (0 <= (1 / 2) ^ n) by (apply pow_le; lra). nra.
    Qed.
    Lemma iL_halve (i : it) : iL (halve_it i) = iL i * 2.
    Proof. unfold halve_it, halve_step, set_gamma_L. cbn [iL snd fst]. cbv [n2 nmul nadd n1 NumR]. lra. Qed.

    Lemma ls_no_fuel : forall fuel s a b,
      iL (ls_next s) = iL c0 * 2 ^ a -> (a <= nL)%nat ->
      ((0 < ls_tau s /\ τi = 1 /\ ls_tau s = (1 / 2) ^ b /\ (b <= nT)%nat /\ (phiA a b <= fuel)%nat) \/
       (ls_tau s = 0 /\ (phiB a <= fuel)%nat)) ->
      lsloop fuel c0 prox q τi s <> LsFuel.
    Proof.
      induction fuel as [|fuel IH]; intros s a b Hn Ha Hph.
      { exfalso. unfold phiA, phiB in Hph. destruct Hph as [(_ & _ & _ & _ & H)|(_ & H)]; nia. }
      cbn [ls_loop]. destruct (stop_req (ls_cnt s)); [discriminate|].
      change (@nltb R NumR) with Rlt_bool. change (@neqb R NumR) with Req_bool. change (@nleb R NumR) with Rle_bool.
      change (@n0 R NumR) with 0. change (@n1 R NumR) with 1. change (@ndiv R NumR) with Rdiv. change (@n2 R NumR) with (1 + 1).
      set (τ := ls_tau s) in *.
      set (ph := if Req_bool τ (ls_tau_prev s) then (ls_next s, inc_polls (ls_cnt s))
                 else if Req_bool τ 0 then (take_safe_step c0 prox (ls_next s), inc_polls (ls_cnt s))
                 else (take_accel_step psi_grad_full τ q c0 (ls_next s), inc_pg (inc_polls (ls_cnt s)))).
      assert (F : iL (fst ph) = iL c0 * 2 ^ a).
      { subst ph. destruct (Req_bool τ (ls_tau_prev s)); [exact Hn|]. destruct (Req_bool τ 0); exact Hn. }
      destruct ph as [next c1]. cbn [fst snd] in F.
      match goal with |- context [if ?bb then lsloop fuel c0 prox q τi ?s1 else _] => destruct bb eqn:Efail; [apply (IH s1 0%nat 0%nat)|] end.
      { cbn [ls_next]. unfold set_gamma_L; cbn [iL pow]. lra. }
      { lia. }
      { right. cbn [ls_tau]. split; [reflexivity|]. apply andb_prop in Efail. destruct Efail as [Hpos _]. apply Rlt_bool_iff in Hpos.
        destruct Hph as [(_ & _ & _ & _ & H)|(H0 & _)]; [unfold phiA, phiB in *; nia|lra]. }
      set (next1 := ecost (eprox next)).
      assert (N1 : iL next1 = iL c0 * 2 ^ a) by exact F.
      match goal with |- context [if ?bb then lsloop fuel c0 prox q τi ?s1 else _] => destruct bb eqn:Equb; [apply (IH s1 (S a) 0%nat)|] end.
      { cbn [ls_next]. rewrite iL_halve, N1. cbn [pow]. lra. }
      { apply andb_prop in Equb. destruct Equb as [HL _]. apply Rlt_bool_iff in HL. rewrite N1 in HL.
        destruct (Nat.lt_ge_cases a nL) as [Hlt|Hge]; [lia|]. exfalso.
        assert (2 ^ nL <= 2 ^ a) by (apply Rle_pow; [lra|exact Hge]). nra. }
      { apply andb_prop in Equb. destruct Equb as [HL _]. apply Rlt_bool_iff in HL. rewrite N1 in HL.
        assert (Hlt : (a < nL)%nat).
        { destruct (Nat.lt_ge_cases a nL) as [Hlt|Hge]; [exact Hlt|]. exfalso.
          assert (2 ^ nL <= 2 ^ a) by (apply Rle_pow; [lra|exact Hge]). nra. }
        cbn [ls_tau]. destruct Hph as [(Hp & Hi & Ht & Hb & Hf)|(H0 & Hf)].
        - left. apply Rlt_bool_iff in Hp. rewrite Hp. rewrite Hi. split; [lra|]. split; [reflexivity|]. split; [cbn [pow]; lra|]. split; [lia|].
          unfold phiA in *. nia.
        - right. destruct (Rlt_bool_spec 0 τ) as [Hp|Hp]; [lra|]. split; [exact H0|]. unfold phiB in *. lia. }
      match goal with |- context [if ?bb then lsloop fuel c0 prox q τi ?s1 else LsDone ?s2] => destruct bb eqn:Els; [|discriminate] end.
      apply andb_prop in Els. destruct Els as [Hpos _]. apply Rlt_bool_iff in Hpos.
      destruct Hph as [(Hp & Hi & Ht & Hb & Hf)|(H0 & _)]; [|lra].
      match goal with |- lsloop fuel c0 prox q τi ?s1 <> LsFuel => apply (IH s1 a (S b)) end.
      { exact N1. }
      { exact Ha. }
      cbn [ls_tau]. fold τ in Ht. destruct (Rlt_bool_spec (τ / (1 + 1)) (p_tau_min P)) as [Hlt|Hge].
      - right. split; [reflexivity|]. unfold phiA, phiB in *. nia.
      - left. assert (Hpw : τ / (1 + 1) = (1 / 2) ^ S b) by (rewrite Ht; cbn [pow]; lra).
        assert (Hb' : (S b <= nT)%nat).
        { destruct (Nat.lt_ge_cases b nT) as [Hl|Hg]; [lia|]. exfalso.
          assert ((1 / 2) ^ S b <= (1 / 2) ^ nT) by (apply pow_half_le; lia). lra. }
        assert (0 <= (1 / 2) ^ nT) by (apply pow_le; lra).
        split; [lra|]. split; [exact Hi|]. split; [exact Hpw|]. split; [exact Hb'|]. unfold phiA in *. nia.
    Qed.

    Definition ls_pass_bound : nat := ((nL + 1) * (nT + 3))%nat.
    Theorem ls_terminates (next : it) upd c st : forall fuel, (ls_pass_bound <= fuel)%nat ->
      lsloop fuel c0 prox q τi (mkLs (set_gamma_L next (igam c0) (iL c0)) τi (- 1) upd false c st) <> LsFuel.
    Proof.
      intros fuel Hf. apply (ls_no_fuel fuel _ 0%nat 0%nat); cbn [ls_next ls_tau].
      - unfold set_gamma_L; cbn [iL pow]. lra.
      - lia.
      - unfold ls_pass_bound, phiA, phiB in *. destruct Hτi as [E|E].
        + right. split; [exact E|]. nia.
        + left. split; [lra|]. split; [exact E|]. split; [cbn [pow]; lra|]. split; [lia|]. nia.
    Qed.
  End Termination.

  Theorem pass_never_out_of_fuel (nL nT : nat) s : Inv s ->
    0 < Linit -> p_Lmax P <= Linit * 2 ^ nL -> (1 / 2) ^ nT < p_tau_min P ->
    (ls_pass_bound nL nT <= ls_fuel)%nat -> pass_ s <> PFuel.
  Proof.
    intros HI HL0 HLm Hm Hfuel. destruct HI as [_ _ [j Ej] _ _ _ _].
    unfold pass. cbv zeta. set (curr := st_curr s) in *.
    assert (EL : iL curr = Linit * 2 ^ j).
    { pose proof (halve_n_L psi_grad_full psi_yhat grad_L grad_psi lb ub l1 (fun _ _ => None) has_initial stop_req time_up P x_in y_in Σ errz_in ls_fuel j (p_Lgamma P / Linit) Linit) as Hh. fold (gl0 psi_grad_full grad_psi P x_in) in Hh. rewrite <- Ej in Hh. exact Hh. }
    assert (Hp1 : 1 <= 2 ^ j) by (apply pow_R1_Rle; lra).
    assert (Hp2 : 0 < 2 ^ nL) by (apply pow_lt; lra).
    assert (HcL : 0 < iL curr) by (rewrite EL; nra).
    assert (HLm' : p_Lmax P <= iL curr * 2 ^ nL).
    { rewrite EL. assert (0 <= Linit * 2 ^ nL * (2 ^ j - 1)) by (apply Rmult_le_pos; [apply Rmult_le_pos; lra|lra]). lra. }
    match goal with |- context [stop_status_helpers ?a ?b ?c ?d ?e ?f ?g ?h] => destruct (stop_status_helpers a b c d e f g h) end.
    2-8: match goal with |- context [exit_block ?a ?b ?c ?d ?e ?f ?g ?h] => destruct (exit_block a b c d e f g h) as [[xo yo] eo] end; discriminate.
    change (@n0 R NumR) with 0. change (@n1 R NumR) with 1. change (@nopp R NumR) with Ropp.
    match goal with |- context [lsloop ls_fuel curr ?pr ?q ?τi (mkLs (set_gamma_L ?nx _ _) _ _ ?u _ ?c ?st)] =>
      assert (Hτ : τi = 0 \/ τi = 1) by (match goal with |- (match ?r with Some _ => _ | None => _ end) = 0 \/ _ => destruct r as [q'|]; [destruct (vall_finite q')|]; auto end);
      pose proof (ls_terminates curr pr nL nT q τi HcL HLm' Hm Hτ nx u c st ls_fuel Hfuel) as Ht;
      match goal with |- context [match ?X with LsDone _ => _ | LsStopped _ => _ | LsFuel => PFuel end] =>
        assert (Ht' : X <> LsFuel) by exact Ht; destruct X; [discriminate|discriminate|exfalso; apply Ht'; reflexivity] end
    end.
  Qed.
  Theorem reachable_pass_never_out_of_fuel (nL nT : nat) s : reachable s ->
    0 < Linit -> p_Lmax P <= Linit * 2 ^ nL -> (1 / 2) ^ nT < p_tau_min P ->
    (ls_pass_bound nL nT <= ls_fuel)%nat -> pass_ s <> PFuel.
  Proof. intros Hr. apply pass_never_out_of_fuel. now apply reachable_inv. Qed.
End Proofs.
