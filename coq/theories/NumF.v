(* NumF.v — the binary64 instance (Coq primitive floats): execution only.
   Also the comparison relation used by the correspondence check. *)
From Coq Require Import Floats ZArith Uint63 List Bool.
From Alpaqa Require Import Num.
Import ListNotations.

Definition f_ofZ (z : Z) : float :=
  match z with
  | Z0 => 0%float
  | Zpos _ => PrimFloat.of_uint63 (Uint63.of_Z z)
  | Zneg p => PrimFloat.opp (PrimFloat.of_uint63 (Uint63.of_Z (Zpos p)))
  end.

Definition f_isnan (x : float) : bool := negb (PrimFloat.eqb x x).
Definition f_finite (x : float) : bool :=
  andb (PrimFloat.eqb x x) (PrimFloat.ltb (PrimFloat.abs x) infinity).

#[export] Instance NumF : Num float := {|
  n0 := 0%float; n1 := 1%float;
  nadd := PrimFloat.add; nsub := PrimFloat.sub; nmul := PrimFloat.mul; ndiv := PrimFloat.div;
  nopp := PrimFloat.opp; nabs := PrimFloat.abs; nsqrt := PrimFloat.sqrt;
  nleb := PrimFloat.leb; nltb := PrimFloat.ltb; neqb := PrimFloat.eqb;
  nofZ := f_ofZ;
  nfinite := f_finite;
  nisnan := f_isnan
|}.

(* ---- comparison relation of the correspondence check ----
   agree a b: both NaN, or equal (covers infinities and zeros), or
   |a-b| <= rtol*max(|a|,|b|) + atol.  rtol = 2^-36 (~1.5e-11), atol = 2^-1000. *)
Local Open Scope float_scope.
Definition f_rtol : float := 0x1p-36.
Definition f_atol : float := 0x1p-1000.
Definition feq_tol (rtol : float) (a b : float) : bool :=
  if f_isnan a then f_isnan b else
  if f_isnan b then false else
  if PrimFloat.eqb a b then true else
  if negb (f_finite a) || negb (f_finite b) then false else
  let d := abs (a - b) in
  let m := if abs a <? abs b then abs b else abs a in
  d <=? rtol * m + f_atol.
Definition feq (a b : float) : bool := feq_tol f_rtol a b.
(* bit-level equality up to the sign of zero / NaN payload: used where the property is exact *)
Definition fexact (a b : float) : bool :=
  if f_isnan a then f_isnan b else PrimFloat.eqb a b.

Fixpoint list_agree {A} (eq : A -> A -> bool) (l1 l2 : list A) : bool :=
  match l1, l2 with
  | [], [] => true
  | a :: l1', b :: l2' => eq a b && list_agree eq l1' l2'
  | _, _ => false
  end.
Definition vfeq := list_agree feq.
Definition vfexact := list_agree fexact.
Definition ofeq (a b : option float) : bool :=
  match a, b with Some x, Some y => feq x y | None, None => true | _, _ => false end.

(* bound given as a float (±inf = absent) -> option *)
Definition lb_of_float (l : float) : option float :=
  if PrimFloat.eqb l neg_infinity then None else Some l.
Definition ub_of_float (u : float) : option float :=
  if PrimFloat.eqb u infinity then None else Some u.

(* indices (0-based) of the cases on which the predicate fails *)
Fixpoint failing_from {A} (chk : A -> bool) (i : nat) (l : list A) : list nat :=
  match l with
  | [] => []
  | c :: l' => if chk c then failing_from chk (S i) l' else i :: failing_from chk (S i) l'
  end.
Definition failing {A} (chk : A -> bool) (l : list A) : list nat := failing_from chk 0 l.
