(* AlmZeroFprDirRefine.v — REFINEMENT at the level of whole composed runs, for ZeroFPR (counterpart of AlmPanocDirRefine.v): every run of
   the shipped stack model AlmZeroFprDir.alm_zerofpr_dir (ALM ∘ ZeroFPR with a stateful direction provider, for EVERY provider `dirops`,
   every initial provider state, both values of update_direction_from_prox_step) IS a run of the oracle-direction model
   AlmZeroFpr.alm_zerofpr for the direction oracle
        "the j-th apply call of the whole ALM run (global index, across inner solves) returned what the provider returned there":
   same ALM trace (every record: outer index, y, Σ, tolerance, err_z buffers, inner outcome), same final statistics / status, same x, same
   cumulative counters; the logs of the inner solves agree up to the q field of τ = 0 records (PanocDirProofs.out_sim).
   Hence every theorem proved about alm_zerofpr "for every direction oracle" (C01_alm_zerofpr_converged_is_kkt, the C07 theorems through
   C01_composed_run_is_alm_run, …) holds for the shipped stacks.  Lifts ZeroFprDirProofs.zerofprD_refines (one inner solve, local index)
   through AlmCompose.c_loop.  Over R. *)
From Coq Require Import Reals List ZArith Lra Lia Bool Arith FunctionalExtensionality.
From Flocq Require Import Raux.
From Alpaqa Require Import Num NumR Vec Prox SolverStatus SolverKernels StopChain AugLag Panoc PanocProofs ZeroFpr ZeroFprProofs
                           Directions PanocDir PanocDirProofs ZeroFprDir ZeroFprDirProofs Alm AlmCompose AlmPanoc AlmZeroFpr AlmZeroFprDir.
Import ListNotations.
Local Open Scope R_scope.

Arguments c_script {T W Lg} _.
Arguments c_logs {T W Lg} _.
Arguments c_x {T W Lg} _.
Arguments c_w {T W Lg} _.
Arguments co_trace {T W Lg} _.
Arguments co_final {T W Lg} _.
Arguments co_x {T W Lg} _.
Arguments co_logs {T W Lg} _.
Arguments co_w {T W Lg} _.

Section OneSolve.
  Variable psi_grad_full : list R -> R * list R * list R.
  Variable psi_yhat : list R -> R * list R.
  Variable grad_L : list R -> list R -> list R.
  Variable grad_psi : list R -> list R.
  Variables (lb ub : list (option R)) (l1 : list R).
  Variable D : Type.
  Variable ops : dirops R D.
  Variable stop_req : counters -> bool.
  Variable time_up : counters -> bool.
  Variable P : Panoc.params (T:=R).
  Variable from_prox : bool.
  Variables (x_in y_in Σ errz_in : list R).
  Variable ls_fuel : nat.
  Variable d0 : D.

  Notation passD_ := (zpassD psi_grad_full psi_yhat grad_L lb ub l1 D ops stop_req time_up P from_prox x_in y_in Σ errz_in ls_fuel).
  Notation loopD_ := (zloopD psi_grad_full psi_yhat grad_L lb ub l1 D ops stop_req time_up P from_prox x_in y_in Σ errz_in ls_fuel).
  Notation runD_ := (zerofprD psi_grad_full psi_yhat grad_L grad_psi lb ub l1 D ops stop_req time_up P from_prox x_in y_in Σ errz_in ls_fuel d0).
  Notation hasinit := (d_has_initial D ops).
  Notation pass_ O := (ZeroFpr.pass psi_grad_full psi_yhat grad_L lb ub l1 O hasinit stop_req time_up P x_in y_in Σ errz_in ls_fuel).
  Notation loop_ O := (ZeroFpr.loop psi_grad_full psi_yhat grad_L lb ub l1 O hasinit stop_req time_up P x_in y_in Σ errz_in ls_fuel).
  Notation run_ O := (zerofpr psi_grad_full psi_yhat grad_L grad_psi lb ub l1 O hasinit stop_req time_up P x_in y_in Σ errz_in ls_fuel).
  Notation InvD_ := (ZInvD D).

  (* the refinement of one solve, for ANY continuation `ext` of the trace, with the number of apply calls *)
  Lemma zloop_sim_ext : forall fuel sD s oD ext, InvD_ sD -> st_sim (zd_st D sD) s -> loopD_ fuel sD = ZDoneD D oD ->
    exists o, loop_ (zoracle_of (zo_trace D oD ++ ext)) fuel s = Done o /\ out_sim (zo_out D oD) o /\
              c_apply (out_cnt o) = length (zo_trace D oD).
  Proof.
    induction fuel as [|f IH]; intros sD s oD ext Hi Hs; [discriminate|].
    cbn [zloopD ZeroFpr.loop].
    assert (Hl : length (zd_trace D sD) = c_apply (st_cnt s)).
    { destruct Hs as (_ & _ & _ & _ & Ec & _). rewrite <- Ec. exact Hi. }
    pose proof (zpassD_inv eq00R lt00R psi_grad_full psi_yhat grad_L lb ub l1 D ops stop_req time_up P from_prox x_in y_in Σ errz_in ls_fuel sD Hi) as Hp.
    pose proof (zpass_sim eq00R lt00R psi_grad_full psi_yhat grad_L lb ub l1 D ops stop_req time_up P from_prox x_in y_in Σ errz_in ls_fuel sD s (zo_trace D oD ++ ext) Hs Hl) as Hq.
    destruct (passD_ sD) as [o|sD'| |] eqn:Ep; try discriminate.
    - intros E. injection E as <-. destruct Hq as (o' & E' & Ho & Et). rewrite E'. exists o'. split; [reflexivity|]. split; [exact Ho|].
      (* at the exit the apply counter is that of the state: the exit pass makes no apply call *)
      rewrite Et, Hl. clear - E'. unfold ZeroFpr.pass in E'. cbv zeta in E'.
      match type of E' with context [stop_status_helpers ?a ?b ?c ?d ?e ?f ?g ?h] => destruct (stop_status_helpers a b c d e f g h) end.
      2-8: match type of E' with context [exit_block ?a ?b ?c ?d ?e ?f ?g ?h] => destruct (exit_block a b c d e f g h) as [[xo yo] eo] end;
           injection E' as <-; cbn [out_cnt]; reflexivity.
      match type of E' with context [match ?X with ZeroFpr.LsDone _ => _ | ZeroFpr.LsStopped _ => _ | ZeroFpr.LsFuel => ZeroFpr.PFuel end] => destruct X end; discriminate.
    - intros E. destruct Hp as [Hi' _]. destruct Hq as [_ Hall].
      destruct (zloopD_ext eq00R lt00R psi_grad_full psi_yhat grad_L lb ub l1 D ops stop_req time_up P from_prox x_in y_in Σ errz_in ls_fuel _ _ _ Hi' E) as [ext1 Eext].
      destruct (Hall (ext1 ++ ext)) as (s' & Eps & Hs' & _); [rewrite Eext, app_assoc; reflexivity|].
      rewrite Eps. exact (IH _ _ _ ext Hi' Hs' E).
  Qed.

  Theorem zerofprD_refines_ext fuel oD ext : runD_ fuel = ZDoneD D oD ->
    exists o, run_ (zoracle_of (zo_trace D oD ++ ext)) fuel = Done o /\ out_sim (zo_out D oD) o /\
              c_apply (out_cnt o) = length (zo_trace D oD).
  Proof.
    unfold zerofprD, zerofpr. pose proof (init_L_c_apply psi_grad_full grad_psi P x_in) as H0.
    destruct (init_L psi_grad_full grad_psi P x_in) as [i0 c0]. cbn [snd] in H0.
    destruct (negb (nfinite (iL i0))); [discriminate|].
    destruct (ZeroFpr.init_qub psi_yhat lb ub l1 P ls_fuel _ (inc_py c0) stats0) as [[[i3 c1] s1]|] eqn:Eq; [|discriminate].
    apply zloop_sim_ext; [|apply st_sim_refl].
    unfold ZInvD. cbn [zd_trace zd_st st_cnt length].
    rewrite (zinit_qub_c_apply psi_yhat lb ub l1 P _ _ _ _ _ _ _ Eq). cbn [c_apply inc_py]. now symmetry.
  Qed.

  (* NotFinite before the loop does not depend on the provider at all *)
  Lemma zloopD_never_nf : forall fuel sD L, loopD_ fuel sD <> ZNotFiniteLD D L.
  Proof.
    induction fuel as [|f IH]; intros sD L; [discriminate|]. cbn [zloopD]. destruct (passD_ sD); try discriminate. apply IH.
  Qed.
  Theorem zerofprD_notfinite fuel L O : runD_ fuel = ZNotFiniteLD D L -> run_ O fuel = NotFiniteL L.
  Proof.
    unfold zerofprD, zerofpr. destruct (init_L psi_grad_full grad_psi P x_in) as [i0 c0].
    destruct (negb (nfinite (iL i0))); [intros E; now injection E as <-|].
    destruct (ZeroFpr.init_qub psi_yhat lb ub l1 P ls_fuel _ (inc_py c0) stats0) as [[[i3 c1] s1]|]; [|discriminate].
    intros E. exfalso. exact (zloopD_never_nf _ _ _ E).
  Qed.
End OneSolve.

Section Compose.
  Variable Pb : problem (T:=R).
  Variable prov : fn -> bool.
  Variable wm_supplied : list R -> list R.
  Variables (Clb Cub : list (option R)) (l1 : list R).
  Variable split : nat.
  Variable D : Type.
  Variable ops : dirops R D.
  Variable stop_req : counters -> bool.
  Variable time_up : counters -> bool.
  Variable outer_oot : nat -> bool.
  Variable PP : Panoc.params (T:=R).
  Variable from_prox : bool.
  Variable AP : alm_params (T:=R).
  Variables (ls_fuel inner_fuel : nat).

  Notation innerD := (zdinner Pb prov wm_supplied Clb Cub l1 D ops stop_req time_up outer_oot PP from_prox ls_fuel inner_fuel).
  Notation innerO O := (zinner Pb prov wm_supplied Clb Cub l1 O (d_has_initial D ops) stop_req time_up outer_oot PP ls_fuel inner_fuel).
  Notation pb := (pb_of Pb split).

  (* the apply results of one inner solve / of a list of inner solves, in call order *)
  Definition ztrace_of (lg : zresultD (T:=R) D) : list (option (list R)) := match lg with ZDoneD _ oD => zo_trace D oD | _ => [] end.
  Definition ztraces (lgs : list (zresultD (T:=R) D)) : list (option (list R)) := concat (map ztrace_of lgs).
  (* the logs of two corresponding inner solves *)
  Definition zlog_sim (lgD : zresultD (T:=R) D) (lg : result (T:=R)) : Prop :=
    match lgD, lg with
    | ZDoneD _ oD, Done o => out_sim (zo_out D oD) o
    | ZNotFiniteLD _ L, NotFiniteL L' => L = L'
    | _, _ => False
    end.

  Lemma zoracle_shift (pre rest : list (option (list R))) :
    (fun j it px => zoracle_of (pre ++ rest) (length pre + j)%nat it px) = zoracle_of rest.
  Proof.
    apply functional_extensionality; intros j. apply functional_extensionality; intros it. apply functional_extensionality; intros px.
    unfold zoracle_of. rewrite app_nth2 by lia. f_equal. lia.
  Qed.

  Lemma zc_apply_cadd a b : c_apply (cadd a b) = (c_apply a + c_apply b)%nat.
  Proof. reflexivity. Qed.

  (* one inner solve *)
  Lemma zinner_refines wD i x y Σ tol e r x' lgD wD' pre ext :
    innerD wD i x y Σ tol e = Some (r, x', lgD, wD') -> c_apply (fst wD) = length pre ->
    exists lg, innerO (zoracle_of (pre ++ ztrace_of lgD ++ ext)) (fst wD) i x y Σ tol e = Some (r, x', lg, fst wD') /\
               zlog_sim lgD lg /\ c_apply (fst wD') = length (pre ++ ztrace_of lgD).
  Proof.
    intros Hin Hpre. unfold zdinner in Hin. unfold zinner. rewrite Hpre, zoracle_shift.
    match type of Hin with context [match ?pr with ZDoneD _ _ => _ | ZNotFiniteLD _ _ => _ | ZOutOfFuelD _ => _ | ZThrewD _ _ => _ end] =>
      destruct pr as [oD|L| |lg'] eqn:Er end; try discriminate.
    - cbv zeta in Hin. injection Hin as <- <- <- <-. cbn [ztrace_of fst].
      destruct (zerofprD_refines_ext _ _ _ _ _ _ _ _ _ _ _ _ _ _ _ _ _ _ _ _ _ ext Er) as (o & Eo & Ho & Hc).
      rewrite Eo. pose proof Ho as Ho'. destruct Ho as (E1 & E2 & E3 & E4 & E5 & E6 & _ & _ & E9 & _).
      exists (Done o). rewrite <- E1, <- E2, <- E3, <- E4, <- E5, <- E6, <- E9. split; [reflexivity|]. split.
      + exact Ho'.
      + rewrite zc_apply_cadd, Hpre, app_length, E9, Hc. reflexivity.
    - injection Hin as <- <- <- <-. cbn [ztrace_of fst snd app].
      rewrite (zerofprD_notfinite _ _ _ _ _ _ _ _ _ _ _ _ _ _ _ _ _ _ _ _ L (zoracle_of ext) Er).
      exists (NotFiniteL L). split; [reflexivity|]. split; [reflexivity|].
      rewrite zc_apply_cadd, (init_L_c_apply _ _ _ _), app_nil_r, Hpre. lia.
  Qed.

  Lemma ztraces_cons lg lgs : ztraces (lg :: lgs) = ztrace_of lg ++ ztraces lgs.
  Proof. reflexivity. Qed.

  (* the outer loop *)
  Lemma zc_loop_refines : forall fuel i s x wD cD pre post,
    c_loop (counters * D)%type (zresultD D) innerD AP pb fuel i s x wD = Some cD -> c_apply (fst wD) = length pre ->
    exists c, c_loop counters (result (T:=R)) (innerO (zoracle_of (pre ++ ztraces (c_logs cD) ++ post))) AP pb fuel i s x (fst wD) = Some c /\
      c_script c = c_script cD /\ c_x c = c_x cD /\ c_w c = fst (c_w cD) /\ Forall2 zlog_sim (c_logs cD) (c_logs c).
  Proof.
    induction fuel as [|fuel IH]; intros i s x wD cD pre post; cbn [c_loop]; [discriminate|].
    destruct (innerD wD i x (c_y_in AP pb s) (s_Sigma s) (s_eps s) (s_err s)) as [[[[r x'] lgD] wD']|] eqn:Ein; [|discriminate].
    destruct (f_exhausted (snd (alm_loop AP pb i s [r]))) eqn:Eex.
    - destruct (c_loop _ _ innerD AP pb fuel (S i) (c_next AP pb i s r) x' wD') as [cD'|] eqn:Ec; [|discriminate].
      intros E Hpre. injection E as <-. cbn [c_script c_logs c_x c_w]. rewrite ztraces_cons.
      destruct (zinner_refines _ _ _ _ _ _ _ _ _ _ _ pre (ztraces (c_logs cD') ++ post) Ein Hpre) as (lg & Ei & Hl & Hc).
      destruct (IH _ _ _ _ _ (pre ++ ztrace_of lgD) post Ec Hc) as (c' & Ec' & C1 & C2 & C3 & C4).
      replace (pre ++ (ztrace_of lgD ++ ztraces (c_logs cD')) ++ post) with (pre ++ ztrace_of lgD ++ ztraces (c_logs cD') ++ post)
        by (now rewrite <- !app_assoc).
      rewrite Ei, Eex.
      replace (pre ++ ztrace_of lgD ++ ztraces (c_logs cD') ++ post) with ((pre ++ ztrace_of lgD) ++ ztraces (c_logs cD') ++ post)
        by (now rewrite <- !app_assoc).
      rewrite Ec'. eexists. split; [reflexivity|]. cbn [c_script c_logs c_x c_w].
      split; [now rewrite C1|]. split; [exact C2|]. split; [exact C3|]. constructor; assumption.
    - intros E Hpre. injection E as <-. cbn [c_script c_logs c_x c_w]. rewrite ztraces_cons. cbn [ztraces map concat]. rewrite app_nil_r.
      destruct (zinner_refines _ _ _ _ _ _ _ _ _ _ _ pre post Ein Hpre) as (lg & Ei & Hl & Hc).
      rewrite Ei, Eex. eexists. split; [reflexivity|]. cbn [c_script c_logs c_x c_w].
      split; [reflexivity|]. split; [reflexivity|]. split; [reflexivity|]. constructor; [exact Hl|constructor].
  Qed.

  (* ================================================================ whole composed runs *)
  Theorem alm_zerofpr_dir_refines (d0 : D) outer_fuel nanv Σ0 y0 x0 coD :
    alm_zerofpr_dir Pb prov wm_supplied Clb Cub l1 split D ops stop_req time_up outer_oot PP from_prox AP ls_fuel inner_fuel d0 outer_fuel nanv Σ0 y0 x0 = Some coD ->
    exists co,
      alm_zerofpr Pb prov wm_supplied Clb Cub l1 split (zoracle_of (ztraces (co_logs coD))) (d_has_initial D ops) stop_req time_up outer_oot PP AP
                  ls_fuel inner_fuel outer_fuel nanv Σ0 y0 x0 = Some co /\
      co_trace co = co_trace coD /\ co_final co = co_final coD /\ co_x co = co_x coD /\ co_w co = fst (co_w coD) /\
      Forall2 zlog_sim (co_logs coD) (co_logs co).
  Proof.
    unfold alm_zerofpr_dir, alm_zerofpr, c_run, c_script_of.
    destruct (Nat.eqb (Alm.p_max_iter AP) 0).
    { intros E. injection E as <-. cbn [co_logs co_trace co_final co_x co_w c_script c_logs c_x c_w fst].
      eexists. split; [reflexivity|]. cbn [co_logs co_trace co_final co_x co_w c_script c_logs c_x c_w]. repeat split. constructor. }
    destruct (Nat.eqb (pb_m pb) 0).
    { destruct (innerD (cnt0, d0) 0%nat x0 y0 [] (p_tol AP) []) as [[[[r x'] lgD] wD']|] eqn:Ein; [|discriminate].
      intros E. injection E as <-. cbn [co_logs co_trace co_final co_x co_w c_script c_logs c_x c_w].
      destruct (zinner_refines _ _ _ _ _ _ _ _ _ _ _ [] [] Ein eq_refl) as (lg & Ei & Hl & _).
      cbn [ztraces map concat app fst] in *. rewrite Ei.
      eexists. split; [reflexivity|]. cbn [co_logs co_trace co_final co_x co_w c_script c_logs c_x c_w].
      repeat split. constructor; [exact Hl|constructor]. }
    destruct (c_loop _ _ innerD AP pb outer_fuel 0 _ x0 (cnt0, d0)) as [cD|] eqn:Ec; [|discriminate].
    intros E. injection E as <-. cbn [co_logs co_trace co_final co_x co_w].
    destruct (zc_loop_refines _ _ _ _ _ _ [] [] Ec eq_refl) as (c & Ec' & C1 & C2 & C3 & C4).
    cbn [app fst] in Ec'. rewrite app_nil_r in Ec'. rewrite Ec'.
    eexists. split; [reflexivity|]. cbn [co_logs co_trace co_final co_x co_w]. rewrite C1.
    repeat split; assumption.
  Qed.
End Compose.
