(* PanocOcpLoop.v — executable model of the WHOLE of PANOCOCPSolver::operator()
   (implementation/inner/panoc-ocp.tpp; check_all_stop_conditions is the GENERATED gen/StopChain.stop_status_ocp).
   Model only; proofs are in PanocOcpLoopProofs.v.  Style and conventions of Panoc.v.

   Faithful: struct Iterate, eval_prox_impl (projection on the input box U tiled per stage, ‖p‖² and ∇ψᵀp accumulated per
   stage), the local calc_error_stop_crit (six criteria, the others throw), the initial Lipschitz estimate, the initial
   QUB loop, the choice Gauss-Newton step / L-BFGS step / no direction (gn_interval, gn_sticky, disable_acceleration,
   did_gn, do_gn_step incl. its reset inside take_accelerated_step), the inactive sets (with the CURRENT γ), τ_init, the
   whole line search (accelerated / safe / fail / QUB backtrack / τ halving; `linesearch_completed` + `continue` of fix
   8c90941bb), the no-progress counter, the stop chain, the L-BFGS bookkeeping (reset on γ change / GN step / failed
   line search / non-finite q, forced update), progress callbacks, statistics, the exit block with write_solution.

   The outside world enters as Section variables (oracles); nothing is assumed about them here:
     X, QR, DS                      types: the simulated part (x, h, c) of a storage vector `xu`; the buffer qr written by
                                    eval.backward; the state of the LBFGS object
     fwd u      = (V, X)            eval.forward(xu, D, D_N, μ, y) on a storage whose inputs are u: cost ψ(u) incl. the ALM terms,
                                    and the simulated storage
     sim u      = X                 eval.forward_simulate(xu)                       (initial Lipschitz estimate only)
     bwd u X    = (∇ψ, qr)          eval.backward(xu, grad, qr, q_N, D, D_N, μ, y)   (adjoint sweep on a simulated storage)
     cvals X                        the constraint values c_0 … c_{N-1}, c_N stored in a storage (read by write_solution)
     gn_step j u X qr mask q        j-th Gauss-Newton step: J.update + eval_jac_f + lqr.factor_masked + lqr.solve_masked: q with the inactive
                                    (mask = true) components replaced by the Gauss-Newton step; the active components of q hold bound − u
     lb_apply / lb_update / lb_reset   LBFGS::apply_masked / update(…, Sign::Positive, forced = true) / reset on the state DS
     stop_req c / time_up c         stop_signal.stop_requested() / `time_elapsed > max_time` as functions of the event counters
   Loops are structural recursions on explicit fuel (outer loop `fuel`, line search and initial QUB loop `ls_fuel`).

   Not modelled: printing, timers, lqr.min_rcond (reported, never read), exceptions thrown by user functions.
   Conventions: infinite sides of U are `None` (never active in is_constr_inactive; the code compares with ±inf, which differs only
   when u − γ∇ψ is itself infinite); std::fmax / std::fmin of the projected step are cmax / cmin (equal unless an operand is NaN).
   Observations made while modelling (no property depends on them): (1) with L_0 <= 0 the finite-difference sweep of the initial
   Lipschitz estimate runs eval.backward on the perturbed point u − h AFTER the sweep at u, so the shared buffer qr (q_k, r_k) that a
   Gauss-Newton step at k = 0 reads belongs to u − h, not to u (the model threads qr exactly like that); (2) the two unit-step
   criteria use next->xû / next->p as scratch space (modelled by crit_scratch; never read before rewritten); (3) with
   disable_acceleration the vector q is never written: `q.allFinite()` and the progress callback read uninitialised memory.
   `Iterate::u` (the copy of the inputs kept for L-BFGS) IS modelled (iul).  `curr->xu == next->xu` compares whole storage
   vectors in the code; the model compares the inputs (the simulated part is a function of them unless it contains NaN). *)
From Coq Require Import List ZArith Bool Arith.
From Alpaqa Require Import Num Vec Prox SolverStatus SolverKernels StopChain PanocOcp.
Import ListNotations.

Section PanocOcpLoop.
  Context {T : Type} `{Num T}.
  Local Open Scope num_scope.
  Variables X QR DS : Type.

  (* struct Iterate: xu = (iu, ix), xû = (iuh, ixh), grad_ψ, p, u (L-BFGS copy), ψu, ψû, γ, L, pᵀp, grad_ψᵀp *)
  Record iterate := mkIt {
    iu : list T; ix : X; iuh : list T; ixh : X; igrad : list T; ip : list T; iul : list T;
    ipsi : T; ipsih : T; igam : T; iL : T; ipp : T; igp : T }.

  (* Iterate::fbe():  ψu + pᵀp / (2 * γ) + grad_ψᵀp *)
  Definition it_fbe (i : iterate) : T := fbe (ipsi i) n0 (ipp i) (igam i) (igp i).

  (* PANOCOCPParams (fields used by the loop) + InnerSolveOptions *)
  Record params := mkParams {
    p_max_iter : nat; p_max_no_progress : nat;
    p_L0 : T; p_lip_eps : T; p_lip_delta : T; p_Lgamma : T;     (* Lipschitz.{L_0, ε, δ, Lγ_factor} *)
    p_Lmin : T; p_Lmax : T;
    p_crit : stopcrit;
    p_qub_tol : T; p_ls_tol : T;                                (* quadratic_upperbound_tolerance_factor, linesearch_tolerance_factor *)
    p_beta : T; p_tau_min : T;                                  (* linesearch_strictness_factor, min_linesearch_coefficient *)
    p_gn_interval : nat; p_gn_sticky : bool; p_disable_acc : bool; p_reset_on_gn : bool;
    o_always : bool; o_tol : T }.                               (* opts.always_overwrite_results, opts.tolerance *)

  (* event counters *)
  Record counters := mkCnt { c_polls : nat; c_fwd : nat; c_bwd : nat; c_sim : nat; c_gn : nat; c_lb : nat; c_cb : nat }.
  Definition cnt0 := mkCnt 0 0 0 0 0 0 0.
  Definition inc_polls c := mkCnt (S (c_polls c)) (c_fwd c) (c_bwd c) (c_sim c) (c_gn c) (c_lb c) (c_cb c).
  Definition inc_fwd c := mkCnt (c_polls c) (S (c_fwd c)) (c_bwd c) (c_sim c) (c_gn c) (c_lb c) (c_cb c).
  Definition inc_bwd c := mkCnt (c_polls c) (c_fwd c) (S (c_bwd c)) (c_sim c) (c_gn c) (c_lb c) (c_cb c).
  Definition inc_sim c := mkCnt (c_polls c) (c_fwd c) (c_bwd c) (S (c_sim c)) (c_gn c) (c_lb c) (c_cb c).
  Definition inc_gn c := mkCnt (c_polls c) (c_fwd c) (c_bwd c) (c_sim c) (S (c_gn c)) (c_lb c) (c_cb c).
  Definition inc_lb c := mkCnt (c_polls c) (c_fwd c) (c_bwd c) (c_sim c) (c_gn c) (S (c_lb c)) (c_cb c).
  Definition inc_cb c := mkCnt (c_polls c) (c_fwd c) (c_bwd c) (c_sim c) (c_gn c) (c_lb c) (S (c_cb c)).

  (* PANOCOCPStats (the deterministic part) *)
  Record stats := mkStats {
    s_stepsize_bt : nat; s_ls_bt : nat; s_ls_fail : nat; s_lbfgs_fail : nat; s_lbfgs_rej : nat;
    s_tau1 : nat; s_count_tau : nat; s_sum_tau : T }.
  Definition stats0 := mkStats 0 0 0 0 0 0 0 n0.
  Definition inc_sbt s := mkStats (S (s_stepsize_bt s)) (s_ls_bt s) (s_ls_fail s) (s_lbfgs_fail s) (s_lbfgs_rej s) (s_tau1 s) (s_count_tau s) (s_sum_tau s).
  Definition inc_lbt s := mkStats (s_stepsize_bt s) (S (s_ls_bt s)) (s_ls_fail s) (s_lbfgs_fail s) (s_lbfgs_rej s) (s_tau1 s) (s_count_tau s) (s_sum_tau s).
  Definition b2n (b : bool) : nat := if b then 1%nat else 0%nat.

  (* one progress-callback record: (k, iterate, q, τ, ε, did_gn, nJ, status) *)
  Record cbrec := mkCb { r_k : nat; r_it : iterate; r_q : list T; r_tau : T; r_eps : T; r_gn : bool; r_nJ : Z; r_status : status }.

  (* what operator() returns / writes back *)
  Record outputs := mkOut {
    out_status : status; out_iterations : nat; out_eps : T;
    out_u : list T; out_y : list T; out_errz : list T;          (* the in/out arguments u, y, err_z after the call *)
    out_final : iterate;                                        (* *curr at the return statement *)
    out_stats : stats;
    out_log : list cbrec;                                       (* progress callbacks, oldest first *)
    out_cnt : counters }.
  (* NotFiniteL: `s.status = NotFinite; return s` before the loop; ThrewCrit: calc_error_stop_crit threw invalid_argument;
     ThrewLogic: `throw std::logic_error("enable_lbfgs")` *)
  Inductive result := Done (o : outputs) | NotFiniteL (L : T) | ThrewCrit | ThrewLogic | OutOfFuel.

  (* ------------------------------------------------------------------ the outside world *)
  Variable fwd : list T -> T * X.
  Variable sim : list T -> X.
  Variable bwd : list T -> X -> list T * QR.
  Variable cvals : X -> list T.
  Variable gn_step : nat -> list T -> X -> QR -> list bool -> list T -> list T.
  Variable lb_apply : DS -> list T -> T -> list nat -> bool * list T * DS.
  Variable lb_update : DS -> list T -> list T -> list T -> list T -> bool * DS.
  Variable lb_reset : DS -> DS.
  Variables (N nu : nat).                        (* horizon, inputs per stage *)
  Variables (Ulb Uub : list (option T)).         (* the input box U (nu sides), the same for every stage *)
  Variables (Dlb Dub : list (option T)).         (* D tiled N times followed by D_N: one side per constraint row *)
  Variable stop_req : counters -> bool.
  Variable time_up : counters -> bool.
  Variable P : params.
  Variables (u_in y_in μ errz_in : list T).
  Variables (X0 : X) (ds0 : DS).                 (* uninitialised storage; the freshly constructed LBFGS object *)

  Definition enable_lbfgs : bool := negb (p_gn_interval P =? 1)%nat.

  (* ------------------------------------------------------------------ field updates *)
  Definition set_gamma_L (i : iterate) (γ L : T) : iterate :=
    mkIt (iu i) (ix i) (iuh i) (ixh i) (igrad i) (ip i) (iul i) (ipsi i) (ipsih i) γ L (ipp i) (igp i).
  Definition set_xu (i : iterate) (u : list T) (x : X) : iterate :=
    mkIt u x (iuh i) (ixh i) (igrad i) (ip i) (iul i) (ipsi i) (ipsih i) (igam i) (iL i) (ipp i) (igp i).
  Definition set_u (i : iterate) (u : list T) : iterate := set_xu i u (ix i).
  Definition set_psi (i : iterate) (ψ : T) : iterate :=
    mkIt (iu i) (ix i) (iuh i) (ixh i) (igrad i) (ip i) (iul i) ψ (ipsih i) (igam i) (iL i) (ipp i) (igp i).
  Definition set_grad (i : iterate) (g : list T) : iterate :=
    mkIt (iu i) (ix i) (iuh i) (ixh i) g (ip i) (iul i) (ipsi i) (ipsih i) (igam i) (iL i) (ipp i) (igp i).
  Definition set_ul (i : iterate) (u : list T) : iterate :=
    mkIt (iu i) (ix i) (iuh i) (ixh i) (igrad i) (ip i) u (ipsi i) (ipsih i) (igam i) (iL i) (ipp i) (igp i).
  Definition set_uh_p (i : iterate) (uh p : list T) : iterate :=
    mkIt (iu i) (ix i) uh (ixh i) (igrad i) p (iul i) (ipsi i) (ipsih i) (igam i) (iL i) (ipp i) (igp i).
  Definition halve_it (i : iterate) : iterate :=           (* γ /= 2; L *= 2 *)
    let gl := halve_step (igam i, iL i) in set_gamma_L i (fst gl) (snd gl).

  (* ------------------------------------------------------------------ the lambdas of operator() *)
  (* eval_prox_impl(γ, xu, grad_ψ, x̂u, p): per stage t: p_t = fmin(fmax(−γ∇ψ_t, U.lb − u_t), U.ub − u_t); û_t = u_t + p_t;
     pᵀp += p_t.squaredNorm(); grad_ψᵀp += grad_ψ_t.dot(p_t).  (fmax/fmin = cwiseMax/cwiseMin unless an operand is NaN.) *)
  Definition stage_seg (t : nat) (v : list T) : list T := firstn nu (skipn (t * nu) v).
  Definition stage_sum (f : nat -> T) : T := fold_left (fun acc t => acc + f t) (seq 0 N) n0.
  Definition prox_impl (γ : T) (u g : list T) : list T * list T * T * T :=
    let r := proj_grad_step (tile N Ulb) (tile N Uub) γ u g in
    let p := snd (fst r) in
    (fst (fst r), p, stage_sum (fun t => vsqnorm (stage_seg t p)), stage_sum (fun t => vdot (stage_seg t g) (stage_seg t p))).

  (* eval_prox(i) *)
  Definition eval_prox (i : iterate) : iterate :=
    let r := prox_impl (igam i) (iu i) (igrad i) in
    mkIt (iu i) (ix i) (fst (fst (fst r))) (ixh i) (igrad i) (snd (fst (fst r))) (iul i) (ipsi i) (ipsih i) (igam i) (iL i)
         (snd (fst r)) (snd r).
  (* eval_forward(i): ψu and the simulated part of xu *)
  Definition eval_forward (i : iterate) : iterate :=
    let r := fwd (iu i) in set_psi (set_xu i (iu i) (snd r)) (fst r).
  (* eval_forward_hat(i): ψû and the simulated part of xû *)
  Definition eval_forward_hat (i : iterate) : iterate :=
    let r := fwd (iuh i) in
    mkIt (iu i) (ix i) (iuh i) (snd r) (igrad i) (ip i) (iul i) (ipsi i) (fst r) (igam i) (iL i) (ipp i) (igp i).
  (* eval_backward(i): grad_ψ (and the shared buffer qr, returned separately) *)
  Definition eval_backward (i : iterate) : iterate * QR :=
    let r := bwd (iu i) (ix i) in (set_grad i (fst r), snd r).

  (* qub_violated(i) / linesearch_violated(curr, next) *)
  Definition it_qub_violated (i : iterate) : bool :=
    qub_violated (ipsi i) (ipsih i) (igp i) (iL i) (ipp i) (p_qub_tol P).
  Definition it_ls_violated (curr next : iterate) : bool :=
    ls_violated false (p_beta P) (igam curr) (iL curr) (it_fbe curr) (ipp curr) (it_fbe next) (p_ls_tol P).

  (* calc_error_stop_crit(γ, xu, grad_ψ, p, pᵀp, work_xu, work_p); None = throw std::invalid_argument *)
  Definition it_eps (i : iterate) : option T :=
    match p_crit P with
    | ProjGradNorm => Some (vnorminf (ip i))
    | ProjGradNorm2 => Some (nsqrt (ipp i))
    | ProjGradUnitNorm => Some (vnorminf (snd (fst (fst (prox_impl n1 (iu i) (igrad i))))))
    | ProjGradUnitNorm2 => Some (nsqrt (snd (fst (prox_impl n1 (iu i) (igrad i)))))
    | FPRNorm => Some (vnorminf (ip i) / igam i)
    | FPRNorm2 => Some (nsqrt (ipp i) / igam i)
    | ApproxKKT | ApproxKKT2 | Ipopt | LBFGSBpp => None
    end.
  (* the two unit-step criteria use next->xû and next->p as work space *)
  Definition crit_scratch (curr next : iterate) : iterate :=
    match p_crit P with
    | ProjGradUnitNorm | ProjGradUnitNorm2 =>
        let r := prox_impl n1 (iu curr) (igrad curr) in set_uh_p next (fst (fst (fst r))) (snd (fst (fst r)))
    | _ => next
    end.

  (* ------------------------------------------------------------------ initial Lipschitz estimate (local lambda) *)
  Definition std_clamp (v lo hi : T) : T := if v <? lo then lo else if hi <? v then hi else v.
  (* g > 0 ? std::max(g * ε, δ) : std::min(g * ε, -δ) *)
  Definition lipschitz_h (grad : list T) : list T :=
    map (fun g => if n0 <? g then cmax (g * p_lip_eps P) (p_lip_delta P) else cmin (g * p_lip_eps P) (- p_lip_delta P)) grad.

  Definition it_blank : iterate := mkIt [] X0 [] X0 [] [] [] n0 n0 n0 n0 n0 n0.   (* uninitialised Iterate *)

  (* after "Estimate Lipschitz constant": (curr, next, qr, counters); curr has u, X, ψu, grad_ψ, L *)
  Definition init_L : iterate * iterate * QR * counters :=
    let c0 := mkIt u_in X0 [] X0 [] [] (if enable_lbfgs then u_in else []) n0 n0 n0 n0 n0 n0 in
    let c1 := eval_forward c0 in
    let '(c2, qr1) := eval_backward c1 in
    let cnt := inc_bwd (inc_fwd cnt0) in
    if p_L0 P <=? n0 then
      let h := lipschitz_h (igrad c2) in
      let norm_h := vnorm2 h in
      let wu := vsub (iu c2) h in                           (* work_xu = next->xu *)
      let wx := sim wu in
      let r := bwd wu wx in                                 (* work_grad_ψ = next->grad_ψ; qr is overwritten *)
      let L := std_clamp (vnorm2 (vsub (fst r) (igrad c2)) / norm_h) (p_Lmin P) (p_Lmax P) in
      (set_gamma_L c2 (igam c2) L, set_grad (set_xu it_blank wu wx) (fst r), snd r, inc_bwd (inc_sim cnt))
    else
      (set_gamma_L c2 (igam c2) (p_L0 P), it_blank, qr1, cnt).

  (* while (curr->L < L_max && qub_violated(curr)) { γ /= 2; L *= 2; eval_prox; eval_forward_hat; ++stepsize_backtracks } *)
  Fixpoint init_qub (fuel : nat) (i : iterate) (c : counters) (s : stats) : option (iterate * counters * stats) :=
    if (iL i <? p_Lmax P) && it_qub_violated i then
      match fuel with
      | O => None
      | S f => init_qub f (eval_forward_hat (eval_prox (halve_it i))) (inc_fwd c) (inc_sbt s)
      end
    else Some (i, c, s).

  (* ------------------------------------------------------------------ direction *)
  (* is_constr_inactive: gs = u_i − γ ∇ψ_i; active_lb = gs <= U.lb_i; active_ub = gs >= U.ub_i  (infinite side: never active) *)
  Definition act_lb (l : option T) (gs : T) : bool := match l with Some b => gs <=? b | None => false end.
  Definition act_ub (u : option T) (gs : T) : bool := match u with Some b => b <=? gs | None => false end.
  Definition bsub (b : option T) (ui : T) : T := match b with Some v => v - ui | None => n0 end.
  Definition qat (q : list T) (i : nat) : T := nth i q n0.
  Definition box_at (i : nat) : option T * option T := (nth i (tile N Ulb) None, nth i (tile N Uub) None).
  (* Gauss-Newton branch: returns (inactive?, q_i) — active at the upper bound first *)
  Definition gn_class (γ : T) (q : list T) (i : nat) (ui gi : T) : bool * T :=
    let gs := ui - γ * gi in
    let '(l, u) := box_at i in
    if act_ub u gs then (false, bsub u ui) else if act_lb l gs then (false, bsub l ui) else (true, qat q i).
  (* L-BFGS branch: q_i = p_i on the active set, −∇ψ_i on the inactive set *)
  Definition lb_class (γ : T) (p : list T) (i : nat) (ui gi : T) : bool * T :=
    let gs := ui - γ * gi in
    let '(l, u) := box_at i in
    if act_ub u gs || act_lb l gs then (false, qat p i) else (true, - gi).
  Definition classify (f : nat -> T -> T -> bool * T) (u g : list T) : list (bool * T) :=
    map3 f (seq 0 (length u)) u g.
  Definition idx_true (m : list bool) : list nat :=
    map fst (filter (fun ib => snd ib) (combine (seq 0 (length m)) m)).
  Definition count_true (m : list bool) : Z := Z.of_nat (length (filter (fun b => b) m)).

  (* ------------------------------------------------------------------ line search *)
  Record ls_state := mkLs {
    ls_curr : iterate; ls_next : iterate; ls_tau : T; ls_tau_prev : T;
    ls_do_gn : bool;                  (* do_gn_step (reset to do_next_gn by an accelerated step with τ != 1) *)
    ls_ds : DS; ls_qr : QR;
    ls_cnt : counters; ls_stats : stats }.
  Inductive ls_result := LsDone (s : ls_state) | LsStopped (s : ls_state) | LsFuel.

  (* take_safe_step: next->xu = curr->xû; next->ψu = curr->ψû; eval_backward(next) *)
  Definition take_safe_step (curr next : iterate) : iterate * QR :=
    eval_backward (set_psi (set_xu next (iuh curr) (ixh curr)) (ipsih curr)).
  (* take_accelerated_step(τ): u + q  |  u + (1-τ) p + τ q ; eval_forward; eval_backward *)
  Definition take_accel_step (τ : T) (q : list T) (curr next : iterate) : iterate * QR :=
    eval_backward (eval_forward (set_u next (panoc_candidate τ (iu curr) (ip curr) q))).

  Fixpoint ls_loop (fuel : nat) (q : list T) (tau_init : T) (do_next_gn : bool) (s : ls_state) : ls_result :=
    match fuel with
    | O => LsFuel
    | S f =>
      (* while (!stop_signal.stop_requested()) *)
      let stop := stop_req (ls_cnt s) in
      let c0 := inc_polls (ls_cnt s) in
      if stop then LsStopped (mkLs (ls_curr s) (ls_next s) (ls_tau s) (ls_tau_prev s) (ls_do_gn s) (ls_ds s) (ls_qr s) c0 (ls_stats s))
      else
        let τ := ls_tau s in
        let curr := ls_curr s in
        (* if (τ != τ_prev) { τ != 0 ? take_accelerated_step(τ) : take_safe_step(); τ_prev = τ; } *)
        let '(next, qr, c1, do_gn) :=
          if τ =? ls_tau_prev s then (ls_next s, ls_qr s, c0, ls_do_gn s)
          else if τ =? n0 then let r := take_safe_step curr (ls_next s) in (fst r, snd r, inc_bwd c0, ls_do_gn s)
          else let r := take_accel_step τ q curr (ls_next s) in
               (fst r, snd r, inc_bwd (inc_fwd c0), if τ =? n1 then ls_do_gn s else do_next_gn) in
        let τ_prev := τ in
        (* fail = next->L >= L_max || !isfinite(next->ψu) *)
        let fail := (p_Lmax P <=? iL next) || negb (nfinite (ipsi next)) in
        if (n0 <? τ) && fail then
          (* next->L = curr->L; next->γ = curr->γ; τ = 0; if (enable_lbfgs) lbfgs.reset(); continue *)
          ls_loop f q tau_init do_next_gn
                  (mkLs curr (set_gamma_L next (igam curr) (iL curr)) n0 τ_prev do_gn
                        (if enable_lbfgs then lb_reset (ls_ds s) else ls_ds s) qr c1 (ls_stats s))
        else
          let next1 := eval_forward_hat (eval_prox next) in
          let c2 := inc_fwd c1 in
          if (iL next1 <? p_Lmax P) && it_qub_violated next1 then
            (* γ /= 2; L *= 2; if (τ > 0) τ = τ_init; ++stepsize_backtracks; continue *)
            ls_loop f q tau_init do_next_gn
                    (mkLs curr (halve_it next1) (if n0 <? τ then tau_init else τ) τ_prev do_gn (ls_ds s) qr c2 (inc_sbt (ls_stats s)))
          else if (n0 <? τ) && it_ls_violated curr next1 then
            (* τ /= 2; if (τ < τ_min) τ = 0; ++linesearch_backtracks; continue *)
            let τ1 := τ / n2 in
            let τ2 := if τ1 <? p_tau_min P then n0 else τ1 in
            ls_loop f q tau_init do_next_gn (mkLs curr next1 τ2 τ_prev do_gn (ls_ds s) qr c2 (inc_lbt (ls_stats s)))
          else LsDone (mkLs curr next1 τ τ_prev do_gn (ls_ds s) qr c2 (ls_stats s))
    end.

  (* ------------------------------------------------------------------ one pass of `while (true)` *)
  Record lstate := mkSt {
    st_curr : iterate; st_next : iterate; st_k : nat; st_np : nat; st_q : list T; st_qr : QR; st_ds : DS;
    st_do_gn : bool; st_nJ : Z;
    st_cnt : counters; st_stats : stats; st_log : list cbrec (* newest first *) }.
  Inductive pass_result := PExit (o : outputs) | PCont (s : lstate) | PFuel | PThrowCrit | PThrowLogic.

  (* write_solution(it): err_z, y per constraint row from the c stored in xû; u = û *)
  Definition write_solution (i : iterate) : list T * list T * list T :=
    let rows := ocp_write Dlb Dub (cvals (ixh i)) y_in μ in
    (iuh i, map fst rows, map snd rows).
  Definition exit_values (st : status) (i : iterate) : list T * list T * list T :=
    if overwrites st (o_always P) then write_solution i else (u_in, y_in, errz_in).

  Variable ls_fuel : nat.

  Definition pass (s : lstate) : pass_result :=
    let curr := st_curr s in
    let k := st_k s in
    match it_eps curr with
    | None => PThrowCrit
    | Some ε =>
      let next0 := crit_scratch curr (st_next s) in
      (* check_all_stop_conditions: time test, then ONE poll of the stop flag *)
      let c0 := st_cnt s in
      let te := time_up c0 in
      let sr := stop_req c0 in
      let c1 := inc_polls c0 in
      match stop_status_ocp (o_tol P) ε te k (p_max_iter P) (st_np s) (p_max_no_progress P) sr with
      | StBusy =>
          (* τ_init = 1; did_gn = do_gn_step *)
          let did_gn := st_do_gn s in
          let γ := igam curr in
          let dir :=                      (* Some (τ_init, q, nJ, ds, counters) | None = logic_error *)
            if p_disable_acc P then Some (n0, st_q s, st_nJ s, st_ds s, c1)
            else if st_do_gn s then
              let cl := classify (gn_class γ (st_q s)) (iu curr) (igrad curr) in
              let mask := map fst cl in
              Some (n1, gn_step (c_gn c1) (iu curr) (ix curr) (st_qr s) mask (map snd cl), count_true mask, st_ds s, inc_gn c1)
            else if negb enable_lbfgs then None
            else
              let cl := classify (lb_class γ (ip curr)) (iu curr) (igrad curr) in
              let mask := map fst cl in
              let '(ok, q', ds') := lb_apply (st_ds s) (map snd cl) γ (idx_true mask) in
              Some (if ok then n1 else n0, q', count_true mask, ds', inc_lb c1) in
          match dir with
          | None => PThrowLogic
          | Some (τ0, q, nJ, ds1, c2) =>
            (* if (not q.allFinite()) { τ_init = 0; if (not did_gn) lbfgs.reset(); } *)
            let fin := vall_finite q in
            let tau_init := if fin then τ0 else n0 in
            let ds2 := if fin then ds1 else if did_gn then ds1 else lb_reset ds1 in
            (* s.lbfgs_failures += (τ_init == 0 && k > 0) *)
            let z := st_stats s in
            let stats1 := mkStats (s_stepsize_bt z) (s_ls_bt z) (s_ls_fail z)
                                  (s_lbfgs_fail z + b2n ((tau_init =? n0) && (0 <? k)%nat)) (s_lbfgs_rej z)
                                  (s_tau1 z) (s_count_tau z) (s_sum_tau z) in
            (* do_next_gn = gn_interval > 0 && (k+1) % gn_interval == 0 && !disable_acceleration;
               do_gn_step = do_next_gn || (do_gn_step && gn_sticky) *)
            let do_next_gn := (0 <? p_gn_interval P)%nat && (Nat.modulo (S k) (p_gn_interval P) =? 0)%nat && negb (p_disable_acc P) in
            let do_gn1 := do_next_gn || (st_do_gn s && p_gn_sticky P) in
            (* next->γ = curr->γ; next->L = curr->L; τ = τ_init; τ_prev = -1 *)
            let ls0 := mkLs curr (set_gamma_L next0 (igam curr) (iL curr)) tau_init (- n1) do_gn1 ds2 (st_qr s) c2 stats1 in
            match ls_loop ls_fuel q tau_init do_next_gn ls0 with
            | LsFuel => PFuel
            | LsStopped l =>      (* !linesearch_completed: continue *)
                PCont (mkSt (ls_curr l) (ls_next l) k (st_np s) q (ls_qr l) (ls_ds l) (ls_do_gn l) nJ (ls_cnt l) (ls_stats l) (st_log s))
            | LsDone l =>
                let next := ls_next l in let τ := ls_tau l in
                let z := ls_stats l in
                let np := match no_progress_update (st_np s) k (p_max_no_progress P) (veqb (iu curr) (iu next)) with
                          | Some v => v | None => st_np s end in
                (* Update L-BFGS *)
                let next2 := if enable_lbfgs then set_ul next (iu next) else next in     (* assign_extract_u(next->xu, next->u) *)
                let '(ds3, rej) :=
                  if enable_lbfgs then
                    let reset_because_gn := did_gn && p_reset_on_gn P in
                    let d1 := if reset_because_gn || negb (igam curr =? igam next2) then lb_reset (ls_ds l) else ls_ds l in
                    if reset_because_gn then (d1, false)
                    else let r := lb_update d1 (iul curr) (iul next2) (igrad curr) (igrad next2) in (snd r, negb (fst r))
                  else (ls_ds l, false) in
                let stats2 := mkStats (s_stepsize_bt z) (s_ls_bt z)
                                      (s_ls_fail z + b2n ((τ =? n0) && (n0 <? tau_init)))
                                      (s_lbfgs_fail z) (s_lbfgs_rej z + b2n rej)
                                      (s_tau1 z + b2n (τ =? n1))
                                      (s_count_tau z + b2n (n0 <? tau_init))
                                      (s_sum_tau z + τ) in
                (* do_progress_cb(k, *curr, q, τ, εₖ, did_gn, nJ, Busy); swap; ++k *)
                let rec := mkCb k curr q τ ε did_gn nJ StBusy in
                PCont (mkSt next2 curr (S k) np q (ls_qr l) ds3 (ls_do_gn l) nJ (inc_cb (ls_cnt l)) stats2 (rec :: st_log s))
            end
          end
      | st =>
          (* do_progress_cb(k, *curr, null_vec, -1, εₖ, false, 0, stop_status); write_solution if Converged / Interrupted / always *)
          let rec := mkCb k curr [] (- n1) ε false 0%Z st in
          let '(uo, yo, eo) := exit_values st curr in
          PExit (mkOut st k ε uo yo eo curr (st_stats s) (rev (rec :: st_log s)) (inc_cb c1))
      end
    end.

  Fixpoint loop (fuel : nat) (s : lstate) : result :=
    match fuel with
    | O => OutOfFuel
    | S f => match pass s with
             | PExit o => Done o
             | PCont s' => loop f s'
             | PFuel => OutOfFuel
             | PThrowCrit => ThrewCrit
             | PThrowLogic => ThrewLogic
             end
    end.

  (* ------------------------------------------------------------------ operator() *)
  Definition first_iterate (i0 : iterate) : iterate :=
    eval_forward_hat (eval_prox (set_gamma_L i0 (p_Lgamma P / iL i0) (iL i0))).

  Definition panoc_ocp (fuel : nat) : result :=
    let '(i0, nx0, qr0, c0) := init_L in
    if negb (nfinite (iL i0)) then NotFiniteL (iL i0)       (* s.status = NotFinite; return s;  (nothing written) *)
    else
      match init_qub ls_fuel (first_iterate i0) (inc_fwd c0) stats0 with
      | None => OutOfFuel
      | Some (i3, c1, s1) =>
          (* do_gn_step = gn_interval > 0 and !disable_acceleration; did_gn = false; k = 0; nJ = -1; no_progress = 0 *)
          loop fuel (mkSt i3 nx0 0 0 [] qr0 ds0 ((0 <? p_gn_interval P)%nat && negb (p_disable_acc P)) (-1)%Z c1 s1 [])
      end.
End PanocOcpLoop.

(* the storage / buffer / direction-state types are implicit for the records and their projections *)
Arguments mkIt {T X}. Arguments iu {T X}. Arguments ix {T X}. Arguments iuh {T X}. Arguments ixh {T X}. Arguments igrad {T X}.
Arguments ip {T X}. Arguments iul {T X}. Arguments ipsi {T X}. Arguments ipsih {T X}. Arguments igam {T X}. Arguments iL {T X}.
Arguments ipp {T X}. Arguments igp {T X}. Arguments it_fbe {T H X}.
Arguments mkCb {T X}. Arguments r_k {T X}. Arguments r_it {T X}. Arguments r_q {T X}. Arguments r_tau {T X}. Arguments r_eps {T X}.
Arguments r_gn {T X}. Arguments r_nJ {T X}. Arguments r_status {T X}.
Arguments mkOut {T X}. Arguments out_status {T X}. Arguments out_iterations {T X}. Arguments out_eps {T X}. Arguments out_u {T X}.
Arguments out_y {T X}. Arguments out_errz {T X}. Arguments out_final {T X}. Arguments out_stats {T X}. Arguments out_log {T X}.
Arguments out_cnt {T X}.
Arguments Done {T X}. Arguments NotFiniteL {T X}. Arguments ThrewCrit {T X}. Arguments ThrewLogic {T X}. Arguments OutOfFuel {T X}.
Arguments mkLs {T X QR DS}. Arguments ls_curr {T X QR DS}. Arguments ls_next {T X QR DS}. Arguments ls_tau {T X QR DS}.
Arguments ls_tau_prev {T X QR DS}. Arguments ls_do_gn {T X QR DS}. Arguments ls_ds {T X QR DS}. Arguments ls_qr {T X QR DS}.
Arguments ls_cnt {T X QR DS}. Arguments ls_stats {T X QR DS}.
Arguments LsDone {T X QR DS}. Arguments LsStopped {T X QR DS}. Arguments LsFuel {T X QR DS}.
Arguments mkSt {T X QR DS}. Arguments st_curr {T X QR DS}. Arguments st_next {T X QR DS}. Arguments st_k {T X QR DS}.
Arguments st_np {T X QR DS}. Arguments st_q {T X QR DS}. Arguments st_qr {T X QR DS}. Arguments st_ds {T X QR DS}.
Arguments st_do_gn {T X QR DS}. Arguments st_nJ {T X QR DS}. Arguments st_cnt {T X QR DS}. Arguments st_stats {T X QR DS}.
Arguments st_log {T X QR DS}.
Arguments PExit {T X QR DS}. Arguments PCont {T X QR DS}. Arguments PFuel {T X QR DS}. Arguments PThrowCrit {T X QR DS}.
Arguments PThrowLogic {T X QR DS}.
