(* Properties_C15.v — C15: proximal / projection operators return the true minimiser.
   Only theorem statements closed by `exact`, each followed by Print Assumptions. *)
From Coq Require Import Reals List ZArith Lra.
From Alpaqa Require Import Num NumR Vec Prox ProxProofs ProxVec ProxGenLib ProxGen ProxGenEq.
Import ListNotations.
Local Open Scope R_scope.

(* (1) box projection: feasible, and strongly minimal => the unique minimiser of δ_C(u) + (u-v)²/(2γ) *)
Theorem C15_proj_feasible : forall lb ub v, box_ne lb ub -> in_box lb ub (proj1 lb ub v).
Proof. exact proj1_in_box. Qed.
Print Assumptions C15_proj_feasible.

Theorem C15_proj_is_argmin : forall lb ub v u, box_ne lb ub -> in_box lb ub u ->
  (proj1 lb ub v - v)² + (u - proj1 lb ub v)² <= (u - v)².
Proof. exact proj1_strong_argmin. Qed.
Print Assumptions C15_proj_is_argmin.

Theorem C15_proj_optimality_condition : forall lb ub v u, box_ne lb ub -> in_box lb ub u ->
  (v - proj1 lb ub v) * (u - proj1 lb ub v) <= 0.
Proof. exact proj1_variational. Qed.
Print Assumptions C15_proj_optimality_condition.

(* (2) the step p equals output minus input *)
Theorem C15_proj_step_is_out_minus_in : forall lb ub γ x g,
  x + proj_step1 lb ub γ x g = proj1 lb ub (x - γ * g).
Proof. exact proj_step1_is_proj. Qed.
Print Assumptions C15_proj_step_is_out_minus_in.

Theorem C15_box_prox_step_is_out_minus_in : forall lb ub γf x d,
  x + box_prox_step1 lb ub γf x d = proj1 lb ub (x + γf * d).
Proof. exact box_prox_step1_is_proj. Qed.
Print Assumptions C15_box_prox_step_is_out_minus_in.

(* (3) l1 norm: strong minimality (argmin + uniqueness) and subgradient form *)
Theorem C15_l1_prox_is_argmin : forall λ γ v u, 0 <= λ -> 0 < γ ->
  obj_l1 λ γ v (l1_prox1 λ γ v) + (u - l1_prox1 λ γ v)² / (2 * γ) <= obj_l1 λ γ v u.
Proof. exact l1_prox1_strong_argmin. Qed.
Print Assumptions C15_l1_prox_is_argmin.

Theorem C15_l1_prox_subgradient : forall λ γ v, 0 <= λ -> 0 < γ ->
  let o := l1_prox1 λ γ v in
  (0 < o -> (v - o) / γ = λ) /\ (o < 0 -> (v - o) / γ = - λ) /\ (o = 0 -> Rabs ((v - o) / γ) <= λ).
Proof. exact l1_prox1_subgrad. Qed.
Print Assumptions C15_l1_prox_subgradient.

(* (4) box + l1 forward-backward step of BoxConstrProblem (lb <= 0 <= ub) *)
Theorem C15_box_l1_step_is_prox_of_forward_point : forall lb ub λ γ x g,
  0 <= λ -> 0 < γ -> lb_ok lb 0 -> ub_ok ub 0 ->
  x + box_l1_step1 lb ub λ γ x g = proj1 lb ub (l1_prox1 λ γ (x - γ * g)).
Proof. exact box_l1_step1_cases. Qed.
Print Assumptions C15_box_l1_step_is_prox_of_forward_point.

Theorem C15_box_l1_is_argmin : forall lb ub λ γ v u,
  0 <= λ -> 0 < γ -> lb_ok lb 0 -> ub_ok ub 0 -> in_box lb ub u ->
  let o := proj1 lb ub (l1_prox1 λ γ v) in
  in_box lb ub o /\ obj_l1 λ γ v o + (u - o)² / (2 * γ) <= obj_l1 λ γ v u.
Proof. exact box_l1_strong_argmin. Qed.
Print Assumptions C15_box_l1_is_argmin.

(* (5) complex l1 norm (group soft threshold on (re, im)) *)
Theorem C15_l1c_prox_is_argmin : forall λ γ v u, 0 <= λ -> 0 < γ ->
  obj_l1c λ γ v (l1c_prox1 λ γ v) <= obj_l1c λ γ v u.
Proof. exact l1c_prox1_argmin. Qed.
Print Assumptions C15_l1c_prox_is_argmin.

(* (6) inactive indices: reported <=> the mapping is locally the identity shift *)
Theorem C15_inactive_implies_local_shift : forall lb ub λ γ x g,
  0 <= λ -> 0 < γ -> lb_ok lb 0 -> ub_ok ub 0 ->
  inactive1 lb ub λ γ x g = true ->
  exists ε, 0 < ε /\ forall δ, Rabs δ < ε ->
     fb1 lb ub λ γ (x - γ * g + δ) = fb1 lb ub λ γ (x - γ * g) + δ.
Proof. exact inactive1_locally_shift. Qed.
Print Assumptions C15_inactive_implies_local_shift.

Theorem C15_not_inactive_implies_not_local_shift : forall lb ub λ γ x g,
  0 <= λ -> 0 < γ -> lb_ok lb 0 -> ub_ok ub 0 ->
  inactive1 lb ub λ γ x g = false ->
  forall ε, 0 < ε -> exists δ, Rabs δ < ε /\
     fb1 lb ub λ γ (x - γ * g + δ) <> fb1 lb ub λ γ (x - γ * g) + δ.
Proof. exact not_inactive1_not_shift. Qed.
Print Assumptions C15_not_inactive_implies_not_local_shift.

(* (7) multiplier projection *)
Theorem C15_proj_multiplier_spec : forall lb ub M y, 0 <= M ->
  let o := proj_mult1 lb ub M y in
  - M <= o <= M /\ (lb = None -> 0 <= o) /\ (ub = None -> o <= 0) /\
  (forall l u, lb = Some l -> ub = Some u -> o = Rmax (- M) (Rmin y M)) /\
  ((lb = None -> 0 <= y) -> (ub = None -> y <= 0) -> - M <= y <= M -> o = y).
Proof. exact proj_mult1_spec. Qed.
Print Assumptions C15_proj_multiplier_spec.

Theorem C15_proj_multipliers_vector : forall k lb ub M y,
  0 <= M -> length lb = length y -> length ub = length y ->
  let o := proj_multipliers k lb ub M y in
  length o = length y /\
  forall i, (i < length y)%nat ->
    ((i < k)%nat -> nth i o 0 = 0) /\
    ((k <= i)%nat -> nth i o 0 = proj_mult1 (nth i lb None) (nth i ub None) M (nth i y 0)).
Proof. exact proj_multipliers_spec. Qed.
Print Assumptions C15_proj_multipliers_vector.

(* (8) vector level: every component of the step of BoxConstrProblem is the scalar operator *)
Theorem C15_proj_grad_step_componentwise : forall lb ub γ x g n,
  length lb = n -> length ub = n -> length x = n -> length g = n ->
  forall i, (i < n)%nat ->
  let res := proj_grad_step lb ub γ x g in
  nth i (fst (fst res)) 0 = proj1 (nth i lb None) (nth i ub None) (nth i x 0 - γ * nth i g 0) /\
  nth i (snd (fst res)) 0 = nth i (fst (fst res)) 0 - nth i x 0 /\ snd res = 0.
Proof. exact proj_grad_step_nth. Qed.
Print Assumptions C15_proj_grad_step_componentwise.

Theorem C15_box_l1_grad_step_componentwise : forall lb ub λ γ x g n,
  length lb = n -> length ub = n -> length λ = n -> length x = n -> length g = n -> 0 < γ ->
  forall i, (i < n)%nat -> 0 <= nth i λ 0 -> lb_ok (nth i lb None) 0 -> ub_ok (nth i ub None) 0 ->
  let res := box_l1_grad_step lb ub λ γ x g in
  nth i (fst (fst res)) 0 =
    proj1 (nth i lb None) (nth i ub None) (l1_prox1 (nth i λ 0) γ (nth i x 0 - γ * nth i g 0)) /\
  nth i (snd (fst res)) 0 = nth i (fst (fst res)) 0 - nth i x 0.
Proof. exact box_l1_grad_step_nth. Qed.
Print Assumptions C15_box_l1_grad_step_componentwise.

Theorem C15_box_l1_returned_h_value : forall lb ub λ γ x g,
  let res := box_l1_grad_step lb ub λ γ x g in
  snd res = rsum (map2 (fun a l => Rabs (a * l)) (fst (fst res)) λ).
Proof. exact box_l1_grad_step_h. Qed.
Print Assumptions C15_box_l1_returned_h_value.

(* separable sums: componentwise minimality gives vector minimality *)
Theorem C15_separable_sum_minimal : forall f g : list R, Forall2 Rle f g -> rsum f <= rsum g.
Proof. exact vector_argmin. Qed.
Print Assumptions C15_separable_sum_minimal.

(* (9) tie to the source: the definitions GENERATED from box.hpp / box-constr-problem.hpp / l1-norm.hpp on every run
   (coq/gen/ProxGen.v, translate/gen_prox.py) equal the model above, so every theorem of this file transfers to them;
   the main ones are restated for the generated terms.  A change of the C++ expressions breaks these obligations. *)
Theorem C15_gen_kernels_equal_model : forall lb ub λ γ M x g v y,
  g_proj1 lb ub v = proj1 lb ub v /\ g_projdiff1 lb ub v = projdiff1 lb ub v /\
  g_proj_step1 lb ub γ x g = proj_step1 lb ub γ x g /\
  g_prox_step_l1_1 lb ub λ γ x g = box_l1_step1 lb ub λ γ x g /\
  g_l1_prox1 λ γ v = l1_prox1 λ γ v /\ g_l1_prox_w1 λ γ v = l1_prox1 λ γ v /\
  g_proj_multiplier1 lb ub M y = proj_mult1 lb ub M y /\
  g_inactive1 lb ub λ γ x g = inactive1 lb ub λ γ x g /\
  g_inactive_box1 lb ub γ x g = in_interior lb ub (x - γ * g) /\
  g_box_prox1 lb ub v = proj1 lb ub v /\ g_box_prox_step1 lb ub γ x g = box_prox_step1 lb ub γ x g.
Proof.
  exact (fun lb ub λ γ M x g v y =>
    conj (g_proj1_eq lb ub v) (conj (g_projdiff1_eq lb ub v) (conj (g_proj_step1_eq lb ub γ x g)
    (conj (g_prox_step_l1_1_eq lb ub λ γ x g) (conj (g_l1_prox1_eq λ γ v) (conj (g_l1_prox_w1_eq λ γ v)
    (conj (g_proj_multiplier1_eq lb ub M y) (conj (g_inactive1_eq lb ub λ γ x g) (conj (g_inactive_box1_eq lb ub γ x g)
    (conj (g_box_prox1_eq lb ub v) (g_box_prox_step1_eq lb ub γ x g))))))))))).
Qed.
Print Assumptions C15_gen_kernels_equal_model.

Theorem C15_gen_l1c_equals_model : forall λ γ z, g_l1c_prox1 λ γ z = l1c_prox1 λ γ z.
Proof. exact g_l1c_prox1_eq. Qed.
Print Assumptions C15_gen_l1c_equals_model.

Theorem C15_gen_eval_prox_grad_step_equals_model : forall lb ub l1 γ x g,
  g_eval_prox_grad_step lb ub l1 γ x g = eval_prox_grad_step lb ub l1 γ x g.
Proof. exact g_eval_prox_grad_step_eq. Qed.
Print Assumptions C15_gen_eval_prox_grad_step_equals_model.

Theorem C15_gen_inactive_indices_equals_model : forall lb ub l1 γ x g,
  g_inactive_indices lb ub l1 γ x g = inactive_indices lb ub l1 γ x g.
Proof. exact g_inactive_indices_eq. Qed.
Print Assumptions C15_gen_inactive_indices_equals_model.

Theorem C15_gen_proj_multipliers_equals_model : forall k lb ub M y,
  length lb = length y -> length ub = length y -> (k <= length y)%nat ->
  g_proj_multipliers k lb ub M y = proj_multipliers k lb ub M y.
Proof. exact g_proj_multipliers_eq. Qed.
Print Assumptions C15_gen_proj_multipliers_equals_model.

Theorem C15_gen_projdiff_equals_model : forall lb ub z,
  g_proj lb ub z = proj lb ub z /\ g_projdiff lb ub z = projdiff lb ub z /\ g_proj_diff_g lb ub z = projdiff lb ub z /\
  g_dist_squared lb ub z = vsqnorm (projdiff lb ub z).
Proof.
  exact (fun lb ub z => conj (g_proj_eq lb ub z) (conj (g_projdiff_eq lb ub z) (conj (g_proj_diff_g_eq lb ub z) (g_dist_squared_eq lb ub z)))).
Qed.
Print Assumptions C15_gen_projdiff_equals_model.

Theorem C15_gen_l1_prox_equals_model : forall λ λv γ v,
  g_l1_prox_scal λ γ v = l1_prox_scal λ γ v /\ g_l1_prox_vec λv γ v = l1_prox_vec λv γ v.
Proof. exact (fun λ λv γ v => conj (g_l1_prox_scal_eq λ γ v) (g_l1_prox_vec_eq λv γ v)). Qed.
Print Assumptions C15_gen_l1_prox_equals_model.

(* projection (generated term) is feasible and the unique minimiser *)
Theorem C15_gen_proj_feasible : forall lb ub v, box_ne lb ub -> in_box lb ub (g_proj1 lb ub v).
Proof. exact g_proj1_in_box. Qed.
Print Assumptions C15_gen_proj_feasible.

Theorem C15_gen_proj_is_argmin : forall lb ub v u, box_ne lb ub -> in_box lb ub u ->
  (g_proj1 lb ub v - v)² + (u - g_proj1 lb ub v)² <= (u - v)².
Proof. exact g_proj1_strong_argmin. Qed.
Print Assumptions C15_gen_proj_is_argmin.

Theorem C15_gen_proj_step_is_out_minus_in : forall lb ub γ x g,
  x + g_proj_step1 lb ub γ x g = g_proj1 lb ub (x - γ * g).
Proof. exact g_proj_step1_is_proj. Qed.
Print Assumptions C15_gen_proj_step_is_out_minus_in.

(* prox of box + l1 (generated step): lands in the box on the unique minimiser; the returned value is h(x̂) *)
Theorem C15_gen_box_l1_step_is_argmin : forall lb ub λ γ x g u,
  0 <= λ -> 0 < γ -> lb_ok lb 0 -> ub_ok ub 0 -> in_box lb ub u ->
  let o := x + g_prox_step_l1_1 lb ub λ γ x g in
  in_box lb ub o /\ obj_l1 λ γ (x - γ * g) o + (u - o)² / (2 * γ) <= obj_l1 λ γ (x - γ * g) u.
Proof. exact g_prox_step_l1_1_is_argmin. Qed.
Print Assumptions C15_gen_box_l1_step_is_argmin.

Theorem C15_gen_box_l1_returned_h_value : forall lb ub λ γ x g,
  let res := g_prox_grad_step_l1 lb ub λ γ x g in
  snd res = rsum (map2 (fun a l => Rabs (a * l)) (fst (fst res)) λ).
Proof. exact g_prox_grad_step_l1_h. Qed.
Print Assumptions C15_gen_box_l1_returned_h_value.

Theorem C15_gen_box_l1_grad_step_componentwise : forall lb ub λ γ x g n,
  length lb = n -> length ub = n -> length λ = n -> length x = n -> length g = n -> 0 < γ ->
  forall i, (i < n)%nat -> 0 <= nth i λ 0 -> lb_ok (nth i lb None) 0 -> ub_ok (nth i ub None) 0 ->
  let res := g_prox_grad_step_l1 lb ub λ γ x g in
  nth i (fst (fst res)) 0 =
    g_proj1 (nth i lb None) (nth i ub None) (g_l1_prox1 (nth i λ 0) γ (nth i x 0 - γ * nth i g 0)) /\
  nth i (snd (fst res)) 0 = nth i (fst (fst res)) 0 - nth i x 0.
Proof. exact g_prox_grad_step_l1_nth. Qed.
Print Assumptions C15_gen_box_l1_grad_step_componentwise.

Theorem C15_gen_l1_prox_is_argmin : forall λ γ v u, 0 <= λ -> 0 < γ ->
  obj_l1 λ γ v (g_l1_prox1 λ γ v) + (u - g_l1_prox1 λ γ v)² / (2 * γ) <= obj_l1 λ γ v u.
Proof. exact g_l1_prox1_strong_argmin. Qed.
Print Assumptions C15_gen_l1_prox_is_argmin.

(* multiplier projection (generated): bounds and signs; blocks of the vector *)
Theorem C15_gen_proj_multiplier_spec : forall lb ub M y, 0 <= M ->
  let o := g_proj_multiplier1 lb ub M y in
  - M <= o <= M /\ (lb = None -> 0 <= o) /\ (ub = None -> o <= 0) /\
  (forall l u, lb = Some l -> ub = Some u -> o = Rmax (- M) (Rmin y M)) /\
  ((lb = None -> 0 <= y) -> (ub = None -> y <= 0) -> - M <= y <= M -> o = y).
Proof. exact g_proj_multiplier1_spec. Qed.
Print Assumptions C15_gen_proj_multiplier_spec.

Theorem C15_gen_proj_multipliers_vector : forall k lb ub M y,
  0 <= M -> length lb = length y -> length ub = length y -> (k <= length y)%nat ->
  let o := g_proj_multipliers k lb ub M y in
  length o = length y /\
  forall i, (i < length y)%nat ->
    ((i < k)%nat -> nth i o 0 = 0) /\
    ((k <= i)%nat -> nth i o 0 = g_proj_multiplier1 (nth i lb None) (nth i ub None) M (nth i y 0)).
Proof. exact g_proj_multipliers_spec. Qed.
Print Assumptions C15_gen_proj_multipliers_vector.

(* inactive-index rule (generated): reported <=> the generated forward-backward map is locally the identity shift *)
Theorem C15_gen_inactive_implies_local_shift : forall lb ub λ γ x g,
  0 <= λ -> 0 < γ -> lb_ok lb 0 -> ub_ok ub 0 ->
  g_inactive1 lb ub λ γ x g = true ->
  exists ε, 0 < ε /\ forall δ, Rabs δ < ε ->
     g_fb1 lb ub λ γ (x - γ * g + δ) = g_fb1 lb ub λ γ (x - γ * g) + δ.
Proof. exact g_inactive1_locally_shift. Qed.
Print Assumptions C15_gen_inactive_implies_local_shift.

Theorem C15_gen_not_inactive_implies_not_local_shift : forall lb ub λ γ x g,
  0 <= λ -> 0 < γ -> lb_ok lb 0 -> ub_ok ub 0 ->
  g_inactive1 lb ub λ γ x g = false ->
  forall ε, 0 < ε -> exists δ, Rabs δ < ε /\
     g_fb1 lb ub λ γ (x - γ * g + δ) <> g_fb1 lb ub λ γ (x - γ * g) + δ.
Proof. exact g_not_inactive1_not_shift. Qed.
Print Assumptions C15_gen_not_inactive_implies_not_local_shift.

(* non-vacuity: the hypotheses are met by concrete data, and the operators do something there *)
Example C15_nonvacuous :
  box_ne (Some (-1)) (Some 2) /\ in_box (Some (-1)) (Some 2) 1 /\ lb_ok (Some (-1)) 0 /\ ub_ok (Some 2) 0 /\
  proj1 (Some (-1)) (Some 2) 5 = 2 /\ l1_prox1 1 (1/2) 3 = 5/2 /\
  inactive1 (Some (-1)) (Some 2) 0 1 1 (1/2) = true.
Proof.
  unfold box_ne, in_box, lb_ok, ub_ok, proj1, l1_prox1, inactive1, in_interior. numR.
  repeat split; rbool; try lra; reflexivity.
Qed.
