(* Properties_C15.v — C15: proximal / projection operators return the true minimiser.
   Only theorem statements closed by `exact`, each followed by Print Assumptions. *)
From Coq Require Import Reals List ZArith Lra.
From Alpaqa Require Import Num NumR Vec Prox ProxProofs ProxVec.
Import ListNotations.
Local Open Scope R_scope.

(* (1) box projection: feasible, and strongly minimal => the unique minimiser of δ_C(u) + (u-v)²/(2γ) *)
Theorem C15_proj_feasible : forall lb ub v, box_ne lb ub -> in_box lb ub (proj1 lb ub v).
Proof. exact proj1_in_box. Qed.
Print Assumptions C15_proj_feasible.

Theorem C15_proj_is_argmin : forall lb ub v u, box_ne lb ub -> in_box lb ub u ->
  (proj1 lb ub v - v)² + (u - proj1 lb ub v)² <= (u - v)².
Proof. exact proj1_strong_argmin. Qed.
Print Assumptions C15_proj_is_argmin.

Theorem C15_proj_optimality_condition : forall lb ub v u, box_ne lb ub -> in_box lb ub u ->
  (v - proj1 lb ub v) * (u - proj1 lb ub v) <= 0.
Proof. exact proj1_variational. Qed.
Print Assumptions C15_proj_optimality_condition.

(* (2) the step p equals output minus input *)
Theorem C15_proj_step_is_out_minus_in : forall lb ub γ x g,
  x + proj_step1 lb ub γ x g = proj1 lb ub (x - γ * g).
Proof. exact proj_step1_is_proj. Qed.
Print Assumptions C15_proj_step_is_out_minus_in.

Theorem C15_box_prox_step_is_out_minus_in : forall lb ub γf x d,
  x + box_prox_step1 lb ub γf x d = proj1 lb ub (x + γf * d).
Proof. exact box_prox_step1_is_proj. Qed.
Print Assumptions C15_box_prox_step_is_out_minus_in.

(* (3) l1 norm: strong minimality (argmin + uniqueness) and subgradient form *)
Theorem C15_l1_prox_is_argmin : forall λ γ v u, 0 <= λ -> 0 < γ ->
  obj_l1 λ γ v (l1_prox1 λ γ v) + (u - l1_prox1 λ γ v)² / (2 * γ) <= obj_l1 λ γ v u.
Proof. exact l1_prox1_strong_argmin. Qed.
Print Assumptions C15_l1_prox_is_argmin.

Theorem C15_l1_prox_subgradient : forall λ γ v, 0 <= λ -> 0 < γ ->
  let o := l1_prox1 λ γ v in
  (0 < o -> (v - o) / γ = λ) /\ (o < 0 -> (v - o) / γ = - λ) /\ (o = 0 -> Rabs ((v - o) / γ) <= λ).
Proof. exact l1_prox1_subgrad. Qed.
Print Assumptions C15_l1_prox_subgradient.

(* (4) box + l1 forward-backward step of BoxConstrProblem (lb <= 0 <= ub) *)
Theorem C15_box_l1_step_is_prox_of_forward_point : forall lb ub λ γ x g,
  0 <= λ -> 0 < γ -> lb_ok lb 0 -> ub_ok ub 0 ->
  x + box_l1_step1 lb ub λ γ x g = proj1 lb ub (l1_prox1 λ γ (x - γ * g)).
Proof. exact box_l1_step1_cases. Qed.
Print Assumptions C15_box_l1_step_is_prox_of_forward_point.

Theorem C15_box_l1_is_argmin : forall lb ub λ γ v u,
  0 <= λ -> 0 < γ -> lb_ok lb 0 -> ub_ok ub 0 -> in_box lb ub u ->
  let o := proj1 lb ub (l1_prox1 λ γ v) in
  in_box lb ub o /\ obj_l1 λ γ v o + (u - o)² / (2 * γ) <= obj_l1 λ γ v u.
Proof. exact box_l1_strong_argmin. Qed.
Print Assumptions C15_box_l1_is_argmin.

(* (5) complex l1 norm (group soft threshold on (re, im)) *)
Theorem C15_l1c_prox_is_argmin : forall λ γ v u, 0 <= λ -> 0 < γ ->
  obj_l1c λ γ v (l1c_prox1 λ γ v) <= obj_l1c λ γ v u.
Proof. exact l1c_prox1_argmin. Qed.
Print Assumptions C15_l1c_prox_is_argmin.

(* (6) inactive indices: reported <=> the mapping is locally the identity shift *)
Theorem C15_inactive_implies_local_shift : forall lb ub λ γ x g,
  0 <= λ -> 0 < γ -> lb_ok lb 0 -> ub_ok ub 0 ->
  inactive1 lb ub λ γ x g = true ->
  exists ε, 0 < ε /\ forall δ, Rabs δ < ε ->
     fb1 lb ub λ γ (x - γ * g + δ) = fb1 lb ub λ γ (x - γ * g) + δ.
Proof. exact inactive1_locally_shift. Qed.
Print Assumptions C15_inactive_implies_local_shift.

Theorem C15_not_inactive_implies_not_local_shift : forall lb ub λ γ x g,
  0 <= λ -> 0 < γ -> lb_ok lb 0 -> ub_ok ub 0 ->
  inactive1 lb ub λ γ x g = false ->
  forall ε, 0 < ε -> exists δ, Rabs δ < ε /\
     fb1 lb ub λ γ (x - γ * g + δ) <> fb1 lb ub λ γ (x - γ * g) + δ.
Proof. exact not_inactive1_not_shift. Qed.
Print Assumptions C15_not_inactive_implies_not_local_shift.

(* (7) multiplier projection *)
Theorem C15_proj_multiplier_spec : forall lb ub M y, 0 <= M ->
  let o := proj_mult1 lb ub M y in
  - M <= o <= M /\ (lb = None -> 0 <= o) /\ (ub = None -> o <= 0) /\
  (forall l u, lb = Some l -> ub = Some u -> o = Rmax (- M) (Rmin y M)) /\
  ((lb = None -> 0 <= y) -> (ub = None -> y <= 0) -> - M <= y <= M -> o = y).
Proof. exact proj_mult1_spec. Qed.
Print Assumptions C15_proj_multiplier_spec.

Theorem C15_proj_multipliers_vector : forall k lb ub M y,
  0 <= M -> length lb = length y -> length ub = length y ->
  let o := proj_multipliers k lb ub M y in
  length o = length y /\
  forall i, (i < length y)%nat ->
    ((i < k)%nat -> nth i o 0 = 0) /\
    ((k <= i)%nat -> nth i o 0 = proj_mult1 (nth i lb None) (nth i ub None) M (nth i y 0)).
Proof. exact proj_multipliers_spec. Qed.
Print Assumptions C15_proj_multipliers_vector.

(* (8) vector level: every component of the step of BoxConstrProblem is the scalar operator *)
Theorem C15_proj_grad_step_componentwise : forall lb ub γ x g n,
  length lb = n -> length ub = n -> length x = n -> length g = n ->
  forall i, (i < n)%nat ->
  let res := proj_grad_step lb ub γ x g in
  nth i (fst (fst res)) 0 = proj1 (nth i lb None) (nth i ub None) (nth i x 0 - γ * nth i g 0) /\
  nth i (snd (fst res)) 0 = nth i (fst (fst res)) 0 - nth i x 0 /\ snd res = 0.
Proof. exact proj_grad_step_nth. Qed.
Print Assumptions C15_proj_grad_step_componentwise.

Theorem C15_box_l1_grad_step_componentwise : forall lb ub λ γ x g n,
  length lb = n -> length ub = n -> length λ = n -> length x = n -> length g = n -> 0 < γ ->
  forall i, (i < n)%nat -> 0 <= nth i λ 0 -> lb_ok (nth i lb None) 0 -> ub_ok (nth i ub None) 0 ->
  let res := box_l1_grad_step lb ub λ γ x g in
  nth i (fst (fst res)) 0 =
    proj1 (nth i lb None) (nth i ub None) (l1_prox1 (nth i λ 0) γ (nth i x 0 - γ * nth i g 0)) /\
  nth i (snd (fst res)) 0 = nth i (fst (fst res)) 0 - nth i x 0.
Proof. exact box_l1_grad_step_nth. Qed.
Print Assumptions C15_box_l1_grad_step_componentwise.

Theorem C15_box_l1_returned_h_value : forall lb ub λ γ x g,
  let res := box_l1_grad_step lb ub λ γ x g in
  snd res = rsum (map2 (fun a l => Rabs (a * l)) (fst (fst res)) λ).
Proof. exact box_l1_grad_step_h. Qed.
Print Assumptions C15_box_l1_returned_h_value.

(* separable sums: componentwise minimality gives vector minimality *)
Theorem C15_separable_sum_minimal : forall f g : list R, Forall2 Rle f g -> rsum f <= rsum g.
Proof. exact vector_argmin. Qed.
Print Assumptions C15_separable_sum_minimal.

(* non-vacuity: the hypotheses are met by concrete data, and the operators do something there *)
Example C15_nonvacuous :
  box_ne (Some (-1)) (Some 2) /\ in_box (Some (-1)) (Some 2) 1 /\ lb_ok (Some (-1)) 0 /\ ub_ok (Some 2) 0 /\
  proj1 (Some (-1)) (Some 2) 5 = 2 /\ l1_prox1 1 (1/2) 3 = 5/2 /\
  inactive1 (Some (-1)) (Some 2) 0 1 1 (1/2) = true.
Proof.
  unfold box_ne, in_box, lb_ok, ub_ok, proj1, l1_prox1, inactive1, in_interior. numR.
  repeat split; rbool; try lra; reflexivity.
Qed.
