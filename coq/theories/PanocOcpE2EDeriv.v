(* PanocOcpE2EDeriv.v — the derivative characterisation of PanocOcpE2E.is_cost_gradient (C12's adjoint identity) IS the directional
   derivative of the OCP cost, for problems whose stage functions are differentiable along curves.

   C12 (and PanocOcpE2E) assume "the chain rule": that A_k, B_k, q_k, r_k, q_N are the derivatives of the user's functions AND that the
   first-order change of the cost along the linearised roll-out is the derivative of the composed cost.  Here the second half is PROVED:
   the only hypotheses left are per function — the dynamics f_t, the stage cost (l_t∘h_t plus the penalty term) and the terminal cost are
   differentiable along every differentiable curve with the Jacobians / gradients the problem reports (diff_f, diff_stage, diff_term).
   Then  d/ds V(u + s·δ) |_{s=0} = Σ_k <g_k, δ_k>  for every direction δ, g the gradient written by the backward sweep. *)
From Coquelicot Require Import Coquelicot.
From Coq Require Import Reals List ZArith Lra Lia Bool Arith.
From Alpaqa Require Import Num NumR Vec Ocp OcpProofs PanocOcp PanocOcpLoopProofs PanocOcpE2E.
Import ListNotations.
Local Open Scope R_scope.

(* a curve of n-vectors that is differentiable at 0, componentwise *)
Definition vder (n : nat) (x : R -> list R) (dx : list R) : Prop :=
  length dx = n /\ (forall s, length (x s) = n) /\ forall i, (i < n)%nat -> is_derive (fun s => nth i (x s) 0) 0 (nth i dx 0).

Lemma nth_vadd_vscale : forall (u δ : list R) s i, length u = length δ -> (i < length u)%nat ->
  nth i (vadd u (vscale s δ)) 0 = nth i u 0 + s * nth i δ 0.
Proof.
  induction u as [|a u IH]; intros [|b δ] s i Hl Hi; cbn in *; try lia.
  destruct i; [numR; reflexivity|]. apply IH; lia.
Qed.
Lemma vadd_vscale_0 : forall (u δ : list R), length u = length δ -> vadd u (vscale 0 δ) = u.
Proof.
  induction u as [|a u IH]; intros [|b δ] Hl; cbn in *; try lia; [reflexivity|].
  f_equal; [numR; lra|]. apply IH. lia.
Qed.
Lemma vder_affine n (u δ : list R) : length u = n -> length δ = n -> vder n (fun s => vadd u (vscale s δ)) δ.
Proof.
  intros Lu Ld. split; [exact Ld|]. split.
  - intros s. apply vadd_length_n; [exact Lu|]. now rewrite vscale_length.
  - intros i Hi. apply (is_derive_ext (fun s => nth i u 0 + s * nth i δ 0)).
    + intros s. symmetry. apply nth_vadd_vscale; lia.
    + auto_derive; [exact I|]. ring.
Qed.

Section Deriv.
  Variable f : nat -> list R -> list R -> list R.
  Variable h : nat -> list R -> list R -> list R.
  Variable hN : list R -> list R.
  Variable l : nat -> list R -> R.
  Variable lN : list R -> R.
  Variable c : nat -> list R -> list R.
  Variable cN : list R -> list R.
  Variables jA jB : nat -> list R -> list R -> list (list R).
  Variable gqr : nat -> list R -> list R -> list R.
  Variable gqN : list R -> list R -> list R.
  Variable jc : nat -> list R -> list (list R).
  Variable jcN : list R -> list (list R).
  Variable d : dims.
  Variables Dlb Dub DNlb DNub : list (option R).
  Variables x0 y μ : list R.
  Notation nx := (dnx d). Notation nu := (dnu d). Notation nh := (dnh d). Notation nc := (dnc d).
  Notation nhN := (dnhN d). Notation ncN := (dncN d). Notation NN := (dN d).
  Notation costsum := (cost_sum f h hN l lN c cN d Dlb Dub DNlb DNub).
  Notation eV := (e_V f h hN l lN c cN d Dlb Dub DNlb DNub x0 y μ).
  Notation estages := (e_stages d).
  Notation estage := (e_stage d).
  Notation IsGrad := (is_cost_gradient f h hN c cN jA jB gqr gqN jc jcN d Dlb Dub DNlb DNub x0 y μ).

  (* the linearisation data of stage t at a state / input pair, and of the terminal stage at a state *)
  Definition stage_lin (t : nat) (x u : list R) : lin_stage R :=
    lin_of nx nc Dlb Dub {| bA := jA t x u; bB := jB t x u; bqr := gqr t (x ++ u) (if Nat.ltb 0 nh then h t x u else []); bJc := jc t x;
                            bc := (if Nat.ltb 0 nc then c t x else []); by_ := seg (t * nc) nc y; bμ := seg (t * nc) nc μ |}.
  Definition term_q (x : list R) : list R :=
    qN_of nx ncN DNlb DNub (gqN x (if Nat.ltb 0 nhN then hN x else [])) (jcN x) (if Nat.ltb 0 ncN then cN x else [])
          (seg (NN * nc) ncN y) (seg (NN * nc) ncN μ).

  (* differentiability of the problem's functions along curves, with the derivatives the problem reports *)
  Definition diff_f : Prop := forall t x u dx du, vder nx x dx -> vder nu u du ->
    vder nx (fun s => f t (x s) (u s)) (vadd (mv (jA t (x 0) (u 0)) dx) (mv (jB t (x 0) (u 0)) du)).
  Definition diff_stage : Prop := forall t x u dx du, vder nx x dx -> vder nu u du ->
    is_derive (fun s => stage_cost f h l c d Dlb Dub t (x s) (u s) y μ) 0
              (dot (lq (stage_lin t (x 0) (u 0))) dx + dot (lr (stage_lin t (x 0) (u 0))) du).
  Definition diff_term : Prop := forall x dx, vder nx x dx ->
    is_derive (fun s => term_cost hN lN cN d DNlb DNub (x s) y μ) 0 (dot (term_q (x 0)) dx).
  Hypothesis Hf : diff_f.
  Hypothesis Hs : diff_stage.
  Hypothesis Ht : diff_term.

  Fixpoint lins (t : nat) (x : list R) (us : list (list R)) : list (lin_stage R) :=
    match us with [] => [] | u :: us' => stage_lin t x u :: lins (S t) (f t x u) us' end.
  Fixpoint xend (t : nat) (x : list R) (us : list (list R)) : list R :=
    match us with [] => x | u :: us' => xend (S t) (f t x u) us' end.

  (* the chain rule over the horizon *)
  Lemma cost_sum_derive : forall us δus t x dx, length δus = length us ->
    Forall (fun u => length u = nu) us -> Forall (fun δ => length δ = nu) δus -> vder nx x dx ->
    is_derive (fun s => costsum t (x s) (map2 (fun u δ => vadd u (vscale s δ)) us δus) y μ) 0
              (lin_cost (lins t (x 0) us) (term_q (xend t (x 0) us)) dx δus).
  Proof.
    induction us as [|u us IH]; intros [|δ δus] t x dx Hl Hu Hd Hx; cbn [length] in Hl; try discriminate.
    - cbn [map2 cost_sum lins xend lin_cost]. apply Ht. exact Hx.
    - cbn [map2 cost_sum lins xend lin_cost].
      pose proof (Forall_inv Hu) as Lu. pose proof (Forall_inv Hd) as Ld. cbv beta in Lu, Ld.
      pose proof (vder_affine nu u δ Lu Ld) as Hu1.
      assert (E0 : vadd u (vscale 0 δ) = u) by (apply vadd_vscale_0; transitivity (dnu d); [exact Lu|symmetry; exact Ld]).
      apply (is_derive_plus (fun s => stage_cost f h l c d Dlb Dub t (x s) (vadd u (vscale s δ)) y μ)
                            (fun s => costsum (S t) (f t (x s) (vadd u (vscale s δ))) (map2 (fun u0 δ0 => vadd u0 (vscale s δ0)) us δus) y μ)).
      + pose proof (Hs t x (fun s => vadd u (vscale s δ)) dx δ Hx Hu1) as H1. cbv beta in H1. rewrite E0 in H1. exact H1.
      + pose proof (Hf t x (fun s => vadd u (vscale s δ)) dx δ Hx Hu1) as H2. cbv beta in H2. rewrite E0 in H2.
        pose proof (IH δus (S t) (fun s => f t (x s) (vadd u (vscale s δ))) _ ltac:(lia) (Forall_inv_tail Hu) (Forall_inv_tail Hd) H2) as H3.
        cbv beta in H3. rewrite E0 in H3. exact H3.
  Qed.

  (* the linearisation list / final state of the recursion = the ones PanocOcpE2E reads off the trajectory *)
  Lemma lins_traj : forall us t x,
    lins t x us = map (fun k => stage_lin (t + k) (nth k (traj f t x us) []) (nth k us [])) (seq 0 (length us)) /\
    xend t x us = nth (length us) (traj f t x us) [].
  Proof.
    induction us as [|u us IH]; intros t x; cbn [lins xend traj length seq map nth]; [split; reflexivity|].
    destruct (IH (S t) (f t x u)) as [I1 I2]. split; [|exact I2].
    rewrite Nat.add_0_r. f_equal. rewrite I1, <- seq_shift, map_map. apply map_ext. intros k. cbn [nth]. now rewrite Nat.add_succ_r.
  Qed.

  Lemma map2_map_same {A B C D} (g : B -> C -> D) (a : A -> B) (b : A -> C) : forall ll, map2 g (map a ll) (map b ll) = map (fun t => g (a t) (b t)) ll.
  Proof. induction ll as [|t ll IH]; cbn; [reflexivity|now rewrite IH]. Qed.

  Lemma estages_affine (u δ : list R) s : length u = (NN * nu)%nat -> length δ = (NN * nu)%nat ->
    estages (vadd u (vscale s δ)) = map2 (fun u0 δ0 => vadd u0 (vscale s δ0)) (estages u) (estages δ).
  Proof.
    intros Lu Ld. unfold e_stages. rewrite map2_map_same. apply map_ext. intros t.
    unfold e_stage, seg, vadd, vscale. rewrite skipn_map2 by (rewrite map_length; congruence). rewrite firstn_map2.
    now rewrite skipn_map, firstn_map.
  Qed.

  Hypothesis Hfn : wf_fns f h hN c cN d.
  Hypothesis Lx0 : length x0 = nx.

  Lemma elins_lins (u : list R) : length u = (NN * nu)%nat ->
    e_lins f h hN c cN jA jB gqr jc d Dlb Dub x0 y μ u = lins 0 x0 (estages u) /\
    e_qN f h hN c cN gqN jcN d DNlb DNub x0 y μ u = term_q (xend 0 x0 (estages u)).
  Proof.
    intros Lu. destruct (lins_traj (estages u) 0 x0) as [E1 E2].
    assert (LN : length (estages u) = NN) by (unfold e_stages; now rewrite map_length, seq_length).
    split.
    - rewrite E1, LN. unfold e_lins. apply map_ext_in. intros t Hin. apply in_seq in Hin.
      unfold e_spec_stage, stage_lin, e_hval, e_cval, e_x. cbn [Nat.add].
      replace (t <? NN)%nat with true by (symmetry; apply Nat.ltb_lt; lia).
      rewrite (estages_nth d u t) by lia. reflexivity.
    - rewrite E2, LN. unfold e_qN, term_q, e_hval, e_cval, e_x. rewrite Nat.ltb_irrefl. reflexivity.
  Qed.

  (* MAIN: the gradient characterised by C12's adjoint identity pairs with every direction δ to the derivative of s ↦ V(u + s·δ) at 0 *)
  Theorem cost_gradient_is_directional_derivative (u g : list R) : length u = (NN * nu)%nat -> IsGrad u g ->
    forall δ, length δ = (NN * nu)%nat ->
    exists gs, g = concat gs /\ is_derive (fun s => eV (vadd u (vscale s δ))) 0 (dots gs (estages δ)).
  Proof.
    intros Lu (gs & Eg & Lg & Hb & Hd) δ Ld. exists gs. split; [exact Eg|].
    destruct (estages_ok d x0 Lx0 u Lu) as [LNu Fu]. destruct (estages_ok d x0 Lx0 δ Ld) as [LNd Fd].
    rewrite (Hd (estages δ) LNd Fd).
    destruct (elins_lins u Lu) as [E1 E2]. rewrite E1, E2.
    apply (is_derive_ext (fun s => costsum 0 x0 (map2 (fun u0 δ0 => vadd u0 (vscale s δ0)) (estages u) (estages δ)) y μ)).
    - intros s. unfold e_V. now rewrite estages_affine.
    - apply (cost_sum_derive (estages u) (estages δ) 0 (fun _ => x0) (vconst nx 0)); try assumption; [exact (eq_trans LNd (eq_sym LNu))|].
      split; [apply vconst_length|]. split; [intros _; exact Lx0|].
      intros i Hi. unfold vconst. rewrite nth_repeat. auto_derive; [exact I|reflexivity].
  Qed.
End Deriv.
