(* AlmZeroFprProofs.v — END-TO-END for ALMSolver<ZeroFPRSolver<Direction>>: the composed executable model AlmZeroFpr.alm_zerofpr returns
   `Converged` only with an approximate KKT point of the USER'S problem.  Instance of the generic lemma AlmComposeKkt.compose_converged_is_kkt:
   the inner contract comes from ZeroFprLen.zerofpr_inner_contract_len (ZeroFPR's ∇ψ(x̂) is ALWAYS eval_grad_L(x̂, ŷ(x̂)): there is no eager
   mode, and nothing is read from the work buffers of eval_ψ_grad_ψ).  Over R; for every problem, provider mix satisfying provider_ok,
   direction / stop / clock oracle and parameter set. *)
From Coq Require Import Reals List ZArith Lra Lia Bool Arith Psatz.
From Flocq Require Import Raux.
From Alpaqa Require Import Num NumR Vec Prox ProxProofs ProxVec SolverStatus SolverKernels SolverKernelsProofs DescentProofs
                           StopChain StopChainProofs KktProofs AugLag AugLagProofs Panoc PanocProofs ZeroFpr ZeroFprProofs ZeroFprLen LiveVec
                           Alm AlmProofs AlmCompose AlmComposeProofs AlmComposeKkt AlmPanoc AlmPanocProofs AlmZeroFpr.
Import ListNotations.
Local Open Scope R_scope.

Section E2E.
  Variable Pb : problem (T:=R).
  Variable prov : fn -> bool.
  Variable wm_supplied : list R -> list R.
  Variables (Clb Cub : list (option R)) (l1 : list R).
  Variable split : nat.
  Variable dir : nat -> iterate (T:=R) -> proxit (T:=R) -> option (list R).
  Variable has_initial : bool.
  Variable stop_req : counters -> bool.
  Variable time_up : counters -> bool.
  Variable outer_oot : nat -> bool.
  Variable PP : params (T:=R).
  Variable AP : alm_params (T:=R).
  Variables (ls_fuel inner_fuel : nat).
  Variables (n m : nat).

  Hypothesis Hprov : provider_ok Pb prov.
  Hypothesis Hempty : grad_g_prod_empty_ok Pb.
  Hypothesis Hl1 : l1 = [].
  Hypothesis Hcrit : p_crit PP = ApproxKKT.
  Hypothesis HLg : 0 < p_Lgamma PP.
  Hypothesis HL : 0 < p_L0 PP \/ 0 < p_Lmin PP <= p_Lmax PP.
  Hypothesis HClb : length Clb = n.
  Hypothesis HCub : length Cub = n.
  Hypothesis HCne : Forall2 box_ne Clb Cub.
  Hypothesis Hgf : forall x, length x = n -> length (pgrad_f Pb x) = n.
  Hypothesis Hgg : forall x y, length x = n -> length (pgrad_g_prod Pb x y) = n.
  Hypothesis Hg : forall x, length x = n -> length (pg Pb x) = m.
  Hypothesis HDlb : length (plb Pb) = m.
  Hypothesis HDub : length (pub Pb) = m.
  Hypothesis HDne : Forall2 box_ne (plb Pb) (pub Pb).
  Hypothesis Hdir : forall j i px q, dir j i px = Some q -> length q = n.

  Notation inner_ := (zinner Pb prov wm_supplied Clb Cub l1 dir has_initial stop_req time_up outer_oot PP ls_fuel inner_fuel).
  Notation opgf := (o_psi_grad_full Pb prov wm_supplied).
  Notation opy := (o_psi_yhat Pb prov).
  Notation ogL := (o_grad_L Pb prov).
  Notation ogp := (o_grad_psi Pb prov).

  (* ---- one inner solve *)
  Lemma zinner_contract : inner_contract_kkt counters (result (T:=R)) inner_ Pb Clb Cub n.
  Proof.
    intros w i x y Σ tol errz r x' lg w' Hx. unfold zinner.
    match goal with |- context [match ?pr with Done _ => _ | NotFiniteL _ => _ | OutOfFuel => _ end] => destruct pr as [o|L|] eqn:Er end.
    3: discriminate.
    2: { intros E. injection E as E1 E2 E3 E4. subst r x'. split; [exact Hx|]. cbn [ir_status]. discriminate. }
    intros E. injection E as E1 E2 E3 E4. subst r x'. cbn [ir_status ir_y ir_err ir_eps].
    assert (Hpg : forall z, length z = n -> length (snd (psi_grad (opgf y Σ) z)) = n).
    { intros z Hz. rewrite (opgf_grad Pb prov wm_supplied Hprov Hempty). unfold grad_psi_def. now apply (grad_L_def_length Pb n Hgf Hgg). }
    assert (HgL' : forall z yh, length z = n -> length (ogL z yh) = n).
    { intros z yh Hz. rewrite (ogL_val Pb prov Hprov Hempty). now apply (grad_L_def_length Pb n Hgf Hgg). }
    assert (Hdir' : forall j it px q, (fun j it px => dir (c_apply w + j)%nat it px) j it px = Some q -> length q = n).
    { intros j it px q Hq. eapply Hdir. exact Hq. }
    split.
    { exact (zerofpr_out_x_length (opgf y Σ) (opy y Σ) ogL (ogp y Σ) Clb Cub l1 _ has_initial _ _ (with_opts PP tol) x y Σ errz ls_fuel n
               Hl1 HClb HCub Hx Hpg HgL' Hdir' inner_fuel o Er). }
    intros Hst. apply alm_status_of_converged in Hst.
    destruct (zerofpr_inner_contract_len (opgf y Σ) (opy y Σ) ogL (ogp y Σ) Clb Cub l1 _ has_initial _ _ (with_opts PP tol) x y Σ errz ls_fuel n
                Hl1 HClb HCub Hx Hpg HgL' Hdir' inner_fuel o Er Hst Hcrit)
      as (xx & grad & γ & Lxx & Lgr & Ex & Lxo & Ey & Ee & Eeps & Etol & Hγ).
    cbv zeta in *. rewrite (opy_val Pb prov Hprov) in Ey. cbn [snd] in Ey.
    split; [now rewrite Ey|]. split; [now rewrite Ee, Ey|].
    exists xx, grad, γ. split.
    { apply Hγ; [exact HLg|]. apply L_init_pos. exact HL. }
    split; [exact Lxx|]. split; [exact Lgr|]. split; [exact Ex|]. split; [|exact Etol].
    rewrite Eeps, (ogL_val Pb prov Hprov Hempty), Ey. reflexivity.
  Qed.

  (* ================================================================ THE theorem *)
  Theorem alm_zerofpr_converged_is_kkt outer_fuel nanv Σ0 y0 x0 co :
    length x0 = n -> length y0 = m ->
    Alm.p_max_iter AP <> 0%nat ->
    (m <> 0%nat -> sigma_inv AP m (initial_sigma AP m (pf Pb x0) (pg Pb x0) Σ0)) ->
    (m = 0%nat -> 0 < p_tol AP) ->
    alm_zerofpr Pb prov wm_supplied Clb Cub l1 split dir has_initial stop_req time_up outer_oot PP AP ls_fuel inner_fuel
                outer_fuel nanv Σ0 y0 x0 = Some co ->
    f_status (co_final co) = Converged ->
    let x := co_x co in let y := f_y (co_final co) in
    length x = n /\ length y = m /\
    (forall i, (i < n)%nat -> in_box (nth i Clb None) (nth i Cub None) (nth i x 0)) /\
    (forall i, (i < n)%nat -> exists r,
        (forall u, in_box (nth i Clb None) (nth i Cub None) u -> r * (u - nth i x 0) <= 0) /\
        Rabs (- nth i (vadd (pgrad_f Pb x) (pgrad_g_prod Pb x y)) 0 - r) <= p_tol AP) /\
    (forall i, (i < m)%nat -> exists z,
        in_box (nth i (plb Pb) None) (nth i (pub Pb) None) z /\ Rabs (nth i (pg Pb x) 0 - z) <= p_dual_tol AP) /\
    (forall i, (i < m)%nat ->
        (0 < nth i y 0 -> exists u, nth i (pub Pb) None = Some u /\ Rabs (nth i (pg Pb x) 0 - u) <= p_dual_tol AP) /\
        (nth i y 0 < 0 -> exists l, nth i (plb Pb) None = Some l /\ Rabs (nth i (pg Pb x) 0 - l) <= p_dual_tol AP)).
  Proof.
    intros Hx0 Hy0 Hmi HΣ Htol Hrun Hst. unfold alm_zerofpr in Hrun.
    exact (compose_converged_is_kkt counters (result (T:=R)) inner_ Pb Clb Cub split AP n m HClb HCub HCne Hgf Hgg Hg HDlb HDub HDne
             zinner_contract outer_fuel nanv Σ0 y0 x0 cnt0 co Hx0 Hy0 Hmi HΣ Htol Hrun Hst).
  Qed.
End E2E.

(* ================================================================ non-vacuity *)
(* a ZeroFPR run whose first iterate already meets the tolerance (L_0 > 0 given, L_0 >= L_max): Converged at k = 0 *)
Section At0.
  Variable psi_grad_full : list R -> R * list R * list R.
  Variable psi_yhat : list R -> R * list R.
  Variable grad_L : list R -> list R -> list R.
  Variable grad_psi : list R -> list R.
  Variables (lb ub : list (option R)) (l1 : list R).
  Variable dir_apply : nat -> iterate (T:=R) -> proxit (T:=R) -> option (list R).
  Variable has_initial : bool.
  Variable stop_req : counters -> bool.
  Variable time_up : counters -> bool.
  Variable P : params (T:=R).
  Variables (x_in y_in Σ errz_in : list R).
  Variable ls_fuel : nat.
  Variables (ψ0 ψh h ε : R) (g0 wm0 xh p yh gh : list R).
  Hypothesis HL0 : 0 < p_L0 P.
  Hypothesis HLmax : p_Lmax P <= p_L0 P.
  Hypothesis Hcrit : p_crit P = ApproxKKT.
  Hypothesis H1 : psi_grad_full x_in = (ψ0, g0, wm0).
  Hypothesis H2 : eval_prox_grad_step lb ub l1 (p_Lgamma P / p_L0 P) x_in g0 = (xh, p, h).
  Hypothesis H3 : psi_yhat xh = (ψh, yh).
  Hypothesis H4 : grad_L xh yh = gh.
  Hypothesis H5 : vnorminf (kkt_residual (p_Lgamma P / p_L0 P) p g0 gh) = ε.
  Hypothesis H6 : ε <= eff_tol (o_tol P).

  Lemma zerofpr_converged_at_0 fuel :
    exists o, zerofpr psi_grad_full psi_yhat grad_L grad_psi lb ub l1 dir_apply has_initial stop_req time_up P x_in y_in Σ errz_in ls_fuel (S fuel) = Done o /\
      out_status o = StConverged /\ out_iterations o = 0%nat /\ out_eps o = ε /\ out_x o = xh /\ out_y o = yh /\
      out_errz o = match errz_in with [] => [] | _ => vdiv (vsub yh y_in) Σ end.
  Proof.
    unfold zerofpr, init_L, psi_grad. cbv zeta. rewrite H1. cbn [fst snd].
    change (@nleb R NumR) with Rle_bool. change (@n0 R NumR) with 0.
    destruct (Rle_bool_spec (p_L0 P) 0) as [Hc|_]; [lra|].
    cbn [iL nfinite NumR negb]. change (@ndiv R NumR) with Rdiv.
    unfold eval_prox, set_gamma_L. cbn [ix ixh igrad ip iyh ipsi ipsih igam iL ipp igp ih ihave igradh]. rewrite H2. cbn [fst snd].
    unfold eval_cost. cbn [ix ixh igrad ip iyh ipsi ipsih igam iL ipp igp ih ihave igradh]. rewrite H3. cbn [fst snd].
    assert (Hq : forall i c s, iL i = p_L0 P -> ZeroFpr.init_qub psi_yhat lb ub l1 P ls_fuel i c s = Some (i, c, s)).
    { intros i c s Hi. destruct ls_fuel; cbn [ZeroFpr.init_qub]; rewrite Hi; change (@nltb R NumR) with Rlt_bool;
        (destruct (Rlt_bool_spec (p_L0 P) (p_Lmax P)) as [Hc|_]; [lra|reflexivity]). }
    rewrite Hq by reflexivity.
    cbn [loop]. unfold pass. cbv zeta. cbn [st_curr st_k st_np st_cnt st_stats st_log].
    unfold zit_eps, eval_prox_it, prox_step_in_prox. cbn [px_grad ix ixh igrad ip iyh ipsi ipsih igam iL ipp igp ih ihave igradh].
    rewrite Hcrit. cbn [crit_eps]. rewrite H4, H5.
    rewrite tolerance_wins by (apply Rle_bool_iff; exact H6).
    unfold exit_block. cbn [overwrites ixh iyh].
    eexists. split; [reflexivity|]. cbn [out_status out_iterations out_eps out_x out_y out_errz]. repeat split.
  Qed.
End At0.

(* ---- the concrete instance of AlmPanocProofs (n = 1, m = 1: minimise x s.t. x in [0,1], g(x) = x <= 0, x0 = 0, y0 = 0) with ZeroFPR *)
Definition nv_zdir : nat -> iterate (T:=R) -> proxit (T:=R) -> option (list R) := fun _ _ _ => None.
Definition nv_zrun :=
  alm_zerofpr nvPb nvprov (fun _ => []) [Some 0] [Some 1] [] 0 nv_zdir false nv_never nv_never (fun _ => false) nvPP nvAP 5 5 3 0 None [0] [0].

Lemma nv_zinner : exists lg w',
  zinner nvPb nvprov (fun _ => []) [Some 0] [Some 1] [] nv_zdir false nv_never nv_never (fun _ => false) nvPP 5 5 cnt0 0 [0] [0] [1] 1 [0]
  = Some ({| ir_status := Converged; ir_eps := 0; ir_err := Some [0]; ir_y := Some [0]; ir_iters := 0; ir_oot := false; ir_stop := false |}, [0], lg, w').
Proof.
  unfold zinner.
  set (pgf := o_psi_grad_full nvPb nvprov (fun _ => []) [0] [1]).
  destruct (pgf [0]) as [[ψ0 g0] wm0] eqn:H1.
  assert (Hg0 : g0 = [1 + 0]).
  { pose proof (opgf_grad nvPb nvprov (fun _ => []) nv_provider_ok nv_empty_ok [0] [1] [0]) as Hg. fold pgf in Hg.
    unfold psi_grad in Hg. rewrite H1 in Hg. cbn [fst snd] in Hg. rewrite Hg. unfold grad_psi_def. rewrite nv_yhat. reflexivity. }
  subst g0.
  assert (H2 : eval_prox_grad_step [Some 0] [Some 1] [] (p_Lgamma (with_opts nvPP 1) / p_L0 (with_opts nvPP 1)) [0] [1 + 0] = ([0], [0], 0)).
  { rcomp. f_equal. f_equal; f_equal; lra. }
  assert (H3 : o_psi_yhat nvPb nvprov [0] [1] [0] = (psi_def nvPb [0] [0] [1], [0])).
  { rewrite (opy_val nvPb nvprov nv_provider_ok). now rewrite nv_yhat. }
  assert (H4 : o_grad_L nvPb nvprov [0] [0] = [1 + 0]).
  { rewrite (ogL_val nvPb nvprov nv_provider_ok nv_empty_ok). reflexivity. }
  assert (H5 : vnorminf (kkt_residual (p_Lgamma (with_opts nvPP 1) / p_L0 (with_opts nvPP 1)) [0] [1 + 0] [1 + 0]) = 0).
  { cbv -[Rplus Rminus Rmult Rdiv Rinv Ropp Rle_bool Rlt_bool Req_bool Rabs IZR sqrt].
    replace (1 / (1 / 2 / 1) * 0 + (1 + 0 - (1 + 0))) with 0 by lra. apply Rabs_R0. }
  assert (H6 : 0 <= eff_tol (o_tol (with_opts nvPP 1))).
  { unfold eff_tol. cbn [o_tol with_opts]. change (@nltb R NumR) with Rlt_bool. change (@n0 R NumR) with 0.
    rewrite (Rlt_bool_true 0 1) by lra. lra. }
  destruct (zerofpr_converged_at_0 pgf (o_psi_yhat nvPb nvprov [0] [1]) (o_grad_L nvPb nvprov) (o_grad_psi nvPb nvprov [0] [1])
              [Some 0] [Some 1] [] (fun j it px => nv_zdir (c_apply cnt0 + j)%nat it px) false (fun c => nv_never (cadd cnt0 c)) (fun c => nv_never (cadd cnt0 c))
              (with_opts nvPP 1) [0] [0] [1] [0] 5 ψ0 (psi_def nvPb [0] [0] [1]) 0 0 [1 + 0] wm0 [0] [0] [0] [1 + 0]
              ltac:(cbn; lra) ltac:(cbn; lra) eq_refl H1 H2 H3 H4 H5 H6 4)
    as (o & Hrun & O1 & O2 & O3 & O4 & O5 & O6).
  rewrite Hrun. rewrite O1, O2, O3, O4, O5, O6. cbn [alm_status_of].
  replace (vdiv (vsub [0] [0]) [1]) with [0] by (cbn; f_equal; lra).
  eexists. eexists. reflexivity.
Qed.

Lemma nv_zconverged : exists co, nv_zrun = Some co /\ f_status (co_final co) = Converged /\ co_x co = [0] /\ f_y (co_final co) = [0].
Proof.
  destruct nv_zinner as (lg & w' & Hin).
  unfold nv_zrun, alm_zerofpr, c_run, c_script_of.
  change (Nat.eqb (Alm.p_max_iter nvAP) 0) with false. change (Nat.eqb (pb_m (pb_of nvPb 0)) 0) with false. cbv iota.
  set (s0 := init_state nvAP (pb_of nvPb 0) (pf nvPb [0]) (pg nvPb [0]) 0 None [0]).
  assert (Es : s0 = {| s_Sigma := [1]; s_err := [0]; s_err_old := [0]; s_norm_old := 0; s_eps := 1; s_y := [0]; s_fails := 0; s_iters := 0 |})
    by (unfold s0; rcomp; reflexivity).
  assert (Ey : c_y_in nvAP (pb_of nvPb 0) s0 = [0]) by (rewrite Es; rcomp; reflexivity).
  set (r0 := {| ir_status := Converged; ir_eps := 0; ir_err := Some [0]; ir_y := Some [0]; ir_iters := 0; ir_oot := false; ir_stop := false |}) in *.
  assert (Ex : f_exhausted (snd (alm_loop nvAP (pb_of nvPb 0) 0 s0 [r0])) = false).
  { rewrite Es. cbv -[Rplus Rminus Rmult Rdiv Rinv Ropp Rle_bool Rlt_bool Req_bool Rabs IZR sqrt]. rewrite Rabs_R0. rbb. reflexivity. }
  rewrite c_loop_S. rewrite Ey.
  replace (s_Sigma s0) with [1] by (rewrite Es; reflexivity). replace (s_eps s0) with 1 by (rewrite Es; reflexivity).
  replace (s_err s0) with [0] by (rewrite Es; reflexivity). rewrite Hin. rewrite Ex.
  eexists. split; [reflexivity|]. cbn [co_final co_x c_script c_x].
  unfold alm_run. change (Nat.eqb (Alm.p_max_iter nvAP) 0) with false. change (Nat.eqb (pb_m (pb_of nvPb 0)) 0) with false. cbv iota.
  fold s0. rewrite Es.
  cbv -[Rplus Rminus Rmult Rdiv Rinv Ropp Rle_bool Rlt_bool Req_bool Rabs IZR sqrt]. rewrite !Rabs_R0. rbb. repeat split.
Qed.
