(* AlmZeroFprProofs.v — END-TO-END for ALMSolver<ZeroFPRSolver<Direction>>: the composed executable model AlmZeroFpr.alm_zerofpr returns
   `Converged` only with an approximate KKT point of the USER'S problem.  Instance of the generic lemma AlmComposeKkt.compose_converged_is_kkt:
   the inner contract comes from ZeroFprLen.zerofpr_inner_contract_len (ZeroFPR's ∇ψ(x̂) is ALWAYS eval_grad_L(x̂, ŷ(x̂)): there is no eager
   mode, and nothing is read from the work buffers of eval_ψ_grad_ψ).  Over R; for every problem, provider mix satisfying provider_ok,
   direction / stop / clock oracle and parameter set. *)
From Coq Require Import Reals List ZArith Lra Lia Bool Arith Psatz.
From Flocq Require Import Raux.
From Alpaqa Require Import Num NumR Vec Prox ProxProofs ProxVec SolverStatus SolverKernels SolverKernelsProofs DescentProofs
                           StopChain StopChainProofs KktProofs AugLag AugLagProofs Panoc PanocProofs ZeroFpr ZeroFprProofs ZeroFprLen LiveVec
                           Alm AlmProofs AlmCompose AlmComposeProofs AlmComposeKkt AlmPanoc AlmPanocProofs AlmZeroFpr.
Import ListNotations.
Local Open Scope R_scope.

Section E2E.
  Variable Pb : problem (T:=R).
  Variable prov : fn -> bool.
  Variable wm_supplied : list R -> list R.
  Variables (Clb Cub : list (option R)) (l1 : list R).
  Variable split : nat.
  Variable dir : nat -> iterate (T:=R) -> proxit (T:=R) -> option (list R).
  Variable has_initial : bool.
  Variable stop_req : counters -> bool.
  Variable time_up : counters -> bool.
  Variable outer_oot : nat -> bool.
  Variable PP : params (T:=R).
  Variable AP : alm_params (T:=R).
  Variables (ls_fuel inner_fuel : nat).
  Variables (n m : nat).

  Hypothesis Hprov : provider_ok Pb prov.
  Hypothesis Hempty : grad_g_prod_empty_ok Pb.
  Hypothesis Hl1 : l1 = [].
  Hypothesis Hcrit : p_crit PP = ApproxKKT.
  Hypothesis HLg : 0 < p_Lgamma PP.
  Hypothesis HL : 0 < p_L0 PP \/ 0 < p_Lmin PP <= p_Lmax PP.
  Hypothesis HClb : length Clb = n.
  Hypothesis HCub : length Cub = n.
  Hypothesis HCne : Forall2 box_ne Clb Cub.
  Hypothesis Hgf : forall x, length x = n -> length (pgrad_f Pb x) = n.
  Hypothesis Hgg : forall x y, length x = n -> length (pgrad_g_prod Pb x y) = n.
  Hypothesis Hg : forall x, length x = n -> length (pg Pb x) = m.
  Hypothesis HDlb : length (plb Pb) = m.
  Hypothesis HDub : length (pub Pb) = m.
  Hypothesis HDne : Forall2 box_ne (plb Pb) (pub Pb).
  Hypothesis Hdir : forall j i px q, dir j i px = Some q -> length q = n.

  Notation inner_ := (zinner Pb prov wm_supplied Clb Cub l1 dir has_initial stop_req time_up outer_oot PP ls_fuel inner_fuel).
  Notation opgf := (o_psi_grad_full Pb prov wm_supplied).
  Notation opy := (o_psi_yhat Pb prov).
  Notation ogL := (o_grad_L Pb prov).
  Notation ogp := (o_grad_psi Pb prov).

  (* ---- one inner solve *)
  Lemma zinner_contract : inner_contract_kkt counters (result (T:=R)) inner_ Pb Clb Cub n.
  Proof.
    intros w i x y Σ tol errz r x' lg w' Hx. unfold zinner.
    match goal with |- context [match ?pr with Done _ => _ | NotFiniteL _ => _ | OutOfFuel => _ end] => destruct pr as [o|L|] eqn:Er end.
    3: discriminate.
    2: { intros E. injection E as E1 E2 E3 E4. subst r x'. split; [exact Hx|]. cbn [ir_status]. discriminate. }
    intros E. injection E as E1 E2 E3 E4. subst r x'. cbn [ir_status ir_y ir_err ir_eps].
    assert (Hpg : forall z, length z = n -> length (snd (psi_grad (opgf y Σ) z)) = n).
    { intros z Hz. rewrite (opgf_grad Pb prov wm_supplied Hprov Hempty). unfold grad_psi_def. now apply (grad_L_def_length Pb n Hgf Hgg). }
    assert (HgL' : forall z yh, length z = n -> length (ogL z yh) = n).
    { intros z yh Hz. rewrite (ogL_val Pb prov Hprov Hempty). now apply (grad_L_def_length Pb n Hgf Hgg). }
    assert (Hdir' : forall j it px q, (fun j it px => dir (c_apply w + j)%nat it px) j it px = Some q -> length q = n).
    { intros j it px q Hq. eapply Hdir. exact Hq. }
    split.
    { exact (zerofpr_out_x_length (opgf y Σ) (opy y Σ) ogL (ogp y Σ) Clb Cub l1 _ has_initial _ _ (with_opts PP tol) x y Σ errz ls_fuel n
               Hl1 HClb HCub Hx Hpg HgL' Hdir' inner_fuel o Er). }
    intros Hst. apply alm_status_of_converged in Hst.
    destruct (zerofpr_inner_contract_len (opgf y Σ) (opy y Σ) ogL (ogp y Σ) Clb Cub l1 _ has_initial _ _ (with_opts PP tol) x y Σ errz ls_fuel n
                Hl1 HClb HCub Hx Hpg HgL' Hdir' inner_fuel o Er Hst Hcrit)
      as (xx & grad & γ & Lxx & Lgr & Ex & Lxo & Ey & Ee & Eeps & Etol & Hγ).
    cbv zeta in *. rewrite (opy_val Pb prov Hprov) in Ey. cbn [snd] in Ey.
    split; [now rewrite Ey|]. split; [now rewrite Ee, Ey|].
    exists xx, grad, γ. split.
    { apply Hγ; [exact HLg|]. apply L_init_pos. exact HL. }
    split; [exact Lxx|]. split; [exact Lgr|]. split; [exact Ex|]. split; [|exact Etol].
    rewrite Eeps, (ogL_val Pb prov Hprov Hempty), Ey. reflexivity.
  Qed.

  (* ================================================================ THE theorem *)
  Theorem alm_zerofpr_converged_is_kkt outer_fuel nanv Σ0 y0 x0 co :
    length x0 = n -> length y0 = m ->
    Alm.p_max_iter AP <> 0%nat ->
    (m <> 0%nat -> sigma_inv AP m (initial_sigma AP m (pf Pb x0) (pg Pb x0) Σ0)) ->
    (m = 0%nat -> 0 < p_tol AP) ->
    alm_zerofpr Pb prov wm_supplied Clb Cub l1 split dir has_initial stop_req time_up outer_oot PP AP ls_fuel inner_fuel
                outer_fuel nanv Σ0 y0 x0 = Some co ->
    f_status (co_final co) = Converged ->
    let x := co_x co in let y := f_y (co_final co) in
    length x = n /\ length y = m /\
    (forall i, (i < n)%nat -> in_box (nth i Clb None) (nth i Cub None) (nth i x 0)) /\
    (forall i, (i < n)%nat -> exists r,
        (forall u, in_box (nth i Clb None) (nth i Cub None) u -> r * (u - nth i x 0) <= 0) /\
        Rabs (- nth i (vadd (pgrad_f Pb x) (pgrad_g_prod Pb x y)) 0 - r) <= p_tol AP) /\
    (forall i, (i < m)%nat -> exists z,
        in_box (nth i (plb Pb) None) (nth i (pub Pb) None) z /\ Rabs (nth i (pg Pb x) 0 - z) <= p_dual_tol AP) /\
    (forall i, (i < m)%nat ->
        (0 < nth i y 0 -> exists u, nth i (pub Pb) None = Some u /\ Rabs (nth i (pg Pb x) 0 - u) <= p_dual_tol AP) /\
        (nth i y 0 < 0 -> exists l, nth i (plb Pb) None = Some l /\ Rabs (nth i (pg Pb x) 0 - l) <= p_dual_tol AP)).
  Proof.
    intros Hx0 Hy0 Hmi HΣ Htol Hrun Hst. unfold alm_zerofpr in Hrun.
    exact (compose_converged_is_kkt counters (result (T:=R)) inner_ Pb Clb Cub split AP n m HClb HCub HCne Hgf Hgg Hg HDlb HDub HDne
             zinner_contract outer_fuel nanv Σ0 y0 x0 cnt0 co Hx0 Hy0 Hmi HΣ Htol Hrun Hst).
  Qed.
End E2E.
