(* KernelsGenEq.v — tie 1 for C05 / C06 (translator G9): every definition that translate/gen_kernels.py regenerates from the
   C++ on every run (coq/gen/KernelsGen.v: one definition per (file, lambda / site)) EQUALS, at the real instance, the hand kernel of
   SolverKernels.v / Panoc.v / ZeroFpr.v / Pantr.v / PanocOcp.v that the proofs of C05 / C06 / PANOC / ZEROFPR / PANTR are about.
   A change of ONE solver's copy of a kernel changes that solver's generated definition and breaks the lemma named after it here
   (Properties_C05.v / Properties_C06.v import this file, so it is a proof obligation of both checks).
   Proof style: `reflexivity` when the translated term is convertible with the model (the normal case; temporaries are `let`s);
   otherwise case analysis on the comparisons + ring / linear real arithmetic, so that a rewriting that is EQUAL OVER R (reordered
   commutative operands, re-associated sums) keeps the tie — such a rewriting may still change the binary64 result and is left to
   the binary64 correspondence (Corr_KernelsGen.v), which compares the generated terms with the implementation directly. *)
From Coq Require Import Reals List ZArith Lra Lia Psatz Bool Arith.
From Flocq Require Import Raux.
From Alpaqa Require Import Num NumR Vec Prox ProxProofs SolverStatus SolverKernels SolverKernelsProofs DescentProofs
     LoopSkeleton Panoc ZeroFpr Pantr PanocOcp KernelsGen.
Import ListNotations.
Local Open Scope R_scope.

Ltac kg_arith :=
  numR; cbv zeta; rewrite ?one_plus_one;
  repeat match goal with b : bool |- _ => destruct b end; try reflexivity;
  rbool; first [ reflexivity | ring | lra | (exfalso; lra) | nra | (exfalso; nra) ].
(* `kg g` : g is the generated constant of the lemma *)
Tactic Notation "kg" constr(g) :=
  intros; first [ reflexivity
                | solve [ unfold g, fbe, qub_violated, qub_rhs, ls_violated, ls_rhs, ls_sigma, nhalf1, tr_ratio, halve_step,
                                 updated_radius; cbn [fst snd]; kg_arith ] ].
Tactic Notation "kgvec" constr(g) :=
  intros; first [ reflexivity
                | solve [ unfold g, crit_eps, ocp_crit, kkt_residual, unit_step; numR; cbv zeta;
                          first [ reflexivity | ring | lra | (repeat f_equal; first [ reflexivity | ring | lra ]) ] ] ].
(* ======================================================================== calc_error_stop_crit (panoc-helpers.tpp) *)
Section Crit.
  Variables (lb ub : list (option R)) (l1 p : list R) (γ : R) (x xh yh grad gradh : list R).

  Lemma gen_crit_ApproxKKT_eq : g_crit_ApproxKKT lb ub l1 p γ x xh yh grad gradh = crit_eps ApproxKKT lb ub l1 p γ x xh yh grad gradh.
  Proof. kgvec (@g_crit_ApproxKKT). Qed.
  Lemma gen_crit_ApproxKKT2_eq : g_crit_ApproxKKT2 lb ub l1 p γ x xh yh grad gradh = crit_eps ApproxKKT2 lb ub l1 p γ x xh yh grad gradh.
  Proof. kgvec (@g_crit_ApproxKKT2). Qed.
  Lemma gen_crit_ProjGradNorm_eq : g_crit_ProjGradNorm lb ub l1 p γ x xh yh grad gradh = crit_eps ProjGradNorm lb ub l1 p γ x xh yh grad gradh.
  Proof. kgvec (@g_crit_ProjGradNorm). Qed.
  Lemma gen_crit_ProjGradNorm2_eq : g_crit_ProjGradNorm2 lb ub l1 p γ x xh yh grad gradh = crit_eps ProjGradNorm2 lb ub l1 p γ x xh yh grad gradh.
  Proof. kgvec (@g_crit_ProjGradNorm2). Qed.
  Lemma gen_crit_ProjGradUnitNorm_eq : g_crit_ProjGradUnitNorm lb ub l1 p γ x xh yh grad gradh = crit_eps ProjGradUnitNorm lb ub l1 p γ x xh yh grad gradh.
  Proof. kgvec (@g_crit_ProjGradUnitNorm). Qed.
  Lemma gen_crit_ProjGradUnitNorm2_eq : g_crit_ProjGradUnitNorm2 lb ub l1 p γ x xh yh grad gradh = crit_eps ProjGradUnitNorm2 lb ub l1 p γ x xh yh grad gradh.
  Proof. kgvec (@g_crit_ProjGradUnitNorm2). Qed.
  Lemma gen_crit_FPRNorm_eq : g_crit_FPRNorm lb ub l1 p γ x xh yh grad gradh = crit_eps FPRNorm lb ub l1 p γ x xh yh grad gradh.
  Proof. kgvec (@g_crit_FPRNorm). Qed.
  Lemma gen_crit_FPRNorm2_eq : g_crit_FPRNorm2 lb ub l1 p γ x xh yh grad gradh = crit_eps FPRNorm2 lb ub l1 p γ x xh yh grad gradh.
  Proof. kgvec (@g_crit_FPRNorm2). Qed.
  Lemma gen_crit_LBFGSBpp_eq : g_crit_LBFGSBpp lb ub l1 p γ x xh yh grad gradh = crit_eps LBFGSBpp lb ub l1 p γ x xh yh grad gradh.
  Proof. kgvec (@g_crit_LBFGSBpp). Qed.
  Lemma gen_crit_Ipopt_eq : g_crit_Ipopt lb ub l1 p γ x xh yh grad gradh = crit_eps Ipopt lb ub l1 p γ x xh yh grad gradh.
  Proof.
    first [ reflexivity
          | unfold g_crit_Ipopt, crit_eps, unit_step, nofnat; cbv zeta;
            destruct (2 * (length yh + length xh))%nat; first [ reflexivity | numR; first [ reflexivity | ring | lra ] ] ].
  Qed.
  Lemma gen_crit_eps_eq c : g_crit_eps c lb ub l1 p γ x xh yh grad gradh = crit_eps c lb ub l1 p γ x xh yh grad gradh.
  Proof.
    destruct c; unfold g_crit_eps;
      [ apply gen_crit_ApproxKKT_eq | apply gen_crit_ApproxKKT2_eq | apply gen_crit_ProjGradNorm_eq | apply gen_crit_ProjGradNorm2_eq
      | apply gen_crit_ProjGradUnitNorm_eq | apply gen_crit_ProjGradUnitNorm2_eq | apply gen_crit_FPRNorm_eq | apply gen_crit_FPRNorm2_eq
      | apply gen_crit_Ipopt_eq | apply gen_crit_LBFGSBpp_eq ].
  Qed.
End Crit.
Lemma gen_crit_needs_gradh_eq c : g_crit_needs_gradh c = crit_needs_gradh c.
Proof. destruct c; reflexivity. Qed.

(* PANOC-OCP's local copy: six criteria, the others throw; pₖᵀpₖ is passed by the call site as curr->pᵀp = ‖p‖² *)
Lemma gen_ocp_crit_eq c Ulb Uub N (γ : R) u g p : g_ocp_crit c Ulb Uub N γ u g p (vsqnorm p) = ocp_crit c Ulb Uub N γ u g p.
Proof.
  destruct c; first [ reflexivity
                    | solve [ unfold g_ocp_crit, ocp_crit, crit_eps, unit_step, vnorm2,
                                     g_ocp_crit_ProjGradNorm, g_ocp_crit_ProjGradNorm2, g_ocp_crit_ProjGradUnitNorm,
                                     g_ocp_crit_ProjGradUnitNorm2, g_ocp_crit_FPRNorm, g_ocp_crit_FPRNorm2;
                              numR; cbv zeta; f_equal; first [ reflexivity | ring | lra ] ] ].
Qed.

(* ======================================================================== per-solver copies of the loop lambdas *)

(* ---------------- panoc.tpp *)
Lemma gen_panoc_fbe_eq ψx hxh pp γ gp : g_panoc_fbe ψx hxh pp γ gp = fbe ψx hxh pp γ gp.
Proof. kg (@g_panoc_fbe). Qed.
Lemma gen_panoc_qub_violated_eq ψx ψxh gp L pp tol : g_panoc_qub_violated ψx ψxh gp L pp tol = qub_violated ψx ψxh gp L pp tol.
Proof. kg (@g_panoc_qub_violated). Qed.
Lemma gen_panoc_gamma_of_L_eq Lγ L : g_panoc_gamma_of_L Lγ L = Lγ / L.
Proof. kg (@g_panoc_gamma_of_L). Qed.
Lemma gen_panoc_qub_guard_init_eq L Lmax qv : g_panoc_qub_guard_init L Lmax qv = (Rlt_bool L Lmax && qv).
Proof. kg (@g_panoc_qub_guard_init). Qed.
Lemma gen_panoc_halve_init_eq γ L : (g_panoc_halve_gamma_init γ, g_panoc_halve_L_init L) = halve_step (γ, L).
Proof. intros; first [ reflexivity | unfold g_panoc_halve_gamma_init, g_panoc_halve_L_init, halve_step; cbn [fst snd]; f_equal; kg_arith ]. Qed.
Lemma gen_panoc_qub_guard_ls_eq L Lmax qv : g_panoc_qub_guard_ls L Lmax qv = (Rlt_bool L Lmax && qv).
Proof. kg (@g_panoc_qub_guard_ls). Qed.
Lemma gen_panoc_halve_ls_eq γ L : (g_panoc_halve_gamma_ls γ, g_panoc_halve_L_ls L) = halve_step (γ, L).
Proof. intros; first [ reflexivity | unfold g_panoc_halve_gamma_ls, g_panoc_halve_L_ls, halve_step; cbn [fst snd]; f_equal; kg_arith ]. Qed.
Lemma gen_panoc_ls_violated_eq force β tol cψ ch cpp cγ cgp cL nψ nh npp nγ ngp :
  g_panoc_ls_violated force β tol cψ ch cpp cγ cgp cL nψ nh npp nγ ngp
  = ls_violated force β cγ cL (fbe cψ ch cpp cγ cgp) cpp (fbe nψ nh npp nγ ngp) tol.
Proof.
  intros; first [ reflexivity
                | solve [ unfold g_panoc_ls_violated; rewrite (gen_panoc_fbe_eq cψ ch cpp cγ cgp), (gen_panoc_fbe_eq nψ nh npp nγ ngp);
                          generalize (fbe cψ ch cpp cγ cgp) (fbe nψ nh npp nγ ngp); intros φ φn;
                          unfold ls_violated, ls_rhs, ls_sigma; kg_arith ] ].
Qed.
Lemma gen_panoc_tau_reset_eq τ τi : g_panoc_tau_reset τ τi = (if Rlt_bool 0 τ then τi else τ).
Proof. kg (@g_panoc_tau_reset). Qed.
Lemma gen_panoc_ls_guard_eq τ lv : g_panoc_ls_guard τ lv = (Rlt_bool 0 τ && lv).
Proof. kg (@g_panoc_ls_guard). Qed.
Lemma gen_panoc_tau_update_eq τ factor τmin : g_panoc_tau_update τ factor τmin = (if Rlt_bool (τ * factor) τmin then 0 else τ * factor).
Proof. kg (@g_panoc_tau_update). Qed.
Lemma gen_panoc_np_update_eq np k m (x xn : list R) : Some (g_panoc_np_update np k m x xn) = no_progress_update np k m (veqb x xn).
Proof.
  unfold g_panoc_np_update, no_progress_update; rewrite ?Nat.add_1_r.
  destruct np as [|np']; [|reflexivity]. destruct m as [|m']; [reflexivity|].
  cbn [Nat.ltb Nat.leb Nat.eqb orb]. destruct (Nat.eqb _ 0); reflexivity.
Qed.
(* ---------------- zerofpr.tpp *)
Lemma gen_zerofpr_fbe_eq ψx hxh pp γ gp : g_zerofpr_fbe ψx hxh pp γ gp = fbe ψx hxh pp γ gp.
Proof. kg (@g_zerofpr_fbe). Qed.
Lemma gen_zerofpr_qub_violated_eq ψx ψxh gp L pp tol : g_zerofpr_qub_violated ψx ψxh gp L pp tol = qub_violated ψx ψxh gp L pp tol.
Proof. kg (@g_zerofpr_qub_violated). Qed.
Lemma gen_zerofpr_gamma_of_L_eq Lγ L : g_zerofpr_gamma_of_L Lγ L = Lγ / L.
Proof. kg (@g_zerofpr_gamma_of_L). Qed.
Lemma gen_zerofpr_qub_guard_init_eq L Lmax qv : g_zerofpr_qub_guard_init L Lmax qv = (Rlt_bool L Lmax && qv).
Proof. kg (@g_zerofpr_qub_guard_init). Qed.
Lemma gen_zerofpr_halve_init_eq γ L : (g_zerofpr_halve_gamma_init γ, g_zerofpr_halve_L_init L) = halve_step (γ, L).
Proof. intros; first [ reflexivity | unfold g_zerofpr_halve_gamma_init, g_zerofpr_halve_L_init, halve_step; cbn [fst snd]; f_equal; kg_arith ]. Qed.
Lemma gen_zerofpr_qub_guard_ls_eq L Lmax qv : g_zerofpr_qub_guard_ls L Lmax qv = (Rlt_bool L Lmax && qv).
Proof. kg (@g_zerofpr_qub_guard_ls). Qed.
Lemma gen_zerofpr_halve_ls_eq γ L : (g_zerofpr_halve_gamma_ls γ, g_zerofpr_halve_L_ls L) = halve_step (γ, L).
Proof. intros; first [ reflexivity | unfold g_zerofpr_halve_gamma_ls, g_zerofpr_halve_L_ls, halve_step; cbn [fst snd]; f_equal; kg_arith ]. Qed.
Lemma gen_zerofpr_ls_violated_eq force β tol cψ ch cpp cγ cgp cL nψ nh npp nγ ngp :
  g_zerofpr_ls_violated force β tol cψ ch cpp cγ cgp cL nψ nh npp nγ ngp
  = ls_violated force β cγ cL (fbe cψ ch cpp cγ cgp) cpp (fbe nψ nh npp nγ ngp) tol.
Proof.
  intros; first [ reflexivity
                | solve [ unfold g_zerofpr_ls_violated; rewrite (gen_zerofpr_fbe_eq cψ ch cpp cγ cgp), (gen_zerofpr_fbe_eq nψ nh npp nγ ngp);
                          generalize (fbe cψ ch cpp cγ cgp) (fbe nψ nh npp nγ ngp); intros φ φn;
                          unfold ls_violated, ls_rhs, ls_sigma; kg_arith ] ].
Qed.
Lemma gen_zerofpr_tau_reset_eq τ τi : g_zerofpr_tau_reset τ τi = (if Rlt_bool 0 τ then τi else τ).
Proof. kg (@g_zerofpr_tau_reset). Qed.
Lemma gen_zerofpr_ls_guard_eq τ lv : g_zerofpr_ls_guard τ lv = (Rlt_bool 0 τ && lv).
Proof. kg (@g_zerofpr_ls_guard). Qed.
Lemma gen_zerofpr_tau_update_eq τ factor τmin : g_zerofpr_tau_update τ factor τmin = (if Rlt_bool (τ / 2) τmin then 0 else τ / 2).
Proof. kg (@g_zerofpr_tau_update). Qed.
Lemma gen_zerofpr_np_update_eq np k m (x xn : list R) : Some (g_zerofpr_np_update np k m x xn) = no_progress_update np k m (veqb x xn).
Proof.
  unfold g_zerofpr_np_update, no_progress_update; rewrite ?Nat.add_1_r.
  destruct np as [|np']; [|reflexivity]. destruct m as [|m']; [reflexivity|].
  cbn [Nat.ltb Nat.leb Nat.eqb orb]. destruct (Nat.eqb _ 0); reflexivity.
Qed.
(* ---------------- pantr.tpp *)
Lemma gen_pantr_fbe_eq ψx hxh pp γ gp : g_pantr_fbe ψx hxh pp γ gp = fbe ψx hxh pp γ gp.
Proof. kg (@g_pantr_fbe). Qed.
Lemma gen_pantr_qub_violated_eq ψx ψxh gp L pp tol : g_pantr_qub_violated ψx ψxh gp L pp tol = qub_violated ψx ψxh gp L pp tol.
Proof. kg (@g_pantr_qub_violated). Qed.
Lemma gen_pantr_gamma_of_L_eq Lγ L : g_pantr_gamma_of_L Lγ L = Lγ / L.
Proof. kg (@g_pantr_gamma_of_L). Qed.
Lemma gen_pantr_qub_guard_bt_eq L Lmax qv : g_pantr_qub_guard_bt L Lmax qv = (Rlt_bool L Lmax && qv).
Proof. kg (@g_pantr_qub_guard_bt). Qed.
Lemma gen_pantr_halve_bt_eq γ L : (g_pantr_halve_gamma_bt γ, g_pantr_halve_L_bt L) = halve_step (γ, L).
Proof. intros; first [ reflexivity | unfold g_pantr_halve_gamma_bt, g_pantr_halve_L_bt, halve_step; cbn [fst snd]; f_equal; kg_arith ]. Qed.
(* ---------------- fista.tpp *)
Lemma gen_fista_fbe_eq ψx hxh pp γ gp : g_fista_fbe ψx hxh pp γ gp = fbe ψx hxh pp γ gp.
Proof. kg (@g_fista_fbe). Qed.
Lemma gen_fista_np_update_eq np k m (x xn : list R) : Some (g_fista_np_update np k m x xn) = no_progress_update np k m (veqb x xn).
Proof.
  unfold g_fista_np_update, no_progress_update; rewrite ?Nat.add_1_r.
  destruct np as [|np']; [|reflexivity]. destruct m as [|m']; [reflexivity|].
  cbn [Nat.ltb Nat.leb Nat.eqb orb]. destruct (Nat.eqb _ 0); reflexivity.
Qed.

(* ---------------- pantr.tpp: ratio test and radius update *)
Lemma gen_pantr_ratio_eq approx pψ ph ppp pγ pgp cψ ch cpp cγ cgp qm tol Lγ :
  g_pantr_ratio approx pψ ph ppp pγ pgp cψ ch cpp cγ cgp qm tol Lγ
  = tr_ratio approx (fbe pψ ph ppp pγ pgp) (fbe cψ ch cpp cγ cgp) qm tol Lγ.
Proof.
  intros; first [ reflexivity
                | solve [ unfold g_pantr_ratio; rewrite (gen_pantr_fbe_eq pψ ph ppp pγ pgp), (gen_pantr_fbe_eq cψ ch cpp cγ cgp);
                          generalize (fbe pψ ph ppp pγ pgp) (fbe cψ ch cpp cγ cgp); intros φ φn; unfold tr_ratio; kg_arith ] ].
Qed.
Lemma gen_pantr_updated_radius_eq (TP : trparams (T:=R)) q ρ old :
  g_pantr_radius_clip (g_pantr_updated_radius q ρ old (tp_thr_good TP) (tp_thr_acc TP) (tp_rf_good TP) (tp_rf_acc TP) (tp_rf_rej TP))
                      (tp_min_radius TP)
  = updated_radius TP q ρ old.
Proof.
  intros; first [ reflexivity
                | solve [ unfold g_pantr_radius_clip, g_pantr_updated_radius, updated_radius; generalize (vnorm2 q); intros nq; kg_arith ] ].
Qed.
Lemma gen_pantr_accept_eq ρ thr : g_pantr_accept ρ thr = Rle_bool thr ρ.
Proof. kg (@g_pantr_accept). Qed.

(* ---------------- panoc-ocp.tpp (no h term: fbe = ψ + ‖p‖²/(2γ) + ∇ψᵀp; linesearch_violated has no force_linesearch test) *)
Lemma gen_ocp_fbe_eq ψu pp γ gp : g_ocp_fbe ψu pp γ gp = fbe ψu 0 pp γ gp.
Proof. intros; unfold g_ocp_fbe, fbe; kg_arith. Qed.
Lemma gen_ocp_qub_violated_eq ψx ψxh gp L pp tol : g_ocp_qub_violated ψx ψxh gp L pp tol = qub_violated ψx ψxh gp L pp tol.
Proof. kg (@g_ocp_qub_violated). Qed.
Lemma gen_ocp_gamma_of_L_eq Lγ L : g_ocp_gamma_of_L Lγ L = Lγ / L.
Proof. kg (@g_ocp_gamma_of_L). Qed.
Lemma gen_ocp_qub_guard_init_eq L Lmax qv : g_ocp_qub_guard_init L Lmax qv = (Rlt_bool L Lmax && qv).
Proof. kg (@g_ocp_qub_guard_init). Qed.
Lemma gen_ocp_halve_init_eq γ L : (g_ocp_halve_gamma_init γ, g_ocp_halve_L_init L) = halve_step (γ, L).
Proof. intros; first [ reflexivity | unfold g_ocp_halve_gamma_init, g_ocp_halve_L_init, halve_step; cbn [fst snd]; f_equal; kg_arith ]. Qed.
Lemma gen_ocp_qub_guard_ls_eq L Lmax qv : g_ocp_qub_guard_ls L Lmax qv = (Rlt_bool L Lmax && qv).
Proof. kg (@g_ocp_qub_guard_ls). Qed.
Lemma gen_ocp_halve_ls_eq γ L : (g_ocp_halve_gamma_ls γ, g_ocp_halve_L_ls L) = halve_step (γ, L).
Proof. intros; first [ reflexivity | unfold g_ocp_halve_gamma_ls, g_ocp_halve_L_ls, halve_step; cbn [fst snd]; f_equal; kg_arith ]. Qed.
Lemma gen_ocp_ls_violated_eq force β tol cψ cpp cγ cgp cL nψ npp nγ ngp :
  g_ocp_ls_violated force β tol cψ cpp cγ cgp cL nψ npp nγ ngp
  = ls_violated false β cγ cL (fbe cψ 0 cpp cγ cgp) cpp (fbe nψ 0 npp nγ ngp) tol.
Proof.
  intros; unfold g_ocp_ls_violated; rewrite (gen_ocp_fbe_eq cψ cpp cγ cgp), (gen_ocp_fbe_eq nψ npp nγ ngp);
    generalize (fbe cψ 0 cpp cγ cgp) (fbe nψ 0 npp nγ ngp); intros φ φn;
    first [ reflexivity | unfold ls_violated, ls_rhs, ls_sigma; clear force; kg_arith ].
Qed.
Lemma gen_ocp_tau_reset_eq τ τi : g_ocp_tau_reset τ τi = (if Rlt_bool 0 τ then τi else τ).
Proof. kg (@g_ocp_tau_reset). Qed.
Lemma gen_ocp_ls_guard_eq τ lv : g_ocp_ls_guard τ lv = (Rlt_bool 0 τ && lv).
Proof. kg (@g_ocp_ls_guard). Qed.
Lemma gen_ocp_tau_update_eq τ factor τmin : g_ocp_tau_update τ factor τmin = (if Rlt_bool (τ / 2) τmin then 0 else τ / 2).
Proof. kg (@g_ocp_tau_update). Qed.
Lemma gen_ocp_np_update_eq np k m (x xn : list R) : Some (g_ocp_np_update np k m x xn) = no_progress_update np k m (veqb x xn).
Proof.
  unfold g_ocp_np_update, no_progress_update; rewrite ?Nat.add_1_r.
  destruct np as [|np']; [|reflexivity]. destruct m as [|m']; [reflexivity|].
  cbn [Nat.ltb Nat.leb Nat.eqb orb]. destruct (Nat.eqb _ 0); reflexivity.
Qed.

(* ======================================================================== the whole-loop models use exactly these kernels *)
Section LoopModels.
  Variable P : params (T:=R).
  Variables (lb ub : list (option R)) (l1 : list R).
  Notation iterate := (iterate (T:=R)).

  Lemma gen_panoc_it_fbe (i : iterate) : it_fbe i = g_panoc_fbe (ipsi i) (ih i) (ipp i) (igam i) (igp i).
  Proof. unfold it_fbe. symmetry. apply gen_panoc_fbe_eq. Qed.
  Lemma gen_panoc_it_qub_violated (i : iterate) :
    it_qub_violated P i = g_panoc_qub_violated (ipsi i) (ipsih i) (igp i) (iL i) (ipp i) (p_qub_tol P).
  Proof. unfold it_qub_violated. symmetry. apply gen_panoc_qub_violated_eq. Qed.
  Lemma gen_panoc_halve_it (i : iterate) : halve_it i = set_gamma_L i (g_panoc_halve_gamma_ls (igam i)) (g_panoc_halve_L_ls (iL i)).
  Proof. unfold halve_it. pose proof (gen_panoc_halve_ls_eq (igam i) (iL i)) as E. rewrite <- E. reflexivity. Qed.
  Lemma gen_panoc_it_ls_violated (c n : iterate) :
    it_ls_violated P c n = g_panoc_ls_violated (p_force_ls P) (p_beta P) (p_ls_tol P) (ipsi c) (ih c) (ipp c) (igam c) (igp c) (iL c)
                                               (ipsi n) (ih n) (ipp n) (igam n) (igp n).
  Proof. unfold it_ls_violated, it_fbe. symmetry. apply gen_panoc_ls_violated_eq. Qed.
  Lemma gen_zerofpr_it_fbe (i : iterate) : it_fbe i = g_zerofpr_fbe (ipsi i) (ih i) (ipp i) (igam i) (igp i).
  Proof. unfold it_fbe. symmetry. apply gen_zerofpr_fbe_eq. Qed.
  Lemma gen_zerofpr_it_qub_violated (i : iterate) :
    it_qub_violated P i = g_zerofpr_qub_violated (ipsi i) (ipsih i) (igp i) (iL i) (ipp i) (p_qub_tol P).
  Proof. unfold it_qub_violated. symmetry. apply gen_zerofpr_qub_violated_eq. Qed.
  Lemma gen_zerofpr_halve_it (i : iterate) : halve_it i = set_gamma_L i (g_zerofpr_halve_gamma_ls (igam i)) (g_zerofpr_halve_L_ls (iL i)).
  Proof. unfold halve_it. pose proof (gen_zerofpr_halve_ls_eq (igam i) (iL i)) as E. rewrite <- E. reflexivity. Qed.
  Lemma gen_zerofpr_it_ls_violated (c n : iterate) :
    it_ls_violated P c n = g_zerofpr_ls_violated (p_force_ls P) (p_beta P) (p_ls_tol P) (ipsi c) (ih c) (ipp c) (igam c) (igp c) (iL c)
                                               (ipsi n) (ih n) (ipp n) (igam n) (igp n).
  Proof. unfold it_ls_violated, it_fbe. symmetry. apply gen_zerofpr_ls_violated_eq. Qed.
  Lemma gen_pantr_it_fbe (i : iterate) : it_fbe i = g_pantr_fbe (ipsi i) (ih i) (ipp i) (igam i) (igp i).
  Proof. unfold it_fbe. symmetry. apply gen_pantr_fbe_eq. Qed.
  Lemma gen_pantr_it_qub_violated (i : iterate) :
    it_qub_violated P i = g_pantr_qub_violated (ipsi i) (ipsih i) (igp i) (iL i) (ipp i) (p_qub_tol P).
  Proof. unfold it_qub_violated. symmetry. apply gen_pantr_qub_violated_eq. Qed.
  Lemma gen_pantr_halve_it (i : iterate) : halve_it i = set_gamma_L i (g_pantr_halve_gamma_bt (igam i)) (g_pantr_halve_L_bt (iL i)).
  Proof. unfold halve_it. pose proof (gen_pantr_halve_bt_eq (igam i) (iL i)) as E. rewrite <- E. reflexivity. Qed.
  Lemma gen_it_eps (i : iterate) :
    Panoc.it_eps lb ub l1 P i = g_crit_eps (p_crit P) lb ub l1 (ip i) (igam i) (ix i) (ixh i) (iyh i) (igrad i) (igradh i).
  Proof. unfold Panoc.it_eps. symmetry. apply gen_crit_eps_eq. Qed.
End LoopModels.

(* ======================================================================== C05's theorems, for the generated terms *)

Lemma gen_panoc_ls_accept_descent β tol cψ ch cpp cγ cgp cL nψ nh npp nγ ngp :
  g_panoc_ls_violated false β tol cψ ch cpp cγ cgp cL nψ nh npp nγ ngp = false ->
  g_panoc_fbe nψ nh npp nγ ngp
    <= g_panoc_fbe cψ ch cpp cγ cgp - β * (1 - cγ * cL) / (2 * cγ) * cpp + (1 + Rabs (g_panoc_fbe cψ ch cpp cγ cgp)) * tol.
Proof.
  intros Hv. rewrite gen_panoc_ls_violated_eq in Hv. rewrite (gen_panoc_fbe_eq nψ nh npp nγ ngp), (gen_panoc_fbe_eq cψ ch cpp cγ cgp).
  exact (ls_accept_descent _ _ _ _ _ _ _ Hv).
Qed.
Lemma gen_panoc_ls_forced β tol cψ ch cpp cγ cgp cL nψ nh npp nγ ngp :
  g_panoc_ls_violated true β tol cψ ch cpp cγ cgp cL nψ nh npp nγ ngp = false.
Proof. rewrite gen_panoc_ls_violated_eq. apply ls_forced. Qed.
Lemma gen_zerofpr_ls_accept_descent β tol cψ ch cpp cγ cgp cL nψ nh npp nγ ngp :
  g_zerofpr_ls_violated false β tol cψ ch cpp cγ cgp cL nψ nh npp nγ ngp = false ->
  g_zerofpr_fbe nψ nh npp nγ ngp
    <= g_zerofpr_fbe cψ ch cpp cγ cgp - β * (1 - cγ * cL) / (2 * cγ) * cpp + (1 + Rabs (g_zerofpr_fbe cψ ch cpp cγ cgp)) * tol.
Proof.
  intros Hv. rewrite gen_zerofpr_ls_violated_eq in Hv. rewrite (gen_zerofpr_fbe_eq nψ nh npp nγ ngp), (gen_zerofpr_fbe_eq cψ ch cpp cγ cgp).
  exact (ls_accept_descent _ _ _ _ _ _ _ Hv).
Qed.
Lemma gen_zerofpr_ls_forced β tol cψ ch cpp cγ cgp cL nψ nh npp nγ ngp :
  g_zerofpr_ls_violated true β tol cψ ch cpp cγ cgp cL nψ nh npp nγ ngp = false.
Proof. rewrite gen_zerofpr_ls_violated_eq. apply ls_forced. Qed.
Lemma gen_ocp_ls_accept_descent force β tol cψ cpp cγ cgp cL nψ npp nγ ngp :
  g_ocp_ls_violated force β tol cψ cpp cγ cgp cL nψ npp nγ ngp = false ->
  g_ocp_fbe nψ npp nγ ngp <= g_ocp_fbe cψ cpp cγ cgp - β * (1 - cγ * cL) / (2 * cγ) * cpp + (1 + Rabs (g_ocp_fbe cψ cpp cγ cgp)) * tol.
Proof.
  intros Hv. rewrite gen_ocp_ls_violated_eq in Hv. rewrite (gen_ocp_fbe_eq nψ npp nγ ngp), (gen_ocp_fbe_eq cψ cpp cγ cgp).
  exact (ls_accept_descent _ _ _ _ _ _ _ Hv).
Qed.
Lemma gen_panoc_safe_step_descent lb ub γ γ' L tol (x grad xh gradxh : list R) (ψx ψxh : R) :
  0 < γ -> 0 < γ' ->
  length lb = length xh -> length ub = length xh -> length gradxh = length xh ->
  all_in_box lb ub xh ->
  let p := snd (fst (proj_grad_step lb ub γ x grad)) in
  let pp := vsqnorm p in let gp := vdot grad p in
  g_panoc_qub_violated ψx ψxh gp L pp tol = false ->
  let p' := snd (fst (proj_grad_step lb ub γ' xh gradxh)) in
  g_panoc_fbe ψxh 0 (vsqnorm p') γ' (vdot gradxh p')
    <= g_panoc_fbe ψx 0 pp γ gp - (1 - γ * L) / (2 * γ) * pp + (1 + Rabs ψx) * tol.
Proof.
  intros Hg Hg' H1 H2 H3 Hb p pp gp Hq p'. rewrite gen_panoc_qub_violated_eq in Hq.
  rewrite (gen_panoc_fbe_eq ψxh 0 (vsqnorm p') γ' (vdot gradxh p')), (gen_panoc_fbe_eq ψx 0 pp γ gp).
  exact (safe_step_envelope_descent lb ub γ γ' L tol x grad xh gradxh ψx ψxh Hg Hg' H1 H2 H3 Hb Hq).
Qed.
Lemma gen_zerofpr_safe_step_descent lb ub γ γ' L tol (x grad xh gradxh : list R) (ψx ψxh : R) :
  0 < γ -> 0 < γ' ->
  length lb = length xh -> length ub = length xh -> length gradxh = length xh ->
  all_in_box lb ub xh ->
  let p := snd (fst (proj_grad_step lb ub γ x grad)) in
  let pp := vsqnorm p in let gp := vdot grad p in
  g_zerofpr_qub_violated ψx ψxh gp L pp tol = false ->
  let p' := snd (fst (proj_grad_step lb ub γ' xh gradxh)) in
  g_zerofpr_fbe ψxh 0 (vsqnorm p') γ' (vdot gradxh p')
    <= g_zerofpr_fbe ψx 0 pp γ gp - (1 - γ * L) / (2 * γ) * pp + (1 + Rabs ψx) * tol.
Proof.
  intros Hg Hg' H1 H2 H3 Hb p pp gp Hq p'. rewrite gen_zerofpr_qub_violated_eq in Hq.
  rewrite (gen_zerofpr_fbe_eq ψxh 0 (vsqnorm p') γ' (vdot gradxh p')), (gen_zerofpr_fbe_eq ψx 0 pp γ gp).
  exact (safe_step_envelope_descent lb ub γ γ' L tol x grad xh gradxh ψx ψxh Hg Hg' H1 H2 H3 Hb Hq).
Qed.
Lemma gen_pantr_safe_step_descent lb ub γ γ' L tol (x grad xh gradxh : list R) (ψx ψxh : R) :
  0 < γ -> 0 < γ' ->
  length lb = length xh -> length ub = length xh -> length gradxh = length xh ->
  all_in_box lb ub xh ->
  let p := snd (fst (proj_grad_step lb ub γ x grad)) in
  let pp := vsqnorm p in let gp := vdot grad p in
  g_pantr_qub_violated ψx ψxh gp L pp tol = false ->
  let p' := snd (fst (proj_grad_step lb ub γ' xh gradxh)) in
  g_pantr_fbe ψxh 0 (vsqnorm p') γ' (vdot gradxh p')
    <= g_pantr_fbe ψx 0 pp γ gp - (1 - γ * L) / (2 * γ) * pp + (1 + Rabs ψx) * tol.
Proof.
  intros Hg Hg' H1 H2 H3 Hb p pp gp Hq p'. rewrite gen_pantr_qub_violated_eq in Hq.
  rewrite (gen_pantr_fbe_eq ψxh 0 (vsqnorm p') γ' (vdot gradxh p')), (gen_pantr_fbe_eq ψx 0 pp γ gp).
  exact (safe_step_envelope_descent lb ub γ γ' L tol x grad xh gradxh ψx ψxh Hg Hg' H1 H2 H3 Hb Hq).
Qed.
Lemma gen_panoc_halve_init_product γ L : g_panoc_halve_gamma_init γ * g_panoc_halve_L_init L = γ * L.
Proof. pose proof (gen_panoc_halve_init_eq γ L) as E. pose proof (halve_keeps_product γ L) as K. rewrite <- E in K. exact K. Qed.
Lemma gen_panoc_halve_init_decreases γ : 0 < γ -> 0 < g_panoc_halve_gamma_init γ < γ.
Proof.
  intros Hg. pose proof (gen_panoc_halve_init_eq γ 0) as E. pose proof (halve_decreases γ 0 Hg) as K. rewrite <- E in K. cbn [fst] in K.
  split; [|exact K]. assert (E' : g_panoc_halve_gamma_init γ = fst (halve_step (γ, 0))) by (rewrite <- E; reflexivity).
  rewrite E'. unfold halve_step; cbn [fst]. numR. rewrite ?one_plus_one. lra.
Qed.
Lemma gen_panoc_halve_ls_product γ L : g_panoc_halve_gamma_ls γ * g_panoc_halve_L_ls L = γ * L.
Proof. pose proof (gen_panoc_halve_ls_eq γ L) as E. pose proof (halve_keeps_product γ L) as K. rewrite <- E in K. exact K. Qed.
Lemma gen_panoc_halve_ls_decreases γ : 0 < γ -> 0 < g_panoc_halve_gamma_ls γ < γ.
Proof.
  intros Hg. pose proof (gen_panoc_halve_ls_eq γ 0) as E. pose proof (halve_decreases γ 0 Hg) as K. rewrite <- E in K. cbn [fst] in K.
  split; [|exact K]. assert (E' : g_panoc_halve_gamma_ls γ = fst (halve_step (γ, 0))) by (rewrite <- E; reflexivity).
  rewrite E'. unfold halve_step; cbn [fst]. numR. rewrite ?one_plus_one. lra.
Qed.
Lemma gen_zerofpr_halve_init_product γ L : g_zerofpr_halve_gamma_init γ * g_zerofpr_halve_L_init L = γ * L.
Proof. pose proof (gen_zerofpr_halve_init_eq γ L) as E. pose proof (halve_keeps_product γ L) as K. rewrite <- E in K. exact K. Qed.
Lemma gen_zerofpr_halve_init_decreases γ : 0 < γ -> 0 < g_zerofpr_halve_gamma_init γ < γ.
Proof.
  intros Hg. pose proof (gen_zerofpr_halve_init_eq γ 0) as E. pose proof (halve_decreases γ 0 Hg) as K. rewrite <- E in K. cbn [fst] in K.
  split; [|exact K]. assert (E' : g_zerofpr_halve_gamma_init γ = fst (halve_step (γ, 0))) by (rewrite <- E; reflexivity).
  rewrite E'. unfold halve_step; cbn [fst]. numR. rewrite ?one_plus_one. lra.
Qed.
Lemma gen_zerofpr_halve_ls_product γ L : g_zerofpr_halve_gamma_ls γ * g_zerofpr_halve_L_ls L = γ * L.
Proof. pose proof (gen_zerofpr_halve_ls_eq γ L) as E. pose proof (halve_keeps_product γ L) as K. rewrite <- E in K. exact K. Qed.
Lemma gen_zerofpr_halve_ls_decreases γ : 0 < γ -> 0 < g_zerofpr_halve_gamma_ls γ < γ.
Proof.
  intros Hg. pose proof (gen_zerofpr_halve_ls_eq γ 0) as E. pose proof (halve_decreases γ 0 Hg) as K. rewrite <- E in K. cbn [fst] in K.
  split; [|exact K]. assert (E' : g_zerofpr_halve_gamma_ls γ = fst (halve_step (γ, 0))) by (rewrite <- E; reflexivity).
  rewrite E'. unfold halve_step; cbn [fst]. numR. rewrite ?one_plus_one. lra.
Qed.
Lemma gen_pantr_halve_bt_product γ L : g_pantr_halve_gamma_bt γ * g_pantr_halve_L_bt L = γ * L.
Proof. pose proof (gen_pantr_halve_bt_eq γ L) as E. pose proof (halve_keeps_product γ L) as K. rewrite <- E in K. exact K. Qed.
Lemma gen_pantr_halve_bt_decreases γ : 0 < γ -> 0 < g_pantr_halve_gamma_bt γ < γ.
Proof.
  intros Hg. pose proof (gen_pantr_halve_bt_eq γ 0) as E. pose proof (halve_decreases γ 0 Hg) as K. rewrite <- E in K. cbn [fst] in K.
  split; [|exact K]. assert (E' : g_pantr_halve_gamma_bt γ = fst (halve_step (γ, 0))) by (rewrite <- E; reflexivity).
  rewrite E'. unfold halve_step; cbn [fst]. numR. rewrite ?one_plus_one. lra.
Qed.
Lemma gen_ocp_halve_init_product γ L : g_ocp_halve_gamma_init γ * g_ocp_halve_L_init L = γ * L.
Proof. pose proof (gen_ocp_halve_init_eq γ L) as E. pose proof (halve_keeps_product γ L) as K. rewrite <- E in K. exact K. Qed.
Lemma gen_ocp_halve_init_decreases γ : 0 < γ -> 0 < g_ocp_halve_gamma_init γ < γ.
Proof.
  intros Hg. pose proof (gen_ocp_halve_init_eq γ 0) as E. pose proof (halve_decreases γ 0 Hg) as K. rewrite <- E in K. cbn [fst] in K.
  split; [|exact K]. assert (E' : g_ocp_halve_gamma_init γ = fst (halve_step (γ, 0))) by (rewrite <- E; reflexivity).
  rewrite E'. unfold halve_step; cbn [fst]. numR. rewrite ?one_plus_one. lra.
Qed.
Lemma gen_ocp_halve_ls_product γ L : g_ocp_halve_gamma_ls γ * g_ocp_halve_L_ls L = γ * L.
Proof. pose proof (gen_ocp_halve_ls_eq γ L) as E. pose proof (halve_keeps_product γ L) as K. rewrite <- E in K. exact K. Qed.
Lemma gen_ocp_halve_ls_decreases γ : 0 < γ -> 0 < g_ocp_halve_gamma_ls γ < γ.
Proof.
  intros Hg. pose proof (gen_ocp_halve_ls_eq γ 0) as E. pose proof (halve_decreases γ 0 Hg) as K. rewrite <- E in K. cbn [fst] in K.
  split; [|exact K]. assert (E' : g_ocp_halve_gamma_ls γ = fst (halve_step (γ, 0))) by (rewrite <- E; reflexivity).
  rewrite E'. unfold halve_step; cbn [fst]. numR. rewrite ?one_plus_one. lra.
Qed.
Lemma gen_panoc_tau_update_shrinks τ factor τmin : 0 < factor < 1 -> 0 < τ -> 0 <= g_panoc_tau_update τ factor τmin < τ.
Proof. intros Hf Ht. rewrite gen_panoc_tau_update_eq. rbool; try lra; try nra. Qed.
Lemma gen_zerofpr_tau_update_shrinks τ factor τmin : 0 < τ -> 0 <= g_zerofpr_tau_update τ factor τmin < τ.
Proof. intros Ht. rewrite gen_zerofpr_tau_update_eq. rbool; try lra; try nra. Qed.
Lemma gen_ocp_tau_update_shrinks τ factor τmin : 0 < τ -> 0 <= g_ocp_tau_update τ factor τmin < τ.
Proof. intros Ht. rewrite gen_ocp_tau_update_eq. rbool; try lra; try nra. Qed.
Lemma gen_pantr_accept_nonincrease pψ ph ppp pγ pgp cψ ch cpp cγ cgp qm tol Lγ thr :
  qm < 0 -> 0 <= thr -> g_pantr_accept (g_pantr_ratio false pψ ph ppp pγ pgp cψ ch cpp cγ cgp qm tol Lγ) thr = true ->
  g_pantr_fbe cψ ch cpp cγ cgp <= g_pantr_fbe pψ ph ppp pγ pgp + (1 + Rabs (g_pantr_fbe pψ ph ppp pγ pgp)) * tol.
Proof.
  intros Hq Ht. rewrite gen_pantr_accept_eq, gen_pantr_ratio_eq, (gen_pantr_fbe_eq pψ ph ppp pγ pgp), (gen_pantr_fbe_eq cψ ch cpp cγ cgp). intros Ha.
  apply (tr_accept_nonincrease _ _ qm tol Lγ thr Hq Ht). destruct (Rle_bool_spec thr (tr_ratio false (fbe pψ ph ppp pγ pgp) (fbe cψ ch cpp cγ cgp) qm tol Lγ)); [assumption|discriminate].
Qed.

(* ======================================================================== C06's theorems, for the generated terms *)
Section CritDoc.
  Variables (lb ub : list (option R)) (γ : R) (x grad gradh yh : list R).
  Let step := proj_grad_step lb ub γ x grad.
  Let p := snd (fst step).
  Let xh := fst (fst step).
  Lemma gen_crit_matches_doc_ApproxKKT : length x = length p -> g_crit_eps ApproxKKT lb ub [] p γ x xh yh grad gradh = crit_doc ApproxKKT lb ub γ x xh yh grad gradh.
  Proof. rewrite gen_crit_eps_eq. apply crit_matches_doc_ApproxKKT. Qed.
  Lemma gen_crit_matches_doc_ApproxKKT2 : length x = length p -> g_crit_eps ApproxKKT2 lb ub [] p γ x xh yh grad gradh = crit_doc ApproxKKT2 lb ub γ x xh yh grad gradh.
  Proof. rewrite gen_crit_eps_eq. apply crit_matches_doc_ApproxKKT2. Qed.
  Lemma gen_crit_matches_doc_ProjGradNorm : g_crit_eps ProjGradNorm lb ub [] p γ x xh yh grad gradh = crit_doc ProjGradNorm lb ub γ x xh yh grad gradh.
  Proof. rewrite gen_crit_eps_eq. apply crit_matches_doc_ProjGradNorm. Qed.
  Lemma gen_crit_matches_doc_ProjGradNorm2 : g_crit_eps ProjGradNorm2 lb ub [] p γ x xh yh grad gradh = crit_doc ProjGradNorm2 lb ub γ x xh yh grad gradh.
  Proof. rewrite gen_crit_eps_eq. apply crit_matches_doc_ProjGradNorm2. Qed.
  Lemma gen_crit_matches_doc_ProjGradUnitNorm : g_crit_eps ProjGradUnitNorm lb ub [] p γ x xh yh grad gradh = crit_doc ProjGradUnitNorm lb ub γ x xh yh grad gradh.
  Proof. rewrite gen_crit_eps_eq. apply crit_matches_doc_ProjGradUnitNorm. Qed.
  Lemma gen_crit_matches_doc_ProjGradUnitNorm2 : g_crit_eps ProjGradUnitNorm2 lb ub [] p γ x xh yh grad gradh = crit_doc ProjGradUnitNorm2 lb ub γ x xh yh grad gradh.
  Proof. rewrite gen_crit_eps_eq. apply crit_matches_doc_ProjGradUnitNorm2. Qed.
  Lemma gen_crit_matches_doc_FPRNorm : γ <> 0 -> g_crit_eps FPRNorm lb ub [] p γ x xh yh grad gradh = crit_doc FPRNorm lb ub γ x xh yh grad gradh.
  Proof. rewrite gen_crit_eps_eq. apply crit_matches_doc_FPRNorm. Qed.
  Lemma gen_crit_matches_doc_FPRNorm2 : γ <> 0 -> g_crit_eps FPRNorm2 lb ub [] p γ x xh yh grad gradh = crit_doc FPRNorm2 lb ub γ x xh yh grad gradh.
  Proof. rewrite gen_crit_eps_eq. apply crit_matches_doc_FPRNorm2. Qed.
  Lemma gen_crit_matches_doc_LBFGSBpp : g_crit_eps LBFGSBpp lb ub [] p γ x xh yh grad gradh = crit_doc LBFGSBpp lb ub γ x xh yh grad gradh.
  Proof. rewrite gen_crit_eps_eq. apply crit_matches_doc_LBFGSBpp. Qed.
End CritDoc.
Lemma gen_crit_matches_doc_Ipopt lb ub γ p x xh yh grad gradh :
  g_crit_eps Ipopt lb ub [] p γ x xh yh grad gradh = crit_doc Ipopt lb ub γ x xh yh grad gradh.
Proof. rewrite gen_crit_eps_eq. apply crit_matches_doc_Ipopt. Qed.

Lemma gen_panoc_np_update_spec np k m (x xn : list R) :
  let np' := g_panoc_np_update np k m x xn in
  (np' = S np /\ veqb x xn = true) \/ (np' = 0%nat /\ veqb x xn = false) \/ (np' = np /\ np = 0%nat).
Proof. intros np'. apply (np_update_spec np k m (veqb x xn) np'). symmetry. apply gen_panoc_np_update_eq. Qed.
Lemma gen_zerofpr_np_update_spec np k m (x xn : list R) :
  let np' := g_zerofpr_np_update np k m x xn in
  (np' = S np /\ veqb x xn = true) \/ (np' = 0%nat /\ veqb x xn = false) \/ (np' = np /\ np = 0%nat).
Proof. intros np'. apply (np_update_spec np k m (veqb x xn) np'). symmetry. apply gen_zerofpr_np_update_eq. Qed.
Lemma gen_fista_np_update_spec np k m (x xn : list R) :
  let np' := g_fista_np_update np k m x xn in
  (np' = S np /\ veqb x xn = true) \/ (np' = 0%nat /\ veqb x xn = false) \/ (np' = np /\ np = 0%nat).
Proof. intros np'. apply (np_update_spec np k m (veqb x xn) np'). symmetry. apply gen_fista_np_update_eq. Qed.
Lemma gen_ocp_np_update_spec np k m (x xn : list R) :
  let np' := g_ocp_np_update np k m x xn in
  (np' = S np /\ veqb x xn = true) \/ (np' = 0%nat /\ veqb x xn = false) \/ (np' = np /\ np = 0%nat).
Proof. intros np'. apply (np_update_spec np k m (veqb x xn) np'). symmetry. apply gen_ocp_np_update_eq. Qed.
