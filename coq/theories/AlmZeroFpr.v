(* AlmZeroFpr.v — ALMSolver<ZeroFPRSolver<Direction>>: the ALM outer loop (Alm.v, composed by AlmCompose.v) with the whole-loop
   ZeroFPR model (ZeroFpr.v) as its inner solver, on a user problem given by its four basic functions through the vtable model of
   AugLag.v — the same problem view (o_psi_grad_full, o_psi_yhat, o_grad_L, o_grad_psi), the same world threading (cumulative
   counters: direction, stop flag and clock are indexed by the counters summed over the finished solves) and the same reading of the
   inner statistics as AlmPanoc.v.  The direction oracle of ZeroFPR also sees the prox iterate.
   Model only; proofs in AlmZeroFprProofs.v, theorem in Properties_C01.v. *)
From Coq Require Import List ZArith Bool Arith.
From Alpaqa Require Import Num Vec Prox SolverStatus SolverKernels StopChain AugLag Panoc ZeroFpr Alm AlmCompose AlmPanoc.
Import ListNotations.

Section AlmZeroFpr.
  Context {T : Type} `{Num T}.
  Local Open Scope num_scope.

  Variable Pb : problem (T:=T).
  Variable prov : fn -> bool.
  Variable wm_supplied : list T -> list T.
  Variables (Clb Cub : list (option T)) (l1 : list T).
  Variable split : nat.
  Variable dir : nat -> iterate (T:=T) -> proxit (T:=T) -> option (list T).   (* direction.apply, by the global number of apply calls *)
  Variable has_initial : bool.
  Variable stop_req : counters -> bool.
  Variable time_up : counters -> bool.
  Variable outer_oot : nat -> bool.
  Variable PP : params (T:=T).                  (* ZeroFPRParams (ZeroFpr.v reads Panoc.params; τ-factor and eager are ignored) *)
  Variable AP : alm_params (T:=T).
  Variables (ls_fuel inner_fuel : nat).

  (* one inner solve as the outer loop sees it *)
  (* ir_stop: ALMSolver::stop() sets ALM's own flag and the inner solver's flag in the same call, so the one oracle stop_req serves both:
     the outer loop reads its flag after the inner solve, i.e. at the cumulative counters the solve hands on *)
  Definition zinner (w : counters) (i : nat) (x y Σ : list T) (tol : T) (errz : list T)
      : option (inner_res (T:=T) * list T * result (T:=T) * counters) :=
    let r := zerofpr (o_psi_grad_full Pb prov wm_supplied y Σ) (o_psi_yhat Pb prov y Σ) (o_grad_L Pb prov) (o_grad_psi Pb prov y Σ) Clb Cub l1
                     (fun j it px => dir (c_apply w + j)%nat it px) has_initial
                     (fun c => stop_req (cadd w c)) (fun c => time_up (cadd w c))
                     (with_opts PP tol) x y Σ errz ls_fuel inner_fuel in
    match r with
    | Done o =>
        Some ({| ir_status := alm_status_of (out_status o); ir_eps := out_eps o; ir_err := Some (out_errz o);
                 ir_y := Some (out_y o); ir_iters := out_iterations o; ir_oot := outer_oot i;
                 ir_stop := stop_req (cadd w (out_cnt o)) |},
              out_x o, r, cadd w (out_cnt o))
    | NotFiniteL L =>
        Some ({| ir_status := NotFinite; ir_eps := ninf; ir_err := None; ir_y := None; ir_iters := 0; ir_oot := outer_oot i;
                 ir_stop := stop_req (cadd w (snd (init_L (o_psi_grad_full Pb prov wm_supplied y Σ) (o_grad_psi Pb prov y Σ) (with_opts PP tol) x))) |},
              x, r, cadd w (snd (init_L (o_psi_grad_full Pb prov wm_supplied y Σ) (o_grad_psi Pb prov y Σ) (with_opts PP tol) x)))
    | OutOfFuel => None
    end.

  (* ALMSolver<ZeroFPRSolver>::operator()(p, x, y, Σ) *)
  Definition alm_zerofpr (outer_fuel : nat) (nanv : T) (Σ0 : option (list T)) (y0 x0 : list T)
      : option (cout (T:=T) counters (result (T:=T))) :=
    c_run counters (result (T:=T)) zinner AP (pb_of Pb split) outer_fuel (pf Pb x0) (pg Pb x0) nanv Σ0 y0 x0 cnt0.
End AlmZeroFpr.
