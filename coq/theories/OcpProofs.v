(* OcpProofs.v — proofs about the model Ocp.v (index sets, layout, forward sum, adjoint sweep, masked Riccati). *)
From Coq Require Import List ZArith Bool Arith Lia Reals Lra Sorting.Sorted Sorting.Permutation.
From Alpaqa Require Import Num NumR Vec Ocp.
Import ListNotations.

(* ================================================================== 1. index sets *)
Lemma seq_sorted : forall n c, StronglySorted lt (seq c n).
Proof.
  induction n; intros; simpl; constructor; auto.
  apply Forall_forall. intros x Hx. apply in_seq in Hx. lia.
Qed.

Lemma filter_sorted : forall (p : nat -> bool) l, StronglySorted lt l -> StronglySorted lt (filter p l).
Proof.
  induction l; intros Hs; simpl; auto.
  inversion Hs; subst. destruct (p a); auto.
  constructor; auto. apply Forall_forall. intros x Hx. apply filter_In in Hx.
  rewrite Forall_forall in H2. apply H2. tauto.
Qed.

Lemma sorted_app : forall l1 l2, StronglySorted lt l1 -> StronglySorted lt l2 ->
  (forall a b, In a l1 -> In b l2 -> a < b) -> StronglySorted lt (l1 ++ l2).
Proof.
  induction l1; intros; simpl; auto.
  inversion H; subst. constructor.
  - apply IHl1; auto. intros. apply H1; simpl; auto.
  - apply Forall_forall. intros x Hx. apply in_app_or in Hx. destruct Hx.
    + rewrite Forall_forall in H5. auto.
    + apply H1; simpl; auto.
Qed.

Lemma sorted_NoDup : forall l, StronglySorted lt l -> NoDup l.
Proof.
  induction l; intros Hs; constructor; inversion Hs; subst; auto.
  intro Hin. rewrite Forall_forall in H2. specialize (H2 _ Hin). lia.
Qed.

Lemma build_J_sorted : forall cond n, StronglySorted lt (build_J cond n).
Proof. intros. apply filter_sorted, seq_sorted. Qed.

Lemma build_J_In : forall cond n i, In i (build_J cond n) <-> i < n /\ cond i = true.
Proof. intros. unfold build_J. rewrite filter_In, in_seq. intuition lia. Qed.

Lemma compl_from_In : forall inp c n, StronglySorted lt inp -> (forall j, In j inp -> c <= j < n) ->
  forall i, In i (compl_from inp c n) <-> (c <= i < n /\ ~ In i inp).
Proof.
  induction inp as [|j inp IH]; intros c n Hs Hr i; simpl.
  - rewrite in_seq. intuition lia.
  - inversion Hs; subst. rewrite Forall_forall in H2.
    assert (Hj : c <= j < n) by (apply Hr; simpl; auto).
    replace (Nat.max c j) with j by lia.
    rewrite in_app_iff, in_seq, IH; auto.
    + split.
      * intros [Hi | [Hi Hn]].
        -- split; [lia|]. intros [E | Hin]; [lia|]. specialize (H2 _ Hin). lia.
        -- split; [lia|]. intros [E | Hin]; [lia|]. tauto.
      * intros [Hi Hn]. destruct (Nat.lt_ge_cases i j) as [L | G].
        -- left. lia.
        -- right. split.
           ++ assert (i <> j) by (intro; subst; apply Hn; auto). lia.
           ++ intro; apply Hn; auto.
    + intros k Hk. specialize (H2 _ Hk). specialize (Hr k (or_intror Hk)). lia.
Qed.

Lemma compl_from_sorted : forall inp c n, StronglySorted lt inp -> (forall j, In j inp -> c <= j < n) ->
  StronglySorted lt (compl_from inp c n).
Proof.
  induction inp as [|j inp IH]; intros c n Hs Hr; simpl.
  - apply seq_sorted.
  - inversion Hs; subst. rewrite Forall_forall in H2.
    assert (Hj : c <= j < n) by (apply Hr; simpl; auto).
    replace (Nat.max c j) with j by lia.
    assert (Hr' : forall k, In k inp -> S j <= k < n).
    { intros k Hk. specialize (H2 _ Hk). specialize (Hr k (or_intror Hk)). lia. }
    apply sorted_app.
    + apply seq_sorted.
    + apply IH; auto.
    + intros a b Ha Hb. apply in_seq in Ha. apply compl_from_In in Hb; auto. lia.
Qed.

Lemma NoDup_app_intro : forall (l1 l2 : list nat), NoDup l1 -> NoDup l2 -> (forall x, In x l1 -> ~ In x l2) -> NoDup (l1 ++ l2).
Proof.
  induction l1; intros l2 H1 H2 Hd; simpl; auto.
  inversion H1; subst. constructor.
  - intro Hin. apply in_app_or in Hin. destruct Hin; auto. apply (Hd a); simpl; auto.
  - apply IHl1; auto. intros x Hx. apply Hd. simpl; auto.
Qed.

Definition index_ok (cond : nat -> bool) (n : nat) (p : list nat * list nat) : Prop :=
  StronglySorted lt (fst p) /\ StronglySorted lt (snd p) /\
  (forall i, In i (fst p) <-> i < n /\ cond i = true) /\
  (forall i, In i (snd p) <-> i < n /\ cond i = false) /\
  Permutation (fst p ++ snd p) (seq 0 n) /\ length (fst p) + length (snd p) = n.

Lemma index_step_ok : forall cond n, index_ok cond n (build_J cond n, compl (build_J cond n) n).
Proof.
  intros cond n. unfold index_ok, compl. simpl.
  assert (HsJ := build_J_sorted cond n).
  assert (HrJ : forall j, In j (build_J cond n) -> 0 <= j < n).
  { intros j Hj. apply build_J_In in Hj. lia. }
  assert (HsK := compl_from_sorted _ 0 n HsJ HrJ).
  assert (HK : forall i, In i (compl_from (build_J cond n) 0 n) <-> i < n /\ cond i = false).
  { intros i. rewrite compl_from_In; auto. rewrite build_J_In.
    destruct (cond i); intuition (try lia; try congruence). }
  assert (HP : Permutation (build_J cond n ++ compl_from (build_J cond n) 0 n) (seq 0 n)).
  { apply NoDup_Permutation.
    - apply NoDup_app_intro; try (apply sorted_NoDup; auto).
      intros x Hx Hx'. apply build_J_In in Hx. apply HK in Hx'. destruct Hx, Hx'. congruence.
    - apply seq_NoDup.
    - intros x. rewrite in_app_iff, build_J_In, HK, in_seq. destruct (cond x); intuition (try lia; try congruence). }
  split; [exact HsJ|]. split; [exact HsK|]. split; [intro i; apply build_J_In|]. split; [exact HK|]. split; [exact HP|].
  rewrite <- app_length. rewrite (Permutation_length HP). apply seq_length.
Qed.

(* every stage of IndexSet::update, for every condition (mask), horizon and width *)
Theorem index_update_ok : forall cond N n t, t < N ->
  index_ok (cond t) n (nth t (index_update cond N n) ([], [])).
Proof.
  intros cond N n t Ht. unfold index_update.
  set (F := fun t0 => let J := build_J (cond t0) n in (J, compl J n)).
  rewrite (nth_indep _ ([], []) (F 0)) by (rewrite map_length, seq_length; auto).
  rewrite map_nth, seq_nth by auto. simpl. apply index_step_ok.
Qed.

Theorem index_update_length : forall cond N n, length (index_update cond N n) = N.
Proof. intros. unfold index_update. rewrite map_length, seq_length. auto. Qed.

(* ================================================================== 2. layout: the segments tile [0, total) in order *)
Theorem layout_tiling : forall d t, t <= dN d ->
  (t < dN d ->
     off_x d t + dnx d = off_u d t /\ off_u d t + dnu d = off_h d t /\ len_h d t = dnh d /\
     off_h d t + dnh d = off_c d t /\ len_c d t = dnc d /\ off_c d t + dnc d = off_x d (S t)) /\
  (t = dN d ->
     off_x d t + dnx d = off_h d t /\ len_h d t = dnhN d /\ off_h d t + dnhN d = off_c d t /\
     len_c d t = dncN d /\ off_c d t + dncN d = total_len d) /\
  off_x d 0 = 0.
Proof.
  intros d t Ht. unfold off_x, off_u, off_h, off_c, len_h, len_c, total_len, stride.
  repeat split; intros; try (apply Nat.ltb_lt in H as H'; rewrite H'); try lia;
    try (subst t; rewrite Nat.ltb_irrefl; lia).
Qed.

Theorem layout_in_bounds : forall d t, t <= dN d ->
  off_x d t + dnx d <= total_len d /\ (t < dN d -> off_u d t + dnu d <= total_len d) /\
  off_h d t + len_h d t <= total_len d /\ off_c d t + len_c d t <= total_len d.
Proof.
  intros d t Ht. unfold off_x, off_u, off_h, off_c, len_h, len_c, total_len, stride.
  destruct (Nat.ltb_spec t (dN d)).
  - assert (S t * (dnx d + dnu d + dnh d + dnc d) <= dN d * (dnx d + dnu d + dnh d + dnc d)) by (apply Nat.mul_le_mono_r; lia).
    rewrite Nat.mul_succ_l in H0. repeat split; intros; lia.
  - assert (t = dN d) by lia. subst. repeat split; intros; lia.
Qed.

(* distinct stages never overlap: stage t occupies [t*stride, (t+1)*stride) *)
Theorem layout_stage_disjoint : forall d t1 t2, t1 < t2 -> t2 <= dN d ->
  off_c d t1 + len_c d t1 <= off_x d t2.
Proof.
  intros d t1 t2 H1 H2. unfold off_c, len_c, off_x, stride.
  assert (Hlt : t1 < dN d) by lia. apply Nat.ltb_lt in Hlt. rewrite Hlt.
  assert (S t1 * (dnx d + dnu d + dnh d + dnc d) <= t2 * (dnx d + dnu d + dnh d + dnc d)) by (apply Nat.mul_le_mono_r; lia).
  rewrite Nat.mul_succ_l in H. lia.
Qed.

(* qr buffer [q r]*N + q_N *)
Theorem qr_layout_tiling : forall d t, t < dN d ->
  off_q d t + dnx d = off_r d t /\ off_r d t + dnu d = off_q d (S t) /\ off_q d (dN d) + dnx d = len_qr d.
Proof. intros. unfold off_q, off_r, len_qr. rewrite Nat.mul_succ_l. lia. Qed.

(* ================================================================== 3. vectors / matrices over R *)
Local Open Scope R_scope.

Definition wfm (r c : nat) (M : list (list R)) : Prop := length M = r /\ Forall (fun row => length row = c) M.

Lemma map2_length : forall {A B C} (f : A -> B -> C) a b, length a = length b -> length (map2 f a b) = length a.
Proof. induction a; destruct b; simpl; intros; try discriminate; auto. Qed.
Lemma vadd_length : forall a b : list R, length a = length b -> length (vadd a b) = length a.
Proof. intros. apply map2_length; auto. Qed.
Lemma vadd_length_n : forall n (a b : list R), length a = n -> length b = n -> length (vadd a b) = n.
Proof. intros. rewrite vadd_length; lia. Qed.
Lemma vscale_length : forall k (a : list R), length (vscale k a) = length a.
Proof. intros. unfold vscale. apply map_length. Qed.
Lemma vneg_length : forall (a : list R), length (vneg a) = length a.
Proof. intros. unfold vneg. apply map_length. Qed.
Lemma vconst_length : forall n (c : R), length (vconst n c) = n.
Proof. intros. apply repeat_length. Qed.

Lemma dot_nil_r : forall a : list R, dot a [] = 0.
Proof. destruct a; reflexivity. Qed.
Lemma dot_comm : forall a b : list R, dot a b = dot b a.
Proof. induction a; destruct b; simpl; auto. rewrite IHa. numR. ring. Qed.
Lemma dot_zeros_l : forall n (x : list R), dot (vconst n 0) x = 0.
Proof. induction n; destruct x; simpl; auto. unfold vconst in IHn. rewrite IHn. numR. ring. Qed.
Lemma dot_vadd_l : forall a b c : list R, length a = length b -> dot (vadd a b) c = dot a c + dot b c.
Proof.
  induction a; destruct b; simpl; intros; try discriminate.
  - lra.
  - destruct c; simpl; [lra|]. unfold vadd in IHa. rewrite IHa by lia. numR. ring.
Qed.
Lemma dot_vadd_r : forall a b c : list R, length a = length b -> dot c (vadd a b) = dot c a + dot c b.
Proof. intros. rewrite dot_comm, dot_vadd_l by auto. rewrite (dot_comm a), (dot_comm b). ring. Qed.
Lemma dot_vscale_l : forall k (a c : list R), dot (vscale k a) c = k * dot a c.
Proof. induction a; destruct c; simpl; try lra. unfold vscale in IHa. rewrite IHa. numR. ring. Qed.
Lemma dot_vneg_l : forall (a c : list R), dot (vneg a) c = - dot a c.
Proof. induction a; destruct c; simpl; try lra. unfold vneg in IHa. rewrite IHa. numR. ring. Qed.

Lemma mtv_length : forall n M (y : list R), Forall (fun row => length row = n) M -> length (mtv n M y) = n.
Proof.
  induction M; intros y HM; simpl.
  - apply vconst_length.
  - destruct y. { apply vconst_length. }
    inversion HM; subst. rewrite vadd_length; rewrite vscale_length; auto. rewrite IHM; auto.
Qed.
Lemma mv_length : forall (M : list (list R)) x, length (mv M x) = length M.
Proof. intros. unfold mv. apply map_length. Qed.

(* adjointness  <Mᵀy, x> = <y, Mx> *)
Lemma dot_mtv : forall n M (y x : list R), Forall (fun row => length row = n) M ->
  dot (mtv n M y) x = dot y (mv M x).
Proof.
  induction M; intros y x HM; simpl.
  - rewrite dot_zeros_l, dot_nil_r. auto.
  - destruct y; simpl. { apply dot_zeros_l. }
    inversion HM; subst.
    rewrite dot_vadd_l. 2:{ rewrite vscale_length, mtv_length; auto. }
    rewrite dot_vscale_l, IHM; auto.
Qed.

(* ================================================================== 4. forward pass = sum of stage costs (over R) *)
Section ForwardR.
  Variable f : nat -> list R -> list R -> list R.
  Variable h : nat -> list R -> list R -> list R.
  Variable hN : list R -> list R.
  Variable l : nat -> list R -> R.
  Variable lN : list R -> R.
  Variable c : nat -> list R -> list R.
  Variable cN : list R -> list R.
  Variable d : dims.
  Variables Dlb Dub DNlb DNub : list (option R).

  Lemma forward_from_cost : forall us t x y μ V,
    snd (forward_from f h hN l lN c cN d Dlb Dub DNlb DNub t x us y μ V)
    = V + cost_sum f h hN l lN c cN d Dlb Dub DNlb DNub t x us y μ.
  Proof.
    induction us as [|u us IH]; intros t x y μ V.
    - cbn [forward_from cost_sum]. unfold term_cost.
      match goal with |- context [term_fwd ?a1 ?a2 ?a3 ?a4 ?a5 ?a6 ?a7 ?a8 ?a9] =>
        destruct (term_fwd a1 a2 a3 a4 a5 a6 a7 a8 a9) as [blk v] end.
      cbn [snd]. numR. reflexivity.
    - cbn [forward_from cost_sum]. unfold stage_cost.
      match goal with |- context [stage_fwd ?a1 ?a2 ?a3 ?a4 ?a5 ?a6 ?a7 ?a8 ?a9 ?a10 ?a11 ?a12] =>
        remember (stage_fwd a1 a2 a3 a4 a5 a6 a7 a8 a9 a10 a11 a12) as sf eqn:Esf end.
      assert (Hn : snd sf = f t x u) by (subst sf; reflexivity).
      destruct sf as [[blk v] xn]. cbn [fst snd] in *. subst xn.
      specialize (IH (S t) (f t x u) y μ (V + v)%num).
      destruct (forward_from f h hN l lN c cN d Dlb Dub DNlb DNub (S t) (f t x u) us y μ (V + v)%num) as [rest V'].
      cbn [snd] in *. rewrite IH. numR. ring.
  Qed.

  (* V returned by forward = Σ_k (l_k + ½ dist²_μ) + l_N + ½ dist²_μN along x_{k+1} = f_k(x_k, u_k), x_0 given *)
  Theorem forward_is_sum : forall x0 us y μ,
    snd (forward f h hN l lN c cN d Dlb Dub DNlb DNub x0 us y μ) = cost_sum f h hN l lN c cN d Dlb Dub DNlb DNub 0 x0 us y μ.
  Proof. intros. unfold forward. rewrite forward_from_cost. numR. ring. Qed.
End ForwardR.

(* the penalty term is ½ Σ μ_i (ζ_i − Π_D ζ_i)² with ζ = c + y/μ *)
Lemma penalty_is_half_weighted_sq_dist : forall lb ub (c y μ : list R),
  penalty lb ub c y μ = / 2 * dot (pdiff lb ub (zeta c y μ)) (vmul μ (pdiff lb ub (zeta c y μ))).
Proof. intros. unfold penalty, dist_sq. numR. field. Qed.

(* ================================================================== 5. backward sweep = transposed linearisation *)
Definition wf_lin (nx nu : nat) (s : lin_stage R) : Prop :=
  wfm nx nx (lA s) /\ wfm nx nu (lB s) /\ length (lq s) = nx /\ length (lr s) = nu.

Lemma adjoint_lengths : forall nx nu st λN, Forall (wf_lin nx nu) st -> length λN = nx ->
  length (snd (adjoint nx nu st λN)) = nx /\ length (fst (adjoint nx nu st λN)) = length st.
Proof.
  induction st; intros λN Hw Hl; simpl; auto.
  pose proof (Forall_inv Hw) as H1. pose proof (Forall_inv_tail Hw) as H2.
  destruct (IHst λN H2 Hl) as [IH1 IH2].
  destruct (adjoint nx nu st λN) as [gs λ]. simpl in *.
  destruct H1 as [[HA1 HA2] [[HB1 HB2] [Hq Hr]]].
  split; [|lia]. rewrite vadd_length; rewrite mtv_length; auto.
Qed.

(* the recursion itself (unfolding): g_k = r_k + B_kᵀ λ_{k+1},  λ_k = q_k + A_kᵀ λ_{k+1},  λ_N = q_N *)
Lemma adjoint_recursion : forall nx nu s st (λN : list R),
  adjoint nx nu (s :: st) λN =
  (vadd (mtv nu (lB s) (snd (adjoint nx nu st λN))) (lr s) :: fst (adjoint nx nu st λN),
   vadd (mtv nx (lA s) (snd (adjoint nx nu st λN))) (lq s)).
Proof. intros. simpl. destruct (adjoint nx nu st λN). reflexivity. Qed.

(* for every perturbation δu (and δx_0) the sweep's output pairs with it to the first-order change of the cost along the
   linearised roll-out:  Σ_k <g_k, δu_k> + <λ_0, δx_0> = Σ_k (<q_k, δx_k> + <r_k, δu_k>) + <q_N, δx_N> *)
Lemma adjoint_identity : forall nx nu st (λN : list R), Forall (wf_lin nx nu) st -> length λN = nx ->
  forall δus δx, length δus = length st -> length δx = nx -> Forall (fun δu => length δu = nu) δus ->
  dots (fst (adjoint nx nu st λN)) δus + dot (snd (adjoint nx nu st λN)) δx = lin_cost st λN δx δus.
Proof.
  induction st as [|s st IH]; intros λN Hw Hl δus δx Hlen Hx Hu.
  - destruct δus; simpl in *; try discriminate. numR. lra.
  - destruct δus as [|δu δus]; simpl in Hlen; try discriminate.
    pose proof (Forall_inv Hw) as H1. pose proof (Forall_inv_tail Hw) as H2.
    pose proof (Forall_inv Hu) as Hu1. pose proof (Forall_inv_tail Hu) as Hu2.
    rewrite adjoint_recursion. cbn [fst snd dots lin_cost].
    destruct (adjoint_lengths nx nu st λN H2 Hl) as [Lλ Lg].
    destruct H1 as [[HA1 HA2] [[HB1 HB2] [Hq Hr]]].
    set (λ := snd (adjoint nx nu st λN)) in *.
    assert (Hnext : length (vadd (mv (lA s) δx) (mv (lB s) δu)) = length λ).
    { rewrite vadd_length; rewrite !mv_length; lia. }
    rewrite <- (IH λN H2 Hl δus (vadd (mv (lA s) δx) (mv (lB s) δu))); auto; try lia.
    fold λ.
    rewrite !dot_vadd_l by (rewrite mtv_length; auto).
    rewrite !dot_mtv by auto.
    rewrite dot_vadd_r by (rewrite !mv_length; lia).
    numR. ring.
Qed.

(* gradient form: with δx_0 = 0 the pairing with g is the whole first-order change *)
Theorem backward_is_transposed_linearisation : forall nx nu st (qN : list R), Forall (wf_lin nx nu) st -> length qN = nx ->
  forall δus, length δus = length st -> Forall (fun δu => length δu = nu) δus ->
  dots (fst (adjoint nx nu st qN)) δus = lin_cost st qN (vconst nx 0) δus.
Proof.
  intros. rewrite <- (adjoint_identity nx nu st qN H H0 δus (vconst nx 0)); auto.
  - rewrite dot_comm, dot_zeros_l. lra.
  - apply vconst_length.
Qed.

(* ================================================================== 6. more linear algebra on lists (over R) *)
Lemma vmap2_length_min : forall (a b : list R), length (vadd a b) = Nat.min (length a) (length b).
Proof. induction a; destruct b; simpl; auto. unfold vadd in IHa. rewrite IHa. auto. Qed.

Lemma dot_zeros_r : forall n (x : list R), dot x (vconst n 0) = 0.
Proof. intros. rewrite dot_comm. apply dot_zeros_l. Qed.

(* extensionality through the pairing *)
Lemma dot_ext : forall n (a b : list R), length a = n -> length b = n ->
  (forall w, length w = n -> dot a w = dot b w) -> a = b.
Proof.
  induction n; intros a b Ha Hb Hw.
  - destruct a, b; simpl in *; try discriminate; auto.
  - destruct a as [|x a], b as [|y b]; simpl in *; try discriminate.
    f_equal.
    + specialize (Hw (1 :: vconst n 0)). simpl in Hw. rewrite !dot_zeros_r in Hw.
      rewrite vconst_length in Hw. specialize (Hw eq_refl). numR. lra.
    + apply (IHn a b); try lia. intros w Hl. specialize (Hw (0 :: w)). simpl in Hw.
      rewrite Hl in Hw. specialize (Hw eq_refl). numR. lra.
Qed.

Lemma mv_vadd : forall M (a b : list R), length a = length b -> mv M (vadd a b) = vadd (mv M a) (mv M b).
Proof.
  induction M; intros; simpl; auto. rewrite dot_vadd_r by auto. rewrite IHM by auto. reflexivity.
Qed.
Lemma mv_vscale : forall M k (a : list R), mv M (vscale k a) = vscale k (mv M a).
Proof.
  induction M; intros; simpl; auto. rewrite IHM.
  rewrite (dot_comm a), dot_vscale_l, (dot_comm a0). reflexivity.
Qed.
Lemma mv_vneg : forall M (a : list R), mv M (vneg a) = vneg (mv M a).
Proof.
  induction M; intros; simpl; auto. rewrite IHM.
  rewrite (dot_comm a), dot_vneg_l, (dot_comm a0). reflexivity.
Qed.
Lemma mv_zeros : forall M n, mv M (vconst n 0) = vconst (length M) (0:R).
Proof. induction M; intros; simpl; auto. rewrite dot_zeros_r. rewrite IHM. reflexivity. Qed.

(* X (Σ_j v_j Y_j) = Σ_j v_j (X Y_j) *)
Lemma mv_mtv_lin : forall n X Y (v : list R), Forall (fun row => length row = n) Y ->
  mv X (mtv n Y v) = mtv (length X) (map (mv X) Y) v.
Proof.
  induction Y; intros v HY; simpl.
  - apply mv_zeros.
  - destruct v. { apply mv_zeros. }
    pose proof (Forall_inv HY). pose proof (Forall_inv_tail HY).
    rewrite mv_vadd by (rewrite vscale_length, mtv_length; auto).
    rewrite mv_vscale, IHY; auto.
Qed.

Lemma mtv_vneg_rows : forall n M (v : list R), Forall (fun row => length row = n) M ->
  mtv n (map (fun r => vneg r) M) v = vneg (mtv n M v).
Proof.
  intros n M v HM. apply (dot_ext n).
  - apply mtv_length. apply Forall_forall. intros r Hr. apply in_map_iff in Hr. destruct Hr as [r0 [E Hr0]]. subst.
    rewrite vneg_length. rewrite Forall_forall in HM. auto.
  - rewrite vneg_length, mtv_length; auto.
  - intros w Hw. rewrite dot_vneg_l. rewrite !dot_mtv; auto.
    2:{ apply Forall_forall. intros r Hr. apply in_map_iff in Hr. destruct Hr as [r0 [E Hr0]]. subst.
        rewrite vneg_length. rewrite Forall_forall in HM. auto. }
    unfold mv. rewrite map_map.
    clear Hw. revert v. induction M; intros v; simpl.
    + rewrite !dot_nil_r. lra.
    + destruct v; simpl; [lra|]. pose proof (Forall_inv_tail HM). rewrite IHM; auto. rewrite dot_vneg_l. numR. ring.
Qed.

Lemma vadd_cons : forall (x y : R) a b, vadd (x :: a) (y :: b) = (x + y) :: vadd a b.
Proof. reflexivity. Qed.

Lemma mv_madd : forall r c X Y (v : list R), wfm r c X -> wfm r c Y -> mv (madd X Y) v = vadd (mv X v) (mv Y v).
Proof.
  intros r c X. revert r. induction X; intros r Y v [HX1 HX2] [HY1 HY2]; destruct Y; simpl in *; auto; try lia.
  pose proof (Forall_inv HX2). pose proof (Forall_inv HY2). cbv beta in *.
  rewrite dot_vadd_l by lia. rewrite vadd_cons. f_equal.
  apply (IHX (length X)); split; auto; try lia; eapply Forall_inv_tail; eauto.
Qed.

Lemma mv_mm : forall n X Y (v : list R), Forall (fun row => length row = n) Y -> mv (mm n X Y) v = mv X (mv Y v).
Proof. intros. unfold mm, mv. rewrite map_map. apply map_ext. intros. apply dot_mtv; auto. Qed.

Lemma mm_wfm : forall n X Y, Forall (fun row : list R => length row = n) Y -> wfm (length X) n (mm n X Y).
Proof.
  intros. split. { unfold mm. apply map_length. }
  apply Forall_forall. intros r Hr. unfold mm in Hr. apply in_map_iff in Hr. destruct Hr as [x [E _]]. subst.
  apply mtv_length; auto.
Qed.

(* transpose *)
Lemma map2_cons_rows : forall (a : list R) C m, length a = length C -> Forall (fun row => length row = m) C ->
  Forall (fun row => length row = S m) (map2 cons a C).
Proof.
  induction a; destruct C; simpl; intros; try discriminate; auto.
  pose proof (Forall_inv H0). pose proof (Forall_inv_tail H0). cbv beta in *.
  constructor; simpl; auto.
Qed.

Lemma mT_wfm : forall r n (M : list (list R)), wfm r n M -> wfm n r (mT n M).
Proof.
  intros r n M. revert r. induction M; intros r [H1 H2]; simpl in *.
  - subst r. split. { apply repeat_length. } apply Forall_forall. intros x Hx. apply repeat_spec in Hx. subst. auto.
  - pose proof (Forall_inv H2) as Ha. pose proof (Forall_inv_tail H2) as Ht. cbv beta in *.
    destruct (IHM (length M) (conj eq_refl Ht)) as [L1 L2].
    split. { rewrite map2_length; lia. }
    subst r. apply map2_cons_rows; auto. lia.
Qed.

Lemma mv_map2_cons : forall (r : list R) C vi v', length r = length C ->
  mv (map2 cons r C) (vi :: v') = vadd (vscale vi r) (mv C v').
Proof.
  induction r; destruct C; simpl; intros; try discriminate; auto.
  rewrite (IHr C vi v') by lia.
  change (vscale vi (a :: r)) with ((vi * a)%num :: vscale vi r). rewrite vadd_cons. f_equal. numR. ring.
Qed.

(* (Mᵀ) v = Σ_i v_i row_i *)
Lemma mv_mT : forall r n (M : list (list R)) v, wfm r n M -> mv (mT n M) v = mtv n M v.
Proof.
  intros r n M. revert r. induction M; intros r v [H1 H2]; simpl in *.
  - unfold mv. clear. induction n; simpl; auto. unfold vconst in *. simpl. f_equal. auto.
  - pose proof (Forall_inv H2) as Ha. pose proof (Forall_inv_tail H2) as Ht. cbv beta in *.
    destruct (mT_wfm (length M) n M (conj eq_refl Ht)) as [L1 L2].
    destruct v as [|vi v'].
    + unfold mv. rewrite (map_ext _ (fun _ => 0)) by (intros; apply dot_nil_r).
      assert (L : length (map2 cons a (mT n M)) = n) by (rewrite map2_length; lia).
      revert L. generalize (map2 cons a (mT n M)). clear. intros l. revert n. induction l; intros n L; simpl in *; subst; auto.
      unfold vconst in *. simpl. f_equal. apply IHl. auto.
    + rewrite mv_map2_cons by lia. rewrite (IHM (length M)); auto. split; auto.
Qed.

(* (Mᵀ)ᵀ v = M v *)
Lemma mtv_map2_cons : forall m (r : list R) C v, length r = length C -> length v = length r ->
  mtv (S m) (map2 cons r C) v = dot r v :: mtv m C v.
Proof.
  induction r; destruct C; simpl; intros; try discriminate.
  - destruct v; simpl in *; try discriminate. reflexivity.
  - destruct v as [|vi v]; simpl in *; try discriminate.
    rewrite IHr by lia. simpl. rewrite vadd_cons. f_equal. numR. ring.
Qed.
Lemma mtv_mT : forall r n (M : list (list R)) v, wfm r n M -> length v = n -> mtv r (mT n M) v = mv M v.
Proof.
  intros r n M. revert r. induction M; intros r v [H1 H2] Hv; simpl in *.
  - subst r. clear - Hv. revert v Hv. induction n; intros; destruct v; simpl in *; try discriminate; auto.
  - pose proof (Forall_inv H2) as Ha. pose proof (Forall_inv_tail H2) as Ht. cbv beta in *.
    destruct (mT_wfm (length M) n M (conj eq_refl Ht)) as [L1 L2].
    subst r. rewrite mtv_map2_cons by lia. f_equal. apply IHM; auto. split; auto.
Qed.

(* ================================================================== 7. selections, scatter, partition of [0,n) *)
Lemma sel_length : forall idx (v : list R), length (sel idx v) = length idx.
Proof. intros. unfold sel. apply map_length. Qed.
Lemma selcols_wfm : forall r c idx (M : list (list R)), wfm r c M -> wfm r (length idx) (selcols idx M).
Proof.
  intros r c idx M [H1 H2]. split. { unfold selcols. rewrite map_length. auto. }
  apply Forall_forall. intros x Hx. unfold selcols in Hx. apply in_map_iff in Hx. destruct Hx as [y [E _]]. subst. apply sel_length.
Qed.
Lemma selrows_wfm : forall r c idx (M : list (list R)), wfm r c M -> (forall i, In i idx -> (i < r)%nat) ->
  wfm (length idx) c (selrows idx M).
Proof.
  intros r c idx M [H1 H2] Hi. split. { unfold selrows. apply map_length. }
  apply Forall_forall. intros x Hx. unfold selrows in Hx. apply in_map_iff in Hx. destruct Hx as [i [E Hin]]. subst x.
  rewrite Forall_forall in H2. apply H2. apply nth_In. rewrite H1. auto.
Qed.
Lemma madd_wfm : forall r c (X Y : list (list R)), wfm r c X -> wfm r c Y -> wfm r c (madd X Y).
Proof.
  intros r c X. revert r. induction X; intros r Y [HX1 HX2] [HY1 HY2]; destruct Y; simpl in *; try lia.
  - split; auto.
  - pose proof (Forall_inv HX2). pose proof (Forall_inv HY2). cbv beta in *.
    destruct (IHX (length X) Y) as [L1 L2]; try (split; auto; try lia; eapply Forall_inv_tail; eauto).
    split. { simpl. unfold madd in L1. rewrite L1. auto. }
    constructor; auto. rewrite vadd_length; lia.
Qed.

Lemma upd_length : forall i (x : R) v, length (upd i x v) = length v.
Proof. induction i; destruct v; simpl; auto. Qed.
Lemma nth_upd_same : forall i (x : R) v, (i < length v)%nat -> nth i (upd i x v) 0 = x.
Proof. induction i; destruct v; simpl; intros; try lia; auto. apply IHi. lia. Qed.
Lemma nth_upd_other : forall i j (x : R) v, i <> j -> nth i (upd j x v) 0 = nth i v 0.
Proof. induction i; destruct j, v; simpl; intros; try congruence; auto. Qed.

Lemma scatter_length : forall J (e base : list R), length (scatter J e base) = length base.
Proof. induction J; destruct e; simpl; intros; auto. rewrite IHJ, upd_length. auto. Qed.
Lemma nth_scatter_other : forall J i (e base : list R), ~ In i J -> nth i (scatter J e base) 0 = nth i base 0.
Proof.
  induction J; destruct e; simpl; intros; auto.
  rewrite IHJ by tauto. apply nth_upd_other. intro; subst; tauto.
Qed.
Lemma sel_scatter_same : forall J (e base : list R), NoDup J -> (forall j, In j J -> (j < length base)%nat) ->
  length e = length J -> sel J (scatter J e base) = e.
Proof.
  induction J; destruct e; simpl; intros base Hn Hr Hl; try discriminate; auto.
  inversion Hn; subst. f_equal.
  - rewrite nth_scatter_other by auto. apply nth_upd_same. apply Hr. auto.
  - apply IHJ; auto. intros. rewrite upd_length. apply Hr; auto.
Qed.
Lemma sel_scatter_other : forall K J (e base : list R), (forall k, In k K -> ~ In k J) ->
  sel K (scatter J e base) = sel K base.
Proof. intros. unfold sel. apply map_ext_in. intros. apply nth_scatter_other. auto. Qed.

Fixpoint sumf (f : nat -> R) (l : list nat) : R := match l with [] => 0 | i :: l' => f i + sumf f l' end.
Lemma sumf_app : forall f l1 l2, sumf f (l1 ++ l2) = sumf f l1 + sumf f l2.
Proof. induction l1; simpl; intros; [lra|]. rewrite IHl1. lra. Qed.
Lemma sumf_perm : forall f l1 l2, Permutation l1 l2 -> sumf f l1 = sumf f l2.
Proof. induction 1; simpl; lra. Qed.
Lemma sumf_map_S : forall f l, sumf f (map S l) = sumf (fun i => f (S i)) l.
Proof. induction l; simpl; auto. rewrite IHl. auto. Qed.
Lemma dot_as_sum : forall (r v : list R), length r = length v ->
  dot r v = sumf (fun i => nth i r 0 * nth i v 0) (seq 0 (length r)).
Proof.
  induction r; destruct v; simpl; intros; try discriminate; auto.
  rewrite <- seq_shift, sumf_map_S. simpl. rewrite <- IHr by lia. numR. reflexivity.
Qed.
Lemma dot_sel : forall idx (r v : list R), dot (sel idx r) (sel idx v) = sumf (fun i => nth i r 0 * nth i v 0) idx.
Proof. induction idx; simpl; intros; auto. rewrite IHidx. numR. reflexivity. Qed.

Lemma dot_partition : forall n J K (r v : list R), Permutation (J ++ K) (seq 0 n) -> length r = n -> length v = n ->
  dot r v = dot (sel J r) (sel J v) + dot (sel K r) (sel K v).
Proof.
  intros. rewrite dot_as_sum by lia. rewrite H0. rewrite <- (sumf_perm _ _ _ H). rewrite sumf_app, !dot_sel. reflexivity.
Qed.

Lemma mv_partition : forall r n J K (M : list (list R)) v, Permutation (J ++ K) (seq 0 n) -> wfm r n M -> length v = n ->
  mv M v = vadd (mv (selcols J M) (sel J v)) (mv (selcols K M) (sel K v)).
Proof.
  intros r n J K M v HP [H1 H2] Hv. clear H1. induction M; simpl; auto.
  pose proof (Forall_inv H2). pose proof (Forall_inv_tail H2). cbv beta in *.
  rewrite vadd_cons. f_equal; auto. apply (dot_partition n); auto.
Qed.

Lemma perm_parts : forall n (J K : list nat), Permutation (J ++ K) (seq 0 n) ->
  NoDup J /\ (forall j, In j J -> (j < n)%nat) /\ (forall k, In k K -> (k < n)%nat) /\ (forall k, In k K -> ~ In k J).
Proof.
  intros n J K HP.
  assert (HN : NoDup (J ++ K)). { eapply Permutation_NoDup. apply Permutation_sym; eauto. apply seq_NoDup. }
  assert (Hin : forall i, In i (J ++ K) -> (i < n)%nat).
  { intros i Hi. eapply Permutation_in in Hi; eauto. apply in_seq in Hi. lia. }
  repeat split.
  - clear - HN. induction J; simpl in *; constructor; inversion HN; subst; auto. intro; apply H1; apply in_or_app; auto.
  - intros. apply Hin. apply in_or_app; auto.
  - intros. apply Hin. apply in_or_app; auto.
  - intros k Hk HJ. clear - HN Hk HJ. induction J; simpl in *; auto. inversion HN; subst. destruct HJ.
    + subst. apply H1. apply in_or_app; auto.
    + apply IHJ; auto.
Qed.

Lemma dot_vadd_l_n : forall n (a b c : list R), length a = n -> length b = n -> dot (vadd a b) c = dot a c + dot b c.
Proof. intros. apply dot_vadd_l. lia. Qed.
Lemma dot_vadd_r_n : forall n (a b c : list R), length a = n -> length b = n -> dot c (vadd a b) = dot c a + dot c b.
Proof. intros. apply dot_vadd_r. lia. Qed.
Lemma mv_vadd_n : forall n M (a b : list R), length a = n -> length b = n -> mv M (vadd a b) = vadd (mv M a) (mv M b).
Proof. intros. apply mv_vadd. lia. Qed.
Lemma dot_vneg_r : forall (a c : list R), dot c (vneg a) = - dot c a.
Proof. intros. rewrite dot_comm, dot_vneg_l, dot_comm. reflexivity. Qed.

(* ================================================================== 8. masked Riccati: the returned step satisfies the KKT system *)
Section RiccatiR.
  Variable lsolve : list (list R) -> list R -> list R.
  Variables nx nu : nat.

  (* what is assumed of the dense factorisation for a matrix M: it solves M x = b *)
  Definition solves (M : list (list R)) : Prop :=
    forall b, length b = length M -> mv M (lsolve M b) = b /\ length (lsolve M b) = length M.
  (* symmetric matrix, as a symmetric bilinear form *)
  Definition selfadj (n : nat) (M : list (list R)) : Prop :=
    forall x y, length x = n -> length y = n -> dot x (mv M y) = dot (mv M x) y.

  Definition wf_stage (st : lq_stage R) : Prop :=
    wfm nx nx (sA st) /\ wfm nx nu (sB st) /\ wfm nx nx (sQ st) /\ wfm nu nx (sS st) /\ wfm nu nu (sR st) /\
    length (sq st) = nx /\ length (sr st) = nu /\ length (sfix st) = nu /\
    Permutation (sJ st ++ sK st) (seq 0 nu) /\
    selfadj nx (sQ st) /\ selfadj (length (sJ st)) (selcols (sJ st) (selrows (sJ st) (sR st))).

  Section Stage.
    Variable st : lq_stage R.
    Variable P : list (list R).
    Variable s : list R.
    Hypothesis Hst : wf_stage st.
    Hypothesis HP : wfm nx nx P.
    Hypothesis HPs : selfadj nx P.
    Hypothesis Hs : length s = nx.
    Let o := factor_step lsolve nx st P s.
    Hypothesis Hsol : solves (oRbar o).

    Let J := sJ st. Let K := sK st. Let nJ := length J. Let nK := length K.
    Let A := sA st. Let B := sB st.
    Let BJ := selcols J B. Let BK := selcols K B.
    Let RJJ := selcols J (selrows J (sR st)). Let RJK := selcols K (selrows J (sR st)).
    Let SJ := selrows J (sS st). Let SK := selrows K (sS st).
    Let uK := sel K (sfix st). Let rJ := sel J (sr st).
    Let Rbar := oRbar o. Let Sbar := oSbar o. Let KT := oKT o. Let e := oe o. Let y := oy o. Let t := ot o.
    Let cc := mv BK uK.

    Local Ltac wfs := repeat match goal with H : wfm _ _ _ |- _ => destruct H end.

    Lemma st_parts : NoDup J /\ (forall j, In j J -> (j < nu)%nat) /\ (forall k, In k K -> (k < nu)%nat) /\ (forall k, In k K -> ~ In k J).
    Proof. destruct Hst as (_&_&_&_&_&_&_&_&Hp&_). apply perm_parts. exact Hp. Qed.

    Lemma eq_KT : KT = map (fun col => vneg (lsolve Rbar col)) (mT nx Sbar). Proof. reflexivity. Qed.
    Lemma eq_e : e = vneg (lsolve Rbar t). Proof. reflexivity. Qed.
    Lemma eq_Rbar : Rbar = madd (mm nJ (mT nJ BJ) (mm nJ P BJ)) RJJ. Proof. reflexivity. Qed.
    Lemma eq_Sbar : Sbar = madd (mm nx (mT nJ BJ) (mm nx P A)) SJ. Proof. reflexivity. Qed.
    Lemma eq_y : y = vadd (mv P cc) s. Proof. reflexivity. Qed.
    Lemma eq_t : t = vadd (vadd (mtv nJ BJ y) rJ) (mv RJK uK). Proof. reflexivity. Qed.
    Lemma eq_P' : oP o = madd (madd (mm nx (mT nx A) (mm nx P A)) (map (fun ca => mv KT ca) (mT nx Sbar))) (sQ st).
    Proof. reflexivity. Qed.
    Lemma eq_s' : os o = vadd (vadd (vadd (mtv nx Sbar e) (mtv nx A y)) (sq st)) (mtv nx SK uK). Proof. reflexivity. Qed.

    Lemma wBJ : wfm nx nJ BJ. Proof. destruct Hst as (_&HB&_). apply (selcols_wfm nx nu). exact HB. Qed.
    Lemma wBK : wfm nx nK BK. Proof. destruct Hst as (_&HB&_). apply (selcols_wfm nx nu). exact HB. Qed.
    Lemma wA : wfm nx nx A. Proof. destruct Hst as (HA&_). exact HA. Qed.
    Lemma wRJJ : wfm nJ nJ RJJ.
    Proof. apply (selcols_wfm nJ nu). destruct Hst as (_&_&_&_&HR&_). apply (selrows_wfm nu nu); auto. apply st_parts. Qed.
    Lemma wRJK : wfm nJ nK RJK.
    Proof. apply (selcols_wfm nJ nu). destruct Hst as (_&_&_&_&HR&_). apply (selrows_wfm nu nu); auto. apply st_parts. Qed.
    Lemma wSJ : wfm nJ nx SJ.
    Proof. destruct Hst as (_&_&_&HS&_). apply (selrows_wfm nu nx); auto. apply st_parts. Qed.
    Lemma wSK : wfm nK nx SK.
    Proof. destruct Hst as (_&_&_&HS&_). apply (selrows_wfm nu nx); auto. apply st_parts. Qed.
    Lemma wPBJ : wfm nx nJ (mm nJ P BJ).
    Proof. destruct HP as [L _]. rewrite <- L at 1. apply mm_wfm. apply wBJ. Qed.
    Lemma wBJT : wfm nJ nx (mT nJ BJ). Proof. apply mT_wfm, wBJ. Qed.
    Lemma wPA : wfm nx nx (mm nx P A).
    Proof. destruct HP as [L _]. rewrite <- L at 1. apply mm_wfm. apply wA. Qed.
    Lemma wRbar : wfm nJ nJ Rbar.
    Proof.
      rewrite eq_Rbar. apply madd_wfm; [|apply wRJJ]. destruct wBJT as [L _]. rewrite <- L at 1. apply mm_wfm. apply wPBJ.
    Qed.
    Lemma wSbar : wfm nJ nx Sbar.
    Proof.
      rewrite eq_Sbar. apply madd_wfm; [|apply wSJ]. destruct wBJT as [L _]. rewrite <- L at 1. apply mm_wfm. apply wPA.
    Qed.
    Lemma luK : length uK = nK. Proof. apply sel_length. Qed.
    Lemma lrJ : length rJ = nJ. Proof. apply sel_length. Qed.
    Lemma lcc : length cc = nx. Proof. unfold cc. rewrite mv_length. apply wBK. Qed.
    Lemma ly : length y = nx.
    Proof. rewrite eq_y. apply vadd_length_n; auto. rewrite mv_length. apply HP. Qed.
    Lemma lt_ : length t = nJ.
    Proof.
      rewrite eq_t. apply vadd_length_n; [apply vadd_length_n|].
      - apply mtv_length. apply wBJ.
      - apply lrJ.
      - rewrite mv_length. apply wRJK.
    Qed.
    Lemma wcols : wfm nx nJ (mT nx Sbar). Proof. apply mT_wfm, wSbar. Qed.
    Lemma lRbar : length Rbar = nJ. Proof. apply wRbar. Qed.
    Lemma wKT : wfm nx nJ KT.
    Proof.
      rewrite eq_KT. destruct wcols as [L1 L2]. split. { rewrite map_length. auto. }
      apply Forall_forall. intros x Hx. apply in_map_iff in Hx. destruct Hx as [col [E Hc]]. subst x.
      rewrite vneg_length. rewrite Forall_forall in L2. specialize (L2 _ Hc). cbv beta in L2.
      destruct (Hsol col) as [_ Hl]. { fold Rbar. rewrite lRbar. exact L2. } fold Rbar in Hl. rewrite Hl. apply lRbar.
    Qed.
    Lemma le : length e = nJ.
    Proof.
      rewrite eq_e. rewrite vneg_length.
      destruct (Hsol t) as [_ Hl]. { fold Rbar. rewrite lRbar. apply lt_. }
      fold Rbar in Hl. rewrite Hl. apply lRbar.
    Qed.

    Lemma e_apply : mv Rbar e = vneg t.
    Proof. rewrite eq_e, mv_vneg. destruct (Hsol t) as [Hv _]. { fold Rbar. rewrite lRbar. apply lt_. } fold Rbar in Hv. rewrite Hv. reflexivity. Qed.

    Lemma K_apply : forall v, length v = nx -> mv Rbar (mtv nJ KT v) = vneg (mv Sbar v).
    Proof.
      intros v Hv. rewrite mv_mtv_lin by apply wKT. rewrite lRbar.
      rewrite eq_KT, map_map.
      rewrite (map_ext_in _ (fun col => vneg col)).
      - rewrite mtv_vneg_rows by apply wcols. rewrite (mtv_mT nJ nx); auto. apply wSbar.
      - intros col Hc. rewrite mv_vneg. destruct wcols as [_ L2]. rewrite Forall_forall in L2. specialize (L2 _ Hc). cbv beta in L2.
        destruct (Hsol col) as [Hm _]. { fold Rbar. rewrite lRbar. exact L2. } fold Rbar in Hm. rewrite Hm. reflexivity.
    Qed.

    Lemma StK_apply : forall v, mv (map (fun ca => mv KT ca) (mT nx Sbar)) v = mtv nx Sbar (mtv nJ KT v).
    Proof.
      intros v. rewrite <- (mv_mT nJ nx) by apply wSbar.
      unfold mv at 1. rewrite map_map. unfold mv at 2. apply map_ext. intros ca.
      rewrite (dot_comm ca). rewrite (dot_mtv nJ) by apply wKT. apply dot_comm.
    Qed.

    Local Ltac lens := repeat match goal with
      | |- length (vadd _ _) = _ => apply vadd_length_n
      | |- length (vneg _) = _ => rewrite vneg_length
      | |- length (mv _ _) = _ => rewrite mv_length
      | |- length (mtv _ _ _) = _ => apply mtv_length
      | |- length (vconst _ _) = _ => apply vconst_length
      end; try assumption;
      try (match goal with H : wfm _ _ ?M |- length ?M = _ => apply H | H : wfm _ _ ?M |- Forall _ ?M => apply H end);
      try (first [apply wBJ|apply wBK|apply wA|apply wRJJ|apply wRJK|apply wSJ|apply wSK|apply wRbar|apply wSbar|apply wKT|apply wcols
                 |apply HP|apply lcc|apply ly|apply lt_|apply le|apply luK|apply lrJ|apply wPBJ|apply wPA|apply wBJT]).

    Lemma Rbar_selfadj : selfadj nJ Rbar.
    Proof.
      intros a b Ha Hb. rewrite eq_Rbar.
      assert (W : wfm nJ nJ (mm nJ (mT nJ BJ) (mm nJ P BJ))).
      { destruct wBJT as [L _]. rewrite <- L at 1. apply mm_wfm. apply wPBJ. }
      rewrite !(mv_madd nJ nJ) by (auto; apply wRJJ).
      rewrite (dot_vadd_r_n nJ), (dot_vadd_l_n nJ) by lens.
      rewrite !(mv_mm nJ) by lens. rewrite !(mv_mT nx nJ) by apply wBJ.
      rewrite (dot_comm a), !(dot_mtv nJ) by lens.
      destruct Hst as (_&_&_&_&_&_&_&_&_&_&HR). fold J nJ RJJ in HR. rewrite (HR a b Ha Hb).
      rewrite (dot_comm (mv P (mv BJ b))). rewrite (HPs (mv BJ a) (mv BJ b)) by lens. reflexivity.
    Qed.

    Variable Δx : list R.
    Hypothesis HΔx : length Δx = nx.
    Let KΔx := mtv nJ KT Δx.
    Let ΔuJ := vadd e KΔx.
    Let Δu := scatter J ΔuJ (sfix st).
    Let Δxn := vadd (mv A Δx) (mv B Δu).
    Let λn := vadd (mv P Δxn) s.

    Lemma lKΔx : length KΔx = nJ. Proof. unfold KΔx. lens. Qed.
    Lemma lΔuJ : length ΔuJ = nJ. Proof. unfold ΔuJ. apply vadd_length_n; [apply le | apply lKΔx]. Qed.
    Lemma lfix : length (sfix st) = nu. Proof. destruct Hst as (_&_&_&_&_&_&_&H&_). exact H. Qed.
    Lemma fixed_kept : sel K Δu = uK.
    Proof. unfold Δu, uK. apply sel_scatter_other. apply st_parts. Qed.
    Lemma free_set : sel J Δu = ΔuJ.
    Proof.
      unfold Δu. destruct st_parts as (H1&H2&_). apply sel_scatter_same; auto.
      - intros. rewrite lfix. auto.
      - apply lΔuJ.
    Qed.
    Lemma dyn_split : Δxn = vadd (mv A Δx) (vadd (mv BJ ΔuJ) cc).
    Proof.
      unfold Δxn. f_equal. unfold B, BJ, cc, BK.
      destruct Hst as (_&HB&_&_&_&_&_&_&Hp&_).
      rewrite (mv_partition nx nu J K (sB st) Δu Hp HB).
      - rewrite fixed_kept, free_set. reflexivity.
      - unfold Δu. rewrite scatter_length. apply lfix.
    Qed.
    Lemma lΔxn : length Δxn = nx.
    Proof. rewrite dyn_split. lens; try apply lΔuJ. Qed.

    Lemma reduced_eq : mv Rbar ΔuJ = vadd (vneg t) (vneg (mv Sbar Δx)).
    Proof.
      unfold ΔuJ. rewrite (mv_vadd_n nJ) by (try apply le; try apply lKΔx).
      rewrite e_apply. unfold KΔx. rewrite K_apply by auto. reflexivity.
    Qed.

    (* stationarity in the free components:  R_JJ Δu_J + R_JK u_K + S_J Δx + r_J + B_Jᵀ λ⁺ = 0 *)
    Lemma stage_stationary :
      vadd (vadd (vadd (mv RJJ ΔuJ) (mv RJK uK)) (mv SJ Δx)) (vadd rJ (mtv nJ BJ λn)) = vconst nJ 0.
    Proof.
      apply (dot_ext nJ); [lens; try apply lΔuJ | lens |]. intros w Hw.
      pose proof (f_equal (fun v => dot v w) reduced_eq) as F. cbv beta in F.
      rewrite eq_Rbar in F.
      assert (W : wfm nJ nJ (mm nJ (mT nJ BJ) (mm nJ P BJ))).
      { destruct wBJT as [L _]. rewrite <- L at 1. apply mm_wfm. apply wPBJ. }
      rewrite (mv_madd nJ nJ) in F by (auto; apply wRJJ).
      rewrite (dot_vadd_l_n nJ) in F by lens.
      rewrite (mv_mm nJ) in F by lens. rewrite (mv_mT nx nJ) in F by apply wBJ. rewrite (dot_mtv nJ) in F by lens.
      rewrite (mv_mm nJ) in F by lens.
      rewrite (dot_vadd_l_n nJ) in F by lens. rewrite !dot_vneg_l in F.
      rewrite eq_t in F. rewrite !(dot_vadd_l_n nJ) in F by lens. rewrite (dot_mtv nJ) in F by lens.
      rewrite eq_y in F. rewrite (dot_vadd_l_n nx) in F by lens.
      rewrite eq_Sbar in F.
      assert (W2 : wfm nJ nx (mm nx (mT nJ BJ) (mm nx P A))).
      { destruct wBJT as [L _]. rewrite <- L at 1. apply mm_wfm. apply wPA. }
      rewrite (mv_madd nJ nx) in F by (auto; apply wSJ).
      rewrite (dot_vadd_l_n nJ) in F by lens.
      rewrite (mv_mm nx) in F by lens. rewrite (mv_mT nx nJ) in F by apply wBJ. rewrite (dot_mtv nJ) in F by lens.
      rewrite (mv_mm nx) in F by lens.
      (* goal *)
      rewrite !(dot_vadd_l_n nJ) by (lens; try apply lΔuJ). rewrite dot_zeros_l. rewrite (dot_mtv nJ) by lens.
      unfold λn. rewrite (dot_vadd_l_n nx) by (lens; apply lΔxn).
      rewrite dyn_split. rewrite !(mv_vadd_n nx) by (lens; try apply lΔuJ).
      rewrite !(dot_vadd_l_n nx) by (lens; try apply lΔuJ).
      lra.
    Qed.

    Lemma wM1 : wfm nx nx (mm nx (mT nx A) (mm nx P A)).
    Proof. destruct (mT_wfm nx nx A wA) as [L _]. rewrite <- L at 1. apply mm_wfm. apply wPA. Qed.
    Lemma wStK : wfm nx nx (map (fun ca => mv KT ca) (mT nx Sbar)).
    Proof.
      split. { rewrite map_length. apply wcols. }
      apply Forall_forall. intros x Hx. apply in_map_iff in Hx. destruct Hx as [ca [E _]]. subst x. rewrite mv_length. apply wKT.
    Qed.
    Lemma wQ : wfm nx nx (sQ st). Proof. destruct Hst as (_&_&H&_). exact H. Qed.
    Lemma lq_ : length (sq st) = nx. Proof. destruct Hst as (_&_&_&_&_&H&_). exact H. Qed.

    (* costate recursion:  P_k Δx + s_k = Q Δx + S_Jᵀ Δu_J + S_Kᵀ u_K + q + Aᵀ λ⁺ *)
    Lemma stage_costate :
      vadd (mv (oP o) Δx) (os o) =
      vadd (vadd (vadd (vadd (mv (sQ st) Δx) (mtv nx SJ ΔuJ)) (mtv nx SK uK)) (sq st)) (mtv nx A λn).
    Proof.
      pose proof wM1 as W1. pose proof wStK as W2. pose proof wQ as W3. pose proof lq_ as Lq.
      assert (W12 : wfm nx nx (madd (mm nx (mT nx A) (mm nx P A)) (map (fun ca => mv KT ca) (mT nx Sbar)))) by (apply madd_wfm; auto).
      assert (W4 : wfm nJ nx (mm nx (mT nJ BJ) (mm nx P A))).
      { destruct wBJT as [L _]. rewrite <- L at 1. apply mm_wfm. apply wPA. }
      assert (W123 : wfm nx nx (madd (madd (mm nx (mT nx A) (mm nx P A)) (map (fun ca => mv KT ca) (mT nx Sbar))) (sQ st))) by (apply madd_wfm; auto).
      rewrite eq_P', eq_s'.
      apply (dot_ext nx); [lens | lens; try apply lΔuJ |]. intros w Hw.
      (* the S̄ᵀ terms, with Δu_J kept folded *)
      assert (E : dot ΔuJ (mv Sbar w) = dot e (mv Sbar w) + dot KΔx (mv Sbar w)).
      { unfold ΔuJ. apply (dot_vadd_l_n nJ); [apply le | apply lKΔx]. }
      assert (E2 : dot ΔuJ (mv Sbar w) = dot (mv P (mv A w)) (mv BJ ΔuJ) + dot ΔuJ (mv SJ w)).
      { rewrite eq_Sbar. rewrite (mv_madd nJ nx) by (auto; apply wSJ). rewrite (dot_vadd_r_n nJ) by lens.
        rewrite (mv_mm nx) by lens. rewrite (mv_mT nx nJ) by apply wBJ. rewrite (dot_comm ΔuJ (mtv _ _ _)).
        rewrite (dot_mtv nJ) by lens. rewrite (mv_mm nx) by lens. reflexivity. }
      assert (E3 : dot (mv P (mv A w)) (mv BJ ΔuJ) = dot (mv P (mv BJ ΔuJ)) (mv A w)).
      { rewrite dot_comm. apply HPs; lens. }
      rewrite (mv_madd nx nx) by auto. rewrite (mv_madd nx nx) by auto.
      rewrite !(dot_vadd_l_n nx) by (lens; try apply lΔuJ).
      rewrite (mv_mm nx) by lens. rewrite (mv_mT nx nx) by apply wA. rewrite !(dot_mtv nx) by lens.
      rewrite (mv_mm nx) by lens.
      rewrite StK_apply. rewrite (dot_mtv nx) by lens. fold KΔx.
      rewrite eq_y. rewrite (dot_vadd_l_n nx) by lens.
      unfold λn. rewrite (dot_vadd_l_n nx) by (lens; apply lΔxn).
      rewrite dyn_split. rewrite !(mv_vadd_n nx) by (lens; try apply lΔuJ).
      rewrite !(dot_vadd_l_n nx) by (lens; try apply lΔuJ).
      lra.
    Qed.

    Lemma stage_P_ok : wfm nx nx (oP o) /\ selfadj nx (oP o) /\ length (os o) = nx.
    Proof.
      pose proof wM1 as W1. pose proof wStK as W2. pose proof wQ as W3. pose proof lq_ as Lq.
      assert (W12 : wfm nx nx (madd (mm nx (mT nx A) (mm nx P A)) (map (fun ca => mv KT ca) (mT nx Sbar)))) by (apply madd_wfm; auto).
      split; [|split].
      - rewrite eq_P'. apply madd_wfm; auto.
      - intros a b Ha Hb. rewrite eq_P'.
        rewrite !(mv_madd nx nx) by auto.
        rewrite !(dot_vadd_r_n nx), !(dot_vadd_l_n nx) by lens.
        rewrite !(mv_mm nx) by lens. rewrite !(mv_mT nx nx) by apply wA.
        rewrite !StK_apply.
        rewrite (dot_comm a (mtv nx A _)), (dot_comm a (mtv nx Sbar _)). rewrite !(dot_mtv nx) by lens.
        destruct Hst as (_&_&_&_&_&_&_&_&_&HQ&_). rewrite (HQ a b Ha Hb).
        assert (F1 : dot (mtv nJ KT b) (mv Rbar (mtv nJ KT a)) = - dot (mtv nJ KT b) (mv Sbar a)).
        { rewrite K_apply by auto. apply dot_vneg_r. }
        assert (F2 : dot (mtv nJ KT a) (mv Rbar (mtv nJ KT b)) = - dot (mtv nJ KT a) (mv Sbar b)).
        { rewrite K_apply by auto. apply dot_vneg_r. }
        assert (F3 : dot (mtv nJ KT b) (mv Rbar (mtv nJ KT a)) = dot (mtv nJ KT a) (mv Rbar (mtv nJ KT b))).
        { rewrite (Rbar_selfadj (mtv nJ KT b) (mtv nJ KT a)) by lens. apply dot_comm. }
        assert (F4 : dot (mv P (mv A b)) (mv A a) = dot (mv P (mv A a)) (mv A b)).
        { rewrite dot_comm. apply HPs; lens. }
        lra.
      - rewrite eq_s'. lens.
    Qed.
  End Stage.

  (* KKT system of the equality-constrained QP, written in the free components Δu_J (the fixed ones are u_K):
       Δx_{k+1} = A Δx_k + B Δu_k,  Δu_k[K] = u_k[K],
       (R_JJ Δu_J + R_JK u_K + S_J Δx + r_J + B_Jᵀ λ_{k+1}) = 0,
       λ_k = Q Δx + S_Jᵀ Δu_J + S_Kᵀ u_K + q + Aᵀ λ_{k+1},  λ_N = Q_N Δx_N + q_N *)
  Definition stat_J (st : lq_stage R) (Δx ΔuJ λn : list R) : list R :=
    let J := sJ st in let K := sK st in
    vadd (vadd (vadd (mv (selcols J (selrows J (sR st))) ΔuJ) (mv (selcols K (selrows J (sR st))) (sel K (sfix st))))
               (mv (selrows J (sS st)) Δx))
         (vadd (sel J (sr st)) (mtv (length J) (selcols J (sB st)) λn)).
  Definition costate (st : lq_stage R) (Δx ΔuJ λn : list R) : list R :=
    let J := sJ st in let K := sK st in
    vadd (vadd (vadd (vadd (mv (sQ st) Δx) (mtv nx (selrows J (sS st)) ΔuJ)) (mtv nx (selrows K (sS st)) (sel K (sfix st))))
               (sq st)) (mtv nx (sA st) λn).
  Fixpoint kkt (sts : list (lq_stage R)) (QN : list (list R)) (qN Δx : list R) (Δus : list (list R)) (λ : list R) : Prop :=
    match sts, Δus with
    | [], [] => λ = vadd (mv QN Δx) qN
    | st :: sts', Δu :: Δus' =>
        sel (sK st) Δu = sel (sK st) (sfix st) /\
        exists λn, kkt sts' QN qN (vadd (mv (sA st) Δx) (mv (sB st) Δu)) Δus' λn /\
                   stat_J st Δx (sel (sJ st) Δu) λn = vconst (length (sJ st)) 0 /\
                   λ = costate st Δx (sel (sJ st) Δu) λn
    | _, _ => False
    end.

  (* the factorisation oracle solves every reduced system that occurs *)
  Fixpoint solves_all (sts : list (lq_stage R)) (QN : list (list R)) (qN : list R) : Prop :=
    match sts with
    | [] => True
    | st :: sts' =>
        solves_all sts' QN qN /\
        solves (oRbar (factor_step lsolve nx st (snd (fst (factor_all lsolve nx sts' QN qN))) (snd (factor_all lsolve nx sts' QN qN))))
    end.

  Lemma factor_solve_kkt : forall sts QN qN, Forall wf_stage sts -> wfm nx nx QN -> selfadj nx QN -> length qN = nx ->
    solves_all sts QN qN ->
    wfm nx nx (snd (fst (factor_all lsolve nx sts QN qN))) /\ selfadj nx (snd (fst (factor_all lsolve nx sts QN qN))) /\
    length (snd (factor_all lsolve nx sts QN qN)) = nx /\
    forall Δx, length Δx = nx ->
      kkt sts QN qN Δx (solve_from sts (fst (fst (factor_all lsolve nx sts QN qN))) Δx)
          (vadd (mv (snd (fst (factor_all lsolve nx sts QN qN))) Δx) (snd (factor_all lsolve nx sts QN qN))).
  Proof.
    induction sts as [|st sts IH]; intros QN qN Hw HQ HQs Hq Hsol.
    - simpl. split; [exact HQ|]. split; [exact HQs|]. split; [exact Hq|]. intros. reflexivity.
    - pose proof (Forall_inv Hw) as Hst. pose proof (Forall_inv_tail Hw) as Hw'.
      destruct Hsol as [Hsol' Hsol].
      destruct (IH QN qN Hw' HQ HQs Hq Hsol') as (HP & HPs & Hs & Hk). clear IH.
      cbn [factor_all]. destruct (factor_all lsolve nx sts QN qN) as [[gs P] s]. cbn [fst snd] in *.
      destruct (stage_P_ok st P s) as (W1 & W2 & W3); auto.
      split; [exact W1|]. split; [exact W2|]. split; [exact W3|].
      intros Δx HΔx. cbn [solve_from kkt gKT ge].
      split. { apply fixed_kept; auto. }
      eexists. split; [|split].
      + apply Hk. apply lΔxn; auto.
      + rewrite free_set by auto. apply stage_stationary; auto.
      + rewrite free_set by auto. apply stage_costate; auto.
  Qed.

  Lemma factor_masked_gains : forall sts QN qN,
    fst (fst (factor_masked lsolve nx sts QN qN)) = fst (fst (factor_all lsolve nx sts QN qN)).
  Proof. destruct sts; intros; simpl; auto. destruct (factor_all lsolve nx sts QN qN) as [[gs P] s]. reflexivity. Qed.

  (* the step returned by factor_masked + solve_masked satisfies the KKT system of the masked subproblem, for every horizon and
     every free/fixed split per stage *)
  Theorem riccati_step_is_stationary : forall sts QN qN, Forall wf_stage sts -> wfm nx nx QN -> selfadj nx QN -> length qN = nx ->
    solves_all sts QN qN ->
    exists λ0, kkt sts QN qN (vconst nx 0) (riccati_step lsolve nx sts QN qN) λ0.
  Proof.
    intros sts QN qN Hw HQ HQs Hq Hsol.
    destruct (factor_solve_kkt sts QN qN Hw HQ HQs Hq Hsol) as (_ & _ & _ & Hk).
    eexists. unfold riccati_step, solve_masked. rewrite factor_masked_gains. apply Hk. apply vconst_length.
  Qed.
End RiccatiR.

(* the full backward pass (with the constraint-penalty terms) is the adjoint sweep of the stages
   q_k = ∇h∇l + Jcᵀ μ(ζ − Π_D ζ), r_k, A_k, B_k with terminal q_N = ∇h_N∇l_N + Jc_Nᵀ μ(ζ_N − Π ζ_N) *)
Theorem backward_gradient_is_derivative : forall nx nu nc ncN Dlb Dub DNlb DNub st qNc JcN cN yN μN,
  let ls := map (lin_of nx nc Dlb Dub) st in
  let qN := qN_of nx ncN DNlb DNub qNc JcN cN yN μN in
  Forall (wf_lin nx nu) ls -> length qN = nx ->
  forall δus, length δus = length st -> Forall (fun δu : list R => length δu = nu) δus ->
  dots (fst (fst (fst (backward nx nu nc ncN Dlb Dub DNlb DNub st qNc JcN cN yN μN)))) δus
  = lin_cost ls qN (vconst nx 0) δus.
Proof.
  intros. unfold backward. fold ls qN.
  destruct (adjoint nx nu ls qN) as [g λ0] eqn:E. cbn [fst].
  replace g with (fst (adjoint nx nu ls qN)) by (rewrite E; reflexivity).
  apply backward_is_transposed_linearisation; auto. unfold ls. rewrite map_length. auto.
Qed.
