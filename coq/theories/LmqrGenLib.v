(* LmqrGenLib.v — what the GENERATED file coq/gen/LmqrGen.v (translate/gen_lmqr.py, translator G12) is written against.
   No proofs here, and nothing of the hand model LMQR.v.
     qr_ops       the abstract matrix store of LimitedMemoryQR: the columns of Q and R as get / set pairs (Q.col(j), R.col(c);
                  R(r, c) is coefficient r of R.col(c)), the members q_idx, r_idx_start, r_idx_end, reorth_count, min_eig, max_eig,
                  the sizes Q.rows() / Q.cols() and Q.resize / R.resize.
     extended scalars   min_eig (initial +inf) and max_eig (initial -inf) are `option T`, None = the initial infinity;
                  std::min / std::max with such a first argument are xmin_pinf / xmax_ninf ((b < a) ? b : a and (a < b) ? b : a
                  evaluated against the infinity), `*= s` is xscale, and a product with one is xtimes_or0 (convention of
                  LMQR.minimize_update_anderson: an unset bound gives the tolerance 0).
     rotations    Eigen::JacobiRotation<real>: makeGivens, adjoint / transpose, applyOnTheLeft on a column (two rows),
                  applyOnTheRight on the Q block (two columns), with the `c == 1 && s == 0` shortcut of
                  apply_rotation_in_the_plane (non-vectorised path).  Eigen is outside /repo: these are transcribed by hand.
     loops        while_c: `while (c) body` / `for (init; c; incr) body` with fuel (state = the variables the body assigns);
                  two fuels are threaded through the generated code: fuelS for loops whose condition compares scalars,
                  fuelN for loops whose condition compares indices / iterators.
     matrices     a matrix VALUE (AndersonAccel::G) is its list of columns: mcol / mset_col / mzeros. *)
From Coq Require Import List ZArith Bool Arith.
From Alpaqa Require Import Num Vec.
Import ListNotations.

Record qr_ops (T St : Type) := {
  qo_rows : St -> nat;
  qo_cols : St -> nat;
  qo_Qcol : St -> nat -> list T;
  qo_set_Qcol : St -> nat -> list T -> St;
  qo_Rcol : St -> nat -> list T;
  qo_set_Rcol : St -> nat -> list T -> St;
  qo_q_idx : St -> nat;
  qo_set_q_idx : St -> nat -> St;
  qo_r_idx_start : St -> nat;
  qo_set_r_idx_start : St -> nat -> St;
  qo_r_idx_end : St -> nat;
  qo_set_r_idx_end : St -> nat -> St;
  qo_reorth_count : St -> nat;
  qo_set_reorth_count : St -> nat -> St;
  qo_min_eig : St -> option T;
  qo_set_min_eig : St -> option T -> St;
  qo_max_eig : St -> option T;
  qo_set_max_eig : St -> option T -> St;
  qo_resize_Q : St -> nat -> nat -> St;
  qo_resize_R : St -> nat -> nat -> St
}.
Arguments qo_rows {T St}. Arguments qo_cols {T St}. Arguments qo_Qcol {T St}. Arguments qo_set_Qcol {T St}.
Arguments qo_Rcol {T St}. Arguments qo_set_Rcol {T St}. Arguments qo_q_idx {T St}. Arguments qo_set_q_idx {T St}.
Arguments qo_r_idx_start {T St}. Arguments qo_set_r_idx_start {T St}. Arguments qo_r_idx_end {T St}. Arguments qo_set_r_idx_end {T St}.
Arguments qo_reorth_count {T St}. Arguments qo_set_reorth_count {T St}. Arguments qo_min_eig {T St}. Arguments qo_set_min_eig {T St}.
Arguments qo_max_eig {T St}. Arguments qo_set_max_eig {T St}. Arguments qo_resize_Q {T St}. Arguments qo_resize_R {T St}.

(* v(j) = x on a coefficient vector / M.col(j) = v on a list of columns *)
Fixpoint vupd {A} (l : list A) (i : nat) (x : A) : list A :=
  match l, i with
  | [], _ => []
  | _ :: l', O => x :: l'
  | a :: l', S i' => a :: vupd l' i' x
  end.

(* the indices (zerobased, circular) of an iterator (zerobased, circular, max) *)
Definition ci_idx (it : nat * nat * nat) : nat * nat := (fst (fst it), snd (fst it)).

Fixpoint while_c {S : Type} (fuel : nat) (c : S -> bool) (f : S -> S) (s : S) : S :=
  match fuel with
  | O => s
  | Datatypes.S k => if c s then while_c k c f (f s) else s
  end.

Section Lib.
  Context {T : Type} `{Num T} {St : Type}.
  Variable O : qr_ops T St.
  Local Open Scope num_scope.

  (* R(r, c) read / written through its column *)
  Definition qR (st : St) (r c : nat) : T := nth r (qo_Rcol O st c) n0.
  Definition qset_R (st : St) (r c : nat) (x : T) : St := qo_set_Rcol O st c (vupd (qo_Rcol O st c) r x).

  (* R.col(c).topRows(k) *= s *)
  Definition scale_top (k : nat) (s : T) (col : list T) : list T := map (fun x => x * s) (firstn k col) ++ skipn k col.

  (* R.topLeftCorner(a, b) *= s : rows 0..a-1 of the STORAGE columns 0..b-1 *)
  Definition qscale_corner (st : St) (a b : nat) (s : T) : St :=
    fold_left (fun st c => qo_set_Rcol O st c (scale_top a s (qo_Rcol O st c))) (seq 0 b) st.
  (* Q.leftCols(k).transpose() * b *)
  Definition qtb (st : St) (k : nat) (b : list T) : list T := map (fun j => vdot (qo_Qcol O st j) b) (seq 0 k).

  (* Q.block(0, 0, nr, nc) as a list of columns *)
  Definition qblock_Q (st : St) (nr nc : nat) : list (list T) := map (fun j => firstn nr (qo_Qcol O st j)) (seq 0 nc).

  (* extended scalars *)
  Definition xmin_pinf (o : option T) (x : T) : option T :=
    match o with None => if nisnan x then None else Some x | Some a => Some (cmin a x) end.
  Definition xmax_ninf (o : option T) (x : T) : option T :=
    match o with None => if nisnan x then None else Some x | Some a => Some (cmax a x) end.
  Definition xmax_pinf (o : option T) (x : T) : option T :=       (* std::max(+inf.., x) *)
    match o with None => None | Some a => Some (cmax a x) end.
  Definition xmin_ninf (o : option T) (x : T) : option T :=       (* std::min(-inf.., x) *)
    match o with None => None | Some a => Some (cmin a x) end.
  Definition xscale (o : option T) (s : T) : option T := option_map (fun x => x * s) o.
  Definition xtimes_or0 (o : option T) (s : T) : T := match o with Some e => e * s | None => n0 end.

  (* Eigen::JacobiRotation<real>: a rotation is (c, s) *)
  Definition jr_make_givens (p q : T) : T * T * T :=
    if q =? n0 then ((if p <? n0 then - n1 else n1), n0, nabs p)
    else if p =? n0 then (n0, (if q <? n0 then n1 else - n1), nabs q)
    else if nabs q <? nabs p then
      let t := q / p in
      let u0 := nsqrt (n1 + t * t) in
      let u := if p <? n0 then - u0 else u0 in
      let c := n1 / u in
      (c, (- t) * c, p * u)
    else
      let t := p / q in
      let u0 := nsqrt (n1 + t * t) in
      let u := if q <? n0 then - u0 else u0 in
      let s := (- n1) / u in
      ((- t) * s, s, q * u).
  Definition jr_adjoint (j : T * T) : T * T := (fst j, - snd j).      (* adjoint() = transpose() for reals *)
  (* apply_rotation_in_the_plane(x, y, j):  if (c == 1 && s == 0) return;  x' = c x + s y ;  y' = -s x + c y *)
  Definition jr_trivial (j : T * T) : bool := (fst j =? n1) && (snd j =? n0).
  Definition jr_x (j : T * T) (x y : T) : T := fst j * x + snd j * y.
  Definition jr_y (j : T * T) (x y : T) : T := (- snd j) * x + fst j * y.
  (* col.applyOnTheLeft(p, q, j): rows p and q of one column *)
  Definition jr_apply_rows (j : T * T) (p q : nat) (col : list T) : list T :=
    if jr_trivial j then col else
    let x := nth p col n0 in let y := nth q col n0 in
    vupd (vupd col q (jr_y j x y)) p (jr_x j x y).
  (* Q.block(0, 0, rows, k).applyOnTheRight(p, q, j) = apply_rotation_in_the_plane(col p, col q, j.transpose()) *)
  Definition jr_apply_cols (st : St) (p q : nat) (j : T * T) : St :=
    let jt := jr_adjoint j in
    if jr_trivial jt then st else
    let X := qo_Qcol O st p in let Y := qo_Qcol O st q in
    qo_set_Qcol O (qo_set_Qcol O st q (map2 (jr_y jt) X Y)) p (map2 (jr_x jt) X Y).

  (* matrix values *)
  Definition mcol (M : list (list T)) (j : nat) : list T := nth j M [].
  Definition mset_col (M : list (list T)) (j : nat) (v : list T) : list (list T) := vupd M j v.
  Definition mzeros (n m : nat) : list (list T) := repeat (repeat n0 n) m.
  Definition vzeros (n : nat) : list T := repeat n0 n.
End Lib.
