(* Corr_ZEROFPR.v — whole-run correspondence: ZeroFpr.zerofpr at binary64 against ZeroFPRSolver<ScriptedDirection>::operator()
   as run by harness/drv_solve.cpp.  Problem family, case type (pcase), record comparison, stop injection and the LCG are those of
   Corr_PANOC.v; only the direction's arguments differ: ScriptedDirection::apply(γ, x̂ₖ, x̂(x̂ₖ), p = prox->p, grad = prox->grad_ψ). *)
From Coq Require Import Floats List ZArith Bool Arith.
From Alpaqa Require Import Num NumF Vec Prox SolverStatus SolverKernels AugLag Panoc Corr_PANOC ZeroFpr.
Import ListNotations.
Local Open Scope float_scope.

Definition scripted_z (script : list nat) (n : nat) (j : nat) (it : iterate (T:=float)) (px : proxit (T:=float)) : option (list float) :=
  match kind_at script j with
  | 0%nat => None
  | 1%nat => Some (px_p px)
  | 2%nat => Some (map (fun v => 3 * v) (px_p px))
  | 3%nat => Some (map (fun v => 10 * v) (px_grad px))
  | 4%nat => Some (map (fun v => 0x1.7d784p+26 * v) (px_p px))
  | 5%nat => Some (repeat nan n)
  | 6%nat => Some (lcg_vec n (lcg_iter (n * count6 script j) 12345%Z))
  | 7%nat => Some (map (fun v => (- igam it) * v) (px_grad px))
  | 9%nat => Some (map (fun v => 0x1.4e718d7d7625ap+664 * v) (px_p px))
  | _ => Some (repeat 0 n)
  end.

Definition run_case_z (cs : pcase) : result (T:=float) :=
  match cs with
  | PCase n Q c w A d Clb Cub Dlb Dub l1 x0 y0 S0 prm script initial se sc sd time0 fuel lsfuel _ _ _ _ _ _ _ _ _ _ _ _ =>
      let dlb := map lb_of_float Dlb in let dub := map ub_of_float Dub in
      let m := length y0 in
      zerofpr (o_psi_grad_full n Q c w A d dlb dub y0 S0) (o_psi_yhat n Q c w A d dlb dub y0 S0)
              (o_grad_L n Q c w A d) (o_grad_psi n Q c w A d dlb dub y0 S0)
              (map lb_of_float Clb) (map ub_of_float Cub) l1
              (scripted_z script n) initial
              (fun cn => after se (evals_of m cn) || after sc (c_cb cn) || after sd (c_dir cn))
              (fun _ => time0)
              prm x0 y0 S0 (repeat nan m) lsfuel fuel
  end.

Definition chkzfpr (cs : pcase) : bool :=
  match cs with
  | PCase n Q c w A d Clb Cub Dlb Dub l1 x0 y0 S0 prm script initial se sc sd time0 fuel lsfuel
          status iterations eps x_out y_out errz ist fst_ evals dircalls cbs recs =>
      match run_case_z cs with
      | Done o =>
          status_eqb (out_status o) status && Nat.eqb (out_iterations o) iterations && feq (out_eps o) eps &&
          vfeq (out_x o) x_out && vfeq (out_y o) y_out && vfeq (out_errz o) errz &&
          list_agree Nat.eqb (ist_of o) ist && vfeq (fst_of o) fst_ &&
          Nat.eqb (evals_of (length y0) (out_cnt o)) evals && Nat.eqb (c_dir (out_cnt o)) dircalls && Nat.eqb (c_cb (out_cnt o)) cbs &&
          list_agree rec_agree (map rec_of (out_log o)) recs
      | NotFiniteL _ =>
          status_eqb StNotFinite status && Nat.eqb 0 iterations && feq infinity eps &&
          vfexact x0 x_out && vfexact y0 y_out && vfexact (repeat nan (length y0)) errz &&
          list_agree Nat.eqb [0; 0; 0; 0; 0; 0]%nat ist && Nat.eqb 0 cbs && match recs with [] => true | _ => false end
      | OutOfFuel => false
      end
  end.

Definition modelzfpr (cs : pcase) :=
  match run_case_z cs with
  | Done o => (Some (out_status o, out_iterations o, out_eps o, (out_x o, out_y o, out_errz o), (ist_of o, fst_of o)),
               (evals_of (case_m cs) (out_cnt o), c_dir (out_cnt o), c_cb (out_cnt o), c_polls (out_cnt o)),
               map rec_of (out_log o))
  | NotFiniteL L => (None, (0, 0, 0, 0)%nat, [mkX 0 StNotFinite [] [] L [] [] 0 0 [] 0 [] L 0 0 0 []])
  | OutOfFuel => (None, (1, 1, 1, 1)%nat, [])
  end.
