(* CsvProofs.v — the 64-byte chunked reader of Csv.v equals the row specification (split at sep, parse every field
   completely) for every row whose fields are shorter than the window, for every row length; errors coincide; the
   reader never consumes beyond the row's newline; comment lines of any length are skipped. *)
From Coq Require Import List Ascii Bool Arith ZArith Lia.
From Alpaqa Require Import Csv.
Import ListNotations.

Lemma bufmax_pos : 0 < bufmax.
Proof. unfold bufmax. lia. Qed.
Global Opaque bufmax.

Lemma is_nil_app_cons {A} (x : list A) a t : is_nil (x ++ a :: t) = false.
Proof. destruct x; reflexivity. Qed.

Lemma eqb_nl_false c : c <> nl -> Ascii.eqb c nl = false.
Proof. intros; apply Ascii.eqb_neq; assumption. Qed.

Definition gs (l : list ascii) : stream := mkS l false false.      (* a good() stream *)

(* ---------------------------------------------------------------------------------------------- stream lemmas *)
Lemma take_line_app : forall l n t, ~ In nl l ->
  take_line n (l ++ nl :: t) = (firstn n l, skipn n l ++ nl :: t).
Proof.
  induction l as [|c l IH]; intros n t Hn.
  - destruct n; reflexivity.
  - destruct n; cbn [take_line firstn skipn app]; [reflexivity|].
    rewrite eqb_nl_false by (intro; subst; apply Hn; left; reflexivity).
    rewrite IH by (intro; apply Hn; right; assumption). reflexivity.
Qed.

Lemma s_peek_gs c r : s_peek (gs (c :: r)) = (Some c, gs (c :: r)).
Proof. reflexivity. Qed.

Lemma s_get1_gs c r : s_get1 (gs (c :: r)) = (Some c, gs r).
Proof. reflexivity. Qed.

Lemma firstn_nonnil {A} n (a : A) l : 0 < n -> is_nil (firstn n (a :: l)) = false.
Proof. destruct n; [lia|reflexivity]. Qed.

Lemma head_skipn_not_nl : forall n (l : list ascii) t, ~ In nl l ->
  match skipn n l ++ nl :: t with
  | c :: _ => Ascii.eqb c nl = is_nil (skipn n l)
  | [] => False
  end.
Proof.
  intros n l t Hn. destruct (skipn n l) as [|c r] eqn:E; simpl.
  - reflexivity.
  - apply eqb_nl_false. intro; subst. apply Hn.
    rewrite <- (firstn_skipn n l). apply in_or_app. right. rewrite E. left; reflexivity.
Qed.

Section Proofs.
Context {V : Type}.
Variable parse : list ascii -> option (V * nat).
Variable sep : ascii.
Variable numch : ascii -> bool.           (* the characters from_chars may look at / consume *)
Hypothesis parse_bound : forall l v k, parse l = Some (v, k) -> k <= length l.
Hypothesis parse_local : forall a c b, numch c = false -> parse (a ++ c :: b) = parse a.
Hypothesis parse_nil : parse [] = None.
Hypothesis sep_not_num : numch sep = false.
Hypothesis plus_num : numch plus = true.

Notation read_chunk := (@read_chunk).
Notation read := (read parse sep).
Notation read_single := (read_single parse).
Notation parse_field := (parse_field parse).

Lemma sep_not_plus : Ascii.eqb sep plus = false.
Proof. apply Ascii.eqb_neq. intro E. rewrite E in sep_not_num. rewrite plus_num in sep_not_num. discriminate. Qed.

(* ---------------------------------------------------------------------------------------------- read_chunk *)
Lemma read_chunk_good : forall b k0 a l t, ~ In nl (a :: l) -> length b < bufmax ->
  let n := bufmax - length b in
  read_chunk (mkR b k0) (gs ((a :: l) ++ nl :: t)) =
    (gs (skipn n (a :: l) ++ nl :: t), inr (mkR (b ++ firstn n (a :: l)) (negb (is_nil (skipn n (a :: l)))))).
Proof.
  intros b k0 a l t Hn Hb n. unfold Csv.read_chunk. cbn [failb gs buf].
  replace (length b =? bufmax) with false by (symmetry; apply Nat.eqb_neq; lia).
  unfold s_getn. cbn [good gs eofb failb negb andb rest]. fold n.
  rewrite take_line_app by assumption.
  assert (Hpos : 0 < n) by (unfold n; lia).
  rewrite firstn_nonnil by assumption. rewrite is_nil_app_cons. cbn [failb].
  pose proof (head_skipn_not_nl n (a :: l) t Hn) as Hh.
  destruct (skipn n (a :: l) ++ nl :: t) as [|c r] eqn:E; [contradiction|].
  change (mkS (c :: r) false false) with (gs (c :: r)). rewrite s_peek_gs. cbn [eofb gs negb andb].
  rewrite Hh. rewrite andb_true_r. reflexivity.
Qed.

(* ---------------------------------------------------------------------------------------------- invariant *)
(* rem = the part of the current line not yet consumed by the caller = window ++ what is still in the stream;
   t = everything after the line's newline.  keep_reading is exact. *)
Definition Inv (rd : reader) (s : stream) (rem t : list ascii) : Prop :=
  exists lrest, s = gs (lrest ++ nl :: t) /\ rem = buf rd ++ lrest /\ length (buf rd) <= bufmax /\
                keep rd = negb (is_nil lrest).

(* the stream still holds this row's newline and everything behind it, untouched *)
Definition Tail (s : stream) (t : list ascii) : Prop := exists x, rest s = x ++ nl :: t /\ ~ In nl x.

Lemma Inv_Tail rd s rem t : Inv rd s rem t -> ~ In nl rem -> Tail s t.
Proof.
  intros (lrest & -> & -> & _ & _) Hn. exists lrest. split; [reflexivity|].
  intro; apply Hn; apply in_or_app; right; assumption.
Qed.

Lemma refill : forall rd s rem t, Inv rd s rem t -> ~ In nl rem ->
  exists rd1 s1, (if keep rd then read_chunk rd s else (s, inr rd)) = (s1, inr rd1) /\
                 Inv rd1 s1 rem t /\ buf rd1 = firstn bufmax rem.
Proof.
  intros [b k] s rem t (lrest & -> & -> & Hlen & Hk) Hn. cbn [buf keep] in *.
  destruct lrest as [|a l].
  - cbn in Hk. subst k. exists (mkR b false), (gs ([] ++ nl :: t)). split; [reflexivity|]. split.
    + exists []. cbn [buf keep]. auto.
    + cbn [buf]. rewrite app_nil_r. symmetry. apply firstn_all2. assumption.
  - cbn in Hk. subst k.
    destruct (Nat.eq_dec (length b) bufmax) as [E|E].
    + exists (mkR b true), (gs ((a :: l) ++ nl :: t)). split.
      * unfold Csv.read_chunk. cbn [failb gs buf]. rewrite (proj2 (Nat.eqb_eq _ _) E). reflexivity.
      * split; [exists (a :: l); cbn [buf keep]; auto|].
        cbn [buf]. rewrite firstn_app, E, Nat.sub_diag. cbn [firstn]. rewrite app_nil_r.
        rewrite <- E. symmetry. apply firstn_all.
    + assert (Hb : length b < bufmax) by lia.
      assert (Hn' : ~ In nl (a :: l)) by (intro; apply Hn; apply in_or_app; right; assumption).
      eexists _, _. split; [apply read_chunk_good; assumption|]. split.
      * exists (skipn (bufmax - length b) (a :: l)). cbn [buf keep]. split; [reflexivity|]. split.
        -- rewrite <- app_assoc, firstn_skipn. reflexivity.
        -- split; [|reflexivity]. rewrite app_length. pose proof (firstn_le_length (bufmax - length b) (a :: l)). lia.
      * cbn [buf]. rewrite firstn_app. rewrite (firstn_all2 (n:=bufmax) b) by lia. reflexivity.
Qed.

(* ---------------------------------------------------------------------------------------------- one field *)
Lemma read_single_local : forall f c x, numch c = false ->
  read_single (f ++ c :: x) = read_single f.
Proof.
  intros f c x Hc. assert (Hcp : Ascii.eqb c plus = false).
  { apply Ascii.eqb_neq. intro E. subst. rewrite plus_num in Hc. discriminate. }
  destruct f as [|d f]; cbn [app Csv.read_single].
  - rewrite Hcp. apply (parse_local [] c x Hc).
  - destruct (Ascii.eqb d plus).
    + rewrite parse_local by assumption. reflexivity.
    + apply (parse_local (d :: f) c x Hc).
Qed.

Lemma read_single_bound : forall f v k, read_single f = Some (v, k) -> k <= length f.
Proof.
  intros f v k. destruct f as [|d f]; cbn [Csv.read_single].
  - intro H. apply parse_bound in H. assumption.
  - destruct (Ascii.eqb d plus).
    + destruct (parse f) as [[v' k']|] eqn:E; [|discriminate]. intro H; inversion H; subst.
      apply parse_bound in E. cbn [length]. lia.
    + intro H. apply parse_bound in H. assumption.
Qed.

Lemma skipn_app_l {A} k (f x : list A) : k <= length f -> skipn k (f ++ x) = skipn k f ++ x.
Proof. intro H. rewrite skipn_app. replace (k - length f) with 0 by lia. reflexivity. Qed.

Lemma skipn_lt_cons {A} k (f : list A) : k < length f -> exists c r, skipn k f = c :: r /\ In c f.
Proof.
  revert f. induction k; intros f H; destruct f as [|a f]; cbn [length] in H; try lia.
  - exists a, f. split; [reflexivity|left; reflexivity].
  - destruct (IHk f) as (c & r & E & I); [lia|]. exists c, r. split; [assumption|right; assumption].
Qed.

(* does a field fit into the window?  the field that ends the line may fill it exactly, any other must be shorter *)
Definition fit1 (f : list ascii) (last : bool) : bool :=
  if last then length f <=? bufmax else length f <? bufmax.

(* one call of read() on a field f (of ANY length) that is followed by the end of the line or by a separator:
   a field that fits is read exactly as parse_field says; a field that does not fit is always an error *)
Lemma read_field : forall rd s f more t,
  Inv rd s (f ++ more) t -> ~ In nl (f ++ more) -> ~ In sep f ->
  (more = [] \/ exists rem', more = sep :: rem') ->
  match (if fit1 f (is_nil more) then parse_field f else None) with
  | Some v => exists rd' s', read rd s = (s', inr (v, rd')) /\ Inv rd' s' (tl more) t
  | None => exists e s', read rd s = (s', inl e) /\ Tail s' t
  end.
Proof.
  intros rd s f more t HI Hn Hs Hm.
  destruct (refill rd s _ t HI Hn) as (rd1 & s1 & Hre & HI1 & Hb1).
  pose proof (Inv_Tail _ _ _ _ HI1 Hn) as HT1.
  unfold Csv.read. rewrite Hre.
  destruct HI1 as (lrest & Hs1 & Hrem & Hlen & Hkeep).
  destruct (fit1 f (is_nil more)) eqn:Hfit; cbv beta iota.
  - (* the field fits into the window *)
    assert (Hw : (buf rd1 = f /\ more = [] /\ lrest = []) \/
                 exists rem', more = sep :: rem' /\ length f < bufmax /\
                              buf rd1 = f ++ sep :: firstn (bufmax - length f - 1) rem').
    { destruct Hm as [->|(rem' & ->)]; unfold fit1 in Hfit; cbn [is_nil] in Hfit.
      - apply Nat.leb_le in Hfit. left.
        assert (E : buf rd1 = f) by (rewrite Hb1, app_nil_r; apply firstn_all2; lia).
        split; [assumption|]. split; [reflexivity|].
        rewrite E, app_nil_r in Hrem. rewrite <- (app_nil_r f) in Hrem at 1. apply app_inv_head in Hrem. auto.
      - apply Nat.ltb_lt in Hfit. right. exists rem'. split; [reflexivity|]. split; [assumption|].
        rewrite Hb1, firstn_app. rewrite firstn_all2 by lia.
        destruct (bufmax - length f) as [|m] eqn:Em; [lia|]. replace (S m - 1) with m by lia. reflexivity. }
    assert (Hrs : read_single (buf rd1) = read_single f).
    { destruct Hw as [(-> & _)|(rem' & _ & _ & ->)]; [reflexivity|]. apply read_single_local. exact sep_not_num. }
    rewrite Hrs. unfold Csv.parse_field.
    destruct (read_single f) as [[v k]|] eqn:Ers.
    2:{ exists EConversion, s1. split; [reflexivity|assumption]. }
    pose proof (read_single_bound _ _ _ Ers) as Hk.
    destruct (Nat.eqb_spec k (length f)) as [->|Hne].
    + (* the number extends over the whole field *)
      destruct Hw as [(Hbf & -> & ->)|(rem' & -> & Hlt & Hbf)].
      * cbn [is_nil negb] in Hkeep. rewrite Hkeep, andb_false_r. rewrite Hbf, skipn_all.
        exists (mkR [] false), s1. split; [reflexivity|].
        exists []. cbn [buf keep tl]. repeat split; try assumption. cbn; lia.
      * replace (length f =? length (buf rd1)) with false
          by (symmetry; apply Nat.eqb_neq; rewrite Hbf, app_length; cbn [length]; lia).
        cbn [andb]. rewrite Hbf, skipn_app_l, skipn_all by lia. cbn [app]. rewrite Ascii.eqb_refl.
        eexists _, s1. split; [reflexivity|].
        rewrite Hbf in Hrem. rewrite <- app_assoc in Hrem. apply app_inv_head in Hrem. cbn [app] in Hrem.
        injection Hrem as Hrem'. exists lrest. cbn [buf keep tl]. repeat split; try assumption.
        rewrite Hbf, app_length in Hlen. cbn [length] in Hlen. lia.
    + (* it stops inside the field: the next character is not the separator *)
      assert (Hlt : k < length f) by lia.
      assert (Hge : length f <= length (buf rd1)).
      { destruct Hw as [(-> & _)|(rem' & _ & _ & ->)]; [lia|rewrite app_length; lia]. }
      replace (k =? length (buf rd1)) with false by (symmetry; apply Nat.eqb_neq; lia). cbn [andb].
      destruct (skipn_lt_cons _ _ Hlt) as (c & r & Esk & Hin).
      assert (Hsk : exists r', skipn k (buf rd1) = c :: r').
      { destruct Hw as [(-> & _)|(rem' & _ & _ & ->)].
        - exists r; assumption.
        - rewrite skipn_app_l by lia. rewrite Esk. eexists; reflexivity. }
      destruct Hsk as (r' & ->).
      replace (Ascii.eqb c sep) with false.
      2:{ symmetry. apply Ascii.eqb_neq. intro; subst. contradiction. }
      exists EUnexpected, s1. split; [reflexivity|assumption].
  - (* the field does not fit: the window holds bufmax bytes of it and the line continues *)
    assert (Hlong : bufmax <= length f /\ bufmax < length (f ++ more)).
    { unfold fit1 in Hfit. destruct Hm as [->|(rem' & ->)]; cbn [is_nil] in Hfit.
      - apply Nat.leb_gt in Hfit. rewrite app_nil_r. lia.
      - apply Nat.ltb_ge in Hfit. rewrite app_length. cbn [length]. lia. }
    destruct Hlong as [Hl1 Hl2].
    assert (Hbf : buf rd1 = firstn bufmax f).
    { rewrite Hb1, firstn_app. replace (bufmax - length f) with 0 by lia. cbn [firstn]. apply app_nil_r. }
    assert (Hbl : length (buf rd1) = bufmax) by (rewrite Hbf, firstn_length; lia).
    assert (Hk1 : keep rd1 = true).
    { rewrite Hkeep. destruct lrest; [|reflexivity]. exfalso.
      rewrite app_nil_r in Hrem. rewrite Hrem in Hl2. lia. }
    destruct (read_single (buf rd1)) as [[v k]|] eqn:Ers.
    2:{ exists EConversion, s1. split; [reflexivity|assumption]. }
    pose proof (read_single_bound _ _ _ Ers) as Hk.
    destruct (Nat.eqb_spec k (length (buf rd1))) as [E|Hne].
    + rewrite Hk1. cbn [andb]. exists ETooLong, s1. split; [reflexivity|assumption].
    + cbn [andb]. assert (Hlt : k < length (buf rd1)) by lia.
      destruct (skipn_lt_cons _ _ Hlt) as (c & r & -> & Hin).
      replace (Ascii.eqb c sep) with false.
      2:{ symmetry. apply Ascii.eqb_neq. intro; subst. apply Hs.
          rewrite <- (firstn_skipn bufmax f). apply in_or_app. left. rewrite <- Hbf. assumption. }
      exists EUnexpected, s1. split; [reflexivity|assumption].
Qed.

(* ---------------------------------------------------------------------------------------------- done / next_line *)
Lemma done_empty rd s t : Inv rd s [] t -> done rd s = (s, true).
Proof.
  destruct rd as [b k]. intros (lrest & -> & Hrem & _ & _). cbn [buf] in Hrem.
  symmetry in Hrem. apply app_eq_nil in Hrem. destruct Hrem; subst. reflexivity.
Qed.

Lemma done_nonempty rd s rem t : Inv rd s rem t -> rem <> [] -> ~ In nl rem -> done rd s = (s, false).
Proof.
  destruct rd as [b k]. intros (lrest & -> & -> & _ & _) Hne Hn. cbn [buf] in *. unfold done.
  destruct b as [|c b].
  - destruct lrest as [|a l]; [contradiction|]. cbn [app]. rewrite s_peek_gs. cbn [eofb gs buf is_nil negb andb].
    rewrite eqb_nl_false; [reflexivity|]. intro; subst. apply Hn. left; reflexivity.
  - destruct (lrest ++ nl :: t) as [|c' r] eqn:E; [destruct lrest; discriminate|].
    rewrite s_peek_gs. reflexivity.
Qed.

Lemma next_line_empty rd s t : Inv rd s [] t -> next_line rd s = (gs t, inr tt).
Proof.
  destruct rd as [b k]. intros (lrest & -> & Hrem & _ & _). cbn [buf] in Hrem.
  symmetry in Hrem. apply app_eq_nil in Hrem. destruct Hrem; subst. reflexivity.
Qed.

Lemma next_line_nonempty rd s rem t : Inv rd s rem t -> rem <> [] -> ~ In nl rem ->
  exists s', next_line rd s = (s', inl ENotConsumed) /\ Tail s' t.
Proof.
  intros HI Hne Hn. pose proof (Inv_Tail _ _ _ _ HI Hn) as HT.
  destruct rd as [b k]. destruct HI as (lrest & -> & -> & _ & _). cbn [buf] in *. unfold next_line. cbn [buf].
  destruct b as [|c b].
  - destruct lrest as [|a l]; [contradiction|]. cbn [is_nil negb eofb gs app]. rewrite s_get1_gs.
    rewrite eqb_nl_false by (intro; subst; apply Hn; left; reflexivity).
    eexists; split; [reflexivity|]. exists l. split; [reflexivity|]. intro; apply Hn; right; assumption.
  - eexists; split; [reflexivity|assumption].
Qed.

(* ---------------------------------------------------------------------------------------------- field lists *)
Notation nosep := (fun f : list ascii => ~ In sep f).

Lemma parse_field_nil : parse_field [] = None.
Proof. unfold Csv.parse_field, Csv.read_single. rewrite parse_nil. reflexivity. Qed.

(* read_row_std_vector's loop over a line given as its list of fields (of any lengths) *)
Lemma read_all_spec : forall fs, fs <> [] -> Forall nosep fs ->
  forall t fuel rd s acc, ~ In nl (join sep fs) -> Inv rd s (join sep fs) t -> length fs < fuel ->
  match (if fitsb fs then mapM parse_field (drop_last_empty fs) else None) with
  | Some vs => exists rd' s', read_all parse sep fuel rd s acc = (s', inr (rev acc ++ vs, rd')) /\ Inv rd' s' [] t
  | None => exists e s', read_all parse sep fuel rd s acc = (s', inl e) /\ Tail s' t
  end.
Proof.
  induction fs as [|f fs IH]; [congruence|]. intros _ Hok t fuel rd s acc Hn HI Hfuel.
  inversion Hok as [|? ? Hsep Hok']; subst.
  destruct fuel as [|fuel]; [cbn in Hfuel; lia|].
  destruct fs as [|f2 fs].
  - (* last field *)
    cbn [join fitsb] in *. destruct f as [|c f].
    + cbn [length Nat.leb drop_last_empty is_nil mapM Csv.read_all]. rewrite (done_empty _ _ _ HI).
      exists rd, s. rewrite app_nil_r. split; [reflexivity|assumption].
    + cbn [drop_last_empty is_nil mapM Csv.read_all].
      rewrite (done_nonempty _ _ _ _ HI) by (assumption || discriminate).
      assert (HI' : Inv rd s ((c :: f) ++ []) t) by (rewrite app_nil_r; assumption).
      assert (Hn' : ~ In nl ((c :: f) ++ [])) by (rewrite app_nil_r; assumption).
      pose proof (read_field rd s (c :: f) [] t HI' Hn' Hsep (or_introl eq_refl)) as HR.
      unfold fit1 in HR. cbn [is_nil] in HR.
      destruct (length (c :: f) <=? bufmax).
      * destruct (parse_field (c :: f)) as [v|].
        -- destruct HR as (rd' & s' & -> & HInv'). cbn [tl] in HInv'.
           destruct fuel as [|fuel]; [cbn in Hfuel; lia|]. cbn [Csv.read_all].
           rewrite (done_empty _ _ _ HInv'). exists rd', s'. split; [reflexivity|assumption].
        -- destruct HR as (e & s' & -> & HT). exists e, s'. split; [reflexivity|assumption].
      * destruct HR as (e & s' & -> & HT). exists e, s'. split; [reflexivity|assumption].
  - (* a field followed by a separator *)
    change (join sep (f :: f2 :: fs)) with (f ++ sep :: join sep (f2 :: fs)) in *.
    change (drop_last_empty (f :: f2 :: fs)) with (f :: drop_last_empty (f2 :: fs)).
    change (fitsb (f :: f2 :: fs)) with ((length f <? bufmax) && fitsb (f2 :: fs)).
    cbn [mapM Csv.read_all].
    rewrite (done_nonempty _ _ _ _ HI) by (assumption || (destruct f; discriminate)).
    pose proof (read_field rd s f _ t HI Hn Hsep (or_intror (ex_intro _ _ eq_refl))) as HR.
    unfold fit1 in HR. cbn [is_nil] in HR.
    assert (Hn2 : ~ In nl (join sep (f2 :: fs))).
    { intro; apply Hn; apply in_or_app; right; right; assumption. }
    destruct (length f <? bufmax); cbn [andb].
    2:{ destruct HR as (e & s' & -> & HT). exists e, s'. split; [reflexivity|assumption]. }
    destruct (parse_field f) as [v|].
    + destruct HR as (rd' & s' & -> & HInv'). cbn [tl] in HInv'.
      assert (Hf2 : length (f2 :: fs) < fuel) by (cbn [length] in *; lia).
      specialize (IH ltac:(discriminate) Hok' t fuel rd' s' (v :: acc) Hn2 HInv' Hf2).
      destruct (fitsb (f2 :: fs)); [|assumption].
      destruct (mapM parse_field (drop_last_empty (f2 :: fs))) as [vs|].
      * destruct IH as (rd'' & s'' & -> & HI''). exists rd'', s''. split; [|assumption].
        cbn [rev]. rewrite <- app_assoc. reflexivity.
      * assumption.
    + destruct HR as (e & s' & -> & HT). destruct (fitsb (f2 :: fs)); exists e, s'; (split; [reflexivity|assumption]).
Qed.

(* the fixed-size loop *)
Fixpoint spec_fix (n : nat) (fs : list (list ascii)) : option (list V) :=
  match n with
  | 0 => if is_nil (join sep fs) then Some [] else None
  | S n' => match fs with
            | [] => None
            | f :: fs' =>
                match (if fit1 f (is_nil fs') then parse_field f else None) with
                | None => None
                | Some v => match spec_fix n' (match fs' with [] => [[]] | _ => fs' end) with
                            | Some vs => Some (v :: vs)
                            | None => None
                            end
                end
            end
  end.

Lemma read_n_spec : forall n fs t rd s acc, fs <> [] -> Forall nosep fs -> ~ In nl (join sep fs) ->
  Inv rd s (join sep fs) t ->
  match spec_fix n fs with
  | Some vs => exists rd' s', read_n parse sep n rd s acc = (s', inr (rev acc ++ vs, rd')) /\ Inv rd' s' [] t
  | None => exists e s', finish_row (read_n parse sep n rd s acc) = (s', inl e) /\ Tail s' t
  end.
Proof.
  induction n as [|n IH]; intros fs t rd s acc Hne Hok Hn HI.
  - cbn [spec_fix Csv.read_n]. destruct (join sep fs) as [|a l] eqn:E; cbn [is_nil].
    + exists rd, s. rewrite app_nil_r. split; [reflexivity|assumption].
    + cbn [finish_row]. destruct (next_line_nonempty _ _ _ _ HI ltac:(discriminate) Hn) as (s' & -> & HT).
      exists ENotConsumed, s'. split; [reflexivity|assumption].
  - destruct fs as [|f fs]; [congruence|]. inversion Hok as [|? ? Hsep Hok']; subst.
    cbn [spec_fix Csv.read_n].
    set (fs2 := match fs with [] => [[]] | _ => fs end).
    set (more := match fs with [] => [] | _ => sep :: join sep fs end).
    assert (Ej : join sep (f :: fs) = f ++ more) by (destruct fs; [symmetry; apply app_nil_r|reflexivity]).
    assert (Et : tl more = join sep fs2) by (destruct fs; reflexivity).
    assert (En : is_nil more = is_nil fs) by (destruct fs; reflexivity).
    rewrite Ej in HI, Hn.
    assert (Hm : more = [] \/ exists rem', more = sep :: rem') by (destruct fs; [left|right; eexists]; reflexivity).
    pose proof (read_field rd s f more t HI Hn Hsep Hm) as HR. rewrite En in HR.
    destruct (if fit1 f (is_nil fs) then parse_field f else None) as [v|].
    + destruct HR as (rd' & s' & -> & HInv'). rewrite Et in HInv'.
      assert (Hne2 : fs2 <> []) by (destruct fs; discriminate).
      assert (Hok2 : Forall nosep fs2) by (destruct fs; [constructor; [intros []|constructor]|assumption]).
      assert (Hn2 : ~ In nl (join sep fs2)).
      { rewrite <- Et. intro Hi. apply Hn. apply in_or_app. right. destruct more; [destruct Hi|right; assumption]. }
      specialize (IH fs2 t rd' s' (v :: acc) Hne2 Hok2 Hn2 HInv').
      destruct (spec_fix n fs2) as [vs|].
      * destruct IH as (rd'' & s'' & -> & HI''). exists rd'', s''. split; [|assumption].
        cbn [rev]. rewrite <- app_assoc. reflexivity.
      * assumption.
    + destruct HR as (e & s' & -> & HT). exists e, s'. split; [reflexivity|assumption].
Qed.

Lemma spec_fix_eq : forall fs n, fs <> [] ->
  spec_fix n fs = if fitsb fs then
                    match mapM parse_field (drop_last_empty fs) with
                    | Some vs => if length vs =? n then Some vs else None
                    | None => None
                    end
                  else None.
Proof.
  induction fs as [|f fs IH]; [congruence|]. intros n _. destruct fs as [|f2 fs].
  - cbn [fitsb]. destruct f as [|c f]; cbn [drop_last_empty is_nil mapM].
    + cbn [length Nat.leb]. destruct n; cbn [spec_fix join is_nil length Nat.eqb]; [reflexivity|].
      rewrite parse_field_nil. destruct (fit1 [] true); reflexivity.
    + destruct n; cbn [spec_fix join is_nil].
      * destruct (length (c :: f) <=? bufmax); [|reflexivity]. destruct (parse_field (c :: f)); reflexivity.
      * unfold fit1. destruct (length (c :: f) <=? bufmax); [|reflexivity].
        destruct (parse_field (c :: f)); [|reflexivity].
        destruct n; cbn [spec_fix join is_nil length Nat.eqb]; [reflexivity|].
        rewrite parse_field_nil. destruct (fit1 [] true); reflexivity.
  - change (drop_last_empty (f :: f2 :: fs)) with (f :: drop_last_empty (f2 :: fs)).
    change (fitsb (f :: f2 :: fs)) with ((length f <? bufmax) && fitsb (f2 :: fs)). cbn [mapM].
    destruct n.
    + cbn [spec_fix]. change (join sep (f :: f2 :: fs)) with (f ++ sep :: join sep (f2 :: fs)).
      rewrite is_nil_app_cons. destruct ((length f <? bufmax) && fitsb (f2 :: fs)); [|reflexivity].
      destruct (parse_field f); [|reflexivity].
      destruct (mapM parse_field (drop_last_empty (f2 :: fs))); reflexivity.
    + cbn [spec_fix is_nil]. unfold fit1. destruct (length f <? bufmax); cbn [andb]; [|reflexivity].
      rewrite (IH n) by discriminate.
      destruct (parse_field f); [|destruct (fitsb (f2 :: fs)); reflexivity].
      destruct (fitsb (f2 :: fs)); [|reflexivity].
      destruct (mapM parse_field (drop_last_empty (f2 :: fs))) as [vs|]; [|reflexivity].
      cbn [length Nat.eqb]. destruct (length vs =? n); reflexivity.
Qed.

(* ---------------------------------------------------------------------------------------------- split / join *)
Lemma split_nonnil : forall l, split sep l <> [].
Proof. destruct l as [|c l]; cbn [split]; [discriminate|]. destruct (Ascii.eqb c sep); [discriminate|]. destruct (split sep l); discriminate. Qed.

Lemma join_split : forall l, join sep (split sep l) = l.
Proof.
  induction l as [|c l IH]; [reflexivity|]. cbn [split].
  destruct (Ascii.eqb_spec c sep) as [->|Hc].
  - pose proof (split_nonnil l). destruct (split sep l) as [|f fs] eqn:E; [congruence|].
    change (join sep ([] :: f :: fs)) with ([] ++ sep :: join sep (f :: fs)). rewrite IH. reflexivity.
  - destruct (split sep l) as [|f fs] eqn:E; [exfalso; eapply split_nonnil; eassumption|].
    destruct fs as [|f2 fs]; cbn [join] in *; rewrite <- IH; reflexivity.
Qed.

Lemma split_no_sep : forall l, Forall (fun f => ~ In sep f) (split sep l).
Proof.
  induction l as [|c l IH]; cbn [split]; [constructor; [intros []|constructor]|].
  destruct (Ascii.eqb_spec c sep) as [->|Hc].
  - constructor; [intros []|assumption].
  - destruct (split sep l) as [|f fs]; [constructor; [|constructor]|].
    + intros [E|[]]. congruence.
    + inversion IH; subst. constructor; [|assumption]. intros [E|Hi]; [congruence|contradiction].
Qed.

Lemma split_length : forall l, length (split sep l) <= S (length l).
Proof.
  induction l as [|c l IH]; cbn [split length]; [lia|].
  destruct (Ascii.eqb c sep); cbn [length]; [lia|].
  destruct (split sep l); cbn [length] in *; lia.
Qed.

(* ---------------------------------------------------------------------------------------------- comments *)
Definition comment_block (cs : list (list ascii)) : list ascii := flat_map (fun c => hash :: c ++ [nl]) cs.

Lemma comment_block_length cs : length cs <= length (comment_block cs).
Proof. induction cs as [|c cs IH]; [cbn; lia|]. cbn [comment_block flat_map length]. fold (comment_block cs). rewrite app_length. cbn [length]. lia. Qed.

Lemma drain_spec : forall fuel lrest b t, ~ In nl lrest -> length lrest < fuel ->
  exists rd', drain fuel (mkR b (negb (is_nil lrest))) (gs (lrest ++ nl :: t)) = (gs (nl :: t), inr rd') /\ keep rd' = false.
Proof.
  induction fuel as [|fuel IH]; intros lrest b t Hn Hf; [lia|].
  destruct lrest as [|a l].
  - eexists. split; reflexivity.
  - cbn [drain keep is_nil negb].
    rewrite (read_chunk_good [] true a l t Hn) by (cbn; apply bufmax_pos).
    apply IH.
    + intro Hi. apply Hn. rewrite <- (firstn_skipn (bufmax - length (@nil ascii)) (a :: l)). apply in_or_app. right. assumption.
    + rewrite skipn_length. pose proof bufmax_pos. cbn [length] in *. lia.
Qed.

Lemma skip_loop_spec : forall cs line t k0 fuel,
  Forall (fun c => ~ In nl c) cs -> ~ In nl line -> line <> [] -> (forall r, line <> hash :: r) -> length cs < fuel ->
  exists rd1 s1, skip_loop fuel (mkR [] k0) (gs (comment_block cs ++ line ++ nl :: t)) = (s1, inr rd1) /\ Inv rd1 s1 line t.
Proof.
  induction cs as [|c cs IH]; intros line t k0 fuel Hcs Hn Hne Hh Hf; (destruct fuel as [|fuel]; [lia|]).
  - cbn [comment_block flat_map app skip_loop eofb gs].
    destruct line as [|a l]; [congruence|].
    rewrite (read_chunk_good [] k0 a l t Hn) by (cbn; apply bufmax_pos).
    pose proof bufmax_pos as Hp. cbn [length app buf].
    destruct (bufmax - 0) as [|m] eqn:Em; [lia|]. cbn [firstn].
    replace (Ascii.eqb a hash) with false by (symmetry; apply Ascii.eqb_neq; intro; subst; eapply Hh; reflexivity).
    eexists _, _. split; [reflexivity|].
    exists (skipn (S m) (a :: l)). cbn [buf keep]. split; [reflexivity|]. split.
    + change (a :: firstn m l) with (firstn (S m) (a :: l)). symmetry. apply firstn_skipn.
    + split; [|reflexivity]. pose proof (firstn_le_length m l). cbn [length]. rewrite firstn_length. lia.
  - inversion Hcs as [|? ? Hc Hcs']; subst.
    cbn [comment_block flat_map]. fold (comment_block cs). rewrite <- app_assoc.
    set (t' := comment_block cs ++ line ++ nl :: t).
    replace ((hash :: c ++ [nl]) ++ t') with ((hash :: c) ++ nl :: t').
    2:{ cbn [app]. rewrite <- app_assoc. reflexivity. }
    assert (Hnc : ~ In nl (hash :: c)) by (intros [E|Hi]; [discriminate|contradiction]).
    cbn [skip_loop eofb gs].
    rewrite (read_chunk_good [] k0 hash c t' Hnc) by (cbn; apply bufmax_pos).
    pose proof bufmax_pos as Hp. cbn [length app buf].
    destruct (bufmax - 0) as [|m] eqn:Em; [lia|]. cbn [firstn]. rewrite Ascii.eqb_refl.
    set (lrest := skipn (S m) (hash :: c)).
    assert (Hnl : ~ In nl lrest).
    { intro Hi. apply Hnc. rewrite <- (firstn_skipn (S m) (hash :: c)). apply in_or_app. right. assumption. }
    destruct (drain_spec (S (length (rest (gs (lrest ++ nl :: t'))))) lrest (hash :: firstn m c) t' Hnl) as (rd2 & -> & Hk2).
    { cbn [rest gs]. rewrite app_length. lia. }
    rewrite Hk2. cbn [next_line buf is_nil negb eofb gs]. rewrite s_get1_gs. cbn [Ascii.eqb]. 
    change (Ascii.eqb nl nl) with true. cbv iota.
    apply IH; try assumption. cbn [length] in Hf. lia.
Qed.

Lemma skip_comments_spec : forall cs line t,
  Forall (fun c => ~ In nl c) cs -> ~ In nl line -> line <> [] -> (forall r, line <> hash :: r) ->
  exists rd1 s1, skip_comments reader0 (gs (comment_block cs ++ line ++ nl :: t)) = (s1, inr rd1) /\ Inv rd1 s1 line t.
Proof.
  intros cs line t Hcs Hn Hne Hh. unfold skip_comments. cbn [eofb gs].
  assert (Hhd : exists a r, comment_block cs ++ line ++ nl :: t = a :: r /\ a <> nl).
  { destruct cs as [|c cs].
    - destruct line as [|a l]; [congruence|]. exists a; eexists. split; [reflexivity|]. intro; subst. apply Hn. left; reflexivity.
    - exists hash; eexists. split; [reflexivity|discriminate]. }
  destruct Hhd as (a & r & E & Ha). rewrite E. rewrite s_peek_gs. rewrite eqb_nl_false by assumption.
  rewrite <- E. unfold reader0. apply skip_loop_spec; try assumption.
  cbn [rest gs]. rewrite app_length. pose proof (comment_block_length cs). lia.
Qed.

(* ---------------------------------------------------------------------------------------------- whole rows *)
(* a row: comment lines (any length), then the data line, then its newline, then the rest of the stream.
   row_wf puts NO bound on field lengths; row_ok adds "every field fits the window" *)
Definition row_wf (cs : list (list ascii)) (line : list ascii) : Prop :=
  Forall (fun c => ~ In nl c) cs /\ ~ In nl line /\ (forall r, line <> hash :: r) /\ (line = [] -> cs = []).
Definition row_ok (cs : list (list ascii)) (line : list ascii) : Prop :=
  row_wf cs line /\ fitsb (split sep line) = true.

Lemma lt_fitsb : forall fs, Forall (fun f => length f < bufmax) fs -> fitsb fs = true.
Proof.
  induction fs as [|f fs IH]; intro H; [reflexivity|]. inversion H; subst. destruct fs as [|f2 fs].
  - cbn [fitsb]. apply Nat.leb_le. lia.
  - change (fitsb (f :: f2 :: fs)) with ((length f <? bufmax) && fitsb (f2 :: fs)).
    rewrite IH by assumption. rewrite (proj2 (Nat.ltb_lt _ _)) by assumption. reflexivity.
Qed.

(* MAIN: for every well-formed row, whatever the field lengths, the chunked reader = the specification with the
   over-long-token rule (spec_row64): same numbers and stream at the next row, or a read error with the row's
   newline and everything behind it untouched *)
Theorem read_row_std_vector_spec64 : forall cs line t, row_wf cs line ->
  match spec_row64 parse sep line with
  | Some vs => read_row_std_vector parse sep (gs (comment_block cs ++ line ++ nl :: t)) = (gs t, inr vs)
  | None => exists e s', read_row_std_vector parse sep (gs (comment_block cs ++ line ++ nl :: t)) = (s', inl e) /\ Tail s' t
  end.
Proof.
  intros cs line t (Hcs & Hn & Hh & He).
  destruct line as [|a l].
  - rewrite (He eq_refl). reflexivity.
  - unfold read_row_std_vector.
    destruct (skip_comments_spec cs (a :: l) t Hcs Hn ltac:(discriminate) Hh) as (rd1 & s1 & -> & HI).
    rewrite <- (join_split (a :: l)) in HI, Hn.
    unfold spec_row64, spec_row, fields.
    pose proof (read_all_spec (split sep (a :: l)) (split_nonnil _) (split_no_sep _) t
                  (S (S (length (rest (gs (comment_block cs ++ (a :: l) ++ nl :: t)))))) rd1 s1 [] Hn HI) as HR.
    assert (Hfuel : length (split sep (a :: l)) < S (S (length (rest (gs (comment_block cs ++ (a :: l) ++ nl :: t)))))).
    { cbn [rest gs]. rewrite !app_length. pose proof (split_length (a :: l)). cbn [length] in *. lia. }
    specialize (HR Hfuel).
    destruct (if fitsb (split sep (a :: l)) then mapM parse_field (drop_last_empty (split sep (a :: l))) else None) as [vs|].
    + destruct HR as (rd' & s' & -> & HI'). cbn [finish_row rev app]. rewrite (next_line_empty _ _ _ HI'). reflexivity.
    + destruct HR as (e & s' & -> & HT). exists e, s'. split; [reflexivity|assumption].
Qed.

Lemma take_line_nl n t : take_line n (nl :: t) = ([], nl :: t).
Proof. destruct n; reflexivity. Qed.

Theorem read_row_impl_spec64 : forall n cs line t, row_wf cs line ->
  match spec_row64_n parse sep n line with
  | Some vs => read_row_impl parse sep n (gs (comment_block cs ++ line ++ nl :: t)) = (gs t, inr vs)
  | None => exists e s', read_row_impl parse sep n (gs (comment_block cs ++ line ++ nl :: t)) = (s', inl e) /\ Tail s' t
  end.
Proof.
  intros n cs line t (Hcs & Hn & Hh & He).
  destruct line as [|a l].
  - rewrite (He eq_refl). destruct n; [reflexivity|].
    cbn [comment_block flat_map app]. unfold spec_row64_n, spec_row_n, spec_row, fields.
    cbn [split fitsb length Nat.leb drop_last_empty is_nil mapM length Nat.eqb].
    unfold read_row_impl. change (skip_comments reader0 (gs (nl :: t))) with (gs (nl :: t), @inr err reader reader0).
    cbn [Csv.read_n]. unfold Csv.read, Csv.read_chunk. cbn [keep reader0 failb gs buf length].
    replace (0 =? bufmax) with false by (symmetry; apply Nat.eqb_neq; pose proof bufmax_pos; lia).
    unfold s_getn. cbn [good gs eofb failb negb andb rest]. rewrite take_line_nl. cbn [is_nil failb finish_row].
    eexists _, _. split; [reflexivity|]. exists []. split; [reflexivity|intros []].
  - unfold read_row_impl.
    destruct (skip_comments_spec cs (a :: l) t Hcs Hn ltac:(discriminate) Hh) as (rd1 & s1 & -> & HI).
    rewrite <- (join_split (a :: l)) in HI, Hn.
    pose proof (read_n_spec n (split sep (a :: l)) t rd1 s1 [] (split_nonnil _) (split_no_sep _) Hn HI) as HR.
    rewrite spec_fix_eq in HR by apply split_nonnil.
    unfold spec_row64_n, spec_row_n, spec_row, fields.
    destruct (fitsb (split sep (a :: l))); [|assumption].
    destruct (mapM parse_field (drop_last_empty (split sep (a :: l)))) as [vs|].
    + destruct (length vs =? n).
      * destruct HR as (rd' & s' & -> & HI'). cbn [finish_row rev app]. rewrite (next_line_empty _ _ _ HI'). reflexivity.
      * assumption.
    + assumption.
Qed.

(* corollary 1: every field fits => plain "split at sep, parse every field completely" *)
Theorem read_row_std_vector_spec : forall cs line t, row_ok cs line ->
  match spec_row parse sep line with
  | Some vs => read_row_std_vector parse sep (gs (comment_block cs ++ line ++ nl :: t)) = (gs t, inr vs)
  | None => exists e s', read_row_std_vector parse sep (gs (comment_block cs ++ line ++ nl :: t)) = (s', inl e) /\ Tail s' t
  end.
Proof.
  intros cs line t (Hwf & Hfit). pose proof (read_row_std_vector_spec64 cs line t Hwf) as H.
  unfold spec_row64 in H. rewrite Hfit in H. exact H.
Qed.

Theorem read_row_impl_spec : forall n cs line t, row_ok cs line ->
  match spec_row_n parse sep n line with
  | Some vs => read_row_impl parse sep n (gs (comment_block cs ++ line ++ nl :: t)) = (gs t, inr vs)
  | None => exists e s', read_row_impl parse sep n (gs (comment_block cs ++ line ++ nl :: t)) = (s', inl e) /\ Tail s' t
  end.
Proof.
  intros n cs line t (Hwf & Hfit). pose proof (read_row_impl_spec64 n cs line t Hwf) as H.
  unfold spec_row64_n in H. rewrite Hfit in H. exact H.
Qed.

(* corollary 2: an over-long token is rejected with a read error by both readers *)
Theorem overlong_rejected : forall cs line t, row_wf cs line -> fitsb (split sep line) = false ->
  (exists e s', read_row_std_vector parse sep (gs (comment_block cs ++ line ++ nl :: t)) = (s', inl e) /\ Tail s' t) /\
  (forall n, exists e s', read_row_impl parse sep n (gs (comment_block cs ++ line ++ nl :: t)) = (s', inl e) /\ Tail s' t).
Proof.
  intros cs line t Hwf Hfit. split.
  - pose proof (read_row_std_vector_spec64 cs line t Hwf) as H. unfold spec_row64 in H. rewrite Hfit in H. exact H.
  - intro n. pose proof (read_row_impl_spec64 n cs line t Hwf) as H. unfold spec_row64_n in H. rewrite Hfit in H. exact H.
Qed.

(* corollary 3: never silently altered numbers — whatever the field lengths, numbers that are returned are exactly
   the numbers the row denotes, and the stream then stands at the next row *)
Theorem no_silent_alteration : forall cs line t, row_wf cs line ->
  (forall s' vs, read_row_std_vector parse sep (gs (comment_block cs ++ line ++ nl :: t)) = (s', inr vs) ->
     spec_row parse sep line = Some vs /\ s' = gs t) /\
  (forall n s' vs, read_row_impl parse sep n (gs (comment_block cs ++ line ++ nl :: t)) = (s', inr vs) ->
     spec_row parse sep line = Some vs /\ length vs = n /\ s' = gs t).
Proof.
  intros cs line t Hwf. split.
  - intros s' vs H. pose proof (read_row_std_vector_spec64 cs line t Hwf) as HS. unfold spec_row64 in HS.
    destruct (fitsb (split sep line)).
    + destruct (spec_row parse sep line) as [ws|].
      * rewrite HS in H. inversion H; subst. split; reflexivity.
      * destruct HS as (e & s'' & HS & _). rewrite HS in H. discriminate.
    + destruct HS as (e & s'' & HS & _). rewrite HS in H. discriminate.
  - intros n s' vs H. pose proof (read_row_impl_spec64 n cs line t Hwf) as HS. unfold spec_row64_n, spec_row_n in HS.
    destruct (fitsb (split sep line)).
    + destruct (spec_row parse sep line) as [ws|].
      * destruct (Nat.eqb_spec (length ws) n).
        -- rewrite HS in H. inversion H; subst. repeat split; reflexivity.
        -- destruct HS as (e' & s'' & HS & _). rewrite HS in H. discriminate.
      * destruct HS as (e & s'' & HS & _). rewrite HS in H. discriminate.
    + destruct HS as (e & s'' & HS & _). rewrite HS in H. discriminate.
Qed.

End Proofs.

(* ---------------------------------------------------------------------------------------------- integer parser *)
(* the model of std::from_chars<long> satisfies the three hypotheses made about `parse` *)
Definition int_numch (c : ascii) : bool := int_char c || Ascii.eqb c plus.

Lemma take_digits_bound : forall l acc k m k', take_digits l acc k = (m, k') -> k' <= k + length l.
Proof.
  induction l as [|c l IH]; intros acc k m k' H; cbn [take_digits length] in *.
  - inversion H; lia.
  - destruct (is_digit c); [apply IH in H; lia|inversion H; lia].
Qed.

Lemma take_digits_local : forall a c b acc k, is_digit c = false ->
  take_digits (a ++ c :: b) acc k = take_digits a acc k.
Proof.
  induction a as [|d a IH]; intros c b acc k Hc; cbn [app take_digits].
  - rewrite Hc. reflexivity.
  - destruct (is_digit d); [apply IH; assumption|reflexivity].
Qed.

Lemma parse_Z_bound bd : forall l v k, parse_Z bd l = Some (v, k) -> k <= length l.
Proof.
  intros l v k. unfold parse_Z.
  destruct l as [|c r].
  - cbn. discriminate.
  - destruct (Ascii.eqb c minus).
    + destruct (take_digits r 0%Z 0) as [m k0] eqn:E. apply take_digits_bound in E.
      destruct (k0 =? 0); [discriminate|].
      destruct bd as [[lo hi]|]; [destruct ((lo <=? - m) && (- m <=? hi))%Z; [|discriminate]|];
        intro H; inversion H; subst; cbn [length]; lia.
    + destruct (take_digits (c :: r) 0%Z 0) as [m k0] eqn:E. apply take_digits_bound in E.
      destruct (k0 =? 0); [discriminate|].
      destruct bd as [[lo hi]|]; [destruct ((lo <=? m) && (m <=? hi))%Z; [|discriminate]|];
        intro H; inversion H; subst; lia.
Qed.

Lemma parse_Z_local bd : forall a c b, int_numch c = false -> parse_Z bd (a ++ c :: b) = parse_Z bd a.
Proof.
  intros a c b Hc. unfold int_numch, int_char in Hc.
  apply orb_false_elim in Hc. destruct Hc as [Hc _]. apply orb_false_elim in Hc. destruct Hc as [Hd Hm].
  unfold parse_Z. destruct a as [|d a]; cbn [app].
  - rewrite Hm. cbn [take_digits]. rewrite Hd. reflexivity.
  - destruct (Ascii.eqb d minus).
    + rewrite take_digits_local by assumption. reflexivity.
    + change (d :: a ++ c :: b) with ((d :: a) ++ c :: b). rewrite (take_digits_local (d :: a)) by assumption. reflexivity.
Qed.

Lemma parse_Z_nil bd : parse_Z bd [] = None.
Proof. reflexivity. Qed.

Lemma int_numch_plus : int_numch plus = true.
Proof. reflexivity. Qed.

(* ---------------------------------------------------------------------------------------------- print -> read *)
Section RoundTrip.
Context {V : Type}.
Variable parse : list ascii -> option (V * nat).
Variable to_chars : V -> list ascii.
Variable neg_or_nan : V -> bool.
Variable sep : ascii.
Variable numch : ascii -> bool.
Hypothesis parse_bound : forall l v k, parse l = Some (v, k) -> k <= length l.
Hypothesis parse_local : forall a c b, numch c = false -> parse (a ++ c :: b) = parse a.
Hypothesis parse_nil : parse [] = None.
Hypothesis sep_not_num : numch sep = false.
Hypothesis plus_num : numch plus = true.
Hypothesis nl_not_num : numch nl = false.
Hypothesis hash_not_num : numch hash = false.
(* std::to_chars writes only characters of the numeric alphabet, never starts with '+', is short, and
   std::from_chars reads the text back to the same value consuming all of it *)
Hypothesis to_chars_num : forall v c, In c (to_chars v) -> numch c = true.
Hypothesis to_chars_no_plus : forall v r, to_chars v <> plus :: r.
Hypothesis to_chars_short : forall v, S (length (to_chars v)) < bufmax.
Hypothesis parse_to_chars : forall v, parse (to_chars v) = Some (v, length (to_chars v)).

Notation pe := (print_elem to_chars neg_or_nan).

Lemma pe_num v c : In c (pe v) -> numch c = true.
Proof. unfold print_elem. destruct (neg_or_nan v); [apply to_chars_num|]. intros [<-|H]; [assumption|eapply to_chars_num; eassumption]. Qed.

Lemma pe_nonnil v : pe v <> [].
Proof.
  unfold print_elem. destruct (neg_or_nan v); [|discriminate].
  intro E. pose proof (parse_to_chars v) as H. rewrite E, parse_nil in H. discriminate.
Qed.

Lemma pe_parse v : parse_field parse (pe v) = Some v.
Proof.
  unfold parse_field, read_single, print_elem. destruct (neg_or_nan v).
  - destruct (to_chars v) as [|c r] eqn:E.
    + pose proof (parse_to_chars v) as H. rewrite E, parse_nil in H. discriminate.
    + replace (Ascii.eqb c plus) with false.
      2:{ symmetry. apply Ascii.eqb_neq. intro; subst. eapply to_chars_no_plus; eassumption. }
      rewrite <- E, parse_to_chars, Nat.eqb_refl. reflexivity.
  - rewrite Ascii.eqb_refl, parse_to_chars. cbn [length]. rewrite Nat.eqb_refl. reflexivity.
Qed.

Lemma notin_of_notnum c l : numch c = false -> (forall d, In d l -> numch d = true) -> ~ In c l.
Proof. intros Hc Hl Hi. apply Hl in Hi. congruence. Qed.

Lemma split_join_toks : forall toks : list (list ascii), toks <> [] -> Forall (fun f => ~ In sep f) toks ->
  split sep (join sep toks) = toks.
Proof.
  assert (Hone : forall f, ~ In sep f -> split sep f = [f]).
  { induction f as [|c f IH]; intro H; [reflexivity|]. cbn [split].
    replace (Ascii.eqb c sep) with false by (symmetry; apply Ascii.eqb_neq; intro; subst; apply H; left; reflexivity).
    rewrite IH by (intro; apply H; right; assumption). reflexivity. }
  assert (Happ : forall f r, ~ In sep f -> split sep (f ++ sep :: r) = f :: split sep r).
  { induction f as [|c f IH]; intros r H; cbn [app split].
    - rewrite Ascii.eqb_refl. reflexivity.
    - replace (Ascii.eqb c sep) with false by (symmetry; apply Ascii.eqb_neq; intro; subst; apply H; left; reflexivity).
      rewrite IH by (intro; apply H; right; assumption). reflexivity. }
  induction toks as [|f toks IH]; [congruence|]. intros _ Hs. inversion Hs; subst.
  destruct toks as [|f2 toks]; [apply Hone; assumption|].
  change (join sep (f :: f2 :: toks)) with (f ++ sep :: join sep (f2 :: toks)).
  rewrite Happ by assumption. rewrite IH by (assumption || discriminate). reflexivity.
Qed.

Lemma drop_last_empty_id : forall toks : list (list ascii), Forall (fun f => f <> []) toks -> drop_last_empty toks = toks.
Proof.
  induction toks as [|f toks IH]; [reflexivity|]. intro H. inversion H; subst.
  destruct toks as [|f2 toks].
  - cbn. destruct f; [congruence|reflexivity].
  - change (drop_last_empty (f :: f2 :: toks)) with (f :: drop_last_empty (f2 :: toks)). rewrite IH by assumption. reflexivity.
Qed.

Lemma mapM_pe vs : mapM (parse_field parse) (map pe vs) = Some vs.
Proof. induction vs as [|v vs IH]; [reflexivity|]. cbn [map mapM]. rewrite pe_parse, IH. reflexivity. Qed.

Lemma join_num : forall toks c, numch c = false -> c <> sep -> Forall (fun f => ~ In c f) toks -> ~ In c (join sep toks).
Proof.
  induction toks as [|f toks IH]; intros c Hc Hs H; [intros []|]. inversion H; subst.
  destruct toks as [|f2 toks]; [assumption|].
  change (join sep (f :: f2 :: toks)) with (f ++ sep :: join sep (f2 :: toks)).
  intro Hi. apply in_app_or in Hi. destruct Hi as [Hi|[Hi|Hi]]; [contradiction|congruence|].
  revert Hi. apply IH; assumption.
Qed.

(* what print_csv writes for one row is a row the reader accepts and reads back exactly *)
Lemma printed_line_spec : forall vs,
  spec_row parse sep (join sep (map pe vs)) = Some vs /\
  (sep <> nl -> forall cs, Forall (fun c => ~ In nl c) cs -> (vs = [] -> cs = []) -> row_ok sep cs (join sep (map pe vs))).
Proof.
  intro vs.
  assert (Hsepfree : Forall (fun f => ~ In sep f) (map pe vs)).
  { apply Forall_forall. intros f Hf. apply in_map_iff in Hf. destruct Hf as (v & <- & _).
    apply notin_of_notnum; [assumption|apply pe_num]. }
  destruct vs as [|v vs].
  - split; [reflexivity|]. intros Hsn cs Hcs He. rewrite (He eq_refl).
    repeat split; try (constructor; fail); try (intros []; fail); try discriminate.
  - assert (Hne : map pe (v :: vs) <> []) by discriminate.
    assert (Hsplit := split_join_toks _ Hne Hsepfree).
    split.
    + unfold spec_row, fields. rewrite Hsplit.
      rewrite drop_last_empty_id by (apply Forall_forall; intros f Hf; apply in_map_iff in Hf; destruct Hf as (w & <- & _); apply pe_nonnil).
      apply mapM_pe.
    + intros Hsn cs Hcs _. unfold row_ok, row_wf. rewrite Hsplit. repeat split; try assumption.
      * apply join_num; [assumption|congruence|].
        apply Forall_forall. intros f Hf. apply in_map_iff in Hf. destruct Hf as (w & <- & _).
        apply notin_of_notnum; [assumption|apply pe_num].
      * intros r E. cbn [map] in E. destruct (pe v) as [|c0 r0] eqn:Ep; [eapply pe_nonnil; eassumption|].
        assert (Hc0 : numch c0 = true) by (apply (pe_num v); rewrite Ep; left; reflexivity).
        assert (c0 = hash) by (destruct (map pe vs); cbn in E; congruence). subst c0. congruence.
      * intro E. exfalso. destruct (pe v) eqn:Ep; [eapply pe_nonnil; eassumption|]. cbn [map] in E. rewrite Ep in E.
        destruct (map pe vs); discriminate.
      * apply lt_fitsb. apply Forall_forall. intros f Hf. apply in_map_iff in Hf. destruct Hf as (w & <- & _).
        unfold print_elem. pose proof (to_chars_short w). destruct (neg_or_nan w); cbn [length]; lia.
Qed.

Theorem print_read_roundtrip : forall vs cs t, sep <> nl ->
  Forall (fun c => ~ In nl c) cs -> (vs = [] -> cs = []) ->
  read_row_std_vector parse sep (gs (comment_block cs ++ print_row to_chars neg_or_nan sep vs ++ t)) = (gs t, inr vs) /\
  read_row_impl parse sep (length vs) (gs (comment_block cs ++ print_row to_chars neg_or_nan sep vs ++ t)) = (gs t, inr vs).
Proof.
  intros vs cs t Hsn Hcs He. unfold print_row. rewrite <- app_assoc. cbn [app].
  destruct (printed_line_spec vs) as (Hspec & Hrow). specialize (Hrow Hsn cs Hcs He).
  split.
  - pose proof (read_row_std_vector_spec parse sep numch parse_bound parse_local sep_not_num plus_num cs _ t Hrow) as H.
    rewrite Hspec in H. exact H.
  - pose proof (read_row_impl_spec parse sep numch parse_bound parse_local parse_nil sep_not_num plus_num (length vs) cs _ t Hrow) as H.
    unfold spec_row_n in H. rewrite Hspec, Nat.eqb_refl in H. exact H.
Qed.

End RoundTrip.

(* ---------------------------------------------------------------------------------------------- next row unaffected *)
Lemma after_nl_tail : forall x t, ~ In nl x -> after_nl (x ++ nl :: t) = t.
Proof.
  induction x as [|c x IH]; intros t H; [reflexivity|]. cbn [app after_nl].
  rewrite eqb_nl_false by (intro; subst; apply H; left; reflexivity). apply IH. intro; apply H; right; assumption.
Qed.

Lemma Tail_resync s t : Tail s t -> rest (resync s) = t.
Proof. intros (x & E & Hn). unfold resync. cbn [rest]. rewrite E. apply after_nl_tail. assumption. Qed.

Section NextRow.
Context {V : Type}.
Variable parse : list ascii -> option (V * nat).
Variable sep : ascii.
Variable numch : ascii -> bool.
Hypothesis parse_bound : forall l v k, parse l = Some (v, k) -> k <= length l.
Hypothesis parse_local : forall a c b, numch c = false -> parse (a ++ c :: b) = parse a.
Hypothesis parse_nil : parse [] = None.
Hypothesis sep_not_num : numch sep = false.
Hypothesis plus_num : numch plus = true.

(* whatever the outcome, the bytes behind this row's newline are untouched: after success the stream IS the next
   row; after a read error, clear()+ignore(max,'\n') puts it there *)
Theorem next_row_unaffected : forall cs line t, row_wf cs line ->
  (forall s' r, read_row_std_vector parse sep (gs (comment_block cs ++ line ++ nl :: t)) = (s', r) ->
     match r with inr _ => s' = gs t | inl _ => rest (resync s') = t end) /\
  (forall n s' r, read_row_impl parse sep n (gs (comment_block cs ++ line ++ nl :: t)) = (s', r) ->
     match r with inr _ => s' = gs t | inl _ => rest (resync s') = t end).
Proof.
  intros cs line t Hrow. split.
  - intros s' r H.
    pose proof (read_row_std_vector_spec64 parse sep numch parse_bound parse_local sep_not_num plus_num cs line t Hrow) as HS.
    destruct (spec_row64 parse sep line).
    + rewrite HS in H. inversion H; subst. reflexivity.
    + destruct HS as (e & s'' & HS & HT). rewrite HS in H. inversion H; subst. apply Tail_resync. assumption.
  - intros n s' r H.
    pose proof (read_row_impl_spec64 parse sep numch parse_bound parse_local parse_nil sep_not_num plus_num n cs line t Hrow) as HS.
    destruct (spec_row64_n parse sep n line).
    + rewrite HS in H. inversion H; subst. reflexivity.
    + destruct HS as (e & s'' & HS & HT). rewrite HS in H. inversion H; subst. apply Tail_resync. assumption.
Qed.

(* documented deviation: an EMPTY row directly after a comment line is not returned as an empty row but rejected *)
Lemma empty_row_after_comment_rejected : forall t,
  exists s', read_row_std_vector parse sep (gs (hash :: nl :: nl :: t)) = (s', inl EExtraction) /\ rest s' = nl :: t.
Proof. intro t. eexists. vm_compute. split; reflexivity. Qed.

End NextRow.

(* ---------------------------------------------------------------------------------------------- concrete witnesses *)
Definition comma : ascii := ","%char.
Definition overlong_line : list ascii := "1"%char :: repeat "0"%char 70.

(* the former defect ("1" followed by 70 zeros was returned as [1e63, 0]) is now a read error; the newline stays *)
Lemma overlong_token_now_rejected :
  read_row_std_vector parse_bigint comma (gs (overlong_line ++ [nl])) = (gs (repeat "0"%char 7 ++ [nl]), inl ETooLong) /\
  read_row_impl parse_bigint comma 2 (gs (overlong_line ++ [nl])) = (gs (repeat "0"%char 7 ++ [nl]), inl ETooLong) /\
  spec_row64 parse_bigint comma overlong_line = None.
Proof. vm_compute. repeat split; reflexivity. Qed.

(* boundary: a 64-byte field is accepted when it ends the line, rejected when a separator follows *)
Lemma window_filling_field :
  read_row_std_vector parse_bigint comma (gs (repeat "0"%char 63 ++ ["7"%char; nl])) = (gs [], inr [7%Z]) /\
  (exists s', read_row_std_vector parse_bigint comma (gs (repeat "0"%char 63 ++ ["7"%char; comma; "1"%char; nl])) = (s', inl ETooLong)).
Proof. split; [vm_compute; reflexivity|eexists; vm_compute; reflexivity]. Qed.

(* non-vacuity: a 89-byte row behind a 101-byte comment satisfies row_ok and is read back *)
Definition nv_comment : list ascii := repeat "x"%char 100.
Definition nv_field : list ascii := ["1"; "2"; "3"; "4"; "5"; "6"; "7"; "8"]%char.
Definition nv_line : list ascii := join comma (repeat nv_field 10).
Definition nv_tail : list ascii := ["5"%char; nl].

Lemma forallb_notin : forall (c : ascii) l, forallb (fun d => negb (Ascii.eqb d c)) l = true -> ~ In c l.
Proof.
  intros c l H Hi. rewrite forallb_forall in H. specialize (H c Hi). rewrite Ascii.eqb_refl in H. discriminate.
Qed.

Lemma nv_row_ok : row_ok comma [nv_comment] nv_line.
Proof.
  unfold row_ok, row_wf. split; [split; [|split; [|split]]|].
  - constructor; [|constructor]. apply forallb_notin. vm_compute. reflexivity.
  - apply forallb_notin. vm_compute. reflexivity.
  - intros r E. vm_compute in E. discriminate.
  - intro E. vm_compute in E. discriminate.
  - vm_compute. reflexivity.
Qed.

Lemma nv_reads :
  length nv_line = 89 /\
  read_row_std_vector parse_int64 comma (gs (comment_block [nv_comment] ++ nv_line ++ nl :: nv_tail))
    = (gs nv_tail, inr (repeat 12345678%Z 10)) /\
  read_row_impl parse_int64 comma 9 (gs (comment_block [nv_comment] ++ nv_line ++ nl :: nv_tail))
    = (gs (nl :: nv_tail), inl ENotConsumed).
Proof. vm_compute. repeat split; reflexivity. Qed.
