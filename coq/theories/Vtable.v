(* Vtable.v — types of the tables that translate/gen_C04_vtable.py regenerates from the sources
   (problem/type-erased-problem.hpp, implementation/problem/type-erased-problem.tpp, CasADiProblem.tpp, the python
   CasADi generator) into coq/gen/VtableGen.v, and the boolean checkers the finite theorems are stated with. No proofs. *)
From Coq Require Import String List Bool ZArith.
Import ListNotations.
Local Open Scope string_scope.

(* what the body of a default_* does *)
Inductive dkind :=
| DThrows (name : string)                              (* throw not_implemented_error(name) and nothing else *)
| DComposes (callees : list string)                    (* calls other vtable entries / calc_ŷ_dᵀŷ *)
| DConditional (callees : list string) (name : string) (* forwards under a guard, otherwise throws not_implemented_error(name) *)
| DNoOp                                                (* empty body *)
| DOther.                                              (* returns a constant (dense sparsity, a name) *)

Record vmethod := mkVM {
  vm_name : string;
  vm_required : bool;                   (* required_function_t / optional_function_t *)
  vm_default : option string;           (* the default_* the field is initialised with *)
  vm_ctor : list string;                (* "required" / "optional": macros of the constructor that mention it *)
  vm_kind : option dkind;               (* body of default_<name> in the .tpp *)
  vm_provides : option (string * string) (* provides_<name>() { return vtable.A != vtable.B; } *)
}.

Record cascall := mkCas {
  cc_member : string;     (* CasADiProblem member function containing the call *)
  cc_fun : string;        (* impl-><fun> *)
  cc_loaded : string;     (* name it is loaded under *)
  cc_nin : Z;             (* number of inputs of its CasADiFunctionEvaluator *)
  cc_roles : list string; (* the arguments passed, by role: x p y Σ s zl zu v *)
  cc_dims : list string;  (* dims(...) it is validated against when loaded *)
  cc_decl : list string   (* input names declared by the python generator *)
}.

Definition calc_name : string := "calc_ŷ_dᵀŷ".
Definition lookup (tbl : list vmethod) (n : string) : option vmethod := find (fun m => vm_name m =? n) tbl.
Definition is_required (tbl : list vmethod) (n : string) : bool :=
  match lookup tbl n with Some m => vm_required m | None => false end.
Definition list_eqb (a b : list string) : bool :=
  (fix go a b := match a, b with [] , [] => true | x :: a', y :: b' => (x =? y) && go a' b' | _, _ => false end) a b.
Definition ostr_eqb (a : option string) (b : option string) : bool :=
  match a, b with Some x, Some y => x =? y | None, None => true | _, _ => false end.

(* (T1,T2,T3) required entries have no default and are registered with the REQUIRED macro; every optional entry starts
   with default_<its own name>, has a body for it, is registered with the OPTIONAL macro, and provides_<name> compares
   the entry with exactly that default *)
Definition chk_method (m : vmethod) : bool :=
  if vm_required m then
    ostr_eqb (vm_default m) None && list_eqb (vm_ctor m) ["required"] &&
    match vm_kind m, vm_provides m with None, None => true | _, _ => false end
  else
    ostr_eqb (vm_default m) (Some ("default_" ++ vm_name m)) && list_eqb (vm_ctor m) ["optional"] &&
    match vm_kind m with Some _ => true | None => false end &&
    match vm_provides m with Some (a, b) => (a =? vm_name m) && (b =? "default_" ++ vm_name m) | None => false end.

(* (T5) a default that throws does so under the name of its own entry *)
Definition chk_throw_name (m : vmethod) : bool :=
  match vm_kind m with
  | Some (DThrows s) | Some (DConditional _ s) => s =? vm_name m
  | _ => true
  end.

Definition callees_of (m : vmethod) : list string :=
  match vm_kind m with Some (DComposes c) | Some (DConditional c _) => c | _ => [] end.

(* (T4) call sites inside the defaults: (default, callee, passes the vtable?, argument names):
   the callee is reached THROUGH THE VTABLE (so the user's member is used iff provided) and is a known entry or calc;
   `self` is passed first; the vtable is passed on exactly to entries that may themselves be defaults (optional ones, calc) *)
Definition chk_site (tbl : list vmethod) (s : string * string * bool * list string) : bool :=
  let '(dflt, callee, passes_vt, args) := s in
  match args with
  | a0 :: _ => a0 =? "self"
  | [] => false
  end &&
  (if callee =? calc_name then passes_vt
   else match lookup tbl callee with
        | Some m => Bool.eqb passes_vt (negb (vm_required m))
        | None => false
        end).

(* no default reaches itself through the composition graph *)
Fixpoint reach (tbl : list vmethod) (fuel : nat) (n : string) : list string :=
  match fuel with
  | O => []
  | S f => match lookup tbl n with
           | Some m => callees_of m ++ flat_map (reach tbl f) (callees_of m)
           | None => []
           end
  end.
Definition chk_acyclic (tbl : list vmethod) (m : vmethod) : bool :=
  negb (existsb (fun c => c =? vm_name m) (reach tbl 6 (vm_name m))).

(* supports_X = provides_X || (m == 0 && provides_Y)  <->  default_X forwards to Y under a guard and otherwise throws *)
Definition chk_supports (tbl : list vmethod) (s : string * (string * string)) : bool :=
  let '(n, (a, b)) := s in
  (a =? n) &&
  match lookup tbl n with
  | Some m => match vm_kind m with Some (DConditional [c] _) => c =? b | _ => false end
  | None => false
  end.

(* TypeErasedProblem::X(params) { return call(vtable.X, params); } *)
Definition chk_forwarder (f : string * list string * string * list string) : bool :=
  let '(n, ps, callee, args) := f in (callee =? n) && list_eqb ps args.

(* CasADi call sites *)
Definition role_dim (r : string) : string :=
  if (r =? "x") || (r =? "v") then "n" else if r =? "p" then "p" else if r =? "s" then "1"
  else if (r =? "y") || (r =? "Σ") || (r =? "zl") || (r =? "zu") then "m" else "?".
Definition chk_casadi (c : cascall) : bool :=
  (* every argument has a recognised role, D.lowerbound is passed as zl and D.upperbound as zu in the declared positions *)
  forallb (fun r => negb (role_dim r =? "?")) (cc_roles c) &&
  (if cc_loaded c =? "<not loaded>" then true
   else Z.eqb (cc_nin c) (Z.of_nat (length (cc_roles c))) && list_eqb (cc_dims c) (map role_dim (cc_roles c))) &&
  (if list_eqb (cc_decl c) ["<no declaration>"] then true else list_eqb (cc_decl c) (cc_roles c)).
