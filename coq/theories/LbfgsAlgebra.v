(* LbfgsAlgebra.v — the L-BFGS model over the reals (C09):
   update_valid = documented test; stored ρ stays 1/(yᵀs) under EVERY operation (apply_masked included: it only
   writes the workspace α); apply = dense BFGS inverse Hessian of the stored pairs with the documented initial
   scaling, after any interleaving of operations; H is symmetric, satisfies the secant equation, is positive
   definite under positive curvature; the former F7 witness (apply after apply_masked) now gives H q. *)
From Coq Require Import Reals List ZArith Bool Arith Lia Lra Psatz.
From Flocq Require Import Raux.
From Alpaqa Require Import Num NumR Vec Lbfgs LbfgsProofs.
Import ListNotations.
Local Open Scope R_scope.

(* ---------------------------------------------------------------- vectors over R *)
Fixpoint rdot (a b : list R) : R :=
  match a, b with x :: a', y :: b' => x * y + rdot a' b' | _, _ => 0 end.

Lemma fold_left_Rplus_acc v a : fold_left Rplus v a = a + fold_left Rplus v 0.
Proof. revert a; induction v as [|x v IH]; intros a; cbn; [lra|]. rewrite IH, (IH (0 + x)). lra. Qed.
Lemma vsum_cons (x : R) v : vsum (x :: v) = x + vsum v.
Proof.
  unfold vsum, redux. change nadd with Rplus. destruct v as [|y v]; cbn [fold_left]; [change (@n0 R _) with 0; lra|].
  rewrite fold_left_Rplus_acc, (fold_left_Rplus_acc v y). lra.
Qed.
Lemma vdot_rdot (a b : list R) : vdot a b = rdot a b.
Proof.
  unfold vdot, vmul. revert b; induction a as [|x a IH]; intros [|y b]; cbn [map2 rdot]; try reflexivity.
  rewrite vsum_cons, IH. reflexivity.
Qed.
Lemma vsqnorm_rdot (a : list R) : vsqnorm a = rdot a a.
Proof.
  unfold vsqnorm. induction a as [|x a IH]; cbn [map rdot]; [reflexivity|]. rewrite vsum_cons, IH. reflexivity.
Qed.

Definition raxmy (a : R) (x q : list R) : list R := map2 (fun qi xi => qi - a * xi) q x.
Lemma axmy_raxmy a x q : axmy a x q = raxmy a x q.
Proof.
  unfold axmy, raxmy, vsub, vscale. revert x; induction q as [|u q IH]; intros [|v x]; cbn [map map2]; try reflexivity.
  rewrite IH. reflexivity.
Qed.
Lemma vscale_R (a : R) v : vscale a v = map (Rmult a) v.
Proof. reflexivity. Qed.

Lemma rdot_comm a b : rdot a b = rdot b a.
Proof. revert b; induction a as [|x a IH]; intros [|y b]; cbn; try reflexivity. rewrite IH. lra. Qed.
Lemma rdot_raxmy_l a x q v : length x = length q -> rdot (raxmy a x q) v = rdot q v - a * rdot x v.
Proof.
  unfold raxmy. revert x v; induction q as [|u q IH]; intros [|w x] [|z v] Hl; cbn in *; try discriminate; try lra.
  rewrite IH by lia. lra.
Qed.
Lemma rdot_raxmy_r a x q v : length x = length q -> rdot v (raxmy a x q) = rdot v q - a * rdot v x.
Proof. intros. rewrite rdot_comm, rdot_raxmy_l, (rdot_comm q), (rdot_comm x) by assumption. reflexivity. Qed.
Lemma rdot_scale_l a q v : rdot (map (Rmult a) q) v = a * rdot q v.
Proof. revert v; induction q as [|u q IH]; intros [|z v]; cbn; try lra. rewrite IH. lra. Qed.
Lemma rdot_scale_r a q v : rdot v (map (Rmult a) q) = a * rdot v q.
Proof. rewrite rdot_comm, rdot_scale_l, rdot_comm. reflexivity. Qed.
Lemma rdot_map_mul_r f y s : rdot (map (fun x => x * f) y) s = f * rdot y s.
Proof. revert s; induction y as [|u y IH]; intros [|z s]; cbn; try lra. rewrite IH. lra. Qed.
Lemma raxmy_length a x q : length x = length q -> length (raxmy a x q) = length q.
Proof. unfold raxmy. revert x; induction q; intros [|] Hl; cbn in *; try discriminate; auto. Qed.
Lemma rdot_self_nonneg v : 0 <= rdot v v.
Proof. induction v; cbn; [lra|]. nra. Qed.
Lemma rdot_zeros_l n v : rdot (repeat 0 n) v = 0.
Proof. revert v; induction n; intros [|z v]; cbn; try lra. rewrite IHn. lra. Qed.
Lemma raxmy_self y : raxmy 1 y y = repeat 0 (length y).
Proof. unfold raxmy. induction y; cbn; [reflexivity|]. rewrite IHy. f_equal. lra. Qed.
Lemma raxmy_zeros a x n : length x = n -> raxmy a x (repeat 0 n) = map (Rmult (- a)) x.
Proof. unfold raxmy. revert x; induction n; intros [|u x] Hl; cbn in *; try discriminate; auto. rewrite IHn by lia. f_equal. lra. Qed.
Lemma map_Rmult_1 x : map (Rmult 1) x = x.
Proof. induction x; cbn; [reflexivity|]. rewrite IHx. f_equal. lra. Qed.
Lemma map_Rmult_0 x : map (Rmult 0) x = repeat 0 (length x).
Proof. induction x; cbn; [reflexivity|]. rewrite IHx. f_equal. lra. Qed.
Lemma map_Rmult_zeros a n : map (Rmult a) (repeat 0 n) = repeat 0 n.
Proof. induction n; cbn; [reflexivity|]. rewrite IHn. f_equal. lra. Qed.

(* ---------------------------------------------------------------- the BFGS operator over R *)
Definition wf (n : nat) (h : list (pair R)) : Prop := Forall (fun p => length (fst p) = n /\ length (snd p) = n) h.

(* Hop unfolded with rdot / raxmy *)
Lemma Hop_nil γ v : Hop [] γ v = map (Rmult γ) v.
Proof. reflexivity. Qed.
Lemma Hop_cons s y older γ v :
  Hop ((s, y) :: older) γ v =
  let ρ := 1 / rdot y s in
  let a := ρ * rdot s v in
  let r := Hop older γ (raxmy a y v) in
  raxmy (ρ * rdot y r - a) s r.
Proof. cbn [Hop]. cbn zeta. rewrite !vdot_rdot, !axmy_raxmy. reflexivity. Qed.

Lemma Hop_length n h γ : wf n h -> forall v, length v = n -> length (Hop h γ v) = n.
Proof.
  induction 1 as [|[s y] h [Hs Hy] Hh IH]; intros v Hv.
  - rewrite Hop_nil, map_length. exact Hv.
  - rewrite Hop_cons. cbn zeta. cbn [fst snd] in *.
    rewrite raxmy_length; rewrite IH; auto; rewrite raxmy_length; congruence.
Qed.

(* symmetry: ⟨H u, v⟩ = ⟨u, H v⟩ *)
Theorem Hop_symmetric n h γ : wf n h -> forall u v, length u = n -> length v = n ->
  rdot (Hop h γ u) v = rdot u (Hop h γ v).
Proof.
  induction 1 as [|[s y] h [Hs Hy] Hh IH]; intros u v Hu Hv.
  - rewrite !Hop_nil, rdot_scale_l, rdot_scale_r. reflexivity.
  - rewrite !Hop_cons. cbn zeta. cbn [fst snd] in *.
    set (ρ := 1 / rdot y s). set (au := ρ * rdot s u). set (av := ρ * rdot s v).
    set (Vu := raxmy au y u). set (Vv := raxmy av y v).
    assert (HVu : length Vu = n) by (unfold Vu; rewrite raxmy_length; congruence).
    assert (HVv : length Vv = n) by (unfold Vv; rewrite raxmy_length; congruence).
    set (ru := Hop h γ Vu). set (rv := Hop h γ Vv).
    assert (Hru : length ru = n) by (apply Hop_length; auto).
    assert (Hrv : length rv = n) by (apply Hop_length; auto).
    rewrite rdot_raxmy_l, rdot_raxmy_r by congruence.
    pose proof (IH Vu Vv HVu HVv) as E. fold ru rv in E.
    unfold Vv in E at 1. unfold Vu in E at 1.
    rewrite rdot_raxmy_r, rdot_raxmy_l in E by congruence.
    rewrite (rdot_comm ru y) in E. rewrite (rdot_comm u s).
    unfold au, av in *. nra.
Qed.

(* quadratic form: ⟨H⁺ v, v⟩ = ⟨H (Vv), Vv⟩ + ρ (sᵀv)² *)
Lemma Hop_quad n s y h γ v : wf n h -> length s = n -> length y = n -> length v = n ->
  let ρ := 1 / rdot y s in
  let Vv := raxmy (ρ * rdot s v) y v in
  rdot (Hop ((s, y) :: h) γ v) v = rdot (Hop h γ Vv) Vv + ρ * (rdot s v) ^ 2.
Proof.
  intros Hh Hs Hy Hv. cbn zeta. rewrite Hop_cons. cbn zeta.
  set (ρ := 1 / rdot y s). set (a := ρ * rdot s v). set (Vv := raxmy a y v).
  assert (HVv : length Vv = n) by (unfold Vv; rewrite raxmy_length; congruence).
  set (r := Hop h γ Vv). assert (Hr : length r = n) by (apply Hop_length; auto).
  rewrite rdot_raxmy_l by congruence. unfold Vv at 1. rewrite rdot_raxmy_r by congruence.
  rewrite (rdot_comm r y). unfold a. ring.
Qed.

Theorem Hop_posdef n h γ : wf n h -> 0 < γ -> Forall (fun p => 0 < rdot (snd p) (fst p)) h ->
  forall v, length v = n -> 0 <= rdot (Hop h γ v) v /\ (0 < rdot v v -> 0 < rdot (Hop h γ v) v).
Proof.
  intros Hwf Hγ Hpos. induction Hwf as [|[s y] h [Hs Hy] Hh IH]; intros v Hv.
  - rewrite Hop_nil, rdot_scale_l. pose proof (rdot_self_nonneg v). split; [nra|intros; nra].
  - apply Forall_cons_iff in Hpos as [Hys Hpos']. cbn [fst snd] in *.
    rewrite (Hop_quad n) by assumption. cbn zeta.
    set (ρ := 1 / rdot y s). set (a := ρ * rdot s v). set (Vv := raxmy a y v).
    assert (HVv : length Vv = n) by (unfold Vv; rewrite raxmy_length; congruence).
    assert (Hρ : 0 < ρ) by (unfold ρ; apply Rdiv_lt_0_compat; lra).
    destruct (IH Hpos' Vv HVv) as [Hnn Hp].
    pose proof (pow2_ge_0 (rdot s v)) as Hsq.
    split; [nra|]. intros Hvv.
    destruct (Rle_lt_or_eq_dec 0 (rdot Vv Vv) (rdot_self_nonneg Vv)) as [Hlt|Heq].
    + specialize (Hp Hlt). nra.
    + (* Vv = 0 (in norm): then sᵀv ≠ 0, otherwise ‖Vv‖² = ‖v‖² > 0 *)
      assert (Hne : rdot s v <> 0).
      { intros E0. unfold Vv, a in Heq. rewrite E0 in Heq.
        rewrite rdot_raxmy_l, rdot_raxmy_r in Heq by congruence. lra. }
      assert (0 < (rdot s v) ^ 2) by (apply pow_nonzero with (n := 2%nat) in Hne; pose proof (pow2_ge_0 (rdot s v)); lra). nra.
Qed.

(* H of the zero vector *)
Lemma Hop_zeros n h γ : wf n h -> Hop h γ (repeat 0 n) = repeat 0 n.
Proof.
  induction 1 as [|[s y] h [Hs Hy] Hh IH].
  - rewrite Hop_nil. apply map_Rmult_zeros.
  - rewrite Hop_cons. cbn zeta. cbn [fst snd] in *.
    rewrite (rdot_comm s (repeat 0 n)), rdot_zeros_l, Rmult_0_r.
    rewrite (raxmy_zeros 0 y n Hy), Ropp_0, map_Rmult_0, Hy, IH.
    rewrite (rdot_comm y (repeat 0 n)), rdot_zeros_l, Rmult_0_r, (raxmy_zeros _ s n Hs).
    replace (- (0 - 0)) with 0 by lra. rewrite map_Rmult_0, Hs. reflexivity.
Qed.

(* secant equation for the newest pair *)
Theorem Hop_secant n s y h γ : wf n h -> length s = n -> length y = n -> rdot y s <> 0 ->
  Hop ((s, y) :: h) γ y = s.
Proof.
  intros Hh Hs Hy Hne. rewrite Hop_cons. cbn zeta.
  assert (E1 : 1 / rdot y s * rdot s y = 1) by (rewrite (rdot_comm s y); field; exact Hne).
  rewrite E1, raxmy_self, Hy, (Hop_zeros n) by assumption.
  rewrite (rdot_comm y (repeat 0 n)), rdot_zeros_l, Rmult_0_r, (raxmy_zeros _ s n Hs).
  replace (- (0 - 1)) with 1 by lra. apply map_Rmult_1.
Qed.

(* ---------------------------------------------------------------- update_valid = the documented test *)
Theorem update_valid_spec (pw : R -> R -> R) (P : params R) (yts sts ptp : R) :
  let a := if p_force_pos_def P then yts else Rabs yts in
  update_valid pw P yts sts ptp = true <->
  (p_min_abs_s P < sts /\ p_min_div_fac P * sts < a /\
   (0 < p_cbfgs_ϵ P -> sts * p_cbfgs_ϵ P * pw ptp (p_cbfgs_α P / 2) <= a)).
Proof.
  cbn zeta. unfold update_valid, cbfgs_on. numR. replace (1 + 1) with 2 by lra.
  destruct (p_force_pos_def P); rbool; cbn [negb]; split; intros Hx; try discriminate; try reflexivity;
    try (repeat split; intros; lra); try (destruct Hx as (? & ? & Hc); try lra; specialize (Hc ltac:(lra)); lra).
Qed.

(* with force_pos_def and nonnegative thresholds every accepted (non-forced) pair has positive curvature *)
Theorem accepted_positive_curvature pw (P : params R) yts sts ptp :
  p_force_pos_def P = true -> 0 <= p_min_div_fac P -> 0 <= p_min_abs_s P ->
  update_valid pw P yts sts ptp = true -> 0 < yts.
Proof.
  intros Hf H1 H2 Hv. apply update_valid_spec in Hv. rewrite Hf in Hv. destruct Hv as (Ha & Hb & _). nra.
Qed.

(* ---------------------------------------------------------------- stored ρ = 1/(yᵀs), for every operation *)
Section RhoInv.
  Variable pw : R -> R -> R.
  Variable P : params R.

  Lemma step_rho_ok st o :
    inv P st -> rho_ok st -> rho_ok (fst (step pw P st o)).
  Proof.
    intros Hinv Hr. unfold rho_ok in *.
    destruct o as [s y pp forced|xk xn pk pn sg forced|q γ|q γ J| |n|f]; cbn [step].
    - pose proof (update_sy_spec pw P st s y pp forced Hinv) as (_ & _ & Hf & Ht). cbn zeta in *.
      destruct (update_sy pw P st s y pp forced) as [[|] st']; cbn [fst snd] in *.
      + rewrite Ht by reflexivity. apply Forall_push; auto. reflexivity.
      + rewrite Hf by reflexivity. exact Hr.
    - unfold update.
      match goal with |- context [update_sy pw P st ?s ?y ?pp forced] =>
        pose proof (update_sy_spec pw P st s y pp forced Hinv) as (_ & _ & Hf & Ht); cbn zeta in *;
        destruct (update_sy pw P st s y pp forced) as [[|] st']; cbn [fst snd] in * end.
      + rewrite Ht by reflexivity. apply Forall_push; auto. reflexivity.
      + rewrite Hf by reflexivity. exact Hr.
    - pose proof (apply_spec P st q γ) as (_ & Hh & _). cbn zeta in *.
      destruct (apply P st q γ) as [[b q'] st']. cbn [fst snd] in *. rewrite Hh. exact Hr.
    - (* apply_masked: the stored (s, y, ρ) are not written *)
      pose proof (apply_masked_spec pw P st q γ J) as (_ & _ & Hh & _). cbn zeta in *.
      destruct (apply_masked pw P st q γ J) as [[b q'] st']. cbn [fst snd] in *. rewrite Hh. exact Hr.
    - cbn [fst]. destruct (reset_spec P st Hinv) as [_ Hh]. rewrite Hh. constructor.
    - destruct (resize P n) as [st'|] eqn:Hz; cbn [fst]; [|exact Hr]. rewrite (resize_hist3 _ _ _ Hz). constructor.
    - cbn [fst]. destruct (scale_y_spec P st f Hinv) as [_ Hh]. rewrite Hh.
      apply Forall_map. eapply Forall_impl; [|exact Hr]. intros [[s y] r] Hok. unfold ρ_ok3, scale3 in *. cbn [fst snd] in *.
      subst r. cbn [option_map]. f_equal. rewrite !vdot_rdot, rdot_map_mul_r. numR.
      unfold Rdiv. rewrite !Rmult_1_l, Rinv_mult. ring.
  Qed.

  Lemma run_rho_ok ops : forall st, inv P st -> rho_ok st ->
    inv P (run pw P ops st) /\ rho_ok (run pw P ops st).
  Proof.
    induction ops as [|o ops IH]; intros st Hinv Hr; cbn [run fold_left]; [auto|].
    destruct (step_refines pw P st o Hinv) as [Hi _].
    apply IH; auto. apply step_rho_ok; auto.
  Qed.

  (* apply_masked leaves the abstract history AND its stored ρ alone *)
  Theorem apply_masked_keeps_history st q γ J :
    let st' := snd (apply_masked pw P st q γ J) in
    hist3 st' = hist3 st /\
    (forall j, sl_s (get st' j) = sl_s (get st j) /\ sl_y (get st' j) = sl_y (get st j) /\ sl_ρ (get st' j) = sl_ρ (get st j)) /\
    current_history st' = current_history st /\
    (rho_ok st -> rho_ok st').
  Proof.
    cbn zeta. pose proof (apply_masked_spec pw P st q γ J) as (Hs & Hg & Hh & _). cbn zeta in *.
    split; [exact Hh|]. split.
    - intros j. specialize (Hg j). unfold syρ in Hg. injection Hg as -> -> ->. auto.
    - split.
      + destruct Hs as (_ & Hi & Hf & Hl). unfold current_history. rewrite Hi, Hf, Hl. reflexivity.
      + unfold rho_ok. rewrite Hh. auto.
  Qed.

  (* the γ used by apply is the documented scaling *)
  Lemma apply_γ_doc st γ : inv P st -> rho_ok st -> is_empty st = false ->
    apply_γ P st γ = doc_γ P (pairs st) γ.
  Proof.
    intros Hinv Hr He. unfold apply_γ, doc_γ.
    destruct (p_curvature P || (γ <? n0)%num); [|reflexivity].
    destruct (head_rev_idx P st Hinv He) as [l Hl].
    assert (Hrev : rev (hist st) = get st (pred st (st_idx st)) :: map (get st) l).
    { unfold hist. rewrite <- map_rev, <- rev_idx_is_rev_fwd, Hl. reflexivity. }
    unfold pairs. rewrite <- map_rev, Hrev. cbn [map].
    assert (Hok : ρ_ok3 (syρ (get st (pred st (st_idx st))))).
    { unfold rho_ok, hist3 in Hr. rewrite Forall_map in Hr. rewrite Forall_forall in Hr. apply Hr.
      apply in_rev. rewrite Hrev. left; reflexivity. }
    unfold ρ_ok3, syρ in Hok. cbn [fst snd] in Hok. rewrite Hok. cbn [ρval].
    rewrite !vdot_rdot, !vsqnorm_rdot. numR. unfold Rdiv. rewrite !Rmult_1_l, Rinv_mult, Rinv_inv. reflexivity.
  Qed.

  (* apply on a state whose stored ρ are intact = dense BFGS operator of the stored pairs *)
  Theorem apply_is_H st q γ :
    inv P st -> rho_ok st ->
    let r := apply P st q γ in
    if is_empty st then r = (false, q, st)
    else fst (fst r) = true /\ snd (fst r) = Hbfgs (pairs st) (doc_γ P (pairs st) γ) q.
  Proof.
    intros Hinv Hr. cbn zeta. destruct (is_empty st) eqn:He.
    - unfold apply. rewrite He. reflexivity.
    - destruct (apply_is_TLrec P st q γ Hinv He) as [Hb Hq]. split; [exact Hb|].
      rewrite Hq, (apply_γ_doc st γ Hinv Hr He). unfold Hbfgs, pairs. rewrite <- map_rev.
      rewrite TLrec_Hop; [reflexivity|].
      apply Forall_rev. unfold rho_ok, hist3 in Hr. rewrite Forall_map in Hr. exact Hr.
  Qed.

  (* end to end: ANY sequence of operations (apply_masked included), from construction *)
  Theorem apply_after_any_history n st0 ops q γ :
    resize P n = Some st0 ->
    let st := run pw P ops st0 in
    let h := abs_run pw P ops [] in
    let o := snd (step pw P st (OApply q γ)) in
    match h with
    | [] => o_ret o = 0%nat /\ o_q o = q
    | _ => o_ret o = 1%nat /\ o_q o = Hbfgs h (doc_γ P h γ) q
    end.
  Proof.
    intros Hz. cbn zeta.
    pose proof (resize_inv _ _ _ Hz) as Hinv0.
    assert (Hr0 : rho_ok st0) by (unfold rho_ok; rewrite (resize_hist3 _ _ _ Hz); constructor).
    destruct (run_rho_ok ops st0 Hinv0 Hr0) as [Hinv Hr].
    destruct (ring_refinement pw P n st0 ops Hz) as (Hp & Hc & _). cbn zeta in Hp, Hc.
    set (st := run pw P ops st0) in *. rewrite <- Hp.
    pose proof (apply_is_H st q γ Hinv Hr) as Ha. cbn zeta in Ha. cbn [step].
    assert (Hemp : is_empty st = true <-> pairs st = []).
    { destruct (current_history_length P st Hinv) as [Hcl _].
      unfold is_empty, current_history in *. unfold pairs. destruct (hist st) eqn:Hh; cbn [map length] in *.
      - split; [reflexivity|]. intros _. destruct (st_full st); [destruct Hinv as (? & ? & ?); lia|]. rewrite Hcl. reflexivity.
      - split; [|discriminate]. destruct (st_full st); cbn; rewrite ?andb_false_r; try discriminate.
        rewrite Hcl. discriminate. }
    destruct (is_empty st) eqn:He.
    - rewrite Ha. rewrite (proj1 Hemp eq_refl). cbn. split; reflexivity.
    - destruct (apply P st q γ) as [[b q'] st'] eqn:Hap. cbn [fst snd] in *. destruct Ha as [-> ->].
      destruct (pairs st) eqn:Hps; [exfalso; destruct Hemp as [_ Hx]; specialize (Hx eq_refl); discriminate|].
      split; reflexivity.
  Qed.
End RhoInv.

(* curvature scaling of the newest pair *)
Lemma curvature_scaling (P : params R) h s y γ :
  p_curvature P = true \/ γ < 0 -> doc_γ P (h ++ [(s, y)]) γ = rdot s y / rdot y y.
Proof.
  intros Hc. unfold doc_γ. rewrite rev_app_distr. cbn [rev app].
  assert (Hb : (p_curvature P || (γ <? n0)%num) = true).
  { destruct Hc as [->|Hlt]; [reflexivity|]. numR. rewrite (proj2 (Rlt_bool_iff _ _) Hlt). apply orb_true_r. }
  rewrite Hb, vdot_rdot, vsqnorm_rdot, (rdot_comm y s). reflexivity.
Qed.

(* ---------------------------------------------------------------- former F7 witness: apply after apply_masked IS H of the stored pairs *)
Definition wP : params R := {| p_memory := 2; p_min_div_fac := 0; p_min_abs_s := 0; p_cbfgs_α := 1; p_cbfgs_ϵ := 0;
                               p_force_pos_def := true; p_curvature := false |}.
Definition wpw : R -> R -> R := fun _ _ => 0.
Definition wops : list (op R) := [OUpdSy [1; 1] [2; 1] 0 false; OApplyM [1; 0] (-1) [0%nat]].
Definition wst0 : state R := {| st_n := 2; st_idx := 0; st_full := false; st_slots := repeat (slot0 2) 2 |}.

Ltac rb := repeat (match goal with
  | |- context [Rle_bool ?a ?b] => (rewrite (Rle_bool_true a b) by lra) || (rewrite (Rle_bool_false a b) by lra)
  | |- context [Rlt_bool ?a ?b] => (rewrite (Rlt_bool_true a b) by lra) || (rewrite (Rlt_bool_false a b) by lra)
  end; cbv iota beta).
Ltac rcompute := cbv -[Rplus Rminus Rmult Rdiv Rinv Ropp Rle_bool Rlt_bool Req_bool Rabs IZR]; rb.

Lemma w_resize : resize wP 2 = Some wst0.
Proof. reflexivity. Qed.
(* what the model (= the code) returns for apply([1,0], γ=-1) after update(s=[1,1], y=[2,1]); apply_masked([1,0], -1, J={0}) *)
Lemma w_apply : snd (step wpw wP (run wpw wP wops wst0) (OApply [1; 0] (-1))) = {| o_ret := 1; o_q := [7/15; 1/15] |}.
Proof. rcompute. apply f_equal2; [reflexivity|]. apply f_equal2; [lra|apply f_equal2; [lra|reflexivity]]. Qed.
(* the masked call itself succeeded and worked on J = {0} only: q(J) = (s₀y₀/y₀²)·1 ... = [1/2], q(1) untouched *)
Lemma w_masked : snd (step wpw wP (run wpw wP [OUpdSy [1; 1] [2; 1] 0 false] wst0) (OApplyM [1; 0] (-1) [0%nat])) = {| o_ret := 1; o_q := [1/2; 0] |}.
Proof. rcompute. apply f_equal2; [reflexivity|]. apply f_equal2; [lra|reflexivity]. Qed.
(* the stored pair is still (s, y) = ([1,1], [2,1]) *)
Lemma w_pairs : pairs (run wpw wP wops wst0) = [([1; 1], [2; 1])].
Proof. rcompute. reflexivity. Qed.
(* the dense BFGS inverse Hessian of that pair, H₀ = (sᵀy/yᵀy) I, applied to [1,0] *)
Lemma w_H : Hbfgs [([1; 1], [2; 1])] (doc_γ wP [([1; 1], [2; 1])] (-1)) [1; 0] = [7/15; 1/15].
Proof. rcompute. apply f_equal2; [lra|apply f_equal2; [lra|reflexivity]]. Qed.
(* the ρ found in storage afterwards is still 1/(yᵀs) = 1/3 (the J-restricted 1/(s₀y₀) = 1/2 stayed local) *)
Lemma w_rho : map (fun sl => ρval (sl_ρ sl)) (hist (run wpw wP wops wst0)) = [1/3].
Proof. rcompute. apply f_equal2; [lra|reflexivity]. Qed.

Lemma apply_after_masked_witness :
  resize wP 2 = Some wst0 /\ has_masked wops = true /\
  let st := run wpw wP wops wst0 in
  pairs st = [([1; 1], [2; 1])] /\
  map (fun sl => ρval (sl_ρ sl)) (hist st) = [1/3] /\
  snd (step wpw wP st (OApply [1; 0] (-1))) = {| o_ret := 1; o_q := [7/15; 1/15] |} /\
  Hbfgs (pairs st) (doc_γ wP (pairs st) (-1)) [1; 0] = [7/15; 1/15].
Proof.
  split; [reflexivity|]. split; [reflexivity|]. cbn zeta.
  split; [exact w_pairs|]. split; [exact w_rho|]. split; [exact w_apply|]. rewrite w_pairs. exact w_H.
Qed.
